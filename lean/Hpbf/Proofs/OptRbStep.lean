/-
Rebuild-round proofs, part 7: the step lemmas at the level of machine states for the non-loop arms of
`rebuildInstr` (`output`, `input`, `calc`), in the form `StepOk`: the newly emitted instructions simulate the
source instruction, and the end states are again related.
-/
import Hpbf.Proofs.OptRbRel
import Hpbf.Proofs.OptRbEmit
import Hpbf.Proofs.OptRbAdeq

namespace Hpbf
namespace OptProof
open Opt OptSem Ir

variable {w : Nat}

/-- End-state relation of a step: related through `s'`; while no uncertain move has happened the reference
memory `M0` and the pointer of the emitted program are the ones from before the step. -/
def StepQ (sh' : Int) (ps : List (Rebuild w)) (s' : Rebuild w) (M0 : Mem w) (σE : State w)
    (σS' σE' : State w) : Prop :=
  ∃ M0', RelAt sh' s' ps M0' σE' σS' ∧ (s'.subShift = false → M0' = M0 ∧ σE'.ptr = σE.ptr)

/-- `s'` extends `s` by instructions that simulate the source instructions `src`; the source program's pointer
is `sh` (before) / `sh'` (after) cells to the right of the emitted program's pointer. -/
def StepAt (sh sh' : Int) (ps : List (Rebuild w)) (s s' : Rebuild w) (src : List (Instr w)) : Prop :=
  ∃ new, s'.insts = s.insts ++ new ∧ (s'.subShift = false → s.subShift = false) ∧
    ∀ M0 σE σS, RelAt sh s ps M0 σE σS →
      Sim (StepQ sh' ps s' M0 σE) src new σS σE ∧ ¬ Bad new σE

/-- `StepAt` with the emitted instructions exposed and a guard `G` on the source states considered (facts that
hold for the source states that really occur at this point). -/
def StepNG (G : State w → Prop) (sh sh' : Int) (ps : List (Rebuild w)) (s s' : Rebuild w)
    (src new : List (Instr w)) : Prop :=
  (s'.subShift = false → s.subShift = false) ∧
  ∀ M0 σE σS, RelAt sh s ps M0 σE σS → G σS → Sim (StepQ sh' ps s' M0 σE) src new σS σE ∧ ¬ Bad new σE

/-- The same for the program being rebuilt (pointer offsets = `shift`). -/
abbrev StepOk (ps : List (Rebuild w)) (s s' : Rebuild w) (src : List (Instr w)) : Prop :=
  StepAt s.shift s'.shift ps s s' src

/-- Instruction lists without `loop` / `ifnz` never reach a `once` loop. -/
theorem not_bad_of_noBlocks {l : List (Instr w)} (hl : ∀ i ∈ l, C01Dse.isBlock i = false) (σ : State w) :
    ¬ Bad l σ := by
  intro h
  induction h with
  | here _ => simpa [C01Dse.isBlock] using hl _ (List.mem_cons_self)
  | outOk _ _ ih => exact ih (fun i hi => hl i (List.mem_cons_of_mem _ hi))
  | inOk _ _ ih => exact ih (fun i hi => hl i (List.mem_cons_of_mem _ hi))
  | «calc» _ ih => exact ih (fun i hi => hl i (List.mem_cons_of_mem _ hi))
  | loopSkip _ _ _ => simpa [C01Dse.isBlock] using hl _ (List.mem_cons_self)
  | loopIter _ _ _ _ => simpa [C01Dse.isBlock] using hl _ (List.mem_cons_self)
  | loopIn _ _ _ => simpa [C01Dse.isBlock] using hl _ (List.mem_cons_self)
  | ifSkip _ _ _ => simpa [C01Dse.isBlock] using hl _ (List.mem_cons_self)
  | ifIter _ _ _ _ => simpa [C01Dse.isBlock] using hl _ (List.mem_cons_self)
  | ifIn _ _ _ => simpa [C01Dse.isBlock] using hl _ (List.mem_cons_self)

theorem noBlocks_calcs_then (comps : List (List (Int × Expr w))) (i : Instr w)
    (hi : C01Dse.isBlock i = false) : ∀ j ∈ comps.map Instr.calc ++ [i], C01Dse.isBlock j = false := by
  intro j hj
  rcases List.mem_append.1 hj with h | h
  · obtain ⟨g, _, rfl⟩ := List.mem_map.1 h; rfl
  · simp at h; rw [h]; exact hi

theorem noBlocks_calcs (comps : List (List (Int × Expr w))) :
    ∀ j ∈ comps.map Instr.calc, C01Dse.isBlock (w := w) j = false := by
  intro j hj
  obtain ⟨g, _, rfl⟩ := List.mem_map.1 hj; rfl

theorem MInv.congr {s s' : Rebuild w} {ps : List (Rebuild w)} {M0 E S : Mem w} (h : MInv s ps M0 E S)
    (hp : s'.pending = s.pending) (hw : s'.written = s.written) (hh : SameHdr s s') : MInv s' ps M0 E S :=
  ⟨by rw [hp]; exact h.pend, h.writ.of_written_eq hw, h.pk.congr hh⟩

theorem Wf.withInsts {s : Rebuild w} (h : Wf s) (i : List (Instr w)) : Wf ({ s with insts := i } : Rebuild w) :=
  ⟨h.pend, h.writ, h.rev, h.revOk⟩

/-- Executing the groups of an emission step keeps the states related. -/
theorem EmitRes.rel {ps : List (Rebuild w)} {s s' : Rebuild w} {comps : List (List (Int × Expr w))}
    (h : EmitRes ps s s' comps) {M0 : Mem w} {σE σS : State w} (hr : Rel s ps M0 σE σS) :
    Rel s' ps M0 (comps.foldl doCalc σE) σS := by
  obtain ⟨m1, m2, m3⟩ := foldl_doCalc_meta comps σE
  refine ⟨by rw [m3]; exact hr.tr, by rw [m2]; exact hr.env, by rw [m1, h.hdr.2.2.1]; exact hr.ptr,
    by rw [h.noRet]; exact hr.nr, ?_⟩
  rw [memE_foldl_doCalc σE comps h.nodup, memS_foldl_doCalc]
  exact h.minv hr.inv

theorem memE_of_tape_ptr {σ σ' : State w} (ht : σ'.tape = σ.tape) (hp : σ'.ptr = σ.ptr) :
    memE σ' = memE σ := by
  funext v
  show σ'.tape.get (σ'.ptr + v) = σ.tape.get (σ.ptr + v)
  rw [ht, hp]

theorem memS_of_tape_ptr {σE σE' σS σS' : State w} (ht : σS'.tape = σS.tape) (hp : σE'.ptr = σE.ptr) :
    memS σE' σS' = memS σE σS := by
  funext v
  show σS'.tape.get (σE'.ptr + v) = σS.tape.get (σE.ptr + v)
  rw [ht, hp]

/-! ### `output` -/

/-- The common part of the two `output` cases: after the groups `comps` the value to print sits in cell `x`. -/
theorem output_sim {ps : List (Rebuild w)} {s s1 s' : Rebuild w} {comps : List (List (Int × Expr w))}
    (hres : EmitRes ps s s1 comps) (src x : Int)
    (hval : ∀ M0 E S, MInv s1 ps M0 E S → E x = S (src + s.shift))
    (hp : s'.pending = s1.pending) (hw : s'.written = s1.written) (hh : SameHdr s1 s')
    (hnr : s'.noReturn = s1.noReturn)
    {M0 : Mem w} {σE σS : State w} (hr : Rel s ps M0 σE σS) :
    Sim (StepQ s'.shift ps s' M0 σE) [.output src]
      (comps.map Instr.calc ++ [.output x]) σS σE := by
  have hr1 := hres.rel hr
  have hbyte : σS.rd src = (comps.foldl doCalc σE).rd x := by
    rw [hr.rdS, rd_eq_memE]
    have := hval M0 _ _ hr1.inv
    rw [this]
    show memOf σS σE.ptr _ = memOf σS (comps.foldl doCalc σE).ptr _
    rw [(foldl_doCalc_meta comps σE).1]
  obtain ⟨o1, o2, o3⟩ := output_rel hbyte hr1.env hr1.tr
  refine Sim.of_atomic (atomic_output src) (atomic_calcs_then comps (atomic_output x))
    hr.tr.symm o1 o2 o3 ?_
  intro _
  obtain ⟨p1, t1⟩ := output_fields σS src
  obtain ⟨p2, t2⟩ := output_fields (comps.foldl doCalc σE) x
  refine ⟨M0, ⟨o2.symm, o3.symm, ?_, by rw [hnr]; exact hr1.nr, ?_⟩,
    fun _ => ⟨rfl, by rw [p2]; exact (foldl_doCalc_meta comps σE).1⟩⟩
  · show (σS.output src).2.ptr = ((comps.foldl doCalc σE).output x).2.ptr + s'.shift
    rw [p1, p2, hh.2.2.1]; exact hr1.ptr
  · show MInv s' ps M0 (memE ((comps.foldl doCalc σE).output x).2)
      (memS ((comps.foldl doCalc σE).output x).2 (σS.output src).2)
    rw [memE_of_tape_ptr t2 p2, memS_of_tape_ptr t1 p2]
    exact hr1.inv.congr hp hw hh

theorem step_output {ps : List (Rebuild w)} {s : Rebuild w} (hwf : Wf s) (src : Int) {os os' : Orders}
    {s' : Rebuild w} (hr : (rebuildInstr ps s (.output src)).run os = .ok (s', os')) :
    Wf s' ∧ s'.noReturn = s.noReturn ∧ SameHdr s s' ∧ s'.subAnal = s.subAnal ∧
    StepOk ps s s' [.output src] := by
  rw [rebuildInstr] at hr
  split at hr
  · -- the value is (a copy of) an emitted cell
    rename_i x hx
    rw [run_pure] at hr
    cases hr
    have hsame := read_same s x
    refine ⟨?_, hsame.2.2.2.2.2.1, hsame.hdr, hsame.2.2.2.2.2.2.2.2.2.2, [.output x], ?_, ?_⟩
    · exact (hsame.wf hwf).withInsts _
    · show (Opt.read s x).insts ++ _ = _
      rw [hsame.2.2.2.2.2.2.2.2.2.1]
    · refine ⟨fun h => hsame.2.2.2.2.1.symm.trans h, ?_⟩
      intro M0 σE σS hrel
      have := output_sim (s' := { Opt.read s x with insts := (Opt.read s x).insts ++ [Instr.output x] })
        (EmitRes.refl ps hwf) src x
        (fun M0 E S hi => retargetOutput_sound hi hx) hsame.2.2.2.2.2.2.2.1 hsame.2.2.2.2.2.2.1 hsame.hdr
        hsame.2.2.2.2.2.1 hrel
      exact ⟨by simpa using this, not_bad_of_noBlocks (by simp [C01Dse.isBlock]) _⟩
  · -- the value has to be materialized first
    rw [run_bind_ok] at hr
    obtain ⟨s1, os1, h1, h2⟩ := hr
    rw [run_pure] at h2
    cases h2
    obtain ⟨comps, res, hnone⟩ := emit_res ps hwf (src + s.shift) h1
    have hsame := read_same s1 (src + s.shift)
    refine ⟨?_, ?_, res.hdr.trans hsame.hdr, ?_, comps.map Instr.calc ++ [.output (src + s.shift)], ?_, ?_⟩
    · exact (hsame.wf res.wf).withInsts _
    · show (Opt.read s1 (src + s.shift)).noReturn = _
      rw [hsame.2.2.2.2.2.1, res.noRet]
    · show (Opt.read s1 (src + s.shift)).subAnal = _
      rw [hsame.2.2.2.2.2.2.2.2.2.2, res.subAnal]
    · show (Opt.read s1 (src + s.shift)).insts ++ _ = _
      rw [hsame.2.2.2.2.2.2.2.2.2.1, res.insts, List.append_assoc]
    · refine ⟨fun h => (res.hdr.trans hsame.hdr).2.2.2.2.symm.trans h, ?_⟩
      intro M0 σE σS hrel
      exact ⟨output_sim (s' := { Opt.read s1 (src + s.shift) with
          insts := (Opt.read s1 (src + s.shift)).insts ++ [Instr.output (src + s.shift)] })
        res src (src + s.shift)
        (fun M0 E S hi => (hi.S_absent hnone).symm) hsame.2.2.2.2.2.2.2.1 hsame.2.2.2.2.2.2.1 hsame.hdr
        hsame.2.2.2.2.2.1 hrel,
        not_bad_of_noBlocks (noBlocks_calcs_then comps _ rfl) _⟩

/-! ### `input` -/

theorem step_input {ps : List (Rebuild w)} {s : Rebuild w} (hwf : Wf s) (dst : Int) {os os' : Orders}
    {s' : Rebuild w} (hr : (rebuildInstr ps s (.input dst)).run os = .ok (s', os')) :
    Wf s' ∧ s'.noReturn = s.noReturn ∧ SameHdr s s' ∧ s'.subAnal = s.subAnal ∧
    StepOk ps s s' [.input dst] := by
  rw [rebuildInstr, run_bind_ok] at hr
  obtain ⟨s1, os1, h1, h2⟩ := hr
  rw [run_pure] at h2
  cases h2
  obtain ⟨comps, c1, c2, c3, c4, c5, c6, _, c8, _, c10⟩ := clobber_spec ps hwf (dst + s.shift) false h1
  have hwf' : Wf ({ s1 with insts := s1.insts ++ [Instr.input (dst + s.shift)] } : Rebuild w) :=
    ⟨c1.pend, c1.writ, c1.rev, c1.revOk⟩
  refine ⟨hwf', c5, c4, c6, comps.map Instr.calc ++ [.input (dst + s.shift)], ?_, ?_⟩
  · show s1.insts ++ _ = _
    rw [c2, List.append_assoc]
  · refine ⟨fun h => c4.2.2.2.2.symm.trans h, ?_⟩
    intro M0 σE σS hrel
    -- the state of the emitted program after the groups
    have hX := c10 (fun _ => False) M0 _ _ (hrel.inv.toX _)
    obtain ⟨m1, m2, m3⟩ := foldl_doCalc_meta comps σE
    have henv : σS.env = (comps.foldl doCalc σE).env := by rw [m2]; exact hrel.env
    have htr : σS.trace = (comps.foldl doCalc σE).trace := by rw [m3]; exact hrel.tr
    obtain ⟨o1, o2, o3⟩ := input_rel (σS := σS) (σE := comps.foldl doCalc σE) dst (dst + s.shift) henv htr
    refine ⟨?_, not_bad_of_noBlocks (noBlocks_calcs_then comps _ rfl) _⟩
    refine Sim.of_atomic (atomic_input dst) (atomic_calcs_then comps (atomic_input (dst + s.shift)))
      hrel.tr.symm o1 o2 o3 ?_
    intro hok
    obtain ⟨x, hS, hE, pS, pE⟩ := input_ok_mem (σS := σS) (σE := comps.foldl doCalc σE) dst (dst + s.shift)
      henv hok
    refine ⟨M0, ⟨o2.symm, o3.symm, ?_, by show s1.noReturn = false; rw [c5]; exact hrel.nr, ?_⟩,
      fun _ => ⟨rfl, by rw [pE]; exact m1⟩⟩
    · show (σS.input dst).2.ptr = ((comps.foldl doCalc σE).input (dst + s.shift)).2.ptr + s1.shift
      rw [pS, pE, m1, c4.2.2.1]; exact hrel.ptr
    · show MInv ({ s1 with insts := s1.insts ++ [Instr.input (dst + s.shift)] } : Rebuild w) ps M0
        (memE ((comps.foldl doCalc σE).input (dst + s.shift)).2)
        (memS ((comps.foldl doCalc σE).input (dst + s.shift)).2 (σS.input dst).2)
      have hmE : memE ((comps.foldl doCalc σE).input (dst + s.shift)).2 =
          upd (Mem.seq comps (memE σE)) (dst + s.shift) x := by
        show memOf _ ((comps.foldl doCalc σE).input (dst + s.shift)).2.ptr = _
        rw [pE, hE, ← memE_foldl_doCalc σE comps c3]
        congr 1; omega
      have hmS : memS ((comps.foldl doCalc σE).input (dst + s.shift)).2 (σS.input dst).2 =
          upd (memS σE σS) (dst + s.shift) x := by
        show memOf _ ((comps.foldl doCalc σE).input (dst + s.shift)).2.ptr = _
        rw [pE, hS, m1]
        congr 1
        rw [hrel.ptr]; omega
      rw [hmE, hmS]
      have hX' : MInvX (fun v => False ∨ v = dst + s.shift) s1 ps M0 (Mem.seq comps (memE σE)) (memS σE σS) :=
        hX
      have hfin : MInv s1 ps M0 (upd (Mem.seq comps (memE σE)) (dst + s.shift) x)
          (upd (memS σE σS) (dst + s.shift) x) := by
        refine hX'.havoc ?_ ?_ ?_
        · rintro v (h | h)
          · exact absurd h id
          · rw [h]; exact c8
        · intro v hv
          have : v ≠ dst + s.shift := fun e => hv (Or.inr e)
          exact ⟨upd_ne _ _ _ _ this, upd_ne _ _ _ _ this⟩
        · rintro v (h | h)
          · exact absurd h id
          · rw [h, upd_same, upd_same]
      exact hfin.congr rfl rfl (SameHdr.refl _)

/-! ### `calc` -/

theorem step_calc {ps : List (Rebuild w)} {s : Rebuild w} (hwf : Wf s) (calcs : List (Int × Expr w))
    {os os' : Orders} {s' : Rebuild w} (hr : (rebuildInstr ps s (.calc calcs)).run os = .ok (s', os')) :
    Wf s' ∧ s'.noReturn = s.noReturn ∧ SameHdr s s' ∧ s'.subAnal = s.subAnal ∧
    StepOk ps s s' [.calc calcs] := by
  rw [rebuildInstr] at hr
  obtain ⟨comps, s1, res, hwf', hsame, hminv⟩ := performAll_spec hwf hr
  refine ⟨hwf', ?_, res.hdr.trans hsame.hdr, ?_, comps.map Instr.calc, ?_, ?_⟩
  · rw [hsame.2.2.2.2.2.1, res.noRet]
  · rw [hsame.2.2.2.2.2.2.2.2.2, res.subAnal]
  · rw [hsame.2.2.2.2.2.2.2.2.1, res.insts]
  · refine ⟨fun h => (res.hdr.trans hsame.hdr).2.2.2.2.symm.trans h, ?_⟩
    intro M0 σE σS hrel
    obtain ⟨m1, m2, m3⟩ := foldl_doCalc_meta comps σE
    obtain ⟨d1, d2, d3⟩ := C01Dse.doCalc_meta σS calcs
    have hsrc : Atomic [Instr.calc calcs] (fun σ : State w => (true, [calcs].foldl doCalc σ)) :=
      atomic_calcs [calcs]
    refine ⟨?_, not_bad_of_noBlocks (noBlocks_calcs comps) _⟩
    refine Sim.of_atomic hsrc (atomic_calcs comps) hrel.tr.symm rfl ?_ ?_ ?_
    · show (comps.foldl doCalc σE).trace = (doCalc σS calcs).trace
      rw [m3, d3]; exact hrel.tr.symm
    · show (comps.foldl doCalc σE).env = (doCalc σS calcs).env
      rw [m2, d2]; exact hrel.env.symm
    · intro _
      refine ⟨M0, ⟨?_, ?_, ?_, by rw [hsame.2.2.2.2.2.1, res.noRet]; exact hrel.nr, ?_⟩, fun _ => ⟨rfl, m1⟩⟩
      · show (doCalc σS calcs).trace = (comps.foldl doCalc σE).trace
        rw [m3, d3]; exact hrel.tr
      · show (doCalc σS calcs).env = (comps.foldl doCalc σE).env
        rw [m2, d2]; exact hrel.env
      · show (doCalc σS calcs).ptr = (comps.foldl doCalc σE).ptr + s'.shift
        rw [m1, d1, (res.hdr.trans hsame.hdr).2.2.1]; exact hrel.ptr
      · show MInv s' ps M0 (memE (comps.foldl doCalc σE)) (memS (comps.foldl doCalc σE) (doCalc σS calcs))
        rw [memE_foldl_doCalc σE comps res.nodup]
        have : memS (comps.foldl doCalc σE) (doCalc σS calcs) = assignS s.shift calcs (memS σE σS) := by
          rw [← memS_doCalc hrel calcs]
          show memOf _ (comps.foldl doCalc σE).ptr = memOf _ σE.ptr
          rw [m1]
        rw [this]
        exact hminv M0 _ _ hrel.inv

end OptProof
end Hpbf
