/-
C02 (first phase), part 5: static facts about the certificate `Em`.

* layout of the code of a block (`blockEnd_*`): body unchanged, `[mov shift]`, `brnz`, patched `brz`;
* monotonicity: later emission only appends (`Em.mono`), the table stays well formed;
* what the analysis guarantees (`hasShift`, `writes`);
* the two table invariants across a body that need not be executed (`em_vinv`):
  (A) entries of the table at the loop head survive the body, (B) entries at the exit of a body that
  may be skipped were already there at the head.
-/
import Hpbf.Proofs.C02EmitGen

namespace Hpbf
namespace C02Emit
open BcGen Bc Sim Expr

variable {w : Nat}

/-! ### sub-tables -/

def ValSub (V V' : List (GvnExpr w × Nat)) : Prop := ∀ e t, alGet V e = some t → alGet V' e = some t

theorem ValSub.refl (V : List (GvnExpr w × Nat)) : ValSub V V := fun _ _ h => h
theorem ValSub.trans {V1 V2 V3 : List (GvnExpr w × Nat)} (h1 : ValSub V1 V2) (h2 : ValSub V2 V3) :
    ValSub V1 V3 := fun e t h => h2 e t (h1 e t h)
theorem ValSub.nil (V : List (GvnExpr w × Nat)) : ValSub [] V := fun _ _ h => by simp [alGet] at h

theorem Sound.sub {V V' : List (GvnExpr w × Nat)} {c : Bc.Cfg w} (h : Sound V' c) (hs : ValSub V V') :
    Sound V c := fun e t he => h e t (hs e t he)

theorem sound_nil (c : Bc.Cfg w) : Sound ([] : List (GvnExpr w × Nat)) c := fun _ _ h => by
  simp [alGet] at h

def eraseKeys (V : List (GvnExpr w × Nat)) (ks : List (GvnExpr w)) : List (GvnExpr w × Nat) :=
  ks.foldl (fun vs e => alErase vs e) V

theorem removeMems_eq (V : List (GvnExpr w × Nat)) (vars : List Int) :
    removeMems V vars = eraseKeys V (vars.map GvnExpr.mem) := by
  unfold removeMems eraseKeys
  rw [List.foldl_map]

theorem eraseKeys_spec : ∀ (ks : List (GvnExpr w)) (V : List (GvnExpr w × Nat)), (keys V).Nodup →
    (keys (eraseKeys V ks)).Nodup ∧
      ∀ e, alGet (eraseKeys V ks) e = if e ∈ ks then none else alGet V e := by
  intro ks
  induction ks with
  | nil => intro V hn; exact ⟨hn, fun e => by simp [eraseKeys]⟩
  | cons k ks ih =>
    intro V hn
    obtain ⟨h1, h2⟩ := ih (alErase V k) (keys_alErase_nodup V k hn)
    refine ⟨h1, fun e => ?_⟩
    show alGet (eraseKeys (alErase V k) ks) e = _
    rw [h2 e, alGet_alErase V k e hn]
    by_cases hk : e = k
    · simp [hk]
    · by_cases hm : e ∈ ks <;> simp [hk, hm]

theorem eraseKeys_append (V : List (GvnExpr w × Nat)) (a b : List (GvnExpr w)) :
    eraseKeys (eraseKeys V a) b = eraseKeys V (a ++ b) := by
  unfold eraseKeys; rw [List.foldl_append]

theorem eraseKeys_sub {V : List (GvnExpr w × Nat)} (hn : (keys V).Nodup) (ks : List (GvnExpr w)) :
    ValSub (eraseKeys V ks) V := by
  intro e t h
  rw [(eraseKeys_spec ks V hn).2 e] at h
  split at h
  · cases h
  · exact h

/-- Keys erased at the head of a loop. -/
def headKeys (sub : Analysis) : List (GvnExpr w) := sub.writes.map GvnExpr.mem

theorem headVals_noShift {sub : Analysis} (h : sub.hasShift = false) (V : List (GvnExpr w × Nat)) :
    headVals sub V = eraseKeys V (headKeys sub) := by
  simp [headVals, h, removeMems_eq, headKeys]

theorem headVals_shift {sub : Analysis} (h : sub.hasShift = true) (V : List (GvnExpr w × Nat)) :
    headVals sub V = [] := by
  simp [headVals, h]

theorem exitVals_shift {sub : Analysis} (h : sub.hasShift = true) (once : Bool) (p : Nat)
    (ex : Array (GvnExpr w)) (V : List (GvnExpr w × Nat)) : exitVals sub once p ex V = [] := by
  simp [exitVals, h]

theorem exitVals_once {sub : Analysis} (h : sub.hasShift = false) (p : Nat)
    (ex : Array (GvnExpr w)) (V : List (GvnExpr w × Nat)) : exitVals sub true p ex V = V := by
  simp [exitVals, h]

theorem exitVals_erase {sub : Analysis} (h : sub.hasShift = false) (p : Nat)
    (ex : Array (GvnExpr w)) (V : List (GvnExpr w × Nat)) :
    exitVals sub false p ex V = eraseKeys V (headKeys sub ++ ex.toList.drop p) := by
  simp only [exitVals, h, Bool.false_eq_true, if_false, removeMems_eq]
  exact eraseKeys_append V _ _

theorem headVals_sub {V : List (GvnExpr w × Nat)} (hn : (keys V).Nodup) (sub : Analysis) :
    ValSub (headVals sub V) V := by
  cases h : sub.hasShift
  · rw [headVals_noShift h]; exact eraseKeys_sub hn _
  · rw [headVals_shift h]; exact ValSub.nil _

theorem exitVals_sub {V : List (GvnExpr w × Nat)} (hn : (keys V).Nodup) (sub : Analysis) (once : Bool)
    (p : Nat) (ex : Array (GvnExpr w)) : ValSub (exitVals sub once p ex V) V := by
  cases h : sub.hasShift
  · cases once
    · rw [exitVals_erase h]; exact eraseKeys_sub hn _
    · rw [exitVals_once h]; exact ValSub.refl _
  · rw [exitVals_shift h]; exact ValSub.nil _

/-! ### well-formedness under erasure -/

theorem WfV.of_sub {g g' : G w} (h : WfV g) (hn : g.n ≤ g'.n) (hd : (keys g'.values).Nodup)
    (hs : ValSub g'.values g.values) : WfV g' :=
  ⟨hd, fun e t he => by
    obtain ⟨h1, h2⟩ := h.lt e t (hs e t he)
    exact ⟨Nat.lt_of_lt_of_le h1 hn, opsLt_mono hn h2⟩⟩

theorem headVals_nodup {V : List (GvnExpr w × Nat)} (hn : (keys V).Nodup) (sub : Analysis) :
    (keys (headVals sub V)).Nodup := by
  cases h : sub.hasShift
  · rw [headVals_noShift h]; exact (eraseKeys_spec _ V hn).1
  · rw [headVals_shift h]; simp [keys]

theorem exitVals_nodup {V : List (GvnExpr w × Nat)} (hn : (keys V).Nodup) (sub : Analysis) (once : Bool)
    (p : Nat) (ex : Array (GvnExpr w)) : (keys (exitVals sub once p ex V)).Nodup := by
  cases h : sub.hasShift
  · cases once
    · rw [exitVals_erase h]; exact (eraseKeys_spec _ V hn).1
    · rw [exitVals_once h]; exact hn
  · rw [exitVals_shift h]; simp [keys]

theorem WfV.push {g : G w} (h : WfV g) (i : Bc.Instr w) : WfV (g.push i) := ⟨h.nodup, h.lt⟩

theorem WfV.headG {g : G w} (h : WfV g) (isLoop : Bool) (sub : Analysis) : WfV (headG isLoop sub g) := by
  unfold C02Emit.headG
  cases isLoop
  · exact h
  · exact h.of_sub (Nat.le_refl _) (headVals_nodup h.nodup sub) (headVals_sub h.nodup sub)

theorem WfV.blockStart {g : G w} (h : WfV g) (once : Bool) : WfV (blockStart once g) := by
  unfold C02Emit.blockStart
  cases once
  · exact h.push _
  · exact h

/-! ### layout of a block -/

section Layout
variable (isLoop once : Bool) (cond shift : Int) (sub : Analysis) (g0 g2 : G w)

@[simp] theorem blockEnd_exprs : (blockEnd isLoop once cond shift sub g0 g2).exprs = g2.exprs := by
  unfold blockEnd
  cases isLoop <;> cases once <;> by_cases h : shift = 0 <;> simp [h, G.push]

@[simp] theorem blockEnd_n : (blockEnd isLoop once cond shift sub g0 g2).n = g2.n := by
  unfold blockEnd
  cases isLoop <;> cases once <;> by_cases h : shift = 0 <;> simp [h, G.push]

theorem blockEnd_values : (blockEnd isLoop once cond shift sub g0 g2).values
    = exitVals sub once g0.exprs.size g2.exprs g2.values := by
  unfold blockEnd
  cases isLoop <;> cases once <;> by_cases h : shift = 0 <;> simp [h, G.push]

theorem blockStart_size : (blockStart once g0).insts.size = g0.insts.size + (if once then 0 else 1) := by
  cases once <;> simp [blockStart, G.push]

theorem blockEnd_size : (blockEnd isLoop once cond shift sub g0 g2).insts.size
    = g2.insts.size + (if shift = 0 then 0 else 1) + (if isLoop then 1 else 0) := by
  unfold blockEnd
  cases isLoop <;> cases once <;> by_cases h : shift = 0 <;> simp [h, G.push]

set_option linter.unusedSimpArgs false in
/-- Everything below the end of the body except the placeholder is unchanged. -/
theorem blockEnd_get_lt {i : Nat} (hi : i < g2.insts.size) (hne : once = true ∨ i ≠ g0.insts.size) :
    (blockEnd isLoop once cond shift sub g0 g2).insts[i]? = g2.insts[i]? := by
  unfold blockEnd
  cases isLoop <;> cases once <;> by_cases h : shift = 0 <;>
    simp [h, G.push, blockStart, Array.getElem?_setIfInBounds, Array.getElem?_push] <;> grind

set_option linter.unusedSimpArgs false in
theorem blockEnd_get_mov (hs : shift ≠ 0) (hlt : once = true ∨ g0.insts.size < g2.insts.size) :
    (blockEnd isLoop once cond shift sub g0 g2).insts[g2.insts.size]? = some (.mov shift) := by
  unfold blockEnd
  cases isLoop <;> cases once <;>
    simp [hs, G.push, blockStart, Array.getElem?_setIfInBounds, Array.getElem?_push] <;> grind

set_option linter.unusedSimpArgs false in
theorem blockEnd_get_brnz (hlt : once = true ∨ g0.insts.size < g2.insts.size) :
    (blockEnd true once cond shift sub g0 g2).insts[g2.insts.size + (if shift = 0 then 0 else 1)]?
      = some (.brnz cond (((blockStart once g0).insts.size : Int)
          - ((g2.insts.size + (if shift = 0 then 0 else 1) : Nat) : Int))) := by
  unfold blockEnd
  cases once <;> by_cases h : shift = 0 <;>
    simp [h, G.push, blockStart, Array.getElem?_setIfInBounds, Array.getElem?_push] <;>
    first | grind | simp [Array.getElem_push]

set_option linter.unusedSimpArgs false in
theorem blockEnd_get_brz (hlt : g0.insts.size < g2.insts.size) :
    (blockEnd isLoop false cond shift sub g0 g2).insts[g0.insts.size]?
      = some (.brz cond (((blockEnd isLoop false cond shift sub g0 g2).insts.size : Int)
          - (g0.insts.size : Int))) := by
  unfold blockEnd
  cases isLoop <;> by_cases h : shift = 0 <;>
    simp [h, G.push, blockStart, Array.getElem?_setIfInBounds, Array.getElem?_push] <;> grind

end Layout

/-! ### simple projections -/

@[simp] theorem headG_insts (b : Bool) (sub : Analysis) (g : G w) : (headG b sub g).insts = g.insts := by
  cases b <;> rfl
@[simp] theorem headG_exprs (b : Bool) (sub : Analysis) (g : G w) : (headG b sub g).exprs = g.exprs := by
  cases b <;> rfl
@[simp] theorem headG_n (b : Bool) (sub : Analysis) (g : G w) : (headG b sub g).n = g.n := by
  cases b <;> rfl
theorem headG_values_true (sub : Analysis) (g : G w) :
    (headG true sub g).values = headVals sub g.values := rfl
@[simp] theorem blockStart_exprs (once : Bool) (g : G w) : (blockStart once g).exprs = g.exprs := by
  cases once <;> rfl
@[simp] theorem blockStart_n (once : Bool) (g : G w) : (blockStart once g).n = g.n := by
  cases once <;> rfl
@[simp] theorem blockStart_values (once : Bool) (g : G w) : (blockStart once g).values = g.values := by
  cases once <;> rfl
theorem blockStart_pre (once : Bool) (g : G w) : Pre g.insts (blockStart once g).insts := by
  cases once
  · exact Pre.push _ _
  · exact Pre.refl _

@[simp] theorem scanEnd_insts (cond shift : Int) (sub : Analysis) (once : Bool) (g : G w) :
    (scanEnd cond shift sub once g).insts = g.insts.push (.scan cond shift) := by
  simp [scanEnd, G.push]
@[simp] theorem scanEnd_exprs (cond shift : Int) (sub : Analysis) (once : Bool) (g : G w) :
    (scanEnd cond shift sub once g).exprs = g.exprs := by
  simp [scanEnd, G.push]
@[simp] theorem scanEnd_n (cond shift : Int) (sub : Analysis) (once : Bool) (g : G w) :
    (scanEnd cond shift sub once g).n = g.n := by
  simp [scanEnd, G.push]
theorem scanEnd_values (cond shift : Int) (sub : Analysis) (once : Bool) (g : G w) :
    (scanEnd cond shift sub once g).values
      = exitVals sub once g.exprs.size g.exprs (headVals sub g.values) := by
  simp [scanEnd, G.push]

theorem WfV.scanEnd {g : G w} (h : WfV g) (cond shift : Int) (sub : Analysis) (once : Bool) :
    WfV (scanEnd cond shift sub once g) := by
  refine h.of_sub (by simp) ?_ ?_
  · rw [scanEnd_values]; exact exitVals_nodup (headVals_nodup h.nodup sub) _ _ _ _
  · rw [scanEnd_values]
    exact (exitVals_sub (headVals_nodup h.nodup sub) _ _ _ _).trans (headVals_sub h.nodup sub)

theorem WfV.blockEnd {g2 : G w} (h : WfV g2) (isLoop once : Bool) (cond shift : Int) (sub : Analysis)
    (g0 : G w) : WfV (blockEnd isLoop once cond shift sub g0 g2) := by
  refine h.of_sub (by simp) ?_ ?_
  · rw [blockEnd_values]; exact exitVals_nodup h.nodup _ _ _ _
  · rw [blockEnd_values]; exact exitVals_sub h.nodup _ _ _ _

theorem WfV.input {g : G w} (h : WfV g) (dst : Int) :
    WfV { g.push (.inp dst) with values := alErase g.values (.mem dst) } := by
  refine h.of_sub (Nat.le_refl _) (keys_alErase_nodup _ _ h.nodup) ?_
  intro e t he
  simp only [alGet_alErase _ _ _ h.nodup] at he
  split at he
  · cases he
  · exact he

/-- The code of a block extends the code before it. -/
theorem blockEnd_pre {isLoop once : Bool} {cond shift : Int} {sub : Analysis} {g0 g2 : G w}
    (h : Pre (blockStart once g0).insts g2.insts) :
    Pre g0.insts (blockEnd isLoop once cond shift sub g0 g2).insts := by
  have h0 := blockStart_pre once g0
  have hsz := blockEnd_size isLoop once cond shift sub g0 g2
  refine ⟨by have := h0.1; have := h.1; omega, fun i hi => ?_⟩
  rw [blockEnd_get_lt _ _ _ _ _ _ _ (by have := h0.1; have := h.1; omega) (Or.inr (Nat.ne_of_lt hi))]
  rw [h.2 i (Nat.lt_of_lt_of_le hi h0.1), h0.2 i hi]

/-! ### monotonicity -/

theorem Em.mono {fuse : Bool} {l : List (Ir.Instr w)} {g g' : G w} (h : Em fuse l g g') :
    WfV g → Pre g.insts g'.insts ∧ Pre g.exprs g'.exprs ∧ g.n ≤ g'.n ∧ WfV g' := by
  induction h with
  | nil g => intro hw; exact ⟨Pre.refl _, Pre.refl _, Nat.le_refl _, hw⟩
  | output _ ih =>
    intro hw
    obtain ⟨a, b, c, d⟩ := ih (hw.push _)
    exact ⟨(Pre.push _ _).trans a, b, c, d⟩
  | input _ ih =>
    intro hw
    obtain ⟨a, b, c, d⟩ := ih (hw.input _)
    exact ⟨(Pre.push _ _).trans a, b, c, d⟩
  | «calc» hseg _ ih =>
    intro hw
    have sg := hseg hw
    obtain ⟨a, b, c, d⟩ := ih (sg.wf hw)
    exact ⟨sg.ext.trans a, sg.eext.trans b, Nat.le_trans sg.n_le c, d⟩
  | scan _ _ ih =>
    intro hw
    obtain ⟨a, b, c, d⟩ := ih (hw.scanEnd _ _ _ _)
    simp only [scanEnd_insts, scanEnd_exprs, scanEnd_n] at a b c
    exact ⟨(Pre.push _ _).trans a, b, c, d⟩
  | loop _ _ _ ihb ihr =>
    intro hw
    obtain ⟨a, b, c, d⟩ := ihb ((hw.headG true _).blockStart _)
    obtain ⟨a', b', c', d'⟩ := ihr (d.blockEnd _ _ _ _ _ _)
    simp only [blockStart_exprs, headG_exprs, blockStart_n, headG_n] at b c
    simp only [blockEnd_exprs, blockEnd_n] at b' c'
    have hp := (blockEnd_pre a).trans a'
    simp only [headG_insts] at hp
    exact ⟨hp, b.trans b', Nat.le_trans c c', d'⟩
  | ifnz _ _ ihb ihr =>
    intro hw
    obtain ⟨a, b, c, d⟩ := ihb (hw.blockStart _)
    obtain ⟨a', b', c', d'⟩ := ihr (d.blockEnd _ _ _ _ _ _)
    simp only [blockStart_exprs, blockStart_n] at b c
    simp only [blockEnd_exprs, blockEnd_n] at b' c'
    exact ⟨(blockEnd_pre a).trans a', b.trans b', Nat.le_trans c c', d'⟩

/-! ### what the analysis guarantees -/

theorem mem_setInsert {s : List Int} {k x : Int} : x ∈ setInsert s k ↔ x ∈ s ∨ x = k := by
  unfold setInsert
  split
  · rename_i h
    constructor
    · exact Or.inl
    · rintro (h' | rfl)
      · exact h'
      · simpa using h
  · simp

theorem accessed_hasShift (a : Analysis) (v : Int) : (a.accessed v).hasShift = a.hasShift := by
  unfold Analysis.accessed; dsimp only; split <;> split <;> rfl
theorem accessed_writes (a : Analysis) (v : Int) : (a.accessed v).writes = a.writes := by
  unfold Analysis.accessed; dsimp only; split <;> split <;> rfl

theorem written_hasShift (a : Analysis) (v : Int) : (a.written v).hasShift = a.hasShift := by
  unfold Analysis.written; dsimp only
  split <;> simp [accessed_hasShift]

theorem written_writes (a : Analysis) (v : Int) (h : a.hasShift = false) (x : Int) :
    x ∈ (a.written v).writes ↔ x ∈ a.writes ∨ x = v := by
  unfold Analysis.written; dsimp only
  simp only [accessed_hasShift, h, Bool.not_false, if_true, mem_setInsert, accessed_writes]

theorem foldl_accessed_hasShift (l : List Int) (a : Analysis) :
    (l.foldl Analysis.accessed a).hasShift = a.hasShift := by
  induction l generalizing a with
  | nil => rfl
  | cons v l ih => simp only [List.foldl_cons, ih, accessed_hasShift]
theorem foldl_accessed_writes (l : List Int) (a : Analysis) :
    (l.foldl Analysis.accessed a).writes = a.writes := by
  induction l generalizing a with
  | nil => rfl
  | cons v l ih => simp only [List.foldl_cons, ih, accessed_writes]

theorem foldl_written_hasShift (l : List Int) (a : Analysis) :
    (l.foldl Analysis.written a).hasShift = a.hasShift := by
  induction l generalizing a with
  | nil => rfl
  | cons v l ih => simp only [List.foldl_cons, ih, written_hasShift]

theorem foldl_written_writes (l : List Int) (a : Analysis) (h : a.hasShift = false) (x : Int) :
    x ∈ (l.foldl Analysis.written a).writes ↔ x ∈ a.writes ∨ x ∈ l := by
  induction l generalizing a with
  | nil => simp
  | cons v l ih =>
    simp only [List.foldl_cons, List.mem_cons]
    rw [ih _ (by rw [written_hasShift]; exact h), written_writes a v h]
    constructor
    · rintro ((h1 | h1) | h1)
      · exact Or.inl h1
      · exact Or.inr (Or.inl h1)
      · exact Or.inr (Or.inr h1)
    · rintro (h1 | h1 | h1)
      · exact Or.inl (Or.inl h1)
      · exact Or.inl (Or.inr h1)
      · exact Or.inr h1

theorem calc_hasShift (calcs : List (Int × Expr w)) (a : Analysis) : (a.calc calcs).hasShift = a.hasShift := by
  unfold Analysis.calc
  induction calcs generalizing a with
  | nil => rfl
  | cons ve calcs ih => simp only [List.foldl_cons, ih, written_hasShift, foldl_accessed_hasShift]

theorem calc_writes (calcs : List (Int × Expr w)) (a : Analysis) (h : a.hasShift = false) (x : Int) :
    x ∈ (a.calc calcs).writes ↔ x ∈ a.writes ∨ x ∈ calcs.map (·.1) := by
  unfold Analysis.calc
  induction calcs generalizing a with
  | nil => simp
  | cons ve calcs ih =>
    simp only [List.foldl_cons, List.map_cons, List.mem_cons]
    rw [ih _ (by rw [written_hasShift, foldl_accessed_hasShift]; exact h),
      written_writes _ _ (by rw [foldl_accessed_hasShift]; exact h), foldl_accessed_writes]
    constructor
    · rintro ((h1 | h1) | h1)
      · exact Or.inl h1
      · exact Or.inr (Or.inl h1)
      · exact Or.inr (Or.inr h1)
    · rintro (h1 | h1 | h1)
      · exact Or.inl (Or.inl h1)
      · exact Or.inl (Or.inr h1)
      · exact Or.inr h1

theorem absorb_noShift {a : Analysis} {cond : Int} {sub : Analysis}
    (h : (a.absorb cond sub).hasShift = false) :
    a.hasShift = false ∧ sub.hasShift = false ∧
      ∀ x, x ∈ (a.absorb cond sub).writes ↔ x ∈ a.writes ∨ x ∈ sub.writes := by
  unfold Analysis.absorb at h ⊢
  dsimp only at h ⊢
  cases hs : sub.hasShift with
  | true => simp [hs] at h
  | false =>
    simp only [hs, Bool.false_eq_true, if_false] at h ⊢
    cases ha : a.hasShift with
    | true =>
      simp [accessed_hasShift, ha] at h
    | false =>
      have ha3 : (((a.accessed cond).accessed sub.minAcc).accessed sub.maxAcc).hasShift = false := by
        simp only [accessed_hasShift, ha]
      refine ⟨by trivial, by trivial, fun x => ?_⟩
      simp only [ha3, Bool.not_false, if_true]
      rw [foldl_written_writes _ _ ha3]
      simp only [accessed_writes]

theorem close_noShift {a : Analysis} {shift : Int} (h : (a.close shift).hasShift = false) :
    shift = 0 ∧ a.hasShift = false ∧ (a.close shift).writes = a.writes := by
  unfold Analysis.close at h ⊢
  by_cases hs : shift = 0
  · subst hs
    simp only [bne_self_eq_false, Bool.false_eq_true, if_false] at h ⊢
    exact ⟨by trivial, h, by trivial⟩
  · have : (shift != 0) = true := by simp [hs]
    simp [this] at h

theorem close_shift (a : Analysis) {shift : Int} (h : shift ≠ 0) : (a.close shift).hasShift = true := by
  unfold Analysis.close
  have : (shift != 0) = true := by simp [h]
  simp [this]

theorem subOf_shift (body : List (Ir.Instr w)) {shift : Int} (h : shift ≠ 0) :
    (subOf shift body).hasShift = true := close_shift _ h

theorem subOf_noShift {body : List (Ir.Instr w)} {shift : Int} (h : (subOf shift body).hasShift = false) :
    shift = 0 ∧ (analyzeInsts body Analysis.empty).hasShift = false ∧
      (subOf shift body).writes = (analyzeInsts body Analysis.empty).writes :=
  close_noShift h

/-- What one instruction contributes, given that no shift has been seen up to and including it. -/
theorem analyzeInstr_noShift {i : Ir.Instr w} {a : Analysis} (h : (analyzeInstr i a).hasShift = false) :
    a.hasShift = false ∧ ∀ x ∈ a.writes, x ∈ (analyzeInstr i a).writes := by
  cases i with
  | output src =>
    simp only [analyzeInstr, accessed_hasShift, accessed_writes] at h ⊢
    exact ⟨h, fun _ hx => hx⟩
  | input dst =>
    simp only [analyzeInstr, written_hasShift] at h ⊢
    exact ⟨h, fun x hx => (written_writes a dst h x).2 (Or.inl hx)⟩
  | «calc» calcs =>
    simp only [analyzeInstr, calc_hasShift] at h ⊢
    exact ⟨h, fun x hx => (calc_writes calcs a h x).2 (Or.inl hx)⟩
  | loop cond shift body once =>
    simp only [analyzeInstr] at h ⊢
    obtain ⟨h1, _, h3⟩ := absorb_noShift h
    exact ⟨h1, fun x hx => (h3 x).2 (Or.inl hx)⟩
  | ifnz cond shift body =>
    simp only [analyzeInstr] at h ⊢
    obtain ⟨h1, _, h3⟩ := absorb_noShift h
    exact ⟨h1, fun x hx => (h3 x).2 (Or.inl hx)⟩

theorem analyzeInsts_noShift : ∀ (l : List (Ir.Instr w)) {a : Analysis},
    (analyzeInsts l a).hasShift = false →
    a.hasShift = false ∧ ∀ x ∈ a.writes, x ∈ (analyzeInsts l a).writes := by
  intro l
  induction l with
  | nil => intro a h; simp only [analyzeInsts] at h ⊢; exact ⟨h, fun _ hx => hx⟩
  | cons i rest ih =>
    intro a h
    rw [analyzeInsts] at h ⊢
    obtain ⟨h1, h2⟩ := ih h
    obtain ⟨h3, h4⟩ := analyzeInstr_noShift h1
    exact ⟨h3, fun x hx => h2 x (h4 x hx)⟩

/-! ### the table across a body that need not run -/

/-- `e` is among the expressions numbered at index `n0` or later. -/
def NewFrom (n0 : Nat) (ex : Array (GvnExpr w)) (e : GvnExpr w) : Prop := ∃ i, n0 ≤ i ∧ ex[i]? = some e

theorem NewFrom.mono {n0 : Nat} {ex ex' : Array (GvnExpr w)} (h : Pre ex ex') {e : GvnExpr w}
    (he : NewFrom n0 ex e) : NewFrom n0 ex' e := by
  obtain ⟨i, hi, hg⟩ := he
  exact ⟨i, hi, (h.2 i (lt_of_get hg)).trans hg⟩

theorem newFrom_of_mem_drop {n0 : Nat} {ex : Array (GvnExpr w)} {e : GvnExpr w}
    (h : e ∈ ex.toList.drop n0) : NewFrom n0 ex e := by
  obtain ⟨i, hi⟩ := List.getElem?_of_mem h
  rw [List.getElem?_drop] at hi
  exact ⟨n0 + i, Nat.le_add_right _ _, by simpa using hi⟩

/-- (A): the entries of `V` are still in the table, and no expression numbered since is a key of `V`. -/
structure IA (V : List (GvnExpr w × Nat)) (n0 : Nat) (g : G w) : Prop where
  sub : ValSub V g.values
  fresh : ∀ e, NewFrom n0 g.exprs e → alGet V e = none

/-- (B): every entry of the table is an entry of `V`, or its key was numbered since, or it is a cell
in `W`. -/
def IB (V : List (GvnExpr w × Nat)) (n0 : Nat) (W : List Int) (g : G w) : Prop :=
  ∀ e t, alGet g.values e = some t →
    alGet V e = some t ∨ NewFrom n0 g.exprs e ∨ ∃ v ∈ W, e = .mem v

theorem IA.congr {V : List (GvnExpr w × Nat)} {n0 : Nat} {g g1 : G w} (h : IA V n0 g)
    (hv : g1.values = g.values) (he : g1.exprs = g.exprs) : IA V n0 g1 :=
  ⟨by rw [hv]; exact h.sub, by rw [he]; exact h.fresh⟩

theorem IB.congr {V : List (GvnExpr w × Nat)} {n0 : Nat} {W : List Int} {g g1 : G w} (h : IB V n0 W g)
    (hv : g1.values = g.values) (he : g1.exprs = g.exprs) : IB V n0 W g1 := by
  unfold IB; rw [hv, he]; exact h

/-- Erasing keys that are not keys of `V`. -/
theorem IA.erase {V : List (GvnExpr w × Nat)} {n0 : Nat} {g g1 : G w} (h : IA V n0 g) (hw : WfV g)
    (ks : List (GvnExpr w)) (hk : ∀ k ∈ ks, alGet V k = none)
    (hv : g1.values = eraseKeys g.values ks) (he : g1.exprs = g.exprs) : IA V n0 g1 := by
  refine ⟨?_, by rw [he]; exact h.fresh⟩
  intro e t hg
  rw [hv, (eraseKeys_spec ks g.values hw.nodup).2 e]
  split
  · rename_i hm
    rw [hk e hm] at hg; cases hg
  · exact h.sub e t hg

theorem IB.erase {V : List (GvnExpr w × Nat)} {n0 : Nat} {W : List Int} {g g1 : G w} (h : IB V n0 W g)
    (hw : WfV g) (ks : List (GvnExpr w))
    (hv : g1.values = eraseKeys g.values ks) (he : g1.exprs = g.exprs) : IB V n0 W g1 := by
  intro e t hg
  rw [hv] at hg
  have := h e t (eraseKeys_sub hw.nodup ks e t hg)
  rw [he]; exact this

theorem headKeys_none {V : List (GvnExpr w × Nat)} {W : List Int}
    (hVW : ∀ v ∈ W, alGet V (GvnExpr.mem v) = none) {sub : Analysis} (hsub : ∀ v ∈ sub.writes, v ∈ W) :
    ∀ k ∈ (headKeys sub : List (GvnExpr w)), alGet V k = none := by
  intro k hk
  simp only [headKeys, List.mem_map] at hk
  obtain ⟨v, hv, rfl⟩ := hk
  exact hVW v (hsub v hv)

theorem em_vinv {fuse : Bool} {V : List (GvnExpr w × Nat)} {n0 : Nat} {W : List Int}
    {l : List (Ir.Instr w)} {g g' : G w} (h : Em fuse l g g') :
    ∀ a : Analysis, (analyzeInsts l a).hasShift = false → (∀ v ∈ (analyzeInsts l a).writes, v ∈ W) →
    WfV g → n0 ≤ g.exprs.size →
    ((∀ v ∈ W, alGet V (GvnExpr.mem v) = none) → IA V n0 g → IA V n0 g') ∧ (IB V n0 W g → IB V n0 W g') := by
  induction h with
  | nil g => intro a _ _ _ _; exact ⟨fun _ h => h, fun h => h⟩
  | @output src rest g g' _ ih =>
    intro a hs hW hw hn
    rw [analyzeInsts] at hs hW
    obtain ⟨i1, i2⟩ := ih _ hs hW (hw.push _) hn
    exact ⟨fun hVW hA => i1 hVW (hA.congr rfl rfl), fun hB => i2 (hB.congr rfl rfl)⟩
  | @input dst rest g g' _ ih =>
    intro a hs hW hw hn
    rw [analyzeInsts] at hs hW
    obtain ⟨hs1, hW1⟩ := analyzeInsts_noShift rest hs
    simp only [analyzeInstr, written_hasShift] at hs1
    have hdst : dst ∈ W := hW _ (hW1 _ ((written_writes a dst hs1 dst).2 (Or.inr rfl)))
    obtain ⟨i1, i2⟩ := ih _ hs hW (hw.input dst) hn
    refine ⟨fun hVW hA => i1 hVW (hA.erase hw [.mem dst] ?_ rfl rfl), fun hB => i2 (hB.erase hw [.mem dst] rfl rfl)⟩
    intro k hk
    simp only [List.mem_singleton] at hk
    subst hk
    exact hVW dst hdst
  | @«calc» calcs rest g g1 g' hseg _ ih =>
    intro a hs hW hw hn
    rw [analyzeInsts] at hs hW
    obtain ⟨hs1, hW1⟩ := analyzeInsts_noShift rest hs
    simp only [analyzeInstr, calc_hasShift] at hs1
    have htg : ∀ v ∈ calcs.map (·.1), v ∈ W := fun v hv =>
      hW _ (hW1 _ ((calc_writes calcs a hs1 v).2 (Or.inr hv)))
    have sg := hseg hw
    obtain ⟨i1, i2⟩ := ih _ hs hW (sg.wf hw) (Nat.le_trans hn sg.eext.1)
    have hnew : ∀ e, NewE g g1 e → NewFrom n0 g1.exprs e := by
      rintro e ⟨i, hi, hg⟩; exact ⟨i, Nat.le_trans hn hi, hg⟩
    refine ⟨fun hVW hA => i1 hVW ⟨?_, ?_⟩, fun hB => i2 ?_⟩
    · intro e t he
      refine sg.vals e t (hA.sub e t he) (fun v hv hev => ?_)
      subst hev
      rw [hVW v (htg v hv)] at he; cases he
    · rintro e ⟨i, hi, hg⟩
      by_cases hlt : i < g.exprs.size
      · exact hA.fresh e ⟨i, hi, (sg.eext.2 i hlt).symm.trans hg⟩
      · have := sg.fresh e ⟨i, by omega, hg⟩
        cases hv : alGet V e with
        | none => rfl
        | some t => rw [hA.sub e t hv] at this; cases this
    · intro e t he
      rcases sg.newvals e t he with h1 | h1 | ⟨v, hv, rfl⟩
      · rcases hB e t h1 with h2 | h2 | h2
        · exact Or.inl h2
        · exact Or.inr (Or.inl (h2.mono sg.eext))
        · exact Or.inr (Or.inr h2)
      · exact Or.inr (Or.inl (hnew e h1))
      · exact Or.inr (Or.inr ⟨v, htg v hv, rfl⟩)
  | @scan cond shift once rest g g' _ _ ih =>
    intro a hs hW hw hn
    rw [analyzeInsts] at hs hW
    obtain ⟨hs1, hW1⟩ := analyzeInsts_noShift rest hs
    simp only [analyzeInstr] at hs1 hW1
    obtain ⟨_, hsub, hwr⟩ := absorb_noShift hs1
    change (subOf shift ([] : List (Ir.Instr w))).hasShift = false at hsub
    have hsubW : ∀ v ∈ (subOf shift ([] : List (Ir.Instr w))).writes, v ∈ W := fun v hv =>
      hW _ (hW1 _ ((hwr v).2 (Or.inr hv)))
    obtain ⟨i1, i2⟩ := ih _ hs hW (hw.scanEnd _ _ _ _) (by simpa using hn)
    have hval : ∃ ks : List (GvnExpr w),
        (scanEnd cond shift (subOf shift ([] : List (Ir.Instr w))) once g).values = eraseKeys g.values ks ∧
        ∀ k ∈ ks, k ∈ (headKeys (subOf shift ([] : List (Ir.Instr w))) : List (GvnExpr w)) ∨
          NewFrom n0 g.exprs k := by
      rw [scanEnd_values, headVals_noShift hsub]
      cases once
      · rw [exitVals_erase hsub, eraseKeys_append]
        refine ⟨_, rfl, fun k hk => ?_⟩
        rcases List.mem_append.1 hk with h1 | h1
        · exact Or.inl h1
        · rcases List.mem_append.1 h1 with h2 | h2
          · exact Or.inl h2
          · exact Or.inr ((newFrom_of_mem_drop h2).mono (Pre.refl _) |> fun ⟨i, hi, hg⟩ => ⟨i, Nat.le_trans hn hi, hg⟩)
      · rw [exitVals_once hsub]
        exact ⟨_, rfl, fun k hk => Or.inl hk⟩
    obtain ⟨ks, hks, hmem⟩ := hval
    refine ⟨fun hVW hA => i1 hVW (hA.erase hw ks ?_ hks (by simp)), fun hB => i2 (hB.erase hw ks hks (by simp))⟩
    intro k hk
    rcases hmem k hk with h1 | h1
    · exact headKeys_none hVW hsubW k h1
    · exact hA.fresh k h1
  | @loop cond shift body once rest g g2 g' _ hbody _ ihb ihr =>
    intro a hs hW hw hn
    rw [analyzeInsts] at hs hW
    obtain ⟨hs1, hW1⟩ := analyzeInsts_noShift rest hs
    simp only [analyzeInstr] at hs1 hW1
    obtain ⟨_, hsub, hwr⟩ := absorb_noShift hs1
    change (subOf shift body).hasShift = false at hsub
    have hsubW : ∀ v ∈ (subOf shift body).writes, v ∈ W := fun v hv =>
      hW _ (hW1 _ ((hwr v).2 (Or.inr hv)))
    obtain ⟨_, hbs, hbw⟩ := subOf_noShift hsub
    have hw1 : WfV (blockStart once (headG true (subOf shift body) g)) := (hw.headG true _).blockStart _
    obtain ⟨_, pe, _, hw2⟩ := hbody.mono hw1
    simp only [blockStart_exprs, headG_exprs] at pe
    obtain ⟨b1, b2⟩ := ihb Analysis.empty hbs (fun v hv => hsubW v (hbw ▸ hv)) hw1 (by simpa using hn)
    obtain ⟨r1, r2⟩ := ihr _ hs hW (hw2.blockEnd _ _ _ _ _ _) (by simp only [blockEnd_exprs]; exact Nat.le_trans hn pe.1)
    have hexit : ∃ ks : List (GvnExpr w),
        (blockEnd true once cond shift (subOf shift body) (headG true (subOf shift body) g) g2).values
          = eraseKeys g2.values ks ∧
        ∀ k ∈ ks, k ∈ (headKeys (subOf shift body) : List (GvnExpr w)) ∨ NewFrom n0 g2.exprs k := by
      rw [blockEnd_values]
      cases once
      · rw [exitVals_erase hsub]
        refine ⟨_, rfl, fun k hk => ?_⟩
        rcases List.mem_append.1 hk with h1 | h1
        · exact Or.inl h1
        · obtain ⟨i, hi, hg⟩ := newFrom_of_mem_drop h1
          simp only [headG_exprs] at hi
          exact Or.inr ⟨i, Nat.le_trans hn hi, hg⟩
      · rw [exitVals_once hsub]
        exact ⟨[], rfl, fun k hk => by simp at hk⟩
    obtain ⟨ks, hks, hmem⟩ := hexit
    refine ⟨fun hVW hA => r1 hVW ?_, fun hB => r2 ?_⟩
    · have hA1 : IA V n0 (blockStart once (headG true (subOf shift body) g)) :=
        hA.erase hw (headKeys (subOf shift body)) (headKeys_none hVW hsubW)
          (by rw [blockStart_values, headG_values_true, headVals_noShift hsub]) (by simp)
      have hA2 := b1 hVW hA1
      refine hA2.erase hw2 ks ?_ hks (by simp)
      intro k hk
      rcases hmem k hk with h1 | h1
      · exact headKeys_none hVW hsubW k h1
      · exact hA2.fresh k h1
    · have hB1 : IB V n0 W (blockStart once (headG true (subOf shift body) g)) :=
        hB.erase hw (headKeys (subOf shift body))
          (by rw [blockStart_values, headG_values_true, headVals_noShift hsub]) (by simp)
      exact (b2 hB1).erase hw2 ks hks (by simp)
  | @ifnz cond shift body rest g g2 g' hbody _ ihb ihr =>
    intro a hs hW hw hn
    rw [analyzeInsts] at hs hW
    obtain ⟨hs1, hW1⟩ := analyzeInsts_noShift rest hs
    simp only [analyzeInstr] at hs1 hW1
    obtain ⟨_, hsub, hwr⟩ := absorb_noShift hs1
    change (subOf shift body).hasShift = false at hsub
    have hsubW : ∀ v ∈ (subOf shift body).writes, v ∈ W := fun v hv =>
      hW _ (hW1 _ ((hwr v).2 (Or.inr hv)))
    obtain ⟨_, hbs, hbw⟩ := subOf_noShift hsub
    have hw1 : WfV (blockStart false g) := hw.blockStart _
    obtain ⟨_, pe, _, hw2⟩ := hbody.mono hw1
    simp only [blockStart_exprs] at pe
    obtain ⟨b1, b2⟩ := ihb Analysis.empty hbs (fun v hv => hsubW v (hbw ▸ hv)) hw1 (by simpa using hn)
    obtain ⟨r1, r2⟩ := ihr _ hs hW (hw2.blockEnd _ _ _ _ _ _) (by simp only [blockEnd_exprs]; exact Nat.le_trans hn pe.1)
    have hexit : ∃ ks : List (GvnExpr w),
        (blockEnd false false cond shift (subOf shift body) g g2).values = eraseKeys g2.values ks ∧
        ∀ k ∈ ks, k ∈ (headKeys (subOf shift body) : List (GvnExpr w)) ∨ NewFrom n0 g2.exprs k := by
      rw [blockEnd_values, exitVals_erase hsub]
      refine ⟨_, rfl, fun k hk => ?_⟩
      rcases List.mem_append.1 hk with h1 | h1
      · exact Or.inl h1
      · obtain ⟨i, hi, hg⟩ := newFrom_of_mem_drop h1
        exact Or.inr ⟨i, Nat.le_trans hn hi, hg⟩
    obtain ⟨ks, hks, hmem⟩ := hexit
    refine ⟨fun hVW hA => r1 hVW ?_, fun hB => r2 ?_⟩
    · have hA2 := b1 hVW (hA.congr (by simp) (by simp))
      refine hA2.erase hw2 ks ?_ hks (by simp)
      intro k hk
      rcases hmem k hk with h1 | h1
      · exact headKeys_none hVW hsubW k h1
      · exact hA2.fresh k h1
    · exact (b2 (hB.congr (by simp) (by simp))).erase hw2 ks hks (by simp)

end C02Emit
end Hpbf
