/-
Rebuild-round proofs, stage 5 (the recorded analysis is sound for the emitted code): the end of `finishLoop`
(`finishEnd`): the block-free `before` operations, then the block directly (`loopInsideIf`) or inside a wrapping `if`
whose child `ifState` holds the block (`wrap_an`).  Analogue of `OptRbFootG4.lean`.
-/
import Hpbf.Proofs.OptRbAnLoop3

namespace Hpbf
namespace OptProof
open Opt OptSem Ir

variable {w : Nat}

/-- The `else` branch at the end of `finishLoop` (the block inside a fresh state, which becomes the body of an
`if`): all footprint claims. -/
theorem wrap_an {shP shC shS cS : Int} {bodyS : List (Instr w)} {oS : Bool} {isLoop : Bool}
    {s1 : Rebuild w} {ps : List (Rebuild w)} {sub : Rebuild w} {cond : Int} {L : OptLoop w}
    {after : List (Int × Expr w)} {C : List Int} {pc : List (Rebuild w)} {sub0 : Rebuild w}
    {os os2 os' : Orders} {ifS s' : Rebuild w} {G1 Gc : State w → Prop}
    (h3 : (loopInsideIf (Rebuild.new s1.shift (some cond) .unknown none) [] sub cond L.toAtLeastOnce after C).run os
      = .ok (ifS, os2))
    (h4 : (loopOrIf s1 ps ifS cond false L.toAtMostOnce C).run os2 = .ok (s', os'))
    (hwf : Wf s1) (hcond : cond = cS + shP)
    (hsh : shC + shS = (sub.shift - s1.shift) + shP)
    (hrep : ChildRep Gc shP shC pc sub0 [] sub bodyS)
    (hentry : ∀ σE σS : State w, SameMem shP σS σE → σS.rd cS ≠ 0#w → Gc σS →
      ∃ M0, RelAt shP sub0 pc M0 σE σS)
    (hGc : ∀ M0 σE σS, RelAt shP s1 ps M0 σE σS → G1 σS → ∀ k σk, Head cS shS bodyS σS k σk →
      (L.atMostOnce = true → k = 0) → σk.rd cS ≠ 0#w → Gc σk)
    (hwfc : Wf sub)
    (hpre : sub.subShift = false → ChildPre Gc shP shC pc sub0 sub cS bodyS)
    (hkv : sub.subShift = false →
      ∀ v e, mGet sub.written v = some (.known e) → ∀ x ∈ Expr.variables e, x ∈ sub.reads)
    (hF : LoopFacts G1 shP s1 ps isLoop cS shS bodyS oS L C)
    (hafter : after ≠ [] → shP = 0 ∧ sub.shift = s1.shift)
    (hnalo : L.atLeastOnce = false)
    (hconstW : ∀ M0 σE σS, RelAt shP s1 ps M0 σE σS → G1 σS → σS.rd cS ≠ 0#w →
      ∀ σ1, Exec ([blockInstr isLoop cS shS bodyS oS] ++ [.calc after]) σS (.fin σ1) →
      ∀ x, C.contains x = true → memS σE σ1 x = memS σE σS x)
    (hcA : AStep (ValidG Gc shP sub0 pc) sub0 sub sub.insts) (hsa0 : sub0.subAnal = [])
    (hshs : ShapeSt sub) (hchild : Child sub) :
    ∃ new, s'.insts = s1.insts ++ new ∧ AStep (ValidG G1 shP s1 ps) s1 s' new := by
  -- the inner call
  have hwf0 : Wf (Rebuild.new s1.shift (some cond) .unknown none : Rebuild w) := wf_new _ _ _ _
  obtain ⟨wI, _, _, shE, newI, hEs, hiI, hstI⟩ :=
    loopInsideIf_ok_g (G := WrapG shP s1 ps G1 cS) (oS := oS) h3 hwf0
      (fun _ => AskStable.of_shiftFree (Or.inl rfl) _) hcond hsh hrep hentry
      (by
        rintro M0 σE σS _ ⟨⟨M0', σE', hrel'⟩, hg, _⟩ k σk hh hk hne
        exact hGc M0' σE' σS hrel' hg k σk hh hk hne)
      hwfc hpre hkv (hF.wrap _) (fun _ => rfl) hafter
  have hiI' : ifS.insts = newI := by rw [hiI]; rfl
  have hfoot : ifS.subShift = false →
      FootStepV (ValidG (WrapG shP s1 ps G1 cS) shP (Rebuild.new s1.shift (some cond) .unknown none) [])
        (Rebuild.new s1.shift (some cond) .unknown none) ifS ifS.insts ∧
      FootBadV (ValidG (WrapG shP s1 ps G1 cS) shP (Rebuild.new s1.shift (some cond) .unknown none) [])
        (Rebuild.new s1.shift (some cond) .unknown none) ifS ifS.insts ∧
      FootFrameV (ValidG (WrapG shP s1 ps G1 cS) shP (Rebuild.new s1.shift (some cond) .unknown none) [])
        (Rebuild.new s1.shift (some cond) .unknown none) ifS ifS.insts := by
    intro _
    obtain ⟨newF, hiF, f1, f2, f3, _, _⟩ :=
      loopInsideIf_foot_g (G := WrapG shP s1 ps G1 cS) (oS := oS) h3 hwf0
        (fun _ => AskStable.of_shiftFree (Or.inl rfl) _) hcond hsh hrep hentry
        (by
          rintro M0 σE σS _ ⟨⟨M0', σE', hrel'⟩, hg, _⟩ k σk hh hk hne
          exact hGc M0' σE' σS hrel' hg k σk hh hk hne)
        hwfc hpre hkv (hF.wrap _) (fun _ => rfl) hafter
    have : newF = newI := List.append_cancel_left (hiF.symm.trans hiI)
    rw [hiI', ← this]
    exact ⟨f1, f2, f3⟩
  -- the child interface of `ifState`
  have hshC : ∃ shC' : Int, shC' = shP + (ifS.shift - s1.shift) := ⟨_, rfl⟩
  obtain ⟨shC', hshC'⟩ := hshC
  have hrepI : ChildRep (WrapG shP s1 ps G1 cS) shP shC' [] (Rebuild.new s1.shift (some cond) .unknown none) []
      ifS ([blockInstr isLoop cS shS bodyS oS] ++ [.calc after]) := by
    intro M0 σE σS hrel hg
    obtain ⟨hs, hb⟩ := hstI.2 M0 σE σS hrel hg
    rw [hiI']
    refine ⟨hs.mono ?_, hb⟩
    rintro x y ⟨M0', hr', hk'⟩
    have : shE = shC' := by rw [hshC']; exact hEs hr'.nr
    rw [← this]
    exact ⟨M0', hr', hk'⟩
  have hentryI : ∀ σE σS : State w, SameMem shP σS σE → σS.rd cS ≠ 0#w → WrapG shP s1 ps G1 cS σS →
      ∃ M0, RelAt shP (Rebuild.new s1.shift (some cond) .unknown none) [] M0 σE σS := by
    intro σE σS hm hne _
    refine ⟨memE σE, hm.1, hm.2.1, hm.2.2.1, rfl, ?_, fun v => rfl, ?_⟩
    · show memS σE σS = Mem.par [] (memE σE)
      rw [par_nil]; exact hm.2.2.2
    · refine pk_fresh_unknown rfl rfl [] _ ?_
      intro _ v hv
      have : v = cS + shP := by
        have h' : (Rebuild.new s1.shift (some cond) .unknown none : Rebuild w).cond = some cond := rfl
        rw [h'] at hv; cases hv; exact hcond
      rw [this, ← sameMem_rd hm]; exact hne
  have hGcI : ∀ M0 σE σS, RelAt shP s1 ps M0 σE σS → G1 σS →
      ∀ k σk, Head cS 0 ([blockInstr isLoop cS shS bodyS oS] ++ [.calc after]) σS k σk →
      ((false : Bool) = false → k = 0) → σk.rd cS ≠ 0#w → WrapG shP s1 ps G1 cS σk := by
    intro M0 σE σS hrel hG k σk hh hk hne
    have hk0 := hk rfl
    subst hk0
    cases hh
    exact ⟨⟨M0, σE, hrel⟩, hG, hne⟩
  -- the nodes of `ifState`
  have hifS : ShapeSt ifS :=
    (loopInsideIf_pstep h3 (wf_new _ _ _ _) (canonSt_new _ _ _ _) hchild hshs).shapeSt (shapeSt_new _ _ _ _)
  have hcAI : AStep (ValidG (WrapG shP s1 ps G1 cS) shP (Rebuild.new s1.shift (some cond) .unknown none) [])
      (Rebuild.new s1.shift (some cond) .unknown none) ifS ifS.insts := by
    obtain ⟨newA, hiA, hA⟩ :=
      loopInsideIf_an (G := WrapG shP s1 ps G1 cS) (oS := oS) h3 hwf0
        (fun _ => AskStable.of_shiftFree (Or.inl rfl) _) hcond hsh hrep hentry
        (by
          rintro M0 σE σS _ ⟨⟨M0', σE', hrel'⟩, hg, _⟩ k σk hh hk hne
          exact hGc M0' σE' σS hrel' hg k σk hh hk hne)
        hwfc hpre hkv (hF.wrap _) (fun _ => rfl) hcA hsa0 hshs
    have : ifS.insts = newA := by rw [hiA]; rfl
    rw [this]
    exact hA
  have hflagI : if (false : Bool) then (L.toAtMostOnce).atMostOnce = false
      else (L.toAtMostOnce).atLeastOnce = false := by
    simpa [OptLoop.toAtMostOnce] using hnalo
  have hconst : ∀ M0 σE σS, RelAt shP s1 ps M0 σE σS → G1 σS →
      ∀ k σk, Head cS 0 ([blockInstr isLoop cS shS bodyS oS] ++ [.calc after]) σS k σk →
      ((false : Bool) = false → k ≤ 1) → ∀ x, C.contains x = true → memS σE σk x = memS σE σS x := by
    intro M0 σE σS hrel hG k σk hh hk x hx
    cases hh with
    | zero => rfl
    | succ hprev hne' hex =>
      have := hk rfl
      rename_i k' σk' σ'
      have hk0 : k' = 0 := by omega
      subst hk0
      cases hprev
      have := hconstW M0 σE σS hrel hG hne' _ hex x hx
      rw [← this]
      rfl
  cases hns : (ifS.subShift || ifS.shift != s1.shift) with
  | false =>
    have hss : ifS.subShift = false := by
      simp only [Bool.or_eq_false_iff] at hns; exact hns.1
    have hse : ifS.shift = s1.shift := by
      simp only [Bool.or_eq_false_iff, bne_eq_false_iff_eq] at hns; exact hns.2
    obtain ⟨f1, f2, f3⟩ := hfoot hss
    have hpreI : ChildPre (WrapG shP s1 ps G1 cS) shP shC' [] (Rebuild.new s1.shift (some cond) .unknown none)
        ifS cS ([blockInstr isLoop cS shS bodyS oS] ++ [.calc after]) :=
      ⟨hrepI, f1, f2, f3, hss, rfl, hentryI, wI⟩
    have hshI : shC' + 0 = shP := by rw [hshC', hse]; omega
    exact loopOrIf_stay_an (shS := 0) h4 hwf hpreI hns hcond hshI hGcI hconst hcAI rfl hifS hflagI
  | true =>
    exact loopOrIf_shift_an (shS := 0) h4 hwf wI hns hcond (by rw [hshC']; omega) hrepI hentryI hGcI
      hifS hflagI rfl hcAI

/-- The end of `finishLoop`: all footprint claims. -/
theorem finishEnd_an {shP shC shS cS : Int} {bodyS : List (Instr w)} {oS : Bool} {isLoop : Bool}
    {s : Rebuild w} {ps : List (Rebuild w)} {sub : Rebuild w} {cond : Int} {L : OptLoop w}
    {before after : List (Int × Expr w)} {C : List Int} {pc : List (Rebuild w)} {sub0 : Rebuild w}
    {os os' : Orders} {s' : Rebuild w} {G G1 Gc : State w → Prop}
    (hr : (finishEnd s ps cond L (sub, before, after, C)).run os = .ok (s', os'))
    (hwf : Wf s) (hsf : sub.subShift = false → AskStable s sub.shift) (hcond : cond = cS + shP)
    (hsh : shC + shS = (sub.shift - s.shift) + shP)
    (hrep : ChildRep Gc shP shC pc sub0 [] (forgetParent sub) bodyS)
    (hentry : ∀ σE σS : State w, SameMem shP σS σE → σS.rd cS ≠ 0#w → Gc σS →
      ∃ M0, RelAt shP sub0 pc M0 σE σS)
    (hwfc : Wf sub)
    (hpre : sub.subShift = false → ChildPre Gc shP shC pc sub0 (forgetParent sub) cS bodyS)
    (hkv : sub.subShift = false →
      ∀ v e, mGet sub.written v = some (.known e) → ∀ x ∈ Expr.variables e, x ∈ sub.reads)
    (hbefore : before ≠ [] → shP = 0)
    (hafter : after ≠ [] → shP = 0 ∧ sub.shift = s.shift)
    (hG1 : ∀ M0 σE σS σS', RelAt shP s ps M0 σE σS → G σS → Exec [.calc before] σS (.fin σS') → G1 σS')
    (hF : ∀ s1 os1, (performAll s ps 0 before).run os = .ok (s1, os1) →
      LoopFacts G1 shP s1 ps isLoop cS shS bodyS oS L C)
    (hGc : ∀ s1 M0 σE σS, RelAt shP s1 ps M0 σE σS → G1 σS → ∀ k σk, Head cS shS bodyS σS k σk →
      (L.atMostOnce = true → k = 0) → σk.rd cS ≠ 0#w → Gc σk)
    (hconstW : ∀ s1 M0 σE σS, RelAt shP s1 ps M0 σE σS → G1 σS → σS.rd cS ≠ 0#w →
      ∀ σ1, Exec ([blockInstr isLoop cS shS bodyS oS] ++ [.calc after]) σS (.fin σ1) →
      ∀ x, C.contains x = true → memS σE σ1 x = memS σE σS x)
    (hcA : AStep (ValidG Gc shP sub0 pc) sub0 (forgetParent sub) sub.insts) (hsa0 : sub0.subAnal = [])
    (hshs : ShapeSt sub) (hchild : Child sub) :
    ∃ new, s'.insts = s.insts ++ new ∧ AStep (ValidG G shP s ps) s s' new := by
  unfold finishEnd at hr
  dsimp only at hr
  rw [run_bind_ok] at hr
  obtain ⟨s1, os1, h1, h2⟩ := hr
  obtain ⟨wf1, hdr1, _, newB, hiB, hstB⟩ := performAll0_stepN (G := G) hwf h1 hbefore
  obtain ⟨newB', hiB', _, b1, b2, b3, b4, b5⟩ := performAll_footAll (V := ValidG G shP s ps) h1 hwf
  have hB : newB' = newB := List.append_cancel_left (hiB'.symm.trans hiB)
  subst hB
  have hval : ∀ σ σ', ValidG G shP s ps σ → Exec newB' σ (.fin σ') → ValidG G1 shP s1 ps σ' :=
    fun σ σ' hv hex => hstB.validG hG1 hv hex
  have hsf1 : (forgetParent sub).subShift = false → AskStable s1 (forgetParent sub).shift :=
    fun h => (hsf h).of_hdr hdr1
  have hwfF : Wf (forgetParent sub) := ⟨hwfc.pend, hwfc.writ, hwfc.rev, hwfc.revOk⟩
  have n1 := performAll_nstep h1 hwf
  have hnbB : ∀ i ∈ newB', C01Dse.isBlock i = false := by
    obtain ⟨nb, enb, hnb⟩ := n1.insts
    have : nb = newB' := List.append_cancel_left (enb.symm.trans hiB')
    rw [← this]; exact hnb
  split at h2
  · rename_i hdir
    have hamoalo : L.atMostOnce = true → L.atLeastOnce = true := by
      intro ha
      rw [ha] at hdir
      simpa using hdir
    obtain ⟨new, hi, _, _, _, c4, _⟩ :=
      loopInsideIf_foot_g (G := G1) (oS := oS) h2 wf1 hsf1 hcond
        (by rw [hdr1.2.2.1]; exact hsh) hrep hentry (hGc s1) hwfF hpre hkv (hF s1 os1 h1) hamoalo
        (by rw [hdr1.2.2.1]; exact hafter)
    obtain ⟨newA, hiA, hA⟩ :=
      loopInsideIf_an (G := G1) (oS := oS) h2 wf1 hsf1 hcond
        (by rw [hdr1.2.2.1]; exact hsh) hrep hentry (hGc s1) hwfF hpre hkv (hF s1 os1 h1) hamoalo
        hcA hsa0 hshs.forgetParent
    exact ⟨newB' ++ newA, by rw [hiA, hiB', List.append_assoc],
      AStep.append_noBlocks_left hnbB n1.subAnal hA b1 hval c4⟩
  · rename_i hdir
    have hnalo : L.atLeastOnce = false := by
      cases h : L.atLeastOnce with
      | false => rfl
      | true => rw [h] at hdir; simp at hdir
    rw [run_bind_ok] at h2
    obtain ⟨ifS, os2, h3, h4⟩ := h2
    obtain ⟨new, hi, hfW⟩ := wrap_foot_g (oS := oS) h3 h4 wf1 hcond
      (by rw [hdr1.2.2.1]; exact hsh) hrep hentry (hGc s1) hwfF hpre hkv (hF s1 os1 h1)
      (by rw [hdr1.2.2.1]; exact hafter) hnalo (hconstW s1)
    obtain ⟨newA, hiA, hA⟩ := wrap_an (oS := oS) h3 h4 wf1 hcond
      (by rw [hdr1.2.2.1]; exact hsh) hrep hentry (hGc s1) hwfF hpre hkv (hF s1 os1 h1)
      (by rw [hdr1.2.2.1]; exact hafter) hnalo (hconstW s1) hcA hsa0 hshs.forgetParent hchild.forgetParent
    exact ⟨newB' ++ newA, by rw [hiA, hiB', List.append_assoc],
      AStep.append_noBlocks_left hnbB n1.subAnal hA b1 hval hfW.2.2.2.1⟩

end OptProof
end Hpbf

#print axioms Hpbf.OptProof.wrap_an
#print axioms Hpbf.OptProof.finishEnd_an
