/-
C02 (first phase), part 6: the simulation between the IR interpreter and the bytecode machine running
the emitted code.

* `K`  – certificate for the continuation stack of the IR machine: every suspended loop/if is a block
         of the final program whose body ends where the current code segment ends;
* `R`  – the simulation relation: the IR machine is about to run `cur`, the bytecode machine is at the
         first instruction emitted for `cur`, the value-numbering table of the generator at that point
         is sound for the temporaries; plus the state "inside a fused `scan`";
* `chunk` – every related pair of configurations can advance to a related pair (or both terminate).
-/
import Hpbf.Proofs.C02EmitInv
import Hpbf.Proofs.C01Parse
import Hpbf.Proofs.C07

namespace Hpbf
namespace C02Emit
open BcGen Bc Sim Expr

variable {w : Nat}

/-! ### the bytecode machine: one instruction -/

theorem mono_BcM (p : Bc.Program w) : Sim.Mono (BcM p) where
  next := by
    intro c c' h
    have := C07.bc_step_trace p false c
    simp only [BcM] at h ⊢
    cases h' : Bc.step p false c with
    | next c1 => rw [h'] at h this; cases h; exact this
    | halt s => rw [h'] at h; simp at h
    | stop s => rw [h'] at h; simp at h
    | interrupted s => rw [h'] at h; cases h; exact List.suffix_refl _
    | bad s => rw [h'] at h; cases h; exact List.suffix_refl _
  fin := by
    intro c ok t h
    have := C07.bc_step_trace p false c
    simp only [BcM] at h ⊢
    cases h' : Bc.step p false c with
    | next c1 => rw [h'] at h; simp at h
    | halt s => rw [h'] at h this; cases h; exact this
    | stop s => rw [h'] at h this; cases h; exact this
    | interrupted s => rw [h'] at h; simp at h
    | bad s => rw [h'] at h; simp at h

section Steps
variable {p : Bc.Program w} {c : Bc.Cfg w}

theorem step_mov {sh : Int} (hi : p.insts[c.pc]? = some (.mov sh)) :
    (BcM p).step c = .next { c with pc := c.pc + 1, st := c.st.mov sh } :=
  BcM_step_of hi rfl

theorem step_out_ok {src : Int} (hi : p.insts[c.pc]? = some (.out src)) (h : (c.st.output src).1 = true) :
    (BcM p).step c = .next { c with pc := c.pc + 1, st := (c.st.output src).2 } :=
  BcM_step_of hi (by simp [C11.stepI, h])

theorem step_out_fail {src : Int} (hi : p.insts[c.pc]? = some (.out src)) (h : (c.st.output src).1 = false) :
    (BcM p).step c = .fin false (c.st.output src).2.trace := by
  simp only [BcM, C11.step_eq hi, C11.stepI, h, Bool.false_eq_true, if_false]

theorem step_inp_ok {dst : Int} (hi : p.insts[c.pc]? = some (.inp dst)) (h : (c.st.input dst).1 = true) :
    (BcM p).step c = .next { c with pc := c.pc + 1, st := (c.st.input dst).2 } :=
  BcM_step_of hi (by simp [C11.stepI, h])

theorem step_inp_fail {dst : Int} (hi : p.insts[c.pc]? = some (.inp dst)) (h : (c.st.input dst).1 = false) :
    (BcM p).step c = .fin false (c.st.input dst).2.trace := by
  simp only [BcM, C11.step_eq hi, C11.stepI, h, Bool.false_eq_true, if_false]

theorem branch_taken {off : Int} {t : Nat} (ht : (c.pc : Int) + off = (t : Int)) (hle : t ≤ p.insts.size) :
    C11.branch p false c true off = .next { c with pc := t } := by
  unfold C11.branch
  have : branchTarget c.pc off p.insts.size = some t := by
    unfold branchTarget
    simp only [ht]
    have h1 : (0 : Int) ≤ (t : Int) ∧ (t : Int) ≤ (p.insts.size : Int) := ⟨by omega, by omega⟩
    simp [h1]
  simp [this]

theorem branch_not (off : Int) : C11.branch p false c false off = .next { c with pc := c.pc + 1 } := by
  unfold C11.branch
  simp

theorem step_brz_taken {cond off : Int} {t : Nat} (hi : p.insts[c.pc]? = some (.brz cond off))
    (hz : c.st.rd cond = 0#w) (ht : (c.pc : Int) + off = (t : Int)) (hle : t ≤ p.insts.size) :
    (BcM p).step c = .next { c with pc := t } :=
  BcM_step_of hi (by simp only [C11.stepI, hz, beq_self_eq_true]; exact branch_taken ht hle)

theorem step_brz_not {cond off : Int} (hi : p.insts[c.pc]? = some (.brz cond off))
    (hz : c.st.rd cond ≠ 0#w) : (BcM p).step c = .next { c with pc := c.pc + 1 } :=
  BcM_step_of hi (by
    have : (c.st.rd cond == 0#w) = false := by simp [hz]
    simp only [C11.stepI, this]; exact branch_not off)

theorem step_brnz_taken {cond off : Int} {t : Nat} (hi : p.insts[c.pc]? = some (.brnz cond off))
    (hz : c.st.rd cond ≠ 0#w) (ht : (c.pc : Int) + off = (t : Int)) (hle : t ≤ p.insts.size) :
    (BcM p).step c = .next { c with pc := t } :=
  BcM_step_of hi (by
    have : (c.st.rd cond != 0#w) = true := by simp [hz]
    simp only [C11.stepI, this]; exact branch_taken ht hle)

theorem step_brnz_not {cond off : Int} (hi : p.insts[c.pc]? = some (.brnz cond off))
    (hz : c.st.rd cond = 0#w) : (BcM p).step c = .next { c with pc := c.pc + 1 } :=
  BcM_step_of hi (by simp only [C11.stepI, hz, bne_self_eq_false]; exact branch_not off)

theorem step_scan_zero {cond sh : Int} (hi : p.insts[c.pc]? = some (.scan cond sh))
    (hz : c.st.rd cond = 0#w) : (BcM p).step c = .next { c with pc := c.pc + 1 } :=
  BcM_step_of hi (by simp [C11.stepI, hz])

theorem step_scan_move {cond sh : Int} (hi : p.insts[c.pc]? = some (.scan cond sh))
    (hz : c.st.rd cond ≠ 0#w) : (BcM p).step c = .next { c with st := c.st.mov sh } := by
  apply BcM_step_of hi
  by_cases hs : sh = 0
  · subst hs
    have : c.st.mov 0 = c.st := by
      cases hst : c.st; simp [State.mov]
    simp [C11.stepI, hz, this]
  · simp [C11.stepI, hz, hs]

theorem raw_halt (h : c.pc = p.insts.size) : Bc.step p false c = .halt c := by
  have : p.insts[c.pc]? = none := by rw [h]; simp
  simp [Bc.step, h]

theorem raw_out_fail {src : Int} (hi : p.insts[c.pc]? = some (.out src))
    (h : (c.st.output src).1 = false) :
    Bc.step p false c = .stop { c with st := (c.st.output src).2 } := by
  simp only [C11.step_eq hi, C11.stepI, h, Bool.false_eq_true, if_false]

theorem raw_inp_fail {dst : Int} (hi : p.insts[c.pc]? = some (.inp dst))
    (h : (c.st.input dst).1 = false) :
    Bc.step p false c = .stop { c with st := (c.st.input dst).2 } := by
  simp only [C11.step_eq hi, C11.stepI, h, Bool.false_eq_true, if_false]

theorem step_halt (h : c.pc = p.insts.size) : (BcM p).step c = .fin true c.st.trace := by
  have : p.insts[c.pc]? = none := by rw [h]; simp
  simp [BcM, Bc.step, h]

end Steps

theorem mov_zero (s : State w) : s.mov 0 = s := by
  cases s; simp [State.mov]

/-! ### the IR machine: one instruction -/

abbrev IrM (w : Nat) : Sim.Mach := C01.IrM w

theorem irM_next {c c' : Ir.Cfg w} (h : Ir.step false c = .next c') : (IrM w).step c = .next c' := by
  show (match Ir.step false c with
    | .next c' => Sim.Res.next c'
    | .halt c' => .fin true c'.st.trace
    | .stop c' => .fin false c'.st.trace
    | .interrupted c' => .fin true c'.st.trace) = _
  rw [h]
  rfl
theorem irM_stop {c c' : Ir.Cfg w} (h : Ir.step false c = .stop c') :
    (IrM w).step c = .fin false c'.st.trace := by
  show (match Ir.step false c with
    | .next c' => Sim.Res.next c'
    | .halt c' => .fin true c'.st.trace
    | .stop c' => .fin false c'.st.trace
    | .interrupted c' => .fin true c'.st.trace) = _
  rw [h]
  rfl

section IrSteps
variable {rest : List (Ir.Instr w)} {ks : List (Ir.Cont w)} {bud : Nat} {st : State w}

theorem ir_halt : (IrM w).step ⟨[], [], bud, st⟩ = .fin true st.trace := rfl

theorem ir_loopEnd_again {cond shift : Int} {body : List (Ir.Instr w)}
    (h : (st.mov shift).rd cond ≠ 0#w) :
    (IrM w).step ⟨[], .loopEnd cond shift body rest :: ks, bud, st⟩
      = .next ⟨body, .loopEnd cond shift body rest :: ks, bud, st.mov shift⟩ :=
  irM_next (by simp [Ir.step, h])

theorem ir_loopEnd_exit {cond shift : Int} {body : List (Ir.Instr w)}
    (h : (st.mov shift).rd cond = 0#w) :
    (IrM w).step ⟨[], .loopEnd cond shift body rest :: ks, bud, st⟩
      = .next ⟨rest, ks, bud, st.mov shift⟩ :=
  irM_next (by simp [Ir.step, h])

theorem ir_ifEnd {shift : Int} :
    (IrM w).step ⟨[], .ifEnd shift rest :: ks, bud, st⟩ = .next ⟨rest, ks, bud, st.mov shift⟩ :=
  irM_next (by simp [Ir.step])

theorem ir_output_ok {src : Int} (h : (st.output src).1 = true) :
    (IrM w).step ⟨.output src :: rest, ks, bud, st⟩ = .next ⟨rest, ks, bud, (st.output src).2⟩ := by
  apply irM_next
  simp only [Ir.step]
  cases ho : st.output src with
  | mk b s => rw [ho] at h; simp only at h; subst h; rfl

theorem raw_ir_output_fail {src : Int} (h : (st.output src).1 = false) :
    Ir.step false ⟨.output src :: rest, ks, bud, st⟩ = .stop ⟨rest, ks, bud, (st.output src).2⟩ := by
  simp only [Ir.step]
  cases ho : st.output src with
  | mk b s => rw [ho] at h; simp only at h; subst h; rfl

theorem raw_ir_input_fail {dst : Int} (h : (st.input dst).1 = false) :
    Ir.step false ⟨.input dst :: rest, ks, bud, st⟩ = .stop ⟨rest, ks, bud, (st.input dst).2⟩ := by
  simp only [Ir.step]
  cases ho : st.input dst with
  | mk b s => rw [ho] at h; simp only at h; subst h; rfl

theorem ir_output_fail {src : Int} (h : (st.output src).1 = false) :
    (IrM w).step ⟨.output src :: rest, ks, bud, st⟩ = .fin false (st.output src).2.trace := by
  have : Ir.step false ⟨.output src :: rest, ks, bud, st⟩ = .stop ⟨rest, ks, bud, (st.output src).2⟩ := by
    simp only [Ir.step]
    cases ho : st.output src with
    | mk b s => rw [ho] at h; simp only at h; subst h; rfl
  exact irM_stop this

theorem ir_input_ok {dst : Int} (h : (st.input dst).1 = true) :
    (IrM w).step ⟨.input dst :: rest, ks, bud, st⟩ = .next ⟨rest, ks, bud, (st.input dst).2⟩ := by
  apply irM_next
  simp only [Ir.step]
  cases ho : st.input dst with
  | mk b s => rw [ho] at h; simp only at h; subst h; rfl

theorem ir_input_fail {dst : Int} (h : (st.input dst).1 = false) :
    (IrM w).step ⟨.input dst :: rest, ks, bud, st⟩ = .fin false (st.input dst).2.trace := by
  have : Ir.step false ⟨.input dst :: rest, ks, bud, st⟩ = .stop ⟨rest, ks, bud, (st.input dst).2⟩ := by
    simp only [Ir.step]
    cases ho : st.input dst with
    | mk b s => rw [ho] at h; simp only at h; subst h; rfl
  exact irM_stop this

theorem ir_calc {calcs : List (Int × Expr w)} :
    (IrM w).step ⟨.calc calcs :: rest, ks, bud, st⟩ = .next ⟨rest, ks, bud, Ir.doCalc st calcs⟩ := rfl

theorem ir_loop_enter {cond shift : Int} {body : List (Ir.Instr w)} {once : Bool}
    (h : st.rd cond ≠ 0#w) :
    (IrM w).step ⟨.loop cond shift body once :: rest, ks, bud, st⟩
      = .next ⟨body, .loopEnd cond shift body rest :: ks, bud, st⟩ :=
  irM_next (by simp [Ir.step, h])

theorem ir_loop_skip {cond shift : Int} {body : List (Ir.Instr w)} {once : Bool}
    (h : st.rd cond = 0#w) :
    (IrM w).step ⟨.loop cond shift body once :: rest, ks, bud, st⟩ = .next ⟨rest, ks, bud, st⟩ :=
  irM_next (by simp [Ir.step, h])

theorem ir_if_enter {cond shift : Int} {body : List (Ir.Instr w)} (h : st.rd cond ≠ 0#w) :
    (IrM w).step ⟨.ifnz cond shift body :: rest, ks, bud, st⟩
      = .next ⟨body, .ifEnd shift rest :: ks, bud, st⟩ :=
  irM_next (by simp [Ir.step, h])

theorem ir_if_skip {cond shift : Int} {body : List (Ir.Instr w)} (h : st.rd cond = 0#w) :
    (IrM w).step ⟨.ifnz cond shift body :: rest, ks, bud, st⟩ = .next ⟨rest, ks, bud, st⟩ :=
  irM_next (by simp [Ir.step, h])

end IrSteps

/-! ### measure for silent IR steps -/

def contsz : List (Ir.Cont w) → Nat
  | [] => 0
  | .loopEnd _ _ _ rest :: ks => 1 + iszL rest + contsz ks
  | .ifEnd _ rest :: ks => 1 + iszL rest + contsz ks

def mu (c : Ir.Cfg w) : Nat := iszL c.cur + contsz c.conts

/-! ### the hypothesis on `once` loops -/

/-- A loop marked `once` is only reached with a non-zero condition cell. -/
def OnceCond (c : Ir.Cfg w) : Prop :=
  ∀ cond shift body rest, c.cur = .loop cond shift body true :: rest → c.st.rd cond ≠ 0#w

/-- `OnceCond` holds at every configuration reachable from `c`. -/
def OnceSafe (c : Ir.Cfg w) : Prop := ∀ n c', Steps (IrM w) n c c' → OnceCond c'

theorem OnceSafe.step {c c' : Ir.Cfg w} (h : OnceSafe c) (hs : (IrM w).step c = .next c') : OnceSafe c' :=
  fun n c'' hst => h (n + 1) c'' (Steps.cons hs hst)

theorem OnceSafe.here {c : Ir.Cfg w} (h : OnceSafe c) : OnceCond c := h 0 c (Steps.refl (M := IrM w) c)

/-! ### continuations -/

inductive K (P : Bc.Program w) (fuse : Bool) : G w → List (Ir.Cont w) → Prop
  | nil {g : G w} : g.insts.size = P.insts.size → K P fuse g []
  | loop {cond shift : Int} {body rest : List (Ir.Instr w)} {ks : List (Ir.Cont w)} {once : Bool}
      {g0 g2 g' : G w} :
      Em fuse body (blockStart once g0) g2 →
      Em fuse rest (blockEnd true once cond shift (subOf shift body) g0 g2) g' →
      Agree P.insts g0 g' → WfV g0 → ValSub g0.values g2.values → (shift ≠ 0 → g0.values = []) →
      K P fuse g' ks → K P fuse g2 (.loopEnd cond shift body rest :: ks)
  | ifEnd {cond shift : Int} {body rest : List (Ir.Instr w)} {ks : List (Ir.Cont w)}
      {g0 g2 g' : G w} :
      Em fuse body (blockStart false g0) g2 →
      Em fuse rest (blockEnd false false cond shift (subOf shift body) g0 g2) g' →
      Agree P.insts g0 g' → WfV g0 →
      K P fuse g' ks → K P fuse g2 (.ifEnd shift rest :: ks)

/-! ### the relation -/

inductive R (P : Bc.Program w) (fuse : Bool) : Ir.Cfg w → Bc.Cfg w → Prop
  | run {cur : List (Ir.Instr w)} {conts : List (Ir.Cont w)} {bud : Nat} {st : State w} {pc : Nat}
      {temps : Temps w} {budget : Nat} {g g' : G w} :
      Em fuse cur g g' → pc = g.insts.size → Agree P.insts g g' → WfV g →
      Sound g.values ⟨pc, temps, budget, st⟩ → K P fuse g' conts → OnceSafe ⟨cur, conts, bud, st⟩ →
      R P fuse ⟨cur, conts, bud, st⟩ ⟨pc, temps, budget, st⟩
  | scan {cond shift : Int} {rest : List (Ir.Instr w)} {ks : List (Ir.Cont w)} {bud : Nat}
      {st : State w} {pc : Nat} {temps : Temps w} {budget : Nat} {gE g' : G w} :
      P.insts[pc]? = some (.scan cond shift) → st.rd cond ≠ 0#w →
      Em fuse rest gE g' → pc + 1 = gE.insts.size → Agree P.insts gE g' → WfV gE →
      Sound gE.values ⟨pc, temps, budget, st⟩ → (shift ≠ 0 → gE.values = []) →
      K P fuse g' ks → OnceSafe ⟨[], .loopEnd cond shift [] rest :: ks, bud, st⟩ →
      R P fuse ⟨[], .loopEnd cond shift [] rest :: ks, bud, st⟩ ⟨pc, temps, budget, st⟩

theorem Sound.congr {V : List (GvnExpr w × Nat)} {c c' : Bc.Cfg w} (h : Sound V c)
    (ht : c'.temps = c.temps) (hs : c'.st = c.st) : Sound V c' := by
  intro e t he
  have := h e t he
  rw [ht]
  rw [this]
  cases e <;> simp [den, ht, hs]

/-! ### layout of a block inside the final program -/

structure Layout (P : Bc.Program w) (isLoop once : Bool) (cond shift : Int) (sub : Analysis)
    (g0 g2 g' : G w) : Prop where
  agBody : Agree P.insts (blockStart once g0) g2
  agRest : Agree P.insts (blockEnd isLoop once cond shift sub g0 g2) g'
  wf1 : WfV (blockStart once g0)
  wfE : WfV g2 → WfV (blockEnd isLoop once cond shift sub g0 g2)
  le12 : (blockStart once g0).insts.size ≤ g2.insts.size
  leE : (blockEnd isLoop once cond shift sub g0 g2).insts.size ≤ g'.insts.size
  brz : once = false → P.insts[g0.insts.size]?
    = some (.brz cond (((blockEnd isLoop once cond shift sub g0 g2).insts.size : Int) - (g0.insts.size : Int)))
  mov : shift ≠ 0 → P.insts[g2.insts.size]? = some (.mov shift)
  brnz : isLoop = true → P.insts[g2.insts.size + (if shift = 0 then 0 else 1)]?
    = some (.brnz cond (((blockStart once g0).insts.size : Int)
        - ((g2.insts.size + (if shift = 0 then 0 else 1) : Nat) : Int)))

theorem layout {P : Bc.Program w} {fuse : Bool} {isLoop once : Bool} {cond shift : Int} {sub : Analysis}
    {body rest : List (Ir.Instr w)} {g0 g2 g' : G w}
    (hb : Em fuse body (blockStart once g0) g2)
    (hr : Em fuse rest (blockEnd isLoop once cond shift sub g0 g2) g')
    (hag : Agree P.insts g0 g') (hw : WfV g0) :
    Layout P isLoop once cond shift sub g0 g2 g' := by
  have hw1 : WfV (blockStart once g0) := hw.blockStart _
  obtain ⟨p12, _, _, hw2⟩ := hb.mono hw1
  have hwE := hw2.blockEnd isLoop once cond shift sub g0
  obtain ⟨pE, _, _, _⟩ := hr.mono hwE
  have h01 := blockStart_pre once g0
  have hsz1 := blockStart_size once g0
  have hszE := blockEnd_size isLoop once cond shift sub g0 g2
  have hlt : once = true ∨ g0.insts.size < g2.insts.size := by
    cases once
    · right; have := p12.1; simp at hsz1; omega
    · left; rfl
  -- an index below the end of the block: `P` agrees with the block's own code
  have key : ∀ i, g0.insts.size ≤ i → i < (blockEnd isLoop once cond shift sub g0 g2).insts.size →
      P.insts[i]? = (blockEnd isLoop once cond shift sub g0 g2).insts[i]? := by
    intro i h1 h2
    rw [hag i h1 (Nat.lt_of_lt_of_le h2 pE.1)]
    exact pE.2 i h2
  refine
    { agBody := ?_, agRest := ?_, wf1 := hw1, wfE := fun h => h.blockEnd _ _ _ _ _ _, le12 := p12.1,
      leE := pE.1, brz := ?_, mov := ?_, brnz := ?_ }
  · intro i h1 h2
    rw [key i (Nat.le_trans h01.1 h1) (by omega)]
    refine blockEnd_get_lt _ _ _ _ _ _ _ h2 ?_
    cases once
    · right; simp at hsz1; omega
    · left; rfl
  · intro i h1 h2
    exact hag i (by have := p12.1; have := h01.1; omega) h2
  · intro ho
    subst ho
    have h3 : g0.insts.size < g2.insts.size := by
      rcases hlt with h | h
      · cases h
      · exact h
    rw [key _ (Nat.le_refl _) (by omega)]
    exact blockEnd_get_brz _ _ _ _ _ _ h3
  · intro hs
    rw [key _ (by have := p12.1; have := h01.1; omega) (by rw [hszE]; simp [hs]; omega)]
    exact blockEnd_get_mov _ _ _ _ _ _ _ hs hlt
  · intro hl
    subst hl
    rw [key _ (by have := p12.1; have := h01.1; omega) (by rw [hszE]; simp)]
    exact blockEnd_get_brnz _ _ _ _ _ _ hlt

/-! ### the chunks -/

/-- What is shown for every related pair: as `Sim.Chunk`, but when both machines stop they do so at
once and in the same state. -/
inductive CH (P : Bc.Program w) (fuse : Bool) (a : Ir.Cfg w) (b : Bc.Cfg w) : Prop
  | silent (a' : Ir.Cfg w) : (IrM w).step a = .next a' → R P fuse a' b → mu a' < mu a →
      a'.st.trace = a.st.trace → CH P fuse a b
  | sync (m n : Nat) (a' : Ir.Cfg w) (b' : Bc.Cfg w) : Steps (IrM w) (m + 1) a a' →
      Steps (BcM P) (n + 1) b b' → R P fuse a' b' → a'.st.trace.length ≤ a.st.trace.length + 1 →
      CH P fuse a b
  | halt (ca : Ir.Cfg w) (cb : Bc.Cfg w) : Ir.step false a = .halt ca → Bc.step P false b = .halt cb →
      cb.st = ca.st → ca.st.trace.length ≤ a.st.trace.length + 1 → CH P fuse a b
  | stop (ca : Ir.Cfg w) (cb : Bc.Cfg w) : Ir.step false a = .stop ca → Bc.step P false b = .stop cb →
      cb.st = ca.st → ca.st.trace.length ≤ a.st.trace.length + 1 → CH P fuse a b

theorem irM_halt {c c' : Ir.Cfg w} (h : Ir.step false c = .halt c') :
    (IrM w).step c = .fin true c'.st.trace := by
  show (match Ir.step false c with
    | .next c' => Sim.Res.next c'
    | .halt c' => .fin true c'.st.trace
    | .stop c' => .fin false c'.st.trace
    | .interrupted c' => .fin true c'.st.trace) = _
  rw [h]
  rfl

theorem CH.toChunk {P : Bc.Program w} {fuse : Bool} {a : Ir.Cfg w} {b : Bc.Cfg w} (h : CH P fuse a b) :
    Chunk (IrM w) (BcM P) (R P fuse) mu a b := by
  cases h with
  | silent a' h1 h2 h3 h4 => exact Chunk.silent a' h1 h2 h3 h4
  | sync m n a' b' h1 h2 h3 h4 => exact Chunk.sync m n a' b' h1 h2 h3 h4
  | halt ca cb h1 h2 h3 h4 =>
    refine Chunk.fin 0 0 true ca.st.trace ⟨_, Steps.refl (M := IrM w) _, irM_halt h1⟩
      ⟨_, Steps.refl (M := BcM P) _, ?_⟩ h4
    simp only [BcM, h2, h3]
  | stop ca cb h1 h2 h3 h4 =>
    refine Chunk.fin 0 0 false ca.st.trace ⟨_, Steps.refl (M := IrM w) _, irM_stop h1⟩
      ⟨_, Steps.refl (M := BcM P) _, ?_⟩ h4
    simp only [BcM, h2, h3]

theorem sound_after_mov {V V' : List (GvnExpr w × Nat)} {pc pc' : Nat} {temps : Temps w}
    {budget : Nat} {st : State w} {shift : Int} (h : Sound V ⟨pc, temps, budget, st⟩)
    (hsub : ValSub V' V) (hnil : shift ≠ 0 → V' = []) :
    Sound V' ⟨pc', temps, budget, st.mov shift⟩ := by
  by_cases hs : shift = 0
  · subst hs
    rw [mov_zero]
    exact (h.sub hsub).congr rfl rfl
  · rw [hnil hs]; exact sound_nil _

theorem mov_steps {P : Bc.Program w} {shift : Int} {pc : Nat} {temps : Temps w} {budget : Nat}
    {st : State w} (hmov : shift ≠ 0 → P.insts[pc]? = some (.mov shift)) :
    Steps (BcM P) (if shift = 0 then 0 else 1) ⟨pc, temps, budget, st⟩
      ⟨pc + (if shift = 0 then 0 else 1), temps, budget, st.mov shift⟩ := by
  by_cases hs : shift = 0
  · subst hs
    simp only [if_true, Nat.add_zero, mov_zero]
    exact Steps.refl (M := BcM P) _
  · simp only [hs, if_false]
    exact Steps.one (step_mov (c := ⟨pc, temps, budget, st⟩) (hmov hs))

theorem chunk_halt {P : Bc.Program w} {fuse : Bool} {bud : Nat} {st : State w} {pc : Nat}
    {temps : Temps w} {budget : Nat} (hpc : pc = P.insts.size) :
    CH P fuse ⟨[], [], bud, st⟩ ⟨pc, temps, budget, st⟩ :=
  CH.halt _ _ rfl (raw_halt (c := ⟨pc, temps, budget, st⟩) hpc) rfl (by simp)

theorem chunk_loopEnd {P : Bc.Program w} {fuse : Bool} {cond shift : Int} {body rest : List (Ir.Instr w)}
    {ks : List (Ir.Cont w)} {once : Bool} {g0 g2 g' : G w} {bud : Nat} {st : State w}
    {temps : Temps w} {budget : Nat}
    (hb : Em fuse body (blockStart once g0) g2)
    (hr : Em fuse rest (blockEnd true once cond shift (subOf shift body) g0 g2) g')
    (hag : Agree P.insts g0 g') (hw0 : WfV g0) (hA : ValSub g0.values g2.values)
    (hS : shift ≠ 0 → g0.values = []) (hK : K P fuse g' ks) (hw2 : WfV g2)
    (hs : Sound g2.values ⟨g2.insts.size, temps, budget, st⟩)
    (hos : OnceSafe ⟨[], .loopEnd cond shift body rest :: ks, bud, st⟩) :
    CH P fuse ⟨[], .loopEnd cond shift body rest :: ks, bud, st⟩ ⟨g2.insts.size, temps, budget, st⟩ := by
  have L := layout hb hr hag hw0
  have hm := mov_steps (P := P) (temps := temps) (budget := budget) (st := st) L.mov
  have hbr := L.brnz rfl
  have hszE := blockEnd_size true once cond shift (subOf shift body) g0 g2
  simp only [if_true] at hszE
  by_cases hz : (st.mov shift).rd cond = 0#w
  · -- leave the loop
    have hi := ir_loopEnd_exit (rest := rest) (ks := ks) (bud := bud) (body := body) hz
    have hst := step_brnz_not (p := P)
      (c := ⟨g2.insts.size + (if shift = 0 then 0 else 1), temps, budget, st.mov shift⟩) hbr hz
    refine CH.sync 0 _ _ _ (Steps.one hi) (hm.snoc hst) ?_ (by simp [State.mov])
    refine R.run hr (by rw [hszE]) L.agRest (L.wfE hw2) ?_ hK (hos.step hi)
    refine sound_after_mov hs ?_ ?_
    · rw [blockEnd_values]; exact exitVals_sub hw2.nodup _ _ _ _
    · intro h0; rw [blockEnd_values]; exact exitVals_shift (subOf_shift body h0) _ _ _ _
  · -- next iteration
    have hi := ir_loopEnd_again (rest := rest) (ks := ks) (bud := bud) (body := body) hz
    have hq : g2.insts.size + (if shift = 0 then 0 else 1) < P.insts.size := lt_of_get hbr
    have hst := step_brnz_taken (p := P)
      (c := ⟨g2.insts.size + (if shift = 0 then 0 else 1), temps, budget, st.mov shift⟩)
      (t := (blockStart once g0).insts.size) hbr hz (by simp only; omega)
      (by have := L.le12; omega)
    refine CH.sync 0 _ _ _ (Steps.one hi) (hm.snoc hst) ?_ (by simp [State.mov])
    refine R.run hb rfl L.agBody L.wf1 ?_ (K.loop hb hr hag hw0 hA hS hK) (hos.step hi)
    refine sound_after_mov hs ?_ ?_
    · rw [blockStart_values]; exact hA
    · intro h0; rw [blockStart_values]; exact hS h0

theorem chunk_ifEnd {P : Bc.Program w} {fuse : Bool} {cond shift : Int} {body rest : List (Ir.Instr w)}
    {ks : List (Ir.Cont w)} {g0 g2 g' : G w} {bud : Nat} {st : State w}
    {temps : Temps w} {budget : Nat}
    (hb : Em fuse body (blockStart false g0) g2)
    (hr : Em fuse rest (blockEnd false false cond shift (subOf shift body) g0 g2) g')
    (hag : Agree P.insts g0 g') (hw0 : WfV g0) (hK : K P fuse g' ks) (hw2 : WfV g2)
    (hs : Sound g2.values ⟨g2.insts.size, temps, budget, st⟩)
    (hos : OnceSafe ⟨[], .ifEnd shift rest :: ks, bud, st⟩) :
    CH P fuse ⟨[], .ifEnd shift rest :: ks, bud, st⟩ ⟨g2.insts.size, temps, budget, st⟩ := by
  have L := layout hb hr hag hw0
  have hszE := blockEnd_size false false cond shift (subOf shift body) g0 g2
  simp only [Bool.false_eq_true, if_false, Nat.add_zero] at hszE
  have hi := ir_ifEnd (rest := rest) (ks := ks) (bud := bud) (st := st) (shift := shift)
  have hR : ∀ pc', pc' = (blockEnd false false cond shift (subOf shift body) g0 g2).insts.size →
      R P fuse ⟨rest, ks, bud, st.mov shift⟩ ⟨pc', temps, budget, st.mov shift⟩ := by
    intro pc' hpc
    refine R.run hr hpc L.agRest (L.wfE hw2) ?_ hK (hos.step hi)
    refine sound_after_mov hs ?_ ?_
    · rw [blockEnd_values]; exact exitVals_sub hw2.nodup _ _ _ _
    · intro h0; rw [blockEnd_values]; exact exitVals_shift (subOf_shift body h0) _ _ _ _
  by_cases h0 : shift = 0
  · subst h0
    have hR' := hR g2.insts.size (by rw [hszE]; simp)
    rw [mov_zero] at hR' hi
    exact CH.silent _ hi hR' (by simp [mu, contsz]; omega) rfl
  · have hst := step_mov (p := P) (c := ⟨g2.insts.size, temps, budget, st⟩) (L.mov h0)
    refine CH.sync 0 0 _ _ (Steps.one hi) (Steps.one hst) (hR _ (by rw [hszE]; simp [h0]))
      (by simp [State.mov])

/-! ### straight-line instructions -/

theorem Agree.of_le {P : Array (Bc.Instr w)} {g g1 g' : G w} (h : Agree P g g')
    (hle : g.insts.size ≤ g1.insts.size) : Agree P g1 g' :=
  fun i h1 h2 => h i (Nat.le_trans hle h1) h2

theorem Agree.get {P : Array (Bc.Instr w)} {g g1 g' : G w} (h : Agree P g g')
    (hp : Pre g1.insts g'.insts) {i : Nat} (h1 : g.insts.size ≤ i) (h2 : i < g1.insts.size) :
    P[i]? = g1.insts[i]? := by
  rw [h i h1 (Nat.lt_of_lt_of_le h2 hp.1)]
  exact hp.2 i h2

theorem Agree.mid {P : Array (Bc.Instr w)} {g g1 g' : G w} (h : Agree P g g')
    (hp : Pre g1.insts g'.insts) : Agree P g g1 :=
  fun _ h1 h2 => h.get hp h1 h2

theorem output_rd (s : State w) (src v : Int) : (s.output src).2.rd v = s.rd v := by
  simp only [State.rd, C11.output_tape, C11.output_ptr]

theorem output_trace_len (s : State w) (src : Int) :
    (s.output src).2.trace.length ≤ s.trace.length + 1 := by
  unfold State.output
  simp only
  split
  · split <;> simp
  · simp

theorem input_trace_len (s : State w) (dst : Int) :
    (s.input dst).2.trace.length ≤ s.trace.length + 1 := by
  unfold State.input
  split <;> simp

theorem input_rd (s : State w) (dst v : Int) (h : v ≠ dst) : (s.input dst).2.rd v = s.rd v := by
  simp only [State.rd, C11.input_ptr]
  exact C11.input_get s dst (by omega)

theorem sound_output {V : List (GvnExpr w × Nat)} {pc pc' : Nat} {temps : Temps w} {budget : Nat}
    {st : State w} (h : Sound V ⟨pc, temps, budget, st⟩) (src : Int) :
    Sound V ⟨pc', temps, budget, (st.output src).2⟩ := by
  intro e t he
  rw [h e t he]
  cases e <;> simp [den, output_rd]

theorem sound_input {V : List (GvnExpr w × Nat)} (hn : (keys V).Nodup) {pc pc' : Nat}
    {temps : Temps w} {budget : Nat} {st : State w} (h : Sound V ⟨pc, temps, budget, st⟩) (dst : Int) :
    Sound (alErase V (.mem dst)) ⟨pc', temps, budget, (st.input dst).2⟩ := by
  intro e t he
  rw [alGet_alErase V _ e hn] at he
  split at he
  · cases he
  · rename_i hne
    rw [h e t he]
    cases e with
    | imm v => rfl
    | add a b => rfl
    | sub a b => rfl
    | mul a b => rfl
    | mem v =>
      have : v ≠ dst := fun e' => hne (by rw [e'])
      simp [den, input_rd _ _ _ this]

theorem chunk_output {P : Bc.Program w} {fuse : Bool} {src : Int} {rest : List (Ir.Instr w)}
    {ks : List (Ir.Cont w)} {g g' : G w} {bud : Nat} {st : State w} {temps : Temps w} {budget : Nat}
    (hr : Em fuse rest (g.push (.out src)) g') (hag : Agree P.insts g g') (hw : WfV g)
    (hs : Sound g.values ⟨g.insts.size, temps, budget, st⟩) (hK : K P fuse g' ks)
    (hos : OnceSafe ⟨.output src :: rest, ks, bud, st⟩) :
    CH P fuse ⟨.output src :: rest, ks, bud, st⟩ ⟨g.insts.size, temps, budget, st⟩ := by
  obtain ⟨pr, _, _, _⟩ := hr.mono (hw.push _)
  have hi : P.insts[g.insts.size]? = some (.out src) := by
    rw [hag.get pr (Nat.le_refl _) (by simp [G.push])]
    simp [G.push]
  cases ho : (st.output src).1 with
  | true =>
    have h1 := ir_output_ok (rest := rest) (ks := ks) (bud := bud) ho
    have h2 := step_out_ok (p := P) (c := ⟨g.insts.size, temps, budget, st⟩) hi ho
    refine CH.sync 0 0 _ _ (Steps.one h1) (Steps.one h2) ?_ (output_trace_len st src)
    exact R.run hr (by simp [G.push]) (hag.of_le (by simp [G.push])) (hw.push _)
      (sound_output hs src) hK (hos.step h1)
  | false =>
    have h1 := raw_ir_output_fail (rest := rest) (ks := ks) (bud := bud) ho
    have h2 := raw_out_fail (p := P) (c := ⟨g.insts.size, temps, budget, st⟩) hi ho
    exact CH.stop _ _ h1 h2 rfl (output_trace_len st src)

theorem chunk_input {P : Bc.Program w} {fuse : Bool} {dst : Int} {rest : List (Ir.Instr w)}
    {ks : List (Ir.Cont w)} {g g' : G w} {bud : Nat} {st : State w} {temps : Temps w} {budget : Nat}
    (hr : Em fuse rest { g.push (.inp dst) with values := alErase g.values (.mem dst) } g')
    (hag : Agree P.insts g g') (hw : WfV g)
    (hs : Sound g.values ⟨g.insts.size, temps, budget, st⟩) (hK : K P fuse g' ks)
    (hos : OnceSafe ⟨.input dst :: rest, ks, bud, st⟩) :
    CH P fuse ⟨.input dst :: rest, ks, bud, st⟩ ⟨g.insts.size, temps, budget, st⟩ := by
  obtain ⟨pr, _, _, _⟩ := hr.mono (hw.input _)
  have hi : P.insts[g.insts.size]? = some (.inp dst) := by
    rw [hag.get pr (Nat.le_refl _) (by simp [G.push])]
    simp [G.push]
  cases ho : (st.input dst).1 with
  | true =>
    have h1 := ir_input_ok (rest := rest) (ks := ks) (bud := bud) ho
    have h2 := step_inp_ok (p := P) (c := ⟨g.insts.size, temps, budget, st⟩) hi ho
    refine CH.sync 0 0 _ _ (Steps.one h1) (Steps.one h2) ?_ (input_trace_len st dst)
    exact R.run hr (by simp [G.push]) (hag.of_le (by simp [G.push])) (hw.input _)
      (sound_input hw.nodup hs dst) hK (hos.step h1)
  | false =>
    have h1 := raw_ir_input_fail (rest := rest) (ks := ks) (bud := bud) ho
    have h2 := raw_inp_fail (p := P) (c := ⟨g.insts.size, temps, budget, st⟩) hi ho
    exact CH.stop _ _ h1 h2 rfl (input_trace_len st dst)

theorem steps_zero {M : Mach} {a b : M.C} (h : Steps M 0 a b) : a = b := by
  generalize hn : 0 = n at h
  cases h with
  | refl => rfl
  | cons _ _ => cases hn

theorem chunk_calc {P : Bc.Program w} {fuse : Bool} {calcs : List (Int × Expr w)}
    {rest : List (Ir.Instr w)} {ks : List (Ir.Cont w)} {g g1 g' : G w} {bud : Nat} {st : State w}
    {temps : Temps w} {budget : Nat}
    (hseg : WfV g → Seg (calcs.map (·.1)) (fun st => Ir.doCalc st calcs) g g1)
    (hr : Em fuse rest g1 g') (hag : Agree P.insts g g') (hw : WfV g)
    (hs : Sound g.values ⟨g.insts.size, temps, budget, st⟩) (hK : K P fuse g' ks)
    (hos : OnceSafe ⟨.calc calcs :: rest, ks, bud, st⟩) :
    CH P fuse ⟨.calc calcs :: rest, ks, bud, st⟩ ⟨g.insts.size, temps, budget, st⟩ := by
  have sg := hseg hw
  obtain ⟨pr, _, _, _⟩ := hr.mono (sg.wf hw)
  obtain ⟨c', hst, hpc, hst', hsd⟩ := sg.sem P ⟨g.insts.size, temps, budget, st⟩ (hag.mid pr) rfl hw hs
  obtain ⟨pc', temps', budget', st'⟩ := c'
  simp only at hpc hst'
  subst hpc hst'
  have h1 := ir_calc (rest := rest) (ks := ks) (bud := bud) (st := st) (calcs := calcs)
  have hR : R P fuse ⟨rest, ks, bud, Ir.doCalc st calcs⟩ ⟨g1.insts.size, temps', budget', Ir.doCalc st calcs⟩ :=
    R.run hr rfl (hag.of_le sg.ext.1) (sg.wf hw) hsd hK (hos.step h1)
  have htr : (Ir.doCalc st calcs).trace = st.trace := C07.doCalc_trace st calcs
  cases hk : g1.insts.size - g.insts.size with
  | zero =>
    rw [hk] at hst
    have e := steps_zero hst
    have e1 : g.insts.size = g1.insts.size := congrArg Bc.Cfg.pc e
    have e2 : temps = temps' := congrArg Bc.Cfg.temps e
    have e3 : budget = budget' := congrArg Bc.Cfg.budget e
    have e4 : st = Ir.doCalc st calcs := congrArg Bc.Cfg.st e
    rw [← e1, ← e2, ← e3] at hR
    rw [← e4] at hR h1
    exact CH.silent _ h1 hR (by simp [mu, iszL, isz]) rfl
  | succ k =>
    rw [hk] at hst
    exact CH.sync 0 k _ _ (Steps.one h1) hst hR (by simp [htr])

/-! ### the table at the head and at the exit of a block -/

theorem mem_drop_of_newFrom {n0 : Nat} {ex : Array (GvnExpr w)} {e : GvnExpr w}
    (h : NewFrom n0 ex e) : e ∈ ex.toList.drop n0 := by
  obtain ⟨i, hi, hg⟩ := h
  apply List.mem_of_getElem? (i := i - n0)
  rw [List.getElem?_drop]
  have : n0 + (i - n0) = i := by omega
  rw [this]
  simpa using hg

/-- (A) the entries at the head of a loop survive its body. -/
theorem head_sub_end {fuse : Bool} {shift : Int} {body : List (Ir.Instr w)} {once : Bool} {g g2 : G w}
    (hb : Em fuse body (blockStart once (headG true (subOf shift body) g)) g2) (hw : WfV g) :
    ValSub (headG true (subOf shift body) g).values g2.values := by
  rw [headG_values_true]
  cases hsh : (subOf shift body).hasShift with
  | true => rw [headVals_shift hsh]; exact ValSub.nil _
  | false =>
    obtain ⟨_, hbs, hbw⟩ := subOf_noShift hsh
    have hw1 : WfV (blockStart once (headG true (subOf shift body) g)) := (hw.headG true _).blockStart _
    have := (em_vinv (V := headVals (subOf shift body) g.values) (n0 := g.exprs.size)
      (W := (subOf shift body).writes) hb Analysis.empty hbs (fun v hv => hbw ▸ hv) hw1 (by simp)).1
    refine (this ?_ ⟨?_, ?_⟩).sub
    · intro v hv
      rw [headVals_noShift hsh, (eraseKeys_spec _ _ hw.nodup).2]
      have : (GvnExpr.mem v : GvnExpr w) ∈ (headKeys (subOf shift body) : List (GvnExpr w)) :=
        List.mem_map.2 ⟨v, hv, rfl⟩
      simp [this]
    · rw [blockStart_values, headG_values_true]; exact ValSub.refl _
    · rintro e ⟨i, hi, hg⟩
      have := lt_of_get hg
      simp only [blockStart_exprs, headG_exprs] at this
      omega

/-- (B) the entries at the exit of a block that may be skipped were there at its head. -/
theorem exit_sub_head {fuse : Bool} {shift : Int} {body : List (Ir.Instr w)} {g0 g2 : G w}
    (hb : Em fuse body (blockStart false g0) g2) (hw : WfV g0) :
    ValSub (exitVals (subOf shift body) false g0.exprs.size g2.exprs g2.values) g0.values := by
  cases hsh : (subOf shift body).hasShift with
  | true => rw [exitVals_shift hsh]; exact ValSub.nil _
  | false =>
    obtain ⟨_, hbs, hbw⟩ := subOf_noShift hsh
    have hw1 : WfV (blockStart false g0) := hw.blockStart _
    obtain ⟨_, _, _, hw2⟩ := hb.mono hw1
    have hB := (em_vinv (V := g0.values) (n0 := g0.exprs.size) (W := (subOf shift body).writes) hb
      Analysis.empty hbs (fun v hv => hbw ▸ hv) hw1 (by simp)).2
      (by intro e t he; left; simpa using he)
    rw [exitVals_erase hsh]
    intro e t he
    rw [(eraseKeys_spec _ _ hw2.nodup).2] at he
    split at he
    · cases he
    · rename_i hne
      rcases hB e t he with h1 | h1 | ⟨v, hv, rfl⟩
      · exact h1
      · exact absurd (List.mem_append.2 (Or.inr (mem_drop_of_newFrom h1))) hne
      · exact absurd (List.mem_append.2 (Or.inl (List.mem_map.2 ⟨v, hv, rfl⟩))) hne

theorem K.size_le {P : Bc.Program w} {fuse : Bool} {g : G w} {ks : List (Ir.Cont w)} (h : K P fuse g ks) :
    g.insts.size ≤ P.insts.size := by
  induction h with
  | nil h => exact Nat.le_of_eq h
  | @loop cond shift body rest ks once g0 g2 g' hb hr hag hw0 _ _ _ ih =>
    have L := layout hb hr hag hw0
    have := blockEnd_size true once cond shift (subOf shift body) g0 g2
    have := L.leE
    omega
  | @ifEnd cond shift body rest ks g0 g2 g' hb hr hag hw0 _ ih =>
    have L := layout hb hr hag hw0
    have := blockEnd_size false false cond shift (subOf shift body) g0 g2
    have := L.leE
    omega

/-! ### loops and ifs -/

theorem scanEnd_sub {g : G w} (hw : WfV g) (cond shift : Int) (sub : Analysis) (once : Bool) :
    ValSub (scanEnd cond shift sub once g).values g.values := by
  rw [scanEnd_values]
  exact (exitVals_sub (headVals_nodup hw.nodup sub) _ _ _ _).trans (headVals_sub hw.nodup sub)

theorem chunk_scan_enter {P : Bc.Program w} {fuse : Bool} {cond shift : Int} {once : Bool}
    {rest : List (Ir.Instr w)} {ks : List (Ir.Cont w)} {g g' : G w} {bud : Nat} {st : State w}
    {temps : Temps w} {budget : Nat}
    (hr : Em fuse rest (scanEnd cond shift (subOf shift ([] : List (Ir.Instr w))) once g) g')
    (hag : Agree P.insts g g') (hw : WfV g)
    (hs : Sound g.values ⟨g.insts.size, temps, budget, st⟩) (hK : K P fuse g' ks)
    (hos : OnceSafe ⟨.loop cond shift [] once :: rest, ks, bud, st⟩) :
    CH P fuse ⟨.loop cond shift [] once :: rest, ks, bud, st⟩ ⟨g.insts.size, temps, budget, st⟩ := by
  have hwE := hw.scanEnd cond shift (subOf shift ([] : List (Ir.Instr w))) once
  obtain ⟨pr, _, _, _⟩ := hr.mono hwE
  have hi : P.insts[g.insts.size]? = some (.scan cond shift) := by
    rw [hag.get pr (Nat.le_refl _) (by simp)]
    simp
  have hsE : Sound (scanEnd cond shift (subOf shift ([] : List (Ir.Instr w))) once g).values
      ⟨g.insts.size, temps, budget, st⟩ := hs.sub (scanEnd_sub hw _ _ _ _)
  by_cases hz : st.rd cond = 0#w
  · have h1 := ir_loop_skip (rest := rest) (ks := ks) (bud := bud) (shift := shift) (body := [])
      (once := once) hz
    have h2 := step_scan_zero (p := P) (c := ⟨g.insts.size, temps, budget, st⟩) hi hz
    refine CH.sync 0 0 _ _ (Steps.one h1) (Steps.one h2) ?_ (by simp)
    exact R.run hr (by simp) (hag.of_le (by simp)) hwE (hsE.congr rfl rfl) hK (hos.step h1)
  · have h1 := ir_loop_enter (rest := rest) (ks := ks) (bud := bud) (shift := shift) (body := [])
      (once := once) hz
    refine CH.silent _ h1 ?_ (by simp [mu, iszL, isz, contsz]) rfl
    refine R.scan hi hz hr (by simp) (hag.of_le (by simp)) hwE hsE ?_ hK (hos.step h1)
    intro h0
    rw [scanEnd_values]
    exact exitVals_shift (subOf_shift _ h0) _ _ _ _

theorem chunk_scan_inside {P : Bc.Program w} {fuse : Bool} {cond shift : Int}
    {rest : List (Ir.Instr w)} {ks : List (Ir.Cont w)} {gE g' : G w} {bud : Nat} {st : State w} {pc : Nat}
    {temps : Temps w} {budget : Nat}
    (hi : P.insts[pc]? = some (.scan cond shift)) (hnz : st.rd cond ≠ 0#w)
    (hr : Em fuse rest gE g') (hpc : pc + 1 = gE.insts.size) (hag : Agree P.insts gE g') (hwE : WfV gE)
    (hs : Sound gE.values ⟨pc, temps, budget, st⟩) (hnil : shift ≠ 0 → gE.values = [])
    (hK : K P fuse g' ks) (hos : OnceSafe ⟨[], .loopEnd cond shift [] rest :: ks, bud, st⟩) :
    CH P fuse ⟨[], .loopEnd cond shift [] rest :: ks, bud, st⟩ ⟨pc, temps, budget, st⟩ := by
  have h2 := step_scan_move (p := P) (c := ⟨pc, temps, budget, st⟩) hi hnz
  have hs' : Sound gE.values ⟨pc, temps, budget, st.mov shift⟩ :=
    sound_after_mov hs (ValSub.refl _) hnil
  by_cases hz : (st.mov shift).rd cond = 0#w
  · have h1 := ir_loopEnd_exit (rest := rest) (ks := ks) (bud := bud) (body := []) hz
    have h3 := step_scan_zero (p := P) (c := ⟨pc, temps, budget, st.mov shift⟩) hi hz
    refine CH.sync 0 1 _ _ (Steps.one h1) ((Steps.one h2).snoc h3) ?_ (by simp [State.mov])
    exact R.run hr hpc hag hwE (hs'.congr rfl rfl) hK (hos.step h1)
  · have h1 := ir_loopEnd_again (rest := rest) (ks := ks) (bud := bud) (body := []) hz
    refine CH.sync 0 0 _ _ (Steps.one h1) (Steps.one h2) ?_ (by simp [State.mov])
    exact R.scan hi hz hr hpc hag hwE hs' hnil hK (hos.step h1)

theorem chunk_loop {P : Bc.Program w} {fuse : Bool} {cond shift : Int} {body : List (Ir.Instr w)}
    {once : Bool} {rest : List (Ir.Instr w)} {ks : List (Ir.Cont w)} {g g2 g' : G w} {bud : Nat}
    {st : State w} {temps : Temps w} {budget : Nat}
    (hb : Em fuse body (blockStart once (headG true (subOf shift body) g)) g2)
    (hr : Em fuse rest (blockEnd true once cond shift (subOf shift body) (headG true (subOf shift body) g) g2) g')
    (hag : Agree P.insts g g') (hw : WfV g)
    (hs : Sound g.values ⟨g.insts.size, temps, budget, st⟩) (hK : K P fuse g' ks)
    (hos : OnceSafe ⟨.loop cond shift body once :: rest, ks, bud, st⟩) :
    CH P fuse ⟨.loop cond shift body once :: rest, ks, bud, st⟩ ⟨g.insts.size, temps, budget, st⟩ := by
  have hw0 : WfV (headG true (subOf shift body) g) := hw.headG true _
  have hag0 : Agree P.insts (headG true (subOf shift body) g) g' := hag
  have L := layout hb hr hag0 hw0
  have hA := head_sub_end hb hw
  have hS : shift ≠ 0 → (headG true (subOf shift body) g).values = [] := fun h0 => by
    rw [headG_values_true]; exact headVals_shift (subOf_shift body h0) _
  have hK' := K.loop hb hr hag0 hw0 hA hS hK
  have hs0 : Sound (headG true (subOf shift body) g).values ⟨g.insts.size, temps, budget, st⟩ :=
    hs.sub (by rw [headG_values_true]; exact headVals_sub hw.nodup _)
  cases once with
  | true =>
    have hz : st.rd cond ≠ 0#w := hos.here cond shift body rest rfl
    have h1 := ir_loop_enter (rest := rest) (ks := ks) (bud := bud) (shift := shift) (body := body)
      (once := true) hz
    refine CH.silent _ h1 ?_ (by simp [mu, iszL, isz, contsz]; omega) rfl
    exact R.run hb (by simp [blockStart]) L.agBody L.wf1 (by rw [blockStart_values]; exact hs0) hK'
      (hos.step h1)
  | false =>
    have hbrz := L.brz rfl
    simp only [headG_insts] at hbrz
    obtain ⟨_, _, _, hw2⟩ := hb.mono L.wf1
    by_cases hz : st.rd cond = 0#w
    · have h1 := ir_loop_skip (rest := rest) (ks := ks) (bud := bud) (shift := shift) (body := body)
        (once := false) hz
      have hle := Nat.le_trans L.leE hK.size_le
      have h2 := step_brz_taken (p := P) (c := ⟨g.insts.size, temps, budget, st⟩)
        (t := (blockEnd true false cond shift (subOf shift body) (headG true (subOf shift body) g) g2).insts.size)
        hbrz hz (by simp only; omega) hle
      refine CH.sync 0 0 _ _ (Steps.one h1) (Steps.one h2) ?_ (by simp)
      refine R.run hr rfl L.agRest (L.wfE hw2) ?_ hK (hos.step h1)
      refine (hs0.sub ?_).congr rfl rfl
      rw [blockEnd_values]
      exact exit_sub_head hb hw0
    · have h1 := ir_loop_enter (rest := rest) (ks := ks) (bud := bud) (shift := shift) (body := body)
        (once := false) hz
      have h2 := step_brz_not (p := P) (c := ⟨g.insts.size, temps, budget, st⟩) hbrz hz
      refine CH.sync 0 0 _ _ (Steps.one h1) (Steps.one h2) ?_ (by simp)
      exact R.run hb (by simp [blockStart, G.push]) L.agBody L.wf1
        (by rw [blockStart_values]; exact hs0.congr rfl rfl) hK' (hos.step h1)

theorem chunk_ifnz {P : Bc.Program w} {fuse : Bool} {cond shift : Int} {body : List (Ir.Instr w)}
    {rest : List (Ir.Instr w)} {ks : List (Ir.Cont w)} {g g2 g' : G w} {bud : Nat}
    {st : State w} {temps : Temps w} {budget : Nat}
    (hb : Em fuse body (blockStart false g) g2)
    (hr : Em fuse rest (blockEnd false false cond shift (subOf shift body) g g2) g')
    (hag : Agree P.insts g g') (hw : WfV g)
    (hs : Sound g.values ⟨g.insts.size, temps, budget, st⟩) (hK : K P fuse g' ks)
    (hos : OnceSafe ⟨.ifnz cond shift body :: rest, ks, bud, st⟩) :
    CH P fuse ⟨.ifnz cond shift body :: rest, ks, bud, st⟩ ⟨g.insts.size, temps, budget, st⟩ := by
  have L := layout hb hr hag hw
  have hbrz := L.brz rfl
  obtain ⟨_, _, _, hw2⟩ := hb.mono L.wf1
  by_cases hz : st.rd cond = 0#w
  · have h1 := ir_if_skip (rest := rest) (ks := ks) (bud := bud) (shift := shift) (body := body) hz
    have hle := Nat.le_trans L.leE hK.size_le
    have h2 := step_brz_taken (p := P) (c := ⟨g.insts.size, temps, budget, st⟩)
      (t := (blockEnd false false cond shift (subOf shift body) g g2).insts.size)
      hbrz hz (by simp only; omega) hle
    refine CH.sync 0 0 _ _ (Steps.one h1) (Steps.one h2) ?_ (by simp)
    refine R.run hr rfl L.agRest (L.wfE hw2) ?_ hK (hos.step h1)
    refine (hs.sub ?_).congr rfl rfl
    rw [blockEnd_values]
    exact exit_sub_head hb hw
  · have h1 := ir_if_enter (rest := rest) (ks := ks) (bud := bud) (shift := shift) (body := body) hz
    have h2 := step_brz_not (p := P) (c := ⟨g.insts.size, temps, budget, st⟩) hbrz hz
    refine CH.sync 0 0 _ _ (Steps.one h1) (Steps.one h2) ?_ (by simp)
    exact R.run hb (by simp [blockStart, G.push]) L.agBody L.wf1
      (by rw [blockStart_values]; exact hs.congr rfl rfl) (K.ifEnd hb hr hag hw hK) (hos.step h1)

/-! ### the simulation -/

theorem chunk {P : Bc.Program w} {fuse : Bool} {a : Ir.Cfg w} {b : Bc.Cfg w} (h : R P fuse a b) :
    CH P fuse a b := by
  cases h with
  | @run cur conts bud st pc temps budget g g' hem hpc hag hw hs hK hos =>
    subst hpc
    cases hem with
    | nil =>
      cases hK with
      | nil hsz => exact chunk_halt hsz
      | loop hb hr hag' hw0 hA hS hK' => exact chunk_loopEnd hb hr hag' hw0 hA hS hK' hw hs hos
      | ifEnd hb hr hag' hw0 hK' => exact chunk_ifEnd hb hr hag' hw0 hK' hw hs hos
    | output hr => exact chunk_output hr hag hw hs hK hos
    | input hr => exact chunk_input hr hag hw hs hK hos
    | «calc» hseg hr => exact chunk_calc hseg hr hag hw hs hK hos
    | scan _ hr => exact chunk_scan_enter hr hag hw hs hK hos
    | loop _ hb hr => exact chunk_loop hb hr hag hw hs hK hos
    | ifnz hb hr => exact chunk_ifnz hb hr hag hw hs hK hos
  | scan hi hnz hr hpc hag hwE hs hnil hK hos =>
    exact chunk_scan_inside hi hnz hr hpc hag hwE hs hnil hK hos

theorem tr_eq_of_R {P : Bc.Program w} {fuse : Bool} {a : Ir.Cfg w} {b : Bc.Cfg w} (h : R P fuse a b) :
    (IrM w).tr a = (BcM P).tr b := by
  cases h <;> rfl

theorem simulation (P : Bc.Program w) (fuse : Bool) : Simulation (IrM w) (BcM P) (R P fuse) mu where
  monoA := C01.mono_IrM
  monoB := mono_BcM P
  tr_eq := tr_eq_of_R
  chunk := fun h => (chunk h).toChunk

end C02Emit
end Hpbf
