/-
Rebuild-round proofs, stage 2: `loopOrIf` when the child block does not move the pointer.  The parent materializes
what the child reads (and the cells the child writes "constantly"), clobbers the other cells the child writes, and
pushes the `Loop` / `If`; its remaining pending operations survive the loop.
-/
import Hpbf.Proofs.OptRbLoopStay

namespace Hpbf
namespace OptProof
open Opt OptSem Ir

variable {w : Nat}

/-- What the parent needs of a non-moving child BEFORE the child's own `emitAll`. -/
structure ChildPre (Gc : State w → Prop) (shP shC : Int) (pc : List (Rebuild w)) (sub0 sub : Rebuild w)
    (cS : Int) (bodyS : List (Instr w)) : Prop where
  rep : ChildRep Gc shP shC pc sub0 [] sub bodyS
  foot : FootStepV (ValidG Gc shP sub0 pc) sub0 sub sub.insts
  badfoot : FootBadV (ValidG Gc shP sub0 pc) sub0 sub sub.insts
  frame2 : FootFrameV (ValidG Gc shP sub0 pc) sub0 sub sub.insts
  noShift : sub.subShift = false
  w0 : sub0.written = []
  entry : ∀ σE σS : State w, SameMem shP σS σE → σS.rd cS ≠ 0#w → Gc σS → ∃ M0, RelAt shP sub0 pc M0 σE σS
  wf : Wf sub

/-- Badness mirroring composes (first half of the code, then code without blocks). -/
theorem FootBadV.then_noBlocks {V : State w → Prop} {a b c : Rebuild w} {n1 n2 : List (Instr w)}
    (b1 : FootBadV V a b n1) (h2 : ∀ i ∈ n2, C01Dse.isBlock i = false) (hm : ReadsMono b c) :
    FootBadV V a c (n1 ++ n2) := by
  intro hs K hK σ1 σ2 v1 hag hbad
  have hsb := hm.2 hs
  have hKb : ∀ v, K v → v ∉ b.reads := fun v hv' hr => hK v hv' (hm.1 v hr)
  rcases bad_append.1 hbad with hb | ⟨σ2', _, hb⟩
  · exact bad_append.2 (Or.inl (b1 hsb K hKb σ1 σ2 v1 hag hb))
  · exact absurd hb (not_bad_of_noBlocks h2 σ2')

theorem ChildPre.emit {Gc : State w → Prop} {shP shC : Int} {pc : List (Rebuild w)} {sub0 sub : Rebuild w}
    {cS : Int}
    {bodyS : List (Instr w)} (h : ChildPre Gc shP shC pc sub0 sub cS bodyS) {os os1 : Orders} {sub1 : Rebuild w}
    (h1 : ((if !sub.noReturn then emitAll [] (pendingSorted sub sub) sub else pure sub : M (Rebuild w)).run os
      = .ok (sub1, os1))) :
    ChildOk Gc shP shC pc sub0 sub1 cS bodyS ∧ Wf sub1 ∧ sub1.shift = sub.shift := by
  split at h1
  · obtain ⟨c, res, hcl⟩ := emitAll_clears [] (pendingSorted sub sub) h.wf
      (fun k hk => (Hpbf.OptLoop.mem_pendingSorted sub sub k).2 hk) h1
    obtain ⟨c', res', ef⟩ := emitAll_foot [] (pendingSorted sub sub) h.wf h1
    have hcc : c' = c := by
      apply calc_map_inj
      exact List.append_cancel_left (res'.insts.symm.trans res.insts)
    rw [hcc] at ef
    have hss : sub1.subShift = false := by rw [res.hdr.2.2.2.2]; exact h.noShift
    refine ⟨⟨h.rep.emit res, ?_, ?_, ?_, hss, fun _ => hcl, h.w0, h.entry⟩, res.wf, res.hdr.2.2.1⟩
    · rw [res.insts]
      exact h.foot.trans (ef.foot.footStep.toV (fun _ => True)) (fun _ _ _ _ => trivial) ef.mono
    · rw [res.insts]
      exact h.badfoot.then_noBlocks (noBlocks_calcs c) ef.mono
    · -- the emitted groups write their targets, which get `written` entries
      rw [res.insts]
      have hphys : sub1.subShift = false → nsL (c.map Instr.calc) ∧
          ∀ v, tgtL (c.map Instr.calc) v → v ∈ mKeys sub1.written ∨ v ∈ sub1.reads := by
        intro hs'
        obtain ⟨fw, ft⟩ := ef.frame hs'
        refine ⟨nsL_calcs c, fun v hv => Or.inl ?_⟩
        rw [tgtL_calcs] at hv
        obtain ⟨g, hg, hvg⟩ := hv
        rw [← mGet_isSome_iff]
        cases hw : mGet sub1.written v with
        | some k => rfl
        | none => exact absurd hvg (ft v hw g hg)
      refine h.frame2.trans h.foot (footFrameV_of_phys hphys) (fun _ _ _ _ => trivial) ef.mono ?_
      intro hs' v hv
      obtain ⟨fw, _⟩ := ef.frame hs'
      rw [← mGet_isSome_iff] at hv ⊢
      cases hw : mGet sub1.written v with
      | some k => rfl
      | none => rw [fw v hw] at hv; cases hv
  · rename_i hn
    rw [run_pure] at h1
    cases h1
    refine ⟨⟨h.rep, h.foot, h.badfoot, h.frame2, h.noShift, fun hnr => ?_, h.w0, h.entry⟩, h.wf, rfl⟩
    rw [hnr] at hn; simp at hn

theorem SameHdr.symm {a b : Rebuild w} (h : SameHdr a b) : SameHdr b a :=
  ⟨h.1.symm, h.2.1.symm, h.2.2.1.symm, h.2.2.2.1.symm, h.2.2.2.2.symm⟩

theorem head_zero {c sh : Int} {body : List (Instr w)} {σ σk : State w} {k : Nat}
    (h : Head c sh body σ k σk) (h0 : σ.rd c = 0#w) : k = 0 ∧ σk = σ := by
  induction h with
  | zero => exact ⟨rfl, rfl⟩
  | succ _ hne _ ih =>
    obtain ⟨_, e⟩ := ih
    rw [e] at hne
    exact absurd h0 hne

theorem MInv.insertWritten_known {s : Rebuild w} {ps : List (Rebuild w)} {M0 E S : Mem w}
    (h : MInv s ps M0 E S) (v : Int) (e : Expr w) (hv : E v = ev e M0) :
    MInv (insertWritten s v (.known e)) ps M0 E S := by
  have hs := insertWritten_same s v (.known e)
  refine ⟨by rw [hs.2.2.2.2.2.2.2.1]; exact h.pend, ?_, h.pk.congr hs.hdr⟩
  intro x
  rw [insertWritten_written, mGet_mSet]
  by_cases hx : v = x
  · subst hx
    simp only [if_true]
    rw [hv]
    exact (Expr.eval_normalize e M0).symm
  · simp only [hx, if_false]; exact h.writ x

theorem condZero_cases (s sub : Rebuild w) (cond : Int) :
    condZero s sub cond = s ∨
    (condZero s sub cond = insertWritten s cond (.known (Expr.val 0#w)) ∧
      ∃ e, mGet sub.written cond = some (.known e) ∧ Expr.constant e = some 0#w) := by
  unfold condZero
  split
  · rename_i e he
    split
    · rename_i hc
      exact Or.inr ⟨rfl, e, he, by simpa using hc⟩
    · exact Or.inl rfl
  · exact Or.inl rfl

/-- Loop-head relation for a non-moving child inside its parent. `k` = number of completed rounds. -/
structure StayJ (shP : Int) (cS shS : Int) (bodyS : List (Instr w)) (sub1 s3 : Rebuild w) (Dx : Int → Prop)
    (σS σE3 : State w) (k : Nat) (σS' σE' : State w) : Prop where
  tr : σS'.trace = σE'.trace
  env : σS'.env = σE'.env
  ptr : σS'.ptr = σE'.ptr + shP
  ptrE : σE'.ptr = σE3.ptr
  agree : ∀ v, mGet s3.pending v = none → ¬ Dx v → memS σE' σS' v = memE σE' v
  frame : ∀ v, mGet sub1.written v = none → memE σE' v = memE σE3 v ∧ memS σE' σS' v = memS σE3 σS v
  head : Head cS shS bodyS σS k σS'
  first : k = 0 → σS' = σS ∧ σE' = σE3
  later : k ≠ 0 → ∀ v, Dx v → memS σE' σS' v = memE σE' v
  knownZ : k ≠ 0 → ∀ e, mGet sub1.written (cS + shP) = some (.known e) → Expr.constant e = some 0#w →
    memE σE' (cS + shP) = 0#w

theorem memS_mov0 (a b : State w) (sh : Int) : memS (b.mov 0) (a.mov sh) = memS b a := by
  funext v
  show a.tape.get (b.ptr + 0 + v) = a.tape.get (b.ptr + v)
  rw [Int.add_zero]

theorem memE_mov0 (b : State w) : memE (b.mov 0) = memE b := by
  funext v
  show b.tape.get (b.ptr + 0 + v) = b.tape.get (b.ptr + v)
  rw [Int.add_zero]

theorem MInvX.toMInv {D : Int → Prop} {s : Rebuild w} {ps : List (Rebuild w)} {M0 E S : Mem w}
    (h : MInvX D s ps M0 E S) (hD : ∀ v, ¬ D v) : MInv s ps M0 E S :=
  ⟨funext (fun v => h.pendX v (hD v)), h.writ, h.pk⟩

section Stay
variable {Gc : State w → Prop} {shP shC cS shS : Int} {pc : List (Rebuild w)} {sub0 sub1 s3 : Rebuild w}
  {bodyS : List (Instr w)}
  {Dx : Int → Prop} {σS σE3 : State w}

/-- One round keeps the loop-head relation. -/
theorem stayJ_round (hc : ChildOk Gc shP shC pc sub0 sub1 cS bodyS) (hsh : shC + shS = shP)
    (hread : ∀ v, v ∈ sub1.reads ∨ v = cS + shP → mGet s3.pending v = none ∧ ¬ Dx v)
    (hDx : ∀ v, Dx v → DefW sub1 v)
    {k : Nat} {σS' σE' : State w} (hJ : StayJ shP cS shS bodyS sub1 s3 Dx σS σE3 k σS' σE')
    (hne : σS'.rd cS ≠ 0#w) (hg : Gc σS') :
    Sim (fun a b => StayJ shP cS shS bodyS sub1 s3 Dx σS σE3 (k + 1) (a.mov shS) (b.mov 0))
      bodyS sub1.insts σS' σE' ∧ ¬ Bad sub1.insts σE' := by
  have hK : ∀ v, (mGet s3.pending v ≠ none ∨ Dx v) → v ∉ sub1.reads := by
    intro v hv hr
    obtain ⟨h1, h2⟩ := hread v (Or.inl hr)
    rcases hv with h | h
    · exact h h1
    · exact h2 h
  have hag : ∀ v, ¬ (mGet s3.pending v ≠ none ∨ Dx v) → memS σE' σS' v = memE σE' v := by
    intro v hv
    apply hJ.agree v
    · cases hp : mGet s3.pending v with
      | none => rfl
      | some e => exact absurd (Or.inl (by rw [hp]; simp)) hv
    · exact fun h => hv (Or.inr h)
  have hKc : ¬ (mGet s3.pending (cS + shP) ≠ none ∨ Dx (cS + shP)) := by
    obtain ⟨h1, h2⟩ := hread (cS + shP) (Or.inr rfl)
    rintro (h | h)
    · exact h h1
    · exact h2 h
  obtain ⟨hround, hnb⟩ :=
    child_round hc (fun v => mGet s3.pending v ≠ none ∨ Dx v) hK hKc hJ.tr hJ.env hJ.ptr hag hne hg
  refine ⟨hround.fin_strengthen.mono ?_, hnb⟩
  rintro a b ⟨⟨q1, q2, q3, q4, q5, q6, q7⟩, hea, _⟩
  refine ⟨q1, q2, ?_, ?_, ?_, ?_, Head.succ hJ.head hne hea, fun h => by omega, ?_, ?_⟩
  · show a.ptr + shS = b.ptr + 0 + shP
    rw [q3]; omega
  · show b.ptr + 0 = σE3.ptr
    rw [Int.add_zero, q4]; exact hJ.ptrE
  · intro v hp hd
    rw [memS_mov0, memE_mov0]
    apply q5 v
    rintro ⟨h | h, _⟩
    · exact h hp
    · exact hd h
  · intro v hv
    rw [memS_mov0, memE_mov0]
    obtain ⟨f1, f2⟩ := q6 v hv
    obtain ⟨g1, g2⟩ := hJ.frame v hv
    exact ⟨f1.trans g1, f2.trans g2⟩
  · intro _ v hd
    rw [memS_mov0, memE_mov0]
    apply q5 v
    rintro ⟨_, h⟩
    exact h (hDx v hd)
  · intro _ e he hcst
    rw [memE_mov0]
    apply q7 (cS + shP) e 0#w he hcst
    obtain ⟨h1, h2⟩ := hread (cS + shP) (Or.inr rfl)
    rintro (h | h)
    · exact h h1
    · exact h2 h

/-- The relation at loop entry. -/
theorem stayJ_init {ps : List (Rebuild w)} {M0 : Mem w}
    (hX : MInvX Dx s3 ps M0 (memE σE3) (memS σE3 σS))
    (htr : σS.trace = σE3.trace) (henv : σS.env = σE3.env) (hptr : σS.ptr = σE3.ptr + shP) :
    StayJ shP cS shS bodyS sub1 s3 Dx σS σE3 0 σS σE3 := by
  refine ⟨htr, henv, hptr, rfl, ?_, fun _ _ => ⟨rfl, rfl⟩, Head.zero, fun _ => ⟨rfl, rfl⟩,
    fun h => absurd rfl h, fun h => absurd rfl h⟩
  intro v hp hd
  rw [hX.pendX v hd]
  exact par_of_not_mem _ _ _ hp

/-- At the exit of the loop / if the parent's invariant holds again (before the bookkeeping of `loopTail`). -/
theorem stayJ_exit_minv {ps : List (Rebuild w)} {M0 : Mem w} {L : OptLoop w} {C : List Int}
    (hX : MInvX Dx s3 ps M0 (memE σE3) (memS σE3 σS))
    (hdrop : DropOk L C sub1 (cS + shP) Dx)
    (hdead : L.noEffect = false → ∀ vk ∈ sub1.written, C.contains vk.1 = false → Dead s3 vk.1)
    (hconstP : ∀ v ∈ mKeys sub1.written, C.contains v = true → mGet s3.pending v = none)
    (halo : L.atLeastOnce = true → σS.rd cS ≠ 0#w)
    {k : Nat} {σS' σE' : State w} (hJ : StayJ shP cS shS bodyS sub1 s3 Dx σS σE3 k σS' σE')
    (hconst : ∀ x ∈ mKeys sub1.written, C.contains x = true → memS σE3 σS' x = memS σE3 σS x)
    (hk0 : k = 0 → σS.rd cS = 0#w) (hne : L.noEffect = true → k = 0) :
    MInv s3 ps M0 (memE σE') (memS σE' σS') := by
  by_cases hk : k = 0
  · obtain ⟨e1, e2⟩ := hJ.first hk
    rw [e1, e2]
    apply hX.toMInv
    intro v hd
    exact halo (hdrop.alo v hd) (hk0 hk)
  · have hnef : L.noEffect = false := by
      cases h : L.noEffect with
      | false => rfl
      | true => exact absurd (hne h) hk
    have hmemE : ∀ v, memS σE3 σS' v = memS σE' σS' v := by
      intro v
      show σS'.tape.get (σE3.ptr + v) = σS'.tape.get (σE'.ptr + v)
      rw [hJ.ptrE]
    refine (hX.mono (D' := fun v => ∃ kk, (v, kk) ∈ sub1.written ∧ C.contains v = false) ?_).havoc ?_ ?_ ?_
    · intro v hd
      obtain ⟨kk, hkk, _⟩ := hdrop.written v hd
      exact ⟨kk, hkk, hdrop.notConst v hd⟩
    · rintro v ⟨kk, hkk, hC⟩
      exact hdead hnef (v, kk) hkk hC
    · intro v hv
      cases hw : mGet sub1.written v with
      | none => exact hJ.frame v hw
      | some kk =>
        have hmem : (v, kk) ∈ sub1.written := mGet_some_mem hw
        have hC : C.contains v = true := by
          cases h : C.contains v with
          | true => rfl
          | false => exact absurd ⟨kk, hmem, h⟩ hv
        have hkeys : v ∈ mKeys sub1.written := List.mem_map.2 ⟨(v, kk), hmem, rfl⟩
        have hp := hconstP v hkeys hC
        have hnd : ¬ Dx v := fun hd => by
          have := hdrop.notConst v hd
          rw [hC] at this; cases this
        have h1 : memS σE' σS' v = memS σE3 σS v := by
          rw [← hmemE v]; exact hconst v hkeys hC
        have h2 : memS σE' σS' v = memE σE' v := hJ.agree v hp hnd
        have h3 : memS σE3 σS v = memE σE3 v := by
          rw [hX.pendX v hnd]; exact par_of_not_mem _ _ _ hp
        exact ⟨by rw [← h2, h1, h3], h1⟩
    · rintro v ⟨kk, hkk, hC⟩
      by_cases hd : Dx v
      · exact hJ.later hk v hd
      · exact hJ.agree v (hdead hnef (v, kk) hkk hC).1 hd

end Stay

theorem condZero_wf {s : Rebuild w} (hwf : Wf s) (sub : Rebuild w) (cond : Int) : Wf (condZero s sub cond) := by
  rcases condZero_cases s sub cond with h | ⟨h, _⟩
  · rw [h]; exact hwf
  · rw [h]; exact insertWritten_wf hwf _ _

theorem condZero_same (s sub : Rebuild w) (cond : Int) : SameButWritten s (condZero s sub cond) := by
  rcases condZero_cases s sub cond with h | ⟨h, _⟩
  · rw [h]; exact ⟨rfl, rfl, rfl, rfl, rfl, rfl, rfl, rfl, rfl, rfl, rfl⟩
  · rw [h]; exact insertWritten_same _ _ _

/-- `loopOrIf` for a child that does not move the pointer. -/
theorem loopOrIf_stay_ok' {shP shC shS cS : Int} {bodyS : List (Instr w)} {oS : Bool}
    {s : Rebuild w} {ps : List (Rebuild w)} {sub : Rebuild w} {cond : Int} {isLoop : Bool} {L : OptLoop w}
    {C : List Int} {pc : List (Rebuild w)} {sub0 : Rebuild w} {os os' : Orders} {s' : Rebuild w}
    {G Gc : State w → Prop}
    (hr : (loopOrIf s ps sub cond isLoop L C).run os = .ok (s', os'))
    (hwf : Wf s) (hpre : ChildPre Gc shP shC pc sub0 sub cS bodyS)
    (hns : (sub.subShift || sub.shift != s.shift) = false)
    (hcond : cond = cS + shP) (hsh : shC + shS = shP)
    (hGc : ∀ M0 σE σS, RelAt shP s ps M0 σE σS → G σS → ∀ k σk, Head cS shS bodyS σS k σk →
      (isLoop = false → k = 0) → σk.rd cS ≠ 0#w → Gc σk)
    (halo : L.atLeastOnce = true → ∀ M0 σE σS, RelAt shP s ps M0 σE σS → G σS → σS.rd cS ≠ 0#w)
    (hnc : L.noContinue = true → ∀ M0 σE σS, RelAt shP s ps M0 σE σS → G σS →
      ∀ x, ¬ Exec [blockInstr isLoop cS shS bodyS oS] σS (.fin x))
    (hne : L.noEffect = true → ∀ M0 σE σS, RelAt shP s ps M0 σE σS → G σS →
      σS.rd cS = 0#w ∨ ∀ x, ¬ Exec [blockInstr isLoop cS shS bodyS oS] σS (.fin x))
    (hconst : ∀ M0 σE σS, RelAt shP s ps M0 σE σS → G σS → ∀ k σk, Head cS shS bodyS σS k σk →
      (isLoop = false → k ≤ 1) → ∀ x, C.contains x = true → memS σE σk x = memS σE σS x) :
    Wf s' ∧ SameHdr s s' ∧
    ∃ new, s'.insts = s.insts ++ new ∧ StepNG G shP shP ps s s' [blockInstr isLoop cS shS bodyS oS] new := by
  subst hcond
  obtain ⟨sub1, os1, r, h1, h2, rfl⟩ := loopOrIf_run hr
  obtain ⟨hc, hwf1, hshift1⟩ := hpre.emit h1
  have hshEq : sub.shift = s.shift := by
    have := hns
    simp only [Bool.or_eq_false_iff, bne_eq_false_iff_eq] at this
    exact this.2
  have hns1 : (sub1.subShift || sub1.shift != s.shift) = false := by
    rw [hc.noShift, hshift1, hshEq]; simp
  obtain ⟨s3, comps, Dx, hreq, hclob, hdrop, hreads, hconstP, hdead, hminvx⟩ := loopPrep_stay hwf hns1 h2
  subst hreq
  simp only
  -- fields of the result
  obtain ⟨t1, t2, t3, t4, t5, t6, t7⟩ := loopTail_fields (condZero s3 { sub1 with reads := sIns sub1.reads (cS + shP) } (cS + shP))
    { sub1 with reads := sIns sub1.reads (cS + shP) } (cS + shP) isLoop L
    (sub1.subShift || sub1.shift != s.shift) ((mKeys sub1.written).filter (fun var => !C.contains var))
  have hcz := condZero_same s3 { sub1 with reads := sIns sub1.reads (cS + shP) } (cS + shP)
  have hbs : ({ sub1 with reads := sIns sub1.reads (cS + shP) } : Rebuild w).shift -
      (condZero s3 { sub1 with reads := sIns sub1.reads (cS + shP) } (cS + shP)).shift = 0 := by
    rw [hcz.2.2.1, hclob.hdr.2.2.1]
    show sub1.shift - s.shift = 0
    rw [hshift1, hshEq]; omega
  rw [hbs] at t7
  refine ⟨loopTail_wf (condZero_wf hclob.wf _ _) _ _ _ _ _ _, (hclob.hdr.trans hcz.hdr).trans t1, ?_⟩
  refine ⟨comps.map Instr.calc ++ [if isLoop then Instr.loop (cS + shP) 0 sub1.insts L.atLeastOnce
      else Instr.ifnz (cS + shP) 0 sub1.insts], ?_, ?_⟩
  · rw [t7, hcz.2.2.2.2.2.2.2.2.2.1, hclob.insts, List.append_assoc]
  refine ⟨fun h => ((hclob.hdr.trans hcz.hdr).trans t1).2.2.2.2.symm.trans h, ?_⟩
  intro M0 σE σS hrel hG
  obtain ⟨m1, m2, m3⟩ := foldl_doCalc_meta comps σE
  have hX : MInvX Dx s3 ps M0 (memE (comps.foldl doCalc σE)) (memS (comps.foldl doCalc σE) σS) := by
    rw [memE_foldl_doCalc σE comps hclob.nodup, memS_foldl_doCalc]
    exact hminvx M0 _ _ hrel.inv
  have hJ0 : StayJ shP cS shS bodyS sub1 s3 Dx σS (comps.foldl doCalc σE) 0 σS (comps.foldl doCalc σE) :=
    stayJ_init hX (by rw [m3]; exact hrel.tr) (by rw [m2]; exact hrel.env) (by rw [m1]; exact hrel.ptr)
  have hread' : ∀ v, v ∈ sub1.reads ∨ v = cS + shP → mGet s3.pending v = none ∧ ¬ Dx v := by
    intro v hv
    refine ⟨hreads v hv, fun hd => ?_⟩
    obtain ⟨n1, n2⟩ := hdrop.notRead v hd
    rcases hv with h | h
    · exact n1 h
    · exact n2 h
  have hDx' : ∀ v, Dx v → DefW sub1 v := by
    intro v hd
    obtain ⟨kk, hkk, hm⟩ := hdrop.written v hd
    exact ⟨kk, mGet_of_mem hwf1.writ hkk, hm⟩
  -- the condition cell is read alike
  have hcondrd : ∀ (k : Nat) (a b : State w),
      StayJ shP cS shS bodyS sub1 s3 Dx σS (comps.foldl doCalc σE) k a b → a.rd cS = b.rd (cS + shP) := by
    intro k a b hJ
    obtain ⟨p1, p2⟩ := hread' (cS + shP) (Or.inr rfl)
    have := hJ.agree (cS + shP) p1 p2
    show a.tape.get (a.ptr + cS) = b.tape.get (b.ptr + (cS + shP))
    rw [hJ.ptr]
    have e : b.ptr + shP + cS = b.ptr + (cS + shP) := by omega
    rw [e]; exact this
  have hround : ∀ (k : Nat) (a b : State w),
      StayJ shP cS shS bodyS sub1 s3 Dx σS (comps.foldl doCalc σE) k a b → (isLoop = false → k = 0) →
      a.rd cS ≠ 0#w →
      Sim (fun a' b' => ∃ k', StayJ shP cS shS bodyS sub1 s3 Dx σS (comps.foldl doCalc σE) k'
        (a'.mov shS) (b'.mov 0) ∧ k' = k + 1) bodyS sub1.insts a b ∧ ¬ Bad sub1.insts b := by
    intro k a b hJ hk hne'
    obtain ⟨h1', h2'⟩ := stayJ_round hc hsh hread' hDx' hJ hne' (hGc M0 σE σS hrel hG k a hJ.head hk hne')
    exact ⟨h1'.mono (fun a' b' h => ⟨k + 1, h, rfl⟩), h2'⟩
  -- simulation up to the loop-head relation
  have hsim0 : Sim (fun a b => ∃ k, StayJ shP cS shS bodyS sub1 s3 Dx σS (comps.foldl doCalc σE) k a b ∧
        (k = 0 → σS.rd cS = 0#w) ∧ (isLoop = true → b.rd (cS + shP) = 0#w) ∧ (isLoop = false → k ≤ 1))
      [blockInstr isLoop cS shS bodyS oS]
      [if isLoop then Instr.loop (cS + shP) 0 sub1.insts L.atLeastOnce
        else Instr.ifnz (cS + shP) 0 sub1.insts] σS (comps.foldl doCalc σE) := by
    cases isLoop with
    | true =>
      simp only [blockInstr, if_true]
      refine Sim.loop (J := fun a b => ∃ k, StayJ shP cS shS bodyS sub1 s3 Dx σS
        (comps.foldl doCalc σE) k a b) ?_ ?_ ?_ ?_ ⟨0, hJ0⟩
      · rintro a b ⟨k, hJ⟩; rw [hcondrd k a b hJ]
      · rintro a b ⟨k, hJ⟩; exact hJ.tr.symm
      · rintro a b ⟨k, hJ⟩ hne'
        exact (hround k a b hJ (fun h => by cases h) hne').1.mono (fun a' b' ⟨k', h, _⟩ => ⟨k', h⟩)
      · rintro a b ⟨k, hJ⟩ hz
        refine ⟨k, hJ, fun hk => ?_, fun _ => by rw [← hcondrd k a b hJ]; exact hz, fun e => by cases e⟩
        rw [(hJ.first hk).1] at hz; exact hz
    | false =>
      simp only [blockInstr, Bool.false_eq_true, if_false]
      refine Sim.ifnz ?_ hJ0.tr.symm ?_ ?_
      · rw [hcondrd 0 _ _ hJ0]
      · intro hne'
        refine (hround 0 _ _ hJ0 (fun _ => rfl) hne').1.mono ?_
        rintro a' b' ⟨k', h, hk'⟩
        exact ⟨k', h, fun e => by omega, fun e => False.elim e, fun _ => by omega⟩
      · intro hz
        exact ⟨0, hJ0, fun _ => hz, fun e => False.elim e, fun _ => by omega⟩
  refine ⟨Sim.calcs_right comps ?_, ?_⟩
  · cases hncv : L.noContinue with
    | true => exact hsim0.of_no_fin (hnc hncv M0 σE σS hrel hG)
    | false =>
      refine hsim0.fin_strengthen.mono ?_
      rintro a b ⟨⟨k, hJ, hk0, hz, hk1⟩, hfinS, _⟩
      have hne' : L.noEffect = true → k = 0 := by
        intro hnev
        rcases hne hnev M0 σE σS hrel hG with h | h
        · exact (head_zero hJ.head h).1
        · exact absurd hfinS (h a)
      have hconst' : ∀ x ∈ mKeys sub1.written, C.contains x = true →
          memS (comps.foldl doCalc σE) a x = memS (comps.foldl doCalc σE) σS x := by
        intro x _ hx
        have := hconst M0 σE σS hrel hG k a hJ.head hk1 x hx
        show a.tape.get ((comps.foldl doCalc σE).ptr + x) = σS.tape.get ((comps.foldl doCalc σE).ptr + x)
        rw [m1]; exact this
      have hm3 := stayJ_exit_minv hX hdrop hdead hconstP (fun h => halo h M0 σE σS hrel hG) hJ hconst' hk0 hne'
      -- the condition cell after the block
      obtain ⟨p1, p2⟩ := hread' (cS + shP) (Or.inr rfl)
      have hcz0 : ∀ e, mGet sub1.written (cS + shP) = some (.known e) → Expr.constant e = some 0#w →
          memE b (cS + shP) = 0#w := by
        intro e he hcst
        cases isLoop with
        | true => exact hz rfl
        | false =>
          by_cases hk : k = 0
          · have := hk0 hk
            rw [← (hJ.first hk).1, hcondrd k a b hJ] at this
            exact this
          · exact hJ.knownZ hk e he hcst
      have hm4 : MInv (condZero s3 { sub1 with reads := sIns sub1.reads (cS + shP) } (cS + shP)) ps M0
          (memE b) (memS b a) := by
        rcases condZero_cases s3 { sub1 with reads := sIns sub1.reads (cS + shP) } (cS + shP) with h | ⟨h, e, he, hcst⟩
        · rw [h]; exact hm3
        · rw [h]
          refine hm3.insertWritten_known _ _ ?_
          rw [hcz0 e he hcst]
          exact (Expr.eval_val 0#w M0).symm
      refine ⟨M0, ⟨hJ.tr, hJ.env, hJ.ptr, ?_, ?_⟩, fun _ => ⟨rfl, hJ.ptrE.trans m1⟩⟩
      · rw [t6, hncv]
        simp only [Bool.false_eq_true, if_false]
        rw [hcz.2.2.2.2.2.1, hclob.noRet]; exact hrel.nr
      · cases isLoop with
        | true =>
          have hm5 := hm4.insertWritten_known (cS + shP) (Expr.val 0#w) (by
            rw [show memE b (cS + shP) = 0#w from hz rfl]; exact (Expr.eval_val 0#w M0).symm)
          refine hm5.congr (by rw [t2]; exact (insertWritten_same _ _ _).2.2.2.2.2.2.2.1.symm) ?_ ?_
          · rw [t5, insertWritten_written]; rfl
          · exact (SameButWritten.hdr (insertWritten_same _ _ _)).symm.trans t1
        | false =>
          refine hm4.congr t2 ?_ t1
          rw [t5]; rfl
  · rw [bad_calcs_iff]
    cases isLoop with
    | true =>
      simp only [if_true]
      refine not_bad_loop (J := fun a b => ∃ k, StayJ shP cS shS bodyS sub1 s3 Dx σS
        (comps.foldl doCalc σE) k a b) (cS := cS) (shS := shS) (bodyS := bodyS) ?_ ⟨0, hJ0⟩ ?_
      · rintro a b ⟨k, hJ⟩ hne'
        have hne'' : a.rd cS ≠ 0#w := by rw [hcondrd k a b hJ]; exact hne'
        obtain ⟨hs, hb⟩ := hround k a b hJ (fun h => by cases h) hne''
        exact ⟨hs.mono (fun a' b' ⟨k', h, _⟩ => ⟨k', h⟩), hb⟩
      · intro hal
        rw [← hcondrd 0 _ _ hJ0]
        exact halo hal M0 σE σS hrel hG
    | false =>
      simp only [Bool.false_eq_true, if_false]
      refine not_bad_ifnz ?_
      intro hne'
      exact (hround 0 _ _ hJ0 (fun _ => rfl) (by rw [hcondrd 0 _ _ hJ0]; exact hne')).2

/-- `loopOrIf_stay_ok'` with the constancy fact at every head. -/
theorem loopOrIf_stay_ok {shP shC shS cS : Int} {bodyS : List (Instr w)} {oS : Bool}
    {s : Rebuild w} {ps : List (Rebuild w)} {sub : Rebuild w} {cond : Int} {isLoop : Bool} {L : OptLoop w}
    {C : List Int} {pc : List (Rebuild w)} {sub0 : Rebuild w} {os os' : Orders} {s' : Rebuild w}
    {G Gc : State w → Prop}
    (hr : (loopOrIf s ps sub cond isLoop L C).run os = .ok (s', os'))
    (hwf : Wf s) (hpre : ChildPre Gc shP shC pc sub0 sub cS bodyS)
    (hns : (sub.subShift || sub.shift != s.shift) = false)
    (hcond : cond = cS + shP) (hsh : shC + shS = shP)
    (hGc : ∀ M0 σE σS, RelAt shP s ps M0 σE σS → G σS → ∀ k σk, Head cS shS bodyS σS k σk →
      (isLoop = false → k = 0) → σk.rd cS ≠ 0#w → Gc σk)
    (halo : L.atLeastOnce = true → ∀ M0 σE σS, RelAt shP s ps M0 σE σS → G σS → σS.rd cS ≠ 0#w)
    (hnc : L.noContinue = true → ∀ M0 σE σS, RelAt shP s ps M0 σE σS → G σS →
      ∀ x, ¬ Exec [blockInstr isLoop cS shS bodyS oS] σS (.fin x))
    (hne : L.noEffect = true → ∀ M0 σE σS, RelAt shP s ps M0 σE σS → G σS →
      σS.rd cS = 0#w ∨ ∀ x, ¬ Exec [blockInstr isLoop cS shS bodyS oS] σS (.fin x))
    (hconst : ∀ M0 σE σS, RelAt shP s ps M0 σE σS → G σS → ∀ k σk, Head cS shS bodyS σS k σk →
      ∀ x, C.contains x = true → memS σE σk x = memS σE σS x) :
    Wf s' ∧ SameHdr s s' ∧
    ∃ new, s'.insts = s.insts ++ new ∧ StepNG G shP shP ps s s' [blockInstr isLoop cS shS bodyS oS] new :=
  loopOrIf_stay_ok' hr hwf hpre hns hcond hsh hGc halo hnc hne
    (fun M0 σE σS hrel hG k σk hh _ => hconst M0 σE σS hrel hG k σk hh)

end OptProof
end Hpbf
