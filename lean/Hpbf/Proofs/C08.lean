/-
C08 lemmas: I/O failures.

* what `State.input` / `State.output` do in each situation of the environment;
* for each machine (`Bf`, `Inplace`, `Ir`, `Bc`): a `.stop` step comes from an `inp`/`out` instruction
  whose `State.input/output` returned `false`, and a run that returns `.stopped` has made exactly
  such a step as its last one;
* the lock-step simulation between a run with a sink that refuses after `k` bytes and the run with a
  sink that never refuses (`Agree`, `agree_step`, `agree_run`).
-/
import Hpbf.Bf
import Hpbf.Inplace
import Hpbf.Ir
import Hpbf.Bc
import Hpbf.Proofs.C04

namespace Hpbf
namespace C08

variable {w : Nat}

/-! ### The byte written by `.` -/

/-- The byte `State.output` sends for the cell at offset `off`. -/
def outByte (s : State w) (off : Int) : UInt8 := UInt8.ofNat (Cell.intoU8 (s.rd off)).toNat

theorem intoU8_toNat (x : BitVec w) : (Cell.intoU8 x).toNat = x.toNat % 256 := by
  simp only [Cell.intoU8, Cell.intoU64, BitVec.toNat_setWidth]
  omega

/-- `outByte` is the low 8 bits of the cell. -/
theorem outByte_toNat (s : State w) (off : Int) : (outByte s off).toNat = (s.rd off).toNat % 256 := by
  simp only [outByte, UInt8.toNat_ofNat', intoU8_toNat]
  omega

theorem fromU8_zero : Cell.fromU8 (w := w) (BitVec.ofNat 8 (0 : UInt8).toNat) = 0#w := by
  simp [Cell.fromU8, Cell.fromU64]

/-! ### 1. The environment -/

theorem input_eof (s : State w) (off : Int) (h : s.env.input = some []) :
    s.input off = (true, { s.wr off 0#w with trace := Ev.inp 0 :: s.trace }) := by
  have hr : s.env.readByte = .got 0 s.env := by simp [Env.readByte, h]
  simp only [State.input, hr, fromU8_zero]
  rfl

theorem input_eof_reply (s : State w) (off : Int) (rest : List InResp)
    (h : s.env.input = some (.eof :: rest)) :
    s.input off = (true, { s.wr off 0#w with env := { s.env with input := some rest },
                                              trace := Ev.inp 0 :: s.trace }) := by
  have hr : s.env.readByte = .got 0 { s.env with input := some rest } := by simp [Env.readByte, h]
  simp only [State.input, hr, fromU8_zero]

theorem input_byte (s : State w) (off : Int) (b : UInt8) (rest : List InResp)
    (h : s.env.input = some (.byte b :: rest)) :
    s.input off = (true, { s.wr off (Cell.fromU8 (BitVec.ofNat 8 b.toNat)) with
                             env := { s.env with input := some rest }, trace := Ev.inp b :: s.trace }) := by
  have hr : s.env.readByte = .got b { s.env with input := some rest } := by simp [Env.readByte, h]
  simp only [State.input, hr]

theorem input_err (s : State w) (off : Int) (rest : List InResp)
    (h : s.env.input = some (.err :: rest)) :
    s.input off = (false, { s with env := { s.env with input := some rest },
                                   trace := Ev.inpFail :: s.trace }) := by
  have hr : s.env.readByte = .failed { s.env with input := some rest } := by simp [Env.readByte, h]
  simp only [State.input, hr]

theorem input_absent (s : State w) (off : Int) (h : s.env.input = none) : s.input off = (false, s) := by
  have hr : s.env.readByte = .absent := by simp [Env.readByte, h]
  simp only [State.input, hr]

theorem output_no_sink (s : State w) (off : Int) (h : s.env.sink = false) : s.output off = (true, s) := by
  simp [State.output, h]

theorem output_refused (s : State w) (off : Int) (hs : s.env.sink = true) (h : s.env.outOk = some 0) :
    s.output off = (false, { s with trace := Ev.outFail (outByte s off) :: s.trace }) := by
  simp [State.output, hs, Env.writeByte, h, outByte]

theorem output_unlimited (s : State w) (off : Int) (hs : s.env.sink = true) (h : s.env.outOk = none) :
    s.output off = (true, { s with trace := Ev.out (outByte s off) :: s.trace }) := by
  simp [State.output, hs, Env.writeByte, h, outByte]

theorem output_counted (s : State w) (off : Int) (k : Nat) (hs : s.env.sink = true)
    (h : s.env.outOk = some (k + 1)) :
    s.output off = (true, { s with env := { s.env with outOk := some k },
                                   trace := Ev.out (outByte s off) :: s.trace }) := by
  simp [State.output, hs, Env.writeByte, h, outByte]

/-- Every way `State.input` can fail. -/
theorem input_false {s t : State w} {off : Int} (h : s.input off = (false, t)) :
    (s.env.input = none ∧ t = s) ∨
    (∃ rest, s.env.input = some (.err :: rest) ∧
      t = { s with env := { s.env with input := some rest }, trace := Ev.inpFail :: s.trace }) := by
  rcases hi : s.env.input with _ | l
  · left; rw [input_absent s off hi] at h; cases h; exact ⟨rfl, rfl⟩
  · rcases l with _ | ⟨r, rest⟩
    · rw [input_eof s off hi] at h; cases h
    · cases r with
      | byte b => rw [input_byte s off b rest hi] at h; cases h
      | eof => rw [input_eof_reply s off rest hi] at h; cases h
      | err => right; rw [input_err s off rest hi] at h; cases h; exact ⟨rest, rfl, rfl⟩

/-- The only way `State.output` can fail. -/
theorem output_false {s t : State w} {off : Int} (h : s.output off = (false, t)) :
    s.env.sink = true ∧ s.env.outOk = some 0 ∧
      t = { s with trace := Ev.outFail (outByte s off) :: s.trace } := by
  cases hs : s.env.sink with
  | false => rw [output_no_sink s off hs] at h; cases h
  | true =>
    rcases ho : s.env.outOk with _ | k
    · rw [output_unlimited s off hs ho] at h; cases h
    · cases k with
      | zero => rw [output_refused s off hs ho] at h; cases h; exact ⟨rfl, rfl, rfl⟩
      | succ k => rw [output_counted s off k hs ho] at h; cases h

/-! ### 2. Stops happen only at failing I/O operations -/

/-- The stopping instruction of the canonical machine. -/
def BfStopAt (c : Bf.Config w) (s : State w) : Prop :=
  ∃ rest, (c.cur = .cmd .inp rest ∧ c.st.input 0 = (false, s)) ∨
          (c.cur = .cmd .out rest ∧ c.st.output 0 = (false, s))

theorem bf_step_stop {c : Bf.Config w} {s : State w} (h : Bf.step c = .stop s) : BfStopAt c s := by
  obtain ⟨cur, conts, st⟩ := c
  cases cur with
  | nil => cases conts <;> simp [Bf.step] at h
  | cmd op rest =>
    simp only [Bf.step] at h
    rcases ha : Bf.applyOp op st with ⟨ok, s'⟩
    rw [ha] at h
    cases ok
    · simp only [Bf.StepRes.stop.injEq] at h
      subst h
      cases op <;> simp only [Bf.applyOp, Prod.mk.injEq, Bool.true_eq_false, false_and] at ha
      · exact ⟨rest, Or.inl ⟨rfl, ha⟩⟩
      · exact ⟨rest, Or.inr ⟨rfl, ha⟩⟩
    · cases h
  | loop body rest =>
    simp only [Bf.step] at h
    split at h <;> cases h

theorem bf_run_stopped {f : Nat} {c0 : Bf.Config w} {s : State w} (h : Bf.runCfg f c0 = .stopped s) :
    ∃ n c, n < f ∧ Bf.runCfg n c0 = .outOfFuel c ∧ Bf.step c = .stop s := by
  induction f generalizing c0 with
  | zero => simp [Bf.runCfg] at h
  | succ f ih =>
    cases hs : Bf.step c0 with
    | next c1 =>
      rw [Bf.runCfg_succ_next hs] at h
      obtain ⟨n, c, hn, hr, hst⟩ := ih h
      exact ⟨n + 1, c, by omega, by rw [Bf.runCfg_succ_next hs]; exact hr, hst⟩
    | halt s' => rw [Bf.runCfg_succ_halt hs] at h; cases h
    | stop s' =>
      rw [Bf.runCfg_succ_stop hs] at h; cases h
      exact ⟨0, c0, Nat.succ_pos _, rfl, hs⟩

/-- In-place interpreter. -/
def InplaceStopAt (code : Array Kind) (c c' : Inplace.Cfg w) : Prop :=
  (code[c.pc]? = some .inp ∧ c.st.input 0 = (false, c'.st)) ∨
  (code[c.pc]? = some .out ∧ c.st.output 0 = (false, c'.st))

theorem inplace_step_stop {code : Array Kind} {l : Bool} {c c' : Inplace.Cfg w}
    (h : Inplace.step code l c = .stopped c') : InplaceStopAt code c c' := by
  unfold Inplace.step at h
  cases hk : code[c.pc]? with
  | none => rw [hk] at h; cases h
  | some k =>
    rw [hk] at h
    cases k <;> simp only at h
    · cases h
    · cases h
    · cases h
    · cases h
    · rcases hi : c.st.input 0 with ⟨ok, s⟩
      rw [hi] at h
      cases ok
      · cases h; exact Or.inl ⟨hk, hi⟩
      · cases h
    · rcases hi : c.st.output 0 with ⟨ok, s⟩
      rw [hi] at h
      cases ok
      · cases h; exact Or.inr ⟨hk, hi⟩
      · cases h
    · split at h <;> cases h
    · split at h
      · cases h
      · split at h
        · cases h
        · split at h <;> cases h
    · cases h

theorem inplace_run_stopped {code : Array Kind} {l : Bool} {f : Nat} {c0 c' : Inplace.Cfg w}
    (h : Inplace.runCfg code l f c0 = .stopped c') :
    ∃ n c, n < f ∧ Inplace.runCfg code l n c0 = .outOfFuel c ∧ Inplace.step code l c = .stopped c' := by
  induction f generalizing c0 with
  | zero => simp [Inplace.runCfg] at h
  | succ f ih =>
    cases hs : Inplace.step code l c0 with
    | next c1 =>
      rw [Inplace.runCfg_succ_next hs] at h
      obtain ⟨n, c, hn, hr, hst⟩ := ih h
      exact ⟨n + 1, c, by omega, by rw [Inplace.runCfg_succ_next hs]; exact hr, hst⟩
    | finished c1 => rw [Inplace.runCfg_succ_finished hs] at h; cases h
    | stopped c1 =>
      rw [Inplace.runCfg_succ_stopped hs] at h; cases h
      exact ⟨0, c0, Nat.succ_pos _, rfl, hs⟩
    | interrupted c1 => rw [Inplace.runCfg_succ_interrupted hs] at h; cases h
    | notOpened p c1 => rw [Inplace.runCfg_succ_notOpened hs] at h; cases h

/-- IR interpreter. -/
def IrStopAt (c c' : Ir.Cfg w) : Prop :=
  ∃ rest, (∃ dst, c.cur = .input dst :: rest ∧ c.st.input dst = (false, c'.st)) ∨
          (∃ src, c.cur = .output src :: rest ∧ c.st.output src = (false, c'.st))

theorem ir_step_stop {l : Bool} {c c' : Ir.Cfg w} (h : Ir.step l c = .stop c') : IrStopAt c c' := by
  obtain ⟨cur, conts, budget, st⟩ := c
  cases cur with
  | nil =>
    cases conts with
    | nil => simp [Ir.step] at h
    | cons k ks =>
      cases k with
      | loopEnd cond shift body rest =>
        simp only [Ir.step] at h
        split at h
        · cases h
        · split at h <;> cases h
      | ifEnd shift rest =>
        simp only [Ir.step] at h
        split at h <;> cases h
  | cons i rest =>
    cases i with
    | output src =>
      simp only [Ir.step] at h
      rcases hi : st.output src with ⟨ok, s⟩
      rw [hi] at h
      cases ok
      · cases h; exact ⟨rest, Or.inr ⟨src, rfl, hi⟩⟩
      · cases h
    | input dst =>
      simp only [Ir.step] at h
      rcases hi : st.input dst with ⟨ok, s⟩
      rw [hi] at h
      cases ok
      · cases h; exact ⟨rest, Or.inl ⟨dst, rfl, hi⟩⟩
      · cases h
    | «calc» calcs => simp only [Ir.step] at h; cases h
    | loop cond shift body once =>
      simp only [Ir.step] at h
      split at h <;> cases h
    | ifnz cond shift body =>
      simp only [Ir.step] at h
      split at h <;> cases h

theorem ir_run_stopped {l : Bool} {f : Nat} {c0 c' : Ir.Cfg w} (h : Ir.runCfg l f c0 = .stopped c') :
    ∃ n c, n < f ∧ Ir.runCfg l n c0 = .outOfFuel c ∧ Ir.step l c = .stop c' := by
  induction f generalizing c0 with
  | zero => simp [Ir.runCfg] at h
  | succ f ih =>
    simp only [Ir.runCfg] at h
    cases hs : Ir.step l c0 with
    | next c1 =>
      rw [hs] at h
      obtain ⟨n, c, hn, hr, hst⟩ := ih h
      exact ⟨n + 1, c, by omega, by simp only [Ir.runCfg, hs]; exact hr, hst⟩
    | halt c1 => rw [hs] at h; cases h
    | stop c1 => rw [hs] at h; cases h; exact ⟨0, c0, Nat.succ_pos _, rfl, hs⟩
    | interrupted c1 => rw [hs] at h; cases h

/-- Bytecode machine. -/
def BcStopAt (p : Bc.Program w) (c c' : Bc.Cfg w) : Prop :=
  (∃ dst, p.insts[c.pc]? = some (.inp dst) ∧ c.st.input dst = (false, c'.st)) ∨
  (∃ src, p.insts[c.pc]? = some (.out src) ∧ c.st.output src = (false, c'.st))

theorem bc_step_stop {p : Bc.Program w} {l : Bool} {c c' : Bc.Cfg w}
    (h : Bc.step p l c = .stop c') : BcStopAt p c c' ∧ c'.pc = c.pc ∧ c'.temps = c.temps := by
  unfold Bc.step at h
  cases hi : p.insts[c.pc]? with
  | none => rw [hi] at h; simp only at h; split at h <;> cases h
  | some ins =>
    rw [hi] at h
    cases ins <;> simp only at h
    · cases h
    · split at h
      · cases h
      · split at h
        · split at h <;> cases h
        · cases h
    · cases h
    · rename_i dst
      rcases hio : c.st.input dst with ⟨ok, s⟩
      rw [hio] at h
      cases ok
      · cases h; exact ⟨Or.inl ⟨dst, hi, hio⟩, rfl, rfl⟩
      · cases h
    · rename_i src
      rcases hio : c.st.output src with ⟨ok, s⟩
      rw [hio] at h
      cases ok
      · cases h; exact ⟨Or.inr ⟨src, hi, hio⟩, rfl, rfl⟩
      · cases h
    · split at h
      · cases h
      · split at h
        · split at h <;> cases h
        · cases h
    · split at h
      · cases h
      · split at h
        · split at h <;> cases h
        · cases h
    · split at h <;> cases h
    · split at h <;> cases h
    · split at h <;> cases h
    · split at h <;> cases h

theorem bc_run_stopped {p : Bc.Program w} {l : Bool} {f : Nat} {c0 c' : Bc.Cfg w}
    (h : Bc.runCfg p l f c0 = .stopped c') :
    ∃ n c, n < f ∧ Bc.runCfg p l n c0 = .outOfFuel c ∧ Bc.step p l c = .stop c' := by
  induction f generalizing c0 with
  | zero => simp [Bc.runCfg] at h
  | succ f ih =>
    simp only [Bc.runCfg] at h
    cases hs : Bc.step p l c0 with
    | next c1 =>
      rw [hs] at h
      obtain ⟨n, c, hn, hr, hst⟩ := ih h
      exact ⟨n + 1, c, by omega, by simp only [Bc.runCfg, hs]; exact hr, hst⟩
    | halt c1 => rw [hs] at h; cases h
    | stop c1 => rw [hs] at h; cases h; exact ⟨0, c0, Nat.succ_pos _, rfl, hs⟩
    | interrupted c1 => rw [hs] at h; cases h
    | bad c1 => rw [hs] at h; cases h

/-! ### A stop step ends the run -/

theorem bf_run_split {n : Nat} {c0 c : Bf.Config w} (h : Bf.runCfg n c0 = .outOfFuel c) (m : Nat) :
    Bf.runCfg (n + m) c0 = Bf.runCfg m c := by
  induction n generalizing c0 with
  | zero => simp only [Bf.runCfg] at h; cases h; simp
  | succ n ih =>
    have e : n + 1 + m = (n + m) + 1 := by omega
    rw [e]
    simp only [Bf.runCfg] at h ⊢
    cases hs : Bf.step c0 with
    | next c1 => rw [hs] at h; exact ih h
    | halt s => rw [hs] at h; cases h
    | stop s => rw [hs] at h; cases h

theorem inplace_run_split {code : Array Kind} {l : Bool} {n : Nat} {c0 c : Inplace.Cfg w}
    (h : Inplace.runCfg code l n c0 = .outOfFuel c) (m : Nat) :
    Inplace.runCfg code l (n + m) c0 = Inplace.runCfg code l m c := by
  induction n generalizing c0 with
  | zero => simp only [Inplace.runCfg] at h; cases h; simp
  | succ n ih =>
    have e : n + 1 + m = (n + m) + 1 := by omega
    rw [e]
    simp only [Inplace.runCfg] at h ⊢
    cases hs : Inplace.step code l c0 with
    | next c1 => rw [hs] at h; exact ih h
    | finished c1 => rw [hs] at h; cases h
    | stopped c1 => rw [hs] at h; cases h
    | interrupted c1 => rw [hs] at h; cases h
    | notOpened p c1 => rw [hs] at h; cases h

theorem ir_run_split {l : Bool} {n : Nat} {c0 c : Ir.Cfg w} (h : Ir.runCfg l n c0 = .outOfFuel c)
    (m : Nat) : Ir.runCfg l (n + m) c0 = Ir.runCfg l m c := by
  induction n generalizing c0 with
  | zero => simp only [Ir.runCfg] at h; cases h; simp
  | succ n ih =>
    have e : n + 1 + m = (n + m) + 1 := by omega
    rw [e]
    simp only [Ir.runCfg] at h ⊢
    cases hs : Ir.step l c0 with
    | next c1 => rw [hs] at h; exact ih h
    | halt c1 => rw [hs] at h; cases h
    | stop c1 => rw [hs] at h; cases h
    | interrupted c1 => rw [hs] at h; cases h

theorem bc_run_split {p : Bc.Program w} {l : Bool} {n : Nat} {c0 c : Bc.Cfg w}
    (h : Bc.runCfg p l n c0 = .outOfFuel c) (m : Nat) :
    Bc.runCfg p l (n + m) c0 = Bc.runCfg p l m c := by
  induction n generalizing c0 with
  | zero => simp only [Bc.runCfg] at h; cases h; simp
  | succ n ih =>
    have e : n + 1 + m = (n + m) + 1 := by omega
    rw [e]
    simp only [Bc.runCfg] at h ⊢
    cases hs : Bc.step p l c0 with
    | next c1 => rw [hs] at h; exact ih h
    | halt c1 => rw [hs] at h; cases h
    | stop c1 => rw [hs] at h; cases h
    | interrupted c1 => rw [hs] at h; cases h
    | bad c1 => rw [hs] at h; cases h

/-! ### 3. A refusing sink against a sink that never refuses -/

/-- No refused byte among the events. -/
def NoRefusal (t : List Ev) : Prop := ∀ b, Ev.outFail b ∉ t

/-- `s` runs with the refusing sink, `s'` with the sink that never refuses; so far no refusal. -/
structure Agree (s s' : State w) : Prop where
  tape : s.tape = s'.tape
  ptr : s.ptr = s'.ptr
  trace : s.trace = s'.trace
  inp : s.env.input = s'.env.input
  snk : s.env.sink = s'.env.sink
  never : s'.env.outOk = none
  clean : NoRefusal s'.trace

structure AgreeC (c c' : Bf.Config w) : Prop where
  cur : c.cur = c'.cur
  conts : c.conts = c'.conts
  st : Agree c.st c'.st

theorem NoRefusal.cons {t : List Ev} (h : NoRefusal t) {e : Ev} (he : ∀ b, e ≠ Ev.outFail b) :
    NoRefusal (e :: t) := by
  intro b hb
  rcases List.mem_cons.1 hb with hb | hb
  · exact he b hb.symm
  · exact h b hb

theorem Agree.rd {s s' : State w} (h : Agree s s') (off : Int) : s.rd off = s'.rd off := by
  simp [State.rd, h.tape, h.ptr]

theorem Agree.outByte_eq {s s' : State w} (h : Agree s s') (off : Int) : outByte s off = outByte s' off := by
  simp [C08.outByte, h.rd]

theorem Agree.wr {s s' : State w} (h : Agree s s') (off : Int) (v : BitVec w) :
    Agree (s.wr off v) (s'.wr off v) := by
  refine ⟨?_, h.ptr, h.trace, h.inp, h.snk, h.never, h.clean⟩
  simp [State.wr, h.tape, h.ptr]

theorem Agree.mov {s s' : State w} (h : Agree s s') (d : Int) : Agree (s.mov d) (s'.mov d) := by
  refine ⟨h.tape, ?_, h.trace, h.inp, h.snk, h.never, h.clean⟩
  simp [State.mov, h.ptr]

theorem readByte_congr {e e' : Env} (h : e.input = e'.input) :
    match e.readByte, e'.readByte with
    | .got b e1, .got b' e1' => b = b' ∧ e1.input = e1'.input ∧ e1.sink = e.sink ∧ e1'.sink = e'.sink ∧
        e1'.outOk = e'.outOk
    | .failed e1, .failed e1' => e1.input = e1'.input ∧ e1.sink = e.sink ∧ e1'.sink = e'.sink ∧
        e1'.outOk = e'.outOk
    | .absent, .absent => True
    | _, _ => False := by
  rcases hi : e.input with _ | l
  · have hi' : e'.input = none := by rw [← h, hi]
    simp [Env.readByte, hi, hi']
  · have hi' : e'.input = some l := by rw [← h, hi]
    rcases l with _ | ⟨r, rest⟩
    · simp [Env.readByte, hi, hi']
    · cases r <;> simp [Env.readByte, hi, hi']

theorem Agree.input {s s' : State w} (h : Agree s s') (off : Int) :
    (s.input off).1 = (s'.input off).1 ∧ Agree (s.input off).2 (s'.input off).2 := by
  have hc := readByte_congr h.inp
  unfold State.input
  cases hr : s.env.readByte with
  | got b e1 =>
    cases hr' : s'.env.readByte with
    | got b' e1' =>
      rw [hr, hr'] at hc
      obtain ⟨rfl, hi, hs, hs', ho⟩ := hc
      refine ⟨rfl, ?_⟩
      have hw := h.wr off (Cell.fromU8 (BitVec.ofNat 8 b.toNat))
      exact ⟨hw.tape, hw.ptr, by simp [h.trace], hi, by simp [hs, hs', h.snk], by simp [ho, h.never],
        h.clean.cons (by intro b; simp)⟩
    | failed e1' => rw [hr, hr'] at hc; exact hc.elim
    | absent => rw [hr, hr'] at hc; exact hc.elim
  | failed e1 =>
    cases hr' : s'.env.readByte with
    | got b' e1' => rw [hr, hr'] at hc; exact hc.elim
    | failed e1' =>
      rw [hr, hr'] at hc
      obtain ⟨hi, hs, hs', ho⟩ := hc
      exact ⟨rfl, h.tape, h.ptr, by simp [h.trace], hi, by simp [hs, hs', h.snk], by simp [ho, h.never],
        h.clean.cons (by intro b; simp)⟩
    | absent => rw [hr, hr'] at hc; exact hc.elim
  | absent =>
    cases hr' : s'.env.readByte with
    | got b' e1' => rw [hr, hr'] at hc; exact hc.elim
    | failed e1' => rw [hr, hr'] at hc; exact hc.elim
    | absent => exact ⟨rfl, h⟩

/-- Output on agreeing states: either both accept (and still agree), or the left sink refuses the byte
that the right sink accepts. -/
theorem Agree.output {s s' : State w} (h : Agree s s') (off : Int) :
    ((s.output off).1 = true ∧ (s'.output off).1 = true ∧ Agree (s.output off).2 (s'.output off).2) ∨
    ((s.output off).1 = false ∧ (s'.output off).1 = true ∧
      (s.output off).2.trace = Ev.outFail (outByte s off) :: s.trace ∧
      (s'.output off).2.trace = Ev.out (outByte s off) :: s.trace) := by
  cases hs : s.env.sink with
  | false =>
    left
    rw [output_no_sink s off hs, output_no_sink s' off (by rw [← h.snk]; exact hs)]
    exact ⟨rfl, rfl, h⟩
  | true =>
    have hs' : s'.env.sink = true := by rw [← h.snk]; exact hs
    rw [output_unlimited s' off hs' h.never]
    rcases ho : s.env.outOk with _ | k
    · left
      rw [output_unlimited s off hs ho]
      exact ⟨rfl, rfl, h.tape, h.ptr, by simp [h.trace, h.outByte_eq], h.inp, h.snk, h.never,
        h.clean.cons (by intro b; simp)⟩
    · cases k with
      | zero =>
        right
        rw [output_refused s off hs ho]
        exact ⟨rfl, rfl, rfl, by simp [h.trace, h.outByte_eq]⟩
      | succ k =>
        left
        rw [output_counted s off k hs ho]
        exact ⟨rfl, rfl, h.tape, h.ptr, by simp [h.trace, h.outByte_eq], h.inp, h.snk, h.never,
          h.clean.cons (by intro b; simp)⟩

/-- One canonical step of the two runs. -/
def AgreeStep (c : Bf.Config w) : Bf.StepRes w → Bf.StepRes w → Prop
  | .next c1, .next c1' => AgreeC c1 c1'
  | .halt s, .halt s' => Agree s s'
  | .stop s, .stop s' => Agree s s'
  | .stop s, .next c1' =>
    ∃ b, s.trace = Ev.outFail b :: c.st.trace ∧ c1'.st.trace = Ev.out b :: c.st.trace
  | _, _ => False

theorem agree_step {c c' : Bf.Config w} (h : AgreeC c c') : AgreeStep c (Bf.step c) (Bf.step c') := by
  obtain ⟨cur, conts, st⟩ := c
  obtain ⟨cur', conts', st'⟩ := c'
  obtain ⟨hc, hk, hs⟩ := h
  simp only at hc hk hs
  subst hc hk
  cases cur with
  | nil =>
    cases conts with
    | nil => exact hs
    | cons k ks => exact ⟨rfl, rfl, hs⟩
  | cmd op rest =>
    cases op with
    | inc => simp only [Bf.step, Bf.applyOp, hs.rd]; exact ⟨rfl, rfl, hs.wr _ _⟩
    | dec => simp only [Bf.step, Bf.applyOp, hs.rd]; exact ⟨rfl, rfl, hs.wr _ _⟩
    | left => exact ⟨rfl, rfl, hs.mov _⟩
    | right => exact ⟨rfl, rfl, hs.mov _⟩
    | inp =>
      have := hs.input 0
      simp only [Bf.step, Bf.applyOp]
      rcases h1 : st.input 0 with ⟨ok, t⟩
      rcases h2 : st'.input 0 with ⟨ok', t'⟩
      rw [h1, h2] at this
      obtain ⟨hok, hag⟩ := this
      simp only at hok hag
      subst hok
      cases ok
      · exact hag
      · exact ⟨rfl, rfl, hag⟩
    | out =>
      have := hs.output 0
      simp only [Bf.step, Bf.applyOp]
      rcases h1 : st.output 0 with ⟨ok, t⟩
      rcases h2 : st'.output 0 with ⟨ok', t'⟩
      rw [h1, h2] at this
      simp only at this
      rcases this with ⟨rfl, rfl, hag⟩ | ⟨rfl, rfl, ht, ht'⟩
      · exact ⟨rfl, rfl, hag⟩
      · exact ⟨_, ht, ht'⟩
  | loop body rest =>
    simp only [Bf.step, ← hs.rd 0]
    split
    · exact ⟨rfl, rfl, hs⟩
    · exact ⟨rfl, rfl, hs⟩

/-- The run with the sink that never refuses (from `c'`), seen from an outcome of the other run with
fuel `f`: same outcome in agreeing states, or the other run stopped at a refused byte `b` and this run
has, after some `g ≤ f` steps, emitted the same events with `out b` in place of `outFail b`. -/
def AgreeRun (f : Nat) (c' : Bf.Config w) : Bf.Outcome w → Prop
  | .done s => ∃ s', Bf.runCfg f c' = .done s' ∧ Agree s s'
  | .outOfFuel c1 => ∃ c1', Bf.runCfg f c' = .outOfFuel c1' ∧ AgreeC c1 c1'
  | .stopped s =>
    (∃ s', Bf.runCfg f c' = .stopped s' ∧ Agree s s') ∨
    (∃ g b t c1', g ≤ f ∧ s.trace = Ev.outFail b :: t ∧ Bf.runCfg g c' = .outOfFuel c1' ∧
      c1'.st.trace = Ev.out b :: t)

theorem agree_run (f : Nat) : ∀ {c c' : Bf.Config w}, AgreeC c c' → AgreeRun f c' (Bf.runCfg f c) := by
  induction f with
  | zero => intro c c' h; exact ⟨c', rfl, h⟩
  | succ f ih =>
    intro c c' h
    have hst := agree_step h
    cases h1 : Bf.step c with
    | next c1 =>
      cases h2 : Bf.step c' with
      | next c1' =>
        rw [h1, h2] at hst
        rw [Bf.runCfg_succ_next h1]
        have := ih hst
        cases hr : Bf.runCfg f c1 with
        | done s =>
          rw [hr] at this
          obtain ⟨s', hs', hag⟩ := this
          exact ⟨s', by rw [Bf.runCfg_succ_next h2]; exact hs', hag⟩
        | outOfFuel c2 =>
          rw [hr] at this
          obtain ⟨c2', hs', hag⟩ := this
          exact ⟨c2', by rw [Bf.runCfg_succ_next h2]; exact hs', hag⟩
        | stopped s =>
          rw [hr] at this
          rcases this with ⟨s', hs', hag⟩ | ⟨g, b, t, c2', hg, ht, hrun, ht'⟩
          · exact Or.inl ⟨s', by rw [Bf.runCfg_succ_next h2]; exact hs', hag⟩
          · exact Or.inr ⟨g + 1, b, t, c2', by omega, ht,
              by rw [Bf.runCfg_succ_next h2]; exact hrun, ht'⟩
      | halt s' => rw [h1, h2] at hst; exact hst.elim
      | stop s' => rw [h1, h2] at hst; exact hst.elim
    | halt s =>
      cases h2 : Bf.step c' with
      | next c1' => rw [h1, h2] at hst; exact hst.elim
      | halt s' =>
        rw [h1, h2] at hst
        rw [Bf.runCfg_succ_halt h1]
        exact ⟨s', Bf.runCfg_succ_halt h2 f, hst⟩
      | stop s' => rw [h1, h2] at hst; exact hst.elim
    | stop s =>
      cases h2 : Bf.step c' with
      | next c1' =>
        rw [h1, h2] at hst
        obtain ⟨b, ht, ht'⟩ := hst
        rw [Bf.runCfg_succ_stop h1]
        exact Or.inr ⟨1, b, _, c1', by omega, ht, by rw [Bf.runCfg_succ_next h2]; rfl, ht'⟩
      | halt s' => rw [h1, h2] at hst; exact hst.elim
      | stop s' =>
        rw [h1, h2] at hst
        rw [Bf.runCfg_succ_stop h1]
        exact Or.inl ⟨s', Bf.runCfg_succ_stop h2 f, hst⟩

end C08
end Hpbf
