/-
Rebuild-round proofs: `reads` is strictly ascending (`OptLoop.SAsc s.reads`).  The field is only ever extended by
`sIns` (`RExt`), through every function of the rebuild round.
-/
import Hpbf.Proofs.OptRbKnown2

namespace Hpbf
namespace OptProof
open Opt OptSem Ir

variable {w : Nat}

/-! ### the step relation -/

/-- `b` is `a` after some `sIns`. -/
inductive RExt : List Int → List Int → Prop
  | refl (a : List Int) : RExt a a
  | ins {a b : List Int} (x : Int) : RExt a b → RExt a (sIns b x)

theorem RExt.trans {a b c : List Int} (h1 : RExt a b) (h2 : RExt b c) : RExt a c := by
  induction h2 with
  | refl => exact h1
  | ins x _ ih => exact RExt.ins x ih

theorem RExt.sasc {a b : List Int} (h : RExt a b) (ha : OptLoop.SAsc a) : OptLoop.SAsc b := by
  induction h with
  | refl => exact ha
  | ins x _ ih => exact OptLoop.sasc_sIns _ x ih

/-- The `reads` of `s'` are the `reads` of `s` after some `sIns`. -/
def RS (s s' : Rebuild w) : Prop := RExt s.reads s'.reads

theorem RS.refl (s : Rebuild w) : RS s s := RExt.refl _
theorem RS.trans {a b c : Rebuild w} (h1 : RS a b) (h2 : RS b c) : RS a c := RExt.trans h1 h2
theorem RS.of_eq {s s' : Rebuild w} (h : s'.reads = s.reads) : RS s s' := by
  unfold RS; rw [h]; exact RExt.refl _
theorem RS.sasc {s s' : Rebuild w} (h : RS s s') (hs : OptLoop.SAsc s.reads) : OptLoop.SAsc s'.reads :=
  RExt.sasc h hs

/-- Well-formedness of the new state together with `RS`. -/
structure WR (s s' : Rebuild w) : Prop where
  wf : Wf s'
  r : RS s s'

theorem WR.refl {s : Rebuild w} (h : Wf s) : WR s s := ⟨h, RS.refl s⟩
theorem WR.trans {a b c : Rebuild w} (h1 : WR a b) (h2 : WR b c) : WR a c := ⟨h2.wf, h1.r.trans h2.r⟩
theorem WR.sasc {s s' : Rebuild w} (h : WR s s') (hs : OptLoop.SAsc s.reads) : OptLoop.SAsc s'.reads :=
  h.r.sasc hs

theorem foldlM_wr {γ : Type} (f : Rebuild w → γ → M (Rebuild w)) (l : List γ)
    (hstep : ∀ s x os s' os', x ∈ l → Wf s → (f s x).run os = .ok (s', os') → WR s s')
    {s : Rebuild w} {os : Orders} {s' : Rebuild w} {os' : Orders} (hwf : Wf s)
    (hr : (l.foldlM f s).run os = .ok (s', os')) : WR s s' := by
  induction l generalizing s os with
  | nil =>
    rw [List.foldlM_nil, run_pure] at hr
    cases hr; exact WR.refl hwf
  | cons x l ih =>
    rw [List.foldlM_cons, run_bind_ok] at hr
    obtain ⟨s1, os1, h1, h2⟩ := hr
    have r1 := hstep s x os s1 os1 (by simp) hwf h1
    exact r1.trans (ih (fun s x os s' os' hx => hstep s x os s' os' (List.mem_cons_of_mem _ hx)) r1.wf h2)

/-! ### pure primitives -/

theorem read_rs (s : Rebuild w) (var : Int) : RS s (Opt.read s var) := by
  unfold RS Opt.read
  split
  · exact RExt.ins var (RExt.refl _)
  · exact RExt.ins var (RExt.refl _)
  · exact RExt.refl _

theorem foldl_read_rs (s : Rebuild w) (vs : List Int) : RS s (vs.foldl Opt.read s) := by
  induction vs generalizing s with
  | nil => exact RS.refl s
  | cons y vs ih => exact (read_rs s y).trans (ih _)

theorem readGroup_rs (s : Rebuild w) (calcs : List (Int × Expr w)) : RS s (readGroup s calcs) := by
  unfold readGroup
  induction calcs generalizing s with
  | nil => exact RS.refl s
  | cons vc calcs ih =>
    simp only [List.foldl_cons]
    exact (foldl_read_rs s _).trans (ih _)

theorem removePending_rs (s : Rebuild w) (var : Int) : RS s (removePending s var).1 :=
  RS.of_eq (removePending_same s var).2.2.2.2.2.2.1

theorem insertPending_rs (s : Rebuild w) (ps : List (Rebuild w)) (var : Int) (expr : Expr w) :
    RS s (insertPending s ps var expr) :=
  RS.of_eq (insertPending_same s ps var expr).2.2.2.2.2.2.1

theorem insertWritten_rs (s : Rebuild w) (var : Int) (val : OptWrite w) : RS s (insertWritten s var val) :=
  RS.of_eq (insertWritten_same s var val).2.2.2.2.2.2.1

theorem writtenCalcs_rs (s : Rebuild w) (ps : List (Rebuild w)) (calcs : List (Int × Expr w)) :
    RS s (writtenCalcs s ps calcs) :=
  RS.of_eq (writtenCalcs_eq s ps calcs).2.1

theorem uncertainShift_rs (s : Rebuild w) : RS s (uncertainShift s) := RS.of_eq rfl

theorem emitGroup_rs (ps : List (Rebuild w)) (s : Rebuild w) (calcs : List (Int × Expr w)) :
    RS s (emitGroup ps s calcs) :=
  ((readGroup_rs s calcs).trans (writtenCalcs_rs _ ps calcs)).trans
    (RS.of_eq (s := writtenCalcs (readGroup s calcs) ps calcs) (s' := emitGroup ps s calcs) rfl)

theorem emitStructured_rs (s : Rebuild w) (ps : List (Rebuild w)) (toEmit : List (List (Int × Expr w))) :
    RS s (emitStructured s ps toEmit) := by
  rw [emitStructured_eq]
  induction toEmit generalizing s with
  | nil => exact RS.refl s
  | cons g toEmit ih =>
    simp only [List.foldl_cons]
    exact (emitGroup_rs ps s g).trans (ih _)

theorem foldl_remove_rs {α β : Type} (f : Rebuild w × β → α → Rebuild w × β)
    (hf : ∀ acc x, (f acc x).1 = acc.1 ∨ ∃ k, (f acc x).1 = (removePending acc.1 k).1)
    (l : List α) (acc : Rebuild w × β) : RS acc.1 (l.foldl f acc).1 := by
  induction l generalizing acc with
  | nil => exact RS.refl _
  | cons x l ih =>
    simp only [List.foldl_cons]
    refine RS.trans ?_ (ih _)
    rcases hf acc x with e | ⟨k, e⟩
    · rw [e]; exact RS.refl _
    · rw [e]; exact removePending_rs _ k

/-! ### the emitting primitives -/

theorem gatherEmit_wr {s : Rebuild w} (ps : List (Rebuild w)) (hwf : Wf s) (var : Int)
    {os os' : Orders} {s1 : Rebuild w} {toEmit : List (List (Int × Expr w))}
    (hr : (gatherForEmit s [var]).run os = .ok ((s1, toEmit), os')) :
    WR s (emitStructured s1 ps toEmit) := by
  obtain ⟨_, g2, _⟩ := gatherForEmit_spec hwf var hr
  exact ⟨(gatherEmit_kstep ps hwf var hr).wf,
    (RS.of_eq g2.2.2.2.2.2.2.1).trans (emitStructured_rs s1 ps toEmit)⟩

theorem emit_wr {s : Rebuild w} (ps : List (Rebuild w)) (var : Int) {os os' : Orders} {s' : Rebuild w}
    (hr : (emit s ps var).run os = .ok (s', os')) (hwf : Wf s) : WR s s' := by
  unfold emit at hr
  split at hr
  · rw [run_bind_ok] at hr
    obtain ⟨⟨s1, toEmit⟩, os1, h1, h2⟩ := hr
    rw [run_pure] at h2
    cases h2
    exact gatherEmit_wr ps hwf var h1
  · rw [run_pure] at hr
    cases hr
    exact WR.refl hwf

theorem explosionVars_wr (ps : List (Rebuild w)) (vars : List Int) (last : Option Int) {s : Rebuild w}
    {os os' : Orders} {s' : Rebuild w}
    (hr : (explosionVars ps vars last s).run os = .ok (s', os')) (hwf : Wf s) : WR s s' := by
  induction vars generalizing s os last with
  | nil =>
    rw [explosionVars, run_pure] at hr
    cases hr; exact WR.refl hwf
  | cons var rest ih =>
    rw [explosionVars] at hr
    have hskip : ∀ {os : Orders}, ((do let s ← pure s; (fun s => explosionVars ps rest (some var) s) s) :
        M (Rebuild w)).run os = .ok (s', os') → WR s s' := by
      intro os h
      rw [run_bind_ok] at h
      obtain ⟨s1, os1, h1, h2⟩ := h
      rw [run_pure] at h1; cases h1
      exact ih (some var) h2 hwf
    split at hr
    · split at hr
      · rw [run_bind_ok] at hr
        obtain ⟨s1, os1, h1, h2⟩ := hr
        have r1 := emit_wr ps var h1 hwf
        exact r1.trans (ih (some var) h2 r1.wf)
      · exact hskip hr
    · exact hskip hr

theorem performCheck_wr (ps : List (Rebuild w)) (calcs : List (Int × Expr w)) {s : Rebuild w}
    {os os' : Orders} {s' : Rebuild w}
    (hr : (performCheck s ps calcs).run os = .ok (s', os')) (hwf : Wf s) : WR s s' := by
  unfold performCheck at hr
  refine foldlM_wr _ calcs ?_ hwf hr
  intro s vc os s' os' _ hwf' h
  refine foldlM_wr _ (groupedVars vc.2) ?_ hwf' h
  intro s vars os s' os' _ hwf'' h'
  split at h'
  · exact explosionVars_wr ps vars none h' hwf''
  · rw [run_pure] at h'; cases h'; exact WR.refl hwf''

theorem emitAll_wr (ps : List (Rebuild w)) (vars : List Int) {s : Rebuild w}
    {os os' : Orders} {s' : Rebuild w}
    (hr : (emitAll ps vars s).run os = .ok (s', os')) (hwf : Wf s) : WR s s' := by
  unfold emitAll at hr
  refine foldlM_wr _ vars ?_ hwf hr
  intro s var os s' os' _ hwf' h
  exact emit_wr ps var h hwf'

theorem WR.read {s s1 : Rebuild w} (h : WR s s1) (var : Int) : WR s (Opt.read s1 var) :=
  ⟨(read_same s1 var).wf h.wf, h.r.trans (read_rs s1 var)⟩

theorem WR.of_eq {s s1 s2 : Rebuild w} (h : WR s s1) (hwf : Wf s2) (hr : s2.reads = s1.reads) : WR s s2 :=
  ⟨hwf, h.r.trans (RS.of_eq hr)⟩

theorem emitReadAll_wr (ps : List (Rebuild w)) (vars : List Int) {s : Rebuild w}
    {os os' : Orders} {s' : Rebuild w}
    (hr : (emitReadAll ps vars s).run os = .ok (s', os')) (hwf : Wf s) : WR s s' := by
  unfold emitReadAll at hr
  refine foldlM_wr _ vars ?_ hwf hr
  intro s var os s' os' _ hwf' h
  rw [run_bind_ok] at h
  obtain ⟨s1, os1, h1, h2⟩ := h
  rw [run_pure] at h2
  cases h2
  exact (emit_wr ps var h1 hwf').read var

theorem clobber_wr {s : Rebuild w} (ps : List (Rebuild w)) (var : Int) (maybe : Bool)
    {os os' : Orders} {s' : Rebuild w} (hr : (clobber s ps var maybe).run os = .ok (s', os'))
    (hwf : Wf s) : WR s s' := by
  refine ⟨(clobber_wk ps var maybe hr hwf).wf, ?_⟩
  unfold clobber at hr
  rw [run_bind_ok] at hr
  obtain ⟨⟨s2, toEmit⟩, os1, h1, h2⟩ := hr
  rw [run_pure] at h2
  cases h2
  have hs0 : ∃ s0, s0 = (if !maybe then (removePending s var).1 else s) := ⟨_, rfl⟩
  obtain ⟨s0, hs0e⟩ := hs0
  rw [← hs0e] at h1
  have hwf0 : Wf s0 := by
    rw [hs0e]; split
    · exact removePending_wf hwf var
    · exact hwf
  have k0 : RS s s0 := by
    rw [hs0e]; split
    · exact removePending_rs s var
    · exact RS.refl s
  exact (k0.trans (gatherEmit_wr ps hwf0 var h1).r).trans (insertWritten_rs _ var _)

theorem clobberAll_wr (ps : List (Rebuild w)) (vars : List (Int × Bool)) {s : Rebuild w}
    {os os' : Orders} {s' : Rebuild w}
    (hr : (clobberAll ps vars s).run os = .ok (s', os')) (hwf : Wf s) : WR s s' := by
  unfold clobberAll at hr
  refine foldlM_wr _ vars ?_ hwf hr
  intro s vm os s' os' _ hwf' h
  exact clobber_wr ps vm.1 vm.2 h hwf'

theorem performAll_wr {s : Rebuild w} {ps : List (Rebuild w)} {shift : Int}
    {calcs : List (Int × Expr w)} {os os' : Orders} {s' : Rebuild w}
    (hr : (performAll s ps shift calcs).run os = .ok (s', os')) (hwf : Wf s) : WR s s' := by
  rw [performAll_eq, run_bind_ok] at hr
  obtain ⟨s1, os1, h1, h2⟩ := hr
  rw [run_bind_ok] at h2
  obtain ⟨exprs, os2, h3, h4⟩ := h2
  rw [run_pure] at h4
  cases h4
  have r := performCheck_wr ps calcs h1 hwf
  obtain ⟨a, b⟩ := foldl_insertPending_wf r.wf ps exprs
  exact ⟨a, r.r.trans (RS.of_eq b.2.2.2.2.2.2.1)⟩

/-- The non-loop arms of `rebuildInstr`. -/
theorem rebuildInstr_wr {ps : List (Rebuild w)} {s : Rebuild w} {i : Instr w} {os os' : Orders}
    {s' : Rebuild w} (hr : (rebuildInstr ps s i).run os = .ok (s', os')) (hwf : Wf s)
    (hb : C01Dse.isBlock i = false) : WR s s' := by
  cases i with
  | output src =>
    rw [rebuildInstr] at hr
    split at hr
    · rename_i x hx
      rw [run_pure] at hr
      cases hr
      have r := (WR.refl hwf).read x
      exact r.of_eq (r.wf.pushInsts _) rfl
    · rw [run_bind_ok] at hr
      obtain ⟨s1, os1, h1, h2⟩ := hr
      rw [run_pure] at h2
      cases h2
      have r := (emit_wr ps (src + s.shift) h1 hwf).read (src + s.shift)
      exact r.of_eq (r.wf.pushInsts _) rfl
  | input dst =>
    rw [rebuildInstr, run_bind_ok] at hr
    obtain ⟨s1, os1, h1, h2⟩ := hr
    rw [run_pure] at h2
    cases h2
    have r := clobber_wr ps (dst + s.shift) false h1 hwf
    exact r.of_eq (r.wf.pushInsts _) rfl
  | «calc» calcs =>
    rw [rebuildInstr] at hr
    exact performAll_wr hr hwf
  | loop c sh b o => simp [C01Dse.isBlock] at hb
  | ifnz c sh b => simp [C01Dse.isBlock] at hb

/-! ### `inline` -/

theorem inlineRest_wr {s : Rebuild w} {ps : List (Rebuild w)} {sub : Rebuild w} {os os' : Orders}
    {s' : Rebuild w} (hr : (inlineRest s ps sub).run os = .ok (s', os')) (hwf : Wf s) (hc : CanonSt s)
    (hsub : Child sub) : WR s s' := by
  refine ⟨(inlineRest_canon hr hwf hc hsub).wf, ?_⟩
  unfold inlineRest at hr
  dsimp only at hr
  rw [run_bind_ok] at hr
  obtain ⟨s2, os2, h5, h6⟩ := hr
  have hf : ∀ (acc : Rebuild w × List (Int × Bool)) (vk : Int × OptWrite w),
      ((fun (acc : Rebuild w × List (Int × Bool)) (vk : Int × OptWrite w) =>
        if vk.2.isMaybe then (acc.1, acc.2 ++ [(vk.1, true)])
        else ((removePending acc.1 vk.1).1, acc.2 ++ [(vk.1, false)])) acc vk).1 = acc.1 ∨
      ∃ k, ((fun (acc : Rebuild w × List (Int × Bool)) (vk : Int × OptWrite w) =>
        if vk.2.isMaybe then (acc.1, acc.2 ++ [(vk.1, true)])
        else ((removePending acc.1 vk.1).1, acc.2 ++ [(vk.1, false)])) acc vk).1
          = (removePending acc.1 k).1 := by
    intro acc x
    dsimp only
    split
    · exact Or.inl rfl
    · exact Or.inr ⟨_, rfl⟩
  have r1' := foldl_remove_cstep _ hf sub.written (s, []) (CStep.refl hwf hc)
  have k1 := foldl_remove_rs _ hf sub.written (s, [])
  have r2 := clobberAll_wr ps _ h5 r1'.wf
  have hwf3 : Wf (writtenCalcs ({ s2 with insts := s2.insts ++ sub.insts } : Rebuild w) ps
      (sub.written.filterMap (fun vk =>
        match vk.2 with
        | .known e => some (vk.1, e)
        | _ => none))) := writtenCalcs_wf (r2.wf.pushInsts _) ps _
  have k4 : RS s (writtenCalcs ({ s2 with insts := s2.insts ++ sub.insts } : Rebuild w) ps
      (sub.written.filterMap (fun vk =>
        match vk.2 with
        | .known e => some (vk.1, e)
        | _ => none))) :=
    ((k1.trans r2.r).trans (RS.of_eq (s' := ({ s2 with insts := s2.insts ++ sub.insts } : Rebuild w)) rfl)).trans
      (writtenCalcs_rs _ ps _)
  split at h6
  · rw [run_bind_ok] at h6
    obtain ⟨s3, os3, h7, h8⟩ := h6
    rw [run_pure] at h7
    cases h7
    rw [run_pure] at h8
    cases h8
    exact k4.trans (RS.of_eq rfl)
  · rw [run_bind_ok] at h6
    obtain ⟨pend, os4, h9, h10⟩ := h6
    rw [run_bind_ok] at h10
    obtain ⟨s4, os5, h11, h12⟩ := h10
    rw [run_bind_ok] at h12
    obtain ⟨s5, os6, h13, h14⟩ := h12
    rw [run_pure] at h13
    cases h13
    rw [run_pure] at h14
    cases h14
    have r4 := performAll_wr h11 hwf3
    exact (k4.trans r4.r).trans (RS.of_eq rfl)

theorem inline_wr {s : Rebuild w} {ps : List (Rebuild w)} {sub : Rebuild w} {os os' : Orders}
    {s' : Rebuild w} (hr : (Opt.inline s ps sub).run os = .ok (s', os')) (hwf : Wf s) (hc : CanonSt s)
    (hsub : Child sub) : WR s s' := by
  rw [inline_eq] at hr
  split at hr
  · rw [run_bind_ok] at hr
    obtain ⟨s1, os1, h1, h2⟩ := hr
    rw [run_bind_ok] at h2
    obtain ⟨s2, os2, h3, h4⟩ := h2
    rw [run_pure] at h3
    cases h3
    have r1 := emitAll_wr ps _ h1 hwf
    have c1 := (emitAll_canon ps _ h1 hwf hc).uncertainShift
    have r2 := inlineRest_wr h4 c1.wf c1.canon hsub
    exact ⟨r2.wf, (r1.r.trans (uncertainShift_rs s1)).trans r2.r⟩
  · rw [run_bind_ok] at hr
    obtain ⟨s1, os1, h1, h2⟩ := hr
    have r1 := emitReadAll_wr ps _ h1 hwf
    have c1 := emitReadAll_canon ps _ h1 hwf hc
    exact r1.trans (inlineRest_wr h2 c1.wf c1.canon hsub)

/-! ### `loopOrIf` -/

theorem clobberPhase_wr {s : Rebuild w} {ps : List (Rebuild w)} {sub : Rebuild w} {L : OptLoop w}
    {C : List Int} {os os' : Orders} {s' : Rebuild w}
    (hr : (clobberPhase s ps sub L C).run os = .ok (s', os')) (hwf : Wf s) : WR s s' := by
  refine ⟨(clobberPhase_wk hr hwf).wf, ?_⟩
  unfold clobberPhase at hr
  split at hr
  · dsimp only at hr
    have hf : ∀ (acc : Rebuild w × List (Int × Bool)) (vk : Int × OptWrite w),
        ((fun (acc : Rebuild w × List (Int × Bool)) (vk : Int × OptWrite w) =>
          if !C.contains vk.1 then
            if vk.2.isMaybe || !L.atLeastOnce then (acc.1, acc.2 ++ [(vk.1, true)])
            else ((removePending acc.1 vk.1).1, acc.2 ++ [(vk.1, false)])
          else acc) acc vk).1 = acc.1 ∨
        ∃ k, ((fun (acc : Rebuild w × List (Int × Bool)) (vk : Int × OptWrite w) =>
          if !C.contains vk.1 then
            if vk.2.isMaybe || !L.atLeastOnce then (acc.1, acc.2 ++ [(vk.1, true)])
            else ((removePending acc.1 vk.1).1, acc.2 ++ [(vk.1, false)])
          else acc) acc vk).1 = (removePending acc.1 k).1 := by
      intro acc x
      dsimp only
      split
      · split
        · exact Or.inl rfl
        · exact Or.inr ⟨_, rfl⟩
      · exact Or.inl rfl
    have k1 := foldl_remove_rs _ hf sub.written (s, [])
    have hwf1 : Wf (sub.written.foldl (fun (acc : Rebuild w × List (Int × Bool)) (vk : Int × OptWrite w) =>
        if !C.contains vk.1 then
          if vk.2.isMaybe || !L.atLeastOnce then (acc.1, acc.2 ++ [(vk.1, true)])
          else ((removePending acc.1 vk.1).1, acc.2 ++ [(vk.1, false)])
        else acc) (s, [])).1 := by
      suffices H : ∀ (l : List (Int × OptWrite w)) (acc : Rebuild w × List (Int × Bool)), Wf acc.1 →
          Wf (l.foldl (fun (acc : Rebuild w × List (Int × Bool)) (vk : Int × OptWrite w) =>
            if !C.contains vk.1 then
              if vk.2.isMaybe || !L.atLeastOnce then (acc.1, acc.2 ++ [(vk.1, true)])
              else ((removePending acc.1 vk.1).1, acc.2 ++ [(vk.1, false)])
            else acc) acc).1 from H _ _ hwf
      intro l
      induction l with
      | nil => intro acc h; exact h
      | cons x l ih =>
        intro acc h
        simp only [List.foldl_cons]
        apply ih
        rcases hf acc x with e | ⟨k, e⟩
        · rw [e]; exact h
        · rw [e]; exact removePending_wf h k
    exact k1.trans (clobberAll_wr ps _ hr hwf1).r
  · rw [run_pure] at hr
    cases hr
    exact RS.refl s

theorem condZero_rs (s1 sub : Rebuild w) (cond : Int) : RS s1 (condZero s1 sub cond) := by
  unfold condZero
  split
  · split
    · exact insertWritten_rs _ _ _
    · exact RS.refl _
  · exact RS.refl _

theorem loopPrep_wr {s : Rebuild w} {ps : List (Rebuild w)} {sub : Rebuild w} {cond : Int}
    {L : OptLoop w} {C : List Int} {os os' : Orders} {r : Rebuild w × Rebuild w × List Int}
    (hr : (loopPrep s ps sub cond L C).run os = .ok (r, os')) (hwf : Wf s) : WR s r.1 := by
  refine ⟨(loopPrep_wk hr hwf).wf, ?_⟩
  unfold loopPrep at hr
  split at hr
  · rw [run_bind_ok] at hr
    obtain ⟨s1, os1, h1, h2⟩ := hr
    rw [run_pure] at h2
    cases h2
    exact (emitAll_wr ps _ h1 hwf).r.trans (uncertainShift_rs s1)
  · dsimp only at hr
    rw [run_bind_ok] at hr
    obtain ⟨s1, os1, h1, h2⟩ := hr
    rw [run_bind_ok] at h2
    obtain ⟨s2, os2, h3, h4⟩ := h2
    rw [run_bind_ok] at h4
    obtain ⟨s3, os3, h5, h6⟩ := h4
    rw [run_pure] at h6
    cases h6
    have r1 := emitReadAll_wr ps _ h1 hwf
    have r2 := r1.trans (emitReadAll_wr ps _ h3 r1.wf)
    have r3 := r2.trans (clobberPhase_wr h5 r2.wf)
    exact r3.r.trans (condZero_rs _ _ _)

theorem loopTail_rs (s1 sub : Rebuild w) (cond : Int) (isLoop : Bool) (L : OptLoop w) (hasShift : Bool)
    (clobbered : List Int) : RS s1 (loopTail s1 sub cond isLoop L hasShift clobbered) := by
  have key : ∀ X : Rebuild w, RS s1 X →
      RS s1 ({ (if L.noContinue then { X with noReturn := true } else X) with
        subAnal := (if L.noContinue then { X with noReturn := true } else X).subAnal ++
          [OptAnalysis.mk L hasShift sub.reads clobbered sub.subAnal] } : Rebuild w) := by
    intro X hX
    by_cases hn : L.noContinue = true
    · rw [if_pos hn]; exact hX.trans (RS.of_eq rfl)
    · rw [if_neg hn]; exact hX.trans (RS.of_eq rfl)
  have hX : RS s1 (if isLoop then
      insertWritten { s1 with insts := s1.insts ++ [Ir.Instr.loop cond (sub.shift - s1.shift) sub.insts L.atLeastOnce] }
        cond (.known (Expr.val 0#w))
    else { s1 with insts := s1.insts ++ [Ir.Instr.ifnz cond (sub.shift - s1.shift) sub.insts] }) := by
    split
    · exact RS.trans
        (b := { s1 with insts := s1.insts ++ [Ir.Instr.loop cond (sub.shift - s1.shift) sub.insts L.atLeastOnce] })
        (RS.of_eq rfl) (insertWritten_rs _ _ _)
    · exact RS.of_eq rfl
  exact key _ hX

/-- `loopOrIf`: the parent's `reads` (the child's do not matter). -/
theorem loopOrIf_wr {s : Rebuild w} {ps : List (Rebuild w)} {sub : Rebuild w} {cond : Int}
    {isLoop : Bool} {L : OptLoop w} {C : List Int} {os os' : Orders} {s' : Rebuild w}
    (hr : (loopOrIf s ps sub cond isLoop L C).run os = .ok (s', os')) (hwf : Wf s) (hc : CanonSt s)
    (hsub : Child sub) : WR s s' := by
  refine ⟨(loopOrIf_canon hr hwf hc hsub).wf, ?_⟩
  obtain ⟨sub1, os1, r, _, h2, rfl⟩ := loopOrIf_run hr
  exact (loopPrep_wr h2 hwf).r.trans (loopTail_rs _ _ _ _ _ _ _)

theorem loopInsideIf_wr {s : Rebuild w} {ps : List (Rebuild w)} {sub : Rebuild w} {cond : Int}
    {L : OptLoop w} {after : List (Int × Expr w)} {C : List Int} {os os' : Orders} {s' : Rebuild w}
    (hr : (loopInsideIf s ps sub cond L after C).run os = .ok (s', os')) (hwf : Wf s) (hc : CanonSt s)
    (hsub : Child sub) : WR s s' := by
  unfold loopInsideIf at hr
  dsimp only at hr
  split at hr
  · rw [run_bind_ok] at hr
    obtain ⟨s1, os1, h1, h2⟩ := hr
    have r1 := inline_wr h1 hwf hc hsub
    exact r1.trans (performAll_wr h2 r1.wf)
  · split at hr
    · rw [run_bind_ok] at hr
      obtain ⟨s1, os1, h1, h2⟩ := hr
      have r1 := performAll_wr h1 hwf
      exact r1.trans (performAll_wr h2 r1.wf)
    · rw [run_bind_ok] at hr
      obtain ⟨s1, os1, h1, h2⟩ := hr
      have r1 := loopOrIf_wr h1 hwf hc hsub
      exact r1.trans (performAll_wr h2 r1.wf)

/-! ### `finishLoop` -/

theorem finishEnd_wr {s : Rebuild w} {ps : List (Rebuild w)} {cond : Int} {L : OptLoop w}
    {r : MidRes w} {os os' : Orders} {s' : Rebuild w}
    (hr : (finishEnd s ps cond L r).run os = .ok (s', os')) (hwf : Wf s) (hc : CanonSt s)
    (hsub : Child r.1) (hbefore : CanonCalcs r.2.1) (hafter : CanonCalcs r.2.2.1) : WR s s' := by
  obtain ⟨sub, before, after, constant⟩ := r
  unfold finishEnd at hr
  dsimp only at hr
  rw [run_bind_ok] at hr
  obtain ⟨s1, os1, h1, h2⟩ := hr
  have c1 := performAll_canon h1 hwf hc hbefore
  have r1 := performAll_wr h1 hwf
  split at h2
  · exact r1.trans (loopInsideIf_wr h2 c1.wf c1.canon hsub.forgetParent)
  · rw [run_bind_ok] at h2
    obtain ⟨ifS, os2, h3, h4⟩ := h2
    have c2 := loopInsideIf_canon h3 (wf_new _ _ _ _) (canonSt_new _ _ _ _) hsub.forgetParent hafter
    have hif : Child ifS := (child_new s1.shift (some cond) .unknown none).step c2
    exact r1.trans (loopOrIf_wr h4 c1.wf c1.canon hif)

/-- `finishLoop`: the parent's `reads`. -/
theorem finishLoop_wr {s : Rebuild w} {ps : List (Rebuild w)} {sub : Rebuild w} {cond : Int}
    {isLoop : Bool} {os os' : Orders} {s' : Rebuild w}
    (hr : (finishLoop s ps sub cond isLoop).run os = .ok (s', os')) (hwf : Wf s) (hc : CanonSt s)
    (hsub : Child sub) : WR s s' := by
  rw [finishLoop_cut] at hr
  split at hr
  · rw [run_pure] at hr
    cases hr
    exact WR.refl hwf
  · split at hr
    · rw [run_bind_ok] at hr
      obtain ⟨x, os1, h1, h2⟩ := hr
      rw [run_pure] at h1
      cases h1
      exact finishEnd_wr h2 hwf hc hsub canonCalcs_nil canonCalcs_nil
    · obtain ⟨r, os1, a, b, c, h2⟩ := finishMotionK_run hr hsub
        (fun e he => analyzeLoop_canon s ps sub cond isLoop he)
      exact finishEnd_wr h2 hwf hc a b c

/-! ### the full induction -/

/-- `rebuildInstr`, every arm. -/
theorem rebuildInstr_wr_all {ps : List (Rebuild w)} {s : Rebuild w} (i : Instr w) {os os' : Orders}
    {s' : Rebuild w} (hr : (rebuildInstr ps s i).run os = .ok (s', os')) (hwf : Wf s) (hc : CanonSt s)
    (hci : CanonL [i]) : WR s s' := by
  have arm : ∀ (cond shift : Int) (body : List (Instr w)) (isLoop : Bool), CanonL body →
      ((do
        let cond := cond + s.shift
        let (s, subAnal) := popSubAnal s
        let sub : Rebuild w := reverseSubBlocks (Rebuild.new s.shift (some cond) .parent subAnal)
        let (sub, completed) ← rebuildInsts (s :: ps) sub body
        let sub := if completed then { sub with shift := sub.shift + shift } else sub
        finishLoop s ps sub cond isLoop) : M (Rebuild w)).run os = .ok (s', os') → WR s s' := by
    intro cond shift body isLoop hcb hr
    have r0 := popSubAnal_cstep hwf hc
    have k0 : RS s (popSubAnal s).1 := by
      unfold popSubAnal
      split
      · split
        · exact RS.of_eq rfl
        · exact RS.refl s
      · exact RS.refl s
    rcases hps : popSubAnal s with ⟨s1, sa⟩
    rw [hps] at hr r0 k0
    dsimp only at hr r0 k0
    rw [run_bind_ok] at hr
    obtain ⟨⟨sub, completed⟩, os1, h1, h2⟩ := hr
    dsimp only at h2
    have hch0 : Child (reverseSubBlocks (Rebuild.new s1.shift (some (cond + s.shift)) .parent sa)) :=
      (child_new _ _ _ _).reverseSubBlocks
    have hch : Child sub := hch0.step (rebuildInsts_cstep_all body h1 hch0.wf hch0.canon hcb)
    have hch' : Child (if completed = true then { sub with shift := sub.shift + shift } else sub) := by
      split
      · exact hch.of_fields rfl rfl rfl rfl
      · exact hch
    have r1 := finishLoop_wr h2 r0.wf r0.canon hch'
    exact ⟨r1.wf, k0.trans r1.r⟩
  cases i with
  | output src => exact rebuildInstr_wr hr hwf rfl
  | input dst => exact rebuildInstr_wr hr hwf rfl
  | «calc» calcs => exact rebuildInstr_wr hr hwf rfl
  | loop c sh body o =>
    rw [rebuildInstr] at hr
    exact arm c sh body true (canonL_loop.1 hci) hr
  | ifnz c sh body =>
    rw [rebuildInstr] at hr
    exact arm c sh body false (canonL_ifnz.1 hci) hr

/-- **All of `rebuildInsts`**: `reads` is only extended by `sIns`. -/
theorem rebuildInsts_wr_all {ps : List (Rebuild w)} (l : List (Instr w)) {s : Rebuild w}
    {os os' : Orders} {s' : Rebuild w} {done : Bool}
    (hr : (rebuildInsts ps s l).run os = .ok ((s', done), os')) (hwf : Wf s) (hc : CanonSt s)
    (hcl : CanonL l) : WR s s' := by
  induction l generalizing s os with
  | nil =>
    rw [rebuildInsts, run_pure] at hr
    cases hr
    exact WR.refl hwf
  | cons i rest ih =>
    rw [canonL_cons] at hcl
    rw [rebuildInsts] at hr
    split at hr
    · rw [run_pure] at hr
      cases hr
      exact WR.refl hwf
    · rw [run_bind_ok] at hr
      obtain ⟨s1, os1, h1, h2⟩ := hr
      have hci : CanonL [i] := canonL_single.2 hcl.1
      have c1 := rebuildInstr_cstep_all i h1 hwf hc hci
      exact (rebuildInstr_wr_all i h1 hwf hc hci).trans (ih h2 c1.wf c1.canon hcl.2)

/-- The requested form. -/
theorem rebuildInsts_sasc_all {ps : List (Rebuild w)} (l : List (Instr w)) {s : Rebuild w}
    {os os' : Orders} {s' : Rebuild w} {completed : Bool}
    (hr : (rebuildInsts ps s l).run os = .ok ((s', completed), os')) (hwf : Wf s) (hc : CanonSt s)
    (hcl : CanonL l) (hs : OptLoop.SAsc s.reads) : OptLoop.SAsc s'.reads :=
  (rebuildInsts_wr_all l hr hwf hc hcl).sasc hs

theorem rebuildInstr_sasc_all {ps : List (Rebuild w)} {s : Rebuild w} (i : Instr w) {os os' : Orders}
    {s' : Rebuild w} (hr : (rebuildInstr ps s i).run os = .ok (s', os')) (hwf : Wf s) (hc : CanonSt s)
    (hci : CanonL [i]) (hs : OptLoop.SAsc s.reads) : OptLoop.SAsc s'.reads :=
  (rebuildInstr_wr_all i hr hwf hc hci).sasc hs

/-- A fresh child state: the `reads` of the state returned for the body are strictly ascending. -/
theorem rebuildInsts_child_sasc {ps : List (Rebuild w)} {s : Rebuild w} (sh : Int) (c : Option Int)
    (par : OptParent) (anal : Option (OptAnalysis w)) (body : List (Instr w)) {os os' : Orders}
    {sub : Rebuild w} {completed : Bool}
    (hr : (rebuildInsts (s :: ps) (reverseSubBlocks (Rebuild.new sh c par anal)) body).run os
      = .ok ((sub, completed), os')) (hcb : CanonL body) : OptLoop.SAsc sub.reads := by
  have hch0 : Child (reverseSubBlocks (Rebuild.new sh c par anal : Rebuild w)) :=
    (child_new _ _ _ _).reverseSubBlocks
  refine rebuildInsts_sasc_all body hr hch0.wf hch0.canon hcb ?_
  obtain ⟨_, _, _, _, _, f6, _⟩ := reverseSubBlocks_fields (Rebuild.new sh c par anal : Rebuild w)
  rw [f6]
  simp [Rebuild.new, OptLoop.SAsc]

theorem rebuildInsts_child_sasc' {ps : List (Rebuild w)} {s : Rebuild w} (sh : Int) (c : Option Int)
    (par : OptParent) (anal : Option (OptAnalysis w)) (body : List (Instr w)) {os os' : Orders}
    {sub : Rebuild w} {completed : Bool}
    (hr : (rebuildInsts (s :: ps) (reverseSubBlocks (Rebuild.new sh c par anal)) body).run os
      = .ok ((sub, completed), os')) (hcb : CanonL body) (x : Int) :
    OptLoop.SAsc (if completed then { sub with shift := sub.shift + x } else sub).reads := by
  have h := rebuildInsts_child_sasc sh c par anal body hr hcb
  split <;> exact h

#print axioms rebuildInsts_sasc_all
#print axioms rebuildInsts_child_sasc

end OptProof
end Hpbf
