/-
Chain, totality, part 2: the JIT statements with the discharged hypotheses removed, and the headline theorem
`level0_all_backends`.

`JitRange sz p limited safe cfg buf0 rsp0 ra budget env` is what remains of `JitHyps` for `p = translate blk 11
false` once `compileX86 … = some code` (`C03.translate_compile_of_localOk`) and `BcWf.check p 11 = true`
(`C02.translateE_check`) are theorems; the code is `jitCode p limited safe cfg`, THE value `compileX86` returns.
-/
import Hpbf.Proofs.ChainTotal
import Hpbf.Proofs.ChainJit
import Hpbf.Props.C03Total

namespace Hpbf
namespace Chain

open Asm JitGen X86Sem X86Prog C03 BcGen

variable {w : Nat}

/-! ### 3. the JIT -/

/-- The machine code `compile_program` produces (`[]` if it produced none – excluded by `jitCode_spec`). -/
def jitCode (p : Bc.Program w) (limited safe : Bool) (cfg : X86Prog.Cfg) : List X86 :=
  (compileX86 w p limited safe cfg.aE.toNat cfg.aI.toNat cfg.aO.toNat).getD []

/-- The genuine range hypotheses.
* `width`   – the cell width is one the JIT supports (8, 16, 32, 64 bits), `sz` its operand size;
* `fetch`   – the machine decodes the generated code;
* `small`   – the code is shorter than `2^31` bytes (`rel32` displacements do not wrap);
* `addr*`   – the three runtime entry points (`extend`, `input`, `output`) have distinct addresses;
* `win`     – the access window lies strictly inside `i32`; `dispMin`/`dispMax` – `bytes * minAcc`,
              `bytes * maxAcc` are `i32`s; `dispNeg` – (bounds-checked code) so are their negations (the probe);
* `temps`   – the frame (`8 *` aligned number of temporaries) is an `i32`;
* `shift`   – `bytes * shift` of every `mov` is an `i32`;
* `rsp`     – stack alignment at entry (`rsp ≡ 8 mod 16`, as after a `call`);
* `budgetLt`, `lim` – the budget is a `u64`; not (limited with budget 0);
* `noOOM`   – (bounds-checked code) the tape allocation stays below `2^40` cells in every reached state. -/
structure JitRange (sz : Size) (p : Bc.Program w) (limited safe : Bool) (cfg : X86Prog.Cfg)
    (buf0 rsp0 ra : BitVec 64) (budget : Nat) (env : Env) : Prop where
  width : Size.ofBits? w = some sz
  fetch : cfg.fetch = fetchFast (fetchTable (jitCode p limited safe cfg))
  small : sizeAll (jitCode p limited safe cfg) < 2 ^ 31
  addrIO : cfg.aI ≠ cfg.aO
  addrEI : cfg.aE ≠ cfg.aI
  addrEO : cfg.aE ≠ cfg.aO
  win : -2147483648 < p.minAcc ∧ p.maxAcc < 2147483648
  dispMin : DispOk sz p.minAcc
  dispMax : DispOk sz p.maxAcc
  dispNeg : safe = true → DispOk sz (-p.minAcc) ∧ DispOk sz (-p.maxAcc)
  temps : alignedTemps p.temps * 8 < 2147483648
  shift : ∀ (i : Nat) (sh : Int), p.insts[i]? = some (Bc.Instr.mov sh) → DispOk sz sh
  rsp : rsp0.toNat % 16 = 8
  budgetLt : budget < 2 ^ 64
  lim : (limited && budget == 0) = false
  noOOM : safe = true → ∀ n s',
    steps cfg n (initState (w := w) cfg buf0 rsp0 ra p.minAcc p.maxAcc budget env) = some s' → Bnd s'

theorem dispOk_i32 {sz : Size} {x : Int} (h : DispOk sz x) : -2147483648 ≤ x ∧ x < 2147483648 := by
  unfold DispOk at h
  cases sz <;> simp only [Size.bytes] at h <;> omega

theorem le_alignedTemps (t : Nat) : t ≤ alignedTemps t := by
  unfold alignedTemps; split <;> omega

section
variable {blk : Ir.Block w} {p : Bc.Program w} {sz : Size} {limited safe : Bool} {cfg : X86Prog.Cfg}
  {buf0 rsp0 ra : BitVec 64} {budget : Nat} {env : Env}

/-- Compilation of `translate` output succeeds under the range hypotheses: `jitCode` is the compiled code. -/
theorem jitCode_spec (ht : translateE blk 11 false = .ok p)
    (R : JitRange sz p limited safe cfg buf0 rsp0 ra budget env) :
    compileX86 w p limited safe cfg.aE.toNat cfg.aI.toNat cfg.aO.toNat = some (jitCode p limited safe cfg) := by
  have htemps : 8 * p.temps < 2147483648 := by
    have := le_alignedTemps p.temps
    have := R.temps
    omega
  obtain ⟨code, hc⟩ := translate_compile_of_localOk ht (C02.translateE_localOk ht) limited safe
    cfg.aE.toNat cfg.aI.toNat cfg.aO.toNat R.width R.dispMin R.dispMax htemps R.shift R.dispNeg
  unfold jitCode
  rw [hc]; rfl

/-- **`JitRange` gives all hypotheses of `C03.prog_run`.** -/
theorem jitHyps_of_range (ht : translateE blk 11 false = .ok p)
    (R : JitRange sz p limited safe cfg buf0 rsp0 ra budget env) :
    JitHyps p limited safe cfg (jitCode p limited safe cfg) buf0 rsp0 ra budget env :=
  { comp := jitCode_spec ht R, fetch := R.fetch, small := R.small, addrIO := R.addrIO, addrEI := R.addrEI,
    addrEO := R.addrEO, check := C02.translateE_check ht, win := R.win, temps := R.temps,
    shift := fun i sh h => dispOk_i32 (R.shift i sh h), rsp := R.rsp, budgetLt := R.budgetLt, lim := R.lim,
    noOOM := R.noOOM }

end

section Level0
variable (hw : 0 < w) {src : List Kind} {prog : Prog} (hp : Bf.tree src = some prog)
  {blk : Ir.Block w} (hb : Ir.parse (w := w) src = .ok blk)
  {sz : Size} {safe : Bool} {cfg : X86Prog.Cfg} {buf0 rsp0 ra : BitVec 64} (env : Env)
include hw hp hb

/-- **Forward** (unlimited mode). -/
theorem jit_level0_forward_unconditional
    (R : JitRange sz (translate blk 11 false) false safe cfg buf0 rsp0 ra 0 env) :
    let p := translate blk 11 false
    let s0 : PState w := initState cfg buf0 rsp0 ra p.minAcc p.maxAcc 0 env
    (∀ f (s : State w), Bf.run f prog env = .done s →
      ∃ n s', X86Prog.run cfg n s0 = .ret s' ∧ s'.regs.rax = 1 ∧ s'.trace = s.trace) ∧
    (∀ f (s : State w), Bf.run f prog env = .stopped s →
      ∃ n s', X86Prog.run cfg n s0 = .ret s' ∧ s'.regs.rax = 0 ∧ s'.trace = s.trace) :=
  jit_level0_forward hw hp hb (translate_ok blk 11 false) env (jitHyps_of_range (translate_ok blk 11 false) R)

/-- **Uniqueness.** -/
theorem jit_level0_unique_unconditional
    (R : JitRange sz (translate blk 11 false) false safe cfg buf0 rsp0 ra 0 env) :
    let p := translate blk 11 false
    let s0 : PState w := initState cfg buf0 rsp0 ra p.minAcc p.maxAcc 0 env
    (∀ f (s : State w), Bf.run f prog env = .done s →
      ∀ n s', X86Prog.run cfg n s0 = .ret s' → s'.regs.rax = 1 ∧ s'.trace = s.trace) ∧
    (∀ f (s : State w), Bf.run f prog env = .stopped s →
      ∀ n s', X86Prog.run cfg n s0 = .ret s' → s'.regs.rax = 0 ∧ s'.trace = s.trace) :=
  jit_level0_unique hw hp hb (translate_ok blk 11 false) env (jitHyps_of_range (translate_ok blk 11 false) R)

/-- **Prefix.** -/
theorem jit_level0_prefix_unconditional
    (R : JitRange sz (translate blk 11 false) false safe cfg buf0 rsp0 ra 0 env) :
    let p := translate blk 11 false
    let s0 : PState w := initState cfg buf0 rsp0 ra p.minAcc p.maxAcc 0 env
    ∀ f, ∃ n s', (steps cfg n s0 = some s' ∨ X86Prog.run cfg n s0 = .ret s') ∧
      s'.trace = C01.traceOfBf (Bf.run (w := w) f prog env) :=
  jit_level0_prefix hw hp hb (translate_ok blk 11 false) env (jitHyps_of_range (translate_ok blk 11 false) R)

/-- **Divergence.** -/
theorem jit_level0_divergent_unconditional
    (R : JitRange sz (translate blk 11 false) false safe cfg buf0 rsp0 ra 0 env)
    (hdiv : C05.BfDiverges w prog env) :
    let p := translate blk 11 false
    let s0 : PState w := initState cfg buf0 rsp0 ra p.minAcc p.maxAcc 0 env
    ∀ f, ∃ n s', steps cfg n s0 = some s' ∧ s'.trace = C01.traceOfBf (Bf.run (w := w) f prog env) :=
  jit_level0_divergent hw hp hb (translate_ok blk 11 false) env
    (jitHyps_of_range (translate_ok blk 11 false) R) hdiv

/-- **Limited mode.** -/
theorem jit_level0_limited_unconditional {b : Nat}
    (R : JitRange sz (translate blk 11 false) true safe cfg buf0 rsp0 ra b env) :
    let p := translate blk 11 false
    let s0 : PState w := initState cfg buf0 rsp0 ra p.minAcc p.maxAcc b env
    ∃ n s', X86Prog.run cfg n s0 = .ret s' ∧
      (∀ n2 s2, X86Prog.run cfg n2 s0 = .ret s2 → s2 = s') ∧
      (s'.regs.rax = 1 ∨ s'.regs.rax = 0) ∧
      (s'.regs.rax = 1 → ∃ (f : Nat) (s : State w), Bf.run f prog env = .done s ∧ s.trace = s'.trace) ∧
      (∃ f, ∀ g, f ≤ g → s'.trace <:+ C01.traceOfBf (Bf.run (w := w) g prog env)) :=
  jit_level0_limited hw hp hb (translate_ok blk 11 false) env (jitHyps_of_range (translate_ok blk 11 false) R)

/-- **Limited mode, enough budget.** -/
theorem jit_level0_limited_enough_unconditional :
    let p := translate blk 11 false
    (∀ f (s : State w), Bf.run f prog env = .done s → ∃ g, ∀ b, g ≤ b →
      JitRange sz p true safe cfg buf0 rsp0 ra b env →
      ∃ n s', X86Prog.run cfg n (initState (w := w) cfg buf0 rsp0 ra p.minAcc p.maxAcc b env) = .ret s' ∧
        s'.regs.rax = 1 ∧ s'.trace = s.trace) ∧
    (∀ f (s : State w), Bf.run f prog env = .stopped s → ∃ g, ∀ b, g ≤ b →
      JitRange sz p true safe cfg buf0 rsp0 ra b env →
      ∃ n s', X86Prog.run cfg n (initState (w := w) cfg buf0 rsp0 ra p.minAcc p.maxAcc b env) = .ret s' ∧
        s'.regs.rax = 0 ∧ s'.trace = s.trace) := by
  intro p
  have ht := translate_ok blk 11 false
  constructor
  · intro f s hs
    obtain ⟨g, hg⟩ := (bc_limited_enough hw hp hb ht env).1 f s hs
    refine ⟨g, fun b hgb R => ?_⟩
    obtain ⟨f', c', hc', htr⟩ := hg b hgb
    have := jit_of_bc (jitHyps_of_range ht R) f'
    simp only [hc'] at this
    obtain ⟨n, s', h1, h2, h3, _⟩ := this
    exact ⟨n, s', h1, h2, h3.trans htr⟩
  · intro f s hs
    obtain ⟨g, hg⟩ := (bc_limited_enough hw hp hb ht env).2 f s hs
    refine ⟨g, fun b hgb R => ?_⟩
    obtain ⟨f', c', hc', htr⟩ := hg b hgb
    have := jit_of_bc (jitHyps_of_range ht R) f'
    simp only [hc'] at this
    obtain ⟨n, s', h1, h2, h3, _⟩ := this
    exact ⟨n, s', h1, h2, h3.trans htr⟩

end Level0

/-! ### 4. all backends -/

/-- The result of a run that has finished: `(true, events)` – ran off the end of the program; `(false, events)`
– stopped at a failing I/O operation; `none` – not finished with that fuel (or, for the backends, interrupted /
an error outcome).  Events most recent first. -/
abbrev Fin := Option (Bool × List Ev)

def finBf : Bf.Outcome w → Fin
  | .done s => some (true, s.trace)
  | .stopped s => some (false, s.trace)
  | .outOfFuel _ => none

def finInplace : Inplace.Outcome w → Fin
  | .finished c => some (true, c.st.trace)
  | .stopped c => some (false, c.st.trace)
  | _ => none

def finIr : Ir.Outcome w → Fin
  | .done c => some (true, c.st.trace)
  | .stopped c => some (false, c.st.trace)
  | _ => none

def finBc : Bc.Outcome w → Fin
  | .done c => some (true, c.st.trace)
  | .stopped c => some (false, c.st.trace)
  | _ => none

/-- The compiled function has returned: `rax = 1` reads as "ran off the end". -/
def finX86 : X86Prog.Outcome w → Fin
  | .ret s => some (s.regs.rax == 1, s.trace)
  | _ => none

/-- Two machines (fuel ↦ result) have the same finished results: each terminates iff the other does, with the
same kind of ending and the same events. -/
def SameResults (A B : Nat → Fin) : Prop := ∀ r, (∃ f, A f = some r) ↔ (∃ f, B f = some r)

theorem finBf_some {o : Bf.Outcome w} {r : Bool × List Ev} (h : finBf o = some r) :
    (∃ s, o = .done s ∧ r = (true, s.trace)) ∨ (∃ s, o = .stopped s ∧ r = (false, s.trace)) := by
  cases o <;> simp only [finBf, Option.some.injEq] at h
  · exact Or.inl ⟨_, rfl, h.symm⟩
  · exact Or.inr ⟨_, rfl, h.symm⟩
  · cases h

theorem finBc_some {o : Bc.Outcome w} {r : Bool × List Ev} (h : finBc o = some r) :
    (∃ c, o = .done c ∧ r = (true, c.st.trace)) ∨ (∃ c, o = .stopped c ∧ r = (false, c.st.trace)) := by
  cases o <;> simp only [finBc, Option.some.injEq] at h
  · exact Or.inl ⟨_, rfl, h.symm⟩
  · exact Or.inr ⟨_, rfl, h.symm⟩
  all_goals cases h

theorem finIr_some {o : Ir.Outcome w} {r : Bool × List Ev} (h : finIr o = some r) :
    (∃ c, o = .done c ∧ r = (true, c.st.trace)) ∨ (∃ c, o = .stopped c ∧ r = (false, c.st.trace)) := by
  cases o <;> simp only [finIr, Option.some.injEq] at h
  · exact Or.inl ⟨_, rfl, h.symm⟩
  · exact Or.inr ⟨_, rfl, h.symm⟩
  all_goals cases h

theorem finInplace_some {o : Inplace.Outcome w} {r : Bool × List Ev} (h : finInplace o = some r) :
    (∃ c, o = .finished c ∧ r = (true, c.st.trace)) ∨ (∃ c, o = .stopped c ∧ r = (false, c.st.trace)) := by
  cases o <;> simp only [finInplace, Option.some.injEq] at h
  · exact Or.inl ⟨_, rfl, h.symm⟩
  · exact Or.inr ⟨_, rfl, h.symm⟩
  all_goals cases h

section All
variable (hw : 0 < w) (code : Array Kind) {prog : Prog} (hp : Bf.tree code.toList = some prog) (env : Env)
include hp

/-- canonical ≡ in-place interpreter (C04). -/
theorem same_inplace (b : Nat) :
    SameResults (fun f => finBf (Bf.run (w := w) f prog env))
      (fun f => finInplace (Inplace.run (w := w) code false b f env)) := by
  intro r
  constructor
  · rintro ⟨f, hf⟩
    rcases finBf_some hf with ⟨s, hs, rfl⟩ | ⟨s, hs, rfl⟩
    · obtain ⟨f', c, hc, hst⟩ := C04.inplace_forward code prog hp env b f s hs
      exact ⟨f', by simp only [hc, finInplace, hst]⟩
    · obtain ⟨f', c, hc, hst⟩ := C04.inplace_forward_stopped code prog hp env b f s hs
      exact ⟨f', by simp only [hc, finInplace, hst]⟩
  · rintro ⟨f', hf'⟩
    rcases finInplace_some hf' with ⟨c, hc, rfl⟩ | ⟨c, hc, rfl⟩
    · obtain ⟨f, hf⟩ := C04.inplace_backward code prog hp env b f' c hc
      exact ⟨f, by simp only [hf, finBf]⟩
    · obtain ⟨f, hf⟩ := C04.inplace_backward_stopped code prog hp env b f' c hc
      exact ⟨f, by simp only [hf, finBf]⟩

include hw

/-- canonical ≡ IR interpreter on the parser's output (C01). -/
theorem same_ir :
    SameResults (fun f => finBf (Bf.run (w := w) f prog env))
      (fun f => finIr (Ir.run (irOf w code.toList) false 0 f env)) := by
  have hb := parse_irOf (w := w) hp
  intro r
  constructor
  · rintro ⟨f, hf⟩
    rcases finBf_some hf with ⟨s, hs, rfl⟩ | ⟨s, hs, rfl⟩
    · obtain ⟨f', c, hc, htr⟩ := (C01.parse_forward hw hp hb env).1 f s hs
      exact ⟨f', by simp only [hc, finIr, htr]⟩
    · obtain ⟨f', c, hc, htr⟩ := (C01.parse_forward hw hp hb env).2 f s hs
      exact ⟨f', by simp only [hc, finIr, htr]⟩
  · rintro ⟨f', hf'⟩
    rcases finIr_some hf' with ⟨c, hc, rfl⟩ | ⟨c, hc, rfl⟩
    · obtain ⟨f, s, hs, htr⟩ := (C01.parse_backward hw hp hb env).1 f' c hc
      exact ⟨f, by simp only [hs, finBf, htr]⟩
    · obtain ⟨f, s, hs, htr⟩ := (C01.parse_backward hw hp hb env).2 f' c hc
      exact ⟨f, by simp only [hs, finBf, htr]⟩

/-- canonical ≡ bytecode interpreter on `translate (parse src)`, release dispatch. -/
theorem same_bc (numRegs : Nat) (fuse : Bool) :
    SameResults (fun f => finBf (Bf.run (w := w) f prog env))
      (fun f => finBc (Bc.run (translate (irOf w code.toList) numRegs fuse) false 0 f env)) := by
  have hb := parse_irOf (w := w) hp
  have H := bytecode_level0_unconditional hw hp hb numRegs fuse env
  intro r
  constructor
  · rintro ⟨f, hf⟩
    rcases finBf_some hf with ⟨s, hs, rfl⟩ | ⟨s, hs, rfl⟩
    · obtain ⟨f', c, hc, htr⟩ := H.1.1 f s hs
      exact ⟨f', by simp only [hc, finBc, htr]⟩
    · obtain ⟨f', c, hc, htr⟩ := H.1.2 f s hs
      exact ⟨f', by simp only [hc, finBc, htr]⟩
  · rintro ⟨f', hf'⟩
    rcases finBc_some hf' with ⟨c, hc, rfl⟩ | ⟨c, hc, rfl⟩
    · obtain ⟨f, s, hs, htr⟩ := H.2.1.1 f' c hc
      exact ⟨f, by simp only [hs, finBf, htr]⟩
    · obtain ⟨f, s, hs, htr⟩ := H.2.1.2 f' c hc
      exact ⟨f, by simp only [hs, finBf, htr]⟩

/-- … and debug dispatch. -/
theorem same_bc_debug (numRegs : Nat) (fuse : Bool) :
    SameResults (fun f => finBf (Bf.run (w := w) f prog env))
      (fun f => finBc (C02.runDebug (translate (irOf w code.toList) numRegs fuse) false 0 f env)) := by
  simp only [C02.runDebug_eq_run]
  exact same_bc hw code hp env numRegs fuse

/-- canonical ⇒ machine code, unlimited mode. -/
theorem jit_forward_fin {sz : Size} {safe : Bool} {cfg : X86Prog.Cfg} {buf0 rsp0 ra : BitVec 64}
    (R : JitRange sz (translate (irOf w code.toList) 11 false) false safe cfg buf0 rsp0 ra 0 env)
    (r : Bool × List Ev) (hr : ∃ f, finBf (Bf.run (w := w) f prog env) = some r) :
    ∃ n, finX86 (X86Prog.run cfg n (initState (w := w) cfg buf0 rsp0 ra
      (translate (irOf w code.toList) 11 false).minAcc (translate (irOf w code.toList) 11 false).maxAcc 0 env))
      = some r := by
  have hb := parse_irOf (w := w) hp
  have F := jit_level0_forward_unconditional hw hp hb env R
  obtain ⟨f, hf⟩ := hr
  rcases finBf_some hf with ⟨s, hs, rfl⟩ | ⟨s, hs, rfl⟩
  · obtain ⟨n, s', h1, h2, h3⟩ := F.1 f s hs
    refine ⟨n, ?_⟩
    rw [h1]
    simp only [finX86, h2, h3, beq_self_eq_true]
  · obtain ⟨n, s', h1, h2, h3⟩ := F.2 f s hs
    refine ⟨n, ?_⟩
    rw [h1]
    have : ((0 : BitVec 64) == 1) = false := by decide
    simp only [finX86, h2, h3, this]

/-- machine code ⇒ canonical, limited mode. -/
theorem jit_limited_fin {sz : Size} {safe : Bool} {cfg : X86Prog.Cfg} {buf0 rsp0 ra : BitVec 64} {b : Nat}
    (R : JitRange sz (translate (irOf w code.toList) 11 false) true safe cfg buf0 rsp0 ra b env) :
    ∃ n r, finX86 (X86Prog.run cfg n (initState (w := w) cfg buf0 rsp0 ra
        (translate (irOf w code.toList) 11 false).minAcc (translate (irOf w code.toList) 11 false).maxAcc b env))
        = some r ∧
      (r.1 = true → ∃ f, finBf (Bf.run (w := w) f prog env) = some r) ∧
      ∃ f, ∀ g, f ≤ g → r.2 <:+ C01.traceOfBf (Bf.run (w := w) g prog env) := by
  have hb := parse_irOf (w := w) hp
  obtain ⟨n, s', h1, _, _, h4, h5⟩ := jit_level0_limited_unconditional hw hp hb env R
  refine ⟨n, (s'.regs.rax == 1, s'.trace), by rw [h1]; rfl, ?_, h5⟩
  intro hrax
  have hrax' : s'.regs.rax = 1 := by simpa using hrax
  obtain ⟨f, s, hs, htr⟩ := h4 hrax'
  exact ⟨f, by simp only [hs, finBf, htr, hrax', beq_self_eq_true]⟩

end All

/-- **Level 0, all backends.**  For every balanced source text `code` (bracket tree `prog`), every cell width
`w ≥ 1` and every environment `env` (input replies incl. EOF and errors, absent source, absent or refusing sink),
with `canon f` the result of the canonical Brainfuck run with fuel `f` (`some (true, events)`: ran off the end;
`some (false, events)`: stopped at a failing I/O operation; `none`: still running):

1. the in-place interpreter on the text,
2. the IR interpreter on `Program::parse`'s output,
3. the bytecode interpreter (tail-called dispatch) on `translate (parse …)`, any register count, fusion on/off,
4. the same with the trampolined dispatch of debug builds,

each terminate exactly when the canonical run does, with the same kind of ending and the same events
(`SameResults`); and for the x86-64 code the baseline JIT generates for `translate (parse …) 11 false`, under the
range hypotheses `JitRange` (operands inside `i32`, code < 2^31 bytes, distinct runtime addresses, aligned stack,
no allocation beyond 2^40 cells):

5. (unlimited) whenever the canonical run terminates, the compiled function returns with that ending and those
   events;
6. (limited, any budget) the compiled function returns; if it reports "finished" (`rax = 1`) the canonical run
   ran off the end with exactly those events; in every case its events are an initial part of the canonical
   event sequence.

No hypothesis on the generator remains: it is total (`C02.translateE_total`), its output passes the contract
checker (`C02.translateE_check`) and is compiled by the JIT's selector (`C03.translate_compile_of_localOk`). -/
theorem level0_all_backends (hw : 0 < w) (code : Array Kind) (prog : Prog)
    (hp : Bf.tree code.toList = some prog) (numRegs : Nat) (fuse : Bool) (env : Env) :
    let canon : Nat → Fin := fun f => finBf (Bf.run (w := w) f prog env)
    let blk : Ir.Block w := irOf w code.toList
    let p : Bc.Program w := translate blk numRegs fuse
    let pj : Bc.Program w := translate blk 11 false
    SameResults canon (fun f => finInplace (Inplace.run (w := w) code false 0 f env)) ∧
    SameResults canon (fun f => finIr (Ir.run blk false 0 f env)) ∧
    SameResults canon (fun f => finBc (Bc.run p false 0 f env)) ∧
    SameResults canon (fun f => finBc (C02.runDebug p false 0 f env)) ∧
    (∀ (sz : Size) (safe : Bool) (cfg : X86Prog.Cfg) (buf0 rsp0 ra : BitVec 64),
      JitRange sz pj false safe cfg buf0 rsp0 ra 0 env →
      ∀ r, (∃ f, canon f = some r) →
        ∃ n, finX86 (X86Prog.run cfg n (initState (w := w) cfg buf0 rsp0 ra pj.minAcc pj.maxAcc 0 env)) = some r) ∧
    (∀ (sz : Size) (safe : Bool) (cfg : X86Prog.Cfg) (buf0 rsp0 ra : BitVec 64) (b : Nat),
      JitRange sz pj true safe cfg buf0 rsp0 ra b env →
      ∃ n r, finX86 (X86Prog.run cfg n (initState (w := w) cfg buf0 rsp0 ra pj.minAcc pj.maxAcc b env)) = some r ∧
        (r.1 = true → ∃ f, canon f = some r) ∧
        ∃ f, ∀ g, f ≤ g → r.2 <:+ C01.traceOfBf (Bf.run (w := w) g prog env)) := by
  intro canon blk p pj
  exact ⟨same_inplace code hp env 0, same_ir hw code hp env, same_bc hw code hp env numRegs fuse,
    same_bc_debug hw code hp env numRegs fuse,
    fun sz safe cfg buf0 rsp0 ra R r hr => jit_forward_fin hw code hp env R r hr,
    fun sz safe cfg buf0 rsp0 ra b R => jit_limited_fin hw code hp env R⟩

end Chain
end Hpbf
