/-
FINDING F13 (a miscompile of `Program::optimize` at levels 2 and 3, found through the proof of the rebuild rounds;
confirmed on the real binary from Brainfuck source, `/verif/work/optloop/f13.bf`), on record as kernel-checked facts
about the model `Hpbf/Opt.lean`.

MECHANISM.  Cells `c=0 a=1 b=2 x=3 z=4 y=5 q=6 d=7 w=8 t=9`.  The top state knows `x = 5`, `a = b = 2`.
Round 1 (no previous analysis) on the loop `L = loop x0 { … }`:
* the last store to `x` in the body of `L`, `x3 := 1 + x1 + x2`, is emitted only because of the EXPLOSION CHECK of
  `perform_all` (the following calculation multiplies `x3`); nothing reads it afterwards;
* `x6 := 1 + x3`, pending at the end of the body, puts `x3` among the variables `constants_among` looks at; the
  parent's `compare (var x3) (1 + x1 + x2)` succeeds, so `x3` is "constant": it is NOT in `clobbered` of the node of `L`;
  `x6 := 1 + x3` is then moved behind the loop as `x6 := 6`;
* `x3` is not in `reads` of the node either: the nested loop `L0` (surely entered) writes it first.
The claim of the node ("`x3` has its loop-entry value at every head of `L`") is TRUE for round 1's own output
(`f13_check_before_dse`).  Dead store elimination then deletes the explosion store (last store, unread, not in `reads`,
dead behind the loop), after which the claim is FALSE (`f13_check_after_dse`: at the second head `x3 = 7`), while the
program still behaves like the source (`f13_dse_trace`).  Round 2 trusts the stale node: the store `x3 := 1 + x1 + x2`
inside `L0`, pending and complete at the end of `L0`'s body, is compared with `var x3` THROUGH the node of `L`
(`can_ask_parent_for`: not clobbered), the top state answers `5`, the store is judged constant and dropped, and the
`out x3` behind `L0` prints the stale `7` in the second round of `L` (`f13_miscompile`).
-/
import Hpbf.Proofs.OptRbEx
import Hpbf.OptCheck

namespace Hpbf
namespace OptProof
namespace F13
open Opt Ir

/-- The IR-level witness (canonical right-hand sides). -/
def f13Src : Block 8 :=
  { shift := 0,
    insts := [
      .calc [(1, [⟨2#8, []⟩])], .calc [(2, [⟨2#8, []⟩])], .calc [(3, [⟨5#8, []⟩])],
      .output 3, .input 4, .input 0,
      .loop 0 0 [
        .calc [(7, [⟨3#8, []⟩])],
        .loop 7 0 [
          .calc [(3, [⟨1#8, []⟩, ⟨1#8, [1]⟩, ⟨1#8, [2]⟩])],
          .calc [(9, [⟨1#8, [3, 4]⟩, ⟨1#8, [9]⟩])],
          .calc [(9, [])],
          .output 8,
          .calc [(7, [⟨0xff#8, []⟩, ⟨1#8, [7]⟩])]] false,
        .output 3,
        .calc [(3, [⟨7#8, []⟩])],
        .output 3,
        .calc [(3, [⟨1#8, []⟩, ⟨1#8, [1]⟩, ⟨1#8, [2]⟩])],
        .calc [(5, [⟨1#8, [3, 4]⟩, ⟨1#8, [5]⟩])],
        .calc [(5, [])],
        .calc [(6, [⟨1#8, []⟩, ⟨1#8, [3]⟩])],
        .calc [(0, [⟨0xff#8, []⟩, ⟨1#8, [0]⟩])]] false] }

/-- What `optimize` makes of it at level 2 (no oracle entries are needed). -/
def f13Out : Block 8 :=
  { shift := 0,
    insts := [
      .calc [(3, [⟨5#8, []⟩])], .output 3, .input 4, .input 0,
      .ifnz 0 0 [
        .loop 0 0 [
          .calc [(7, [⟨3#8, []⟩])],
          .loop 7 0 [.output 8, .calc [(7, [⟨0xff#8, []⟩, ⟨1#8, [7]⟩])]] true,
          .output 3,
          .calc [(3, [⟨7#8, []⟩])],
          .output 3,
          .calc [(0, [⟨0xff#8, []⟩, ⟨1#8, [0]⟩])]] false]] }

def f13Orders : Orders := []

/-- Input: `z = 3`, `c = 2` (two rounds of the outer loop). -/
def f13Env : Env := { input := some [.byte 3, .byte 2], sink := true, outOk := none }

/-- The events of a run that ends regularly. -/
def doneTrace {w : Nat} : Outcome w → Option (List Ev)
  | .done c => some c.st.trace
  | _ => none

theorem doneTrace_some {w : Nat} {o : Outcome w} {t : List Ev} (h : doneTrace o = some t) :
    ∃ c, o = .done c ∧ c.st.trace = t := by
  cases o with
  | done c => exact ⟨c, rfl, by simpa [doneTrace] using h⟩
  | stopped c => cases h
  | interrupted c => cases h
  | outOfFuel c => cases h

/-- The events of the source (most recent first): `5`; per round of `L`: `0 0 0 5 7`. -/
def srcTrace : List Ev :=
  [.out 7, .out 5, .out 0, .out 0, .out 0, .out 7, .out 5, .out 0, .out 0, .out 0, .inp 2, .inp 3, .out 5]

/-- The events of the optimized program: in the second round `out x3` prints `7`. -/
def outTrace : List Ev :=
  [.out 7, .out 7, .out 0, .out 0, .out 0, .out 7, .out 5, .out 0, .out 0, .out 0, .inp 2, .inp 3, .out 5]

theorem f13_optimize : Opt.optimize f13Src 2 f13Orders = .ok f13Out :=
  optimize_of_check (by decide +kernel)

theorem f13_src_trace : doneTrace (Ir.run f13Src false 0 400 f13Env) = some srcTrace := by decide +kernel

theorem f13_out_trace : doneTrace (Ir.run f13Out false 0 400 f13Env) = some outTrace := by decide +kernel

/-- **F13**: `optimize` at level 2 changes the observable behaviour of a terminating program. -/
theorem f13_miscompile : ∃ (b b' : Block 8) (orders : Orders) (env : Env) (c c' : Cfg 8),
    Opt.optimize b 2 orders = .ok b' ∧
    Ir.run b false 0 400 env = .done c ∧ Ir.run b' false 0 400 env = .done c' ∧
    c.st.trace ≠ c'.st.trace := by
  obtain ⟨c, h1, t1⟩ := doneTrace_some f13_src_trace
  obtain ⟨c', h2, t2⟩ := doneTrace_some f13_out_trace
  refine ⟨f13Src, f13Out, f13Orders, f13Env, c, c', f13_optimize, h1, h2, ?_⟩
  rw [t1, t2]
  decide

/-- The executable hypothesis of the all-levels theorems correctly FAILS on this program. -/
theorem f13_check_false : OptCheck.optimizeCheck 400 f13Src 2 f13Orders f13Env = false := by decide +kernel

/-- Round 1's analysis IS sound for round 1's own output … -/
theorem f13_check_before_dse :
    (match (optimizeOnce f13Src (topAnalysis [] [])).run [] with
     | .ok ((p, a), _) => OptCheck.checkAnalIn 400 p a f13Env
     | .error _ => false) = true := by decide +kernel

/-- … and is falsified by dead store elimination. -/
theorem f13_check_after_dse :
    (match (optimizeOnce f13Src (topAnalysis [] [])).run [] with
     | .ok ((p, a), _) =>
       (match deadStoreElimination p a with
        | .ok p' => OptCheck.checkAnalIn 400 p' a f13Env
        | .error _ => true)
     | .error _ => true) = false := by decide +kernel

/-- Dead store elimination itself preserves the behaviour (the defect is the stale analysis, not the pass). -/
theorem f13_dse_trace :
    (match (optimizeOnce f13Src (topAnalysis [] [])).run [] with
     | .ok ((p, a), _) =>
       (match deadStoreElimination p a with
        | .ok p' => doneTrace (Ir.run p false 0 400 f13Env) == some srcTrace &&
                    doneTrace (Ir.run p' false 0 400 f13Env) == some srcTrace
        | .error _ => false)
     | .error _ => false) = true := by decide +kernel

/-- Level 1 is right on this program. -/
theorem f13_level1 :
    (match Opt.optimize f13Src 1 [] with
     | .ok b' => doneTrace (Ir.run b' false 0 400 f13Env) == some srcTrace
     | .error _ => false) = true := by decide +kernel

/-! ### from Brainfuck source

`/verif/work/optloop/f13_small.bf` (481 characters): `a:=1; b:=1; x:=3; out x; in z; in c;
c[ t:=0; d:=2; d[ t:=0; x:=0; x+=a; x+=b; x++; z0[- t:=0; y0+=x ]; y0:=0; out w; d-- ];
   out x; x:=1; out x; x:=0; x+=a; x+=b; x++; z[- t:=0; y+=x ]; y:=0; q:=0; q+=x; q++; c-- ]`
(copies through the temporary `t`; the products `y0 += z0*x`, `y += z*x` come from the loop motion of round 1 and trigger
the explosion check).  The real binary prints `03 00 00 03 01 00 00 01 01` at `-O2`/`-O3` instead of
`03 00 00 03 01 00 00 03 01`. -/

def f13Bf : List Kind := [
    .right, .inc, .right, .inc, .right, .inc, .inc, .inc, .out, .right, .inp, .left, .left, .left, .left, .inp,
    .open, .right, .right, .right, .right, .right, .right, .right, .right, .right, .open, .dec, .close, .left, .left, .open,
    .dec, .close, .inc, .inc, .open, .right, .right, .open, .dec, .close, .left, .left, .left, .left, .left, .left,
    .open, .dec, .close, .left, .left, .open, .dec, .right, .right, .inc, .right, .right, .right, .right, .right, .right,
    .inc, .left, .left, .left, .left, .left, .left, .left, .left, .close, .right, .right, .right, .right, .right, .right,
    .right, .right, .open, .dec, .left, .left, .left, .left, .left, .left, .left, .left, .inc, .right, .right, .right,
    .right, .right, .right, .right, .right, .close, .left, .left, .left, .left, .left, .left, .left, .open, .dec, .right,
    .inc, .right, .right, .right, .right, .right, .right, .inc, .left, .left, .left, .left, .left, .left, .left, .close,
    .right, .right, .right, .right, .right, .right, .right, .open, .dec, .left, .left, .left, .left, .left, .left, .left,
    .inc, .right, .right, .right, .right, .right, .right, .right, .close, .left, .left, .left, .left, .left, .left, .inc,
    .right, .right, .right, .right, .right, .right, .right, .right, .open, .dec, .left, .left, .open, .dec, .close, .left,
    .left, .left, .left, .left, .left, .open, .dec, .right, .right, .right, .right, .right, .right, .right, .inc, .left,
    .inc, .left, .left, .left, .left, .left, .left, .close, .right, .right, .right, .right, .right, .right, .open, .dec,
    .left, .left, .left, .left, .left, .left, .inc, .right, .right, .right, .right, .right, .right, .close, .right, .right,
    .close, .left, .open, .dec, .close, .left, .left, .out, .left, .dec, .close, .left, .left, .left, .left, .out,
    .open, .dec, .close, .inc, .out, .open, .dec, .close, .left, .left, .open, .dec, .right, .right, .inc, .right,
    .right, .right, .right, .right, .right, .inc, .left, .left, .left, .left, .left, .left, .left, .left, .close, .right,
    .right, .right, .right, .right, .right, .right, .right, .open, .dec, .left, .left, .left, .left, .left, .left, .left,
    .left, .inc, .right, .right, .right, .right, .right, .right, .right, .right, .close, .left, .left, .left, .left, .left,
    .left, .left, .open, .dec, .right, .inc, .right, .right, .right, .right, .right, .right, .inc, .left, .left, .left,
    .left, .left, .left, .left, .close, .right, .right, .right, .right, .right, .right, .right, .open, .dec, .left, .left,
    .left, .left, .left, .left, .left, .inc, .right, .right, .right, .right, .right, .right, .right, .close, .left, .left,
    .left, .left, .left, .left, .inc, .right, .open, .dec, .right, .right, .right, .right, .right, .open, .dec, .close,
    .left, .left, .left, .left, .left, .left, .open, .dec, .right, .right, .inc, .right, .right, .right, .right, .inc,
    .left, .left, .left, .left, .left, .left, .close, .right, .right, .right, .right, .right, .right, .open, .dec, .left,
    .left, .left, .left, .left, .left, .inc, .right, .right, .right, .right, .right, .right, .close, .left, .left, .left,
    .left, .left, .close, .right, .open, .dec, .close, .right, .open, .dec, .close, .left, .left, .left, .open, .dec,
    .right, .right, .right, .inc, .right, .right, .right, .inc, .left, .left, .left, .left, .left, .left, .close, .right,
    .right, .right, .right, .right, .right, .open, .dec, .left, .left, .left, .left, .left, .left, .inc, .right, .right,
    .right, .right, .right, .right, .close, .left, .left, .left, .inc, .left, .left, .left, .left, .left, .left, .dec,
    .close]

/-- The events of the source: `3`; per round of the outer loop: `0 0 3 1`. -/
def bfSrcTrace : List Ev :=
  [.out 1, .out 3, .out 0, .out 0, .out 1, .out 3, .out 0, .out 0, .inp 2, .inp 3, .out 3]

def bfOutTrace : List Ev :=
  [.out 1, .out 1, .out 0, .out 0, .out 1, .out 3, .out 0, .out 0, .inp 2, .inp 3, .out 3]

/-- Everything at once, as a boolean (kernel-evaluated). -/
def bfCheck : Bool :=
  match Ir.parse (w := 8) f13Bf with
  | .ok b =>
    (match Opt.optimize b 2 [] with
     | .ok b' =>
       doneTrace (Ir.run b false 0 600 f13Env) == some bfSrcTrace &&
       doneTrace (Ir.run b' false 0 600 f13Env) == some bfOutTrace &&
       !OptCheck.optimizeCheck 600 b 2 [] f13Env
     | .error _ => false)
  | .error _ => false

theorem f13_bf_check : bfCheck = true := by decide +kernel

/-- **F13 from Brainfuck source**: the parsed program and its level-2 optimization both terminate on the input `3, 2`
and print different bytes. -/
theorem f13_miscompile_bf : ∃ (b b' : Block 8) (c c' : Cfg 8),
    Ir.parse (w := 8) f13Bf = .ok b ∧ Opt.optimize b 2 [] = .ok b' ∧
    Ir.run b false 0 600 f13Env = .done c ∧ Ir.run b' false 0 600 f13Env = .done c' ∧
    c.st.trace ≠ c'.st.trace := by
  have h := f13_bf_check
  unfold bfCheck at h
  cases hp : Ir.parse (w := 8) f13Bf with
  | error e => rw [hp] at h; cases h
  | ok b =>
    rw [hp] at h
    cases ho : Opt.optimize b 2 [] with
    | error e => simp only [ho] at h; cases h
    | ok b' =>
      simp only [ho, Bool.and_eq_true, beq_iff_eq] at h
      obtain ⟨c, h1, t1⟩ := doneTrace_some h.1.1
      obtain ⟨c', h2, t2⟩ := doneTrace_some h.1.2
      refine ⟨b, b', c, c', rfl, ho, h1, h2, ?_⟩
      rw [t1, t2]
      decide

/-! ### variant F13b: the store in FRONT of the loop is deleted (the explosion store in the loop survives)

Same cells.  The top state knows `x3 = 5`; `L` is surely entered (`x0 := 2`) and its body WRITES `x3` first (the nested,
surely entered `L0` sets `x3 := 252 + x1 + x2 = 0`), prints it, sets it to `7`, prints it, restores `x3 := 1 + x1 + x2 = 5`
and prints it (so this last store is demanded and survives dead store elimination).  Round 1 again records `x3` as constant
(not clobbered, not read) in `L`.  Dead store elimination deletes `x3 := 5` in FRONT of `L` (its own scan sees that the body
of the at-least-once loop overwrites `x3` before reading it).  In round 2 the top state therefore "knows" `x3 = 0`
(untouched cell), the node of `L` lets the body ask for it, the store `x3 := 0` at the end of `L0` is judged constant and
dropped, and in the second round of `L` the `out x3` behind `L0` prints the `5` left by the first round instead of `0`.
Hence putting the constant-but-written cells into the node's `reads` would NOT be a sufficient repair: the claim
"not clobbered" itself has to go (all cells the emitted body writes must be in `clobbered`).
Brainfuck witness `/verif/work/optloop/f13b.bf`: the binary prints `… 00 00 00 05 07 05` at `-O2`/`-O3` instead of
`… 00 00 00 00 07 05`. -/

def f13bSrc : Block 8 :=
  { shift := 0,
    insts := [
      .calc [(1, [⟨2#8, []⟩])], .calc [(2, [⟨2#8, []⟩])], .calc [(3, [⟨5#8, []⟩])],
      .input 4, .calc [(0, [⟨2#8, []⟩])],
      .loop 0 0 [
        .calc [(7, [⟨3#8, []⟩])],
        .loop 7 0 [
          .calc [(3, [⟨252#8, []⟩, ⟨1#8, [1]⟩, ⟨1#8, [2]⟩])],
          .calc [(9, [⟨1#8, [3, 4]⟩, ⟨1#8, [9]⟩])],
          .calc [(9, [])],
          .output 8,
          .calc [(7, [⟨0xff#8, []⟩, ⟨1#8, [7]⟩])]] false,
        .output 3,
        .calc [(3, [⟨7#8, []⟩])],
        .output 3,
        .calc [(3, [⟨1#8, []⟩, ⟨1#8, [1]⟩, ⟨1#8, [2]⟩])],
        .output 3,
        .calc [(6, [⟨1#8, []⟩, ⟨1#8, [3]⟩])],
        .calc [(0, [⟨0xff#8, []⟩, ⟨1#8, [0]⟩])]] false] }

def f13bEnv : Env := { input := some [.byte 3], sink := true, outOk := none }

/-- per round of `L`: `0 0 0` (`out w`), `0`, `7`, `5`. -/
def bSrcTrace : List Ev :=
  [.out 5, .out 7, .out 0, .out 0, .out 0, .out 0, .out 5, .out 7, .out 0, .out 0, .out 0, .out 0, .inp 3]

def bOutTrace : List Ev :=
  [.out 5, .out 7, .out 5, .out 0, .out 0, .out 0, .out 5, .out 7, .out 0, .out 0, .out 0, .out 0, .inp 3]

/-- `x3 := 1 + x1 + x2` occurs as an instruction of the outer loop body. -/
def keepsStore (b : Block 8) : Bool :=
  b.insts.any (fun i => match i with
    | .loop _ _ body _ => body.any (fun j => match j with
        | .calc [(3, e)] => e == [⟨1#8, []⟩, ⟨1#8, [1]⟩, ⟨1#8, [2]⟩]
        | _ => false)
    | _ => false)

def f13bCheck : Bool :=
  match Opt.optimize f13bSrc 2 [] with
  | .ok b' =>
    doneTrace (Ir.run f13bSrc false 0 400 f13bEnv) == some bSrcTrace &&
    doneTrace (Ir.run b' false 0 400 f13bEnv) == some bOutTrace &&
    (match (optimizeOnce f13bSrc (topAnalysis [] [])).run [] with
     | .ok ((p, a), _) =>
       OptCheck.checkAnalIn 400 p a f13bEnv &&
       (match deadStoreElimination p a with
        | .ok p' => keepsStore p' && !OptCheck.checkAnalIn 400 p' a f13bEnv
        | .error _ => false)
     | .error _ => false)
  | .error _ => false

theorem f13b_check : f13bCheck = true := by decide +kernel

/-- **F13b**: a level-2 miscompile in which the restoring store in the loop body survives dead store elimination. -/
theorem f13b_miscompile : ∃ (b' : Block 8) (c c' : Cfg 8),
    Opt.optimize f13bSrc 2 [] = .ok b' ∧
    Ir.run f13bSrc false 0 400 f13bEnv = .done c ∧ Ir.run b' false 0 400 f13bEnv = .done c' ∧
    c.st.trace ≠ c'.st.trace := by
  have h := f13b_check
  unfold f13bCheck at h
  cases ho : Opt.optimize f13bSrc 2 [] with
  | error e => simp only [ho] at h; cases h
  | ok b' =>
    simp only [ho, Bool.and_eq_true, beq_iff_eq] at h
    obtain ⟨c, h1, t1⟩ := doneTrace_some h.1.1
    obtain ⟨c', h2, t2⟩ := doneTrace_some h.1.2
    refine ⟨b', c, c', rfl, h1, h2, ?_⟩
    rw [t1, t2]
    decide

end F13
end OptProof
end Hpbf

#print axioms Hpbf.OptProof.F13.f13_optimize
#print axioms Hpbf.OptProof.F13.f13_miscompile
#print axioms Hpbf.OptProof.F13.f13_check_false
#print axioms Hpbf.OptProof.F13.f13_check_before_dse
#print axioms Hpbf.OptProof.F13.f13_check_after_dse
#print axioms Hpbf.OptProof.F13.f13_dse_trace
#print axioms Hpbf.OptProof.F13.f13_level1
#print axioms Hpbf.OptProof.F13.f13_bf_check
#print axioms Hpbf.OptProof.F13.f13_miscompile_bf
#print axioms Hpbf.OptProof.F13.f13b_check
#print axioms Hpbf.OptProof.F13.f13b_miscompile
