/-
C11 for the output of `allocate_temps`, part 6: the initialisation and liveness clauses survive `strip_noops`.

`strip_noops` removes the `noop`s, moves the instruction at `i` to `pos insts i` and retargets the branches.  A
solution for the program before the pass, restricted to the kept positions (`stripArr`), is a solution after the
pass: the removed instructions neither read nor write temporaries and only fall through.
-/
import Hpbf.Proofs.C11AllocLate
set_option linter.unusedSimpArgs false

namespace Hpbf
namespace C02

open Bc BcWf BcGen C11

variable {w : Nat}

namespace Alloc

/-! ### restricting an array to the kept positions -/

theorem zip_filter_get {α β : Type} (P : β → Bool) :
    ∀ (a : List α) (b : List β) (i : Nat) (x : α) (y : β), a[i]? = some x → b[i]? = some y → P y = true →
      (((a.zip b).filter (fun li => P li.2)).map (·.1))[(b.take i).countP P]? = some x := by
  intro a
  induction a with
  | nil => intro b i x y h; simp at h
  | cons a0 as ih =>
    intro b i x y ha hb hy
    cases b with
    | nil => simp at hb
    | cons b0 bs =>
      cases i with
      | zero =>
        simp only [List.getElem?_cons_zero, Option.some.injEq] at ha hb
        subst ha; subst hb
        simp [hy]
      | succ j =>
        simp only [List.getElem?_cons_succ] at ha hb
        have := ih bs j x y ha hb hy
        by_cases h0 : P b0 = true
        · simp only [List.zip_cons_cons, List.filter_cons, h0, if_true, List.map_cons, List.take_succ_cons,
            List.countP_cons]
          simpa using this
        · simp only [List.zip_cons_cons, List.filter_cons, h0, Bool.false_eq_true, if_false, List.take_succ_cons,
            List.countP_cons]
          simpa using this

/-- The entries of `A` at the positions of the kept instructions of `B`. -/
def stripArr {α : Type} (A : Array α) (B : Array (Instr w)) : Array α :=
  (((A.toList.zip B.toList).filter (fun li => keep li.2)).map (·.1)).toArray

theorem stripArr_size {α : Type} (A : Array α) (B : Array (Instr w)) (h : A.size = B.size) :
    (stripArr A B).size = pos B B.size := by
  unfold stripArr
  simp only [List.size_toArray]
  rw [zip_filter_length keep A.toList B.toList (by simpa using h), pos_size, ← Array.toList_filter,
    Array.length_toList]

theorem stripArr_get {α : Type} (A : Array α) (B : Array (Instr w)) {i : Nat} {a : α} {x : Instr w}
    (ha : A[i]? = some a) (hx : B[i]? = some x) (hk : keep x = true) : (stripArr A B)[pos B i]? = some a := by
  unfold stripArr pos
  rw [List.getElem?_toArray]
  exact zip_filter_get keep A.toList B.toList i a x (by simpa using ha) (by simpa using hx) hk

theorem getD_stripArr (A : Array (List Nat)) (B : Array (Instr w)) (h : A.size = B.size) {i : Nat} {x : Instr w}
    (hx : B[i]? = some x) (hk : keep x = true) : BcWf.getD (stripArr A B) (pos B i) = BcWf.getD A i := by
  have hi : i < A.size := by rw [h]; exact lt_of_getElem? hx
  have ha : A[i]? = some A[i] := Array.getElem?_eq_getElem hi
  unfold BcWf.getD
  rw [stripArr_get A B ha hx hk, ha]

/-! ### positions -/

theorem keep_false_iff {x : Instr w} : keep x = false ↔ x = .noop := by
  cases x <;> simp [keep, isNoop]

/-- Every new position comes from a kept instruction. -/
theorem exists_kept_of_lt_pos (B : Array (Instr w)) {m : Nat} : ∀ k, k ≤ B.size → m < pos B k →
    ∃ i x, i < k ∧ B[i]? = some x ∧ keep x = true ∧ pos B i = m := by
  intro k
  induction k with
  | zero => intro _ h; rw [pos_zero] at h; omega
  | succ k ih =>
    intro hk hm
    have hget : B[k]? = some B[k] := Array.getElem?_eq_getElem (by omega)
    rw [pos_succ hget] at hm
    by_cases h1 : m < pos B k
    · obtain ⟨i, x, g1, g2⟩ := ih (by omega) h1
      exact ⟨i, x, by omega, g2⟩
    · cases hkp : keep B[k] with
      | true => exact ⟨k, B[k], by omega, hget, hkp, by rw [hkp] at hm; simp at hm; omega⟩
      | false => rw [hkp] at hm; simp at hm; omega

/-- The first kept instruction at or after `k`. -/
theorem next_kept (B : Array (Instr w)) : ∀ (d k : Nat), B.size - k ≤ d → pos B k < pos B B.size →
    ∃ j x, k ≤ j ∧ B[j]? = some x ∧ keep x = true ∧ pos B j = pos B k ∧
      ∀ l, k ≤ l → l < j → B[l]? = some .noop := by
  intro d
  induction d with
  | zero =>
    intro k hd h
    have : B.size ≤ k := by omega
    have := pos_mono B this
    omega
  | succ d ih =>
    intro k hd h
    have hk : k < B.size := by
      apply Nat.lt_of_not_le
      intro hle
      have := pos_mono B hle
      omega
    have hget : B[k]? = some B[k] := Array.getElem?_eq_getElem hk
    cases hkp : keep B[k] with
    | true => exact ⟨k, B[k], Nat.le_refl _, hget, hkp, rfl, fun l h1 h2 => by omega⟩
    | false =>
      have hnoop : B[k]? = some .noop := by rw [hget, keep_false_iff.1 hkp]
      have hp : pos B (k + 1) = pos B k := by rw [pos_succ hget, hkp]; simp
      obtain ⟨j, x, g1, g2, g3, g4, g5⟩ := ih (k + 1) (by omega) (by rw [hp]; exact h)
      refine ⟨j, x, by omega, g2, g3, g4.trans hp, ?_⟩
      intro l h1 h2
      by_cases e : l = k
      · subst e; exact hnoop
      · exact g5 l (by omega) h2

/-! ### instructions -/

theorem uses_fixInst (B : Array (Instr w)) (i : Nat) (x : Instr w) : BcWf.uses (fixInst B i x) = BcWf.uses x := by
  cases x <;> rfl
theorem defs_fixInst (B : Array (Instr w)) (i : Nat) (x : Instr w) : BcWf.defs (fixInst B i x) = BcWf.defs x := by
  cases x <;> rfl
theorem isBranch_fixInst (B : Array (Instr w)) (i : Nat) (x : Instr w) :
    isBranch (fixInst B i x) = isBranch x := by
  cases x <;> rfl
theorem liveIn_fixInst (B : Array (Instr w)) (i : Nat) (x : Instr w) (out : List Nat) :
    liveIn (fixInst B i x) out = liveIn x out := by
  unfold liveIn; rw [uses_fixInst, defs_fixInst]

/-- The successors of the moved instruction are the images of the old successors. -/
theorem succs_fixInst {B : Array (Instr w)} (hT : TargetsOk B) {i : Nat} {x : Instr w} (hx : B[i]? = some x)
    (hk : keep x = true) :
    ∃ ss, BcWf.succs B.size i x = some ss ∧
      BcWf.succs (pos B B.size) (pos B i) (fixInst B i x) = some (ss.map (pos B)) := by
  have hp1 : pos B (i + 1) = pos B i + 1 := by rw [pos_succ hx, hk]; rfl
  have key : ∀ (off : Int), 0 ≤ (i : Int) + off → (i : Int) + off ≤ B.size →
      (branchTarget i off B.size).map (fun t => [i + 1, t]) = some [i + 1, ((i : Int) + off).toNat] ∧
      (branchTarget (pos B i) (newOff B i off) (pos B B.size)).map (fun t => [pos B i + 1, t]) =
        some [pos B i + 1, pos B ((i : Int) + off).toNat] := by
    intro off h0 h1
    have hle : ((i : Int) + off).toNat ≤ B.size := by omega
    have hpl := pos_mono B hle
    constructor
    · simp [branchTarget, h0, h1]
    · have e : (pos B i : Int) + newOff B i off = (pos B ((i : Int) + off).toNat : Int) := by
        unfold newOff; omega
      simp only [branchTarget, e]
      have : (0 : Int) ≤ (pos B ((i : Int) + off).toNat : Int) ∧
          (pos B ((i : Int) + off).toNat : Int) ≤ (pos B B.size : Int) := by omega
      simp [this]
  cases x with
  | brz c off =>
    obtain ⟨h0, h1⟩ := hT i _ off hx rfl
    obtain ⟨k1, k2⟩ := key off h0 h1
    exact ⟨_, k1, by simp only [fixInst, BcWf.succs, k2, List.map_cons, List.map_nil, hp1]⟩
  | brnz c off =>
    obtain ⟨h0, h1⟩ := hT i _ off hx rfl
    obtain ⟨k1, k2⟩ := key off h0 h1
    exact ⟨_, k1, by simp only [fixInst, BcWf.succs, k2, List.map_cons, List.map_nil, hp1]⟩
  | noop => exact ⟨_, rfl, by simp only [fixInst, BcWf.succs, List.map_cons, List.map_nil, hp1]⟩
  | scan c sh => exact ⟨_, rfl, by simp only [fixInst, BcWf.succs, List.map_cons, List.map_nil, hp1]⟩
  | mov sh => exact ⟨_, rfl, by simp only [fixInst, BcWf.succs, List.map_cons, List.map_nil, hp1]⟩
  | inp d => exact ⟨_, rfl, by simp only [fixInst, BcWf.succs, List.map_cons, List.map_nil, hp1]⟩
  | out d => exact ⟨_, rfl, by simp only [fixInst, BcWf.succs, List.map_cons, List.map_nil, hp1]⟩
  | add d a b => exact ⟨_, rfl, by simp only [fixInst, BcWf.succs, List.map_cons, List.map_nil, hp1]⟩
  | sub d a b => exact ⟨_, rfl, by simp only [fixInst, BcWf.succs, List.map_cons, List.map_nil, hp1]⟩
  | mul d a b => exact ⟨_, rfl, by simp only [fixInst, BcWf.succs, List.map_cons, List.map_nil, hp1]⟩
  | copy d a => exact ⟨_, rfl, by simp only [fixInst, BcWf.succs, List.map_cons, List.map_nil, hp1]⟩

theorem succs_le {n i : Nat} {x : Instr w} {ss : List Nat} (h : BcWf.succs n i x = some ss) (hi : i < n) :
    ∀ k ∈ ss, k ≤ n := by
  intro k hk
  rcases succs_cases h hk with rfl | ⟨off, _, _, hle⟩
  · omega
  · exact hle

/-! ### through the removed instructions -/

theorem init_chain {p : Program w} {I : Array (List Nat)} (h : InitFacts p I) {k : Nat} :
    ∀ (d j : Nat), j = k + d → (∀ l, k ≤ l → l < j → p.insts[l]? = some .noop) →
      ∀ t ∈ BcWf.getD I j, t ∈ BcWf.getD I k := by
  intro d
  induction d with
  | zero => intro j e _ t ht; subst e; exact ht
  | succ d ih =>
    intro j e hn t ht
    subst e
    have hl : p.insts[k + d]? = some .noop := hn (k + d) (by omega) (by omega)
    obtain ⟨ss, hs, hf⟩ := h.flow hl
    simp only [BcWf.succs, Option.some.injEq] at hs
    subst hs
    rcases hf (k + d + 1) (by simp) t ht with g | g
    · exact ih (k + d) rfl (fun l h1 h2 => hn l h1 (by omega)) t g
    · cases g

theorem live_chain {p : Program w} {numRegs : Nat} {O : Array (List Nat)} (h : LiveFacts p numRegs O) {k : Nat} :
    ∀ (d j : Nat), j = k + d → (∀ l, k ≤ l → l < j → p.insts[l]? = some .noop) →
      ∀ (y xk : Instr w), p.insts[j]? = some y → p.insts[k]? = some xk →
      ∀ t ∈ liveIn y (BcWf.getD O j), t ∈ liveIn xk (BcWf.getD O k) := by
  intro d
  induction d with
  | zero =>
    intro j e _ y xk hy hxk t ht
    subst e
    rw [hy] at hxk; cases hxk
    exact ht
  | succ d ih =>
    intro j e hn y xk hy hxk t ht
    subst e
    have hl : p.insts[k + d]? = some .noop := hn (k + d) (by omega) (by omega)
    obtain ⟨ss, hs, hf⟩ := h.flow hl
    simp only [BcWf.succs, Option.some.injEq] at hs
    subst hs
    have h1 : t ∈ BcWf.getD O (k + d) := hf (k + d + 1) (by simp) y hy t ht
    have h2 : t ∈ liveIn (.noop : Instr w) (BcWf.getD O (k + d)) :=
      mem_liveIn.2 (Or.inr ⟨h1, by simp [BcWf.defs]⟩)
    exact ih (k + d) rfl (fun l g1 g2 => hn l g1 (by omega)) .noop xk hl hxk t h2

/-! ### the transfer -/

/-- `q` is `p` after `strip_noops`: instructions, `live` array; the other fields are arbitrary. -/
structure StripRel (p q : Program w) : Prop where
  stripped : Stripped p.insts q.insts
  targets : TargetsOk p.insts
  live : ∀ (i : Nat) (x : Instr w), p.insts[i]? = some x → keep x = true → q.live[pos p.insts i]? = p.live[i]?

theorem stripRel_inst {p q : Program w} (R : StripRel p q) {m : Nat} {y : Instr w} (hy : q.insts[m]? = some y) :
    ∃ i x, p.insts[i]? = some x ∧ keep x = true ∧ pos p.insts i = m ∧ y = fixInst p.insts i x := by
  have hm : m < pos p.insts p.insts.size := by rw [← R.stripped.size]; exact lt_of_getElem? hy
  obtain ⟨i, x, _, g2, g3, g4⟩ := exists_kept_of_lt_pos p.insts p.insts.size (Nat.le_refl _) hm
  have := R.stripped.get i x g2 g3
  rw [g4, hy] at this
  exact ⟨i, x, g2, g3, g4, Option.some.inj this⟩

theorem initFacts_strip {p q : Program w} (R : StripRel p q) {I : Array (List Nat)} (h : InitFacts p I) :
    InitFacts q (stripArr I p.insts) := by
  have hsz : (stripArr I p.insts).size = q.insts.size := by
    rw [stripArr_size I p.insts h.size, R.stripped.size]
  -- the entry at the image of an old position `k`
  have hpos : ∀ k, pos p.insts k < pos p.insts p.insts.size →
      ∀ t ∈ BcWf.getD (stripArr I p.insts) (pos p.insts k), t ∈ BcWf.getD I k := by
    intro k hk t ht
    obtain ⟨j, x, g1, g2, g3, g4, g5⟩ := next_kept p.insts _ k (Nat.le_refl _) hk
    rw [← g4, getD_stripArr I p.insts h.size g2 g3] at ht
    exact init_chain h (j - k) j (by omega) g5 t ht
  refine ⟨hsz, ?_, ?_, ?_⟩
  · by_cases h0 : 0 < pos p.insts p.insts.size
    · apply List.eq_nil_iff_forall_not_mem.2
      intro t ht
      have := hpos 0 (by rw [pos_zero]; exact h0) t (by rw [pos_zero]; exact ht)
      rw [h.entry] at this; cases this
    · exact getD_oob (by rw [hsz, R.stripped.size]; omega)
  · intro m y hy t ht
    obtain ⟨i, x, g1, g2, g3, rfl⟩ := stripRel_inst R hy
    rw [uses_fixInst] at ht
    rw [← g3, getD_stripArr I p.insts h.size g1 g2]
    exact h.uses g1 t ht
  · intro m y hy
    obtain ⟨i, x, g1, g2, g3, rfl⟩ := stripRel_inst R hy
    obtain ⟨ss, hs, hs'⟩ := succs_fixInst R.targets g1 g2
    obtain ⟨ss0, e0, hf⟩ := h.flow g1
    rw [hs] at e0; cases e0
    refine ⟨ss.map (pos p.insts), by rw [R.stripped.size, ← g3]; exact hs', ?_⟩
    intro j' hj' t ht
    obtain ⟨k, hk, rfl⟩ := List.mem_map.1 hj'
    rw [defs_fixInst, ← g3, getD_stripArr I p.insts h.size g1 g2]
    by_cases hlt : pos p.insts k < pos p.insts p.insts.size
    · exact hf k hk t (hpos k hlt t ht)
    · rw [getD_oob (by rw [hsz, R.stripped.size]; omega)] at ht; cases ht

theorem liveFacts_strip {p q : Program w} {numRegs : Nat} (R : StripRel p q) {O : Array (List Nat)}
    (h : LiveFacts p numRegs O) : LiveFacts q numRegs (stripArr O p.insts) := by
  have hsz : (stripArr O p.insts).size = q.insts.size := by
    rw [stripArr_size O p.insts h.size, R.stripped.size]
  refine ⟨hsz, ?_, ?_⟩
  · intro m y hy
    obtain ⟨i, x, g1, g2, g3, rfl⟩ := stripRel_inst R hy
    obtain ⟨ss, hs, hs'⟩ := succs_fixInst R.targets g1 g2
    obtain ⟨ss0, e0, hf⟩ := h.flow g1
    rw [hs] at e0; cases e0
    refine ⟨ss.map (pos p.insts), by rw [R.stripped.size, ← g3]; exact hs', ?_⟩
    intro j' hj' ij' hij' t ht
    obtain ⟨k, hk, rfl⟩ := List.mem_map.1 hj'
    have hlt : pos p.insts k < pos p.insts p.insts.size := by
      rw [← R.stripped.size]; exact lt_of_getElem? hij'
    obtain ⟨j, y, q1, q2, q3, q4, q5⟩ := next_kept p.insts _ k (Nat.le_refl _) hlt
    have hqj := R.stripped.get j y q2 q3
    rw [q4, hij'] at hqj
    cases hqj
    rw [liveIn_fixInst, ← q4, getD_stripArr O p.insts h.size q2 q3] at ht
    rw [← g3, getD_stripArr O p.insts h.size g1 g2]
    have hkn : k < p.insts.size := by
      apply Nat.lt_of_not_le
      intro hle
      have := pos_mono p.insts hle
      omega
    have hxk : p.insts[k]? = some p.insts[k] := Array.getElem?_eq_getElem hkn
    exact hf k hk _ hxk t (live_chain h (j - k) j (by omega) q5 y _ q2 hxk t ht)
  · intro m y hy hb t ht h1 h2
    obtain ⟨i, x, g1, g2, g3, rfl⟩ := stripRel_inst R hy
    rw [isBranch_fixInst] at hb
    rw [← g3, getD_stripArr O p.insts h.size g1 g2] at ht
    rw [defs_fixInst, ← g3, R.live i x g1 g2]
    exact h.declared g1 hb t ht h1 h2

theorem tempsBelow_strip {B qi : Array (Instr w)} (hS : Stripped B qi) {Tn : Nat} (h : TempsBelow B Tn) :
    TempsBelow qi Tn := by
  intro m y hy t ht
  have hm : m < pos B B.size := by rw [← hS.size]; exact lt_of_getElem? hy
  obtain ⟨i, x, _, g2, g3, g4⟩ := exists_kept_of_lt_pos B B.size (Nat.le_refl _) hm
  have := hS.get i x g2 g3
  rw [g4, hy] at this
  cases this
  rw [uses_fixInst] at ht
  exact h i x g2 t ht

/-! ### the pass -/

theorem stripNoops_rel (s s' : St w) (hl : s.live.size = s.insts.size) (hT : TargetsOk s.insts)
    (h : stripNoops s = .ok s') (t t' : Nat) (mn mn' mx mx' : Int) :
    StripRel (progOf s t mn mx) (progOf s' t' mn' mx') := by
  obtain ⟨fixed, hfix, hsz, _, hget⟩ := fixBranches_spec hT s.insts.size (Array.mkEmpty s.insts.size)
    (Nat.le_refl _)
  have hsz' : fixed.size = s.insts.size := by simpa using hsz
  have hget' : ∀ j, j < s.insts.size → fixed[j]? = (s.insts[j]?).map (fixInst s.insts j) := by
    intro j hj
    have := hget j hj
    simpa using this
  have hS : Stripped s.insts (fixed.filter keep) := stripped_of_fixed hsz' hget'
  have hlive : ¬ (s.live.size > fixed.size) := by omega
  have hform : stripNoops s = .ok { s with
      live := (((s.live.toList.zip fixed.toList).filter (fun li => !isNoop li.2)).map (·.1)).toArray,
      insts := fixed.filter (fun x => !isNoop x) } := by
    unfold stripNoops
    simp only [hfix, hlive, if_false]
  rw [hform] at h
  cases h
  refine ⟨hS, hT, ?_⟩
  intro i x hx hk
  replace hx : s.insts[i]? = some x := hx
  have hi : i < s.insts.size := lt_of_getElem? hx
  have hcongr : pos fixed i = pos s.insts i := by
    apply countP_take_congr keep fixed.toList s.insts.toList (by simpa using hsz')
    intro j a b ha hb
    have ha' : fixed[j]? = some a := by simpa using ha
    have hb' : s.insts[j]? = some b := by simpa using hb
    have hj : j < s.insts.size := C07_lt hb'
    rw [hget' j hj, hb'] at ha'
    simp only [Option.map_some, Option.some.injEq] at ha'
    rw [← ha', keep_fixInst]
  have hfx : fixed[i]? = some (fixInst s.insts i x) := by rw [hget' i hi, hx]; rfl
  have hlv : s.live[i]? = some s.live[i] := Array.getElem?_eq_getElem (by omega)
  show ((((s.live.toList.zip fixed.toList).filter (fun li => !isNoop li.2)).map (·.1)).toArray)[pos s.insts i]? =
    s.live[i]?
  rw [hlv, ← hcongr]
  exact stripArr_get s.live fixed hlv hfx (by rw [keep_fixInst]; exact hk)

end Alloc
end C02
end Hpbf
