/-
Totality of the optimizer model, part 3: the emitting primitives `emit`, `clobber`, `explosionVars`, `performAll`,
`emitAll`, `emitReadAll`, `clobberAll` are `Safe` on well-formed states (`Wf`: the DFS of `gatherForEmit` needs the
`reverse` index to point at pending keys only). The states they return are well-formed again by the `CStep` lemmas
of the rebuild-round proof (`OptRbCanon2`).
-/
import Hpbf.Proofs.OptTotalDfs
import Hpbf.Proofs.OptTotalPure
import Hpbf.Proofs.OptRbCanon2

namespace Hpbf
namespace OptTotal
open Opt OptProof

variable {w : Nat}

/-- The invariant carried through the folds. -/
def Good (s : Rebuild w) : Prop := Wf s ∧ CanonSt s

theorem emit_safe {s : Rebuild w} (ps : List (Rebuild w)) (var : Int) (hwf : Wf s) : Safe (emit s ps var) := by
  unfold emit
  split
  · refine (gatherForEmit_safe hwf [var]).bind (fun r _ _ _ => ?_)
    obtain ⟨s1, toEmit⟩ := r
    exact Safe.pure _
  · exact Safe.pure _

theorem clobber_safe {s : Rebuild w} (ps : List (Rebuild w)) (var : Int) (maybe : Bool) (hwf : Wf s) :
    Safe (clobber s ps var maybe) := by
  unfold clobber
  have hwf' : Wf (if !maybe then (removePending s var).1 else s) := by
    split
    · exact removePending_wf hwf var
    · exact hwf
  refine (gatherForEmit_safe hwf' [var]).bind (fun r _ _ _ => ?_)
  obtain ⟨s1, toEmit⟩ := r
  exact Safe.pure _

/-- The body of the loop of `explosionVars`. -/
def explodeOne (ps : List (Rebuild w)) (var : Int) (last : Option Int) (s : Rebuild w) : M (Rebuild w) :=
  match mGet s.pending var with
  | some expr =>
    if Expr.addCount expr > 1 || (last == some var && Expr.opCount expr > 1) then emit s ps var
    else pure s
  | none => pure s

theorem explosionVars_cons (ps : List (Rebuild w)) (var : Int) (rest : List Int) (last : Option Int)
    (s : Rebuild w) :
    explosionVars ps (var :: rest) last s =
      explodeOne ps var last s >>= fun s => explosionVars ps rest (some var) s := by
  rw [explosionVars]; unfold explodeOne
  cases mGet s.pending var with
  | none => rfl
  | some expr =>
    dsimp only
    split <;> rfl

theorem explodeOne_safe {s : Rebuild w} (ps : List (Rebuild w)) (var : Int) (last : Option Int) (hwf : Wf s) :
    Safe (explodeOne ps var last s) := by
  unfold explodeOne
  split
  · split
    · exact emit_safe ps var hwf
    · exact Safe.pure _
  · exact Safe.pure _

theorem explodeOne_cstep {s : Rebuild w} (ps : List (Rebuild w)) (var : Int) (last : Option Int)
    (hwf : Wf s) (hc : CanonSt s) {os os' : Orders} {s' : Rebuild w}
    (h : (explodeOne ps var last s).run os = .ok (s', os')) : CStep s s' := by
  unfold explodeOne at h
  split at h
  · split at h
    · exact emit_canon ps var h hwf hc
    · rw [run_pure] at h; cases h; exact CStep.refl hwf hc
  · rw [run_pure] at h; cases h; exact CStep.refl hwf hc

theorem explosionVars_safe (ps : List (Rebuild w)) (vars : List Int) (last : Option Int) {s : Rebuild w}
    (hwf : Wf s) (hc : CanonSt s) : Safe (explosionVars ps vars last s) := by
  induction vars generalizing s last with
  | nil => rw [explosionVars]; exact Safe.pure _
  | cons var rest ih =>
    rw [explosionVars_cons]
    refine (explodeOne_safe ps var last hwf).bind (fun s1 os os' h => ?_)
    have r := explodeOne_cstep ps var last hwf hc h
    exact ih (some var) r.wf r.canon

theorem performCheck_safe (ps : List (Rebuild w)) (calcs : List (Int × Expr w)) {s : Rebuild w}
    (hwf : Wf s) (hc : CanonSt s) : Safe (performCheck s ps calcs) := by
  unfold performCheck
  refine Safe.foldlM Good _ calcs (fun s1 vc _ hg => ?_) ⟨hwf, hc⟩
  have hinner : ∀ (s2 : Rebuild w) (vars : List Int), Good s2 →
      Safe (if vars.length ≥ 2 then explosionVars ps vars none s2 else pure s2) ∧
      ∀ os s3 os', (if vars.length ≥ 2 then explosionVars ps vars none s2 else pure s2).run os
        = .ok (s3, os') → Good s3 := by
    intro s2 vars hg2
    constructor
    · split
      · exact explosionVars_safe ps vars none hg2.1 hg2.2
      · exact Safe.pure _
    · intro os s3 os' h
      split at h
      · have r := explosionVars_canon ps vars none h hg2.1 hg2.2
        exact ⟨r.wf, r.canon⟩
      · rw [run_pure] at h; cases h; exact hg2
  constructor
  · exact Safe.foldlM Good _ (groupedVars vc.2) (fun s2 vars _ hg2 => hinner s2 vars hg2) hg
  · intro os s3 os' h
    exact foldlM_post Good _ (groupedVars vc.2) (fun s2 vars _ hg2 => (hinner s2 vars hg2).2) hg h

theorem performEval_safe (s : Rebuild w) (ps : List (Rebuild w)) (shift : Int) (calcs : List (Int × Expr w)) :
    Safe (performEval s ps shift calcs) := by
  unfold performEval
  refine Safe.mapM _ calcs (fun vc _ => ?_)
  refine (Safe.monadLift (evalPending_ok s ps shift vc.2)).bind (fun p _ _ _ => ?_)
  exact Safe.pure _

theorem performAll_safe {s : Rebuild w} (ps : List (Rebuild w)) (shift : Int) (calcs : List (Int × Expr w))
    (hwf : Wf s) (hc : CanonSt s) : Safe (performAll s ps shift calcs) := by
  rw [performAll_eq]
  refine (performCheck_safe ps calcs hwf hc).bind (fun s1 _ _ _ => ?_)
  refine (performEval_safe s1 ps shift calcs).bind (fun exprs _ _ _ => ?_)
  exact Safe.pure _

theorem emitAll_safe (ps : List (Rebuild w)) (vars : List Int) {s : Rebuild w} (hwf : Wf s) (hc : CanonSt s) :
    Safe (emitAll ps vars s) := by
  unfold emitAll
  refine Safe.foldlM Good _ vars (fun s1 var _ hg => ⟨emit_safe ps var hg.1, fun os s2 os' h => ?_⟩) ⟨hwf, hc⟩
  have r := emit_canon ps var h hg.1 hg.2
  exact ⟨r.wf, r.canon⟩

theorem emitReadAll_safe (ps : List (Rebuild w)) (vars : List Int) {s : Rebuild w} (hwf : Wf s)
    (hc : CanonSt s) : Safe (emitReadAll ps vars s) := by
  unfold emitReadAll
  refine Safe.foldlM Good _ vars (fun s1 var _ hg => ⟨?_, fun os s2 os' h => ?_⟩) ⟨hwf, hc⟩
  · refine (emit_safe ps var hg.1).bind (fun s2 _ _ _ => ?_)
    exact Safe.pure _
  · rw [run_bind_ok] at h
    obtain ⟨s3, os1, h1, h2⟩ := h
    rw [run_pure] at h2
    cases h2
    have r := (emit_canon ps var h1 hg.1 hg.2).read var
    exact ⟨r.wf, r.canon⟩

theorem clobberAll_safe (ps : List (Rebuild w)) (vars : List (Int × Bool)) {s : Rebuild w} (hwf : Wf s)
    (hc : CanonSt s) : Safe (clobberAll ps vars s) := by
  unfold clobberAll
  refine Safe.foldlM Good _ vars (fun s1 vm _ hg => ⟨clobber_safe ps vm.1 vm.2 hg.1, fun os s2 os' h => ?_⟩)
    ⟨hwf, hc⟩
  have r := clobber_canon ps vm.1 vm.2 h hg.1 hg.2
  exact ⟨r.wf, r.canon⟩

#print axioms performAll_safe
#print axioms clobberAll_safe

end OptTotal
end Hpbf
