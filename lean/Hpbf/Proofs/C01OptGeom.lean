/-
C01 (OptArith section), geometric sums: `geomSum mul n = 1 + mul + … + mul^(n-1)` and the closed form
of the affine recurrence `x ↦ x * mul + c`.  Lemmas for `Hpbf/Props/C01Opt.lean`.
-/
import Hpbf.Proofs.C01OptArith

namespace Hpbf.C01Opt
namespace Lemmas
open Hpbf

variable {w : Nat}

@[simp] theorem geo_zero (mul : BitVec w) : geo mul 0 = 0#w := rfl
theorem geo_succ (mul : BitVec w) (k : Nat) : geo mul (k + 1) = geo mul k * mul + 1#w := rfl

/-- Splitting a geometric sum. -/
theorem geo_add (mul : BitVec w) (a b : Nat) :
    geo mul (a + b) = geo mul a * mul ^ b + geo mul b := by
  induction b with
  | zero => rw [Nat.add_zero, geo_zero]; bvring
  | succ b ih => rw [← Nat.add_assoc, geo_succ, geo_succ, ih]; bvring

theorem geo_two_mul (mul : BitVec w) (p : Nat) :
    geo mul (2 * p) = geo mul p * (mul ^ p + 1#w) := by
  rw [Nat.two_mul, geo_add]; bvring

/-- The other recursion: `geo (k+1) = 1 + mul * geo k`. -/
theorem geo_succ' (mul : BitVec w) (k : Nat) : geo mul (k + 1) = 1#w + mul * geo mul k := by
  induction k with
  | zero => rw [geo_succ, geo_zero]; bvring
  | succ k ih => rw [geo_succ mul (k + 1), ih]; bvring

/-- `(mul - 1) * geo mul k = mul ^ k - 1`: the usual closed form, without division. -/
theorem geo_mul_pred (mul : BitVec w) (k : Nat) : (mul - 1#w) * geo mul k = mul ^ k - 1#w := by
  induction k with
  | zero => rw [geo_zero]; bvring
  | succ k ih =>
    have : (mul - 1#w) * geo mul (k + 1) = (mul - 1#w) * geo mul k * mul + (mul - 1#w) := by
      rw [geo_succ]; bvring
    rw [this, ih]; bvring

/-- Bit `j` of `n`, as tested by `geomStep`. -/
theorem isOdd_wshr (n : BitVec w) (j : Nat) (hj : j < w) :
    Cell.isOdd (Cell.wshr n j) = true ↔ (n.toNat / 2 ^ j) % 2 = 1 := by
  rw [C14.isOdd_iff (by omega)]
  unfold Cell.wshr
  rw [if_pos hj, BitVec.toNat_ushiftRight, Nat.shiftRight_eq_div_pow]

/-- One round of `geomStep` keeps the invariant `(geo mul p, mul ^ p)`, `p` the bits of `n` above
the ones still to be processed. -/
theorem geomStep_inv (mul n : BitVec w) (j : Nat) (hj : j < w) :
    OptArith.geomStep mul n (geo mul (n.toNat / 2 ^ (j + 1)), mul ^ (n.toNat / 2 ^ (j + 1))) j
      = (geo mul (n.toNat / 2 ^ j), mul ^ (n.toNat / 2 ^ j)) := by
  have hdiv : n.toNat / 2 ^ (j + 1) = n.toNat / 2 ^ j / 2 := by
    rw [Nat.pow_succ, Nat.div_div_eq_div_mul]
  generalize n.toNat / 2 ^ (j + 1) = p at hdiv
  unfold OptArith.geomStep
  by_cases hb : Cell.isOdd (Cell.wshr n j) = true
  · have hq : n.toNat / 2 ^ j = 2 * p + 1 := by
      have := (isOdd_wshr n j hj).1 hb; omega
    simp only [hb, if_true, hq]
    rw [geo_succ, geo_two_mul]
    refine Prod.ext ?_ ?_ <;> first | (simp only; done) | (simp only; bvring)
  · have hq : n.toNat / 2 ^ j = 2 * p := by
      have := (isOdd_wshr n j hj).not.1 hb; omega
    simp only [hb, hq]
    rw [geo_two_mul]
    refine Prod.ext ?_ ?_ <;> first | (simp only; done) | (simp only; bvring)

theorem geom_fold (mul n : BitVec w) : ∀ j : Nat, j ≤ w →
    (List.range j).reverse.foldl (OptArith.geomStep mul n)
        (geo mul (n.toNat / 2 ^ j), mul ^ (n.toNat / 2 ^ j))
      = (geo mul n.toNat, mul ^ n.toNat) := by
  intro j
  induction j with
  | zero => intro _; simp
  | succ j ih =>
    intro hj
    rw [List.range_succ, List.reverse_append, List.reverse_singleton, List.singleton_append,
      List.foldl_cons, geomStep_inv mul n j (by omega)]
    exact ih (by omega)

/-- The whole loop: both components of the accumulator. -/
theorem geomSum_fold (mul n : BitVec w) :
    (List.range w).reverse.foldl (OptArith.geomStep mul n) (0#w, 1#w)
      = (geo mul n.toNat, mul ^ n.toNat) := by
  have h0 : n.toNat / 2 ^ w = 0 := Nat.div_eq_of_lt n.isLt
  have := geom_fold mul n w (Nat.le_refl w)
  rw [h0] at this
  exact this

theorem geomSum_spec (mul n : BitVec w) : OptArith.geomSum mul n = geo mul n.toNat := by
  unfold OptArith.geomSum
  rw [geomSum_fold]

theorem affine_iter (mul c x0 : BitVec w) (k : Nat) :
    (fun x => x * mul + c)^[k] x0 = x0 * mul ^ k + c * geo mul k := by
  induction k with
  | zero => rw [Function.iterate_zero_apply, geo_zero]; bvring
  | succ k ih => rw [Function.iterate_succ_apply', ih, geo_succ]; bvring

end Lemmas
end Hpbf.C01Opt
