/-
C03 (control flow), stage 2: `inp` and `out` – the runtime calls wrapped in register saving, the failure test
and the exit through the termination label.
-/
import Hpbf.Proofs.C03FlowCall
namespace Hpbf
namespace C03
open Asm JitGen X86Sem X86Prog
variable {w : Nat}

/-! ### Steps of the call sequences -/

/-- `mov rdi, rbx` (and any other 64-bit register-to-register move `X86Sem` accepts). -/
theorem step_movRegReg {cfg : Cfg} {code : List X86} {d r : Reg} {rest : List X86} {s : PState w}
    (hat : At cfg code s.pc (st64 (.reg d) r :: rest)) (hd : d ≠ .rsp ∧ d ≠ .rbp) :
    step cfg s = .next { s with regs := s.regs.set d (s.regs.get r), pc := s.pc + (st64 (.reg d) r).size } := by
  rw [step_at hat]
  step_open (show (st64 (.reg d) r).fits = true from rfl)
  simp only [st64, cxtDisp, stepPlain, exec, show (X86.movRmR .b64 (.reg d) r).fits = true from rfl, if_true,
    execCore, X86Sem.resolve, Option.bind_eq_bind, Option.bind_some, writePlace, writeReg, hd.1, hd.2,
    or_self, if_false, placeOf, rmOf, sizedWrite_b64]
  rfl

theorem immVal_addr (a : BitVec 64) : immVal (BitVec.ofNat 64 a.toNat).toInt = a := by
  simp [immVal]

/-- Register file after a runtime call: callee-saved registers kept. -/
theorem clobber_get (cfg : Cfg) (f : RegFile) (ret : BitVec 64) (r : Reg) :
    (clobber cfg f ret).get r =
      if r = .rax then ret
      else if r = .rbx ∨ r = .rsp ∨ r = .rbp ∨ r = .r12 ∨ r = .r13 ∨ r = .r14 ∨ r = .r15 then f.get r
      else cfg.junk r := by
  cases r <;> rfl

theorem step_call_input {cfg : Cfg} {code : List X86} {rest : List X86} {s : PState w}
    (hat : At cfg code s.pc (.callInd (.reg scr0) :: rest)) (hrax : s.regs.rax = cfg.aI)
    (hal : s.regs.rsp.toNat % 16 = 0) (hrdi : s.regs.rdi = cfg.cxtAddr) :
    step cfg s = .next (match s.env.readByte with
      | .got b e =>
        { s with regs := clobber cfg s.regs (BitVec.ofNat 64 b.toNat), zf := none, cf := none,
                 env := e, trace := Ev.inp b :: s.trace, pc := s.pc + (X86.callInd (.reg scr0)).size }
      | .failed e =>
        { s with regs := clobber cfg s.regs (BitVec.ofInt 64 (-1)), zf := none, cf := none,
                 env := e, trace := Ev.inpFail :: s.trace, pc := s.pc + (X86.callInd (.reg scr0)).size }
      | .absent =>
        { s with regs := clobber cfg s.regs (BitVec.ofInt 64 (-1)), zf := none, cf := none,
                 pc := s.pc + (X86.callInd (.reg scr0)).size }) := by
  rw [step_at hat]
  step_open (show (X86.callInd (.reg scr0)).fits = true from rfl)
  have : s.regs.get scr0 = cfg.aI := hrax
  simp only [this, call, hal, ne_eq, not_true_eq_false, if_false, hrdi, if_true]
  cases s.env.readByte <;> rfl

theorem step_call_output {cfg : Cfg} {code : List X86} {rest : List X86} {s : PState w}
    (hat : At cfg code s.pc (.callInd (.reg scr0) :: rest)) (hrax : s.regs.rax = cfg.aO)
    (hIO : cfg.aI ≠ cfg.aO)
    (hal : s.regs.rsp.toNat % 16 = 0) (hrdi : s.regs.rdi = cfg.cxtAddr) :
    step cfg s = .next (
      let b : UInt8 := UInt8.ofNat (s.regs.rsi.setWidth 8).toNat
      let retv (failed : Bool) : BitVec 64 := mergeLow 8 (cfg.junk .rax) (if failed then 1 else 0)
      if s.env.sink then
        match s.env.writeByte with
        | (true, e) =>
          { s with regs := clobber cfg s.regs (retv false), zf := none, cf := none,
                   env := e, trace := Ev.out b :: s.trace, pc := s.pc + (X86.callInd (.reg scr0)).size }
        | (false, e) =>
          { s with regs := clobber cfg s.regs (retv true), zf := none, cf := none,
                   env := e, trace := Ev.outFail b :: s.trace, pc := s.pc + (X86.callInd (.reg scr0)).size }
      else
        { s with regs := clobber cfg s.regs (retv false), zf := none, cf := none,
                 pc := s.pc + (X86.callInd (.reg scr0)).size }) := by
  rw [step_at hat]
  step_open (show (X86.callInd (.reg scr0)).fits = true from rfl)
  have : s.regs.get scr0 = cfg.aO := hrax
  simp only [this, call, hal, ne_eq, not_true_eq_false, if_false, hrdi, if_true, Ne.symm hIO]
  split
  · rcases s.env.writeByte with ⟨b, e⟩
    cases b <;> rfl
  · rfl


/-- Effect of one of the I/O runtime functions on the state at the `call` instruction. -/
structure CallFx (cfg : Cfg) (s s' : PState w) (ret : BitVec 64) (env : Env) (trace : List Ev) : Prop where
  regs : s'.regs = clobber cfg s.regs ret
  stk : s'.stk = s.stk
  env : s'.env = env
  trace : s'.trace = trace
  tape : s'.tape = s.tape
  lptr : s'.lptr = s.lptr
  tapeOk : s'.tapeOk = s.tapeOk
  buf : s'.buf = s.buf
  size : s'.size = s.size
  off : s'.off = s.off
  budget : s'.budget = s.budget
  base : s'.base = s.base
  pc : s'.pc = s.pc + (X86.callInd (.reg scr0)).size

theorem align_sub {a : BitVec 64} (h : a.toNat % 16 = 0) {k : Nat} (hk : k % 2 = 0) :
    (a - BitVec.ofNat 64 (8 * k)).toNat % 16 = 0 := by
  have := a.isLt
  simp only [BitVec.toNat_sub, BitVec.toNat_ofNat]
  omega

theorem padLen_even (rs : List Reg) : padLen rs % 2 = 0 := by unfold padLen; omega

theorem sub_add_ofNat (a : BitVec 64) (k : Nat) : a - BitVec.ofNat 64 k + BitVec.ofNat 64 k = a := by
  apply BitVec.eq_of_toNat_eq
  have := a.isLt
  simp only [BitVec.toNat_add, BitVec.toNat_sub, BitVec.toNat_ofNat]
  omega

/-- The register saving, argument set-up, call and register restoring common to `inp` and `out`:
`pre ++ [mov rdi, rbx] ++ args ++ [mov rax, addr; call rax] ++ post`, where `args` (empty for `inp`, the
load of the cell into `rsi` for `out`) is code that changes at most `rsi`, flags and `pc` (`hargs`, which
may establish a fact `Q` about the state it ends in). `hcall` describes the call. -/
theorem call_seq {cfg : Cfg} {code : List X86} {live : Nat} {rs : List Reg} {pre post args : List X86}
    (hrs : savedRegs live = some rs) (hpre : preCall live = some pre) (hpost : postCall live = some post)
    {addr : BitVec 64} {rest : List X86} {s : PState w}
    (hat : At cfg code s.pc (pre ++ ([st64 (.reg .rdi) cxt] ++ args ++
      [.movRImm64 scr0 (BitVec.ofNat 64 addr.toNat).toInt, .callInd (.reg scr0)]) ++ post ++ rest))
    (hfit : (X86.movRImm64 scr0 (BitVec.ofNat 64 addr.toNat).toInt).fits = true)
    (hrbx : s.regs.rbx = cfg.cxtAddr) (hal : s.regs.rsp.toNat % 16 = 0)
    (Q : PState w → Prop)
    (hargs : ∀ sa : PState w, StackKeep s sa → At cfg code sa.pc (args ++
        ([.movRImm64 scr0 (BitVec.ofNat 64 addr.toNat).toInt, .callInd (.reg scr0)] ++ (post ++ rest))) →
      ∃ sb, steps cfg args.length sa = some sb ∧ (∀ r, r ≠ .rsi → sb.regs.get r = sa.regs.get r) ∧
        sb.stk = sa.stk ∧ StackKeep sa sb ∧ sb.pc = sa.pc + sizeAll args ∧ Q sb)
    {ret : BitVec 64} {env : Env} {trace : List Ev}
    (hcall : ∀ sb s2 : PState w, Q sb → s2.regs.get .rsi = sb.regs.get .rsi →
      At cfg code s2.pc (.callInd (.reg scr0) :: (post ++ rest)) →
      s2.regs.rax = addr → s2.regs.rsp.toNat % 16 = 0 → s2.regs.rdi = cfg.cxtAddr →
      s2.env = s.env → s2.trace = s.trace →
      ∃ s3, step cfg s2 = .next s3 ∧ CallFx cfg s2 s3 ret env trace) :
    ∃ n s', steps cfg n s = some s' ∧
      s'.stk = s.stk ∧ s'.regs.get .rax = ret ∧
      (∀ r ∈ rs, s'.regs.get r = s.regs.get r) ∧
      (∀ r, r = .rbx ∨ r = .rsp ∨ r = .rbp ∨ r = .r12 ∨ r = .r13 ∨ r = .r14 ∨ r = .r15 →
        s'.regs.get r = s.regs.get r) ∧
      s'.env = env ∧ s'.trace = trace ∧ s'.tape = s.tape ∧ s'.lptr = s.lptr ∧ s'.tapeOk = s.tapeOk ∧
      s'.buf = s.buf ∧ s'.size = s.size ∧ s'.off = s.off ∧ s'.budget = s.budget ∧ s'.base = s.base ∧
      s'.pc = s.pc + sizeAll (pre ++ ([st64 (.reg .rdi) cxt] ++ args ++
        [.movRImm64 scr0 (BitVec.ofNat 64 addr.toNat).toInt, .callInd (.reg scr0)]) ++ post) := by
  simp only [List.append_assoc] at hat
  obtain ⟨pad, s1, hst1, hpad, hstk1, hregs1, hrsp1, hpc1, hk1⟩ := pre_call hrs hpre hat
  have hat1 := hat.drop
  rw [← hpc1] at hat1
  simp only [List.cons_append, List.nil_append] at hat1
  -- mov rdi, rbx
  have h2 := step_movRegReg hat1 (by decide)
  obtain ⟨sa, hsa, ea⟩ : ∃ x : PState w, step cfg s1 = .next x ∧ x = _ := ⟨_, h2, rfl⟩
  have hata : At cfg code sa.pc (args ++
      ([.movRImm64 scr0 (BitVec.ofNat 64 addr.toNat).toInt, .callInd (.reg scr0)] ++ (post ++ rest))) := by
    rw [ea]; simpa using hat1.tail
  have hka : StackKeep s sa := by
    refine hk1.trans ?_; rw [ea]; exact ⟨rfl, rfl, rfl, rfl, rfl, rfl, rfl, rfl, rfl, rfl⟩
  -- the arguments
  obtain ⟨sb, hstb, hregsb, hstkb, hkb, hpcb, hQ⟩ := hargs sa hka hata
  have hatb : At cfg code sb.pc (.movRImm64 scr0 (BitVec.ofNat 64 addr.toNat).toInt ::
      .callInd (.reg scr0) :: (post ++ rest)) := by
    rw [hpcb]; simpa using hata.drop
  -- mov rax, addr
  have h3 := step_movImm hatb (by decide) hfit
  obtain ⟨s2, hs2, e2⟩ : ∃ x : PState w, step cfg sb = .next x ∧ x = _ := ⟨_, h3, rfl⟩
  have hat3 : At cfg code s2.pc (.callInd (.reg scr0) :: (post ++ rest)) := by rw [e2]; exact hatb.tail
  have hrax2 : s2.regs.rax = addr := by
    rw [e2]; show (sb.regs.set scr0 _).get .rax = _
    simp only [scr0, regfile_set_get, if_true]; exact immVal_addr addr
  have hr2 : ∀ r, r ≠ .rax → r ≠ .rdi → r ≠ .rsi → r ≠ .rsp → s2.regs.get r = s.regs.get r := by
    intro r h1 h2 h3 h4
    rw [e2]; simp only [scr0, regfile_set_get, h1, if_false]
    rw [hregsb r h3, ea]; simp only [regfile_set_get, h2, if_false]; exact hregs1 r h4
  have hrsp2 : s2.regs.get .rsp = s.regs.get .rsp - BitVec.ofNat 64 (8 * padLen rs) := by
    rw [e2]; simp only [scr0, regfile_set_get, reduceCtorEq, if_false]
    rw [hregsb _ (by decide), ea]; simp only [regfile_set_get, reduceCtorEq, if_false]; exact hrsp1
  have hrdi2 : s2.regs.rdi = cfg.cxtAddr := by
    show s2.regs.get .rdi = _
    rw [e2]; simp only [scr0, regfile_set_get, reduceCtorEq, if_false]
    rw [hregsb _ (by decide), ea]; simp only [regfile_set_get, if_true, cxt]
    rw [hregs1 _ (by decide)]; exact hrbx
  have hal2 : s2.regs.rsp.toNat % 16 = 0 := by
    have : s2.regs.rsp = s2.regs.get .rsp := rfl
    rw [this, hrsp2]; exact align_sub hal (padLen_even rs)
  have hstk2 : s2.stk = s1.stk := by rw [e2]; show sb.stk = _; rw [hstkb, ea]
  have hk2 : StackKeep s s2 := by
    refine (hka.trans hkb).trans ?_; rw [e2]; exact ⟨rfl, rfl, rfl, rfl, rfl, rfl, rfl, rfl, rfl, rfl⟩
  have hrsi2 : s2.regs.get .rsi = sb.regs.get .rsi := by rw [e2]; simp [scr0]
  obtain ⟨s3, hs3, fx⟩ := hcall sb s2 hQ hrsi2 hat3 hrax2 hal2 hrdi2 hk2.env hk2.trace
  have hat4 : At cfg code s3.pc (post ++ rest) := by rw [fx.pc]; exact hat3.tail
  obtain ⟨s4, hst4, hstk4, hin4, hout4, hrsp4, hpc4, hk4⟩ := post_call hrs hpost hat4 s.regs.get hpad
    (stk0 := s.stk) (by rw [fx.stk, hstk2, hstk1])
  have hrax_notin : Reg.rax ∉ rs := by
    intro h
    obtain ⟨t, _, h11, _, ht⟩ := (savedRegs_mem hrs _).1 h
    obtain ⟨_, e⟩ := tmpReg_eq_some.1 ht
    exact (treg_ne h11).1 e.symm
  have hcs_notin : ∀ r, r = .rbx ∨ r = .rsp ∨ r = .rbp ∨ r = .r12 ∨ r = .r13 ∨ r = .r14 ∨ r = .r15 → r ∉ rs := by
    intro r hr h
    obtain ⟨t, h4, h11, _, ht⟩ := (savedRegs_mem hrs _).1 h
    obtain ⟨_, e⟩ := tmpReg_eq_some.1 ht
    subst e
    have : t = 4 ∨ t = 5 ∨ t = 6 ∨ t = 7 ∨ t = 8 ∨ t = 9 ∨ t = 10 := by omega
    rcases this with rfl | rfl | rfl | rfl | rfl | rfl | rfl <;> simp [treg, tmpReg] at hr
  refine ⟨pre.length + ((1 + args.length) + 1 + 1) + post.length, s4, ?_, hstk4, ?_, hin4, ?_,
    hk4.env.trans fx.env, hk4.trace.trans fx.trace, ?_, ?_, ?_, ?_, ?_, ?_, ?_, ?_, ?_⟩
  · exact steps_trans (steps_trans hst1 (steps_trans (steps_trans (steps_trans (steps_one hsa) hstb)
      (steps_one hs2)) (steps_one hs3))) hst4
  · rw [hout4 _ hrax_notin (by decide), fx.regs, clobber_get]; simp
  · intro r hr
    by_cases hsp : r = .rsp
    · subst hsp
      rw [hrsp4, fx.regs, clobber_get]
      simp only [reduceCtorEq, if_false, true_or, or_true, if_true]
      rw [hrsp2, sub_add_ofNat]
    · rw [hout4 _ (hcs_notin r hr) hsp, fx.regs, clobber_get]
      have hne : r ≠ .rax := by rintro rfl; simp at hr
      have hne' : r ≠ .rdi := by rintro rfl; simp at hr
      have hne'' : r ≠ .rsi := by rintro rfl; simp at hr
      rw [if_neg hne, if_pos hr]
      exact hr2 r hne hne' hne'' hsp
  · rw [hk4.tape, fx.tape, hk2.tape]
  · rw [hk4.lptr, fx.lptr, hk2.lptr]
  · rw [hk4.tapeOk, fx.tapeOk, hk2.tapeOk]
  · rw [hk4.buf, fx.buf, hk2.buf]
  · rw [hk4.size, fx.size, hk2.size]
  · rw [hk4.off, fx.off, hk2.off]
  · rw [hk4.budget, fx.budget, hk2.budget]
  · rw [hk4.base, fx.base, hk2.base]
  · rw [hpc4, fx.pc, e2, hpcb, ea]
    simp only [sizeAll_append, sizeAll_cons, sizeAll_nil, hpc1]
    omega


/-- The function has returned; what the caller and the environment see, against the final bytecode
configuration. -/
structure Final (fr : Frame) (temps : Nat) (c' : Bc.Cfg w) (s' : PState w) : Prop where
  saved : ∃ ra, fr.saved = [s'.regs.r15, s'.regs.r14, s'.regs.r13, s'.regs.r12, s'.regs.rbx, s'.regs.rbp, ra]
  rsp : s'.regs.rsp = fr.rsp + BitVec.ofNat 64 (alignedTemps temps * 8) + 56
  stk : s'.stk = []
  env : s'.env = c'.st.env
  trace : s'.trace = c'.st.trace
  tape : ∀ o, s'.tape.get (s'.lptr + o) = c'.st.rd o

theorem Final.of_returned {fr : Frame} {temps : Nat} {c' : Bc.Cfg w} {sB s' : PState w}
    (h : Returned fr temps sB s') (henv : sB.env = c'.st.env) (htr : sB.trace = c'.st.trace)
    (htape : ∀ o, sB.tape.get (sB.lptr + o) = c'.st.rd o) : Final fr temps c' s' :=
  ⟨h.saved, h.rsp, h.stk, h.env.trans henv, h.trace.trans htr, fun o => by rw [h.tape, h.lptr]; exact htape o⟩

theorem preCall_saved {live : Nat} {pre : List X86} (h : preCall live = some pre) :
    ∃ rs, savedRegs live = some rs := by
  unfold preCall at h
  cases hs : savedRegs live with
  | none => simp [hs] at h
  | some rs => exact ⟨rs, rfl⟩

/-- `cmp rax, -1`: ZF iff `rax = -1`. -/
theorem cmp_m1_zf (a : BitVec 64) : (alu .sub 64 a (immVal (-1))).2.1 = decide (a = BitVec.ofInt 64 (-1)) := by
  simp only [alu, trunc64, immVal]
  by_cases h : a = BitVec.ofInt 64 (-1)
  · subst h; simp
  · simp only [h, decide_false, beq_eq_false_iff_ne, ne_eq]
    intro h0
    apply h; bv_omega


/-- `mov [cell], r` at the cell width. -/
theorem step_store {cfg : Cfg} {code : List X86} {sz : Size} (hsz : sz.bits = w) {idx : Int}
    (hidx : -2147483648 ≤ idx ∧ idx < 2147483648) {r : Reg} {rest : List X86} {s : PState w}
    (hat : At cfg code s.pc (storeReg sz idx r :: rest)) (hfit : (storeReg sz idx r).fits = true) :
    ∃ s', step cfg s = .next s' ∧ view s' = (view s).setCell idx (lo (s.regs.get r)) ∧
      s'.pc = s.pc + (storeReg sz idx r).size ∧ SameCtl s s' ∧ s'.stk = s.stk ∧ s'.regs = s.regs := by
  have hexec : exec (storeReg sz idx r) (view s) = some ((view s).setCell idx (lo (s.regs.get r))) := by
    have hfit' : (X86.movRmR sz (memParam sz idx) r).fits = true := hfit
    simp only [exec, storeReg, hfit', if_true, execCore, resolve_memParam hsz hidx.1 hidx.2,
      Option.bind_eq_bind, Option.bind_some, writePlace_cell _ hsz]
    rfl
  obtain ⟨s', h1, h2, h3, h4, h5⟩ := stepPlain_spec hexec (n := 0) (Nat.zero_le _) (by
    intro k hk
    simp only [placeOf, storeReg, rmOf, Option.bind_some, resolve_memParam hsz hidx.1 hidx.2] at hk
    cases hk)
  refine ⟨s', ?_, h2, h3, h4, by simpa using h5, ?_⟩
  · rw [step_at hat, stepInstr_of_exec cfg hexec]; exact h1
  · apply regfile_ext
    have := congrArg MState.regs h2
    simpa [view, MState.setCell] using this

theorem stepOf_inp {p : Bc.Program w} {limited : Bool} {c : Bc.Cfg w} {dst : Int}
    (hi : p.insts[c.pc]? = some (.inp dst)) :
    Bc.step p limited c =
      match c.st.env.readByte with
      | .got b e => .next { c with pc := c.pc + 1, st := { (c.st.wr dst (Cell.fromU8 (BitVec.ofNat 8 b.toNat))) with
          env := e, trace := Ev.inp b :: c.st.trace } }
      | .failed e => .stop { c with st := { c.st with env := e, trace := Ev.inpFail :: c.st.trace } }
      | .absent => .stop c := by
  simp only [Bc.step, hi, State.input]
  cases c.st.env.readByte <;> rfl

theorem lo_byte (hw : 8 ≤ w) (b : UInt8) :
    (lo (BitVec.ofNat 64 b.toNat) : BitVec w) = Cell.fromU8 (BitVec.ofNat 8 b.toNat) := by
  unfold lo Cell.fromU8 Cell.fromU64
  congr 1
  apply BitVec.eq_of_toNat_eq
  have := b.toNat_lt
  simp only [BitVec.toNat_ofNat, BitVec.toNat_setWidth]
  omega


/-- The state after the register-restoring code that follows a runtime call of `inp` / `out`. -/
structure AfterCall (K : Ctx w) (rs : List Reg) (s s' : PState w) (ret : BitVec 64) (env : Env)
    (trace : List Ev) : Prop where
  stk : s'.stk = s.stk
  rax : s'.regs.get .rax = ret
  saved : ∀ r ∈ rs, s'.regs.get r = s.regs.get r
  callee : ∀ r, r = .rbx ∨ r = .rsp ∨ r = .rbp ∨ r = .r12 ∨ r = .r13 ∨ r = .r14 ∨ r = .r15 →
    s'.regs.get r = s.regs.get r
  env : s'.env = env
  trace : s'.trace = trace
  tape : s'.tape = s.tape
  lptr : s'.lptr = s.lptr
  tapeOk : s'.tapeOk = s.tapeOk
  buf : s'.buf = s.buf
  size : s'.size = s.size
  off : s'.off = s.off
  budget : s'.budget = s.budget
  base : s'.base = s.base

/-- After the call sequence the live register temporaries, the stack temporaries and the tape are as
before. -/
theorem AfterCall.relOn {K : Ctx w} {live : Nat} {rs : List Reg} (hrs : savedRegs live = some rs)
    {s s' : PState w} {ret : BitVec 64} {env : Env} {trace : List Ev} (h : AfterCall K rs s s' ret env trace)
    {c : Bc.Cfg w} (hrel : Rel c (view s)) : RelOn (fun t => live.testBit t = true) c (view s') := by
  refine ⟨fun t r htr hl => ?_, fun t ht => ?_, fun o => ?_⟩
  · obtain ⟨hlt, rfl⟩ := tmpReg_eq_some.1 htr
    have := hrel.1 t _ htr
    simp only [view] at this ⊢
    rw [← this]
    congr 1
    by_cases h4 : 4 ≤ t
    · exact h.saved _ ((savedRegs_mem hrs _).2 ⟨t, h4, hlt, hl, htr⟩)
    · apply h.callee
      have : t = 0 ∨ t = 1 ∨ t = 2 ∨ t = 3 := by omega
      rcases this with rfl | rfl | rfl | rfl <;> simp [treg, tmpReg]
  · have := hrel.2.1 t ht
    simp only [view] at this ⊢
    rw [h.stk]; exact this
  · have := hrel.2.2 o
    simp only [view] at this ⊢
    rw [h.tape, h.lptr]; exact this

theorem AfterCall.inv {K : Ctx w} {fr : Frame} {rs : List Reg} {s s' : PState w} {ret : BitVec 64} {env : Env}
    {trace : List Ev} (h : AfterCall K rs s s' ret env trace) {c : Bc.Cfg w} (hinv : Inv K fr c s) :
    s'.regs.rbx = K.cfg.cxtAddr ∧ s'.regs.rsp = fr.rsp ∧ s'.tapeOk = true ∧
    s'.stk.length = alignedTemps K.p.temps + fr.saved.length ∧
    s'.stk.drop (alignedTemps K.p.temps) = fr.saved ∧ s'.budget.toNat = c.budget ∧ Phys s' :=
  ⟨(h.callee .rbx (by simp)).trans hinv.rbx, (h.callee .rsp (by simp)).trans hinv.rsp,
   h.tapeOk.trans hinv.tapeOk, by rw [h.stk]; exact hinv.len, by rw [h.stk]; exact hinv.saved,
   by rw [h.budget]; exact hinv.budget, hinv.phys.of_eq (h.callee .rbp (by simp)) h.buf h.lptr h.base⟩


/-- Result of `hpbf_context_input` for the environment `e` with trace `tr`. -/
def inpRes (e : Env) (tr : List Ev) : BitVec 64 × Env × List Ev :=
  match e.readByte with
  | .got b e' => (BitVec.ofNat 64 b.toNat, e', Ev.inp b :: tr)
  | .failed e' => (BitVec.ofInt 64 (-1), e', Ev.inpFail :: tr)
  | .absent => (BitVec.ofInt 64 (-1), e, tr)

/-- The items of `inp dst`. -/
theorem emit_inp {sz : Size} {limited safe : Bool} {minAcc maxAcc : Int} {aE aI aO i live : Nat}
    {dst : Int} {its : List Item}
    (h : emitInstr (w := w) sz limited safe minAcc maxAcc aE aI aO i live (.inp dst) = some its) :
    ∃ rs pre post, savedRegs live = some rs ∧ preCall live = some pre ∧ postCall live = some post ∧
      its = plains (pre ++ [st64 (.reg .rdi) cxt, .movRImm64 scr0 (BitVec.ofNat 64 aI).toInt,
        .callInd (.reg scr0)] ++ post ++ [.cmpRmImm8 .b64 (.reg .rax) (-1)]) ++
        [.jccTerm .equal, .plain (storeReg sz dst .rax)] ∧
      (X86.movRImm64 scr0 (BitVec.ofNat 64 aI).toInt).fits = true ∧
      (storeReg sz dst .rax).fits = true := by
  obtain ⟨hraw, hfit⟩ := emitInstr_raw h
  simp only [emitInstrRaw] at hraw
  cases hpre : preCall live with
  | none => simp [hpre] at hraw
  | some pre =>
    cases hpost : postCall live with
    | none => simp [hpre, hpost] at hraw
    | some post =>
      simp only [hpre, hpost, Option.bind_eq_bind, Option.bind_some, Option.some.injEq] at hraw
      obtain ⟨rs, hrs⟩ := preCall_saved hpre
      subst hraw
      refine ⟨rs, pre, post, hrs, rfl, rfl, rfl, ?_, ?_⟩
      · exact mem_all_fits hfit (by simp [plains])
      · exact mem_all_fits hfit (by simp [plains])

theorem flow_inp (K : Ctx w) (htemps : alignedTemps K.p.temps * 8 < 2147483648)
    {fr : Frame} (h7 : fr.saved.length = 7) {c : Bc.Cfg w} {s : PState w} {dst : Int}
    (hi : K.p.insts[c.pc]? = some (.inp dst)) (hdst : -2147483648 ≤ dst ∧ dst < 2147483648) (hw8 : 8 ≤ w)
    (hinv : Inv K fr c s) (hrel : Rel c (view s)) :
    (∀ c', Bc.step K.p K.limited c = .next c' → ∃ lv n s', K.p.live[c.pc]? = some lv ∧
      steps K.cfg n s = some s' ∧ Inv K fr c' s' ∧ RelOn (fun t => lv.testBit t = true) c' (view s')) ∧
    (∀ c', Bc.step K.p K.limited c = .stop c' → ∀ k, ∃ n s', run K.cfg (n + k) s = .ret s' ∧
      s'.regs.rax = 0 ∧ Final fr K.p.temps c' s' ∧ s'.budget = s.budget) := by
  obtain ⟨lv, its, xs, hI⟩ := K.instrAt hi
  obtain ⟨rs, pre, post, hrs, hpre, hpost, hits, hfa, hfs⟩ := emit_inp hI.emit
  have hszb := K.hszb
  have hnext : K.loc (c.pc + 1) ≤ K.loc K.n := K.loc_le hI.lt
  -- layout
  have hres := hI.res
  have hnx := hI.next
  rw [hits] at hres hnx
  obtain ⟨ys, hxs, hres2⟩ := resolveItems_plains hres
  obtain ⟨y1, y2, hj, hres3, ey⟩ := resolveItems_cons _ _ _ hres2
  obtain ⟨y3, e3, hres4⟩ := resolveItems_plain_cons hres3
  have e4 := resolveItems_nil' hres4
  subst e4 e3
  simp only [itemsSize_append, itemsSize_plains, itemsSize_cons, itemsSize_nil, Item.size] at hnx
  obtain ⟨d, hd, hdt, hfd⟩ := K.resolve_jccTerm hj (by omega)
  subst hd ey
  obtain ⟨P, hP⟩ : ∃ P, P = pre ++ [st64 (.reg .rdi) cxt,
    .movRImm64 scr0 (BitVec.ofNat 64 K.cfg.aI.toNat).toInt, .callInd (.reg scr0)] ++ post := ⟨_, rfl⟩
  rw [← hP] at hnx hdt
  have hat : At K.cfg K.code s.pc (pre ++ ([st64 (.reg .rdi) cxt] ++ [] ++
      [.movRImm64 scr0 (BitVec.ofNat 64 K.cfg.aI.toNat).toInt, .callInd (.reg scr0)]) ++ post ++
      ([.cmpRmImm8 .b64 (.reg .rax) (-1)] ++ ([.jccRel32 .equal d] ++ [storeReg K.C.sz dst .rax]))) := by
    have := hI.at_
    rw [hxs, ← hinv.pc] at this
    simpa using this
  -- the call sequence
  have hal : s.regs.rsp.toNat % 16 = 0 := by rw [hinv.rsp]; exact hinv.align
  obtain ⟨n, s4, hst, h4⟩ := call_seq (ret := (inpRes s.env s.trace).1) (env := (inpRes s.env s.trace).2.1)
    (trace := (inpRes s.env s.trace).2.2) hrs hpre hpost hat hfa hinv.rbx hal (fun _ => True)
    (fun sa hk hat' => ⟨sa, rfl, fun _ _ => rfl, rfl, StackKeep.rfl' sa, by simp, trivial⟩)
    (fun sb s2 _ _ hat2 hrax hal2 hrdi henv htr => by
      have := step_call_input hat2 hrax hal2 hrdi
      refine ⟨_, this, ?_⟩
      unfold inpRes
      rw [← henv, ← htr]
      cases s2.env.readByte <;> exact ⟨rfl, rfl, rfl, rfl, rfl, rfl, rfl, rfl, rfl, rfl, rfl, rfl, rfl⟩)
  obtain ⟨hstk4, hrax4, hsv4, hcs4, henv4, htr4, htape4, hlptr4, htok4, hbuf4, hsize4, hoff4, hbud4, hbase4, hpc4⟩ := h4
  have hA : AfterCall K rs s s4 (inpRes s.env s.trace).1 (inpRes s.env s.trace).2.1
      (inpRes s.env s.trace).2.2 :=
    ⟨hstk4, hrax4, hsv4, hcs4, henv4, htr4, htape4, hlptr4, htok4, hbuf4, hsize4, hoff4, hbud4, hbase4⟩
  have hpc4' : s4.pc = s.pc + sizeAll P := by rw [hpc4, hP]; simp
  -- cmp rax, -1
  have hat4 : At K.cfg K.code s4.pc ([.cmpRmImm8 .b64 (.reg .rax) (-1)] ++
      ([.jccRel32 .equal d] ++ [storeReg K.C.sz dst .rax])) := by
    rw [hpc4]; exact hat.drop
  have h5 := step_cmpRegImm hat4.take (by omega)
  obtain ⟨s5, hs5, e5⟩ : ∃ x : PState w, step K.cfg s4 = .next x ∧ x = _ := ⟨_, h5, rfl⟩
  have hat5 : At K.cfg K.code s5.pc ([.jccRel32 .equal d] ++ [storeReg K.C.sz dst .rax]) := by
    rw [e5]; exact hat4.drop
  obtain ⟨z, hz⟩ : ∃ z, z = decide ((inpRes s.env s.trace).1 = BitVec.ofInt 64 (-1)) := ⟨_, rfl⟩
  have hzf5 : s5.zf = some z := by
    rw [e5, hz]; simp only [PState.adv, cmpFlags]; rw [cmp_m1_zf, hrax4]
  have hsb5 : SameBut s4 s5 := by
    rw [e5]; exact ⟨rfl, rfl, rfl, ⟨rfl, rfl, rfl, rfl, rfl, rfl, rfl, rfl, rfl, rfl⟩⟩
  have hpc5 : s5.pc = s.pc + sizeAll P + 4 := by
    rw [e5]; simp only [PState.adv, cmpFlags, hpc4']
    rw [show (X86.cmpRmImm8 .b64 (.reg .rax) (-1)).size = 4 by decide]
  have h6 := step_jcc_zf (t := K.term) hat5.take hfd hzf5 (Or.inl rfl) (by
    rw [hpc5]
    simp only [sizeAll_append, sizeAll_cons, sizeAll_nil] at hdt
    rw [show (X86.cmpRmImm8 .b64 (.reg .rax) (-1)).size = 4 by decide, hinv.pc.symm] at hdt
    push_cast at hdt ⊢; omega)
  obtain ⟨s6, hs6, e6⟩ : ∃ x : PState w, step K.cfg s5 = .next x ∧ x = _ := ⟨_, h6, rfl⟩
  have hsb6 : SameBut s4 s6 := by
    refine hsb5.trans ?_; rw [e6]; exact ⟨rfl, rfl, rfl, ⟨rfl, rfl, rfl, rfl, rfl, rfl, rfl, rfl, rfl, rfl⟩⟩
  have hst6 : steps K.cfg (n + 1 + 1) s = some s6 := steps_trans (steps_trans hst (steps_one hs5)) (steps_one hs6)
  rw [stepOf_inp hi]
  have henvc : s.env = c.st.env := hinv.env
  constructor
  · -- the request succeeded
    intro c' hc'
    cases hrb : c.st.env.readByte with
    | failed e => rw [hrb] at hc'; cases hc'
    | absent => rw [hrb] at hc'; cases hc'
    | got b e =>
      rw [hrb] at hc'
      simp only [Bc.StepRes.next.injEq] at hc'
      have hres : inpRes s.env s.trace = (BitVec.ofNat 64 b.toNat, e, Ev.inp b :: s.trace) := by
        unfold inpRes; rw [henvc, hrb]
      rw [hres] at hA hz
      have hne : ¬ (BitVec.ofNat 64 b.toNat = BitVec.ofInt 64 (-1)) := by
        intro h
        have := congrArg BitVec.toNat h
        have hb := b.toNat_lt
        simp only [BitVec.toNat_ofNat] at this
        rw [Nat.mod_eq_of_lt (by omega)] at this
        have e : (BitVec.ofInt 64 (-1)).toNat = 18446744073709551615 := by decide
        omega
      have hz' : z = false := by rw [hz]; exact decide_eq_false hne
      have hpc6 : s6.pc = s5.pc + 6 := by rw [e6, hz']; rfl
      have hat6 : At K.cfg K.code s6.pc [storeReg K.C.sz dst .rax] := by
        rw [hpc6]; have := hat5.drop; simpa using this
      obtain ⟨s7, hs7, hv7, hpc7, hctl7, hstk7, hregs7⟩ := step_store hszb hdst hat6 hfs
      refine ⟨lv, n + 1 + 1 + 1, s7, hI.live, steps_trans hst6 (steps_one hs7), ?_, ?_⟩
      · obtain ⟨i1, i2, i3, i4, i5, i6, i7⟩ := hA.inv hinv
        subst hc'
        refine ⟨?_, ?_, ?_, ?_, ?_, ?_, ?_, hinv.align, ?_, ?_, ?_⟩
        rotate_right
        · exact i7.of_eq (by rw [hregs7, hsb6.regs]) (by rw [hctl7.buf, hsb6.ctl.buf])
            (by rw [hctl7.lptr, hsb6.ctl.lptr]) (by rw [hctl7.base, hsb6.ctl.base])
        · show s7.pc = K.loc (c.pc + 1)
          rw [hpc7, hpc6, hpc5, hnx, hinv.pc, hP]
          simp only [sizeAll_append, sizeAll_cons, sizeAll_nil]
          rw [show (X86.cmpRmImm8 .b64 (.reg .rax) (-1)).size = 4 by decide]
          omega
        · rw [hregs7, hsb6.regs]; exact i1
        · show s7.env = e
          rw [hctl7.env, hsb6.ctl.env, hA.env]
        · show s7.trace = Ev.inp b :: c.st.trace
          rw [hctl7.trace, hsb6.ctl.trace, hA.trace, hinv.trace]
        · show s7.budget.toNat = c.budget
          rw [hctl7.budget, hsb6.ctl.budget]; exact i6
        · rw [hctl7.tapeOk, hsb6.ctl.tapeOk]; exact i3
        · rw [hregs7, hsb6.regs]; exact i2
        · rw [hstk7, hsb6.stk]; exact i4
        · rw [hstk7, hsb6.stk]; exact i5
      · have r4 := hA.relOn hrs hrel
        have r6 : RelOn (fun t => lv.testBit t = true) c (view s6) :=
          relOn_of_view r4 hsb6.view_regs hsb6.view_tape hsb6.view_stack
        subst hc'
        rw [hv7]
        refine ⟨fun t r htr hl => r6.1 t r htr hl, fun t ht => r6.2.1 t ht, fun o => ?_⟩
        simp only [MState.setCell]
        have hrax6 : s6.regs.get .rax = BitVec.ofNat 64 b.toNat := by rw [hsb6.regs]; exact hA.rax
        rw [hrax6, lo_byte hw8]
        show _ = (State.wr c.st dst _).rd o
        rw [rd_wr]
        split
        · rfl
        · exact r6.2.2 o
  · -- the request failed: exit through the termination label
    intro c' hc' k
    have hfail : (inpRes s.env s.trace).1 = BitVec.ofInt 64 (-1) ∧
        (inpRes s.env s.trace).2.1 = c'.st.env ∧ (inpRes s.env s.trace).2.2 = c'.st.trace ∧
        c'.st.tape = c.st.tape ∧ c'.st.ptr = c.st.ptr := by
      unfold inpRes
      rw [henvc, hinv.trace]
      cases hrb : c.st.env.readByte with
      | got b e => rw [hrb] at hc'; cases hc'
      | failed e => rw [hrb] at hc'; cases hc'; exact ⟨rfl, rfl, rfl, rfl, rfl⟩
      | absent => rw [hrb] at hc'; cases hc'; exact ⟨rfl, rfl, rfl, rfl, rfl⟩
    have hz' : z = true := by rw [hz, hfail.1]; simp
    have hpc6 : s6.pc = K.term := by rw [e6, hz']; rfl
    obtain ⟨i1, i2, i3, i4, i5, i6, i7⟩ := hA.inv hinv
    obtain ⟨s', hrun, hrax, hret⟩ := exit_term K htemps (fr := fr) hpc6 (by rw [hsb6.regs]; exact i2)
      (by rw [hsb6.stk]; exact i4) (by rw [hsb6.stk]; exact i5) h7 k
    refine ⟨n + 1 + 1 + 9, s', ?_, hrax, ?_, ?_⟩
    · rw [Nat.add_assoc, run_of_steps hst6]; exact hrun
    · refine Final.of_returned hret ?_ ?_ ?_
      · rw [hsb6.ctl.env, hA.env]; exact hfail.2.1
      · rw [hsb6.ctl.trace, hA.trace]; exact hfail.2.2.1
      · intro o
        rw [hsb6.tape, hsb6.ctl.lptr, hA.tape, hA.lptr]
        have := hrel.2.2 o
        simp only [view, State.rd] at this ⊢
        rw [this, hfail.2.2.2.1, hfail.2.2.2.2]
    · rw [hret.budget, hsb6.ctl.budget, hA.budget]


/-- `mov r, [cell]` (zero-extending load at the cell width). -/
theorem step_load {cfg : Cfg} {code : List X86} {sz : Size} (hsz : sz.bits = w) {idx : Int}
    (hidx : -2147483648 ≤ idx ∧ idx < 2147483648) {r : Reg} (hr : r ≠ .rsp ∧ r ≠ .rbp) {rest : List X86}
    {s : PState w} (hat : At cfg code s.pc (load sz idx r :: rest)) (hfit : (load sz idx r).fits = true) :
    ∃ s', step cfg s = .next s' ∧ s'.regs = s.regs.set r ((s.tape.get (s.lptr + idx)).setWidth 64) ∧
      s'.stk = s.stk ∧ StackKeep s s' ∧ s'.pc = s.pc + (load sz idx r).size := by
  have hexec : exec (load sz idx r) (view s) =
      some ((view s).setReg r ((s.tape.get (s.lptr + idx)).setWidth 64)) := by
    have hfit' : (X86.movRRm sz r (memParam sz idx)).fits = true := hfit
    simp only [exec, load, hfit', if_true, execCore, resolve_memParam hsz hidx.1 hidx.2,
      Option.bind_eq_bind, Option.bind_some, readPlace_cell _ hsz, writeReg, hr.1, hr.2, or_self, if_false,
      sizedWrite_b64]
    rfl
  have hstep : step cfg s = stepPlain (load sz idx r) s := by
    rw [step_at hat, stepInstr_of_exec cfg hexec]
  have hst : stepPlain (load sz idx r) s =
      .next { s with regs := s.regs.set r ((s.tape.get (s.lptr + idx)).setWidth 64),
                     pc := s.pc + (load sz idx r).size, oob := s.oob || !(cellOk s idx) } := by
    unfold stepPlain
    simp only [hexec]
    have hp : placeOf w (load sz idx r) = some (.cell idx) := by
      simp only [placeOf, load, rmOf, Option.bind_some, resolve_memParam hsz hidx.1 hidx.2]
    simp only [hp]
    rw [if_pos (by rfl)]
    rfl
  exact ⟨_, hstep.trans hst, rfl, rfl, ⟨rfl, rfl, rfl, rfl, rfl, rfl, rfl, rfl, rfl, rfl⟩, rfl⟩

/-- `test al, al`. -/
theorem step_testAl {cfg : Cfg} {code : List X86} {rest : List X86} {s : PState w}
    (hat : At cfg code s.pc (.testRm8R8 (.reg .rax) .rax :: rest)) :
    step cfg s = .next ({ s with zf := some (trunc 8 (s.regs.get .rax &&& s.regs.get .rax) == 0),
                                 cf := some false }.adv (.testRm8R8 (.reg .rax) .rax)) := by
  rw [step_at hat]
  step_open (show (X86.testRm8R8 (.reg .rax) .rax).fits = true from rfl)
  simp [stepTest, needsRexByte]

theorem stepOf_out {p : Bc.Program w} {limited : Bool} {c : Bc.Cfg w} {src : Int}
    (hi : p.insts[c.pc]? = some (.out src)) :
    Bc.step p limited c =
      let b : UInt8 := UInt8.ofNat (Cell.intoU8 (c.st.rd src)).toNat
      if c.st.env.sink then
        match c.st.env.writeByte with
        | (true, e) => .next { c with pc := c.pc + 1, st := { c.st with env := e, trace := Ev.out b :: c.st.trace } }
        | (false, e) => .stop { c with st := { c.st with env := e, trace := Ev.outFail b :: c.st.trace } }
      else .next { c with pc := c.pc + 1 } := by
  simp only [Bc.step, hi, State.output]
  by_cases hs : c.st.env.sink = true
  · simp only [hs, if_true]
    rcases c.st.env.writeByte with ⟨b, e⟩
    cases b <;> rfl
  · simp only [hs, if_false]; rfl

/-- Result of `hpbf_context_output` for the environment `e`, trace `tr` and byte `b`: failed?, … -/
def outRes (e : Env) (tr : List Ev) (b : UInt8) : Bool × Env × List Ev :=
  if e.sink then
    match e.writeByte with
    | (true, e') => (false, e', Ev.out b :: tr)
    | (false, e') => (true, e', Ev.outFail b :: tr)
  else (false, e, tr)

theorem emit_out {sz : Size} {limited safe : Bool} {minAcc maxAcc : Int} {aE aI aO i live : Nat}
    {src : Int} {its : List Item}
    (h : emitInstr (w := w) sz limited safe minAcc maxAcc aE aI aO i live (.out src) = some its) :
    ∃ rs pre post, savedRegs live = some rs ∧ preCall live = some pre ∧ postCall live = some post ∧
      its = plains (pre ++ [st64 (.reg .rdi) cxt, load sz src .rsi,
        .movRImm64 scr0 (BitVec.ofNat 64 aO).toInt, .callInd (.reg scr0)] ++ post ++
        [.testRm8R8 (.reg .rax) .rax]) ++ [.jccTerm .notEqual] ∧
      (X86.movRImm64 scr0 (BitVec.ofNat 64 aO).toInt).fits = true ∧
      (load sz src .rsi).fits = true := by
  obtain ⟨hraw, hfit⟩ := emitInstr_raw h
  simp only [emitInstrRaw] at hraw
  cases hpre : preCall live with
  | none => simp [hpre] at hraw
  | some pre =>
    cases hpost : postCall live with
    | none => simp [hpre, hpost] at hraw
    | some post =>
      simp only [hpre, hpost, Option.bind_eq_bind, Option.bind_some, Option.some.injEq] at hraw
      obtain ⟨rs, hrs⟩ := preCall_saved hpre
      subst hraw
      refine ⟨rs, pre, post, hrs, rfl, rfl, rfl, ?_, ?_⟩
      · exact mem_all_fits hfit (by simp [plains])
      · exact mem_all_fits hfit (by simp [plains])

theorem test_merge (j : BitVec 64) (f : Bool) :
    (trunc 8 (mergeLow 8 j (if f then 1 else 0) &&& mergeLow 8 j (if f then 1 else 0)) == 0) = !f := by
  have h : trunc 8 (mergeLow 8 j (if f then 1 else 0)) = (if f then 1 else 0) := by
    unfold trunc mergeLow lowMask
    cases f
    · ext i hi
      simp
    · ext i hi
      simp
  rw [BitVec.and_self, h]
  cases f <;> decide


theorem flow_out (K : Ctx w) (htemps : alignedTemps K.p.temps * 8 < 2147483648)
    {fr : Frame} (h7 : fr.saved.length = 7) {c : Bc.Cfg w} {s : PState w} {src : Int}
    (hi : K.p.insts[c.pc]? = some (.out src)) (hsrc : -2147483648 ≤ src ∧ src < 2147483648)
    (hinv : Inv K fr c s) (hrel : Rel c (view s)) :
    (∀ c', Bc.step K.p K.limited c = .next c' → ∃ lv n s', K.p.live[c.pc]? = some lv ∧
      steps K.cfg n s = some s' ∧ Inv K fr c' s' ∧ RelOn (fun t => lv.testBit t = true) c' (view s')) ∧
    (∀ c', Bc.step K.p K.limited c = .stop c' → ∀ k, ∃ n s', run K.cfg (n + k) s = .ret s' ∧
      s'.regs.rax = 0 ∧ Final fr K.p.temps c' s' ∧ s'.budget = s.budget) := by
  obtain ⟨lv, its, xs, hI⟩ := K.instrAt hi
  obtain ⟨rs, pre, post, hrs, hpre, hpost, hits, hfa, hfl⟩ := emit_out hI.emit
  have hszb := K.hszb
  have hnext : K.loc (c.pc + 1) ≤ K.loc K.n := K.loc_le hI.lt
  -- layout
  have hres := hI.res
  have hnx := hI.next
  rw [hits] at hres hnx
  obtain ⟨ys, hxs, hres2⟩ := resolveItems_plains hres
  obtain ⟨y1, y2, hj, hres3, ey⟩ := resolveItems_cons _ _ _ hres2
  have e4 := resolveItems_nil' hres3
  subst e4
  simp only [itemsSize_append, itemsSize_plains, itemsSize_cons, itemsSize_nil, Item.size] at hnx
  obtain ⟨d, hd, hdt, hfd⟩ := K.resolve_jccTerm hj (by omega)
  subst hd ey
  obtain ⟨P, hP⟩ : ∃ P, P = pre ++ [st64 (.reg .rdi) cxt, load K.C.sz src .rsi,
    .movRImm64 scr0 (BitVec.ofNat 64 K.cfg.aO.toNat).toInt, .callInd (.reg scr0)] ++ post := ⟨_, rfl⟩
  rw [← hP] at hnx hdt
  have hat : At K.cfg K.code s.pc (pre ++ ([st64 (.reg .rdi) cxt] ++ [load K.C.sz src .rsi] ++
      [.movRImm64 scr0 (BitVec.ofNat 64 K.cfg.aO.toNat).toInt, .callInd (.reg scr0)]) ++ post ++
      ([.testRm8R8 (.reg .rax) .rax] ++ ([.jccRel32 .notEqual d] ++ []))) := by
    have := hI.at_
    rw [hxs, ← hinv.pc] at this
    simpa using this
  -- the byte and the result of the runtime function
  obtain ⟨b, hb⟩ : ∃ b : UInt8, b = UInt8.ofNat (Cell.intoU8 (c.st.rd src)).toNat := ⟨_, rfl⟩
  obtain ⟨R, hR⟩ : ∃ R, R = outRes s.env s.trace b := ⟨_, rfl⟩
  have hal : s.regs.rsp.toNat % 16 = 0 := by rw [hinv.rsp]; exact hinv.align
  have hcell : s.tape.get (s.lptr + src) = c.st.rd src := hrel.2.2 src
  obtain ⟨n, s4, hst, h4⟩ := call_seq (ret := mergeLow 8 (K.cfg.junk .rax) (if R.1 then 1 else 0))
    (env := R.2.1) (trace := R.2.2) hrs hpre hpost hat hfa hinv.rbx hal
    (fun sb => sb.regs.get .rsi = (c.st.rd src).setWidth 64)
    (fun sa hk hat' => by
      obtain ⟨sb, h1, h2, h3, h4, h5⟩ := step_load hszb hsrc (r := .rsi) (by decide) hat'.take hfl
      refine ⟨sb, steps_one h1, ?_, h3, h4, by simpa using h5, ?_⟩
      · intro r hr; rw [h2]; simp [hr]
      · rw [h2]; simp only [regfile_set_get, if_true]; rw [hk.tape, hk.lptr, hcell])
    (fun sb s2 hQ hrsi hat2 hrax hal2 hrdi henv htr => by
      have := step_call_output hat2 hrax K.hIO hal2 hrdi
      refine ⟨_, this, ?_⟩
      have hb2 : UInt8.ofNat (s2.regs.rsi.setWidth 8).toNat = b := by
        have : s2.regs.rsi = s2.regs.get .rsi := rfl
        rw [this, hrsi, hQ, hb]; rfl
      simp only [hb2]
      rw [hR]
      unfold outRes
      rw [← henv, ← htr]
      by_cases hs : s2.env.sink = true
      · simp only [hs, if_true]
        rcases s2.env.writeByte with ⟨ok, e⟩
        cases ok <;> exact ⟨rfl, rfl, rfl, rfl, rfl, rfl, rfl, rfl, rfl, rfl, rfl, rfl, rfl⟩
      · simp only [hs, Bool.false_eq_true, if_false]
        exact ⟨rfl, rfl, rfl, rfl, rfl, rfl, rfl, rfl, rfl, rfl, rfl, rfl, rfl⟩)
  obtain ⟨hstk4, hrax4, hsv4, hcs4, henv4, htr4, htape4, hlptr4, htok4, hbuf4, hsize4, hoff4, hbud4, hbase4, hpc4⟩ := h4
  have hA : AfterCall K rs s s4 (mergeLow 8 (K.cfg.junk .rax) (if R.1 then 1 else 0)) R.2.1 R.2.2 :=
    ⟨hstk4, hrax4, hsv4, hcs4, henv4, htr4, htape4, hlptr4, htok4, hbuf4, hsize4, hoff4, hbud4, hbase4⟩
  have hpc4' : s4.pc = s.pc + sizeAll P := by rw [hpc4, hP]; simp
  -- test al, al
  have hat4 : At K.cfg K.code s4.pc ([.testRm8R8 (.reg .rax) .rax] ++ ([.jccRel32 .notEqual d] ++ [])) := by
    rw [hpc4]; exact hat.drop
  have h5 := step_testAl hat4.take
  obtain ⟨s5, hs5, e5⟩ : ∃ x : PState w, step K.cfg s4 = .next x ∧ x = _ := ⟨_, h5, rfl⟩
  have hat5 : At K.cfg K.code s5.pc ([.jccRel32 .notEqual d] ++ []) := by
    rw [e5]; exact hat4.drop
  have hzf5 : s5.zf = some (!R.1) := by
    rw [e5]; simp only [PState.adv]; rw [hrax4, test_merge]
  have hsb5 : SameBut s4 s5 := by
    rw [e5]; exact ⟨rfl, rfl, rfl, ⟨rfl, rfl, rfl, rfl, rfl, rfl, rfl, rfl, rfl, rfl⟩⟩
  have hpc5 : s5.pc = s.pc + sizeAll P + 2 := by
    rw [e5]; simp only [PState.adv, hpc4']
    rw [show (X86.testRm8R8 (.reg .rax) .rax).size = 2 by decide]
  have h6 := step_jcc_zf (t := K.term) hat5.take hfd hzf5 (Or.inr rfl) (by
    rw [hpc5]
    simp only [sizeAll_append, sizeAll_cons, sizeAll_nil] at hdt
    rw [show (X86.testRm8R8 (.reg .rax) .rax).size = 2 by decide, hinv.pc.symm] at hdt
    push_cast at hdt ⊢; omega)
  obtain ⟨s6, hs6, e6⟩ : ∃ x : PState w, step K.cfg s5 = .next x ∧ x = _ := ⟨_, h6, rfl⟩
  have hsb6 : SameBut s4 s6 := by
    refine hsb5.trans ?_; rw [e6]; exact ⟨rfl, rfl, rfl, ⟨rfl, rfl, rfl, rfl, rfl, rfl, rfl, rfl, rfl, rfl⟩⟩
  have hst6 : steps K.cfg (n + 1 + 1) s = some s6 := steps_trans (steps_trans hst (steps_one hs5)) (steps_one hs6)
  have hpc6 : s6.pc = if R.1 then K.term else s5.pc + 6 := by
    rw [e6]; cases R.1 <;> rfl
  rw [stepOf_out hi]
  simp only [← hb]
  have hRc : R = outRes c.st.env c.st.trace b := by rw [hR, hinv.env, hinv.trace]
  obtain ⟨i1, i2, i3, i4, i5, i6, i7⟩ := hA.inv hinv
  -- the successful case, for a given final configuration
  have hnextcase : ∀ c' : Bc.Cfg w, R.1 = false → c'.pc = c.pc + 1 → c'.temps = c.temps →
      c'.budget = c.budget → c'.st.tape = c.st.tape → c'.st.ptr = c.st.ptr → c'.st.env = R.2.1 →
      c'.st.trace = R.2.2 →
      ∃ lv n s', K.p.live[c.pc]? = some lv ∧ steps K.cfg n s = some s' ∧ Inv K fr c' s' ∧
        RelOn (fun t => lv.testBit t = true) c' (view s') := by
    intro c' hR1 e1 e2 e3 e4 e5' e6' e7
    rw [hR1] at hpc6
    refine ⟨lv, n + 1 + 1, s6, hI.live, hst6, ?_, ?_⟩
    · refine ⟨?_, ?_, ?_, ?_, ?_, ?_, ?_, hinv.align, ?_, ?_, ?_⟩
      rotate_right
      · exact i7.of_eq (by rw [hsb6.regs]) hsb6.ctl.buf hsb6.ctl.lptr hsb6.ctl.base
      · rw [hpc6, e1, hpc5, hnx, hinv.pc]
        simp only [Bool.false_eq_true, if_false, sizeAll_append, sizeAll_cons, sizeAll_nil]
        rw [show (X86.testRm8R8 (.reg .rax) .rax).size = 2 by decide]
        omega
      · rw [hsb6.regs]; exact i1
      · rw [hsb6.ctl.env, hA.env, e6']
      · rw [hsb6.ctl.trace, hA.trace, e7]
      · rw [hsb6.ctl.budget, e3]; exact i6
      · rw [hsb6.ctl.tapeOk]; exact i3
      · rw [hsb6.regs]; exact i2
      · rw [hsb6.stk]; exact i4
      · rw [hsb6.stk]; exact i5
    · have r4 := hA.relOn hrs hrel
      have r6 : RelOn (fun t => lv.testBit t = true) c (view s6) :=
        relOn_of_view r4 hsb6.view_regs hsb6.view_tape hsb6.view_stack
      refine ⟨fun t r htr hl => ?_, fun t ht => ?_, fun o => ?_⟩
      · rw [e2]; exact r6.1 t r htr hl
      · rw [e2]; exact r6.2.1 t ht
      · have := r6.2.2 o
        simp only [State.rd] at this ⊢
        rw [e4, e5']; exact this
  constructor
  · intro c' hc'
    by_cases hs : c.st.env.sink = true
    · simp only [hs, if_true] at hc'
      cases hwb : c.st.env.writeByte with
      | mk ok e =>
        rw [hwb] at hc'
        cases ok with
        | false => cases hc'
        | true =>
          simp only [Bc.StepRes.next.injEq] at hc'
          have hRv : R = (false, e, Ev.out b :: c.st.trace) := by
            rw [hRc]; unfold outRes; simp only [hs, if_true, hwb]
          subst hc'
          exact hnextcase _ (by rw [hRv]) rfl rfl rfl rfl rfl (by rw [hRv]) (by rw [hRv])
    · simp only [hs, Bool.false_eq_true, if_false, Bc.StepRes.next.injEq] at hc'
      have hRv : R = (false, c.st.env, c.st.trace) := by
        rw [hRc]; unfold outRes; simp only [hs, Bool.false_eq_true, if_false]
      subst hc'
      exact hnextcase _ (by rw [hRv]) rfl rfl rfl rfl rfl (by rw [hRv]) (by rw [hRv])
  · intro c' hc' k
    have hfail : R.1 = true ∧ R.2.1 = c'.st.env ∧ R.2.2 = c'.st.trace ∧ c'.st.tape = c.st.tape ∧
        c'.st.ptr = c.st.ptr := by
      by_cases hs : c.st.env.sink = true
      · simp only [hs, if_true] at hc'
        cases hwb : c.st.env.writeByte with
        | mk ok e =>
          rw [hwb] at hc'
          cases ok with
          | true => cases hc'
          | false =>
            simp only [Bc.StepRes.stop.injEq] at hc'
            have hRv : R = (true, e, Ev.outFail b :: c.st.trace) := by
              rw [hRc]; unfold outRes; simp only [hs, if_true, hwb]
            subst hc'
            rw [hRv]; exact ⟨rfl, rfl, rfl, rfl, rfl⟩
      · simp only [hs, Bool.false_eq_true, if_false] at hc'; cases hc'
    rw [hfail.1] at hpc6
    obtain ⟨s', hrun, hrax, hret⟩ := exit_term K htemps (fr := fr) (by rw [hpc6]; rfl)
      (by rw [hsb6.regs]; exact i2) (by rw [hsb6.stk]; exact i4) (by rw [hsb6.stk]; exact i5) h7 k
    refine ⟨n + 1 + 1 + 9, s', ?_, hrax, ?_, ?_⟩
    · rw [Nat.add_assoc, run_of_steps hst6]; exact hrun
    · refine Final.of_returned hret ?_ ?_ ?_
      · rw [hsb6.ctl.env, hA.env]; exact hfail.2.1
      · rw [hsb6.ctl.trace, hA.trace]; exact hfail.2.2.1
      · intro o
        rw [hsb6.tape, hsb6.ctl.lptr, hA.tape, hA.lptr]
        have := hrel.2.2 o
        simp only [view, State.rd] at this ⊢
        rw [this, hfail.2.2.2.1, hfail.2.2.2.2]
    · rw [hret.budget, hsb6.ctl.budget, hA.budget]

end C03
end Hpbf
