/-
Rebuild-round proofs: the normal-form invariant, part 4: through loops.  `inline`, `loopOrIf`, `loopInsideIf`,
`finishLoop` keep `Wf` / `CanonSt` and append good code (`CStep`), given a good child state (`Child`).
-/
import Hpbf.Proofs.OptRbCanon3
import Hpbf.Proofs.OptRbLoopCut

namespace Hpbf
namespace OptProof
open Opt OptSem Ir

variable {w : Nat}

/-! ### small steps -/

/-- Followed by a change that leaves `pending`, `written`, `reverse`, `insts` alone. -/
theorem CStep.of_fields {s s1 s2 : Rebuild w} (h : CStep s s1) (hp : s2.pending = s1.pending)
    (hw : s2.written = s1.written) (hr : s2.reverse = s1.reverse) (hi : s2.insts = s1.insts) :
    CStep s s2 :=
  h.same ⟨by rw [hp]; exact h.wf.pend, by rw [hw]; exact h.wf.writ, by rw [hr]; exact h.wf.rev,
    by rw [hp, hr]; exact h.wf.revOk⟩ (h.canon.of_eq hp hw) hi

theorem uncertainShift_wf {s : Rebuild w} (h : Wf s) : Wf (uncertainShift s) :=
  ⟨h.pend, sorted_nil, h.rev, h.revOk⟩

theorem CStep.uncertainShift {s s1 : Rebuild w} (h : CStep s s1) : CStep s (uncertainShift s1) :=
  h.same (uncertainShift_wf h.wf) (uncertainShift_canon h.canon) rfl

theorem CStep.removePending {s s1 : Rebuild w} (h : CStep s s1) (var : Int) :
    CStep s (removePending s1 var).1 :=
  h.same (removePending_wf h.wf var) (removePending_canon h.wf h.canon var)
    (removePending_same s1 var).2.2.2.2.2.2.2.2.1

theorem CStep.insertWritten {s s1 : Rebuild w} (h : CStep s s1) (var : Int) (val : OptWrite w)
    (hv : ∀ e, val = .known e → Expr.Canon e) : CStep s (insertWritten s1 var val) :=
  h.same (insertWritten_wf h.wf var val) (insertWritten_canon h.canon var val hv)
    (insertWritten_same s1 var val).2.2.2.2.2.2.2.2.2.1

theorem known_val_canon (c : BitVec w) : ∀ e, (OptWrite.known (Expr.val c) : OptWrite w) = .known e →
    Expr.Canon e := by
  intro e h
  simp only [OptWrite.known.injEq] at h
  subst h; exact Expr.canon_val c

theorem writtenCalcs_wf {s : Rebuild w} (h : Wf s) (ps : List (Rebuild w)) (calcs : List (Int × Expr w)) :
    Wf (writtenCalcs s ps calcs) := by
  obtain ⟨hs, _, hwr⟩ := writtenCalcs_eq s ps calcs
  refine ⟨by rw [hs.2.2.2.2.2.2.2.1]; exact h.pend, by rw [hwr]; exact sorted_foldl_mSet _ h.writ,
    by rw [hs.2.2.2.2.2.2.2.2.1]; exact h.rev, ?_⟩
  rw [hs.2.2.2.2.2.2.2.1, hs.2.2.2.2.2.2.2.2.1]; exact h.revOk

theorem CStep.writtenCalcs {s s1 : Rebuild w} (h : CStep s s1) (ps : List (Rebuild w))
    {calcs : List (Int × Expr w)} (hcalcs : CanonCalcs calcs) : CStep s (writtenCalcs s1 ps calcs) :=
  h.same (writtenCalcs_wf h.wf ps calcs) (writtenCalcs_canon h.canon ps hcalcs)
    (writtenCalcs_eq s1 ps calcs).1.2.2.2.2.2.2.2.2.2.1

/-- A fold whose steps leave the state alone or remove one pending operation. -/
theorem foldl_remove_cstep {α β : Type} (f : Rebuild w × β → α → Rebuild w × β)
    (hf : ∀ acc x, (f acc x).1 = acc.1 ∨ ∃ k, (f acc x).1 = (removePending acc.1 k).1)
    {s : Rebuild w} (l : List α) (acc : Rebuild w × β) (h : CStep s acc.1) : CStep s (l.foldl f acc).1 := by
  induction l generalizing acc with
  | nil => exact h
  | cons x l ih =>
    simp only [List.foldl_cons]
    apply ih
    rcases hf acc x with e | ⟨k, e⟩
    · rw [e]; exact h
    · rw [e]; exact h.removePending k

/-! ### child states -/

/-- What is assumed about the state of a loop body. -/
structure Child (sub : Rebuild w) : Prop where
  wf : Wf sub
  canon : CanonSt sub
  good : GoodL sub.insts

theorem Child.step {a b : Rebuild w} (h : Child a) (r : CStep a b) : Child b := by
  obtain ⟨new, e, g⟩ := r.insts
  exact ⟨r.wf, r.canon, by rw [e]; exact goodL_append.2 ⟨h.good, g⟩⟩

theorem Child.of_fields {a b : Rebuild w} (h : Child a) (hp : b.pending = a.pending)
    (hw : b.written = a.written) (hr : b.reverse = a.reverse) (hi : b.insts = a.insts) : Child b :=
  h.step ((CStep.refl h.wf h.canon).of_fields hp hw hr hi)

theorem child_new (shift : Int) (cond : Option Int) (par : OptParent) (anal : Option (OptAnalysis w)) :
    Child (Rebuild.new shift cond par anal) :=
  ⟨wf_new _ _ _ _, canonSt_new _ _ _ _, goodL_nil⟩

theorem Child.forgetParent {a : Rebuild w} (h : Child a) : Child (forgetParent a) :=
  h.of_fields rfl rfl rfl rfl

/-! ### `popSubAnal`, `reverseSubBlocks`, `Rebuild.new`, `forgetParent` -/

theorem popSubAnal_fields (s : Rebuild w) :
    (popSubAnal s).1.pending = s.pending ∧ (popSubAnal s).1.written = s.written ∧
    (popSubAnal s).1.reverse = s.reverse ∧ (popSubAnal s).1.insts = s.insts ∧
    (popSubAnal s).1.noReturn = s.noReturn := by
  unfold popSubAnal
  split
  · split <;> exact ⟨rfl, rfl, rfl, rfl, rfl⟩
  · exact ⟨rfl, rfl, rfl, rfl, rfl⟩

theorem popSubAnal_cstep {s : Rebuild w} (hwf : Wf s) (hc : CanonSt s) : CStep s (popSubAnal s).1 := by
  obtain ⟨a, b, c, d, _⟩ := popSubAnal_fields s
  exact (CStep.refl hwf hc).of_fields a b c d

theorem reverseSubBlocks_cstep {s : Rebuild w} (hwf : Wf s) (hc : CanonSt s) :
    CStep s (reverseSubBlocks s) := by
  obtain ⟨_, _, _, _, _, _, f7, f8, f9, f10, _⟩ := reverseSubBlocks_fields s
  exact (CStep.refl hwf hc).of_fields f8 f7 f9 f10

theorem Child.reverseSubBlocks {a : Rebuild w} (h : Child a) : Child (reverseSubBlocks a) :=
  h.step (reverseSubBlocks_cstep h.wf h.canon)

theorem forgetParent_cstep {s : Rebuild w} (hwf : Wf s) (hc : CanonSt s) : CStep s (forgetParent s) :=
  (CStep.refl hwf hc).of_fields rfl rfl rfl rfl

/-! ### `inline` -/

theorem takeInlineOrder_mem {P l : List (Int × Expr w)} {os os' : Orders}
    (h : (takeInlineOrder P).run os = .ok (l, os')) : ∀ ve ∈ l, ve ∈ P := by
  have h' : takeInlineOrder P os = .ok (l, os') := h
  unfold takeInlineOrder at h'
  split at h'
  · cases h'; exact fun ve hve => hve
  · split at h'
    · dsimp only at h'
      split at h'
      · cases h'
        intro ve hve
        obtain ⟨k, _, hk⟩ := List.mem_filterMap.1 hve
        cases hg : mGet P k with
        | none => rw [hg] at hk; cases hk
        | some e =>
          rw [hg] at hk
          simp only [Option.map_some, Option.some.injEq] at hk
          rw [← hk]; exact mGet_some_mem hg
      · cases h'
    · cases h'

theorem Child.pending_calcs {sub : Rebuild w} (h : Child sub) {l : List (Int × Expr w)}
    (hl : ∀ ve ∈ l, ve ∈ sub.pending) : CanonCalcs l :=
  fun ve hve => h.canon.1 ve.1 ve.2 (mGet_of_mem h.wf.pend (hl ve hve))

theorem Child.written_calcs {sub : Rebuild w} (h : Child sub) :
    CanonCalcs (sub.written.filterMap (fun vk =>
      match vk.2 with
      | .known e => some (vk.1, e)
      | _ => none)) := by
  intro ve hve
  obtain ⟨vk, hvk, e1⟩ := List.mem_filterMap.1 hve
  obtain ⟨k, v⟩ := vk
  cases v with
  | known e =>
    simp only [Option.some.injEq] at e1
    rw [← e1]
    exact h.canon.2 k e (mGet_of_mem h.wf.writ hvk)
  | unknown => cases e1
  | maybe => cases e1

/-- `inline` after its first phase. -/
def inlineRest (s : Rebuild w) (ps : List (Rebuild w)) (sub : Rebuild w) : M (Rebuild w) := do
  let sc := sub.written.foldl (fun (acc : Rebuild w × List (Int × Bool)) vk =>
    if vk.2.isMaybe then (acc.1, acc.2 ++ [(vk.1, true)])
    else ((removePending acc.1 vk.1).1, acc.2 ++ [(vk.1, false)])) (s, [])
  let clobbered := Expr.stableSort (fun (a b : Int × Bool) => decide (a.1 ≤ b.1)) sc.2
  let s ← clobberAll ps clobbered sc.1
  let s := { s with insts := s.insts ++ sub.insts }
  let s := writtenCalcs s ps (sub.written.filterMap (fun vk =>
    match vk.2 with
    | .known e => some (vk.1, e)
    | _ => none))
  let s ←
    if sub.noReturn then pure { s with noReturn := true }
    else do
      let pending ← takeInlineOrder sub.pending
      let s ← performAll s ps 0 pending
      pure { s with shift := sub.shift }
  pure { s with subAnal := s.subAnal ++ sub.subAnal }

theorem inline_eq (s : Rebuild w) (ps : List (Rebuild w)) (sub : Rebuild w) :
    Opt.inline s ps sub =
      (if sub.subShift then do
        let s1 ← emitAll ps (pendingSorted s s) s
        let s2 ← pure (uncertainShift s1)
        inlineRest s2 ps sub
      else do
        let s1 ← emitReadAll ps (readsSorted sub s) s
        inlineRest s1 ps sub) := rfl

theorem inlineRest_canon {s : Rebuild w} {ps : List (Rebuild w)} {sub : Rebuild w} {os os' : Orders}
    {s' : Rebuild w} (hr : (inlineRest s ps sub).run os = .ok (s', os')) (hwf : Wf s) (hc : CanonSt s)
    (hsub : Child sub) : CStep s s' := by
  unfold inlineRest at hr
  dsimp only at hr
  rw [run_bind_ok] at hr
  obtain ⟨s2, os2, h5, h6⟩ := hr
  have r1' := foldl_remove_cstep (fun (acc : Rebuild w × List (Int × Bool)) (vk : Int × OptWrite w) =>
    if vk.2.isMaybe then (acc.1, acc.2 ++ [(vk.1, true)])
    else ((removePending acc.1 vk.1).1, acc.2 ++ [(vk.1, false)]))
    (by intro acc x; split
        · exact Or.inl rfl
        · exact Or.inr ⟨_, rfl⟩) sub.written (s, []) (CStep.refl hwf hc)
  have r2 : CStep s s2 := r1'.trans (clobberAll_canon ps _ h5 r1'.wf r1'.canon)
  have r2' : CStep s ({ s2 with insts := s2.insts ++ sub.insts } : Rebuild w) :=
    r2.push (r2.wf.pushInsts _) (r2.canon.pushInsts _) rfl hsub.good
  have r3 := r2'.writtenCalcs ps hsub.written_calcs
  split at h6
  · rw [run_bind_ok] at h6
    obtain ⟨s3, os3, h7, h8⟩ := h6
    rw [run_pure] at h7
    cases h7
    rw [run_pure] at h8
    cases h8
    exact (r3.of_fields rfl rfl rfl rfl).of_fields rfl rfl rfl rfl
  · rw [run_bind_ok] at h6
    obtain ⟨pend, os4, h9, h10⟩ := h6
    rw [run_bind_ok] at h10
    obtain ⟨s4, os5, h11, h12⟩ := h10
    rw [run_bind_ok] at h12
    obtain ⟨s5, os6, h13, h14⟩ := h12
    rw [run_pure] at h13
    cases h13
    rw [run_pure] at h14
    cases h14
    have r4 := r3.trans (performAll_canon h11 r3.wf r3.canon (hsub.pending_calcs (takeInlineOrder_mem h9)))
    exact (r4.of_fields rfl rfl rfl rfl).of_fields rfl rfl rfl rfl

theorem inline_canon {s : Rebuild w} {ps : List (Rebuild w)} {sub : Rebuild w} {os os' : Orders}
    {s' : Rebuild w} (hr : (Opt.inline s ps sub).run os = .ok (s', os')) (hwf : Wf s) (hc : CanonSt s)
    (hsub : Child sub) : CStep s s' := by
  rw [inline_eq] at hr
  split at hr
  · rw [run_bind_ok] at hr
    obtain ⟨s1, os1, h1, h2⟩ := hr
    rw [run_bind_ok] at h2
    obtain ⟨s2, os2, h3, h4⟩ := h2
    rw [run_pure] at h3
    cases h3
    have r1 := (emitAll_canon ps _ h1 hwf hc).uncertainShift
    exact r1.trans (inlineRest_canon h4 r1.wf r1.canon hsub)
  · rw [run_bind_ok] at hr
    obtain ⟨s1, os1, h1, h2⟩ := hr
    have r1 := emitReadAll_canon ps _ h1 hwf hc
    exact r1.trans (inlineRest_canon h2 r1.wf r1.canon hsub)

/-! ### `loopOrIf` -/

theorem clobberPhase_canon {s : Rebuild w} {ps : List (Rebuild w)} {sub : Rebuild w} {L : OptLoop w}
    {C : List Int} {os os' : Orders} {s' : Rebuild w}
    (hr : (clobberPhase s ps sub L C).run os = .ok (s', os')) (hwf : Wf s) (hc : CanonSt s) :
    CStep s s' := by
  unfold clobberPhase at hr
  split at hr
  · dsimp only at hr
    have r1 := foldl_remove_cstep (fun (acc : Rebuild w × List (Int × Bool)) (vk : Int × OptWrite w) =>
      if !C.contains vk.1 then
        if vk.2.isMaybe || !L.atLeastOnce then (acc.1, acc.2 ++ [(vk.1, true)])
        else ((removePending acc.1 vk.1).1, acc.2 ++ [(vk.1, false)])
      else acc)
      (by intro acc x; split
          · split
            · exact Or.inl rfl
            · exact Or.inr ⟨_, rfl⟩
          · exact Or.inl rfl) sub.written (s, []) (CStep.refl hwf hc)
    exact r1.trans (clobberAll_canon ps _ hr r1.wf r1.canon)
  · rw [run_pure] at hr
    cases hr
    exact CStep.refl hwf hc

theorem condZero_cstep {s s1 : Rebuild w} (h : CStep s s1) (sub : Rebuild w) (cond : Int) :
    CStep s (condZero s1 sub cond) := by
  unfold condZero
  split
  · split
    · exact h.insertWritten _ _ (known_val_canon _)
    · exact h
  · exact h

theorem loopPrep_canon {s : Rebuild w} {ps : List (Rebuild w)} {sub : Rebuild w} {cond : Int}
    {L : OptLoop w} {C : List Int} {os os' : Orders} {r : Rebuild w × Rebuild w × List Int}
    (hr : (loopPrep s ps sub cond L C).run os = .ok (r, os')) (hwf : Wf s) (hc : CanonSt s) :
    CStep s r.1 ∧ r.2.1.insts = sub.insts := by
  unfold loopPrep at hr
  split at hr
  · rw [run_bind_ok] at hr
    obtain ⟨s1, os1, h1, h2⟩ := hr
    rw [run_pure] at h2
    cases h2
    exact ⟨(emitAll_canon ps _ h1 hwf hc).uncertainShift, rfl⟩
  · dsimp only at hr
    rw [run_bind_ok] at hr
    obtain ⟨s1, os1, h1, h2⟩ := hr
    rw [run_bind_ok] at h2
    obtain ⟨s2, os2, h3, h4⟩ := h2
    rw [run_bind_ok] at h4
    obtain ⟨s3, os3, h5, h6⟩ := h4
    rw [run_pure] at h6
    cases h6
    have r1 := emitReadAll_canon ps _ h1 hwf hc
    have r2 := r1.trans (emitReadAll_canon ps _ h3 r1.wf r1.canon)
    have r3 := r2.trans (clobberPhase_canon h5 r2.wf r2.canon)
    exact ⟨condZero_cstep r3 _ _, rfl⟩

theorem loopTail_cstep {s s1 : Rebuild w} (h : CStep s s1) {sub : Rebuild w} (hg : GoodL sub.insts)
    (cond : Int) (isLoop : Bool) (L : OptLoop w) (hasShift : Bool) (clobbered : List Int) :
    CStep s (loopTail s1 sub cond isLoop L hasShift clobbered) := by
  have key : ∀ X : Rebuild w, CStep s X →
      CStep s ({ (if L.noContinue then { X with noReturn := true } else X) with
        subAnal := (if L.noContinue then { X with noReturn := true } else X).subAnal ++
          [OptAnalysis.mk L hasShift sub.reads clobbered sub.subAnal] } : Rebuild w) := by
    intro X hX
    by_cases hn : L.noContinue = true
    · rw [if_pos hn]; exact (hX.of_fields rfl rfl rfl rfl).of_fields rfl rfl rfl rfl
    · rw [if_neg hn]; exact hX.of_fields rfl rfl rfl rfl
  have hX : CStep s (if isLoop then
      insertWritten { s1 with insts := s1.insts ++ [Ir.Instr.loop cond (sub.shift - s1.shift) sub.insts L.atLeastOnce] }
        cond (.known (Expr.val 0#w))
    else { s1 with insts := s1.insts ++ [Ir.Instr.ifnz cond (sub.shift - s1.shift) sub.insts] }) := by
    split
    · exact (h.push (h.wf.pushInsts _) (h.canon.pushInsts _) rfl (goodL_loop.2 hg)).insertWritten _ _
        (known_val_canon _)
    · exact h.push (h.wf.pushInsts _) (h.canon.pushInsts _) rfl (goodL_ifnz.2 hg)
  exact key _ hX

theorem loopOrIf_canon {s : Rebuild w} {ps : List (Rebuild w)} {sub : Rebuild w} {cond : Int}
    {isLoop : Bool} {L : OptLoop w} {C : List Int} {os os' : Orders} {s' : Rebuild w}
    (hr : (loopOrIf s ps sub cond isLoop L C).run os = .ok (s', os')) (hwf : Wf s) (hc : CanonSt s)
    (hsub : Child sub) : CStep s s' := by
  obtain ⟨sub1, os1, r, h1, h2, rfl⟩ := loopOrIf_run hr
  have hsub1 : Child sub1 := by
    split at h1
    · exact hsub.step (emitAll_canon [] _ h1 hsub.wf hsub.canon)
    · rw [run_pure] at h1
      cases h1
      exact hsub
  obtain ⟨a, b⟩ := loopPrep_canon h2 hwf hc
  exact loopTail_cstep a (by rw [b]; exact hsub1.good) _ _ _ _ _

/-! ### `loopInsideIf` -/

theorem loopInsideIf_canon {s : Rebuild w} {ps : List (Rebuild w)} {sub : Rebuild w} {cond : Int}
    {L : OptLoop w} {after : List (Int × Expr w)} {C : List Int} {os os' : Orders} {s' : Rebuild w}
    (hr : (loopInsideIf s ps sub cond L after C).run os = .ok (s', os')) (hwf : Wf s) (hc : CanonSt s)
    (hsub : Child sub) (hafter : CanonCalcs after) : CStep s s' := by
  unfold loopInsideIf at hr
  dsimp only at hr
  split at hr
  · rw [run_bind_ok] at hr
    obtain ⟨s1, os1, h1, h2⟩ := hr
    have r1 := inline_canon h1 hwf hc hsub
    exact r1.trans (performAll_canon h2 r1.wf r1.canon hafter)
  · split at hr
    · rw [run_bind_ok] at hr
      obtain ⟨s1, os1, h1, h2⟩ := hr
      have r1 := performAll_canon h1 hwf hc (calcs := [(cond, Expr.val 0#w)]) (by
        intro ve hve
        simp only [List.mem_singleton] at hve
        subst hve; exact Expr.canon_val (0#w))
      exact r1.trans (performAll_canon h2 r1.wf r1.canon hafter)
    · rw [run_bind_ok] at hr
      obtain ⟨s1, os1, h1, h2⟩ := hr
      have r1 := loopOrIf_canon h1 hwf hc hsub
      exact r1.trans (performAll_canon h2 r1.wf r1.canon hafter)

end OptProof
end Hpbf
