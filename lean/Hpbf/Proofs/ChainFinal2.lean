/-
Chain, final (2): the CONVERSE direction for the machine code in unlimited mode, and totality of the repaired
optimizer.

With `C03.conv_run` / `C03.conv_diverges` (`Props/C03Conv.lean`: a return of the compiled function means that the
bytecode run has ended with the matching verdict and the same trace; a bytecode run that never ends keeps the machine
running without fault) – whose extra hypothesis `NoNoop p` holds for every `translate` output – the unlimited-mode
JIT conjunct of `AllBackends` becomes an equivalence (`AllBackends2`).  With `Props/C01Fixed.lean` a fitting oracle
for the repaired optimizer exists at every level and no oracle makes it panic (`all_levels_exists_final2`), and the
window fields of `JitRange` follow from the length of the text (`jitRange_window_of_length_final2`).
-/
import Hpbf.Proofs.ChainFinal
import Hpbf.Props.C03Conv
import Hpbf.Props.C01Fixed

namespace Hpbf
namespace Chain

open Bc BcWf BcGen C11 C02

variable {w : Nat}

/-- Every program `translate` returns is `noop`-free. -/
theorem noNoop_translate (blk : Ir.Block w) (numRegs : Nat) (fuse : Bool) :
    C03.NoNoop (translate blk numRegs fuse) := by
  intro i h
  have hm := Array.mem_of_getElem? h
  have := (translate_shape (translate_ok blk numRegs fuse)).2.1 _ hm
  simp [isNoop] at this

/-! ### the converse, generic in the program -/

section Jit
open Asm JitGen X86Sem X86Prog C03
variable {prog : Prog} {p : Bc.Program w} {env : Env} (A : BcAgrees prog p env)
  {safe : Bool} {cfg : X86Prog.Cfg} {code : List X86} {buf0 rsp0 ra : BitVec 64}
include A

/-- If the compiled function returns (unlimited mode), the canonical run terminates with that result. -/
theorem jit_converse_of_agrees (H : JitHyps p false safe cfg code buf0 rsp0 ra 0 env) (hnn : NoNoop p)
    {n : Nat} {s' : PState w}
    (hret : X86Prog.run cfg n (initState (w := w) cfg buf0 rsp0 ra p.minAcc p.maxAcc 0 env) = .ret s') :
    ∃ f, finBf (Bf.run (w := w) f prog env) = some (s'.regs.rax == 1, s'.trace) := by
  obtain ⟨fuel, c', hcase, hres⟩ := conv_run p false safe cfg H.comp H.fetch H.small H.addrIO H.addrEI H.addrEO
    H.check H.win H.temps H.shift hnn buf0 rsp0 ra H.rsp 0 H.budgetLt H.lim env H.noOOM hret
  rcases hcase with ⟨hr, hrax, _⟩ | ⟨hr, hrax, _⟩ | ⟨hr, _⟩
  · obtain ⟨f, s, hs, htr⟩ := A.2.1.1 fuel c' hr
    exact ⟨f, by simp only [hs, finBf, hrax, htr, hres.trace, beq_self_eq_true]⟩
  · obtain ⟨f, s, hs, htr⟩ := A.2.1.2 fuel c' hr
    have h01 : ((0 : BitVec 64) == 1) = false := by decide
    exact ⟨f, by simp only [hs, finBf, hrax, htr, hres.trace, h01]⟩
  · exact (translate_never_interrupted p fuel env c' hr).elim

/-- On a canonically divergent program the compiled function never returns and never faults. -/
theorem jit_never_returns_of_agrees (H : JitHyps p false safe cfg code buf0 rsp0 ra 0 env) (hnn : NoNoop p)
    (hdiv : C05.BfDiverges w prog env) (n : Nat) :
    (∀ r, X86Prog.run cfg n (initState (w := w) cfg buf0 rsp0 ra p.minAcc p.maxAcc 0 env) ≠ .ret r) ∧
    (∀ f r, X86Prog.run cfg n (initState (w := w) cfg buf0 rsp0 ra p.minAcc p.maxAcc 0 env) ≠ .fault f r) :=
  conv_diverges p false safe cfg H.comp H.fetch H.small H.addrIO H.addrEI H.addrEO H.check H.win H.temps H.shift
    hnn buf0 rsp0 ra H.rsp 0 H.budgetLt H.lim env H.noOOM
    (bc_runs_forever_of_agrees A hdiv (fun l b f c => C11.check_run_not_bad H.check l b f env c)) n

/-- Canonical semantics ≡ machine code (unlimited mode): the same finished results. -/
theorem same_jit_of_agrees (H : JitHyps p false safe cfg code buf0 rsp0 ra 0 env) (hnn : NoNoop p) :
    SameResults (fun f => finBf (Bf.run (w := w) f prog env))
      (fun n => finX86 (X86Prog.run cfg n (initState (w := w) cfg buf0 rsp0 ra p.minAcc p.maxAcc 0 env))) := by
  intro r
  constructor
  · intro hr
    exact jit_forward_fin_of_agrees A H r hr
  · rintro ⟨n, hn⟩
    dsimp only at hn
    cases hrun : X86Prog.run cfg n (initState (w := w) cfg buf0 rsp0 ra p.minAcc p.maxAcc 0 env) with
    | ret s' =>
      rw [hrun] at hn
      simp only [finX86, Option.some.injEq] at hn
      subst hn
      exact jit_converse_of_agrees A H hnn hrun
    | fault f s' => rw [hrun] at hn; cases hn
    | fuel s' => rw [hrun] at hn; cases hn

end Jit

/-! ### all backends, with the machine code as an equivalence -/

/-- As `AllBackends`, with the unlimited-mode machine-code conjunct strengthened to `SameResults`: the compiled
function returns exactly when the canonical run terminates, `rax = 1` exactly when it ran off the end, with exactly
the canonical events. -/
def AllBackends2 (code : Array Kind) (prog : Prog) (b' : Ir.Block w) (numRegs : Nat) (fuse : Bool) (env : Env) :
    Prop :=
  let canon : Nat → Fin := fun f => finBf (Bf.run (w := w) f prog env)
  let p : Bc.Program w := translate b' numRegs fuse
  let pj : Bc.Program w := translate b' 11 false
  SameResults canon (fun f => finInplace (Inplace.run (w := w) code false 0 f env)) ∧
  SameResults canon (fun f => finIr (Ir.run b' false 0 f env)) ∧
  SameResults canon (fun f => finBc (Bc.run p false 0 f env)) ∧
  SameResults canon (fun f => finBc (C02.runDebug p false 0 f env)) ∧
  (∀ (sz : Asm.Size) (safe : Bool) (cfg : X86Prog.Cfg) (buf0 rsp0 ra : BitVec 64),
    JitRange sz pj false safe cfg buf0 rsp0 ra 0 env →
    SameResults canon (fun n => finX86
      (X86Prog.run cfg n (X86Prog.initState (w := w) cfg buf0 rsp0 ra pj.minAcc pj.maxAcc 0 env)))) ∧
  (∀ (sz : Asm.Size) (safe : Bool) (cfg : X86Prog.Cfg) (buf0 rsp0 ra : BitVec 64) (bd : Nat),
    JitRange sz pj true safe cfg buf0 rsp0 ra bd env →
    ∃ n r, finX86 (X86Prog.run cfg n (X86Prog.initState (w := w) cfg buf0 rsp0 ra pj.minAcc pj.maxAcc bd env))
        = some r ∧
      (r.1 = true → ∃ f, canon f = some r) ∧
      ∃ f, ∀ g, f ≤ g → r.2 <:+ C01.traceOfBf (Bf.run (w := w) g prog env))

theorem allBackends2_of_agrees {code : Array Kind} {prog : Prog} (hp : Bf.tree code.toList = some prog)
    {b' : Ir.Block w} {env : Env} (I : IrAgrees prog b' env) (ho : OnceOk b' env) (numRegs : Nat)
    (fuse : Bool) : AllBackends2 code prog b' numRegs fuse env := by
  obtain ⟨h1, h2, h3, h4, _, h6⟩ := allBackends_of_agrees (code := code) hp I ho numRegs fuse
  have Aj := bcAgrees_of_ir I ho 11 false
  refine ⟨h1, h2, h3, h4, ?_, h6⟩
  intro sz safe cfg buf0 rsp0 ra R
  exact same_jit_of_agrees Aj (jitHyps_of_range (translate_ok b' 11 false) R) (noNoop_translate b' 11 false)

theorem AllBackends2.toAllBackends {code : Array Kind} {prog : Prog} {b' : Ir.Block w} {numRegs : Nat}
    {fuse : Bool} {env : Env} (h : AllBackends2 code prog b' numRegs fuse env) :
    AllBackends code prog b' numRegs fuse env := by
  obtain ⟨h1, h2, h3, h4, h5, h6⟩ := h
  exact ⟨h1, h2, h3, h4, fun sz safe cfg buf0 rsp0 ra R r hr => (h5 sz safe cfg buf0 rsp0 ra R r).1 hr, h6⟩

/-! ### the repaired optimizer, every level -/

section Final2
variable (hw : 0 < w) {src : List Kind} {prog : Prog} (hp : Bf.tree src = some prog)
  {b b' : Ir.Block w} (hb : Ir.parse (w := w) src = .ok b) {level : Nat} {orders : Opt.Orders}
  (hopt : OptFix.optimizeF b level orders = .ok b') (env : Env)
include hw hp hb hopt

section
open Asm JitGen X86Sem X86Prog C03
variable {sz : Size} {safe : Bool} {cfg : X86Prog.Cfg} {buf0 rsp0 ra : BitVec 64}

/-- **Converse** (unlimited mode): if the compiled function returns, the canonical run terminates, with the ending
`rax` reports and exactly the events of the machine. -/
theorem jit_final_converse (R : JitRange sz (translate b' 11 false) false safe cfg buf0 rsp0 ra 0 env)
    {n : Nat} {s' : PState w}
    (hret : X86Prog.run cfg n (initState (w := w) cfg buf0 rsp0 ra (translate b' 11 false).minAcc
      (translate b' 11 false).maxAcc 0 env) = .ret s') :
    ∃ f, finBf (Bf.run (w := w) f prog env) = some (s'.regs.rax == 1, s'.trace) :=
  jit_converse_of_agrees (bcAgrees_final hw hp hb hopt env 11 false)
    (jitHyps_of_range (translate_ok b' 11 false) R) (noNoop_translate b' 11 false) hret

/-- **Divergence**: on a canonically divergent program the compiled function never returns and never faults. -/
theorem jit_final_never_returns (R : JitRange sz (translate b' 11 false) false safe cfg buf0 rsp0 ra 0 env)
    (hdiv : C05.BfDiverges w prog env) (n : Nat) :
    (∀ r, X86Prog.run cfg n (initState (w := w) cfg buf0 rsp0 ra (translate b' 11 false).minAcc
      (translate b' 11 false).maxAcc 0 env) ≠ .ret r) ∧
    (∀ f r, X86Prog.run cfg n (initState (w := w) cfg buf0 rsp0 ra (translate b' 11 false).minAcc
      (translate b' 11 false).maxAcc 0 env) ≠ .fault f r) :=
  jit_never_returns_of_agrees (bcAgrees_final hw hp hb hopt env 11 false)
    (jitHyps_of_range (translate_ok b' 11 false) R) (noNoop_translate b' 11 false) hdiv n

/-- **Equivalence** (unlimited mode). -/
theorem jit_final_same (R : JitRange sz (translate b' 11 false) false safe cfg buf0 rsp0 ra 0 env) :
    SameResults (fun f => finBf (Bf.run (w := w) f prog env))
      (fun n => finX86 (X86Prog.run cfg n (initState (w := w) cfg buf0 rsp0 ra (translate b' 11 false).minAcc
        (translate b' 11 false).maxAcc 0 env))) :=
  same_jit_of_agrees (bcAgrees_final hw hp hb hopt env 11 false)
    (jitHyps_of_range (translate_ok b' 11 false) R) (noNoop_translate b' 11 false)

end

omit hw hp in
/-- The access window of the bytecode for the repaired optimizer's output lies within `[-length, length]` of the
source (any level, any oracle, any register count, fusion on/off). -/
theorem translate_window_final2 (numRegs : Nat) (fuse : Bool) :
    -(src.length : Int) ≤ (translate b' numRegs fuse).minAcc ∧
    (translate b' numRegs fuse).maxAcc ≤ (src.length : Int) := by
  obtain ⟨_, _, h1, h2, _⟩ := translate_shape (translate_ok b' numRegs fuse)
  rw [h1, h2]
  exact OptProof.optimizedF_window_le_length' hb hopt

omit hw hp in
/-- Hence the window fields of `JitRange` (`win`, `dispMin`, `dispMax`, both parts of `dispNeg`) follow from
`bytes * length < 2^31`. -/
theorem jitRange_window_of_length_final2 (numRegs : Nat) (fuse : Bool) (sz : Asm.Size)
    (hlen : (sz.bytes : Int) * src.length < 2147483648) :
    let p := translate b' numRegs fuse
    (-2147483648 < p.minAcc ∧ p.maxAcc < 2147483648) ∧ C03.DispOk sz p.minAcc ∧ C03.DispOk sz p.maxAcc ∧
    C03.DispOk sz (-p.minAcc) ∧ C03.DispOk sz (-p.maxAcc) := by
  intro p
  obtain ⟨h1, h2⟩ := translate_window_final2 hb hopt numRegs fuse
  obtain ⟨_, _, e1, e2, _⟩ := translate_shape (translate_ok b' numRegs fuse)
  have z := Local.analyze_covers b'
  have hmin0 : p.minAcc ≤ 0 := by show (translate b' numRegs fuse).minAcc ≤ 0; rw [e1]; exact z.1
  have hmax0 : 0 ≤ p.maxAcc := by show 0 ≤ (translate b' numRegs fuse).maxAcc; rw [e2]; exact z.2.1
  have h1' : -(src.length : Int) ≤ p.minAcc := h1
  have h2' : p.maxAcc ≤ (src.length : Int) := h2
  unfold C03.DispOk
  cases sz <;> simp only [Asm.Size.bytes] at hlen ⊢ <;> omega

end Final2

/-- **Every level, every backend, machine code as an equivalence** (repaired optimizer).

ASSUMED: exactly what `all_levels_all_backends` assumes – `code` balanced with bracket tree `prog`, `w ≥ 1`, any
`level`, ANY oracle `orders` with `OptFix.optimizeF (parse code) level orders = .ok b'`, any `env`, `numRegs`,
`fuse`; `JitRange` for the two machine-code conjuncts.

CONCLUDED (`AllBackends2`), with `canon f` the result of the canonical run with fuel `f`:
1.–4. the in-place interpreter, the IR interpreter on `b'`, the bytecode interpreter on `translate b' numRegs fuse`
   in both dispatch modes: exactly the canonical finished results (`SameResults`);
5. the machine code for `translate b' 11 false`, unlimited mode: `SameResults` as well – the function returns iff the
   canonical run terminates, with `rax = 1` iff it ran off the end, and with exactly the canonical events (so on a
   canonically divergent program it never returns; it never faults either: `jit_final_never_returns`);
6. limited mode, any budget: the function returns; `rax = 1` only with the complete canonical event sequence of a
   run that ran off the end; always an initial part of the canonical events. -/
theorem all_levels_all_backends_final2 (hw : 0 < w) (code : Array Kind) (prog : Prog)
    (hp : Bf.tree code.toList = some prog) (level : Nat) (orders : Opt.Orders) (b' : Ir.Block w)
    (hopt : OptFix.optimizeF (irOf w code.toList) level orders = .ok b') (env : Env)
    (numRegs : Nat) (fuse : Bool) : AllBackends2 code prog b' numRegs fuse env := by
  have hb := parse_irOf (w := w) hp
  exact allBackends2_of_agrees hp (irAgrees_final hw hp hb hopt env) (onceOk_final hw hb hopt env) numRegs fuse

/-- **The repaired optimizer is total.**  For every balanced source and every level: no oracle makes the optimizer
panic (an error is always an oracle mismatch), a fitting oracle exists, and for EVERY oracle for which it succeeds
all backends agree with the canonical semantics, in every environment. -/
theorem all_levels_exists_final2 (hw : 0 < w) (code : Array Kind) (prog : Prog)
    (hp : Bf.tree code.toList = some prog) (level : Nat) :
    (∀ orders e, OptFix.optimizeF (irOf w code.toList) level orders = .error e →
      OptTotal.isOracleError e = true) ∧
    (∃ orders b', OptFix.optimizeF (irOf w code.toList) level orders = .ok b') ∧
    (∀ orders b', OptFix.optimizeF (irOf w code.toList) level orders = .ok b' →
      ∀ (env : Env) (numRegs : Nat) (fuse : Bool), AllBackends2 code prog b' numRegs fuse env) := by
  have hb := parse_irOf (w := w) hp
  exact ⟨fun orders e he => OptProof.optimizeF_no_panic_parse' hb level orders e he,
    OptProof.optimizeF_total_parse' hb level,
    fun orders b' hopt env numRegs fuse =>
      all_levels_all_backends_final2 hw code prog hp level orders b' hopt env numRegs fuse⟩

end Chain
end Hpbf
