/-
Rebuild-round proofs, stage 2: `inline` of a child that contains an uncertain pointer move (`sub.subShift`):
the parent emits everything and forgets; the child's knowledge (relative to the memory after its last move)
becomes the parent's.
-/
import Hpbf.Proofs.OptRbInline

namespace Hpbf
namespace OptProof
open Opt OptSem Ir

variable {w : Nat}

/-- `clobber` when nothing is pending: only the mark is recorded. -/
theorem clobber_nopending {s : Rebuild w} (ps : List (Rebuild w)) (hwf : Wf s) (hp : s.pending = [])
    (var : Int) (maybe : Bool) {os os' : Orders} {s' : Rebuild w}
    (hr : (clobber s ps var maybe).run os = .ok (s', os')) :
    Wf s' ∧ s'.pending = [] ∧ s'.insts = s.insts ∧ SameHdr s s' ∧ s'.noReturn = s.noReturn ∧
    s'.subAnal = s.subAnal ∧
    s'.written = mSet s.written var (if maybe then .maybe else .unknown) := by
  unfold clobber at hr
  rw [run_bind_ok] at hr
  obtain ⟨⟨s2, toEmit⟩, os1, h1, h2⟩ := hr
  rw [run_pure] at h2
  cases h2
  have hs0 : (if !maybe then (removePending s var).1 else s) = s := by
    cases maybe with
    | true => rfl
    | false => exact removePending_of_none (by rw [hp]; rfl)
  rw [hs0] at h1
  obtain ⟨g1, g2, g3, _, _, g6, g7, _, _⟩ := gatherForEmit_spec hwf var h1
  have hte : toEmit = [] := by
    cases toEmit with
    | nil => rfl
    | cons g rest =>
      have hne := (g6 g (by simp)).2
      cases g with
      | nil => exact absurd rfl hne
      | cons ve g' =>
        have := g7 (ve :: g') (by simp) ve (by simp)
        rw [hp] at this; simp [mGet] at this
  subst hte
  have hes : emitStructured s2 ps [] = s2 := rfl
  rw [hes]
  have hp2 : s2.pending = [] := by
    apply mGet_all_none_nil
    intro k
    cases h : mGet s2.pending k with
    | none => rfl
    | some e => have := g3 k e h; rw [hp] at this; simp [mGet] at this
  have hk : ∀ e, (if maybe then OptWrite.maybe else OptWrite.unknown : OptWrite w) ≠ .known e := by
    intro e; split <;> simp
  obtain ⟨i1, i2, i3, i4, i5, i6, i7, i8, i9, i10, i11⟩ := insertWritten_same s2 var (if maybe then .maybe else .unknown)
  refine ⟨insertWritten_wf g1 _ _, by rw [i8]; exact hp2, by rw [i10, g2.2.2.2.2.2.2.2.2.1],
    g2.hdr.trans ⟨i1, i2, i3, i4, i5⟩, by rw [i6, g2.2.2.2.2.2.1], by rw [i11, g2.2.2.2.2.2.2.2.2.2], ?_⟩
  rw [insertWritten_written', normW_nonknown _ hk, g2.2.2.2.2.2.2.2.1]

theorem clobberAll_nopending {s : Rebuild w} (ps : List (Rebuild w)) (cl : List (Int × Bool)) (hwf : Wf s)
    (hp : s.pending = []) {os os' : Orders} {s' : Rebuild w}
    (hr : (clobberAll ps cl s).run os = .ok (s', os')) :
    Wf s' ∧ s'.pending = [] ∧ s'.insts = s.insts ∧ SameHdr s s' ∧ s'.noReturn = s.noReturn ∧
    s'.subAnal = s.subAnal ∧
    (∀ v, (∃ b, (v, b) ∈ cl) → ∃ k, mGet s'.written v = some k ∧ ∀ e, k ≠ .known e) ∧
    (∀ v, (¬ ∃ b, (v, b) ∈ cl) → mGet s'.written v = mGet s.written v) := by
  induction cl generalizing s os with
  | nil =>
    unfold clobberAll at hr
    rw [List.foldlM_nil, run_pure] at hr
    cases hr
    exact ⟨hwf, hp, rfl, SameHdr.refl _, rfl, rfl, fun v ⟨b, hb⟩ => absurd hb (by simp), fun _ _ => rfl⟩
  | cons vb rest ih =>
    unfold clobberAll at hr
    rw [List.foldlM_cons, run_bind_ok] at hr
    obtain ⟨s1, os1, h1, h2⟩ := hr
    obtain ⟨a1, a2, a3, a4, a5, a6, a7⟩ := clobber_nopending ps hwf hp vb.1 vb.2 h1
    obtain ⟨b1, b2, b3, b4, b5, b6, b7, b8⟩ := ih a1 a2 (show (clobberAll ps rest s1).run os1 = _ from h2)
    refine ⟨b1, b2, b3.trans a3, a4.trans b4, b5.trans a5, b6.trans a6, ?_, ?_⟩
    · rintro v ⟨b, hb⟩
      by_cases hin : ∃ b', (v, b') ∈ rest
      · exact b7 v hin
      · rw [b8 v hin, a7, mGet_mSet]
        rcases List.mem_cons.1 hb with e | e
        · have : vb.1 = v := by rw [← e]
          rw [if_pos this]
          exact ⟨_, rfl, fun e' => by split <;> simp⟩
        · exact absurd ⟨b, e⟩ hin
    · intro v hv
      have hin : ¬ ∃ b', (v, b') ∈ rest := fun ⟨b', hb'⟩ => hv ⟨b', List.mem_cons_of_mem _ hb'⟩
      rw [b8 v hin, a7, mGet_mSet]
      have : ¬ vb.1 = v := fun e => hv ⟨vb.2, by rw [← e]; simp⟩
      rw [if_neg this]

/-- The parent's `written` after splicing a child that moved the pointer: the child's knowledge, relative to the
child's reference memory. -/
theorem inline_shift_wrok {ps : List (Rebuild w)} {s2 sub : Rebuild w} {M0c Eb : Mem w} (hwfc : Wf sub)
    (h2k : ∀ v, (∃ k, (v, k) ∈ sub.written) → ∃ k, mGet s2.written v = some k ∧ ∀ e, k ≠ .known e)
    (h2n : ∀ v, (¬ ∃ k, (v, k) ∈ sub.written) → mGet s2.written v = none)
    (hpar : s2.parent = .unknown) (hsub : s2.subShift = true) (hwy : WrOk sub M0c Eb)
    (insts' : List (Instr w)) :
    WrOk (writtenCalcs { s2 with insts := insts' } ps (knownsOf sub)) M0c Eb := by
  have hw2 : WrOk ({ s2 with insts := insts' } : Rebuild w) M0c M0c := by
    intro v
    show match mGet s2.written v with
      | some (.known e) => M0c v = ev e M0c
      | some _ => True
      | none => M0c v = M0c v
    by_cases hv : ∃ k, (v, k) ∈ sub.written
    · obtain ⟨k, hk1, hk2⟩ := h2k v hv
      rw [hk1]
      cases k with
      | known e => exact absurd rfl (hk2 e)
      | unknown => trivial
      | maybe => trivial
    · rw [h2n v hv]
  have hpk : PK ({ s2 with insts := insts' } : Rebuild w) ps M0c := pk_unknown ps M0c hpar hsub
  obtain ⟨_, _, hwr⟩ := writtenCalcs_eq ({ s2 with insts := insts' } : Rebuild w) ps (knownsOf sub)
  intro v
  rw [hwr]
  have hnd : (((knownsOf sub).map (fun vc => (vc.1, knownOf ({ s2 with insts := insts' } : Rebuild w) ps vc.2))).map
      (·.1)).Nodup := by
    rw [List.map_map]; exact nodup_knownsOf hwfc.writ
  by_cases hv : v ∈ (knownsOf sub).map (·.1)
  · obtain ⟨ve, hve, rfl⟩ := List.mem_map.1 hv
    rw [mGet_foldl_mSet_in _ _ ve.1 (knownOf ({ s2 with insts := insts' } : Rebuild w) ps ve.2) hnd
      (List.mem_map.2 ⟨ve, hve, rfl⟩)]
    have hkn : mGet sub.written ve.1 = some (.known ve.2) := (mem_knownsOf hwfc.writ ve.1 ve.2).1 hve
    by_cases hop : Expr.opCount ve.2 < 32
    · cases hc : evalWritten ({ s2 with insts := insts' } : Rebuild w) ps ve.2 with
      | none => simp only [knownOf, hop, hc, if_true]
      | some c =>
        simp only [knownOf, hop, hc, if_true]
        rw [hwy.known hkn, ← evalWritten_sound' hw2 hpk hc]
        exact (Expr.eval_normalize c M0c).symm
    · simp only [knownOf, hop, if_false]
  · have hv' : v ∉ ((knownsOf sub).map (fun vc => (vc.1, knownOf ({ s2 with insts := insts' } : Rebuild w) ps vc.2))).map
        (·.1) := by
      rw [List.map_map]; exact hv
    rw [mGet_foldl_mSet_notin _ _ _ hv']
    show match mGet s2.written v with
      | some (.known e) => Eb v = ev e M0c
      | some _ => True
      | none => Eb v = M0c v
    by_cases hvw : ∃ k, (v, k) ∈ sub.written
    · obtain ⟨k, hk1, hk2⟩ := h2k v hvw
      rw [hk1]
      cases k with
      | known e => exact absurd rfl (hk2 e)
      | unknown => trivial
      | maybe => trivial
    · rw [h2n v hvw]
      have : mGet sub.written v = none := by
        cases h : mGet sub.written v with
        | none => rfl
        | some k => exact absurd ⟨k, mGet_some_mem h⟩ hvw
      exact hwy.absent this

/-- `inline` of a child that moved the pointer uncertainly. -/
theorem inline_shift_ok {shP shC shS cS : Int} {bodyS : List (Instr w)}
    {s : Rebuild w} {ps : List (Rebuild w)} {sub : Rebuild w} {pc : List (Rebuild w)} {sub0 : Rebuild w}
    {os os' : Orders} {s' : Rebuild w} {G Gc : State w → Prop}
    (hr : (Opt.inline s ps sub).run os = .ok (s', os'))
    (hwf : Wf s) (hwfc : Wf sub) (hss : sub.subShift = true)
    (hrep : ChildRep Gc shP shC pc sub0 [] sub bodyS)
    (hentry : ∀ σE σS : State w, SameMem shP σS σE → σS.rd cS ≠ 0#w → Gc σS →
      ∃ M0, RelAt shP sub0 pc M0 σE σS)
    (hne : ∀ M0 σE σS, RelAt shP s ps M0 σE σS → G σS → σS.rd cS ≠ 0#w)
    (hGc : ∀ M0 σE σS, RelAt shP s ps M0 σE σS → G σS → Gc σS) :
    Wf s' ∧ s'.subShift = true ∧ s'.anal = s.anal ∧ s'.cond = s.cond ∧
    (sub.noReturn = true → s'.noReturn = true) ∧ (sub.noReturn = false → s'.shift = sub.shift) ∧
    ∃ new, s'.insts = s.insts ++ new ∧
      ∀ M0 σE σS, RelAt shP s ps M0 σE σS → G σS →
        Sim (fun a b => StepQ (shC + shS) ps s' M0 σE (a.mov shS) b) bodyS new σS σE ∧ ¬ Bad new σE := by
  rw [inline_eq, if_pos hss, run_bind_ok] at hr
  obtain ⟨s0, os0, h0, h1⟩ := hr
  rw [run_bind_ok] at h1
  obtain ⟨s1, os1, h1', h2⟩ := h1
  rw [run_pure] at h1'
  cases h1'
  obtain ⟨cP, resP, hclP⟩ := emitAll_clears ps (pendingSorted s s) hwf
    (fun k hk => (Hpbf.OptLoop.mem_pendingSorted s s k).2 hk) h0
  obtain ⟨u1, u2, u3, u4, u5, u6, u7, u8, u9, u10⟩ := uncertainShift_fields s0
  have hwf1 := uncertainShift_wf resP.wf
  obtain ⟨s2, os2, s4, h3, h4, rfl⟩ := inlineRest_run h2
  -- the fold over `sub.written` changes nothing but the list
  obtain ⟨i1, i2, i3, i4, _, _, _⟩ := cfold_spec ps (OptLoop.unknown true) [] sub.written (uncertainShift s0, []) hwf1
  rw [← ifold_eq] at i1 i2 i3 i4
  have hpf : (sub.written.foldl ifold (uncertainShift s0, [])).1.pending = [] := by
    apply mGet_all_none_nil
    intro k
    cases h : mGet (sub.written.foldl ifold (uncertainShift s0, [])).1.pending k with
    | none => rfl
    | some e =>
      have := i3 k e h
      rw [u4, hclP] at this; simp [mGet] at this
  obtain ⟨c1, c2, c3, c4, c5, c6, c7, c8⟩ := clobberAll_nopending ps _ i1 hpf h3
  have hmemcl : ∀ v, (∃ b, (v, b) ∈ Expr.stableSort (fun (a b : Int × Bool) => decide (a.1 ≤ b.1))
      (sub.written.foldl ifold (uncertainShift s0, [])).2) ↔ ∃ k, (v, k) ∈ sub.written := by
    intro v
    constructor
    · rintro ⟨b, hb⟩
      rw [(Expr.stableSort_perm _ _).mem_iff, i4] at hb
      rcases hb with h | ⟨vk, hvk, _, e⟩
      · simp at h
      · simp only [Prod.mk.injEq] at e
        exact ⟨vk.2, by rw [e.1]; exact hvk⟩
    · rintro ⟨k, hk⟩
      refine ⟨k.isMaybe || !(OptLoop.unknown true : OptLoop w).atLeastOnce, ?_⟩
      rw [(Expr.stableSort_perm _ _).mem_iff, i4]
      exact Or.inr ⟨(v, k), hk, by simp, rfl⟩
  have h2k : ∀ v, (∃ k, (v, k) ∈ sub.written) → ∃ k, mGet s2.written v = some k ∧ ∀ e, k ≠ .known e :=
    fun v hv => c7 v ((hmemcl v).2 hv)
  have h2n : ∀ v, (¬ ∃ k, (v, k) ∈ sub.written) → mGet s2.written v = none := by
    intro v hv
    rw [c8 v (fun h => hv ((hmemcl v).1 h)), i2.2.2.2.2.2.2.2.1, u3]; rfl
  have hhdr2 : SameHdr (uncertainShift s0) s2 := i2.hdr.trans c4
  have hpar2 : s2.parent = .unknown := by rw [hhdr2.1]; exact u1
  have hsub2 : s2.subShift = true := by rw [hhdr2.2.2.2.2]; exact u2
  have hanal2 : s2.anal = s.anal := by rw [hhdr2.2.1, u9, resP.hdr.2.1]
  have hcond2 : s2.cond = s.cond := by rw [hhdr2.2.2.2.1, u10, resP.hdr.2.2.2.1]
  -- the recorded state
  obtain ⟨hsame3, _, hwr3⟩ := writtenCalcs_eq ({ s2 with insts := s2.insts ++ sub.insts } : Rebuild w) ps (knownsOf sub)
  have hwf3 : Wf (writtenCalcs ({ s2 with insts := s2.insts ++ sub.insts } : Rebuild w) ps (knownsOf sub)) := by
    refine ⟨by rw [hsame3.2.2.2.2.2.2.2.1]; exact c1.pend, ?_, by rw [hsame3.2.2.2.2.2.2.2.2.1]; exact c1.rev,
      by rw [hsame3.2.2.2.2.2.2.2.1, hsame3.2.2.2.2.2.2.2.2.1]; exact c1.revOk⟩
    rw [hwr3]; exact sorted_foldl_mSet _ c1.writ
  have hinsts3 : (writtenCalcs ({ s2 with insts := s2.insts ++ sub.insts } : Rebuild w) ps (knownsOf sub)).insts
      = s.insts ++ cP.map Instr.calc ++ sub.insts := by
    rw [hsame3.2.2.2.2.2.2.2.2.2.1]
    show s2.insts ++ sub.insts = _
    rw [c3, i2.2.2.2.2.2.2.2.2.1, u8, resP.insts]
  have hp3 : (writtenCalcs ({ s2 with insts := s2.insts ++ sub.insts } : Rebuild w) ps (knownsOf sub)).pending = [] := by
    rw [hsame3.2.2.2.2.2.2.2.1]; exact c2
  have hpar3 : (writtenCalcs ({ s2 with insts := s2.insts ++ sub.insts } : Rebuild w) ps (knownsOf sub)).parent = .unknown := by
    rw [hsame3.1]; exact hpar2
  have hsub3 : (writtenCalcs ({ s2 with insts := s2.insts ++ sub.insts } : Rebuild w) ps (knownsOf sub)).subShift = true := by
    rw [hsame3.2.2.2.2.1]; exact hsub2
  have hnr3 : (writtenCalcs ({ s2 with insts := s2.insts ++ sub.insts } : Rebuild w) ps (knownsOf sub)).noReturn
      = s.noReturn := by
    rw [hsame3.2.2.2.2.2.1]
    show s2.noReturn = _
    rw [c5, i2.2.2.2.2.2.1, u7, resP.noRet]
  -- the semantic core
  have hcore : ∀ M0 σE σS, RelAt shP s ps M0 σE σS → G σS →
      Sim (fun a b => ∃ M0c, RelAt shC sub [] M0c b a ∧
          MInv (writtenCalcs ({ s2 with insts := s2.insts ++ sub.insts } : Rebuild w) ps (knownsOf sub)) ps M0c
            (memE b) (memE b))
        bodyS (cP.map Instr.calc ++ sub.insts) σS σE ∧ ¬ Bad (cP.map Instr.calc ++ sub.insts) σE := by
    intro M0 σE σS hrel hG
    have hrel1 := resP.relAt hrel
    have hm1 : SameMem shP σS (cP.foldl doCalc σE) := hrel1.sameMem hclP
    obtain ⟨M0c, hre⟩ := hentry _ _ hm1 (hne M0 σE σS hrel hG) (hGc M0 σE σS hrel hG)
    obtain ⟨hs, hb⟩ := hrep M0c _ _ hre (hGc M0 σE σS hrel hG)
    refine ⟨Sim.calcs_right cP (hs.mono ?_), by rw [bad_calcs_iff]; exact hb⟩
    rintro a b ⟨M0', hr', _⟩
    refine ⟨M0', hr', by rw [hp3, par_nil], ?_, pk_unknown ps M0' hpar3 hsub3⟩
    exact inline_shift_wrok hwfc h2k h2n hpar2 hsub2 hr'.inv.writ _
  unfold inlineEnd at h4
  split at h4
  · rename_i hnr
    rw [run_pure] at h4
    cases h4
    refine ⟨⟨hwf3.pend, hwf3.writ, hwf3.rev, hwf3.revOk⟩, hsub3,
      (show (writtenCalcs _ ps (knownsOf sub)).anal = _ from hsame3.2.1.trans hanal2),
      (show (writtenCalcs _ ps (knownsOf sub)).cond = _ from hsame3.2.2.2.1.trans hcond2),
      fun _ => rfl, fun h => absurd (hnr.symm.trans h) (by simp),
      cP.map Instr.calc ++ sub.insts, ?_, ?_⟩
    · show (writtenCalcs _ ps (knownsOf sub)).insts = _
      rw [hinsts3, List.append_assoc]
    · intro M0 σE σS hrel hG
      obtain ⟨hs, hb⟩ := hcore M0 σE σS hrel hG
      refine ⟨hs.mono ?_, hb⟩
      rintro a b ⟨M0c, hr', _⟩
      have := hr'.nr
      rw [hnr] at this; cases this
  · rename_i hnr
    rw [run_bind_ok] at h4
    obtain ⟨l, os3, h5, h6⟩ := h4
    rw [run_bind_ok] at h6
    obtain ⟨s5, os5, h7, h8⟩ := h6
    rw [run_pure] at h8
    cases h8
    obtain ⟨hl1, hl2⟩ := takeInlineOrder_cover hwfc.pend h5
    obtain ⟨c3', s3', res3, hwf5, hsame5, hminv5⟩ := performAll_spec hwf3 h7
    have hsub5 : s5.subShift = true := by
      rw [hsame5.2.2.2.2.1, res3.hdr.2.2.2.2]; exact hsub3
    have hpar5 : s5.parent = .unknown := by
      rw [hsame5.1, res3.hdr.1]; exact hpar3
    refine ⟨⟨hwf5.pend, hwf5.writ, hwf5.rev, hwf5.revOk⟩, hsub5,
      (show s5.anal = _ from (hsame5.2.1.trans res3.hdr.2.1).trans (hsame3.2.1.trans hanal2)),
      (show s5.cond = _ from (hsame5.2.2.2.1.trans res3.hdr.2.2.2.1).trans (hsame3.2.2.2.1.trans hcond2)),
      fun h => absurd h hnr, fun _ => rfl,
      (cP.map Instr.calc ++ sub.insts) ++ c3'.map Instr.calc, ?_, ?_⟩
    · show s5.insts = _
      rw [hsame5.2.2.2.2.2.2.2.2.1, res3.insts, hinsts3]
      simp only [List.append_assoc]
    · intro M0 σE σS hrel hG
      obtain ⟨hs, hb⟩ := hcore M0 σE σS hrel hG
      refine ⟨?_, ?_⟩
      · have : Sim (fun a b => StepQ (shC + shS) ps
            ({ ({ s5 with shift := sub.shift } : Rebuild w) with
              subAnal := ({ s5 with shift := sub.shift } : Rebuild w).subAnal ++ sub.subAnal }) M0 σE (a.mov shS) b)
            (bodyS ++ []) ((cP.map Instr.calc ++ sub.insts) ++ c3'.map Instr.calc) σS σE := by
          refine Sim.append hs ?_
          rintro a b ⟨M0c, hr', hm3⟩
          obtain ⟨m1, m2, m3⟩ := foldl_doCalc_meta c3' b
          refine Sim.of_atomic (atomic_calcs ([] : List (List (Int × Expr w)))) (atomic_calcs c3')
            hr'.tr.symm rfl (m3.trans hr'.tr.symm) (m2.trans hr'.env.symm) ?_
          intro _
          refine ⟨M0c, ⟨?_, ?_, ?_, ?_, ?_⟩, fun h => absurd (hsub5.symm.trans h) (by simp)⟩
          · show a.trace = (c3'.foldl doCalc b).trace
            rw [m3]; exact hr'.tr
          · show a.env = (c3'.foldl doCalc b).env
            rw [m2]; exact hr'.env
          · show a.ptr + shS = (c3'.foldl doCalc b).ptr + (shC + shS)
            rw [m1, hr'.ptr]; omega
          · show s5.noReturn = false
            rw [hsame5.2.2.2.2.2.1, res3.noRet, hnr3]; exact hrel.nr
          · have hS : memS (c3'.foldl doCalc b) (a.mov shS) = assignS 0 l (memE b) := by
              have e1 : memS (c3'.foldl doCalc b) (a.mov shS) = memS b a := by
                funext v
                show a.tape.get ((c3'.foldl doCalc b).ptr + v) = a.tape.get (b.ptr + v)
                rw [m1]
              rw [e1, hr'.inv.pend, assignS_eq_par hl1 hl2]
            have hE : memE (c3'.foldl doCalc b) = Mem.seq c3' (memE b) := memE_foldl_doCalc b c3' res3.nodup
            show MInv _ ps M0c (memE (c3'.foldl doCalc b)) (memS (c3'.foldl doCalc b) (a.mov shS))
            rw [hS, hE]
            have h5m := hminv5 M0c _ _ hm3
            exact ⟨h5m.pend, h5m.writ, pk_unknown ps M0c hpar5 hsub5⟩
        rw [List.append_nil] at this
        exact this
      · intro hbad
        rcases bad_append.1 hbad with h1' | ⟨σ1, _, h2'⟩
        · exact hb h1'
        · exact not_bad_of_noBlocks (noBlocks_calcs c3') _ h2'

end OptProof
end Hpbf
