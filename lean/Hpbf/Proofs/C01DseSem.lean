/-
Facts about the IR machine used by the soundness proof of the dead store elimination: `doCalc`, expression
evaluation depends on the variables only, reachability, `unexposedN`, blocks without pointer movement.
-/
import Hpbf.Proofs.C01DseStruct

namespace Hpbf
namespace C01Dse
open Ir OptDse

variable {w : Nat}

/-! ### expressions -/

theorem evalPart_congr (f g : Int → BitVec w) (p : Part w) (h : ∀ v ∈ p.vars, f v = g v) :
    Expr.evalPart f p = Expr.evalPart g p := by
  obtain ⟨coef, vars⟩ := p
  unfold Expr.evalPart
  simp only at h ⊢
  induction vars generalizing coef with
  | nil => rfl
  | cons v vs ih =>
    simp only [List.foldl_cons]
    rw [h v (by simp)]
    exact ih _ (fun x hx => h x (by simp [hx]))

theorem output_meta (s : State w) (off : Int) :
    (s.output off).2.ptr = s.ptr ∧ (s.output off).2.tape = s.tape := by
  unfold State.output
  split
  · split <;> exact ⟨rfl, rfl⟩
  · exact ⟨rfl, rfl⟩

theorem input_ptr (s : State w) (off : Int) : (s.input off).2.ptr = s.ptr := by
  unfold State.input
  split <;> rfl

theorem evaluate_congr (f g : Int → BitVec w) (e : Expr w) (h : ∀ v ∈ Expr.variables e, f v = g v) :
    Expr.evaluate e f = Expr.evaluate e g := by
  unfold Expr.evaluate
  generalize (0#w) = acc
  induction e generalizing acc with
  | nil => rfl
  | cons p ps ih =>
    simp only [List.foldl_cons]
    have hp : Expr.evalPart f p = Expr.evalPart g p :=
      evalPart_congr f g p (fun v hv => h v (by simp [Expr.variables, hv]))
    rw [hp]
    exact ih (fun v hv => h v (by
      simp only [Expr.variables, List.flatMap_cons, List.mem_append] at hv ⊢
      exact Or.inr hv)) _

/-! ### `doCalc` -/

def wrAll (s : State w) (vals : List (Int × BitVec w)) : State w :=
  vals.foldl (fun s vv => s.wr vv.1 vv.2) s

theorem doCalc_eq (s : State w) (calcs : List (Int × Expr w)) :
    doCalc s calcs = wrAll s (calcs.map (fun ve => (ve.1, Expr.evaluate ve.2 (fun off => s.rd off)))) := rfl

theorem wrAll_meta (s : State w) (vals : List (Int × BitVec w)) :
    (wrAll s vals).ptr = s.ptr ∧ (wrAll s vals).env = s.env ∧ (wrAll s vals).trace = s.trace := by
  induction vals generalizing s with
  | nil => exact ⟨rfl, rfl, rfl⟩
  | cons vv vals ih =>
    have := ih (s.wr vv.1 vv.2)
    exact this

theorem wrAll_get_notin (s : State w) (vals : List (Int × BitVec w)) (a : Int)
    (h : ∀ vv ∈ vals, s.ptr + vv.1 ≠ a) : (wrAll s vals).tape.get a = s.tape.get a := by
  induction vals generalizing s with
  | nil => rfl
  | cons vv vals ih =>
    have h1 := ih (s.wr vv.1 vv.2) (fun x hx => h x (by simp [hx]))
    have h2 : (s.wr vv.1 vv.2).tape.get a = s.tape.get a := by
      show (s.tape.set (s.ptr + vv.1) vv.2).get a = _
      rw [Tape.get_set_ne]
      exact fun e => h vv (by simp) e.symm
    show (wrAll (s.wr vv.1 vv.2) vals).tape.get a = _
    rw [h1, h2]

theorem wrAll_get_in (s : State w) (vals : List (Int × BitVec w)) (v : Int) (x : BitVec w)
    (hnd : (vals.map Prod.fst).Nodup) (h : (v, x) ∈ vals) : (wrAll s vals).tape.get (s.ptr + v) = x := by
  induction vals generalizing s with
  | nil => simp at h
  | cons vv vals ih =>
    have hnd' : vv.1 ∉ vals.map Prod.fst ∧ (vals.map Prod.fst).Nodup := List.nodup_cons.1 hnd
    show (wrAll (s.wr vv.1 vv.2) vals).tape.get (s.ptr + v) = x
    rcases List.mem_cons.1 h with h | h
    · subst h
      rw [wrAll_get_notin]
      · show (s.tape.set (s.ptr + v) x).get (s.ptr + v) = x
        simp
      · intro yy hy e
        have : yy.1 = v := by
          have : (s.wr v x).ptr = s.ptr := rfl
          rw [this] at e; omega
        exact hnd'.1 (by rw [← this]; exact List.mem_map.2 ⟨yy, hy, rfl⟩)
    · exact ih (s.wr vv.1 vv.2) hnd'.2 h

theorem doCalc_meta (s : State w) (calcs : List (Int × Expr w)) :
    (doCalc s calcs).ptr = s.ptr ∧ (doCalc s calcs).env = s.env ∧ (doCalc s calcs).trace = s.trace := by
  rw [doCalc_eq]; exact wrAll_meta _ _

theorem doCalc_get_notin (s : State w) (calcs : List (Int × Expr w)) (a : Int)
    (h : ∀ ve ∈ calcs, s.ptr + ve.1 ≠ a) : (doCalc s calcs).tape.get a = s.tape.get a := by
  rw [doCalc_eq]
  apply wrAll_get_notin
  intro vv hvv
  obtain ⟨ve, hve, rfl⟩ := List.mem_map.1 hvv
  exact h ve hve

theorem doCalc_get_in (s : State w) (calcs : List (Int × Expr w)) (v : Int) (e : Expr w)
    (hnd : (calcs.map Prod.fst).Nodup) (h : (v, e) ∈ calcs) :
    (doCalc s calcs).tape.get (s.ptr + v) = Expr.evaluate e (fun off => s.rd off) := by
  rw [doCalc_eq]
  apply wrAll_get_in
  · rw [List.map_map]
    exact hnd
  · exact List.mem_map.2 ⟨(v, e), h, rfl⟩

/-! ### `unwind` -/

theorem unwind_meta (st : State w) (ks : List (Cont w)) :
    (unwind st ks).env = st.env ∧ (unwind st ks).trace = st.trace ∧
      (unwind st ks).ptr = st.ptr + (ks.map Cont.shift).sum := by
  unfold unwind
  induction ks generalizing st with
  | nil => simp
  | cons k ks ih =>
    simp only [List.foldl_cons, List.map_cons, List.sum_cons]
    obtain ⟨h1, h2, h3⟩ := ih (st.mov k.shift)
    refine ⟨h1, h2, ?_⟩
    rw [h3]
    show st.ptr + k.shift + _ = _
    omega

/-! ### reachability -/

theorem cfgAt_snoc {lim : Bool} {f : Nat} {c0 c c1 : Cfg w} (h : cfgAt lim f c0 = some c)
    (hs : step lim c = .next c1) : cfgAt lim (f + 1) c0 = some c1 := by
  induction f generalizing c0 with
  | zero =>
    simp only [cfgAt] at h
    cases h
    simp [cfgAt, hs]
  | succ f ih =>
    rw [cfgAt] at h
    rw [cfgAt]
    cases hs0 : step lim c0 with
    | next c0' =>
      rw [hs0] at h
      exact ih h
    | halt _ => rw [hs0] at h; exact absurd h (by simp)
    | stop _ => rw [hs0] at h; exact absurd h (by simp)
    | interrupted _ => rw [hs0] at h; exact absurd h (by simp)

theorem Reach.init (lim : Bool) (bud : Nat) (b : Block w) (env : Env) :
    Reach lim bud b env (initCfg b bud env) := ⟨0, rfl⟩

theorem Reach.step {lim : Bool} {bud : Nat} {b : Block w} {env : Env} {c c1 : Cfg w}
    (h : Reach lim bud b env c) (hs : step lim c = .next c1) : Reach lim bud b env c1 := by
  obtain ⟨f, hf⟩ := h
  exact ⟨f + 1, cfgAt_snoc hf hs⟩

/-! ### `unexposedN` -/

theorem unexposed_stop {d : Nat} {c : Cfg w} (hne : ¬ (c.cur = [] ∧ c.conts.length ≤ d)) :
    (c.cur.isEmpty && decide (c.conts.length ≤ d)) = false := by
  cases hc : c.cur with
  | nil =>
    have : ¬ c.conts.length ≤ d := fun h' => hne ⟨hc, h'⟩
    simp [this]
  | cons _ _ => simp

theorem unexposed_noread {lim : Bool} {d : Nat} {a : Int} {c : Cfg w}
    (h : ∀ n, unexposedN lim d a n c = true) (hne : ¬ (c.cur = [] ∧ c.conts.length ≤ d)) :
    a ∉ stepReads c := by
  have := h 1
  rw [unexposedN, unexposed_stop hne] at this
  simp only [Bool.false_eq_true, if_false, Bool.and_eq_true, Bool.not_eq_true'] at this
  simpa using this.1

theorem unexposed_next {lim : Bool} {d : Nat} {a : Int} {c c1 : Cfg w}
    (h : ∀ n, unexposedN lim d a n c = true) (hne : ¬ (c.cur = [] ∧ c.conts.length ≤ d))
    (hs : step lim c = .next c1) (hw : a ∉ stepWrites c) : ∀ n, unexposedN lim d a n c1 = true := by
  intro n
  have := h (n + 1)
  rw [unexposedN, unexposed_stop hne, hs] at this
  simp only [Bool.false_eq_true, if_false, Bool.and_eq_true, Bool.or_eq_true] at this
  rcases this.2 with h' | h'
  · exact absurd (by simpa using h') hw
  · exact h'

/-! ### no pointer movement above depth `d` -/

/-- All continuations except the `d` outermost ones belong to blocks without pointer movement. -/
def nsAbove : List (Cont w) → Nat → Bool
  | [], _ => true
  | k :: ks, d => if ks.length < d then true else noShiftK k && nsAbove ks d

theorem nsAbove_push {k : Cont w} {ks : List (Cont w)} {d : Nat} (hk : noShiftK k = true)
    (h : nsAbove ks d = true) : nsAbove (k :: ks) d = true := by
  rw [nsAbove]; split
  · rfl
  · simp [hk, h]

theorem nsAbove_pop {k : Cont w} {ks : List (Cont w)} {d : Nat} (h : nsAbove (k :: ks) d = true)
    (hd : d ≤ ks.length) : noShiftK k = true ∧ nsAbove ks d = true := by
  rw [nsAbove, if_neg (by omega)] at h
  simpa using h

theorem nsAbove_le {ks : List (Cont w)} {d : Nat} (h : ks.length ≤ d) : nsAbove ks d = true := by
  cases ks with
  | nil => rfl
  | cons k ks =>
    rw [nsAbove, if_pos]
    simp only [List.length_cons] at h; omega

theorem noShiftL_cons {i : Instr w} {l : List (Instr w)} (h : noShiftL (i :: l) = true) :
    noShiftI i = true ∧ noShiftL l = true := by
  rw [noShiftL] at h; simpa using h

/-- One step of a configuration whose blocks above depth `d` do not move the pointer, unless the block at
depth `d` has just finished. -/
theorem noShift_step {lim : Bool} {d : Nat} {c c1 : Cfg w} (hcur : noShiftL c.cur = true)
    (hks : nsAbove c.conts d = true) (hd : d ≤ c.conts.length)
    (hne : ¬ (c.cur = [] ∧ c.conts.length ≤ d)) (hs : step lim c = .next c1) :
    noShiftL c1.cur = true ∧ nsAbove c1.conts d = true ∧ d ≤ c1.conts.length ∧ c1.st.ptr = c.st.ptr := by
  obtain ⟨cur, conts, budget, st⟩ := c
  simp only at hcur hks hd hne
  cases cur with
  | nil =>
    have hlen : ¬ conts.length ≤ d := fun h => hne ⟨rfl, h⟩
    cases conts with
    | nil => simp at hlen
    | cons k ks =>
      simp only [List.length_cons] at hlen hd
      obtain ⟨hk, hks'⟩ := nsAbove_pop hks (by omega)
      cases k with
      | loopEnd cond shift body rest =>
        simp only [noShiftK, Bool.and_eq_true, beq_iff_eq] at hk
        obtain ⟨⟨hsh, hbody⟩, hrest⟩ := hk
        subst hsh
        simp only [step] at hs
        split at hs
        · exact absurd hs (by simp)
        · split at hs
          · cases hs
            refine ⟨hbody, hks, by simp only [List.length_cons]; omega, ?_⟩
            simp [State.mov]
          · cases hs
            refine ⟨hrest, hks', by show d ≤ ks.length; omega, ?_⟩
            simp [State.mov]
      | ifEnd shift rest =>
        simp only [noShiftK, Bool.and_eq_true, beq_iff_eq] at hk
        obtain ⟨hsh, hrest⟩ := hk
        subst hsh
        simp only [step] at hs
        split at hs
        · exact absurd hs (by simp)
        · cases hs
          refine ⟨hrest, hks', by show d ≤ ks.length; omega, ?_⟩
          simp [State.mov]
  | cons i rest =>
    obtain ⟨hi, hrest⟩ := noShiftL_cons hcur
    cases i with
    | output src =>
      simp only [step] at hs
      split at hs
      · rename_i s' hout
        cases hs
        refine ⟨hrest, hks, hd, ?_⟩
        have := (output_meta st src).1
        rw [hout] at this; exact this
      · exact absurd hs (by simp)
    | input dst =>
      simp only [step] at hs
      split at hs
      · rename_i s' hin
        cases hs
        refine ⟨hrest, hks, hd, ?_⟩
        have := input_ptr st dst
        rw [hin] at this; exact this
      · exact absurd hs (by simp)
    | «calc» calcs =>
      simp only [step] at hs
      cases hs
      exact ⟨hrest, hks, hd, (doCalc_meta st calcs).1⟩
    | loop cond shift body once =>
      simp only [noShiftI, Bool.and_eq_true, beq_iff_eq] at hi
      simp only [step] at hs
      split at hs
      · cases hs
        refine ⟨hi.2, nsAbove_push (by simp [noShiftK, hi.1, hi.2, hrest]) hks, ?_, rfl⟩
        simp only [List.length_cons]; omega
      · cases hs
        exact ⟨hrest, hks, hd, rfl⟩
    | ifnz cond shift body =>
      simp only [noShiftI, Bool.and_eq_true, beq_iff_eq] at hi
      simp only [step] at hs
      split at hs
      · cases hs
        refine ⟨hi.2, nsAbove_push (by simp [noShiftK, hi.1, hrest]) hks, ?_, rfl⟩
        simp only [List.length_cons]; omega
      · cases hs
        exact ⟨hrest, hks, hd, rfl⟩

end C01Dse
end Hpbf
