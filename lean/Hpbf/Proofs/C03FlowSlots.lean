/-
C03 (control flow): the code the instruction selectors emit for an arithmetic / copy instruction touches
only stack slots of temporaries that occur in the instruction (`emitArith_slotOk`).

Every `r/m` operand in the emitted code is a register, a tape operand `memParam sz idx` (base `rbp`, never
a stack slot), or `tmpParam t` for a temporary `t` of the instruction (slot `t` when `11 ≤ t`); `lea` and
`mov r, imm64` have no `r/m` operand in the sense of `rmOf`.
-/
import Hpbf.Proofs.C03FlowBase
namespace Hpbf
namespace C03
open Asm JitGen X86Sem X86Prog
variable {w : Nat}

/-- Temporaries mentioned by an operand. -/
def locTmps {w : Nat} : Bc.Loc w → List Nat
  | .tmp t => [t]
  | _ => []

/-- Temporaries mentioned by an arithmetic / copy instruction. -/
def insTmps {w : Nat} : Bc.Instr w → List Nat
  | .copy d s => locTmps d ++ locTmps s
  | .add d a b | .sub d a b | .mul d a b => locTmps d ++ locTmps a ++ locTmps b
  | _ => []

/-! ### Operands -/

/-- If the operand denotes a stack slot, the slot is below `n`. -/
def RmOk (w n : Nat) (rm : RegMem) : Prop := ∀ k, X86Sem.resolve w rm = some (.slot k) → k < n

/-- The temporary is below `n` and its number is a value of `i32`. -/
def TOk (n t : Nat) : Prop := t < n ∧ t < 2147483648

/-- The temporaries of the operand are below `n` (and in range). -/
def LocT (n : Nat) : Bc.Loc w → Prop
  | .tmp t => TOk n t
  | _ => True

/-- Every instruction of the list is `SlotOk`. -/
def AllOk (w n : Nat) (xs : List X86) : Prop := ∀ x ∈ xs, SlotOk w n x

/-- The selector's answer, if any, is `AllOk`. -/
def OptOk (w n : Nat) (o : Option (List X86)) : Prop := ∀ xs, o = some xs → AllOk w n xs

@[simp] theorem rmOk_reg (n : Nat) (r : Reg) : RmOk w n (.reg r) := by
  intro k h; simp [X86Sem.resolve] at h

@[simp] theorem rmOk_memParam (n : Nat) (sz : Size) (idx : Int) : RmOk w n (memParam sz idx) := by
  intro k h
  simp only [memParam, memr, X86Sem.resolve] at h
  split at h <;> cases h

theorem rmOk_tmpParam {n t : Nat} (h : TOk n t) : RmOk w n (tmpParam t) := by
  intro k hk
  rw [resolve_tmpParam h.2] at hk
  unfold tmpPlace at hk
  split at hk
  · cases hk
  · cases hk; exact h.1

/-! ### Instruction forms -/

theorem slotOk_of_rm {n : Nat} {x : X86} {rm : RegMem} (h : rmOf x = some rm) (hrm : RmOk w n rm) :
    SlotOk w n x := by
  intro k hk
  simp only [placeOf, h, Option.bind_some] at hk
  exact hrm k hk

theorem slotOk_of_none {n : Nat} {x : X86} (h : rmOf x = none) : SlotOk w n x := by
  intro k hk
  simp [placeOf, h] at hk

@[simp] theorem slotOk_movRImm64 (n : Nat) (r : Reg) (v : Int) : SlotOk w n (.movRImm64 r v) :=
  slotOk_of_none rfl
@[simp] theorem slotOk_lea (n : Nat) (r : Reg) (a : RegMem) : SlotOk w n (.lea r a) :=
  slotOk_of_none rfl

@[simp] theorem slotOk_storeReg (n : Nat) (sz : Size) (idx : Int) (r : Reg) :
    SlotOk w n (storeReg sz idx r) := slotOk_of_rm rfl (rmOk_memParam _ _ _)
@[simp] theorem slotOk_storeI32 (n : Nat) (sz : Size) (idx : Int) (v : Int) :
    SlotOk w n (storeI32 sz idx v) := slotOk_of_rm rfl (rmOk_memParam _ _ _)
@[simp] theorem slotOk_addReg (n : Nat) (sz : Size) (idx : Int) (r : Reg) :
    SlotOk w n (addReg sz idx r) := slotOk_of_rm rfl (rmOk_memParam _ _ _)
@[simp] theorem slotOk_addToReg (n : Nat) (sz : Size) (idx : Int) (r : Reg) :
    SlotOk w n (addToReg sz idx r) := slotOk_of_rm rfl (rmOk_memParam _ _ _)
@[simp] theorem slotOk_addI32 (n : Nat) (sz : Size) (idx : Int) (v : Int) :
    SlotOk w n (addI32 sz idx v) := slotOk_of_rm rfl (rmOk_memParam _ _ _)
@[simp] theorem slotOk_subReg (n : Nat) (sz : Size) (idx : Int) (r : Reg) :
    SlotOk w n (subReg sz idx r) := slotOk_of_rm rfl (rmOk_memParam _ _ _)
@[simp] theorem slotOk_subToReg (n : Nat) (sz : Size) (idx : Int) (r : Reg) :
    SlotOk w n (subToReg sz idx r) := slotOk_of_rm rfl (rmOk_memParam _ _ _)
@[simp] theorem slotOk_load (n : Nat) (sz : Size) (idx : Int) (r : Reg) :
    SlotOk w n (load sz idx r) := slotOk_of_rm rfl (rmOk_memParam _ _ _)

theorem slotOk_mov64 {n : Nat} {r : Reg} {rm : RegMem} (h : RmOk w n rm) : SlotOk w n (mov64 r rm) :=
  slotOk_of_rm rfl h
theorem slotOk_st64 {n : Nat} {r : Reg} {rm : RegMem} (h : RmOk w n rm) : SlotOk w n (st64 rm r) :=
  slotOk_of_rm rfl h
theorem slotOk_add64 {n : Nat} {r : Reg} {rm : RegMem} (h : RmOk w n rm) : SlotOk w n (add64 r rm) :=
  slotOk_of_rm rfl h
theorem slotOk_sub64 {n : Nat} {r : Reg} {rm : RegMem} (h : RmOk w n rm) : SlotOk w n (sub64 r rm) :=
  slotOk_of_rm rfl h
theorem slotOk_addImm64 {n : Nat} {rm : RegMem} {v : Int} (h : RmOk w n rm) :
    SlotOk w n (addImm64 rm v) := slotOk_of_rm rfl h
theorem slotOk_movRmImm {n : Nat} {sz : Size} {rm : RegMem} {v : Int} (h : RmOk w n rm) :
    SlotOk w n (.movRmImm sz rm v) := slotOk_of_rm rfl h
theorem slotOk_addRmR {n : Nat} {sz : Size} {rm : RegMem} {r : Reg} (h : RmOk w n rm) :
    SlotOk w n (.addRmR sz rm r) := slotOk_of_rm rfl h
theorem slotOk_subRmR {n : Nat} {sz : Size} {rm : RegMem} {r : Reg} (h : RmOk w n rm) :
    SlotOk w n (.subRmR sz rm r) := slotOk_of_rm rfl h
theorem slotOk_imulRRm {n : Nat} {r : Reg} {rm : RegMem} (h : RmOk w n rm) :
    SlotOk w n (.imulRRm r rm) := slotOk_of_rm rfl h
theorem slotOk_imulRRmImm {n : Nat} {r : Reg} {rm : RegMem} {v : Int} (h : RmOk w n rm) :
    SlotOk w n (.imulRRmImm r rm v) := slotOk_of_rm rfl h

/-! ### Lists and optional lists -/

@[simp] theorem allOk_nil (n : Nat) : AllOk w n [] := by intro x hx; cases hx

@[simp] theorem allOk_cons (n : Nat) (x : X86) (xs : List X86) :
    AllOk w n (x :: xs) ↔ SlotOk w n x ∧ AllOk w n xs := by
  simp [AllOk]

@[simp] theorem allOk_append (n : Nat) (xs ys : List X86) :
    AllOk w n (xs ++ ys) ↔ AllOk w n xs ∧ AllOk w n ys := by
  simp only [AllOk, List.mem_append]
  exact ⟨fun h => ⟨fun x hx => h x (Or.inl hx), fun x hx => h x (Or.inr hx)⟩,
    fun h x hx => hx.elim (h.1 x) (h.2 x)⟩

@[simp] theorem optOk_none (n : Nat) : OptOk w n none := by intro xs h; cases h

@[simp] theorem optOk_some (n : Nat) (xs : List X86) : OptOk w n (some xs) ↔ AllOk w n xs := by
  simp [OptOk]

theorem optOk_map {n : Nat} {o : Option Reg} {f : Reg → List X86} (h : ∀ r, AllOk w n (f r)) :
    OptOk w n (o.map f) := by
  intro xs hx
  simp only [Option.map_eq_some_iff] at hx
  obtain ⟨r, -, rfl⟩ := hx
  exact h r

/-- One selector family: all operand kinds fixed; split every test and close the leaves. -/
macro "slots_arm" : tactic =>
  `(tactic| (
    simp only [emitCopy, emitAdd, emitSub, emitMul]
    repeat' split
    all_goals
      first
      | exact optOk_none _
      | (try apply optOk_map; try intro r)
        simp [slotOk_mov64, slotOk_st64, slotOk_add64, slotOk_sub64, slotOk_addImm64, slotOk_movRmImm,
          slotOk_addRmR, slotOk_subRmR, slotOk_imulRRm, slotOk_imulRRmImm, rmOk_tmpParam, *]))

theorem copy_slots (n : Nat) (sz : Size) (d s : Bc.Loc w) (hd : LocT n d) (hs : LocT n s) :
    OptOk w n (emitCopy sz d s) := by
  cases d <;> cases s <;> simp only [LocT] at hd hs <;> slots_arm

theorem add_slots (n : Nat) (sz : Size) (live : Nat) (d a b : Bc.Loc w) (hd : LocT n d) (ha : LocT n a)
    (hb : LocT n b) : OptOk w n (emitAdd sz live d a b) := by
  cases d <;> cases a <;> cases b <;> simp only [LocT] at hd ha hb <;> slots_arm

theorem sub_slots (n : Nat) (sz : Size) (live : Nat) (d a b : Bc.Loc w) (hd : LocT n d) (ha : LocT n a)
    (hb : LocT n b) : OptOk w n (emitSub sz live d a b) := by
  cases d <;> cases a <;> cases b <;> simp only [LocT] at hd ha hb <;> slots_arm

theorem mul_slots (n : Nat) (sz : Size) (live : Nat) (d a b : Bc.Loc w) (hd : LocT n d) (ha : LocT n a)
    (hb : LocT n b) : OptOk w n (emitMul sz live d a b) := by
  cases d <;> cases a <;> cases b <;> simp only [LocT] at hd ha hb <;> slots_arm

/-! ### The instruction -/

theorem locT_of {n : Nat} {l : Bc.Loc w} (hok : LocOk l) (ht : ∀ t ∈ locTmps l, t < n) : LocT n l := by
  cases l with
  | tmp t => exact ⟨ht t (by simp [locTmps]), hok⟩
  | _ => trivial

theorem emitArith_slotOk {w : Nat} {sz : Asm.Size} {live : Nat} {ins : Bc.Instr w} {xs : List Asm.X86}
    (h : emitArith sz live ins = some xs) (hok : ArithOk ins) {n : Nat}
    (htmps : ∀ t ∈ insTmps ins, t < n) : ∀ x ∈ xs, SlotOk w n x := by
  unfold emitArith at h
  simp only [Option.bind_eq_some_iff] at h
  obtain ⟨xs', hx, hf⟩ := h
  split at hf
  · cases hf
    cases ins with
    | copy d s =>
      simp only [insTmps, List.mem_append] at htmps
      exact copy_slots n sz d s (locT_of hok.1 fun t ht => htmps t (Or.inl ht))
        (locT_of hok.2 fun t ht => htmps t (Or.inr ht)) _ hx
    | add d a b =>
      simp only [insTmps, List.mem_append] at htmps
      exact add_slots n sz live d a b (locT_of hok.1 fun t ht => htmps t (Or.inl (Or.inl ht)))
        (locT_of hok.2.1 fun t ht => htmps t (Or.inl (Or.inr ht)))
        (locT_of hok.2.2 fun t ht => htmps t (Or.inr ht)) _ hx
    | sub d a b =>
      simp only [insTmps, List.mem_append] at htmps
      exact sub_slots n sz live d a b (locT_of hok.1 fun t ht => htmps t (Or.inl (Or.inl ht)))
        (locT_of hok.2.1 fun t ht => htmps t (Or.inl (Or.inr ht)))
        (locT_of hok.2.2 fun t ht => htmps t (Or.inr ht)) _ hx
    | mul d a b =>
      simp only [insTmps, List.mem_append] at htmps
      exact mul_slots n sz live d a b (locT_of hok.1 fun t ht => htmps t (Or.inl (Or.inl ht)))
        (locT_of hok.2.1 fun t ht => htmps t (Or.inl (Or.inr ht)))
        (locT_of hok.2.2 fun t ht => htmps t (Or.inr ht)) _ hx
    | _ => exact absurd hok (by simp [ArithOk])
  · cases hf

end C03
end Hpbf

#print axioms Hpbf.C03.emitArith_slotOk
