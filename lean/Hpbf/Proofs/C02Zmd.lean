/-
C02, part 3b: `zeroing_move_detection` is a sequence of single fusions (`C02Fuse.lean`).

Scanning backwards, `zerod` maps a cell `m` to the index `j` of a remembered zeroing copy
`copy (mem m) (imm 0)`.  Invariant `ZSound tg k B Z` after the instructions `≥ k` have been processed:
for every entry `m ↦ j`: `k ≤ j`, `B[j]` is that copy, the instructions in `[k, j)` are `quiet m`
(straight-line, do not touch `m`) and no index in `[k, j]` is a branch target.  When an instruction at `i = k-1`
reads `mem m` as a source and `m ↦ j` is present, the pass performs the fusion `(i, m, j)`, whose conditions
(`FuseCond`) follow from the invariant.
-/
import Hpbf.Proofs.C02Fuse

namespace Hpbf
namespace C02

open Bc BcWf BcGen C11

variable {w : Nat}

/-! ### association lists -/

abbrev Keys (Z : List (Int × Nat)) : List Int := Z.map (·.1)

theorem alGet_none_iff (Z : List (Int × Nat)) (m : Int) : alGet Z m = none ↔ m ∉ Keys Z := by
  induction Z with
  | nil => simp [alGet]
  | cons kv rest ih =>
    obtain ⟨k, v⟩ := kv
    simp only [alGet, Keys, List.map_cons, List.mem_cons, not_or]
    by_cases h : k = m
    · simp [h]
    · simp only [h, if_false]
      rw [ih]
      exact ⟨fun hh => ⟨fun e => h e.symm, hh⟩, fun hh => hh.2⟩

theorem keys_alErase_sub (Z : List (Int × Nat)) (m x : Int) : x ∈ Keys (alErase Z m) → x ∈ Keys Z := by
  induction Z with
  | nil => simp [alErase]
  | cons kv rest ih =>
    obtain ⟨k, v⟩ := kv
    simp only [alErase, Keys]
    by_cases h : k = m
    · simp only [h, if_true, List.map_cons, List.mem_cons]; exact Or.inr
    · simp only [h, if_false, List.map_cons, List.mem_cons]
      rintro (e | e)
      · exact Or.inl e
      · exact Or.inr (ih e)

theorem nodup_alErase {Z : List (Int × Nat)} (h : (Keys Z).Nodup) (m : Int) : (Keys (alErase Z m)).Nodup := by
  induction Z with
  | nil => simp [alErase]
  | cons kv rest ih =>
    obtain ⟨k, v⟩ := kv
    simp only [Keys, List.map_cons, List.nodup_cons] at h
    simp only [alErase]
    by_cases hk : k = m
    · simp only [hk, if_true]; exact h.2
    · simp only [hk, if_false, Keys, List.map_cons, List.nodup_cons]
      exact ⟨fun hm => h.1 (keys_alErase_sub rest m k hm), ih h.2⟩

theorem alGet_alErase_self {Z : List (Int × Nat)} (h : (Keys Z).Nodup) (m : Int) :
    alGet (alErase Z m) m = none := by
  induction Z with
  | nil => simp [alErase, alGet]
  | cons kv rest ih =>
    obtain ⟨k, v⟩ := kv
    simp only [Keys, List.map_cons, List.nodup_cons] at h
    simp only [alErase]
    by_cases hk : k = m
    · subst hk
      simp only [if_true]
      exact (alGet_none_iff rest k).mpr h.1
    · simp only [hk, if_false, alGet]
      exact ih h.2

theorem alGet_alErase_ne (Z : List (Int × Nat)) {m m' : Int} (hne : m' ≠ m) :
    alGet (alErase Z m) m' = alGet Z m' := by
  induction Z with
  | nil => simp [alErase]
  | cons kv rest ih =>
    obtain ⟨k, v⟩ := kv
    simp only [alErase]
    by_cases hk : k = m
    · subst hk
      have : ¬ k = m' := fun e => hne e.symm
      simp only [if_true, alGet, this, if_false]
    · simp only [hk, if_false, alGet, ih]

/-- An entry that survives `alErase Z m` is another key and was there before. -/
theorem alGet_alErase_some {Z : List (Int × Nat)} (h : (Keys Z).Nodup) {m m' : Int} {j : Nat}
    (hg : alGet (alErase Z m) m' = some j) : m' ≠ m ∧ alGet Z m' = some j := by
  by_cases e : m' = m
  · subst e; rw [alGet_alErase_self h] at hg; cases hg
  · exact ⟨e, by rw [← alGet_alErase_ne Z e]; exact hg⟩

theorem alGet_alSet_self (Z : List (Int × Nat)) (m : Int) (v : Nat) : alGet (alSet Z m v) m = some v := by
  induction Z with
  | nil => simp [alSet, alGet]
  | cons kv rest ih =>
    obtain ⟨k, v'⟩ := kv
    simp only [alSet]
    by_cases hk : k = m
    · simp [hk, alGet]
    · simp [hk, alGet, ih]

theorem alGet_alSet_ne (Z : List (Int × Nat)) {m m' : Int} (v : Nat) (hne : m' ≠ m) :
    alGet (alSet Z m v) m' = alGet Z m' := by
  induction Z with
  | nil =>
    have : ¬ m = m' := fun e => hne e.symm
    simp [alSet, alGet, this]
  | cons kv rest ih =>
    obtain ⟨k, v'⟩ := kv
    simp only [alSet]
    by_cases hk : k = m
    · subst hk
      have : ¬ k = m' := fun e => hne e.symm
      simp [alGet, this]
    · simp only [hk, if_false, alGet, ih]

theorem keys_alSet (Z : List (Int × Nat)) (m : Int) (v : Nat) (x : Int) :
    x ∈ Keys (alSet Z m v) → x = m ∨ x ∈ Keys Z := by
  induction Z with
  | nil => simp [alSet]
  | cons kv rest ih =>
    obtain ⟨k, v'⟩ := kv
    simp only [alSet, Keys]
    by_cases hk : k = m
    · simp only [hk, if_true, List.map_cons, List.mem_cons]; exact Or.inr
    · simp only [hk, if_false, List.map_cons, List.mem_cons]
      rintro (e | e)
      · exact Or.inr (Or.inl e)
      · rcases ih e with h | h
        · exact Or.inl h
        · exact Or.inr (Or.inr h)

theorem nodup_alSet {Z : List (Int × Nat)} (h : (Keys Z).Nodup) (m : Int) (v : Nat) :
    (Keys (alSet Z m v)).Nodup := by
  induction Z with
  | nil => simp [alSet]
  | cons kv rest ih =>
    obtain ⟨k, v'⟩ := kv
    simp only [Keys, List.map_cons, List.nodup_cons] at h
    simp only [alSet]
    by_cases hk : k = m
    · simp only [hk, if_true, Keys, List.map_cons, List.nodup_cons]
      subst hk; exact h
    · simp only [hk, if_false, Keys, List.map_cons, List.nodup_cons]
      refine ⟨fun hm => ?_, ih h.2⟩
      rcases keys_alSet rest m v k hm with e | e
      · exact hk e
      · exact h.1 e

/-! ### the invariants -/

/-- Facts about the program that no fusion changes. -/
structure ZGlob (tg : Array Bool) (B : Array (Instr w)) : Prop where
  tgsize : tg.size = B.size + 1
  targets : TargetsOk B
  marked : ∀ (i : Nat) (ins : Instr w) (off : Int), B[i]? = some ins → branchOff? ins = some off →
    tg[((i : Int) + off).toNat]? = some true

structure ZSound (tg : Array Bool) (k : Nat) (B : Array (Instr w)) (Z : List (Int × Nat)) : Prop where
  nodup : (Keys Z).Nodup
  sound : ∀ (m : Int) (j : Nat), alGet Z m = some j →
    k ≤ j ∧ B[j]? = some (.copy (.mem m) (.imm 0#w)) ∧
    (∀ (x : Nat) (ins : Instr w), k ≤ x → x < j → B[x]? = some ins → quiet m ins = true) ∧
    (∀ x, k ≤ x → x ≤ j → tg[x]? = some false)

theorem ZSound.nil (tg : Array Bool) (k : Nat) (B : Array (Instr w)) : ZSound tg k B [] :=
  ⟨by simp, fun m j h => by simp [alGet] at h⟩

theorem ZSound.erase {tg : Array Bool} {k : Nat} {B : Array (Instr w)} {Z : List (Int × Nat)}
    (h : ZSound tg k B Z) (m : Int) : ZSound tg k B (alErase Z m) :=
  ⟨nodup_alErase h.nodup m, fun m' j hg => h.sound m' j (alGet_alErase_some h.nodup hg).2⟩

/-- Behavioural equivalence of instruction arrays (the other program fields are irrelevant). -/
def InstsBehIO (B B' : Array (Instr w)) : Prop :=
  ∀ p q : Program w, p.insts = B → q.insts = B' → BehEqIO p q

theorem InstsBehIO.refl (B : Array (Instr w)) : InstsBehIO B B :=
  fun _ _ hp hq => (behEq_of_insts_eq (hp.trans hq.symm)).io

theorem InstsBehIO.trans {B1 B2 B3 : Array (Instr w)} (h : InstsBehIO B1 B2) (g : InstsBehIO B2 B3) :
    InstsBehIO B1 B3 :=
  fun p q hp hq => (h p { p with insts := B2 } hp rfl).trans (g { p with insts := B2 } q rfl hq)

theorem setIfInBounds_same {α : Type} (B : Array α) {i : Nat} {x : α} (h : B[i]? = some x) :
    B.setIfInBounds i x = B := by
  apply Array.ext_getElem?
  intro k
  rw [Array.getElem?_setIfInBounds]
  by_cases hk : i = k
  · subst hk
    have := C07_lt h
    simp only [this, if_true]
    exact h.symm
  · simp [hk]

theorem fuseAt_noBranch {m : Int} {a a' : Instr w} (h : FuseAt m a a') :
    branchOff? a = none ∧ branchOff? a' = none := by
  cases h with
  | copy d _ => exact ⟨rfl, rfl⟩
  | arithB op d a _ _ => cases op <;> exact ⟨rfl, rfl⟩
  | arithA op d b _ _ => cases op <;> exact ⟨rfl, rfl⟩

/-- The fusion `(i, m, j)` licensed by the invariant. -/
theorem zfuse {tg : Array Bool} {B : Array (Instr w)} {Z : List (Int × Nat)} {i j : Nat} {m : Int}
    {a a' : Instr w} (hG : ZGlob tg B) (hS : ZSound tg (i + 1) B Z) (hi : B[i]? = some a)
    (hf : FuseAt m a a') (hz : alGet Z m = some j) :
    InstsBehIO B (fuseInsts B i j a') ∧ ZGlob tg (fuseInsts B i j a') ∧
    ZSound tg (i + 1) (fuseInsts B i j a') (alErase Z m) := by
  obtain ⟨hij, hj, hq, htg⟩ := hS.sound m j hz
  have hilt : i < B.size := C07_lt hi
  have hjlt : j < B.size := C07_lt hj
  -- instructions with a branch offset are untouched
  have hbranch : ∀ (x : Nat) (ins : Instr w) (off : Int), (fuseInsts B i j a')[x]? = some ins →
      branchOff? ins = some off → B[x]? = some ins := by
    intro x ins off hx hoff
    by_cases hxi : x = i
    · subst hxi
      rw [fuseInsts_get_r _ _ (by omega) hilt] at hx
      cases hx
      rw [(fuseAt_noBranch hf).2] at hoff; cases hoff
    · by_cases hxj : x = j
      · subst hxj
        rw [fuseInsts_get_j _ _ hjlt] at hx
        cases hx; cases hoff
      · rw [fuseInsts_get_other _ _ hxi hxj] at hx; exact hx
  refine ⟨?_, ?_, ?_⟩
  · intro p q hp hq'
    have hc : FuseCond p i j m a a' := by
      refine ⟨by omega, by rw [hp]; exact hi, hf, by rw [hp]; exact hj, ?_, by rw [hp]; exact hG.targets, ?_⟩
      · intro x ins hx1 hx2 hx; rw [hp] at hx; exact hq x ins (by omega) hx2 hx
      · intro x ins off hx hoff hin
        rw [hp] at hx
        have h1 := hG.marked x ins off hx hoff
        have h2 := htg _ (by omega) hin.2
        rw [h1] at h2; cases h2
    exact fuse_behEqIO hc (by rw [hq', hp])
  · refine ⟨by rw [fuseInsts_size]; exact hG.tgsize, ?_, ?_⟩
    · intro x ins off hx hoff
      rw [fuseInsts_size]
      exact hG.targets x ins off (hbranch x ins off hx hoff) hoff
    · intro x ins off hx hoff
      exact hG.marked x ins off (hbranch x ins off hx hoff) hoff
  · refine ⟨nodup_alErase hS.nodup m, ?_⟩
    intro m' j' hg
    obtain ⟨hne, hg'⟩ := alGet_alErase_some hS.nodup hg
    obtain ⟨h1, h2, h3, h4⟩ := hS.sound m' j' hg'
    have hjj : j' ≠ j := by
      intro e
      subst e
      rw [hj] at h2
      injection h2 with h2; injection h2 with h2 _; injection h2 with h2
      exact hne h2.symm
    refine ⟨h1, ?_, ?_, h4⟩
    · rw [fuseInsts_get_other _ _ (by omega) hjj]; exact h2
    · intro x ins hx1 hx2 hx
      by_cases hxj : x = j
      · subst hxj
        rw [fuseInsts_get_j _ _ hjlt] at hx
        cases hx; rfl
      · rw [fuseInsts_get_other _ _ (by omega) hxj] at hx
        exact h3 x ins hx1 hx2 hx

/-! ### one operand slot -/

theorem blank_none (B : Array (Instr w)) : blank B none = B := rfl
theorem blank_some (B : Array (Instr w)) (j : Nat) : blank B (some j) = B.setIfInBounds j .noop := rfl

/-- What one operand slot establishes, as a function of the result `r` of `zeroSrc`. -/
def ZsrcConcl (tg : Array Bool) (B : Array (Instr w)) (Z : List (Int × Nat)) (i : Nat)
    (ctx : Loc w → Instr w) (r : Loc w × List (Int × Nat) × Option Nat) : Prop :=
  InstsBehIO B (blank (B.setIfInBounds i (ctx r.1)) r.2.2) ∧
  ZGlob tg (blank (B.setIfInBounds i (ctx r.1)) r.2.2) ∧
  ZSound tg (i + 1) (blank (B.setIfInBounds i (ctx r.1)) r.2.2) r.2.1 ∧
  (blank (B.setIfInBounds i (ctx r.1)) r.2.2)[i]? = some (ctx r.1) ∧
  (∀ m' j', alGet r.2.1 m' = some j' → m' ∉ locMem r.1 ∧ alGet Z m' = some j') ∧
  (∀ x, x < i → (blank (B.setIfInBounds i (ctx r.1)) r.2.2)[x]? = B[x]?) ∧
  (∀ j, r.2.2 = some j → i < j)

/-- `zeroSrc` on the operand `l` of the instruction `ctx l` at index `i`: either nothing changes or the fusion
`(i, m, j)` is performed.  Afterwards no remaining key refers to the (new) operand. -/
theorem zsrc_step {tg : Array Bool} {B : Array (Instr w)} {Z : List (Int × Nat)} {i : Nat}
    (hG : ZGlob tg B) (hS : ZSound tg (i + 1) B Z) (ctx : Loc w → Instr w) (l : Loc w)
    (hi : B[i]? = some (ctx l)) (hl : locNoZero l = true)
    (hf : ∀ m j, l = .mem m → alGet Z m = some j → FuseAt m (ctx (.mem m)) (ctx (.memZero m))) :
    ZsrcConcl tg B Z i ctx (zeroSrc Z l) := by
  have hilt : i < B.size := C07_lt hi
  have trivialCase : (zeroSrc Z l) = (l, Z, none) → (∀ m' j', alGet Z m' = some j' → m' ∉ locMem l) →
      ZsrcConcl tg B Z i ctx (zeroSrc Z l) := by
    intro hz hk
    rw [hz]
    simp only [ZsrcConcl, blank_none, setIfInBounds_same B hi]
    exact ⟨InstsBehIO.refl B, hG, hS, hi, fun m' j' hg => ⟨hk m' j' hg, hg⟩, fun _ _ => trivial,
      fun j hj => by cases hj⟩
  cases l with
  | memZero o => simp [locNoZero] at hl
  | tmp t => exact trivialCase rfl (fun _ _ _ => by simp [locMem])
  | imm v => exact trivialCase rfl (fun _ _ _ => by simp [locMem])
  | mem m =>
    cases hz : alGet Z m with
    | none =>
      apply trivialCase (by simp only [zeroSrc, hz])
      intro m' j' hg
      simp only [locMem, List.mem_singleton]
      intro e; subst e; rw [hz] at hg; cases hg
    | some j =>
      have hzs : zeroSrc Z (.mem m : Loc w) = (.memZero m, alErase Z m, some j) := by simp only [zeroSrc, hz]
      rw [hzs]
      simp only [ZsrcConcl, blank_some]
      obtain ⟨h1, h2, h3⟩ := zfuse hG hS hi (hf m j rfl hz) hz
      have hij : i < j := by have := (hS.sound m j hz).1; omega
      have hjlt : j < B.size := C07_lt (hS.sound m j hz).2.1
      refine ⟨h1, h2, h3, fuseInsts_get_r _ _ (by omega) hilt, ?_, ?_, fun j' hj' => by cases hj'; exact hij⟩
      · intro m' j' hg
        obtain ⟨hne, hg'⟩ := alGet_alErase_some hS.nodup hg
        exact ⟨by simpa [locMem] using hne, hg'⟩
      · intro x hx
        exact fuseInsts_get_other _ _ (by omega) (by omega)

/-- Going from level `i + 1` to level `i`. -/
theorem ZSound.lower {tg : Array Bool} {B : Array (Instr w)} {Z : List (Int × Nat)} {i : Nat} {ins : Instr w}
    (hS : ZSound tg (i + 1) B Z) (hi : B[i]? = some ins) {t : Bool} (ht : tg[i]? = some t)
    (hq : ∀ m j, alGet Z m = some j → quiet m ins = true) :
    ZSound tg i B (if t then [] else Z) := by
  cases t with
  | true => exact ZSound.nil tg i B
  | false =>
    refine ⟨hS.nodup, ?_⟩
    intro m j hg
    obtain ⟨h1, h2, h3, h4⟩ := hS.sound m j hg
    refine ⟨by omega, h2, ?_, ?_⟩
    · intro x ins' hx1 hx2 hx
      by_cases hxi : x = i
      · subst hxi; rw [hi] at hx; cases hx; exact hq m j hg
      · exact h3 x ins' (by omega) hx2 hx
    · intro x hx1 hx2
      by_cases hxi : x = i
      · subst hxi; exact ht
      · exact h4 x (by omega) hx2

/-! ### `zmdStep` -/

/-- The instruction-specific part of `zmdStep` (verbatim). -/
def zmdPair (i : Nat) (B : Array (Instr w)) (zerod : List (Int × Nat)) (inst : Instr w) :
    Array (Instr w) × List (Int × Nat) :=
  match inst with
  | .noop => (B, zerod)
  | .copy dst src =>
    let zerod :=
      match dst with
      | .mem mem =>
        let z := alErase zerod mem
        match src with
        | .imm c => if c = 0#w then alSet z mem i else z
        | _ => z
      | _ => zerod
    let (src', zerod, j) := zeroSrc zerod src
    (blank (B.setIfInBounds i (.copy dst src')) j, zerod)
  | .brnz _ _ => (B, [])
  | .brz _ _ => (B, [])
  | .mov _ => (B, [])
  | .scan _ _ => (B, [])
  | .out mem => (B, alErase zerod mem)
  | .inp mem => (B, alErase zerod mem)
  | _ =>
    match arith? inst with
    | some (op, dst, s0, s1) =>
      let zerod := match dst with | .mem mem => alErase zerod mem | _ => zerod
      let (s1', zerod, j1) := zeroSrc zerod s1
      let (s0', zerod, j0) := zeroSrc zerod s0
      (blank (blank (B.setIfInBounds i (mkArith op dst s0' s1')) j1) j0, zerod)
    | none => (B, zerod)

theorem zmdStep_eq (i : Nat) (s : St w) (zerod : List (Int × Nat)) :
    zmdStep i s zerod =
      match s.insts[i]? with
      | none => .error "zeroing_move_detection:insts-index"
      | some inst =>
        match s.isTarget[i]? with
        | none => .error "zeroing_move_detection:is_target-index"
        | some t => .ok ({ s with insts := (zmdPair i s.insts zerod inst).1 },
            if t then [] else (zmdPair i s.insts zerod inst).2) := by
  unfold zmdStep
  cases s.insts[i]? with
  | none => rfl
  | some inst => rfl

def dstErase (Z : List (Int × Nat)) : Loc w → List (Int × Nat)
  | .mem md => alErase Z md
  | _ => Z

theorem ZSound.dstErase {tg : Array Bool} {k : Nat} {B : Array (Instr w)} {Z : List (Int × Nat)}
    (h : ZSound tg k B Z) (d : Loc w) : ZSound tg k B (dstErase Z d) := by
  cases d <;> first | exact h.erase _ | exact h

theorem dstErase_some {Z : List (Int × Nat)} (hn : (Keys Z).Nodup) {d : Loc w} (hd : locNoZero d = true)
    {m : Int} {j : Nat} (hg : alGet (dstErase Z d) m = some j) : m ∉ locMem d ∧ alGet Z m = some j := by
  cases d with
  | mem md =>
    obtain ⟨h1, h2⟩ := alGet_alErase_some hn hg
    exact ⟨by simpa [locMem] using h1, h2⟩
  | memZero o => simp [locNoZero] at hd
  | tmp t => exact ⟨by simp [locMem], hg⟩
  | imm v => exact ⟨by simp [locMem], hg⟩

theorem quiet_mkArith {m : Int} {op : BcGen.Op} {d a b : Loc w} (hd : m ∉ locMem d) (ha : m ∉ locMem a)
    (hb : m ∉ locMem b) : quiet m (mkArith op d a b) = true := by
  cases op <;> simp [mkArith, quiet, memOps, hd, ha, hb]

theorem quiet_copy {m : Int} {d s : Loc w} (hd : m ∉ locMem d) (hs : m ∉ locMem s) :
    quiet m (.copy d s) = true := by
  simp [quiet, memOps, hd, hs]

theorem set_blank_set (B : Array (Instr w)) (i : Nat) (x y : Instr w) (j1 : Option Nat)
    (h : ∀ j, j1 = some j → i < j) :
    (blank (B.setIfInBounds i x) j1).setIfInBounds i y = blank (B.setIfInBounds i y) j1 := by
  cases j1 with
  | none =>
    simp only [blank_none]
    apply Array.ext_getElem?
    intro k
    simp only [Array.getElem?_setIfInBounds, Array.size_setIfInBounds]
    by_cases hk : i = k <;> simp [hk]
  | some j =>
    have hij := h j rfl
    simp only [blank_some]
    apply Array.ext_getElem?
    intro k
    simp only [Array.getElem?_setIfInBounds, Array.size_setIfInBounds]
    by_cases hk : i = k
    · have : ¬ j = k := by omega
      simp [hk, this]
    · simp [hk]

/-- Invariant of the backward loop. -/
structure ZState (tg : Array Bool) (k : Nat) (B : Array (Instr w)) (Z : List (Int × Nat)) : Prop where
  glob : ZGlob tg B
  sound : ZSound tg k B Z
  low : ∀ (x : Nat) (ins : Instr w), x < k → B[x]? = some ins → NoMemZero ins

/-- The arithmetic case: two operand slots, `src1` first. -/
theorem zmdPair_arith {tg : Array Bool} {B : Array (Instr w)} {Z : List (Int × Nat)} {i : Nat}
    (hG : ZGlob tg B) (hS : ZSound tg (i + 1) B Z)
    (hlow' : ∀ (x : Nat) (ins : Instr w), x < i → B[x]? = some ins → NoMemZero ins)
    {t : Bool} (ht : tg[i]? = some t) (op : BcGen.Op) (d s0 s1 : Loc w)
    (hi : B[i]? = some (mkArith op d s0 s1)) (hnz : NoMemZero (mkArith op d s0 s1))
    {inst : Instr w} (hinst : inst = mkArith op d s0 s1) :
    InstsBehIO B (zmdPair i B Z inst).1 ∧
    ZState tg i (zmdPair i B Z inst).1 (if t then [] else (zmdPair i B Z inst).2) := by
  subst hinst
  have hnz' : locNoZero d = true ∧ locNoZero s0 = true ∧ locNoZero s1 = true := by
    cases op <;> simpa [mkArith, NoMemZero, noMemZero, Bool.and_eq_true, and_assoc] using hnz
  obtain ⟨hd, h0, h1⟩ := hnz'
  -- first slot: `src1`
  have hZc := hS.dstErase d
  have hA := zsrc_step hG hZc (fun l => mkArith op d s0 l) s1 hi h1 (by
    intro m j hm hg
    exact FuseAt.arithB op d s0 (dstErase_some hS.nodup hd hg).1 h0)
  rcases hz1 : zeroSrc (dstErase Z d) s1 with ⟨s1', Z1, j1⟩
  rw [hz1] at hA
  obtain ⟨a1, a2, a3, a4, a5, a6, a7⟩ := hA
  simp only at a1 a2 a3 a4 a5 a6 a7
  -- second slot: `src0`
  have hB := zsrc_step a2 a3 (fun l => mkArith op d l s1') s0 a4 h0 (by
    intro m j hm hg
    obtain ⟨hx, hy⟩ := a5 m j hg
    exact FuseAt.arithA op d s1' (dstErase_some hS.nodup hd hy).1 hx)
  rcases hz0 : zeroSrc Z1 s0 with ⟨s0', Z2, j0⟩
  rw [hz0] at hB
  obtain ⟨b1, b2, b3, b4, b5, b6, b7⟩ := hB
  simp only at b1 b2 b3 b4 b5 b6 b7
  rw [set_blank_set B i _ _ j1 a7] at b1 b2 b3 b4 b6
  have hform : zmdPair i B Z (mkArith op d s0 s1) =
      (blank (blank (B.setIfInBounds i (mkArith op d s0' s1')) j1) j0, Z2) := by
    have : zmdPair i B Z (mkArith op d s0 s1) =
        (blank (blank (B.setIfInBounds i (mkArith op d
            (zeroSrc (zeroSrc (dstErase Z d) s1).2.1 s0).1 (zeroSrc (dstErase Z d) s1).1))
            (zeroSrc (dstErase Z d) s1).2.2) (zeroSrc (zeroSrc (dstErase Z d) s1).2.1 s0).2.2,
          (zeroSrc (zeroSrc (dstErase Z d) s1).2.1 s0).2.1) := by
      cases op <;> cases d <;> rfl
    rw [this, hz1]
    simp only
    rw [hz0]
  rw [hform]
  refine ⟨a1.trans b1, b2, ?_, fun x ins hx h => hlow' x ins hx (by rw [← a6 x hx, ← b6 x hx]; exact h)⟩
  apply b3.lower b4 ht
  intro m j hg
  obtain ⟨c0, c1⟩ := b5 m j hg
  obtain ⟨c2, c3⟩ := a5 m j c1
  exact quiet_mkArith (dstErase_some hS.nodup hd c3).1 c0 c2

/-- The instruction-specific part: behaviour preserved, invariant re-established one level lower. -/
theorem zmdPair_spec {tg : Array Bool} {B : Array (Instr w)} {Z : List (Int × Nat)} {i : Nat}
    (hI : ZState tg (i + 1) B Z) {inst : Instr w} (hi : B[i]? = some inst) {t : Bool} (ht : tg[i]? = some t) :
    InstsBehIO B (zmdPair i B Z inst).1 ∧
    ZState tg i (zmdPair i B Z inst).1 (if t then [] else (zmdPair i B Z inst).2) := by
  obtain ⟨hG, hS, hlow⟩ := hI
  have hnz : NoMemZero inst := hlow i inst (by omega) hi
  have hlow' : ∀ (x : Nat) (ins : Instr w), x < i → B[x]? = some ins → NoMemZero ins :=
    fun x ins hx h => hlow x ins (by omega) h
  -- nothing changes in the array
  have same : ∀ Z2 : List (Int × Nat), ZSound tg (i + 1) B Z2 →
      (∀ m j, alGet Z2 m = some j → quiet m inst = true) →
      InstsBehIO B B ∧ ZState tg i B (if t then [] else Z2) :=
    fun Z2 h2 hq => ⟨InstsBehIO.refl B, hG, h2.lower hi ht hq, hlow'⟩
  cases inst with
  | noop => exact same Z hS (fun _ _ _ => rfl)
  | brz c off => exact same [] (ZSound.nil _ _ _) (fun m j h => by simp [alGet] at h)
  | brnz c off => exact same [] (ZSound.nil _ _ _) (fun m j h => by simp [alGet] at h)
  | mov sh => exact same [] (ZSound.nil _ _ _) (fun m j h => by simp [alGet] at h)
  | scan c sh => exact same [] (ZSound.nil _ _ _) (fun m j h => by simp [alGet] at h)
  | out o =>
    refine same (alErase Z o) (hS.erase o) (fun m j h => ?_)
    have := (alGet_alErase_some hS.nodup h).1
    simp [quiet, memOps, this]
  | inp o =>
    refine same (alErase Z o) (hS.erase o) (fun m j h => ?_)
    have := (alGet_alErase_some hS.nodup h).1
    simp [quiet, memOps, this]
  | copy d src =>
    simp only [NoMemZero, noMemZero, Bool.and_eq_true] at hnz
    obtain ⟨hd, hsrc⟩ := hnz
    cases src with
    | memZero o => simp [locNoZero] at hsrc
    | imm c =>
      -- a (possibly zeroing) constant copy: `zeroSrc` does nothing, the copy may be remembered
      have hform : zmdPair i B Z (.copy d (.imm c)) =
          (B, match d with
              | .mem md => if c = 0#w then alSet (alErase Z md) md i else alErase Z md
              | _ => Z) := by
        simp only [zmdPair, zeroSrc, blank_none, setIfInBounds_same B hi]
        cases d <;> rfl
      rw [hform]
      simp only
      refine ⟨InstsBehIO.refl B, hG, ?_, hlow'⟩
      cases t with
      | true => exact ZSound.nil _ _ _
      | false =>
        simp only [Bool.false_eq_true, if_false]
        cases d with
        | memZero o => simp [locNoZero] at hd
        | tmp x => exact hS.lower (t := false) hi ht (fun m j _ => by simp [quiet, memOps, locMem])
        | imm x => exact hS.lower (t := false) hi ht (fun m j _ => by simp [quiet, memOps, locMem])
        | mem md =>
          have hE := hS.erase md
          have hq : ∀ m j, alGet (alErase Z md) m = some j → quiet m (.copy (.mem md) (.imm c) : Instr w) = true := by
            intro m j h
            have := (alGet_alErase_some hS.nodup h).1
            simp [quiet, memOps, locMem, this]
          have hL := hE.lower (t := false) hi ht hq
          simp only [Bool.false_eq_true, if_false] at hL
          by_cases hc : c = 0#w
          · simp only [hc, if_true]
            subst hc
            refine ⟨nodup_alSet hL.nodup md i, ?_⟩
            intro m j hg
            by_cases hm : m = md
            · subst hm
              rw [alGet_alSet_self] at hg
              cases hg
              refine ⟨Nat.le_refl _, hi, fun x ins h1 h2 => by omega, fun x h1 h2 => ?_⟩
              have : x = i := by omega
              subst this; exact ht
            · rw [alGet_alSet_ne _ _ hm] at hg
              exact hL.sound m j hg
          · simp only [hc, if_false]
            exact hL
    | mem ms =>
      have hform : zmdPair i B Z (.copy d (.mem ms)) =
          (blank (B.setIfInBounds i (.copy d (zeroSrc (dstErase Z d) (.mem ms : Loc w)).1))
              (zeroSrc (dstErase Z d) (.mem ms : Loc w)).2.2,
            (zeroSrc (dstErase Z d) (.mem ms : Loc w)).2.1) := by
        simp only [zmdPair]
        cases d <;> rfl
      rw [hform]
      have hZc := hS.dstErase d
      have hstep := zsrc_step hG hZc (fun l => .copy d l) (.mem ms) hi rfl (by
        intro m j hm hg
        cases hm
        exact FuseAt.copy d (dstErase_some hS.nodup hd hg).1)
      obtain ⟨h1, h2, h3, h4, h5, h6, _⟩ := hstep
      refine ⟨h1, h2, ?_, fun x ins hx h => hlow' x ins hx (by rw [← h6 x hx]; exact h)⟩
      apply h3.lower h4 ht
      intro m j hg
      obtain ⟨ha, hb⟩ := h5 m j hg
      exact quiet_copy (dstErase_some hS.nodup hd hb).1 ha
    | tmp ts =>
      have hform : zmdPair i B Z (.copy d (.tmp ts)) =
          (blank (B.setIfInBounds i (.copy d (zeroSrc (dstErase Z d) (.tmp ts : Loc w)).1))
              (zeroSrc (dstErase Z d) (.tmp ts : Loc w)).2.2,
            (zeroSrc (dstErase Z d) (.tmp ts : Loc w)).2.1) := by
        simp only [zmdPair]
        cases d <;> rfl
      rw [hform]
      have hZc := hS.dstErase d
      have hstep := zsrc_step hG hZc (fun l => .copy d l) (.tmp ts) hi rfl (by
        intro m j hm; cases hm)
      obtain ⟨h1, h2, h3, h4, h5, h6, _⟩ := hstep
      refine ⟨h1, h2, ?_, fun x ins hx h => hlow' x ins hx (by rw [← h6 x hx]; exact h)⟩
      apply h3.lower h4 ht
      intro m j hg
      obtain ⟨ha, hb⟩ := h5 m j hg
      exact quiet_copy (dstErase_some hS.nodup hd hb).1 ha
  | add d s0 s1 => exact zmdPair_arith hG hS hlow' ht .add d s0 s1 hi hnz rfl
  | sub d s0 s1 => exact zmdPair_arith hG hS hlow' ht .sub d s0 s1 hi hnz rfl
  | mul d s0 s1 => exact zmdPair_arith hG hS hlow' ht .mul d s0 s1 hi hnz rfl

/-! ### the loop -/

theorem zmdLoop_spec : ∀ (k : Nat) (s : St w) (Z : List (Int × Nat)), k ≤ s.insts.size →
    ZState s.isTarget k s.insts Z →
    ∃ s', zmdLoop k s Z = .ok s' ∧ InstsBehIO s.insts s'.insts ∧ s'.live = s.live ∧
      s'.isTarget = s.isTarget ∧ ZGlob s.isTarget s'.insts := by
  intro k
  induction k with
  | zero =>
    intro s Z _ hI
    exact ⟨s, rfl, InstsBehIO.refl _, rfl, rfl, hI.glob⟩
  | succ i ih =>
    intro s Z hk hI
    have hilt : i < s.insts.size := by omega
    have hi : s.insts[i]? = some s.insts[i] := Array.getElem?_eq_getElem hilt
    have htlt : i < s.isTarget.size := by rw [hI.glob.tgsize]; omega
    have ht : s.isTarget[i]? = some s.isTarget[i] := Array.getElem?_eq_getElem htlt
    obtain ⟨hbeh, hI'⟩ := zmdPair_spec hI hi ht
    have hstep : zmdStep i s Z = .ok ({ s with insts := (zmdPair i s.insts Z s.insts[i]).1 },
        if s.isTarget[i] then [] else (zmdPair i s.insts Z s.insts[i]).2) := by
      rw [zmdStep_eq]
      simp only [hi, ht]
    have hsz : (zmdPair i s.insts Z s.insts[i]).1.size = s.insts.size := by
      have h1 := hI'.glob.tgsize
      have h2 := hI.glob.tgsize
      omega
    obtain ⟨s', h1, h2, h3, h4, h5⟩ := ih { s with insts := (zmdPair i s.insts Z s.insts[i]).1 }
      (if s.isTarget[i] then [] else (zmdPair i s.insts Z s.insts[i]).2)
      (by simp only [hsz]; omega) hI'
    refine ⟨s', ?_, hbeh.trans h2, h3, h4, h5⟩
    rw [zmdLoop, hstep]
    exact h1

/-- The precondition of the pass on an arbitrary generator state: `is_target` has one entry per instruction
plus the exit, every branch lands in `[0, n]` and its target is marked, and no instruction has a `memZero`
operand yet. -/
structure ZmdPre (s : St w) : Prop where
  glob : ZGlob s.isTarget s.insts
  noZero : ∀ ins ∈ s.insts, NoMemZero ins

/-- Required theorem 3 (general form): for EVERY state satisfying `ZmdPre`, the pass succeeds, changes only
the instructions, keeps all branches (and their marked targets) and preserves behaviour (`BehEqIO`). -/
theorem zeroingMoveDetection_preserves_of_pre (s : St w) (h : ZmdPre s) :
    ∃ s', zeroingMoveDetection s = .ok s' ∧ s'.live = s.live ∧ s'.isTarget = s.isTarget ∧
      s'.insts.size = s.insts.size ∧ TargetsOk s'.insts ∧
      ∀ (t : Nat) (mn mx : Int), BehEqIO (progOf s t mn mx) (progOf s' t mn mx) := by
  have hI : ZState s.isTarget s.insts.size s.insts [] :=
    ⟨h.glob, ZSound.nil _ _ _, fun x ins _ hx => h.noZero ins (Array.mem_of_getElem? hx)⟩
  obtain ⟨s', h1, h2, h3, h4, h5⟩ := zmdLoop_spec s.insts.size s [] (Nat.le_refl _) hI
  refine ⟨s', h1, h3, h4, ?_, h5.targets, fun t mn mx => h2 _ _ rfl rfl⟩
  have a := h5.tgsize
  have b := h.glob.tgsize
  omega

/-! ### `record_branch_targets` -/

theorem rbtLoop_spec {insts : Array (Instr w)} (hT : TargetsOk insts) :
    ∀ (k : Nat) (tg : Array Bool), k ≤ insts.size → tg.size = insts.size + 1 →
      ∃ tg', rbtLoop insts k tg = .ok tg' ∧ tg'.size = insts.size + 1 ∧
        (∀ x : Nat, tg[x]? = some true → tg'[x]? = some true) ∧
        (∀ (i : Nat) (ins : Instr w) (off : Int), insts.size - k ≤ i → insts[i]? = some ins →
          branchOff? ins = some off → tg'[((i : Int) + off).toNat]? = some true) := by
  intro k
  induction k with
  | zero =>
    intro tg _ hsz
    refine ⟨tg, rfl, hsz, fun _ h => h, ?_⟩
    intro i ins off hi hins _
    have := C07_lt hins
    omega
  | succ k ih =>
    intro tg hk hsz
    have hlt : insts.size - (k + 1) < insts.size := by omega
    have hi : insts[insts.size - (k + 1)]? = some insts[insts.size - (k + 1)] := Array.getElem?_eq_getElem hlt
    rw [rbtLoop]
    simp only [hi]
    cases hoff : branchOff? insts[insts.size - (k + 1)] with
    | none =>
      simp only
      obtain ⟨tg', h1, h2, h3, h4⟩ := ih tg (by omega) hsz
      refine ⟨tg', h1, h2, h3, ?_⟩
      intro i ins off hge hins hb
      by_cases hie : i = insts.size - (k + 1)
      · subst hie; rw [hi] at hins; cases hins; rw [hoff] at hb; cases hb
      · exact h4 i ins off (by omega) hins hb
    | some off =>
      have hto := hT _ _ off hi hoff
      have htarget : target "record_branch_targets:is_target-index" (insts.size - (k + 1)) off tg.size
          = .ok (((insts.size - (k + 1) : Nat) : Int) + off).toNat := by
        unfold target
        have h1 : ¬ (((insts.size - (k + 1) : Nat) : Int) + off < 0) := by omega
        have h2 : (((insts.size - (k + 1) : Nat) : Int) + off).toNat < tg.size := by omega
        simp only [h1, h2, if_true, if_false]
      simp only [htarget]
      obtain ⟨tg', h1, h2, h3, h4⟩ := ih (tg.setIfInBounds (((insts.size - (k + 1) : Nat) : Int) + off).toNat true)
        (by omega) (by rw [Array.size_setIfInBounds]; exact hsz)
      have hset : (tg.setIfInBounds (((insts.size - (k + 1) : Nat) : Int) + off).toNat true)[
          (((insts.size - (k + 1) : Nat) : Int) + off).toNat]? = some true := by
        rw [Array.getElem?_setIfInBounds]
        have : (((insts.size - (k + 1) : Nat) : Int) + off).toNat < tg.size := by omega
        simp [this]
      refine ⟨tg', h1, h2, ?_, ?_⟩
      · intro x hx
        apply h3
        rw [Array.getElem?_setIfInBounds]
        split
        · rename_i e
          subst e
          have := C07_lt hx
          simp [this]
        · exact hx
      · intro i ins off' hge hins hb
        by_cases hie : i = insts.size - (k + 1)
        · subst hie
          rw [hi] at hins; cases hins
          rw [hoff] at hb; cases hb
          exact h3 _ hset
        · exact h4 i ins off' (by omega) hins hb

/-- `record_branch_targets` is a pure analysis: it succeeds when all branches land in `[0, n]`, changes only
`isTarget`, and establishes the precondition of `zeroing_move_detection`. -/
theorem recordBranchTargets_spec (s : St w) (hT : TargetsOk s.insts) :
    ∃ tg, recordBranchTargets s = .ok { s with isTarget := tg } ∧ ZGlob tg s.insts := by
  obtain ⟨tg, h1, h2, _, h4⟩ := rbtLoop_spec hT s.insts.size (Array.replicate (s.insts.size + 1) false)
    (Nat.le_refl _) (by simp)
  refine ⟨tg, ?_, h2, hT, ?_⟩
  · unfold recordBranchTargets
    simp only [h1]
  · intro i ins off hi hoff
    exact h4 i ins off (by omega) hi hoff

/-- A successful `record_branch_targets` (whatever the instructions) yields the precondition. -/
theorem recordBranchTargets_ok {s s1 : St w} (h : recordBranchTargets s = .ok s1) :
    TargetsOk s.insts ∧ ∃ tg, s1 = { s with isTarget := tg } ∧ ZGlob tg s.insts := by
  -- success implies that every target was in range
  have key : ∀ (k : Nat) (tg tg' : Array Bool), k ≤ s.insts.size → tg.size = s.insts.size + 1 →
      rbtLoop s.insts k tg = .ok tg' →
      ∀ (i : Nat) (ins : Instr w) (off : Int), s.insts.size - k ≤ i → s.insts[i]? = some ins →
        branchOff? ins = some off → 0 ≤ (i : Int) + off ∧ (i : Int) + off ≤ s.insts.size := by
    intro k
    induction k with
    | zero =>
      intro tg tg' _ _ _ i ins off hi hins _
      have := C07_lt hins
      omega
    | succ k ih =>
      intro tg tg' hk hsz hr i ins off hge hins hb
      have hlt : s.insts.size - (k + 1) < s.insts.size := by omega
      have hi : s.insts[s.insts.size - (k + 1)]? = some s.insts[s.insts.size - (k + 1)] :=
        Array.getElem?_eq_getElem hlt
      rw [rbtLoop] at hr
      simp only [hi] at hr
      cases hoff : branchOff? s.insts[s.insts.size - (k + 1)] with
      | none =>
        simp only [hoff] at hr
        by_cases hie : i = s.insts.size - (k + 1)
        · subst hie; rw [hi] at hins; cases hins; rw [hoff] at hb; cases hb
        · exact ih tg tg' (by omega) hsz hr i ins off (by omega) hins hb
      | some off0 =>
        simp only [hoff] at hr
        unfold target at hr
        by_cases h1 : ((s.insts.size - (k + 1) : Nat) : Int) + off0 < 0
        · simp only [h1, if_true] at hr; cases hr
        · simp only [h1, if_false] at hr
          by_cases h2 : (((s.insts.size - (k + 1) : Nat) : Int) + off0).toNat < tg.size
          · simp only [h2, if_true] at hr
            by_cases hie : i = s.insts.size - (k + 1)
            · subst hie
              rw [hi] at hins; cases hins
              rw [hoff] at hb; cases hb
              omega
            · exact ih _ tg' (by omega) (by rw [Array.size_setIfInBounds]; exact hsz) hr i ins off
                (by omega) hins hb
          · simp only [h2, if_false] at hr; cases hr
  have hT : TargetsOk s.insts := by
    intro i ins off hins hb
    unfold recordBranchTargets at h
    cases hr : rbtLoop s.insts s.insts.size (Array.replicate (s.insts.size + 1) false) with
    | error e => simp only [hr] at h; cases h
    | ok tg' => exact key _ _ tg' (Nat.le_refl _) (by simp) hr i ins off (by omega) hins hb
  obtain ⟨tg, h1, h2⟩ := recordBranchTargets_spec s hT
  rw [h1] at h
  cases h
  exact ⟨hT, tg, rfl, h2⟩

/-- Required theorem 3: `is_target` computed by `record_branch_targets` on the same instructions, no
pre-existing `memZero`. -/
theorem zeroingMoveDetection_preserves (s s1 : St w) (hr : recordBranchTargets s = .ok s1)
    (hz : ∀ ins ∈ s.insts, NoMemZero ins) :
    ∃ s', zeroingMoveDetection s1 = .ok s' ∧ s'.live = s.live ∧ s'.insts.size = s.insts.size ∧
      TargetsOk s'.insts ∧ ∀ (t : Nat) (mn mx : Int), BehEqIO (progOf s t mn mx) (progOf s' t mn mx) := by
  obtain ⟨_, tg, rfl, hG⟩ := recordBranchTargets_ok hr
  obtain ⟨s', h1, h2, _, h4, h5, h6⟩ := zeroingMoveDetection_preserves_of_pre { s with isTarget := tg } ⟨hG, hz⟩
  exact ⟨s', h1, h2, h4, h5, h6⟩

/-! ### examples, and two counterexamples -/

def zmdInsts (s : St w) : Option (Array (Instr w)) :=
  match recordBranchTargets s with
  | .ok s1 => (zeroingMoveDetection s1).toOption.map (·.insts)
  | .error _ => none

/-- Non-vacuity: both sources and a copy are fused; the loop head (a branch target) keeps its zeroing copy. -/
def exZmd : St 8 :=
  { insts := #[.brz 0 5, .add (.mem 2) (.mem 0) (.mem 1), .copy (.mem 0) (.imm 0#8), .copy (.mem 1) (.imm 0#8),
               .brnz 2 (-3), .copy (.mem 3) (.mem 2), .copy (.mem 2) (.imm 0#8)],
    live := #[0, 0, 0, 0, 0, 0, 0] }

example : zmdInsts exZmd =
    some #[.brz 0 5, .add (.mem 2) (.memZero 0) (.memZero 1), .noop, .noop,
           .brnz 2 (-3), .copy (.mem 3) (.memZero 2), .noop] := by decide +kernel

example : ∀ ins ∈ exZmd.insts, NoMemZero ins := by decide +kernel

/-- Counterexample 1 (why ZMD only satisfies `BehEqIO`, not `BehEq`): an I/O operation on ANOTHER cell may sit
between the fused read and the blanked zeroing copy; if it fails, the run stops with cell 0 already cleared. -/
def exStop : St 8 :=
  { insts := #[.copy (.mem 0) (.imm 7#8), .copy (.mem 1) (.mem 0), .out 1, .copy (.mem 0) (.imm 0#8)],
    live := #[0, 0, 0, 0] }
def exStopFused : Array (Instr 8) :=
  #[.copy (.mem 0) (.imm 7#8), .copy (.mem 1) (.memZero 0), .out 1, .noop]
def envRefuse : Env := { input := none, sink := true, outOk := some 0 }

theorem zmd_stopped_tape_differs :
    zmdInsts exStop = some exStopFused ∧
    (let o1 := Bc.run (progOf exStop 0 0 1) false 0 10 envRefuse
     let o2 := Bc.run ({ temps := 0, minAcc := 0, maxAcc := 1, live := exStop.live, insts := exStopFused } : Program 8)
        false 0 10 envRefuse
     o1.tag = 1 ∧ o2.tag = 1 ∧ o1.cfg.st.trace = [Ev.outFail 7] ∧ o2.cfg.st.trace = [Ev.outFail 7] ∧
     o1.cfg.st.tape.get 0 = 7#8 ∧ o2.cfg.st.tape.get 0 = 0#8) := by decide +kernel

/-- Counterexample 2 (necessity of the branch-target guard): if index 3 is NOT marked as a target, the pass
fuses across the join point; the taken branch then skips the read-and-clear AND finds the zeroing copy gone:
the program prints 7 instead of 0. -/
def exJoin : St 8 :=
  { insts := #[.copy (.mem 0) (.imm 7#8), .brnz 0 2, .copy (.mem 1) (.mem 0), .copy (.mem 0) (.imm 0#8), .out 0],
    live := #[0, 0, 0, 0, 0] }
def exJoinBad : Array (Instr 8) :=
  #[.copy (.mem 0) (.imm 7#8), .brnz 0 2, .copy (.mem 1) (.memZero 0), .noop, .out 0]
def envSink : Env := { input := none, sink := true, outOk := none }

theorem zmd_target_guard_necessary :
    -- with the targets recorded nothing is fused …
    zmdInsts exJoin = some exJoin.insts ∧
    -- … with an `is_target` that misses index 3 the pass fuses …
    (zeroingMoveDetection { exJoin with isTarget := Array.replicate 6 false }).toOption.map (·.insts)
      = some exJoinBad ∧
    -- … and the result prints a different byte.
    (Bc.run (progOf exJoin 0 0 1) false 0 10 envSink).cfg.st.trace = [Ev.out 0] ∧
    (Bc.run ({ temps := 0, minAcc := 0, maxAcc := 1, live := exJoin.live, insts := exJoinBad } : Program 8)
      false 0 10 envSink).cfg.st.trace = [Ev.out 7] := by decide +kernel

end C02
end Hpbf
