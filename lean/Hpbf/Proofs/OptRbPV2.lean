/-
Rebuild-round proofs: `PVClean`, part 2: the block level (`BStep`): `inline`, `loopOrIf`, `loopInsideIf`,
`finishLoop`, the full induction over `rebuildInstr` / `rebuildInsts`.
-/
import Hpbf.Proofs.OptRbPV

namespace Hpbf
namespace OptProof
open Opt OptSem Ir

variable {w : Nat}

/-! ### the block-level step relation -/

/-- A step that may change `shift` (it does not if `P`: "the code handled by the step does not move the
pointer"); `PVClean` is kept if the questions to the parent do not depend on `shift`, or if `P`. -/
structure BStep (ps : List (Rebuild w)) (s s' : Rebuild w) (P : Prop) : Prop where
  core : acore s' = acore s
  shift : P → s'.shift = s.shift
  pv : (ShiftIndep s ∨ P) → PVClean s ps → PVClean s' ps

theorem QStep.bstep {ps : List (Rebuild w)} {s s' : Rebuild w} (h : QStep ps s s') (P : Prop) :
    BStep ps s s' P := ⟨h.core, fun _ => h.shift, fun _ => h.pv⟩

theorem BStep.refl (ps : List (Rebuild w)) (s : Rebuild w) (P : Prop) : BStep ps s s P :=
  ⟨rfl, fun _ => rfl, fun _ h => h⟩

theorem BStep.trans {ps : List (Rebuild w)} {a b c : Rebuild w} {P : Prop} (h1 : BStep ps a b P)
    (h2 : BStep ps b c P) : BStep ps a c P := by
  refine ⟨h2.core.trans h1.core, fun hp => (h2.shift hp).trans (h1.shift hp), ?_⟩
  intro hs hpv
  refine h2.pv ?_ (h1.pv hs hpv)
  rcases hs with hs | hs
  · exact Or.inl (hs.of_core h1.core)
  · exact Or.inr hs

theorem BStep.mono {ps : List (Rebuild w)} {s s' : Rebuild w} {P P' : Prop} (h : BStep ps s s' P)
    (hp : P' → P) : BStep ps s s' P' :=
  ⟨h.core, fun h' => h.shift (hp h'), fun hs => h.pv (hs.imp id hp)⟩

/-- Same `pending`, `written`, `parent`, `subShift`, core; `shift` equal or irrelevant. -/
theorem pv_reshift {s s' : Rebuild w} {ps : List (Rebuild w)} (hp : s'.pending = s.pending)
    (hw : s'.written = s.written) (hcore : acore s' = acore s) (hsub : s'.subShift = s.subShift)
    (hpar : s'.parent = s.parent) (hsh : s'.shift = s.shift ∨ ShiftIndep s) (h : PVClean s ps) :
    PVClean s' ps :=
  pv_congr hp hw (fun x => getParentConstant_congr' hcore hsub hpar hsh ps x) h

theorem QStep.setNoReturn {ps : List (Rebuild w)} {s s1 : Rebuild w} (h : QStep ps s s1) (b : Bool) :
    QStep ps s ({ s1 with noReturn := b } : Rebuild w) :=
  h.then_fields (s2 := { s1 with noReturn := b }) ⟨h.wf.pend, h.wf.writ, h.wf.rev, h.wf.revOk⟩
    ⟨rfl, rfl, rfl, rfl, rfl⟩ rfl rfl

theorem QStep.setSubAnal {ps : List (Rebuild w)} {s s1 : Rebuild w} (h : QStep ps s s1)
    (a : List (OptAnalysis w)) : QStep ps s ({ s1 with subAnal := a } : Rebuild w) :=
  h.then_fields (s2 := { s1 with subAnal := a }) ⟨h.wf.pend, h.wf.writ, h.wf.rev, h.wf.revOk⟩
    ⟨rfl, rfl, rfl, rfl, rfl⟩ rfl rfl

/-! ### `inline` -/

theorem inlineRest_b {s : Rebuild w} {ps : List (Rebuild w)} {sub : Rebuild w} {os os' : Orders}
    {s' : Rebuild w} (hr : (inlineRest s ps sub).run os = .ok (s', os')) (hwf : Wf s) :
    BStep ps s s' (sub.shift = s.shift) := by
  unfold inlineRest at hr
  dsimp only at hr
  rw [run_bind_ok] at hr
  obtain ⟨s2, os2, h5, h6⟩ := hr
  have hf : ∀ (acc : Rebuild w × List (Int × Bool)) (vk : Int × OptWrite w),
      ((fun (acc : Rebuild w × List (Int × Bool)) (vk : Int × OptWrite w) =>
        if vk.2.isMaybe then (acc.1, acc.2 ++ [(vk.1, true)])
        else ((removePending acc.1 vk.1).1, acc.2 ++ [(vk.1, false)])) acc vk).1 = acc.1 ∨
      ∃ k, ((fun (acc : Rebuild w × List (Int × Bool)) (vk : Int × OptWrite w) =>
        if vk.2.isMaybe then (acc.1, acc.2 ++ [(vk.1, true)])
        else ((removePending acc.1 vk.1).1, acc.2 ++ [(vk.1, false)])) acc vk).1
          = (removePending acc.1 k).1 := by
    intro acc x
    dsimp only
    split
    · exact Or.inl rfl
    · exact Or.inr ⟨_, rfl⟩
  have q1 := foldl_remove_q (ps := ps) _ hf sub.written (s, []) (QStep.refl hwf)
  have q2 : QStep ps s s2 := q1.trans (clobberAll_q ps _ h5 q1.wf)
  have q3 := ((q2.push sub.insts).writtenCalcs ps (sub.written.filterMap (fun vk =>
        match vk.2 with
        | .known e => some (vk.1, e)
        | _ => none)))
  split at h6
  · rw [run_bind_ok] at h6
    obtain ⟨s4, os3, h7, h8⟩ := h6
    rw [run_pure] at h7
    cases h7
    rw [run_pure] at h8
    cases h8
    exact ((q3.setNoReturn true).setSubAnal _).bstep _
  · rw [run_bind_ok] at h6
    obtain ⟨pend, os4, h9, h10⟩ := h6
    rw [run_bind_ok] at h10
    obtain ⟨s4, os5, h11, h12⟩ := h10
    rw [run_bind_ok] at h12
    obtain ⟨s5, os6, h13, h14⟩ := h12
    rw [run_pure] at h13
    cases h13
    rw [run_pure] at h14
    cases h14
    have q4 := q3.trans (performAll_q h11 q3.wf)
    refine ⟨q4.core, fun hp => hp, ?_⟩
    intro hs hpv
    have hpv4 := q4.pv hpv
    have hsh : sub.shift = s4.shift ∨ ShiftIndep s4 := by
      rcases hs with hs | hs
      · exact Or.inr (hs.of_core q4.core)
      · left; rw [q4.shift, hs]
    exact pv_reshift (s := s4) rfl rfl rfl rfl rfl hsh hpv4

theorem inline_b {s : Rebuild w} {ps : List (Rebuild w)} {sub : Rebuild w} {os os' : Orders}
    {s' : Rebuild w} (hr : (Opt.inline s ps sub).run os = .ok (s', os')) (hwf : Wf s) :
    BStep ps s s' (sub.shift = s.shift) := by
  rw [inline_eq] at hr
  split at hr
  · rw [run_bind_ok] at hr
    obtain ⟨s1, os1, h1, h2⟩ := hr
    rw [run_bind_ok] at h2
    obtain ⟨s2, os2, h3, h4⟩ := h2
    rw [run_pure] at h3
    cases h3
    have q1 := (emitAll_q ps _ h1 hwf).uncertainShift
    exact (q1.bstep _).trans ((inlineRest_b h4 q1.wf).mono (fun h => by rw [q1.shift]; exact h))
  · rw [run_bind_ok] at hr
    obtain ⟨s1, os1, h1, h2⟩ := hr
    have q1 := emitReadAll_q ps _ h1 hwf
    exact (q1.bstep _).trans ((inlineRest_b h2 q1.wf).mono (fun h => by rw [q1.shift]; exact h))

/-! ### `loopOrIf` -/

theorem clobberPhase_q {s : Rebuild w} {ps : List (Rebuild w)} {sub : Rebuild w} {L : OptLoop w}
    {C : List Int} {os os' : Orders} {s' : Rebuild w}
    (hr : (clobberPhase s ps sub L C).run os = .ok (s', os')) (hwf : Wf s) : QStep ps s s' := by
  unfold clobberPhase at hr
  split at hr
  · dsimp only at hr
    have hf : ∀ (acc : Rebuild w × List (Int × Bool)) (vk : Int × OptWrite w),
        ((fun (acc : Rebuild w × List (Int × Bool)) (vk : Int × OptWrite w) =>
          if !C.contains vk.1 then
            if vk.2.isMaybe || !L.atLeastOnce then (acc.1, acc.2 ++ [(vk.1, true)])
            else ((removePending acc.1 vk.1).1, acc.2 ++ [(vk.1, false)])
          else acc) acc vk).1 = acc.1 ∨
        ∃ k, ((fun (acc : Rebuild w × List (Int × Bool)) (vk : Int × OptWrite w) =>
          if !C.contains vk.1 then
            if vk.2.isMaybe || !L.atLeastOnce then (acc.1, acc.2 ++ [(vk.1, true)])
            else ((removePending acc.1 vk.1).1, acc.2 ++ [(vk.1, false)])
          else acc) acc vk).1 = (removePending acc.1 k).1 := by
      intro acc x
      dsimp only
      split
      · split
        · exact Or.inl rfl
        · exact Or.inr ⟨_, rfl⟩
      · exact Or.inl rfl
    have q1 := foldl_remove_q (ps := ps) _ hf sub.written (s, []) (QStep.refl hwf)
    exact q1.trans (clobberAll_q ps _ hr q1.wf)
  · rw [run_pure] at hr
    cases hr
    exact QStep.refl hwf

theorem condZero_q {ps : List (Rebuild w)} {s s1 : Rebuild w} (h : QStep ps s s1) (sub : Rebuild w)
    (cond : Int) : QStep ps s (condZero s1 sub cond) := by
  unfold condZero
  split
  · split
    · exact h.insertWritten _ _
    · exact h
  · exact h

theorem loopPrep_q {s : Rebuild w} {ps : List (Rebuild w)} {sub : Rebuild w} {cond : Int}
    {L : OptLoop w} {C : List Int} {os os' : Orders} {r : Rebuild w × Rebuild w × List Int}
    (hr : (loopPrep s ps sub cond L C).run os = .ok (r, os')) (hwf : Wf s) : QStep ps s r.1 := by
  unfold loopPrep at hr
  split at hr
  · rw [run_bind_ok] at hr
    obtain ⟨s1, os1, h1, h2⟩ := hr
    rw [run_pure] at h2
    cases h2
    exact (emitAll_q ps _ h1 hwf).uncertainShift
  · dsimp only at hr
    rw [run_bind_ok] at hr
    obtain ⟨s1, os1, h1, h2⟩ := hr
    rw [run_bind_ok] at h2
    obtain ⟨s2, os2, h3, h4⟩ := h2
    rw [run_bind_ok] at h4
    obtain ⟨s3, os3, h5, h6⟩ := h4
    rw [run_pure] at h6
    cases h6
    have r1 := emitReadAll_q ps _ h1 hwf
    have r2 := r1.trans (emitReadAll_q ps _ h3 r1.wf)
    have r3 := r2.trans (clobberPhase_q h5 r2.wf)
    exact condZero_q r3 _ _

theorem loopTail_q {ps : List (Rebuild w)} {s s1 : Rebuild w} (h : QStep ps s s1) (sub : Rebuild w)
    (cond : Int) (isLoop : Bool) (L : OptLoop w) (hasShift : Bool) (clobbered : List Int) :
    QStep ps s (loopTail s1 sub cond isLoop L hasShift clobbered) := by
  have key : ∀ X : Rebuild w, QStep ps s X →
      QStep ps s ({ (if L.noContinue then { X with noReturn := true } else X) with
        subAnal := (if L.noContinue then { X with noReturn := true } else X).subAnal ++
          [OptAnalysis.mk L hasShift sub.reads clobbered sub.subAnal] } : Rebuild w) := by
    intro X hX
    by_cases hn : L.noContinue = true
    · rw [if_pos hn]
      exact (hX.setNoReturn true).setSubAnal _
    · rw [if_neg hn]
      exact hX.setSubAnal _
  have hX : QStep ps s (if isLoop then
      insertWritten { s1 with insts := s1.insts ++ [Ir.Instr.loop cond (sub.shift - s1.shift) sub.insts L.atLeastOnce] }
        cond (.known (Expr.val 0#w))
    else { s1 with insts := s1.insts ++ [Ir.Instr.ifnz cond (sub.shift - s1.shift) sub.insts] }) := by
    split
    · exact (h.push _).insertWritten _ _
    · exact h.push _
  exact key _ hX

/-- `loopOrIf` keeps `shift`, what `canAskParentFor` looks at, and `PVClean`. -/
theorem loopOrIf_q {s : Rebuild w} {ps : List (Rebuild w)} {sub : Rebuild w} {cond : Int}
    {isLoop : Bool} {L : OptLoop w} {C : List Int} {os os' : Orders} {s' : Rebuild w}
    (hr : (loopOrIf s ps sub cond isLoop L C).run os = .ok (s', os')) (hwf : Wf s) : QStep ps s s' := by
  obtain ⟨sub1, os1, r, _, h2, rfl⟩ := loopOrIf_run hr
  exact loopTail_q (loopPrep_q h2 hwf) _ _ _ _ _ _

/-! ### `loopInsideIf`, `finishLoop` -/

theorem loopInsideIf_b {s : Rebuild w} {ps : List (Rebuild w)} {sub : Rebuild w} {cond : Int}
    {L : OptLoop w} {after : List (Int × Expr w)} {C : List Int} {os os' : Orders} {s' : Rebuild w}
    (hr : (loopInsideIf s ps sub cond L after C).run os = .ok (s', os')) (hwf : Wf s) (hc : CanonSt s)
    (hsub : Child sub) : BStep ps s s' (sub.shift = s.shift) := by
  unfold loopInsideIf at hr
  dsimp only at hr
  split at hr
  · rw [run_bind_ok] at hr
    obtain ⟨s1, os1, h1, h2⟩ := hr
    have c1 := inline_canon h1 hwf hc hsub
    exact (inline_b h1 hwf).trans ((performAll_q h2 c1.wf).bstep _)
  · split at hr
    · rw [run_bind_ok] at hr
      obtain ⟨s1, os1, h1, h2⟩ := hr
      have r1 := performAll_q h1 hwf
      exact (r1.trans (performAll_q h2 r1.wf)).bstep _
    · rw [run_bind_ok] at hr
      obtain ⟨s1, os1, h1, h2⟩ := hr
      have r1 := loopOrIf_q (ps := ps) h1 hwf
      exact (r1.trans (performAll_q h2 r1.wf)).bstep _

/-- The child through the loop-motion phase of `finishLoop`: a `QStep` for the chain `s :: ps`. -/
theorem finishMotionK_run_q {s : Rebuild w} {ps : List (Rebuild w)} {sub : Rebuild w} {cond : Int}
    {L : OptLoop w} {k : MidRes w → M (Rebuild w)} {os os' : Orders} {s' : Rebuild w}
    (hr : (finishMotionK s ps sub cond L k).run os = .ok (s', os')) (hsub : Child sub) (hL : LoopCanon L) :
    ∃ (r : MidRes w) (os1 : Orders), Child r.1 ∧ QStep (s :: ps) sub r.1 ∧ CanonCalcs r.2.1 ∧
      CanonCalcs r.2.2.1 ∧ (k r).run os1 = .ok (s', os') := by
  unfold finishMotionK at hr
  dsimp only at hr
  rw [run_bind_ok] at hr
  obtain ⟨constant, os1, _, h2⟩ := hr
  rw [run_bind_ok] at h2
  obtain ⟨⟨sub1, B, D, A⟩, os2, h3, h4⟩ := h2
  dsimp only at h4
  rw [run_bind_ok] at h4
  obtain ⟨sub2, os3, h5, h6⟩ := h4
  rw [run_bind_ok] at h6
  obtain ⟨x, os4, h7, h8⟩ := h6
  rw [run_pure] at h7
  cases h7
  have hinv : MotionInv (sub1, B, D, A) ∧ QStep (s :: ps) sub sub1 := by
    refine foldlM_inv (fun acc _ => MotionInv acc ∧ QStep (s :: ps) sub acc.1) _ (pendingSorted sub sub) ?_
      (b := (sub, [], [], [])) (os := os1) ?_ h3
    · intro acc x os acc' os' _ hi hstep
      refine ⟨motionStepM_canon (fun v l h => linearAmong_canon_get hsub.canon _ _ h) hL hi.1 hstep, ?_⟩
      obtain ⟨sb, B0, D0, A0⟩ := acc
      obtain ⟨_, sub', p, b, d, a, hrm, _, hres⟩ :=
        OptLoop.motionStepM_ok s ps _ _ _ _ L sb B0 D0 A0 x os os' acc' hstep
      subst hres
      have e1 : sub' = (removePending sb x).1 := by rw [hrm]
      show QStep (s :: ps) sub sub'
      rw [e1]
      exact hi.2.removePending x
    · exact ⟨⟨hsub, canonCalcs_nil, canonCalcs_nil, canonCalcs_nil⟩, QStep.refl hsub.wf⟩
  obtain ⟨⟨hch, hB, hD, hA⟩, hk⟩ := hinv
  exact ⟨(sub2, B, A, constant), os3, hch.step (performAll_canon h5 hch.wf hch.canon hD),
    hk.trans (performAll_q h5 hch.wf), hB, hA, h8⟩

theorem finishEnd_b {s : Rebuild w} {ps : List (Rebuild w)} {cond : Int} {L : OptLoop w}
    {r : MidRes w} {os os' : Orders} {s' : Rebuild w}
    (hr : (finishEnd s ps cond L r).run os = .ok (s', os')) (hwf : Wf s) (hc : CanonSt s)
    (hsub : Child r.1) (hbefore : CanonCalcs r.2.1) (hafter : CanonCalcs r.2.2.1) :
    BStep ps s s' (r.1.shift = s.shift) := by
  obtain ⟨sub, before, after, constant⟩ := r
  unfold finishEnd at hr
  dsimp only at hr
  rw [run_bind_ok] at hr
  obtain ⟨s1, os1, h1, h2⟩ := hr
  have c1 := performAll_canon h1 hwf hc hbefore
  have q1 := performAll_q h1 hwf
  split at h2
  · have b2 := loopInsideIf_b (ps := ps) h2 c1.wf c1.canon hsub.forgetParent
    exact (q1.bstep _).trans (b2.mono (fun h => by
      show sub.shift = s1.shift
      rw [q1.shift]; exact h))
  · rw [run_bind_ok] at h2
    obtain ⟨ifS, os2, h3, h4⟩ := h2
    exact (q1.trans (loopOrIf_q h4 c1.wf)).bstep _

/-- **`finishLoop`**: `P` = the (completed) child is at the parent's `shift`. -/
theorem finishLoop_b {s : Rebuild w} {ps : List (Rebuild w)} {sub : Rebuild w} {cond : Int}
    {isLoop : Bool} {os os' : Orders} {s' : Rebuild w}
    (hr : (finishLoop s ps sub cond isLoop).run os = .ok (s', os')) (hwf : Wf s) (hc : CanonSt s)
    (hsub : Child sub) : BStep ps s s' (sub.shift = s.shift) := by
  rw [finishLoop_cut] at hr
  split at hr
  · rw [run_pure] at hr
    cases hr
    exact BStep.refl ps s _
  · split at hr
    · rw [run_bind_ok] at hr
      obtain ⟨x, os1, h1, h2⟩ := hr
      rw [run_pure] at h1
      cases h1
      exact finishEnd_b h2 hwf hc hsub canonCalcs_nil canonCalcs_nil
    · obtain ⟨r, os1, a, qq, b, c, h2⟩ := finishMotionK_run_q hr hsub
        (fun e he => analyzeLoop_canon s ps sub cond isLoop he)
      exact (finishEnd_b h2 hwf hc a b c).mono (fun h => by rw [qq.shift]; exact h)

/-! ### the full induction -/

theorem acore_popSubAnal (s : Rebuild w) : acore (popSubAnal s).1 = acore s := by
  unfold popSubAnal
  split
  · rename_i anal ha
    split
    · unfold acore
      rw [ha]
      cases anal with
      | mk a b c d e => rfl
    · rfl
  · rfl

theorem popSubAnal_q {ps : List (Rebuild w)} {s : Rebuild w} (hwf : Wf s) (hc : CanonSt s) :
    QStep ps s (popSubAnal s).1 := by
  have hf : (popSubAnal s).1.pending = s.pending ∧ (popSubAnal s).1.written = s.written ∧
      (popSubAnal s).1.parent = s.parent ∧ (popSubAnal s).1.subShift = s.subShift ∧
      (popSubAnal s).1.shift = s.shift := by
    unfold popSubAnal
    split
    · split <;> exact ⟨rfl, rfl, rfl, rfl, rfl⟩
    · exact ⟨rfl, rfl, rfl, rfl, rfl⟩
  obtain ⟨f1, f2, f3, f4, f5⟩ := hf
  exact ⟨(popSubAnal_cstep hwf hc).wf, acore_popSubAnal s, f5,
    pv_congr f1 f2 (fun x => getParentConstant_congr' (acore_popSubAnal s) f4 f3 (Or.inl f5) ps x)⟩

/-- The statement for instruction lists. -/
def ListStmtB (l : List (Instr w)) : Prop :=
  ∀ (ps : List (Rebuild w)) (s : Rebuild w) (os os' : Orders) (s' : Rebuild w) (done : Bool),
    (rebuildInsts ps s l).run os = .ok ((s', done), os') → Wf s → CanonSt s → CanonL l →
    BStep ps s s' (C01Dse.noShiftL l = true)

theorem rebuildBlockArm_b {ps : List (Rebuild w)} {s : Rebuild w} {cond shift : Int}
    {body : List (Instr w)} (isLoop : Bool) (hbody : ListStmtB body) (hcb : CanonL body)
    {os os' : Orders} {s' : Rebuild w}
    (hr : ((do
      let cond := cond + s.shift
      let (s, subAnal) := popSubAnal s
      let sub : Rebuild w := reverseSubBlocks (Rebuild.new s.shift (some cond) .parent subAnal)
      let (sub, completed) ← rebuildInsts (s :: ps) sub body
      let sub := if completed then { sub with shift := sub.shift + shift } else sub
      finishLoop s ps sub cond isLoop) : M (Rebuild w)).run os = .ok (s', os'))
    (hwf : Wf s) (hc : CanonSt s) : BStep ps s s' (shift = 0 ∧ C01Dse.noShiftL body = true) := by
  have r0 := popSubAnal_cstep hwf hc
  have q0 : QStep ps s (popSubAnal s).1 := popSubAnal_q hwf hc
  rcases hps : popSubAnal s with ⟨s1, sa⟩
  rw [hps] at hr r0 q0
  dsimp only at hr r0 q0
  rw [run_bind_ok] at hr
  obtain ⟨⟨sub, completed⟩, os1, h1, h2⟩ := hr
  dsimp only at h2
  have hch0 : Child (reverseSubBlocks (Rebuild.new s1.shift (some (cond + s.shift)) .parent sa)) :=
    (child_new _ _ _ _).reverseSubBlocks
  have hch : Child sub := hch0.step (rebuildInsts_cstep_all body h1 hch0.wf hch0.canon hcb)
  have hb := hbody _ _ _ _ _ _ h1 hch0.wf hch0.canon hcb
  have hsh0 : (reverseSubBlocks (Rebuild.new s1.shift (some (cond + s.shift)) .parent sa)).shift = s1.shift := by
    obtain ⟨_, f2, _⟩ :=
      reverseSubBlocks_fields (Rebuild.new s1.shift (some (cond + s.shift)) .parent sa : Rebuild w)
    rw [f2]; rfl
  have hch' : Child (if completed = true then { sub with shift := sub.shift + shift } else sub) := by
    split
    · exact hch.of_fields rfl rfl rfl rfl
    · exact hch
  have b1 := finishLoop_b (ps := ps) h2 r0.wf r0.canon hch'
  refine (q0.bstep _).trans (b1.mono ?_)
  rintro ⟨h0, hns⟩
  have e : sub.shift = s1.shift := (hb.shift hns).trans hsh0
  split
  · show sub.shift + shift = s1.shift
    rw [h0, e]; omega
  · exact e

theorem rebuildInstr_b_of_lists (n : Nat) (IH : ∀ l : List (Instr w), sizeL l ≤ n → ListStmtB l)
    (i : Instr w) (hi : sizeI i ≤ n + 1) {ps : List (Rebuild w)} {s : Rebuild w} {os os' : Orders}
    {s' : Rebuild w} (hr : (rebuildInstr ps s i).run os = .ok (s', os')) (hwf : Wf s) (hc : CanonSt s)
    (hci : CanonL [i]) : BStep ps s s' (C01Dse.noShiftI i = true) := by
  cases i with
  | output src => exact (rebuildInstr_q hr hwf rfl).bstep _
  | input dst => exact (rebuildInstr_q hr hwf rfl).bstep _
  | «calc» calcs => exact (rebuildInstr_q hr hwf rfl).bstep _
  | loop c sh body o =>
    rw [sizeI] at hi
    rw [rebuildInstr] at hr
    refine (rebuildBlockArm_b true (IH body (by omega)) (canonL_loop.1 hci) hr hwf hc).mono ?_
    intro h
    rw [C01Dse.noShiftI] at h
    simpa using h
  | ifnz c sh body =>
    rw [sizeI] at hi
    rw [rebuildInstr] at hr
    refine (rebuildBlockArm_b false (IH body (by omega)) (canonL_ifnz.1 hci) hr hwf hc).mono ?_
    intro h
    rw [C01Dse.noShiftI] at h
    simpa using h

theorem rebuildInsts_b_size (n : Nat) : ∀ l : List (Instr w), sizeL l ≤ n → ListStmtB l := by
  induction n with
  | zero =>
    intro l hl ps s os os' s' done hr hwf hc _
    cases l with
    | nil =>
      rw [rebuildInsts, run_pure] at hr
      cases hr
      exact BStep.refl ps s _
    | cons i rest =>
      rw [sizeL] at hl
      have := sizeI_pos i
      omega
  | succ n ih =>
    intro l hl
    induction l with
    | nil =>
      intro ps s os os' s' done hr hwf hc _
      rw [rebuildInsts, run_pure] at hr
      cases hr
      exact BStep.refl ps s _
    | cons i rest ihl =>
      intro ps s os os' s' done hr hwf hc hcl
      rw [sizeL] at hl
      have hpos := sizeI_pos i
      rw [canonL_cons] at hcl
      rw [rebuildInsts] at hr
      split at hr
      · rw [run_pure] at hr
        cases hr
        exact BStep.refl ps s _
      · rw [run_bind_ok] at hr
        obtain ⟨s1, os1, h1, h2⟩ := hr
        have hci : CanonL [i] := canonL_single.2 hcl.1
        have c1 := rebuildInstr_cstep_all i h1 hwf hc hci
        have r1 := rebuildInstr_b_of_lists n ih i (by omega) h1 hwf hc hci (ps := ps)
        have r2 := ihl (by omega) ps s1 os1 os' s' done h2 c1.wf c1.canon hcl.2
        have hsplit : C01Dse.noShiftL (i :: rest) = true →
            C01Dse.noShiftI i = true ∧ C01Dse.noShiftL rest = true := by
          intro h
          rw [C01Dse.noShiftL] at h
          simpa using h
        exact (r1.mono (fun h => (hsplit h).1)).trans (r2.mono (fun h => (hsplit h).2))

/-- **All of `rebuildInsts`.** -/
theorem rebuildInsts_b_all {ps : List (Rebuild w)} (l : List (Instr w)) {s : Rebuild w}
    {os os' : Orders} {s' : Rebuild w} {done : Bool}
    (hr : (rebuildInsts ps s l).run os = .ok ((s', done), os')) (hwf : Wf s) (hc : CanonSt s)
    (hcl : CanonL l) : BStep ps s s' (C01Dse.noShiftL l = true) :=
  rebuildInsts_b_size (sizeL l) l (Nat.le_refl _) ps s os os' s' done hr hwf hc hcl

/-- **All of `rebuildInstr`.** -/
theorem rebuildInstr_b_all {ps : List (Rebuild w)} {s : Rebuild w} (i : Instr w) {os os' : Orders}
    {s' : Rebuild w} (hr : (rebuildInstr ps s i).run os = .ok (s', os')) (hwf : Wf s) (hc : CanonSt s)
    (hci : CanonL [i]) : BStep ps s s' (C01Dse.noShiftI i = true) :=
  rebuildInstr_b_of_lists (sizeI i) (fun l hl => rebuildInsts_b_size _ l hl) i (by omega) hr hwf hc hci

/-! ### the requested forms -/

/-- The questions of `s` to its parent do not depend on the `shift` changes made while `l` is rebuilt. -/
def StableAsk (s : Rebuild w) (l : List (Instr w)) : Prop := ShiftIndep s ∨ C01Dse.noShiftL l = true

theorem rebuildInsts_pvclean_all {ps : List (Rebuild w)} (l : List (Instr w)) {s : Rebuild w}
    {os os' : Orders} {s' : Rebuild w} {done : Bool}
    (hr : (rebuildInsts ps s l).run os = .ok ((s', done), os')) (hwf : Wf s) (hc : CanonSt s)
    (hcl : CanonL l) (hst : StableAsk s l) (hpv : PVClean s ps) : PVClean s' ps :=
  (rebuildInsts_b_all l hr hwf hc hcl).pv hst hpv

/-- A list without pointer movement leaves `shift` alone. -/
theorem rebuildInsts_shift_const {ps : List (Rebuild w)} (l : List (Instr w)) {s : Rebuild w}
    {os os' : Orders} {s' : Rebuild w} {done : Bool}
    (hr : (rebuildInsts ps s l).run os = .ok ((s', done), os')) (hwf : Wf s) (hc : CanonSt s)
    (hcl : CanonL l) (hns : C01Dse.noShiftL l = true) : s'.shift = s.shift :=
  (rebuildInsts_b_all (ps := ps) l hr hwf hc hcl).shift hns

/-- What `canAskParentFor` looks at is never changed. -/
theorem rebuildInsts_acore {ps : List (Rebuild w)} (l : List (Instr w)) {s : Rebuild w}
    {os os' : Orders} {s' : Rebuild w} {done : Bool}
    (hr : (rebuildInsts ps s l).run os = .ok ((s', done), os')) (hwf : Wf s) (hc : CanonSt s)
    (hcl : CanonL l) : acore s' = acore s :=
  (rebuildInsts_b_all (ps := ps) l hr hwf hc hcl).core

/-- The fresh child. -/
theorem pvClean_child (sh : Int) (c : Option Int) (par : OptParent) (anal : Option (OptAnalysis w))
    (ps : List (Rebuild w)) : PVClean (reverseSubBlocks (Rebuild.new sh c par anal)) ps := by
  apply pvClean_of_pending_nil
  obtain ⟨_, _, _, _, _, _, _, f8, _⟩ := reverseSubBlocks_fields (Rebuild.new sh c par anal : Rebuild w)
  rw [f8]; rfl

theorem acore_child (sh : Int) (c : Option Int) (par : OptParent) (anal : Option (OptAnalysis w)) :
    acore (reverseSubBlocks (Rebuild.new sh c par anal) : Rebuild w) =
      anal.map (fun a => (a.loopAnal.atMostOnce, a.hasShift, a.clobbered)) := by
  unfold reverseSubBlocks acore
  cases anal with
  | none => rfl
  | some a => cases a with
    | mk a b c d e => rfl

/-- `StableAsk` of a fresh child from a fact about its node. -/
theorem stableAsk_child (sh : Int) (c : Option Int) (par : OptParent) (anal : Option (OptAnalysis w))
    (body : List (Instr w))
    (h : ∀ a, anal = some a →
      a.loopAnal.atMostOnce = true ∨ a.hasShift = true ∨ C01Dse.noShiftL body = true) :
    StableAsk (reverseSubBlocks (Rebuild.new sh c par anal) : Rebuild w) body := by
  unfold StableAsk ShiftIndep
  rw [acore_child]
  cases anal with
  | none => exact Or.inl trivial
  | some a =>
    rcases h a rfl with h1 | h1 | h1
    · exact Or.inl (Or.inl h1)
    · exact Or.inl (Or.inr h1)
    · exact Or.inr h1

/-- `PVClean` is unaffected by the block's final `shift` update under `StableAsk`-style hypotheses. -/
theorem pvClean_addShift {s : Rebuild w} {ps : List (Rebuild w)} (x : Int) (h : ShiftIndep s ∨ x = 0)
    (hpv : PVClean s ps) : PVClean ({ s with shift := s.shift + x } : Rebuild w) ps := by
  rcases h with h | h
  · exact pvClean_setShift h _ hpv
  · subst h
    exact pv_reshift (s := s) rfl rfl rfl rfl rfl (Or.inl (Int.add_zero s.shift)) hpv

/-! ### `noShift` from the shape of the analysis of the source -/

mutual
theorem noShiftI_of_shapeI : ∀ (i : Instr w) (a : OptAnalysis w), ShapeI i a → a.hasShift = false →
    C01Dse.noShiftI i = true
  | .output _, _, h, _ => by rw [ShapeI] at h; exact h.elim
  | .input _, _, h, _ => by rw [ShapeI] at h; exact h.elim
  | .calc _, _, h, _ => by rw [ShapeI] at h; exact h.elim
  | .loop c sh body o, .mk L hs r cl subs, h, hh => by
    rw [ShapeI] at h
    obtain ⟨_, _, h3, h4⟩ := h
    obtain ⟨e1, e2⟩ := h3 hh
    rw [C01Dse.noShiftI, noShiftL_of_shapeL body subs h4 e2, e1]
    rfl
  | .ifnz c sh body, .mk L hs r cl subs, h, hh => by
    rw [ShapeI] at h
    obtain ⟨_, h3, h4⟩ := h
    obtain ⟨e1, e2⟩ := h3 hh
    rw [C01Dse.noShiftI, noShiftL_of_shapeL body subs h4 e2, e1]
    rfl
/-- A block whose nodes all have `hasShift = false` does not move the pointer. -/
theorem noShiftL_of_shapeL : ∀ (l : List (Instr w)) (subs : List (OptAnalysis w)), ShapeL l subs →
    (∀ a ∈ subs, a.hasShift = false) → C01Dse.noShiftL l = true
  | [], _, _, _ => by rw [C01Dse.noShiftL]
  | .output x :: rest, subs, h, hs => by
    rw [shapeL_cons_nonblock rfl] at h
    rw [C01Dse.noShiftL, noShiftL_of_shapeL rest subs h hs]; rfl
  | .input x :: rest, subs, h, hs => by
    rw [shapeL_cons_nonblock rfl] at h
    rw [C01Dse.noShiftL, noShiftL_of_shapeL rest subs h hs]; rfl
  | .calc x :: rest, subs, h, hs => by
    rw [shapeL_cons_nonblock rfl] at h
    rw [C01Dse.noShiftL, noShiftL_of_shapeL rest subs h hs]; rfl
  | .loop c sh body o :: rest, subs, h, hs => by
    rw [shapeL_cons_block rfl] at h
    obtain ⟨a, subs', rfl, ha, hr⟩ := h
    rw [C01Dse.noShiftL, noShiftI_of_shapeI _ a ha (hs a (by simp)),
      noShiftL_of_shapeL rest subs' hr (fun a' h' => hs a' (by simp [h']))]
    rfl
  | .ifnz c sh body :: rest, subs, h, hs => by
    rw [shapeL_cons_block rfl] at h
    obtain ⟨a, subs', rfl, ha, hr⟩ := h
    rw [C01Dse.noShiftL, noShiftI_of_shapeI _ a ha (hs a (by simp)),
      noShiftL_of_shapeL rest subs' hr (fun a' h' => hs a' (by simp [h']))]
    rfl
end

/-- The node of a nested block of the source gives `StableAsk` for the child that rebuilds its body. -/
theorem stableAsk_child_of_shapeI {i : Instr w} {a : OptAnalysis w} (h : ShapeI i a) (sh : Int)
    (c : Option Int) (par : OptParent) {cond shift : Int} {body : List (Instr w)}
    (hp : C01Dse.blockParts i = some (cond, shift, body)) :
    StableAsk (reverseSubBlocks (Rebuild.new sh c par (some a)) : Rebuild w) body ∧
    (a.loopAnal.atMostOnce = true ∨ a.hasShift = true ∨ shift = 0) := by
  have key : a.hasShift = false → shift = 0 ∧ C01Dse.noShiftL body = true := by
    intro hh
    have := noShiftI_of_shapeI i a h hh
    cases i with
    | output _ => simp [C01Dse.blockParts] at hp
    | input _ => simp [C01Dse.blockParts] at hp
    | «calc» _ => simp [C01Dse.blockParts] at hp
    | loop c' sh' body' o =>
      simp only [C01Dse.blockParts, Option.some.injEq, Prod.mk.injEq] at hp
      obtain ⟨_, rfl, rfl⟩ := hp
      rw [C01Dse.noShiftI] at this
      simpa using this
    | ifnz c' sh' body' =>
      simp only [C01Dse.blockParts, Option.some.injEq, Prod.mk.injEq] at hp
      obtain ⟨_, rfl, rfl⟩ := hp
      rw [C01Dse.noShiftI] at this
      simpa using this
  cases hh : a.hasShift with
  | true =>
    refine ⟨stableAsk_child sh c par (some a) body ?_, Or.inr (Or.inl rfl)⟩
    intro a' ha'
    cases ha'
    exact Or.inr (Or.inl hh)
  | false =>
    obtain ⟨k1, k2⟩ := key hh
    refine ⟨stableAsk_child sh c par (some a) body ?_, Or.inr (Or.inr k1)⟩
    intro a' _
    exact Or.inr (Or.inr k2)

#print axioms rebuildInsts_pvclean_all
#print axioms rebuildInsts_shift_const

end OptProof
end Hpbf
