/-
Rebuild-round proofs, stage 5 (the analysis a round RECORDS is sound for the program it EMITS): shared definitions.

The statement for one step `s → s'` of the rebuild that appends the instructions `new` and the analysis nodes `newA`:
`AnalInL` (Hpbf/Proofs/OptRbAnalIn.lean) holds for `new` / `newA` from every emitted-program state that MIRRORS a
valid one (`MirV`): it agrees with a state `σ1` satisfying the validity predicate `V` (normally
`ValidG G sh s ps`) except on cells in a set `K` that the code does not read (`K` is disjoint from `s'.reads`; it
is empty once the state has made an uncertain move).  Mirror states are needed because the code of a nested block
is run, inside the emitted loop of its parent, from heads that are NOT valid for the child: they differ from a
valid companion on the cells for which the parent has unmaterialized pending operations.
-/
import Hpbf.Proofs.OptRbGDefs
import Hpbf.Proofs.OptRbAnalCheck

namespace Hpbf
namespace OptProof
open Opt OptSem Ir

variable {w : Nat}

/-- The emitted-program states that mirror a `V`-state for the step `s → s'`. -/
def MirV (V : State w → Prop) (s s' : Rebuild w) : State w → Prop :=
  fun σ2 => ∃ (σ1 : State w) (K : Int → Prop), V σ1 ∧ (∀ v, K v → v ∉ s'.reads) ∧
    (s'.subShift = true → ∀ v, ¬ K v) ∧ AgreeOff (Rest K s) σ1 σ2

/-- A `V`-state mirrors itself. -/
theorem MirV.self {V : State w → Prop} {s s' : Rebuild w} {σ : State w} (h : V σ) : MirV V s s' σ :=
  ⟨σ, fun _ => False, h, fun _ hv => hv.elim, fun _ _ hv => hv, rfl, rfl, rfl, fun _ _ => rfl⟩

/-- The step `s → s'` appends `new` and nodes that are sound for it from every mirror state. -/
structure AStep (V : State w → Prop) (s s' : Rebuild w) (new : List (Instr w)) : Prop where
  ext : ∃ newA, s'.subAnal = s.subAnal ++ newA ∧ ShapeL new newA ∧ AnalInL (MirV V s s') new newA

end OptProof
end Hpbf
