/-
Rebuild-round proofs: `performAll` on a state WITHOUT pending operations, justified with a parent interface that
is only required on a set `X` of cells (`PKc`), namely the targets and the variables of the calculations.

Used for `performAll sub (s :: ps) 0 toPerform` in `finishLoop` (the child state after all its pending operations
have been removed), at memories where the full interface `PK sub (s :: ps) M0` may fail on cells that are never
consulted.
-/
import Hpbf.Proofs.OptRbEmit
import Hpbf.Proofs.OptLoopSplit

namespace Hpbf
namespace OptProof
open Opt OptSem

variable {w : Nat}

/-- The constants known through the parent chain are right on the cells in `X` that the state has not written
(the only cells for which the parent is ever asked). -/
def PKc (X : Int → Prop) (s : Rebuild w) (ps : List (Rebuild w)) (M0 : Mem w) : Prop :=
  ∀ v, X v → mGet s.written v = none → ∀ c, getParentConstant s ps v = some c → M0 v = c

theorem PK.toC {s : Rebuild w} {ps : List (Rebuild w)} {M0 : Mem w} (h : PK s ps M0) (X : Int → Prop) :
    PKc X s ps M0 := fun v _ _ c hc => h.const v c hc

theorem PKc.congr {X : Int → Prop} {s s' : Rebuild w} {ps : List (Rebuild w)} {M0 : Mem w}
    (h : PKc X s ps M0) (hh : SameHdr s s') (hwr : s'.written = s.written) : PKc X s' ps M0 :=
  fun v hx hv c hc => h v hx (by rw [← hwr]; exact hv) c (by rw [← getParentConstant_congr hh]; exact hc)

theorem PKc.mono {X Y : Int → Prop} {s : Rebuild w} {ps : List (Rebuild w)} {M0 : Mem w}
    (h : PKc X s ps M0) (hxy : ∀ v, Y v → X v) : PKc Y s ps M0 :=
  fun v hy hv c hc => h v (hxy v hy) hv c hc

/-! ### (1) the explosion check does nothing without pending operations -/

theorem explosionVars_nopending (ps : List (Rebuild w)) (vars : List Int) (last : Option Int)
    {s : Rebuild w} (hp : s.pending = []) (os : Orders) :
    (explosionVars ps vars last s).run os = .ok (s, os) := by
  induction vars generalizing last with
  | nil => rfl
  | cons var rest ih =>
    unfold explosionVars
    have hm : mGet s.pending var = none := by rw [hp]; rfl
    simp only [hm]
    rw [run_bind, run_pure]
    exact ih (some var)

/-- A fold in `M` whose steps all return the state and the oracle unchanged. -/
theorem foldlM_nop {γ : Type} (f : Rebuild w → γ → M (Rebuild w)) (l : List γ) (s : Rebuild w)
    (h : ∀ x, x ∈ l → ∀ os, (f s x).run os = .ok (s, os)) (os : Orders) :
    (l.foldlM f s).run os = .ok (s, os) := by
  induction l with
  | nil => rfl
  | cons x l ih =>
    rw [List.foldlM_cons, run_bind, h x List.mem_cons_self os]
    exact ih (fun y hy => h y (List.mem_cons_of_mem _ hy))

theorem performCheck_nopending {s : Rebuild w} (ps : List (Rebuild w)) (calcs : List (Int × Expr w))
    (hp : s.pending = []) (os : Orders) :
    (performCheck s ps calcs).run os = .ok (s, os) := by
  unfold performCheck
  apply foldlM_nop
  intro vc _ os1
  apply foldlM_nop
  intro vars _ os2
  split
  · exact explosionVars_nopending ps vars none hp os2
  · rfl

/-! ### (2) soundness of the accessors on the cells in `X` -/

section Sound
variable {X : Int → Prop} {s : Rebuild w} {ps : List (Rebuild w)} {M0 E : Mem w}

theorem getWrittenConstant_sound_c (hw : WrOk s M0 E) (hk : PKc X s ps M0) {v : Int} {c : BitVec w}
    (hx : X v) (hc : getWrittenConstant s ps v = some c) : E v = c := by
  rw [getWrittenConstant_eq] at hc
  split at hc
  · rename_i e hv
    rw [hw.known hv]; exact Expr.eval_constant e c M0 hc
  · cases hc
  · rename_i hv
    rw [hw.absent hv]; exact hk v hx hv c hc

theorem getWritten_sound_c (hw : WrOk s M0 E) (hk : PKc X s ps M0) {v : Int} {e : Expr w}
    (hx : X v) (he : getWritten s ps v = some e) : ev e M0 = E v := by
  unfold getWritten at he
  split at he
  · rename_i e' hv
    cases he; exact (hw.known hv).symm
  · cases he
  · rename_i hv
    split at he
    · rename_i c hc
      cases he
      rw [hw.absent hv, hk v hx hv c hc]
      exact Expr.eval_val c M0
    · cases he
      rw [hw.absent hv]; exact Expr.eval_var v M0

theorem evalWritten_sound_c (hw : WrOk s M0 E) (hk : PKc X s ps M0) {e e' : Expr w}
    (hx : ∀ v ∈ Expr.variables e, X v) (he : evalWritten s ps e = some e') : ev e' M0 = ev e E := by
  unfold evalWritten at he
  split at he
  · have hd := (Expr.symbEvaluate_isSome e (fun i => getWritten s ps i)).1 (by rw [he]; rfl)
    show Expr.evaluate e' M0 = _
    rw [Expr.eval_symbEvaluate e e' _ M0 he]
    apply ev_congr
    intro v hv
    have := hd v hv
    cases hg : getWritten s ps v with
    | none => simp [hg] at this
    | some ev' =>
      show (match getWritten s ps v with | some ev => Expr.evaluate ev M0 | none => 0#w) = E v
      rw [hg]; exact getWritten_sound_c hw hk (hx v hv) hg
  · rename_i hany
    cases he
    apply ev_congr
    intro v hv
    have : mHas s.written v = false := by
      simp only [List.any_eq_true, not_exists, not_and, Bool.not_eq_true] at hany
      exact hany v hv
    exact (hw.absent ((mHas_false_iff _ _).1 this)).symm

theorem compareWrittenNoParent_sound_c (hw : WrOk s M0 E) (hk : PKc X s ps M0) {a b : Expr w}
    (hxa : ∀ v ∈ Expr.variables a, X v) (hxb : ∀ v ∈ Expr.variables b, X v)
    (hc : compareWrittenNoParent s ps a b = true) : ev a E = ev b E := by
  unfold compareWrittenNoParent at hc
  split at hc
  · rename_i hab
    have : a = b := by simpa using hab
    rw [this]
  · split at hc
    · rename_i a' ha
      split at hc
      · rename_i b' hb
        have : a' = b' := by simpa using hc
        rw [← evalWritten_sound_c hw hk hxa ha, ← evalWritten_sound_c hw hk hxb hb, this]
      · cases hc
    · cases hc

/-- The written value of a single cell never needs the parent: the parent is only asked for the OTHER cells of an
expression that mentions a written cell. -/
theorem evalWritten_var_sound (hw : WrOk s M0 E) {v : Int} {e' : Expr w}
    (he : evalWritten s ps (Expr.var v) = some e') : ev e' M0 = E v := by
  have hvars : Expr.variables (Expr.var (w := w) v) = [v] := by simp [Expr.variables, Expr.var]
  unfold evalWritten at he
  split at he
  · rename_i hany
    rw [hvars] at hany
    simp only [List.any_cons, List.any_nil, Bool.or_false] at hany
    have hd := (Expr.symbEvaluate_isSome (Expr.var v) (fun i => getWritten s ps i)).1 (by rw [he]; rfl)
    show Expr.evaluate e' M0 = _
    rw [Expr.eval_symbEvaluate (Expr.var v) e' _ M0 he, ← Expr.eval_var v E]
    apply ev_congr
    intro y hy
    rw [hvars] at hy
    have : y = v := by simpa using hy
    subst this
    have := hd y (by rw [hvars]; simp)
    cases hg : getWritten s ps y with
    | none => simp [hg] at this
    | some ev' =>
      show (match getWritten s ps y with | some ev => Expr.evaluate ev M0 | none => 0#w) = E y
      rw [hg]
      unfold getWritten at hg
      split at hg
      · rename_i e'' hv
        cases hg; exact (hw.known hv).symm
      · cases hg
      · rename_i hv
        rw [(mHas_false_iff _ _).symm] at hv
        rw [hv] at hany
        cases hany
  · cases he
    rw [hw.absent ((mHas_false_iff _ _).1 (by
      rename_i hany
      rw [hvars] at hany
      simpa using hany))]
    exact Expr.eval_var v M0

theorem compareWrittenNoParent_var_sound_c (hw : WrOk s M0 E) (hk : PKc X s ps M0) {v : Int} {b : Expr w}
    (hxb : ∀ v ∈ Expr.variables b, X v)
    (hc : compareWrittenNoParent s ps (Expr.var v) b = true) : E v = ev b E := by
  unfold compareWrittenNoParent at hc
  split at hc
  · rename_i hab
    have : Expr.var v = b := by simpa using hab
    rw [← this]; exact (Expr.eval_var v E).symm
  · split at hc
    · rename_i a' ha
      split at hc
      · rename_i b' hb
        have : a' = b' := by simpa using hc
        rw [← evalWritten_var_sound hw ha, ← evalWritten_sound_c hw hk hxb hb, this]
      · cases hc
    · cases hc

/-- Without pending operations `getPending` is the written / parent constant, or the cell itself. -/
theorem getPending_sound_c (hp : s.pending = []) (hw : WrOk s M0 E) (hk : PKc X s ps M0) {v : Int}
    (hx : X v) : ev (getPending s ps v) E = E v := by
  unfold getPending
  have hm : mGet s.pending v = none := by rw [hp]; rfl
  simp only [hm]
  split
  · rename_i c hc
    rw [getWrittenConstant_sound_c hw hk hx hc]; exact Expr.eval_val c E
  · exact Expr.eval_var v E

theorem getPending_vars_c (hp : s.pending = []) (v : Int) :
    ∀ y ∈ Expr.variables (getPending s ps v), y = v := by
  unfold getPending
  have hm : mGet s.pending v = none := by rw [hp]; rfl
  simp only [hm]
  split
  · intro y hy
    unfold Expr.val at hy
    split at hy <;> simp [Expr.variables] at hy
  · intro y hy
    simpa [Expr.variables, Expr.var] using hy

theorem evalPending_sound_c (hp : s.pending = []) (hw : WrOk s M0 E) (hk : PKc X s ps M0) {sh : Int}
    {e e' : Expr w} (hx : ∀ v ∈ Expr.variables e, X (v + sh)) (he : evalPending s ps sh e = .ok e') :
    ev e' E = Expr.evaluate e (fun x => E (x + sh)) := by
  unfold evalPending at he
  split at he
  · cases hr : Expr.symbEvaluate e (fun x => some (getPending s ps (x + sh))) with
    | none => rw [hr] at he; cases he
    | some r =>
      rw [hr] at he
      cases he
      show Expr.evaluate _ E = _
      rw [Expr.eval_symbEvaluate e _ _ E hr]
      apply C01Dse.evaluate_congr
      intro v hv
      exact getPending_sound_c hp hw hk (hx v hv)
  · split at he
    · cases he
      show Expr.evaluate (shiftVars e sh) E = _
      rw [evaluate_shiftVars]
    · rename_i hsh
      cases he
      have : sh = 0 := by simpa using hsh
      subst this
      show Expr.evaluate e E = _
      congr 1; funext x; simp

/-- The variables of the result of `evalPending` (no pending operations) are shifted variables of the input. -/
theorem evalPending_vars_c (hp : s.pending = []) {sh : Int} {e e' : Expr w}
    (hx : ∀ v ∈ Expr.variables e, X (v + sh)) (he : evalPending s ps sh e = .ok e') :
    ∀ y ∈ Expr.variables e', X y := by
  unfold evalPending at he
  split at he
  · cases hr : Expr.symbEvaluate e (fun x => some (getPending s ps (x + sh))) with
    | none => rw [hr] at he; cases he
    | some r =>
      rw [hr] at he
      cases he
      refine OptLoop.varsIn_iff.1 (OptLoop.symbEvaluate_varsIn (S := X) _ e e' ?_ hr)
      intro v hv e1 he1
      simp only [Option.some.injEq] at he1
      subst he1
      refine (OptLoop.varsIn_iff (S := X)).2 ?_
      intro y hy
      rw [getPending_vars_c (ps := ps) hp (v + sh) y hy]
      exact hx v hv
  · split at he
    · cases he
      intro y hy
      rw [OptLoop.shiftVars_variables] at hy
      obtain ⟨v, hv, rfl⟩ := List.mem_map.1 hy
      exact hx v hv
    · rename_i hsh
      cases he
      have : sh = 0 := by simpa using hsh
      subst this
      intro y hy
      have := hx y hy
      simpa using this

end Sound

/-! ### (3) `insertPending` and `performAll` -/

/-- `insertPending_minv` with the restricted parent interface: the target and the variables of the expression
are in `X`. -/
theorem insertPending_c {X : Int → Prop} {s : Rebuild w} {ps : List (Rebuild w)} {M0 E S : Mem w}
    (hwf : Wf s) (hpend : S = Mem.par s.pending E) (hw : WrOk s M0 E) (hk : PKc X s ps M0)
    (var : Int) (expr : Expr w) (hxe : ∀ v ∈ Expr.variables expr, X v) :
    upd S var (ev expr E) = Mem.par (insertPending s ps var expr).pending E ∧
    WrOk (insertPending s ps var expr) M0 E ∧ PKc X (insertPending s ps var expr) ps M0 := by
  have hsame := insertPending_same s ps var expr
  refine ⟨?_, hw.of_written_eq hsame.2.2.2.2.2.2.2.1, hk.congr hsame.hdr hsame.2.2.2.2.2.2.2.1⟩
  funext v
  unfold Mem.par
  rw [insertPending_get hwf]
  by_cases hv : var = v
  · subst hv
    simp only [if_true, upd_same]
    cases hc : compareWrittenNoParent (removePending s var).1 ps (Expr.var var) expr with
    | true =>
      simp only [if_true]
      have hs1 := removePending_same s var
      exact Eq.symm <| compareWrittenNoParent_var_sound_c (X := X) (s := (removePending s var).1) (ps := ps) (M0 := M0)
        (E := E) (hw.of_written_eq hs1.2.2.2.2.2.2.2.1) (hk.congr hs1.hdr hs1.2.2.2.2.2.2.2.1) hxe hc
    | false =>
      simp only [Bool.false_eq_true, if_false]
      exact (Expr.eval_normalize expr E).symm
  · simp only [hv, if_false]
    have : v ≠ var := fun e => hv e.symm
    rw [upd_ne _ _ _ _ this, hpend]
    rfl

theorem foldl_insertPending_c {X : Int → Prop} {s : Rebuild w} {ps : List (Rebuild w)} {M0 E S : Mem w}
    (hwf : Wf s) (hpend : S = Mem.par s.pending E) (hw : WrOk s M0 E) (hk : PKc X s ps M0)
    (exprs : List (Int × Expr w))
    (hx : ∀ ve ∈ exprs, ∀ v ∈ Expr.variables ve.2, X v) :
    assignE E exprs S = Mem.par (exprs.foldl (fun s ve => insertPending s ps ve.1 ve.2) s).pending E ∧
    WrOk (exprs.foldl (fun s ve => insertPending s ps ve.1 ve.2) s) M0 E ∧
    PKc X (exprs.foldl (fun s ve => insertPending s ps ve.1 ve.2) s) ps M0 := by
  induction exprs generalizing s S with
  | nil => exact ⟨hpend, hw, hk⟩
  | cons ve exprs ih =>
    simp only [List.foldl_cons, assignE]
    obtain ⟨h1, h2, h3⟩ := insertPending_c hwf hpend hw hk ve.1 ve.2 (hx ve List.mem_cons_self)
    exact ih (insertPending_wf hwf ps ve.1 ve.2) h1 h2 h3
      (fun ve' h' => hx ve' (List.mem_cons_of_mem _ h'))

theorem assignE_eq_assignS_c {X : Int → Prop} {s : Rebuild w} {ps : List (Rebuild w)} {M0 E : Mem w}
    (hp : s.pending = []) (hw : WrOk s M0 E) (hk : PKc X s ps M0) {shift : Int}
    {calcs exprs : List (Int × Expr w)}
    (hx : ∀ vc ∈ calcs, ∀ x ∈ Expr.variables vc.2, X (x + shift))
    (hf : All2 (fun vc ve => ve.1 = shift + vc.1 ∧ evalPending s ps shift vc.2 = .ok ve.2)
      calcs exprs) :
    assignE E exprs E = assignS shift calcs E := by
  unfold assignE assignS
  suffices H : ∀ (acc : Mem w),
      exprs.foldl (fun S ve => upd S ve.1 (ev ve.2 E)) acc =
      (calcs.map (fun vc => (shift + vc.1, Expr.evaluate vc.2 (fun x => E (x + shift))))).foldl
        (fun m kv => upd m kv.1 kv.2) acc from H E
  intro acc
  induction hf generalizing acc with
  | nil => rfl
  | @cons a b as bs hab _ ih =>
    simp only [List.foldl_cons, List.map_cons]
    rw [hab.1, evalPending_sound_c hp hw hk (hx a List.mem_cons_self) hab.2]
    exact ih (fun vc h' => hx vc (List.mem_cons_of_mem _ h')) _

/-- **`performAll` on a state without pending operations**, parent interface only on `X`. -/
theorem performAll_spec_c {s : Rebuild w} {ps : List (Rebuild w)} {calcs : List (Int × Expr w)}
    (hwf : Wf s) (hp : s.pending = []) {os os' : Orders} {s' : Rebuild w}
    (hr : (performAll s ps 0 calcs).run os = .ok (s', os')) :
    os' = os ∧ Wf s' ∧ SameButPend s s' ∧
    ∀ (X : Int → Prop) (M0 E : Mem w),
      (∀ vc ∈ calcs, ∀ x ∈ Expr.variables vc.2, X x) → WrOk s M0 E → PKc X s ps M0 →
      Mem.par s'.pending E = assignS 0 calcs E ∧ WrOk s' M0 E := by
  rw [performAll_eq, run_bind_ok] at hr
  obtain ⟨s1, os1, h1, h2⟩ := hr
  rw [performCheck_nopending ps calcs hp os] at h1
  cases h1
  rw [run_bind_ok] at h2
  obtain ⟨exprs, os2, h3, h4⟩ := h2
  rw [run_pure] at h4
  cases h4
  obtain ⟨hos, hf⟩ := performEval_ok h3
  refine ⟨hos, (foldl_insertPending_wf hwf ps exprs).1, (foldl_insertPending_wf hwf ps exprs).2, ?_⟩
  intro X M0 E hX hw hk
  have hXsh : ∀ vc ∈ calcs, ∀ x ∈ Expr.variables vc.2, X (x + 0) := by
    intro vc hvc x hxv
    simpa using hX vc hvc x hxv
  -- the evaluated expressions stay inside `X`
  have hxe : ∀ ve ∈ exprs, ∀ v ∈ Expr.variables ve.2, X v := by
    clear h3
    induction hf with
    | nil => intro ve hve; cases hve
    | @cons a b as bs hab _ ih =>
      intro ve hve
      rcases List.mem_cons.1 hve with rfl | hve
      · exact evalPending_vars_c (X := X) hp (hXsh a List.mem_cons_self) hab.2
      · exact ih (fun vc h' => hX vc (List.mem_cons_of_mem _ h'))
          (fun vc h' => hXsh vc (List.mem_cons_of_mem _ h')) ve hve
  have hpend : E = Mem.par s.pending E := by rw [hp]; exact (par_nil E).symm
  obtain ⟨g1, g2, _⟩ := foldl_insertPending_c hwf hpend hw hk exprs hxe
  refine ⟨?_, g2⟩
  rw [← g1]
  exact assignE_eq_assignS_c hp hw hk hXsh hf

end OptProof
end Hpbf

#print axioms Hpbf.OptProof.performCheck_nopending
#print axioms Hpbf.OptProof.evalWritten_sound_c
#print axioms Hpbf.OptProof.compareWrittenNoParent_sound_c
#print axioms Hpbf.OptProof.evalPending_sound_c
#print axioms Hpbf.OptProof.evalPending_vars_c
#print axioms Hpbf.OptProof.insertPending_c
#print axioms Hpbf.OptProof.performAll_spec_c
