/-
Chain, level 1, part 1: the composition argument made GENERIC in the IR block.

`IrAgrees prog blk env`  – canonical Brainfuck semantics vs. the IR interpreter on `blk`: forward / backward /
                           prefix on event traces (the shape of `C01.parse_forward/backward/prefix`);
`BcAgrees prog p env`    – the same for the bytecode machine on `p` (the shape of `bytecode_level0`).
* `irAgrees_level0`      – C01: the parser's output agrees;
* `irAgrees_of_behEq`    – agreement is transported along `OptProof.BehEq` (what an optimizer round preserves);
* `bcAgrees_of_ir`       – `IrAgrees` + `OnceOk` ⇒ `BcAgrees` for `translate blk numRegs fuse`
                           (`translate_refines_unconditional`);
* every corollary of `Proofs/ChainLevel0.lean` / `ChainJit.lean` from `BcAgrees` alone (plus "never malformed
  bytecode" where needed), so that they can be instantiated at any optimisation level.
-/
import Hpbf.Proofs.ChainTotalJit
import Hpbf.Props.C01Rebuild

namespace Hpbf
namespace Chain

open Bc BcWf BcGen C11 C02

variable {w : Nat}

/-- Canonical semantics vs. the IR interpreter (unlimited) on `blk`, on event traces. -/
def IrAgrees (prog : Prog) (blk : Ir.Block w) (env : Env) : Prop :=
  ((∀ f (s : State w), Bf.run f prog env = .done s →
      ∃ f' c, Ir.run blk false 0 f' env = .done c ∧ c.st.trace = s.trace) ∧
   (∀ f (s : State w), Bf.run f prog env = .stopped s →
      ∃ f' c, Ir.run blk false 0 f' env = .stopped c ∧ c.st.trace = s.trace)) ∧
  ((∀ f' (c : Ir.Cfg w), Ir.run blk false 0 f' env = .done c →
      ∃ (f : Nat) (s : State w), Bf.run f prog env = .done s ∧ s.trace = c.st.trace) ∧
   (∀ f' (c : Ir.Cfg w), Ir.run blk false 0 f' env = .stopped c →
      ∃ (f : Nat) (s : State w), Bf.run f prog env = .stopped s ∧ s.trace = c.st.trace)) ∧
  ((∀ f', ∃ f, C01.traceOf (Ir.run blk false 0 f' env) = C01.traceOfBf (Bf.run (w := w) f prog env)) ∧
   (∀ f, ∃ f', C01.traceOf (Ir.run blk false 0 f' env) = C01.traceOfBf (Bf.run (w := w) f prog env)))

/-- Canonical semantics vs. the bytecode machine (unlimited) on `p`, on event traces. -/
def BcAgrees (prog : Prog) (p : Bc.Program w) (env : Env) : Prop :=
  ((∀ f (s : State w), Bf.run f prog env = .done s →
      ∃ f' c', Bc.run p false 0 f' env = .done c' ∧ c'.st.trace = s.trace) ∧
   (∀ f (s : State w), Bf.run f prog env = .stopped s →
      ∃ f' c', Bc.run p false 0 f' env = .stopped c' ∧ c'.st.trace = s.trace)) ∧
  ((∀ f' (c' : Bc.Cfg w), Bc.run p false 0 f' env = .done c' →
      ∃ (f : Nat) (s : State w), Bf.run f prog env = .done s ∧ s.trace = c'.st.trace) ∧
   (∀ f' (c' : Bc.Cfg w), Bc.run p false 0 f' env = .stopped c' →
      ∃ (f : Nat) (s : State w), Bf.run f prog env = .stopped s ∧ s.trace = c'.st.trace)) ∧
  ((∀ f', ∃ f, C07.traceOfBc (Bc.run p false 0 f' env) = C01.traceOfBf (Bf.run (w := w) f prog env)) ∧
   (∀ f, ∃ f', C07.traceOfBc (Bc.run p false 0 f' env) = C01.traceOfBf (Bf.run (w := w) f prog env)))

/-- C01: the parser's output agrees with the canonical semantics. -/
theorem irAgrees_level0 (hw : 0 < w) {src : List Kind} {prog : Prog} (hp : Bf.tree src = some prog)
    {blk : Ir.Block w} (hb : Ir.parse (w := w) src = .ok blk) (env : Env) : IrAgrees prog blk env :=
  ⟨C01.parse_forward hw hp hb env, C01.parse_backward hw hp hb env,
   (C01.parse_prefix hw hp hb env).1, (C01.parse_prefix hw hp hb env).2⟩

/-- Agreement is transported along the observable equivalence of IR blocks. -/
theorem irAgrees_of_behEq {prog : Prog} {b b' : Ir.Block w} {env : Env} (h0 : IrAgrees prog b env)
    (hB : OptProof.BehEq b b' env) : IrAgrees prog b' env := by
  obtain ⟨⟨f1, f2⟩, ⟨b1, b2⟩, p1, p2⟩ := h0
  obtain ⟨e1, e2, e3, e4, e5, e6⟩ := hB
  refine ⟨⟨?_, ?_⟩, ⟨?_, ?_⟩, ?_, ?_⟩
  · intro f s hs
    obtain ⟨g, c, hc, ht⟩ := f1 f s hs
    obtain ⟨g', c', hc', ht', _⟩ := e1 g c hc
    exact ⟨g', c', hc', ht'.trans ht⟩
  · intro f s hs
    obtain ⟨g, c, hc, ht⟩ := f2 f s hs
    obtain ⟨g', c', hc', ht', _⟩ := e2 g c hc
    exact ⟨g', c', hc', ht'.trans ht⟩
  · intro f' c' hc'
    obtain ⟨g, c, hc, ht, _⟩ := e3 f' c' hc'
    obtain ⟨f, s, hs, hst⟩ := b1 g c hc
    exact ⟨f, s, hs, hst.trans ht.symm⟩
  · intro f' c' hc'
    obtain ⟨g, c, hc, ht, _⟩ := e4 f' c' hc'
    obtain ⟨f, s, hs, hst⟩ := b2 g c hc
    exact ⟨f, s, hs, hst.trans ht.symm⟩
  · intro f'
    obtain ⟨g, hg⟩ := e5 f'
    obtain ⟨f, hf⟩ := p1 g
    exact ⟨f, by rw [← hg, hf]⟩
  · intro f
    obtain ⟨g, hg⟩ := p2 f
    obtain ⟨f', hf'⟩ := e6 g
    exact ⟨f', by rw [hf', hg]⟩

/-- IR agreement + justified `once` marks ⇒ bytecode agreement for the translated program. -/
theorem bcAgrees_of_ir {prog : Prog} {blk : Ir.Block w} {env : Env} (hI : IrAgrees prog blk env)
    (ho : OnceOk blk env) (numRegs : Nat) (fuse : Bool) :
    BcAgrees prog (translate blk numRegs fuse) env := by
  obtain ⟨⟨f1, f2⟩, ⟨b1, b2⟩, p1, p2⟩ := hI
  obtain ⟨⟨t1, t2⟩, ⟨u1, u2⟩, v1, v2⟩ := translate_refines_unconditional blk numRegs fuse env ho
  refine ⟨⟨?_, ?_⟩, ⟨?_, ?_⟩, ?_, ?_⟩
  · intro f s hs
    obtain ⟨g, c, hc, ht⟩ := f1 f s hs
    obtain ⟨g', c', hc', ht', _⟩ := t1 g c hc
    exact ⟨g', c', hc', ht'.trans ht⟩
  · intro f s hs
    obtain ⟨g, c, hc, ht⟩ := f2 f s hs
    obtain ⟨g', c', hc', ht', _⟩ := t2 g c hc
    exact ⟨g', c', hc', ht'.trans ht⟩
  · intro f' c' hc'
    obtain ⟨g, c, hc, ht, _⟩ := u1 f' c' hc'
    obtain ⟨f, s, hs, hst⟩ := b1 g c hc
    exact ⟨f, s, hs, hst.trans ht⟩
  · intro f' c' hc'
    obtain ⟨g, c, hc, ht, _⟩ := u2 f' c' hc'
    obtain ⟨f, s, hs, hst⟩ := b2 g c hc
    exact ⟨f, s, hs, hst.trans ht⟩
  · intro f'
    obtain ⟨g, hg⟩ := v1 f'
    obtain ⟨f, hf⟩ := p1 g
    exact ⟨f, by rw [← hg, hf]⟩
  · intro f
    obtain ⟨g, hg⟩ := p2 f
    obtain ⟨f', hf'⟩ := v2 g
    exact ⟨f', by rw [hf', hg]⟩

theorem bcAgrees_debug {prog : Prog} {p : Bc.Program w} {env : Env} (A : BcAgrees prog p env) :
    ((∀ f (s : State w), Bf.run f prog env = .done s →
        ∃ f' c', runDebug p false 0 f' env = .done c' ∧ c'.st.trace = s.trace) ∧
     (∀ f (s : State w), Bf.run f prog env = .stopped s →
        ∃ f' c', runDebug p false 0 f' env = .stopped c' ∧ c'.st.trace = s.trace)) ∧
    ((∀ f' (c' : Bc.Cfg w), runDebug p false 0 f' env = .done c' →
        ∃ (f : Nat) (s : State w), Bf.run f prog env = .done s ∧ s.trace = c'.st.trace) ∧
     (∀ f' (c' : Bc.Cfg w), runDebug p false 0 f' env = .stopped c' →
        ∃ (f : Nat) (s : State w), Bf.run f prog env = .stopped s ∧ s.trace = c'.st.trace)) ∧
    ((∀ f', ∃ f, C07.traceOfBc (runDebug p false 0 f' env) = C01.traceOfBf (Bf.run (w := w) f prog env)) ∧
     (∀ f, ∃ f', C07.traceOfBc (runDebug p false 0 f' env) = C01.traceOfBf (Bf.run (w := w) f prog env))) := by
  simp only [runDebug_eq_run]
  exact A

/-! ### corollaries of `BcAgrees` (C05 / C07 / C08) -/

section Cor
variable {prog : Prog} {p : Bc.Program w} {env : Env} (A : BcAgrees prog p env)
include A

theorem bc_never_returns_of_agrees (hdiv : C05.BfDiverges w prog env) :
    (∀ (f' : Nat) (c : Bc.Cfg w),
      Bc.run p false 0 f' env ≠ .done c ∧ Bc.run p false 0 f' env ≠ .stopped c) ∧
    (∀ (b f' : Nat) (c : Bc.Cfg w),
      Bc.run p true b f' env ≠ .done c ∧ Bc.run p true b f' env ≠ .stopped c) := by
  have hunl : ∀ (f' : Nat) (c : Bc.Cfg w),
      Bc.run p false 0 f' env ≠ .done c ∧ Bc.run p false 0 f' env ≠ .stopped c := by
    intro f' c
    constructor
    · intro hr
      obtain ⟨f, s, hf, _⟩ := A.2.1.1 f' c hr
      obtain ⟨c', hc'⟩ := hdiv f
      rw [hf] at hc'; cases hc'
    · intro hr
      obtain ⟨f, s, hf, _⟩ := A.2.1.2 f' c hr
      obtain ⟨c', hc'⟩ := hdiv f
      rw [hf] at hc'; cases hc'
  refine ⟨hunl, fun b f' c => ⟨fun hr => ?_, fun hr => ?_⟩⟩
  · obtain ⟨g, c', hg, _⟩ := C07.bc_limited_done p env b f' c hr
    exact (hunl g c').1 hg
  · obtain ⟨g, c', hg, _⟩ := C07.bc_limited_stopped p env b f' c hr
    exact (hunl g c').2 hg

theorem bc_runs_forever_of_agrees (hdiv : C05.BfDiverges w prog env)
    (nb : ∀ (l : Bool) (b f : Nat) (c : Bc.Cfg w), Bc.run p l b f env ≠ .bad c) :
    ∀ f', ∃ c : Bc.Cfg w, Bc.run p false 0 f' env = .outOfFuel c := by
  intro f'
  have hn := (bc_never_returns_of_agrees A hdiv).1 f'
  cases hr : Bc.run p false 0 f' env with
  | outOfFuel c => exact ⟨c, rfl⟩
  | done c => exact ((hn c).1 hr).elim
  | stopped c => exact ((hn c).2 hr).elim
  | interrupted c => exact (translate_never_interrupted p f' env c hr).elim
  | bad c => exact (nb false 0 f' c hr).elim

theorem bc_limited_interrupted_of_agrees (hdiv : C05.BfDiverges w prog env)
    (nb : ∀ (l : Bool) (b f : Nat) (c : Bc.Cfg w), Bc.run p l b f env ≠ .bad c) :
    ∀ b, ∃ f' c, Bc.run p true b f' env = .interrupted c := by
  intro b
  obtain ⟨f', hf'⟩ := C07.bc_limited_terminates p env b
  have hn := (bc_never_returns_of_agrees A hdiv).2 b f'
  cases hr : Bc.run p true b f' env with
  | outOfFuel c => exact (hf' c hr).elim
  | done c => exact ((hn c).1 hr).elim
  | stopped c => exact ((hn c).2 hr).elim
  | interrupted c => exact ⟨f', c, hr⟩
  | bad c => exact (nb true b f' c hr).elim

theorem bc_divergent_output_of_agrees (hdiv : C05.BfDiverges w prog env)
    (nb : ∀ (l : Bool) (b f : Nat) (c : Bc.Cfg w), Bc.run p l b f env ≠ .bad c) :
    (∀ f, ∃ f' c c', Bf.run (w := w) f prog env = .outOfFuel c ∧
      Bc.run p false 0 f' env = .outOfFuel c' ∧ c'.st.trace = c.st.trace) ∧
    (∀ f', ∃ f c c', Bc.run p false 0 f' env = .outOfFuel c' ∧
      Bf.run (w := w) f prog env = .outOfFuel c ∧ c'.st.trace = c.st.trace) := by
  constructor
  · intro f
    obtain ⟨c, hc⟩ := hdiv f
    obtain ⟨f', hf'⟩ := A.2.2.2 f
    obtain ⟨c', hc'⟩ := bc_runs_forever_of_agrees A hdiv nb f'
    rw [hc, hc'] at hf'
    exact ⟨f', c, c', hc, hc', hf'⟩
  · intro f'
    obtain ⟨c', hc'⟩ := bc_runs_forever_of_agrees A hdiv nb f'
    obtain ⟨f, hf⟩ := A.2.2.1 f'
    obtain ⟨c, hc⟩ := hdiv f
    rw [hc, hc'] at hf
    exact ⟨f, c, c', hc', hc, hf⟩

theorem bc_limited_finished_of_agrees :
    (∀ (b f' : Nat) (c : Bc.Cfg w), Bc.run p true b f' env = .done c →
      ∃ (f : Nat) (s : State w), Bf.run f prog env = .done s ∧ s.trace = c.st.trace) ∧
    (∀ (b f' : Nat) (c : Bc.Cfg w), Bc.run p true b f' env = .stopped c →
      ∃ (f : Nat) (s : State w), Bf.run f prog env = .stopped s ∧ s.trace = c.st.trace) := by
  constructor
  · intro b f' c hr
    obtain ⟨g, c', hg, hst⟩ := C07.bc_limited_done p env b f' c hr
    obtain ⟨f, s, hf, htr⟩ := A.2.1.1 g c' hg
    exact ⟨f, s, hf, by rw [htr, hst]⟩
  · intro b f' c hr
    obtain ⟨g, c', hg, hst⟩ := C07.bc_limited_stopped p env b f' c hr
    obtain ⟨f, s, hf, htr⟩ := A.2.1.2 g c' hg
    exact ⟨f, s, hf, by rw [htr, hst]⟩

theorem bc_limited_prefix_of_agrees :
    ∀ b f', ∃ f, C07.traceOfBc (Bc.run p true b f' env) = C01.traceOfBf (Bf.run (w := w) f prog env) := by
  intro b f'
  obtain ⟨g, _, hg⟩ := C07.bc_limited_prefix p env b f'
  obtain ⟨f, hf⟩ := A.2.2.1 g
  exact ⟨f, by rw [hg, hf]⟩

theorem bc_limited_is_prefix_of_agrees :
    ∀ b f', ∃ f, ∀ g, f ≤ g →
      C07.traceOfBc (Bc.run p true b f' env) <:+ C01.traceOfBf (Bf.run (w := w) g prog env) := by
  intro b f'
  obtain ⟨f, hf⟩ := bc_limited_prefix_of_agrees A b f'
  refine ⟨f, fun g hg => ?_⟩
  rw [hf, ← traceOfBf_eq, ← traceOfBf_eq]
  exact C04.bf_trace_mono hg _

theorem bc_limited_enough_of_agrees :
    (∀ (f : Nat) (s : State w), Bf.run f prog env = .done s →
      ∃ g, ∀ b, g ≤ b → ∃ f' c, Bc.run p true b f' env = .done c ∧ c.st.trace = s.trace) ∧
    (∀ (f : Nat) (s : State w), Bf.run f prog env = .stopped s →
      ∃ g, ∀ b, g ≤ b → ∃ f' c, Bc.run p true b f' env = .stopped c ∧ c.st.trace = s.trace) := by
  constructor
  · intro f s hr
    obtain ⟨g, c, hc, htr⟩ := A.1.1 f s hr
    refine ⟨g, fun b hgb => ?_⟩
    obtain ⟨f', c', hc', hst⟩ := C07.bc_limited_enough p env g c hc b hgb
    exact ⟨f', c', hc', by rw [hst]; exact htr⟩
  · intro f s hr
    obtain ⟨g, c, hc, htr⟩ := A.1.2 f s hr
    refine ⟨g, fun b hgb => ?_⟩
    obtain ⟨f', c', hc', hst⟩ := C07.bc_limited_enough_stopped p env g c hc b hgb
    exact ⟨f', c', hc', by rw [hst]; exact htr⟩

theorem bc_stops_like_canonical_of_agrees :
    ∀ (f : Nat) (s : State w), Bf.run f prog env = .stopped s →
      ∃ f' c, (∀ k, Bc.run p false 0 (f' + k) env = .stopped c) ∧ c.st.trace = s.trace := by
  intro f s hs
  obtain ⟨f', c, hc, htr⟩ := A.1.2 f s hs
  exact ⟨f', c, fun k => bc_run_more p false 0 f' k env _ hc (by intro x; simp), htr⟩

theorem bc_stops_only_like_canonical_of_agrees :
    ∀ (l : Bool) (b f' : Nat) (c : Bc.Cfg w), Bc.run p l b f' env = .stopped c →
      (l = false → b = 0) →
      ∃ (f : Nat) (s : State w), Bf.run f prog env = .stopped s ∧ s.trace = c.st.trace := by
  intro l b f' c hr hl
  cases l with
  | false =>
    have := hl rfl; subst this
    exact A.2.1.2 f' c hr
  | true => exact (bc_limited_finished_of_agrees A).2 b f' c hr

/-- `SameResults` form. -/
theorem same_bc_of_agrees :
    SameResults (fun f => finBf (Bf.run (w := w) f prog env)) (fun f => finBc (Bc.run p false 0 f env)) := by
  intro r
  constructor
  · rintro ⟨f, hf⟩
    rcases finBf_some hf with ⟨s, hs, rfl⟩ | ⟨s, hs, rfl⟩
    · obtain ⟨f', c, hc, htr⟩ := A.1.1 f s hs
      exact ⟨f', by simp only [hc, finBc, htr]⟩
    · obtain ⟨f', c, hc, htr⟩ := A.1.2 f s hs
      exact ⟨f', by simp only [hc, finBc, htr]⟩
  · rintro ⟨f', hf'⟩
    rcases finBc_some hf' with ⟨c, hc, rfl⟩ | ⟨c, hc, rfl⟩
    · obtain ⟨f, s, hs, htr⟩ := A.2.1.1 f' c hc
      exact ⟨f, by simp only [hs, finBf, htr]⟩
    · obtain ⟨f, s, hs, htr⟩ := A.2.1.2 f' c hc
      exact ⟨f, by simp only [hs, finBf, htr]⟩

end Cor

theorem same_ir_of_agrees {prog : Prog} {blk : Ir.Block w} {env : Env} (I : IrAgrees prog blk env) :
    SameResults (fun f => finBf (Bf.run (w := w) f prog env)) (fun f => finIr (Ir.run blk false 0 f env)) := by
  intro r
  constructor
  · rintro ⟨f, hf⟩
    rcases finBf_some hf with ⟨s, hs, rfl⟩ | ⟨s, hs, rfl⟩
    · obtain ⟨f', c, hc, htr⟩ := I.1.1 f s hs
      exact ⟨f', by simp only [hc, finIr, htr]⟩
    · obtain ⟨f', c, hc, htr⟩ := I.1.2 f s hs
      exact ⟨f', by simp only [hc, finIr, htr]⟩
  · rintro ⟨f', hf'⟩
    rcases finIr_some hf' with ⟨c, hc, rfl⟩ | ⟨c, hc, rfl⟩
    · obtain ⟨f, s, hs, htr⟩ := I.2.1.1 f' c hc
      exact ⟨f, by simp only [hs, finBf, htr]⟩
    · obtain ⟨f, s, hs, htr⟩ := I.2.1.2 f' c hc
      exact ⟨f, by simp only [hs, finBf, htr]⟩

/-! ### the JIT, from `BcAgrees` and the hypotheses of `C03.prog_run` -/

section Jit
open Asm JitGen X86Sem X86Prog C03
variable {prog : Prog} {p : Bc.Program w} {env : Env} (A : BcAgrees prog p env)
  {safe : Bool} {cfg : X86Prog.Cfg} {code : List X86} {buf0 rsp0 ra : BitVec 64}
include A

theorem jit_forward_of_agrees (H : JitHyps p false safe cfg code buf0 rsp0 ra 0 env) :
    let s0 : PState w := initState cfg buf0 rsp0 ra p.minAcc p.maxAcc 0 env
    (∀ f (s : State w), Bf.run f prog env = .done s →
      ∃ n s', X86Prog.run cfg n s0 = .ret s' ∧ s'.regs.rax = 1 ∧ s'.trace = s.trace) ∧
    (∀ f (s : State w), Bf.run f prog env = .stopped s →
      ∃ n s', X86Prog.run cfg n s0 = .ret s' ∧ s'.regs.rax = 0 ∧ s'.trace = s.trace) := by
  intro s0
  constructor
  · intro f s hs
    obtain ⟨f', c', hc', htr⟩ := A.1.1 f s hs
    have := jit_of_bc H f'
    simp only [hc'] at this
    obtain ⟨n, s', h1, h2, h3, _⟩ := this
    exact ⟨n, s', h1, h2, h3.trans htr⟩
  · intro f s hs
    obtain ⟨f', c', hc', htr⟩ := A.1.2 f s hs
    have := jit_of_bc H f'
    simp only [hc'] at this
    obtain ⟨n, s', h1, h2, h3, _⟩ := this
    exact ⟨n, s', h1, h2, h3.trans htr⟩

theorem jit_unique_of_agrees (H : JitHyps p false safe cfg code buf0 rsp0 ra 0 env) :
    let s0 : PState w := initState cfg buf0 rsp0 ra p.minAcc p.maxAcc 0 env
    (∀ f (s : State w), Bf.run f prog env = .done s →
      ∀ n s', X86Prog.run cfg n s0 = .ret s' → s'.regs.rax = 1 ∧ s'.trace = s.trace) ∧
    (∀ f (s : State w), Bf.run f prog env = .stopped s →
      ∀ n s', X86Prog.run cfg n s0 = .ret s' → s'.regs.rax = 0 ∧ s'.trace = s.trace) := by
  intro s0
  have F := jit_forward_of_agrees A H
  constructor
  · intro f s hs n s' hr
    obtain ⟨n1, s1, h1, h2, h3⟩ := F.1 f s hs
    have := x86_ret_unique cfg hr h1
    subst this
    exact ⟨h2, h3⟩
  · intro f s hs n s' hr
    obtain ⟨n1, s1, h1, h2, h3⟩ := F.2 f s hs
    have := x86_ret_unique cfg hr h1
    subst this
    exact ⟨h2, h3⟩

theorem jit_prefix_of_agrees (H : JitHyps p false safe cfg code buf0 rsp0 ra 0 env) :
    let s0 : PState w := initState cfg buf0 rsp0 ra p.minAcc p.maxAcc 0 env
    ∀ f, ∃ n s', (steps cfg n s0 = some s' ∨ X86Prog.run cfg n s0 = .ret s') ∧
      s'.trace = C01.traceOfBf (Bf.run (w := w) f prog env) := by
  intro s0 f
  obtain ⟨f', hf'⟩ := A.2.2.2 f
  have := jit_of_bc H f'
  cases hr : Bc.run p false 0 f' env with
  | done c' =>
    simp only [hr] at this
    obtain ⟨n, s', h1, _, h3, _⟩ := this
    exact ⟨n, s', Or.inr h1, by rw [← hf', hr]; exact h3⟩
  | stopped c' =>
    simp only [hr] at this
    obtain ⟨n, s', h1, _, h3, _⟩ := this
    exact ⟨n, s', Or.inr h1, by rw [← hf', hr]; exact h3⟩
  | interrupted c' =>
    simp only [hr] at this
    obtain ⟨n, s', h1, _, h3, _⟩ := this
    exact ⟨n, s', Or.inr h1, by rw [← hf', hr]; exact h3⟩
  | bad c' => simp only [hr] at this
  | outOfFuel c' =>
    simp only [hr] at this
    obtain ⟨n, s', h1, h3, _⟩ := this
    exact ⟨n, s', Or.inl h1, by rw [← hf', hr]; exact h3⟩

theorem jit_divergent_of_agrees (H : JitHyps p false safe cfg code buf0 rsp0 ra 0 env)
    (hdiv : C05.BfDiverges w prog env) :
    let s0 : PState w := initState cfg buf0 rsp0 ra p.minAcc p.maxAcc 0 env
    ∀ f, ∃ n s', steps cfg n s0 = some s' ∧ s'.trace = C01.traceOfBf (Bf.run (w := w) f prog env) := by
  intro s0 f
  obtain ⟨f', hf'⟩ := A.2.2.2 f
  obtain ⟨c', hr⟩ := bc_runs_forever_of_agrees A hdiv
    (fun l b f c => C11.check_run_not_bad H.check l b f env c) f'
  have := jit_of_bc H f'
  simp only [hr] at this
  obtain ⟨n, s', h1, h3, _⟩ := this
  exact ⟨n, s', h1, by rw [← hf', hr]; exact h3⟩

theorem jit_limited_of_agrees {b : Nat} (H : JitHyps p true safe cfg code buf0 rsp0 ra b env) :
    let s0 : PState w := initState cfg buf0 rsp0 ra p.minAcc p.maxAcc b env
    ∃ n s', X86Prog.run cfg n s0 = .ret s' ∧
      (∀ n2 s2, X86Prog.run cfg n2 s0 = .ret s2 → s2 = s') ∧
      (s'.regs.rax = 1 ∨ s'.regs.rax = 0) ∧
      (s'.regs.rax = 1 → ∃ (f : Nat) (s : State w), Bf.run f prog env = .done s ∧ s.trace = s'.trace) ∧
      (∃ f, ∀ g, f ≤ g → s'.trace <:+ C01.traceOfBf (Bf.run (w := w) g prog env)) := by
  intro s0
  obtain ⟨f', hf'⟩ := C07.bc_limited_terminates p env b
  obtain ⟨f0, hpre⟩ := bc_limited_is_prefix_of_agrees A b f'
  have := jit_of_bc H f'
  have h01 : ¬ ((0 : BitVec 64) = 1) := by decide
  cases hr : Bc.run p true b f' env with
  | done c' =>
    simp only [hr] at this
    obtain ⟨n, s', h1, h2, h3, _⟩ := this
    refine ⟨n, s', h1, fun n2 s2 h => x86_ret_unique cfg h h1, Or.inl h2, fun _ => ?_, f0, fun g hg => ?_⟩
    · obtain ⟨f, s, hs, hst⟩ := (bc_limited_finished_of_agrees A).1 b f' c' hr
      exact ⟨f, s, hs, by rw [hst, h3]⟩
    · have := hpre g hg
      rw [hr] at this
      rw [h3]; exact this
  | stopped c' =>
    simp only [hr] at this
    obtain ⟨n, s', h1, h2, h3, _⟩ := this
    refine ⟨n, s', h1, fun n2 s2 h => x86_ret_unique cfg h h1, Or.inr h2,
      fun h => absurd (h2.symm.trans h) h01, f0, fun g hg => ?_⟩
    have := hpre g hg
    rw [hr] at this
    rw [h3]; exact this
  | interrupted c' =>
    simp only [hr] at this
    obtain ⟨n, s', h1, h2, h3, _⟩ := this
    refine ⟨n, s', h1, fun n2 s2 h => x86_ret_unique cfg h h1, Or.inr h2,
      fun h => absurd (h2.symm.trans h) h01, f0, fun g hg => ?_⟩
    have := hpre g hg
    rw [hr] at this
    rw [h3]; exact this
  | bad c' => simp only [hr] at this
  | outOfFuel c' => exact (hf' c' hr).elim

/-- `SameResults`-style forms for the headline theorems. -/
theorem jit_forward_fin_of_agrees (H : JitHyps p false safe cfg code buf0 rsp0 ra 0 env)
    (r : Bool × List Ev) (hr : ∃ f, finBf (Bf.run (w := w) f prog env) = some r) :
    ∃ n, finX86 (X86Prog.run cfg n (initState (w := w) cfg buf0 rsp0 ra p.minAcc p.maxAcc 0 env)) = some r := by
  have F := jit_forward_of_agrees A H
  obtain ⟨f, hf⟩ := hr
  rcases finBf_some hf with ⟨s, hs, rfl⟩ | ⟨s, hs, rfl⟩
  · obtain ⟨n, s', h1, h2, h3⟩ := F.1 f s hs
    refine ⟨n, ?_⟩
    rw [h1]
    simp only [finX86, h2, h3, beq_self_eq_true]
  · obtain ⟨n, s', h1, h2, h3⟩ := F.2 f s hs
    refine ⟨n, ?_⟩
    rw [h1]
    have : ((0 : BitVec 64) == 1) = false := by decide
    simp only [finX86, h2, h3, this]

theorem jit_limited_fin_of_agrees {b : Nat} (H : JitHyps p true safe cfg code buf0 rsp0 ra b env) :
    ∃ n r, finX86 (X86Prog.run cfg n (initState (w := w) cfg buf0 rsp0 ra p.minAcc p.maxAcc b env)) = some r ∧
      (r.1 = true → ∃ f, finBf (Bf.run (w := w) f prog env) = some r) ∧
      ∃ f, ∀ g, f ≤ g → r.2 <:+ C01.traceOfBf (Bf.run (w := w) g prog env) := by
  obtain ⟨n, s', h1, _, _, h4, h5⟩ := jit_limited_of_agrees A H
  refine ⟨n, (s'.regs.rax == 1, s'.trace), by rw [h1]; rfl, ?_, h5⟩
  intro hrax
  have hrax' : s'.regs.rax = 1 := by simpa using hrax
  obtain ⟨f, s, hs, htr⟩ := h4 hrax'
  exact ⟨f, by simp only [hs, finBf, htr, hrax', beq_self_eq_true]⟩

end Jit

end Chain
end Hpbf
