/-
Offsets of optimized IR, part 4: no operation on expressions that the optimizer uses invents a variable.
`VarsIn S e` (every variable of `e` satisfies `S`) is `OptLoop.VarsIn`; `symbEvaluate`, `reduceConst` and
`splitAlong` are handled in `OptLoopExpr` / `OptLoopSplit`; here: `val`, `var`, `add`, `mul`, `half`,
`normalize`, `shiftVars`, `incOf`, `prodIncOf`, `OptArith.triStep`.
-/
import Hpbf.Proofs.OptLoopSplit
import Hpbf.Proofs.C15Canon

namespace Hpbf.OptOffs
open Hpbf Opt Expr
open Hpbf.OptLoop (VarsIn varsIn_iff)

variable {w : Nat}

theorem varsIn_nil {S : Int → Prop} : VarsIn S ([] : Expr w) := fun _ hp => by cases hp

theorem varsIn_val {S : Int → Prop} (c : BitVec w) : VarsIn S (Expr.val c) := by
  unfold Expr.val
  split
  · exact varsIn_nil
  · intro p hp x hx
    simp only [List.mem_singleton] at hp
    subst hp; cases hx

theorem varsIn_var {S : Int → Prop} {v : Int} (hv : S v) : VarsIn S (Expr.var v : Expr w) := by
  intro p hp x hx
  simp only [Expr.var, List.mem_singleton] at hp
  subst hp
  simp only [List.mem_singleton] at hx
  subst hx; exact hv

theorem varsIn_single {S : Int → Prop} {p : Part w} (hp : ∀ x ∈ p.vars, S x) : VarsIn S [p] := by
  intro q hq
  simp only [List.mem_singleton] at hq
  subst hq; exact hp

theorem VarsIn.imp {S T : Int → Prop} {e : Expr w} (h : VarsIn S e) (hst : ∀ x, S x → T x) : VarsIn T e :=
  fun p hp x hx => hst x (h p hp x hx)

theorem varsIn_of_vars_eq {S : Int → Prop} {e e' : Expr w} (h : e'.map (·.vars) = e.map (·.vars))
    (he : VarsIn S e) : VarsIn S e' := by
  intro p' hp' x hx
  have : p'.vars ∈ e'.map (·.vars) := List.mem_map.2 ⟨p', hp', rfl⟩
  rw [h] at this
  obtain ⟨p, hp, e1⟩ := List.mem_map.1 this
  exact he p hp x (by rw [e1]; exact hx)

theorem varsIn_sublist {S : Int → Prop} {e e' : Expr w} (h : e'.Sublist e) (he : VarsIn S e) :
    VarsIn S e' := fun p hp x hx => he p (h.subset hp) x hx

theorem varsIn_perm {S : Int → Prop} {e e' : Expr w} (h : e'.Perm e) (he : VarsIn S e) :
    VarsIn S e' := fun p hp x hx => he p (h.mem_iff.1 hp) x hx

theorem varsIn_append {S : Int → Prop} {a b : Expr w} (ha : VarsIn S a) (hb : VarsIn S b) :
    VarsIn S (a ++ b) := by
  intro p hp
  rcases List.mem_append.1 hp with h | h
  · exact ha p h
  · exact hb p h

/-! ### `normalize` -/

theorem varsIn_normPhase1 {S : Int → Prop} {e : Expr w} (he : VarsIn S e) :
    VarsIn S (Expr.normPhase1 e) := by
  unfold Expr.normPhase1
  split
  · simp only []
    have hin' : VarsIn S (e.map (fun p =>
        if p.coef = Expr.halfMod w then { p with vars := Expr.dedupVars p.vars } else p)) := by
      intro p hp x hx
      obtain ⟨p0, hp0, rfl⟩ := List.mem_map.1 hp
      split at hx
      · exact he p0 hp0 x ((Expr.dedupVars_sublist _).subset hx)
      · exact he p0 hp0 x hx
    split
    · obtain ⟨_, h2⟩ := Expr.strict_mergeSorted
        (e.map (fun p => if p.coef = Expr.halfMod w then { p with vars := Expr.dedupVars p.vars } else p))
      intro p hp x hx
      obtain ⟨p1, hp1, e1⟩ := h2 p hp
      rw [e1] at hx
      exact hin' p1 hp1 x hx
    · exact hin'
  · exact he

theorem varsIn_normPhase2' {S : Int → Prop} {e1 : Expr w} (he : VarsIn S e1) :
    VarsIn S (Expr.normPhase2' e1) := by
  unfold Expr.normPhase2'
  split
  · obtain ⟨s1, _⟩ := Expr.normPhase2_spec (fun _ => 0#w) (Expr.halfMod w + 1#w) (Expr.halfMod w + (-1#w))
      (e1.map (·.vars)) e1.length 0 e1.toArray [] false (by simp) (Expr.IdxOK_nil _)
    generalize Expr.normPhase2 (Expr.halfMod w) (Expr.halfMod w + 1#w) (Expr.halfMod w + (-1#w)) e1.length 0
      e1.toArray [] false = st at s1
    obtain ⟨parts, need⟩ := st
    simp only at s1 ⊢
    have hc : VarsIn S parts.toList := varsIn_of_vars_eq s1 he
    split
    · exact varsIn_sublist List.filter_sublist hc
    · exact hc
  · exact he

theorem varsIn_normalize {S : Int → Prop} {e : Expr w} (he : VarsIn S e) :
    VarsIn S (Expr.normalize e) := by
  rw [Expr.normalize_eq]
  split
  · exact varsIn_normPhase2' (varsIn_normPhase1 he)
  · exact he

/-! ### `add`, `mul`, `half` -/

theorem varsIn_add {S : Int → Prop} (a b : Expr w) (ha : VarsIn S a) (hb : VarsIn S b) :
    VarsIn S (Expr.add a b) := by
  fun_induction Expr.add a b with
  | case1 b => exact hb
  | case2 a _ => exact ha
  | case3 p ps q qs h ih =>
    intro r hr
    rcases List.mem_cons.1 hr with e | e
    · rw [e]; exact ha p List.mem_cons_self
    · exact ih (fun r hr => ha r (List.mem_cons_of_mem _ hr)) hb r e
  | case4 p ps q qs h ih =>
    intro r hr
    rcases List.mem_cons.1 hr with e | e
    · rw [e]; exact hb q List.mem_cons_self
    · exact ih ha (fun r hr => hb r (List.mem_cons_of_mem _ hr)) r e
  | case5 p ps q qs h c hc ih =>
    intro r hr
    rcases List.mem_cons.1 hr with e | e
    · rw [e]; exact ha p List.mem_cons_self
    · exact ih (fun r hr => ha r (List.mem_cons_of_mem _ hr))
        (fun r hr => hb r (List.mem_cons_of_mem _ hr)) r e
  | case6 p ps q qs h c hc ih =>
    exact ih (fun r hr => ha r (List.mem_cons_of_mem _ hr))
      (fun r hr => hb r (List.mem_cons_of_mem _ hr))

theorem varsIn_scaleAppend {S : Int → Prop} {e : Expr w} {p : Part w} (he : VarsIn S e)
    (hp : ∀ x ∈ p.vars, S x) : VarsIn S (Expr.scaleAppend e p) := by
  unfold Expr.scaleAppend
  exact varsIn_perm (Expr.stableSort_perm _ _) (OptLoop.varsIn_scaleMap he hp)

theorem varsIn_mul {S : Int → Prop} (a b : Expr w) (ha : VarsIn S a) (hb : VarsIn S b) :
    VarsIn S (Expr.mul a b) := by
  unfold Expr.mul
  split
  · exact varsIn_val _
  · exact varsIn_val _
  · exact varsIn_scaleAppend hb (ha _ List.mem_cons_self)
  · exact varsIn_scaleAppend ha (hb _ List.mem_cons_self)
  · exact OptLoop.varsIn_finish (OptLoop.tblIn_mulLoop ha hb [] (fun kc h => by cases h))

theorem varsIn_half {S : Int → Prop} {e e' : Expr w} (h : Expr.half e = some e') (he : VarsIn S e) :
    VarsIn S e' := by
  unfold Expr.half at h
  split at h
  · simp only [Option.some.injEq] at h
    subst h
    intro p hp x hx
    obtain ⟨p0, hp0, rfl⟩ := List.mem_map.1 hp
    exact he p0 hp0 x hx
  · cases h

/-! ### `shiftVars`, `incOf`, `prodIncOf` -/

theorem varsIn_shiftVars {S : Int → Prop} {e : Expr w} {shift : Int}
    (he : VarsIn (fun x => S (x + shift)) e) : VarsIn S (shiftVars e shift) := by
  intro p hp x hx
  unfold shiftVars at hp
  obtain ⟨p0, hp0, rfl⟩ := List.mem_map.1 hp
  simp only [List.mem_map] at hx
  obtain ⟨y, hy, rfl⟩ := hx
  exact he p0 hp0 y hy

/-- `incOf e v` drops `v`: what remains only mentions the other variables. -/
theorem varsIn_incOf {S : Int → Prop} {e inc : Expr w} {v : Int} (h : Expr.incOf e v = some inc)
    (he : VarsIn (fun x => S x ∨ x = v) e) : VarsIn S inc := by
  unfold Expr.incOf at h
  split at h
  · rename_i hc
    simp only [Option.some.injEq] at h
    subst h
    simp only [Bool.and_eq_true, List.all_eq_true] at hc
    intro p hp x hx
    obtain ⟨hpe, hpf⟩ := List.mem_filter.1 hp
    rcases he p hpe x hx with hS | hxv
    · exact hS
    · subst hxv
      have := hc.2 p hpe
      simp only [Bool.or_eq_true, Bool.not_eq_true', beq_iff_eq] at this
      rcases this with h1 | h1
      · have : p.vars.contains x = true := List.contains_iff_mem.2 hx
        rw [h1] at this; cases this
      · exfalso
        obtain ⟨y, hy⟩ := List.length_eq_one_iff.1 h1
        rw [hy] at hx hpf
        simp only [List.mem_singleton] at hx
        subst hx
        simp at hpf
  · cases h

theorem varsIn_prodIncOf {S : Int → Prop} {e inc : Expr w} {v : Int} {mul : BitVec w}
    (h : Expr.prodIncOf e v = some (inc, mul)) (he : VarsIn S e) : VarsIn S inc := by
  unfold Expr.prodIncOf at h
  split at h
  · simp only [Option.some.injEq, Prod.mk.injEq] at h
    rw [← h.1]
    exact varsIn_sublist List.filter_sublist he
  · cases h

/-! ### `triStep` -/

theorem varsIn_triStep {S : Int → Prop} (expr initial increment before : Expr w)
    (h1 : VarsIn S expr) (h2 : VarsIn S initial) (h3 : VarsIn S increment) (h4 : VarsIn S before) :
    VarsIn S (OptArith.triStep expr initial increment before).2 := by
  have hneg : VarsIn S (Expr.add expr (Expr.val (-1#w))) := varsIn_add _ _ h1 (varsIn_val _)
  unfold OptArith.triStep
  simp only
  split
  · rename_i inc hinc
    exact varsIn_add _ _ (varsIn_mul _ _ h1 h2)
      (varsIn_add _ _ h4 (varsIn_mul _ _ h1 (varsIn_mul _ _ hneg (varsIn_half hinc h3))))
  · split
    · rename_i inc hinc
      exact varsIn_add _ _ (varsIn_mul _ _ h1 h2)
        (varsIn_add _ _ h4 (varsIn_mul _ _ hneg (varsIn_mul _ _ h3 (varsIn_half hinc h1))))
    · split
      · rename_i inc hinc
        exact varsIn_add _ _ (varsIn_mul _ _ h1 h2)
          (varsIn_add _ _ h4 (varsIn_mul _ _ h1 (varsIn_mul _ _ h3 (varsIn_half hinc hneg))))
      · exact h4

end Hpbf.OptOffs
