/-
C02 / C13 (`allocate_temps` is total), part 10: each additional component of `TotalPre` is necessary (states that
satisfy `AllocPre`, violate one component and make the pass panic), and no bound on `numRegs` is needed.
-/
import Hpbf.Proofs.C02AllocTotalEmit
import Hpbf.Proofs.C02AllocEx
import Hpbf.Proofs.C11LocalTop
set_option linter.unusedSimpArgs false

namespace Hpbf
namespace C02

open Bc BcWf BcGen C11

namespace Alloc

/-- `defd`: a temporary that is written but never read. -/
def exNoUse : St 8 := { insts := #[.copy (.tmp 0) (.mem 1), .out 0], ranges := #[ri 0 none none 0] }

/-- `defAt`: a temporary that is read but never written. -/
def exNoDef : St 8 :=
  { insts := #[.noop, .copy (.mem 0) (.tmp 0), .out 0], ranges := #[ri 0 (some 1) (some 1) 1],
    writes := [(0, [1])] }

/-- `unread`: use count `0` although the temporary is read. -/
def exCount : St 8 :=
  { insts := #[.copy (.tmp 0) (.mem 1), .add (.tmp 1) (.tmp 0) (.imm 1), .copy (.mem 0) (.tmp 1), .out 0],
    ranges := #[ri 0 (some 1) (some 1) 0, ri 1 (some 2) (some 2) 1],
    writes := [(0, [2])] }

/-- `lastLt`: a recorded last use beyond the end of the code. -/
def exLast : St 8 :=
  { insts := #[.copy (.tmp 0) (.mem 1), .copy (.mem 0) (.tmp 0), .out 0],
    ranges := #[ri 0 (some 1) (some 7) 1],
    writes := [(0, [1])] }

theorem alloc_total_defd_necessary :
    allocPreB exNoUse = true ∧ allocErr 2 exNoUse = some "allocate_temps:can_alloc_reg:last_use.unwrap" := by
  refine ⟨?_, ?_⟩ <;> decide +kernel
theorem alloc_total_defAt_necessary :
    allocPreB exNoDef = true ∧ allocErr 2 exNoDef = some "allocate_temps:replace:replacements.get.unwrap" := by
  refine ⟨?_, ?_⟩ <;> decide +kernel
theorem alloc_total_unread_necessary :
    allocPreB exCount = true ∧ allocErr 2 exCount = some "allocate_temps:fusion:replacements.get.unwrap" := by
  refine ⟨?_, ?_⟩ <;> decide +kernel
theorem alloc_total_lastLt_necessary :
    allocPreB exLast = true ∧ allocErr 2 exLast = some "allocate_temps:assert-replacements-empty" := by
  refine ⟨?_, ?_⟩ <;> decide +kernel

/-- No register at all, fewer than the Rust ever uses, more than 16: the pass still succeeds. -/
theorem alloc_total_any_numRegs :
    allocErr 0 exFuseGood = none ∧ allocErr 1 exFuseGood = none ∧ allocErr 17 exFuseGood = none ∧
    allocErr 0 exFlowGood = none ∧ allocErr 40 exFlowGood = none := by
  refine ⟨?_, ?_, ?_, ?_, ?_⟩ <;> decide +kernel

end Alloc

/-- **Compilation to bytecode is total and its result passes the checker.** -/
theorem translateE_total_check {w : Nat} (prog : Ir.Block w) (numRegs : Nat) (fuse : Bool) :
    ∃ p, translateE prog numRegs fuse = .ok p ∧ BcWf.check p numRegs = true := by
  obtain ⟨p, hp⟩ := translateE_total prog numRegs fuse
  exact ⟨p, hp, translateE_check hp⟩

end C02
end Hpbf
