/-
C02 (`allocate_temps`), part 7: one round of the loop — the invariant for `k + 1` and a summary `StepKind`
of what happened to instruction `k` and to the replacement table, as needed by the simulation.
-/
import Hpbf.Proofs.C02AllocInv
set_option linter.unusedSimpArgs false

namespace Hpbf
namespace C02
namespace Alloc

open Bc BcWf BcGen C11

variable {w : Nat} {s : St w}

/-- New entries of the replacement table apart, the table only shrinks. -/
def ReplSub (a a' : ASt w) (t : Nat) (l : Loc w) : Prop :=
  alGet a'.repl t = some l ∧
  ∀ t' v, alGet a'.repl t' = some v → (t' = t ∧ v = l) ∨ alGet a.repl t' = some v

/-- What step 7 did with the rewritten instruction `new` (now `insts[k] = q`). -/
def DstKind (s : St w) (k : Nat) (a a' : ASt w) (new q : Instr w) : Prop :=
  (dstTmp? new = none ∧ q = new ∧ ∀ t' v, alGet a'.repl t' = some v → alGet a.repl t' = some v) ∨
  ∃ t, dstTmp? new = some t ∧ alGet a.repl t = none ∧
    (∃ r : RangeInfo, s.ranges[t]? = some r ∧ r.created = k) ∧
    ((q = .noop ∧ ∀ t' v, alGet a'.repl t' = some v → alGet a.repl t' = some v) ∨
     (∃ src, new = .copy (.tmp t) src ∧ ((∃ c, src = .imm c) ∨ ∃ m, src = .mem m) ∧ q = .noop ∧
        ReplSub a a' t src) ∨
     (∃ r, q = setDst new (.tmp r) ∧ ReplSub a a' t (.tmp r)))

inductive StepKind (s : St w) (k : Nat) (a a' : ASt w) : Prop where
  | other (x : Instr w) (hx : a.st.insts[k]? = some x) (hpl : plain x = false)
      (hq : a'.st.insts[k]? = some x) (hi : ∀ j, j ≠ k → a'.st.insts[j]? = a.st.insts[j]?)
      (hr : ∀ t' v, alGet a'.repl t' = some v → alGet a.repl t' = some v)
  | fuse (op : BcGen.Op) (t : Nat) (s0 s1 : Loc w) (f : Nat) (m : Int)
      (hx : a.st.insts[k]? = some (mkArith op (.tmp t) s0 s1))
      (hPk : s.insts[k]? = some (mkArith op (.tmp t) s0 s1)) (hkf : k < f)
      (hPf : s.insts[f]? = some (.copy (.mem m) (.tmp t)))
      (hfa : a.st.insts[f]? = some (.copy (.mem m) (.tmp t)))
      (hq : a'.st.insts[k]? = some .noop) (hf : a'.st.insts[f]? = some (mkArith op (.mem m) s0 s1))
      (hi : ∀ j, j ≠ k → j ≠ f → a'.st.insts[j]? = a.st.insts[j]?)
      (hnone : alGet a.repl t = none) (hr : ReplSub a a' t (.mem m))
  | rw (cur new q : Instr w) (hx : a.st.insts[k]? = some cur) (hpl : plain cur = true)
      (hn : rwInst a.repl cur = .ok new) (hq : a'.st.insts[k]? = some q)
      (hi : ∀ j, j ≠ k → a'.st.insts[j]? = a.st.insts[j]?) (hd : DstKind s k a a' new q)

structure StepSum (s : St w) (k : Nat) (a a' : ASt w) : Prop where
  inv : PassInv s (k + 1) a'
  live : a'.st.live.size = a.st.live.size + 1
  keep : ∀ t l, alGet a.repl t = some l → alGet a'.repl t = some l ∨
    ∀ (r : RangeInfo) (L : Nat), s.ranges[t]? = some r → r.lastUse = some L → L ≤ k
  kind : StepKind s k a a'

/-- Step 7 as seen from outside. -/
theorem phDst_sum {k : Nat} {can : Bool} {c a' : ASt w} {x : Instr w} {u : Unit}
    (hD : phDst k can c = .ok (u, a')) (hx : c.st.insts[k]? = some x) :
    (∀ j, j ≠ k → a'.st.insts[j]? = c.st.insts[j]?) ∧ a'.st.live = c.st.live ∧
    ((dstTmp? x = none ∧ a'.st.insts[k]? = some x ∧ a'.repl = c.repl) ∨
     ∃ t, dstTmp? x = some t ∧
      ((a'.st.insts[k]? = some .noop ∧ a'.repl = c.repl) ∨
       (∃ src, x = .copy (.tmp t) src ∧ ((∃ cc, src = .imm cc) ∨ ∃ m, src = .mem m) ∧
          a'.st.insts[k]? = some .noop ∧ a'.repl = alSet c.repl t src) ∨
       (∃ r, a'.st.insts[k]? = some (setDst x (.tmp r)) ∧ a'.repl = alSet c.repl t (.tmp r)))) := by
  have hkc : k < c.st.insts.size := lt_of_getElem? hx
  have hset : ∀ (y : Instr w) j, j ≠ k → (c.st.insts.setIfInBounds k y)[j]? = c.st.insts[j]? := by
    intro y j hj
    rw [Array.getElem?_setIfInBounds]
    simp [Ne.symm hj]
  have hsetk : ∀ (y : Instr w), (c.st.insts.setIfInBounds k y)[k]? = some y := by
    intro y
    rw [Array.getElem?_setIfInBounds]
    simp [hkc]
  obtain ⟨x', hx', h⟩ := phDst_ok hD
  rw [hx] at hx'; cases hx'
  rcases h with ⟨hn, rfl⟩ | ⟨t, ht, r', hr', h⟩
  · exact ⟨fun j _ => rfl, rfl, Or.inl ⟨hn, hx, rfl⟩⟩
  rcases h with ⟨_, rfl⟩ | ⟨src, L, rfl, hL, hnu, hsrc, rfl⟩ | ⟨hnu, u', hA⟩
  · exact ⟨fun j hj => hset _ j hj, rfl, Or.inr ⟨t, ht, Or.inl ⟨hsetk _, rfl⟩⟩⟩
  · refine ⟨fun j hj => hset _ j hj, rfl, Or.inr ⟨t, ht, Or.inr (Or.inl ⟨src, rfl, ?_, hsetk _, rfl⟩)⟩⟩
    rcases hsrc with h | ⟨m, h, _⟩
    · exact Or.inl h
    · exact Or.inr ⟨m, h⟩
  · obtain ⟨r2, L, x2, q1, q2, q3, q4, q5⟩ := allocTemp_ok hA
    rw [hx] at q4; cases q4
    subst q5
    exact ⟨fun j hj => hset _ j hj, rfl, Or.inr ⟨t, ht, Or.inr (Or.inr ⟨_, hsetk _, rfl⟩)⟩⟩

theorem plain_of_dstTmp? {x : Instr w} {t : Nat} (h : dstTmp? x = some t) : plain x = true := by
  cases x <;> first | rfl | (simp [dstTmp?] at h)

theorem mem_defs_of_dstTmp? {x : Instr w} {t : Nat} (h : dstTmp? x = some t) : t ∈ BcWf.defs x := by
  cases x with
  | add d a b => cases d <;> simp [dstTmp?] at h; subst h; simp [BcWf.defs, locTmp]
  | sub d a b => cases d <;> simp [dstTmp?] at h; subst h; simp [BcWf.defs, locTmp]
  | mul d a b => cases d <;> simp [dstTmp?] at h; subst h; simp [BcWf.defs, locTmp]
  | copy d a => cases d <;> simp [dstTmp?] at h; subst h; simp [BcWf.defs, locTmp]
  | _ => simp [dstTmp?] at h

theorem rwInst_plain {repl : List (Nat × Loc w)} {cur new : Instr w} (h : rwInst repl cur = .ok new) :
    plain new = plain cur := by
  rcases rwInst_cases h with ⟨d, s, s', rfl, g, rfl⟩ | ⟨op, d, s0, s1, s0', s1', rfl, g0, g1, rfl⟩ |
      ⟨_, rfl⟩ | ⟨rfl, rfl⟩
  · rfl
  · rw [plain_mkArith, plain_mkArith]
  · rfl
  · rfl

theorem alloc_step (hp : AllocPre s) {numRegs k : Nat} {a a' : ASt w} {u : Unit} (hI : PassInv s k a)
    (h : allocStep numRegs k a = .ok (u, a')) : StepSum s k a a' := by
  obtain ⟨atf0, b, inst0, can, atf, aF, cur, new, live, hd, hi0, hF, hc, hn, hl, hD⟩ := allocStep_ok h
  replace hD : phDst k can (pushLive (freeList numRegs atf (aF.setI k new)) live) = .ok (u, a') := hD
  obtain ⟨d1, d2, d3⟩ := drainEnds_ok _ hd
  obtain ⟨hb, hdead⟩ := passInv_drain hI d1 d2
    (fun t ht => (d3 t ht).resolve_left (by simp))
  have hbst : b.st = a.st := d1.st
  have hbrepl : b.repl = a.repl := d1.repl
  rcases hF with ⟨rfl, rfl⟩ | ⟨op, t, s0, s1, r, L, f, m, src, atf1, a1, a2, x, e1, e2, e3, e4, e5, e6, e7, e8,
      e9, e10, e11, rfl⟩
  · -- no fusion
    have hcur : cur = inst0 := Option.some.inj (hc.symm.trans hi0)
    subst hcur
    clear hc
    have hc1 := passInv_rewrite hb hi0 hn
    have hkb : k < aF.st.insts.size := lt_of_getElem? hi0
    have hc2 := passInv_free (numRegs := numRegs) (atf := atf) hc1
    have hc3 := passInv_pushLive hc2 live
    have hst3 : (pushLive (freeList numRegs atf (aF.setI k new)) live).st.insts = (aF.setI k new).st.insts := by
      show (freeList numRegs atf (aF.setI k new)).st.insts = _
      rw [freeList_st]
    have hx3 : (pushLive (freeList numRegs atf (aF.setI k new)) live).st.insts[k]? = some new := by
      rw [hst3, getElem?_setI]; simp [hkb]
    have hget3 : ∀ t', alGet (pushLive (freeList numRegs atf (aF.setI k new)) live).repl t' =
        if t' ∈ atf then none else alGet aF.repl t' := fun t' => alGet_freeList numRegs atf hc1.regs t'
    obtain ⟨hzc, ycur, hycur, hbrc⟩ := hb.skel k cur hi0
    obtain ⟨hnz, hnb, hnd⟩ := rwInst_facts hn (fun t v g => (hb.replDom t v g).1) hzc
    -- the destination temporary is created here
    have hdstfacts : ∀ t, dstTmp? new = some t → alGet aF.repl t = none ∧
        ∃ r : RangeInfo, s.ranges[t]? = some r ∧ r.created = k ∧ aF.st.ranges[t]? = some r := by
      intro t ht
      rw [hnd] at ht
      have hPk : s.insts[k]? = some cur := by
        rcases hb.fut k (Nat.le_refl _) with h | ⟨op', m', t', a', b', h⟩
        · rw [← h]; exact hi0
        · have := h.2.2
          rw [hi0] at this
          cases this
          rw [dstTmp?_mkArith] at ht
          cases ht
      have htd : t ∈ BcWf.defs cur := mem_defs_of_dstTmp? ht
      obtain ⟨r0, hr0, hcr0⟩ := hp.defs k cur t hPk htd
      obtain ⟨r', q1, _, _, q4⟩ := hb.rkeep t r0 hr0
      rw [q4 (by rw [hcr0]; exact Nat.le_refl _)] at q1
      refine ⟨?_, r0, hr0, hcr0, q1⟩
      cases hg : alGet aF.repl t with
      | none => rfl
      | some v =>
        obtain ⟨_, r1, g1, g2⟩ := hb.replDom t v hg
        rw [hr0] at g1; cases g1
        omega
    have hnone3 : ∀ t, dstTmp? new = some t →
        alGet (pushLive (freeList numRegs atf (aF.setI k new)) live).repl t = none := by
      intro t ht
      rw [hget3]; split
      · rfl
      · exact (hdstfacts t ht).1
    have hdst3 : ∀ t, dstTmp? new = some t →
        (∀ f op m s0 s1, ¬ Fused s (k + 1) (pushLive (freeList numRegs atf (aF.setI k new)) live) f op m t s0 s1) ∧
        ∃ r : RangeInfo, s.ranges[t]? = some r ∧ r.created = k ∧
          (pushLive (freeList numRegs atf (aF.setI k new)) live).st.ranges[t]? = some r := by
      intro t ht
      obtain ⟨g1, r0, g2, g3, g4⟩ := hdstfacts t ht
      refine ⟨?_, r0, g2, g3, ?_⟩
      · intro f op m s0 s1 hf
        obtain ⟨i, r1, L1, q1, q2, q3, q4, _⟩ := hc3.fused _ _ _ _ _ _ hf
        rw [g2] at q2; cases q2
        -- created at `k`, but the computation was moved in an earlier round
        have hf' : Fused s k aF f op m t s0 s1 := by
          refine ⟨Nat.le_of_succ_le hf.1, hf.2.1, ?_⟩
          have := hf.2.2
          rw [hst3, getElem?_setI] at this
          have hne : ¬ (k = f ∧ k < aF.st.insts.size) := fun h => Nat.ne_of_gt hf.1 h.1.symm
          simpa [hne] using this
        obtain ⟨i', r2, L2, p1, p2, p3, p4, _⟩ := hb.fused _ _ _ _ _ _ hf'
        rw [g2] at p2; cases p2
        omega
      · show (freeList numRegs atf (aF.setI k new)).st.ranges[t]? = some r0
        rw [freeList_st]; exact g4
    have hinv := passInv_dst hp hc3 hD hx3 hnz hdst3
    obtain ⟨s1, s2, s3⟩ := phDst_sum hD hx3
    have hinsts : ∀ j, j ≠ k → a'.st.insts[j]? = a.st.insts[j]? := by
      intro j hj
      rw [s1 j hj, hst3, getElem?_setI, ← hbst]
      have : ¬ (k = j ∧ k < aF.st.insts.size) := fun h => hj h.1.symm
      simp [this]
    have hsub3 : ∀ t' v, alGet (pushLive (freeList numRegs atf (aF.setI k new)) live).repl t' = some v →
        alGet a.repl t' = some v := by
      intro t' v hv
      rw [hget3] at hv
      split at hv
      · cases hv
      · rw [← hbrepl]; exact hv
    have hrsub : ∀ t l, a'.repl = alSet (pushLive (freeList numRegs atf (aF.setI k new)) live).repl t l →
        ReplSub a a' t l := by
      intro t l e
      refine ⟨by rw [e, alGet_alSet_self], ?_⟩
      intro t' v hv
      rw [e, alGet_alSet] at hv
      split at hv
      · rename_i e'; cases hv; exact Or.inl ⟨e'.symm, rfl⟩
      · exact Or.inr (hsub3 _ _ hv)
    have hkeep : ∀ t l, alGet a.repl t = some l → alGet a'.repl t = some l ∨
        ∀ (r : RangeInfo) (L : Nat), s.ranges[t]? = some r → r.lastUse = some L → L ≤ k := by
      intro t l hl
      by_cases hm : t ∈ atf
      · exact Or.inr (hdead t hm)
      · left
        have h3 : alGet (pushLive (freeList numRegs atf (aF.setI k new)) live).repl t = some l := by
          rw [hget3]; simp only [hm, if_false]; rw [hbrepl]; exact hl
        have hne : ∀ t0, dstTmp? new = some t0 → t0 ≠ t := by
          intro t0 h0 e
          subst e
          have := hnone3 t0 h0
          rw [this] at h3; cases h3
        rcases s3 with ⟨_, _, e⟩ | ⟨t0, ht0, ⟨_, e⟩ | ⟨src, _, _, _, e⟩ | ⟨r, _, e⟩⟩
        · rw [e]; exact h3
        · rw [e]; exact h3
        · rw [e, alGet_alSet_ne _ _ (hne t0 ht0)]; exact h3
        · rw [e, alGet_alSet_ne _ _ (hne t0 ht0)]; exact h3
    have hlive : a'.st.live.size = a.st.live.size + 1 := by
      rw [s2]
      show ((freeList numRegs atf (aF.setI k new)).st.live.push live).size = _
      rw [freeList_st, ← hbst]
      simp [ASt.setI]
    refine ⟨hinv, hlive, hkeep, ?_⟩
    have hxa : a.st.insts[k]? = some cur := by rw [← hbst]; exact hi0
    have hna : rwInst a.repl cur = .ok new := by rw [← hbrepl]; exact hn
    by_cases hpl : plain cur = true
    · -- arithmetic / copy / noop
      have hq : ∃ q, a'.st.insts[k]? = some q := by
        rcases s3 with ⟨_, e, _⟩ | ⟨t0, _, ⟨e, _⟩ | ⟨_, _, _, e, _⟩ | ⟨_, e, _⟩⟩ <;> exact ⟨_, e⟩
      obtain ⟨q, hq⟩ := hq
      refine StepKind.rw cur new q hxa hpl hna hq hinsts ?_
      rcases s3 with ⟨g1, g2, g3⟩ | ⟨t0, ht0, h3⟩
      · rw [hq] at g2; cases g2
        exact Or.inl ⟨g1, rfl, fun t' v hv => hsub3 t' v (by rw [← g3]; exact hv)⟩
      · obtain ⟨f1, r0, f2, f3, _⟩ := hdstfacts t0 ht0
        refine Or.inr ⟨t0, ht0, by rw [← hbrepl]; exact f1, ⟨r0, f2, f3⟩, ?_⟩
        rcases h3 with ⟨g1, g2⟩ | ⟨src, g1, g2, g3, g4⟩ | ⟨r, g1, g2⟩
        · rw [hq] at g1; cases g1
          exact Or.inl ⟨rfl, fun t' v hv => hsub3 t' v (by rw [← g2]; exact hv)⟩
        · rw [hq] at g3; cases g3
          exact Or.inr (Or.inl ⟨src, g1, g2, rfl, hrsub _ _ g4⟩)
        · rw [hq] at g1; cases g1
          exact Or.inr (Or.inr ⟨r, rfl, hrsub _ _ g2⟩)
    · -- everything else is left alone
      have hpl' : plain cur = false := by simpa using hpl
      have hnew : new = cur := by
        rcases rwInst_cases hn with ⟨d, s, s', rfl, _⟩ | ⟨op, d, s0, s1, s0', s1', rfl, _⟩ | ⟨_, e⟩ | ⟨rfl, _⟩
        · cases hpl'
        · rw [plain_mkArith] at hpl'; cases hpl'
        · exact e
        · cases hpl'
      subst hnew
      have hdn : dstTmp? new = none := by
        cases hd' : dstTmp? new with
        | none => rfl
        | some t0 => rw [plain_of_dstTmp? hd'] at hpl'; cases hpl'
      rcases s3 with ⟨g1, g2, g3⟩ | ⟨t0, ht0, _⟩
      · exact StepKind.other new hxa hpl' g2 hinsts (fun t' v hv => hsub3 t' v (by rw [← g3]; exact hv))
      · rw [hdn] at ht0; cases ht0
  · -- fusion
    obtain ⟨hcF, hkF, hPk, hkf, hPf, hreplF, hatf, hinsF, hfF, hfr, hft, hnf, hlv, hfb⟩ :=
      passInv_fuse hp hb hdead hi0 e1 e2 e3 e4 e5 e6 e7 e8 e9 e10 e11
    rw [hkF] at hc; cases hc
    have hnew : new = .noop := by
      simp only [rwInst, arith?, Except.ok.injEq] at hn; exact hn.symm
    subst hnew
    have hc1 := passInv_setI_done (fin := .noop) hcF hkF rfl rfl rfl
    rw [setI_self hkF] at hc1 hl hD
    have hc2 := passInv_free (numRegs := numRegs) (atf := atf) hc1
    have hc3 := passInv_pushLive hc2 live
    generalize haFdef : retarget (fuseSt a2 k t L f m inst0) f m x = aF at *
    have hst3 : (pushLive (freeList numRegs atf aF) live).st.insts = aF.st.insts := by
      show (freeList numRegs atf aF).st.insts = _
      rw [freeList_st]
    have hx3 : (pushLive (freeList numRegs atf aF) live).st.insts[k]? = some .noop := by
      rw [hst3]; exact hkF
    obtain ⟨z1, z2, z3⟩ := phDst_sum hD hx3
    have hrepl' : a'.repl = (freeList numRegs atf aF).repl := by
      rcases z3 with ⟨_, _, e⟩ | ⟨t0, ht0, _⟩
      · exact e
      · cases ht0
    have hst' : a' = pushLive (freeList numRegs atf aF) live := by
      obtain ⟨x', hx', h'⟩ := phDst_ok hD
      rw [hx3] at hx'; cases hx'
      rcases h' with ⟨_, e⟩ | ⟨t0, ht0, _⟩
      · exact e
      · cases ht0
    have hget3 : ∀ t', alGet a'.repl t' = if t' ∈ atf then none else alGet aF.repl t' := by
      intro t'; rw [hrepl']; exact alGet_freeList numRegs atf hc1.regs t'
    have htnone : alGet a.repl t = none := by
      cases hg : alGet a.repl t with
      | none => rfl
      | some v =>
        rw [← hbrepl] at hg
        obtain ⟨_, r1, g1, g2⟩ := hb.replDom t v hg
        obtain ⟨r0, hr0, hcr0⟩ := hp.defs k _ t hPk (by rw [defs_mkArith]; simp [locTmp])
        rw [hr0] at g1; cases g1
        omega
    refine ⟨by rw [hst']; exact hc3, ?_, ?_, ?_⟩
    · rw [hst']
      show ((freeList numRegs atf aF).st.live.push live).size = _
      rw [freeList_st, hlv, hbst]; simp
    · intro t' l hl'
      by_cases hm : t' ∈ atf
      · exact Or.inr (hdead t' (hatf t' hm))
      · left
        rw [hget3]; simp only [hm, if_false]
        have : t ≠ t' := by intro e; subst e; rw [htnone] at hl'; cases hl'
        rw [hreplF, alGet_alSet_ne _ _ this, hbrepl]; exact hl'
    · have hxa : a.st.insts[k]? = some (mkArith op (.tmp t) s0 s1) := by
        rw [← hbst, hi0, arith?_eq_some.1 e1]
      refine StepKind.fuse op t s0 s1 f m hxa hPk hkf hPf (by rw [← hbst]; exact hfb) ?_ ?_ ?_ htnone ⟨?_, ?_⟩
      · rw [hst']; exact hx3
      · rw [hst']; show (freeList numRegs atf aF).st.insts[f]? = _; rw [freeList_st]; exact hfF
      · intro j hjk hjf
        rw [hst']; show (freeList numRegs atf aF).st.insts[j]? = _
        rw [freeList_st, hinsF j hjk hjf, hbst]
      · have hm : t ∉ atf := by
          intro hm
          obtain ⟨r0, hr0, hcr0⟩ := hp.defs k _ t hPk (by rw [defs_mkArith]; simp [locTmp])
          obtain ⟨ru, Lu, gu, gl, _, gle⟩ := hp.uses f _ t hPf (by simp [BcWf.uses, locTmp])
          have := hdead t (hatf t hm) ru Lu gu gl
          omega
        rw [hget3]; simp only [hm, if_false]
        rw [hreplF, alGet_alSet_self]
      · intro t' v hv
        rw [hget3] at hv
        split at hv
        · cases hv
        · rw [hreplF, alGet_alSet] at hv
          split at hv
          · rename_i e; cases hv; exact Or.inl ⟨e.symm, rfl⟩
          · exact Or.inr (by rw [← hbrepl]; exact hv)

end Alloc
end C02
end Hpbf
