/-
Rebuild-round proofs: copies of `MAt.cond0`, `MAt.fin_real`, `MAt.const₂`, `MAt.fin₂`, `loopFacts₂`, `constW₂`
(`OptRbMotion5.lean`) for `MAtG` (weaker head-guard hypothesis).  `G1M` is reused.  No changed hypotheses.
-/
import Hpbf.Proofs.OptRbMotionG4

namespace Hpbf
namespace OptProof
open Opt OptSem Ir

variable {w : Nat}

section At
variable {Gc : State w → Prop} {shP shC shS cS : Int} {bodyS : List (Instr w)} {isLoop oS : Bool}
  {s : Rebuild w} {ps : List (Rebuild w)} {sub0 sub sub1 : Rebuild w} {L : OptLoop w} {C : List Int}
  {B D A : List (Int × Expr w)} {os os' : Orders} {M0 : Mem w} {σE σS τ0 : State w}

theorem MAtG.cond0 (h : MAtG Gc shP shC shS cS bodyS isLoop oS s ps sub0 sub sub1 L C B D A os os' M0 σE σS τ0) :
    τ0.rd (cS + shP) = σS.rd cS :=
  (MJ.init h.md h.hτ0).cond_agree_g h.md h.hc h.hGcH h.hrel (fun _ => rfl)

/-- A terminating run of the transformed block comes from a terminating run of the source block. -/
theorem MAtG.fin_real (h : MAtG Gc shP shC shS cS bodyS isLoop oS s ps sub0 sub sub1 L C B D A os os' M0 σE σS τ0)
    {x : State w}
    (hx : Exec [blockInstr (!L.atMostOnce) (cS + shP) 0 (sub.insts ++ [.calc D]) oS] τ0 (.fin x)) :
    ∃ y, Exec [blockInstr isLoop cS shS bodyS oS] σS (.fin y) := by
  by_cases hz : σS.rd cS = 0#w
  · exact ⟨σS, block_skip_fin hz⟩
  cases hamo : L.atMostOnce with
  | false =>
    have hil : isLoop = true := by
      cases hi : isLoop with
      | true => rfl
      | false => have := h.facts.ifamo hi; rw [hamo] at this; cases this
    subst hil
    rw [hamo] at hx
    obtain ⟨k, hh, hxz⟩ := exec_loop_fin_head (c := cS + shP) (sh := 0) hx
    obtain ⟨σ, hJ⟩ := heads_bwd_g h.md h.hc h.hGcH h.hrel h.hτ0 hh (fun hh' => by rw [hamo] at hh'; cases hh')
    have : σ.rd cS = 0#w := by
      rw [← hJ.cond_agree_g h.md h.hc h.hGcH h.hrel (fun hh' => by rw [hamo] at hh'; cases hh')]; exact hxz
    exact ⟨σ, head_exec_fin hJ.hd this⟩
  | true =>
    rw [hamo] at hx
    have hτne : τ0.rd (cS + shP) ≠ 0#w := by rw [h.cond0]; exact hz
    rcases (exec_ifnz_once_iff (c := cS + shP) (sh := 0) hτne _).1 hx with ⟨hnf, _⟩ | ⟨t, ht, _⟩
    · cases hnf
    · have hround := (MJ.init h.md h.hτ0).round_g h.md h.hc h.hGcH h.hrel (fun _ => rfl) hz
      obtain ⟨a, ha, _⟩ := hround.finR t ht
      exact ⟨a.mov shS, block_fin_of_once hz ha (fun hi => h.facts.amo hamo hi hz a ha)⟩

/-- The constant cells at the heads of the transformed loop. -/
theorem MAtG.const₂ (h : MAtG Gc shP shC shS cS bodyS isLoop oS s ps sub0 sub sub1 L C B D A os os' M0 σE σS τ0)
    {k : Nat} {τk : State w} (hh : Head (cS + shP) 0 (sub.insts ++ [.calc D]) τ0 k τk)
    (hk : L.atMostOnce = true → k ≤ 1) {x : Int} (hx : C.contains x = true) :
    memE τk x = memE τ0 x ∧ τk.ptr = τ0.ptr := by
  obtain ⟨σ, hJ⟩ := heads_bwd_g h.md h.hc h.hGcH h.hrel h.hτ0 hh hk
  obtain ⟨p1, p2⟩ := h.md.prefix_at_g τ0 h.hc h.hGcH h.hrel hJ.hd hk
  obtain ⟨_, _, r3⟩ := run_real_g D τ0 h.hc h.hGcH hJ.hd hk
  have hJ0 : MJ cS shS shP bodyS σS sub B D τ0 0 σS τ0 := MJ.init h.md h.hτ0
  refine ⟨?_, by rw [hJ.ptr, r3]; exact hJ0.ptr.symm⟩
  rw [hJ.mem, p1 k (Nat.le_refl k) x (h.md.const_notDiffer hx), p2 k (Nat.le_refl k) x hx, hJ0.mem]
  exact (par_of_not_mem _ _ _ (h.md.B_none_const hx)).symm

/-- A finite loop stays finite. -/
theorem MAtG.fin₂ (h : MAtG Gc shP shC shS cS bodyS isLoop oS s ps sub0 sub sub1 L C B D A os os' M0 σE σS τ0)
    (hfin : L.finite = true) (hamo : L.atMostOnce = false)
    (hall : ∀ k τk, Head (cS + shP) 0 (sub.insts ++ [.calc D]) τ0 k τk → τk.rd (cS + shP) ≠ 0#w →
      ∃ t, Exec (sub.insts ++ [.calc D]) τk (.fin t)) :
    ∃ k τk, Head (cS + shP) 0 (sub.insts ++ [.calc D]) τ0 k τk ∧ τk.rd (cS + shP) = 0#w := by
  have hk : ∀ k : Nat, L.atMostOnce = true → k ≤ 1 := fun k hh => by rw [hamo] at hh; cases hh
  have hk0 : ∀ k : Nat, L.atMostOnce = true → k = 0 := fun k hh => by rw [hamo] at hh; cases hh
  obtain ⟨n, σn, hn, hz⟩ := h.facts.fin hfin hamo (by
    intro k σk hhk hne
    obtain ⟨τ, hJ⟩ := heads_fwd_g h.md h.hc h.hGcH h.hrel h.hτ0 hhk (hk k)
    have hτne : τ.rd (cS + shP) ≠ 0#w := by
      rw [hJ.cond_agree_g h.md h.hc h.hGcH h.hrel (hk0 k)]; exact hne
    obtain ⟨t, ht⟩ := hall k τ hJ.hd2 hτne
    obtain ⟨a, ha, _⟩ := (hJ.round_g h.md h.hc h.hGcH h.hrel (hk0 k) hne).finR t ht
    exact ⟨a, ha⟩)
  obtain ⟨τ, hJ⟩ := heads_fwd_g h.md h.hc h.hGcH h.hrel h.hτ0 hn (hk n)
  exact ⟨n, τ, hJ.hd2, by rw [hJ.cond_agree_g h.md h.hc h.hGcH h.hrel (hk0 n)]; exact hz⟩

end At

/-! ### for all source states -/

section All
variable {G Gc : State w → Prop} {shP shC shS cS : Int} {bodyS : List (Instr w)} {isLoop oS : Bool}
  {s : Rebuild w} {ps : List (Rebuild w)} {sub0 sub sub1 : Rebuild w} {L : OptLoop w} {C : List Int}
  {B D A : List (Int × Expr w)} {os os' : Orders}

/-- **The flags mean for the transformed block what they mean for the source block.** -/
theorem loopFacts₂_g
    (hAt : ∀ M0 σE σS, RelAt shP s ps M0 σE σS → G σS →
      MAtG Gc shP shC shS cS bodyS isLoop oS s ps sub0 sub sub1 L C B D A os os' M0 σE σS
        (doCalc (σS.mov (-shP)) B))
    (s1 : Rebuild w) :
    LoopFacts (G1M G shP s ps B) 0 s1 ps (!L.atMostOnce) (cS + shP) 0 (sub.insts ++ [.calc D]) oS L C := by
  refine ⟨?_, ?_, ?_, ?_, ?_, ?_, ?_⟩
  · rintro ha M0' σE' τ _ ⟨σS, M0, σE, hrel, hG, rfl⟩
    have h := hAt M0 σE σS hrel hG
    rw [h.cond0]; exact h.facts.alo ha
  · intro ha hl
    rw [ha] at hl; cases hl
  · intro hl
    cases h : L.atMostOnce with
    | true => rfl
    | false => rw [h] at hl; cases hl
  · rintro ha M0' σE' τ _ ⟨σS, M0, σE, hrel, hG, rfl⟩ x hx
    have h := hAt M0 σE σS hrel hG
    obtain ⟨y, hy⟩ := h.fin_real hx
    exact h.facts.nc ha y hy
  · rintro ha M0' σE' τ _ ⟨σS, M0, σE, hrel, hG, rfl⟩
    have h := hAt M0 σE σS hrel hG
    rcases h.facts.ne ha with h' | h'
    · left; rw [h.cond0]; exact h'
    · right
      intro x hx
      obtain ⟨y, hy⟩ := h.fin_real hx
      exact h' y hy
  · rintro M0' σE' τ hrel' ⟨σS, M0, σE, hrel, hG, rfl⟩ k τk hh hk x hx
    have h := hAt M0 σE σS hrel hG
    obtain ⟨c1, c2⟩ := h.const₂ hh (fun ha => hk (by rw [ha]; rfl)) hx
    have hp : σE'.ptr = (doCalc (σS.mov (-shP)) B).ptr := by
      have := hrel'.ptr; omega
    show τk.tape.get (σE'.ptr + x) = (doCalc (σS.mov (-shP)) B).tape.get (σE'.ptr + x)
    rw [hp]
    have e1 : τk.tape.get ((doCalc (σS.mov (-shP)) B).ptr + x) = memE τk x := by
      rw [← c2]; rfl
    rw [e1, c1]; rfl
  · rintro hf ha M0' σE' τ _ ⟨σS, M0, σE, hrel, hG, rfl⟩ hall
    exact (hAt M0 σE σS hrel hG).fin₂ hf ha hall

/-- The constant cells after the transformed block and the operations moved behind it. -/
theorem constW₂_g (hw : 0 < w)
    (hAt : ∀ M0 σE σS, RelAt shP s ps M0 σE σS → G σS →
      MAtG Gc shP shC shS cS bodyS isLoop oS s ps sub0 sub sub1 L C B D A os os' M0 σE σS
        (doCalc (σS.mov (-shP)) B))
    (s1 : Rebuild w) (M0' : Mem w) (σE' τ : State w) (hrel' : RelAt 0 s1 ps M0' σE' τ)
    (hg : G1M G shP s ps B τ) (hne : τ.rd (cS + shP) ≠ 0#w) (σ1 : State w)
    (hex : Exec ([blockInstr (!L.atMostOnce) (cS + shP) 0 (sub.insts ++ [.calc D]) oS] ++ [.calc A]) τ
      (.fin σ1)) (x : Int) (hx : C.contains x = true) : memS σE' σ1 x = memS σE' τ x := by
  obtain ⟨σS, M0, σE, hrel, hG, rfl⟩ := hg
  have h := hAt M0 σE σS hrel hG
  have hneS : σS.rd cS ≠ 0#w := by rw [← h.cond0]; exact hne
  obtain ⟨a, _, q1, q2, q3, q4, q5, q6⟩ := (h.core hw hneS).finR σ1 hex
  have hJ0 : MJ cS shS shP bodyS σS sub B D (doCalc (σS.mov (-shP)) B) 0 σS (doCalc (σS.mov (-shP)) B) :=
    MJ.init h.md h.hτ0
  have hp : σE'.ptr = (doCalc (σS.mov (-shP)) B).ptr := by
    have := hrel'.ptr; omega
  show σ1.tape.get (σE'.ptr + x) = (doCalc (σS.mov (-shP)) B).tape.get (σE'.ptr + x)
  rw [hp]
  have e1 : σ1.tape.get ((doCalc (σS.mov (-shP)) B).ptr + x) = memE σ1 x := by
    rw [hJ0.ptr, ← q6]; rfl
  have e2 : (doCalc (σS.mov (-shP)) B).tape.get ((doCalc (σS.mov (-shP)) B).ptr + x) =
      memE (doCalc (σS.mov (-shP)) B) x := rfl
  rw [e1, e2, q5 x hx, hJ0.mem]
  exact (par_of_not_mem _ _ _ (h.md.B_none_const hx)).symm

end All

end OptProof
end Hpbf
