/-
Chain, final: canonical Brainfuck semantics vs. every backend at EVERY optimisation level for the REPAIRED
optimizer `OptFix.optimizeF` (the official model of the Rust optimizer after the fix of defect F13:
`Opt.optimizeOnce` followed by `fixClob`), WITHOUT any per-run test.

`b` = the parser's output, `level` arbitrary, `orders` an ARBITRARY oracle of hash iteration orders, `b'` the
block the model returns for it (`hopt : OptFix.optimizeF b level orders = .ok b'`).  The ingredients are
`OptProof.optimizeF_preserves_all_levels'` and `OptProof.optimizeF_onceOk_all_levels'` (`Props/C01Full.lean`;
level 0: `optimizeF` is the identity and the parser never sets `once`); everything else is the generic composition
of `Proofs/ChainO1Gen.lean` and `allBackends_of_agrees` of `Proofs/ChainOn.lean`.
-/
import Hpbf.Proofs.ChainOn
import Hpbf.Props.C01Full

namespace Hpbf
namespace Chain

open Bc BcWf BcGen C11 C02

variable {w : Nat}

/-- At level 0 the repaired `optimize` returns its argument (and consumes no oracle entry). -/
theorem optimizeF_zero {b b' : Ir.Block w} {orders : Opt.Orders} (h : OptFix.optimizeF b 0 orders = .ok b') :
    b' = b ∧ orders = [] := by
  rw [OptProof.optimizeF_ok_iff, OptProof.optimizeMF_zero] at h
  simp only [StateT.run, pure, StateT.pure, Except.pure, Except.ok.injEq, Prod.mk.injEq] at h
  exact ⟨h.1.symm, h.2⟩

theorem optimizeF_zero_ok (b : Ir.Block w) : OptFix.optimizeF b 0 [] = .ok b := by
  rw [OptProof.optimizeF_ok_iff, OptProof.optimizeMF_zero]
  rfl

section Final
variable (hw : 0 < w) {src : List Kind} {prog : Prog} (hp : Bf.tree src = some prog)
  {b b' : Ir.Block w} (hb : Ir.parse (w := w) src = .ok b) {level : Nat} {orders : Opt.Orders}
  (hopt : OptFix.optimizeF b level orders = .ok b') (env : Env)
include hw hb hopt

/-- Same observable behaviour of the parser's output and the optimizer's output. -/
theorem behEq_final : OptProof.BehEq b b' env :=
  OptProof.optimizeF_preserves_all_levels' hw (OptProof.parse_canonL' hb) hopt env

/-- The `once` marks of the optimizer's output are justified (level 0: there are none). -/
theorem onceOk_final : OnceOk b' env := by
  by_cases hl : level = 0
  · subst hl
    obtain ⟨rfl, _⟩ := optimizeF_zero hopt
    exact parse_onceOk hb env
  · exact OptProof.optimizeF_onceOk_all_levels' hw (OptProof.parse_canonL' hb) hl hopt env

include hp

/-- **Canonical semantics vs. the IR interpreter on the optimized block, every level, repaired optimizer.** -/
theorem irAgrees_final : IrAgrees prog b' env :=
  irAgrees_of_behEq (irAgrees_level0 hw hp hb env) (behEq_final hw hb hopt env)

/-- **Canonical semantics vs. the bytecode machine on `translate b'`, every level, repaired optimizer.** -/
theorem bcAgrees_final (numRegs : Nat) (fuse : Bool) : BcAgrees prog (translate b' numRegs fuse) env :=
  bcAgrees_of_ir (irAgrees_final hw hp hb hopt env) (onceOk_final hw hb hopt env) numRegs fuse

/-! #### the IR interpreter -/

theorem ir_final :
    ((∀ f (s : State w), Bf.run f prog env = .done s →
        ∃ f' c, Ir.run b' false 0 f' env = .done c ∧ c.st.trace = s.trace) ∧
     (∀ f (s : State w), Bf.run f prog env = .stopped s →
        ∃ f' c, Ir.run b' false 0 f' env = .stopped c ∧ c.st.trace = s.trace)) ∧
    ((∀ f' (c : Ir.Cfg w), Ir.run b' false 0 f' env = .done c →
        ∃ (f : Nat) (s : State w), Bf.run f prog env = .done s ∧ s.trace = c.st.trace) ∧
     (∀ f' (c : Ir.Cfg w), Ir.run b' false 0 f' env = .stopped c →
        ∃ (f : Nat) (s : State w), Bf.run f prog env = .stopped s ∧ s.trace = c.st.trace)) ∧
    ((∀ f', ∃ f, C01.traceOf (Ir.run b' false 0 f' env) = C01.traceOfBf (Bf.run (w := w) f prog env)) ∧
     (∀ f, ∃ f', C01.traceOf (Ir.run b' false 0 f' env) = C01.traceOfBf (Bf.run (w := w) f prog env))) :=
  irAgrees_final hw hp hb hopt env

/-! #### the bytecode interpreter -/

theorem bytecode_final (numRegs : Nat) (fuse : Bool) :
    ((∀ f (s : State w), Bf.run f prog env = .done s →
        ∃ f' c', Bc.run (translate b' numRegs fuse) false 0 f' env = .done c' ∧ c'.st.trace = s.trace) ∧
     (∀ f (s : State w), Bf.run f prog env = .stopped s →
        ∃ f' c', Bc.run (translate b' numRegs fuse) false 0 f' env = .stopped c' ∧ c'.st.trace = s.trace)) ∧
    ((∀ f' (c' : Bc.Cfg w), Bc.run (translate b' numRegs fuse) false 0 f' env = .done c' →
        ∃ (f : Nat) (s : State w), Bf.run f prog env = .done s ∧ s.trace = c'.st.trace) ∧
     (∀ f' (c' : Bc.Cfg w), Bc.run (translate b' numRegs fuse) false 0 f' env = .stopped c' →
        ∃ (f : Nat) (s : State w), Bf.run f prog env = .stopped s ∧ s.trace = c'.st.trace)) ∧
    ((∀ f', ∃ f, C07.traceOfBc (Bc.run (translate b' numRegs fuse) false 0 f' env) =
        C01.traceOfBf (Bf.run (w := w) f prog env)) ∧
     (∀ f, ∃ f', C07.traceOfBc (Bc.run (translate b' numRegs fuse) false 0 f' env) =
        C01.traceOfBf (Bf.run (w := w) f prog env))) :=
  bcAgrees_final hw hp hb hopt env numRegs fuse

theorem bytecode_final_debug (numRegs : Nat) (fuse : Bool) :
    ((∀ f (s : State w), Bf.run f prog env = .done s →
        ∃ f' c', runDebug (translate b' numRegs fuse) false 0 f' env = .done c' ∧ c'.st.trace = s.trace) ∧
     (∀ f (s : State w), Bf.run f prog env = .stopped s →
        ∃ f' c', runDebug (translate b' numRegs fuse) false 0 f' env = .stopped c' ∧ c'.st.trace = s.trace)) ∧
    ((∀ f' (c' : Bc.Cfg w), runDebug (translate b' numRegs fuse) false 0 f' env = .done c' →
        ∃ (f : Nat) (s : State w), Bf.run f prog env = .done s ∧ s.trace = c'.st.trace) ∧
     (∀ f' (c' : Bc.Cfg w), runDebug (translate b' numRegs fuse) false 0 f' env = .stopped c' →
        ∃ (f : Nat) (s : State w), Bf.run f prog env = .stopped s ∧ s.trace = c'.st.trace)) ∧
    ((∀ f', ∃ f, C07.traceOfBc (runDebug (translate b' numRegs fuse) false 0 f' env) =
        C01.traceOfBf (Bf.run (w := w) f prog env)) ∧
     (∀ f, ∃ f', C07.traceOfBc (runDebug (translate b' numRegs fuse) false 0 f' env) =
        C01.traceOfBf (Bf.run (w := w) f prog env))) :=
  bcAgrees_debug (bcAgrees_final hw hp hb hopt env numRegs fuse)

/-! #### C05 / C07 / C08 -/

theorem bc_never_returns_final (numRegs : Nat) (fuse : Bool) (hdiv : C05.BfDiverges w prog env) :
    (∀ (f' : Nat) (c : Bc.Cfg w),
      Bc.run (translate b' numRegs fuse) false 0 f' env ≠ .done c ∧
      Bc.run (translate b' numRegs fuse) false 0 f' env ≠ .stopped c) ∧
    (∀ (bd f' : Nat) (c : Bc.Cfg w),
      Bc.run (translate b' numRegs fuse) true bd f' env ≠ .done c ∧
      Bc.run (translate b' numRegs fuse) true bd f' env ≠ .stopped c) :=
  bc_never_returns_of_agrees (bcAgrees_final hw hp hb hopt env numRegs fuse) hdiv

theorem bc_runs_forever_final (numRegs : Nat) (fuse : Bool) (hdiv : C05.BfDiverges w prog env) :
    ∀ f', ∃ c : Bc.Cfg w, Bc.run (translate b' numRegs fuse) false 0 f' env = .outOfFuel c :=
  bc_runs_forever_of_agrees (bcAgrees_final hw hp hb hopt env numRegs fuse) hdiv
    (translate_never_bad_unconditional b' numRegs fuse env).1

theorem bc_limited_interrupted_final (numRegs : Nat) (fuse : Bool) (hdiv : C05.BfDiverges w prog env) :
    ∀ bd, ∃ f' c, Bc.run (translate b' numRegs fuse) true bd f' env = .interrupted c :=
  bc_limited_interrupted_of_agrees (bcAgrees_final hw hp hb hopt env numRegs fuse) hdiv
    (translate_never_bad_unconditional b' numRegs fuse env).1

theorem bc_divergent_output_final (numRegs : Nat) (fuse : Bool) (hdiv : C05.BfDiverges w prog env) :
    (∀ f, ∃ f' c c', Bf.run (w := w) f prog env = .outOfFuel c ∧
      Bc.run (translate b' numRegs fuse) false 0 f' env = .outOfFuel c' ∧ c'.st.trace = c.st.trace) ∧
    (∀ f', ∃ f c c', Bc.run (translate b' numRegs fuse) false 0 f' env = .outOfFuel c' ∧
      Bf.run (w := w) f prog env = .outOfFuel c ∧ c'.st.trace = c.st.trace) :=
  bc_divergent_output_of_agrees (bcAgrees_final hw hp hb hopt env numRegs fuse) hdiv
    (translate_never_bad_unconditional b' numRegs fuse env).1

theorem bc_limited_finished_final (numRegs : Nat) (fuse : Bool) :
    (∀ (bd f' : Nat) (c : Bc.Cfg w), Bc.run (translate b' numRegs fuse) true bd f' env = .done c →
      ∃ (f : Nat) (s : State w), Bf.run f prog env = .done s ∧ s.trace = c.st.trace) ∧
    (∀ (bd f' : Nat) (c : Bc.Cfg w), Bc.run (translate b' numRegs fuse) true bd f' env = .stopped c →
      ∃ (f : Nat) (s : State w), Bf.run f prog env = .stopped s ∧ s.trace = c.st.trace) :=
  bc_limited_finished_of_agrees (bcAgrees_final hw hp hb hopt env numRegs fuse)

theorem bc_limited_prefix_final (numRegs : Nat) (fuse : Bool) :
    ∀ bd f', ∃ f, ∀ g, f ≤ g →
      C07.traceOfBc (Bc.run (translate b' numRegs fuse) true bd f' env) <:+
        C01.traceOfBf (Bf.run (w := w) g prog env) :=
  bc_limited_is_prefix_of_agrees (bcAgrees_final hw hp hb hopt env numRegs fuse)

theorem bc_limited_enough_final (numRegs : Nat) (fuse : Bool) :
    (∀ (f : Nat) (s : State w), Bf.run f prog env = .done s →
      ∃ g, ∀ bd, g ≤ bd →
        ∃ f' c, Bc.run (translate b' numRegs fuse) true bd f' env = .done c ∧ c.st.trace = s.trace) ∧
    (∀ (f : Nat) (s : State w), Bf.run f prog env = .stopped s →
      ∃ g, ∀ bd, g ≤ bd →
        ∃ f' c, Bc.run (translate b' numRegs fuse) true bd f' env = .stopped c ∧ c.st.trace = s.trace) :=
  bc_limited_enough_of_agrees (bcAgrees_final hw hp hb hopt env numRegs fuse)

theorem bc_stops_like_canonical_final (numRegs : Nat) (fuse : Bool) :
    ∀ (f : Nat) (s : State w), Bf.run f prog env = .stopped s →
      ∃ f' c, (∀ k, Bc.run (translate b' numRegs fuse) false 0 (f' + k) env = .stopped c) ∧
        c.st.trace = s.trace :=
  bc_stops_like_canonical_of_agrees (bcAgrees_final hw hp hb hopt env numRegs fuse)

theorem bc_stops_only_like_canonical_final (numRegs : Nat) (fuse : Bool) :
    ∀ (l : Bool) (bd f' : Nat) (c : Bc.Cfg w), Bc.run (translate b' numRegs fuse) l bd f' env = .stopped c →
      (l = false → bd = 0) →
      ∃ (f : Nat) (s : State w), Bf.run f prog env = .stopped s ∧ s.trace = c.st.trace :=
  bc_stops_only_like_canonical_of_agrees (bcAgrees_final hw hp hb hopt env numRegs fuse)

/-! #### the JIT -/

section Jit
open Asm JitGen X86Sem X86Prog C03
variable {sz : Size} {safe : Bool} {cfg : X86Prog.Cfg} {buf0 rsp0 ra : BitVec 64}

theorem jit_final_forward (R : JitRange sz (translate b' 11 false) false safe cfg buf0 rsp0 ra 0 env) :
    let p := translate b' 11 false
    let s0 : PState w := initState cfg buf0 rsp0 ra p.minAcc p.maxAcc 0 env
    (∀ f (s : State w), Bf.run f prog env = .done s →
      ∃ n s', X86Prog.run cfg n s0 = .ret s' ∧ s'.regs.rax = 1 ∧ s'.trace = s.trace) ∧
    (∀ f (s : State w), Bf.run f prog env = .stopped s →
      ∃ n s', X86Prog.run cfg n s0 = .ret s' ∧ s'.regs.rax = 0 ∧ s'.trace = s.trace) :=
  jit_forward_of_agrees (bcAgrees_final hw hp hb hopt env 11 false)
    (jitHyps_of_range (translate_ok b' 11 false) R)

theorem jit_final_unique (R : JitRange sz (translate b' 11 false) false safe cfg buf0 rsp0 ra 0 env) :
    let p := translate b' 11 false
    let s0 : PState w := initState cfg buf0 rsp0 ra p.minAcc p.maxAcc 0 env
    (∀ f (s : State w), Bf.run f prog env = .done s →
      ∀ n s', X86Prog.run cfg n s0 = .ret s' → s'.regs.rax = 1 ∧ s'.trace = s.trace) ∧
    (∀ f (s : State w), Bf.run f prog env = .stopped s →
      ∀ n s', X86Prog.run cfg n s0 = .ret s' → s'.regs.rax = 0 ∧ s'.trace = s.trace) :=
  jit_unique_of_agrees (bcAgrees_final hw hp hb hopt env 11 false)
    (jitHyps_of_range (translate_ok b' 11 false) R)

theorem jit_final_prefix (R : JitRange sz (translate b' 11 false) false safe cfg buf0 rsp0 ra 0 env) :
    let p := translate b' 11 false
    let s0 : PState w := initState cfg buf0 rsp0 ra p.minAcc p.maxAcc 0 env
    ∀ f, ∃ n s', (steps cfg n s0 = some s' ∨ X86Prog.run cfg n s0 = .ret s') ∧
      s'.trace = C01.traceOfBf (Bf.run (w := w) f prog env) :=
  jit_prefix_of_agrees (bcAgrees_final hw hp hb hopt env 11 false)
    (jitHyps_of_range (translate_ok b' 11 false) R)

theorem jit_final_divergent (R : JitRange sz (translate b' 11 false) false safe cfg buf0 rsp0 ra 0 env)
    (hdiv : C05.BfDiverges w prog env) :
    let p := translate b' 11 false
    let s0 : PState w := initState cfg buf0 rsp0 ra p.minAcc p.maxAcc 0 env
    ∀ f, ∃ n s', steps cfg n s0 = some s' ∧ s'.trace = C01.traceOfBf (Bf.run (w := w) f prog env) :=
  jit_divergent_of_agrees (bcAgrees_final hw hp hb hopt env 11 false)
    (jitHyps_of_range (translate_ok b' 11 false) R) hdiv

theorem jit_final_limited {bd : Nat}
    (R : JitRange sz (translate b' 11 false) true safe cfg buf0 rsp0 ra bd env) :
    let p := translate b' 11 false
    let s0 : PState w := initState cfg buf0 rsp0 ra p.minAcc p.maxAcc bd env
    ∃ n s', X86Prog.run cfg n s0 = .ret s' ∧
      (∀ n2 s2, X86Prog.run cfg n2 s0 = .ret s2 → s2 = s') ∧
      (s'.regs.rax = 1 ∨ s'.regs.rax = 0) ∧
      (s'.regs.rax = 1 → ∃ (f : Nat) (s : State w), Bf.run f prog env = .done s ∧ s.trace = s'.trace) ∧
      (∃ f, ∀ g, f ≤ g → s'.trace <:+ C01.traceOfBf (Bf.run (w := w) g prog env)) :=
  jit_limited_of_agrees (bcAgrees_final hw hp hb hopt env 11 false)
    (jitHyps_of_range (translate_ok b' 11 false) R)

theorem jit_final_limited_enough :
    let p := translate b' 11 false
    (∀ f (s : State w), Bf.run f prog env = .done s → ∃ g, ∀ bd, g ≤ bd →
      JitRange sz p true safe cfg buf0 rsp0 ra bd env →
      ∃ n s', X86Prog.run cfg n (initState (w := w) cfg buf0 rsp0 ra p.minAcc p.maxAcc bd env) = .ret s' ∧
        s'.regs.rax = 1 ∧ s'.trace = s.trace) ∧
    (∀ f (s : State w), Bf.run f prog env = .stopped s → ∃ g, ∀ bd, g ≤ bd →
      JitRange sz p true safe cfg buf0 rsp0 ra bd env →
      ∃ n s', X86Prog.run cfg n (initState (w := w) cfg buf0 rsp0 ra p.minAcc p.maxAcc bd env) = .ret s' ∧
        s'.regs.rax = 0 ∧ s'.trace = s.trace) := by
  intro p
  have ht := translate_ok b' 11 false
  have E := bc_limited_enough_of_agrees (bcAgrees_final hw hp hb hopt env 11 false)
  constructor
  · intro f s hs
    obtain ⟨g, hg⟩ := E.1 f s hs
    refine ⟨g, fun bd hgb R => ?_⟩
    obtain ⟨f', c', hc', htr⟩ := hg bd hgb
    have := jit_of_bc (jitHyps_of_range ht R) f'
    simp only [hc'] at this
    obtain ⟨n, s', h1, h2, h3, _⟩ := this
    exact ⟨n, s', h1, h2, h3.trans htr⟩
  · intro f s hs
    obtain ⟨g, hg⟩ := E.2 f s hs
    refine ⟨g, fun bd hgb R => ?_⟩
    obtain ⟨f', c', hc', htr⟩ := hg bd hgb
    have := jit_of_bc (jitHyps_of_range ht R) f'
    simp only [hc'] at this
    obtain ⟨n, s', h1, h2, h3, _⟩ := this
    exact ⟨n, s', h1, h2, h3.trans htr⟩

end Jit

end Final

/-- The access window of the bytecode for the block the repaired optimizer returns is the window
`BcGen.analyze` computes for it (the bound by the text length, `translate_window_optimized`, is stated in
`Props/C10Opt.lean` for `Opt.optimize`; it is not needed here). -/
theorem translate_window_final (b' : Ir.Block w) (numRegs : Nat) (fuse : Bool) :
    (translate b' numRegs fuse).minAcc = (analyze b').minAcc ∧
    (translate b' numRegs fuse).maxAcc = (analyze b').maxAcc := by
  obtain ⟨_, _, h1, h2, _⟩ := translate_shape (translate_ok b' numRegs fuse)
  exact ⟨h1, h2⟩

/-! ### the final headline -/

/-- **Every level, every backend, no test** (repaired optimizer).

ASSUMED
* `code` is a balanced Brainfuck text with bracket tree `prog` (`hp`); the cell width is `w ≥ 1` (`hw`);
* `level` is any optimisation level (0: no optimisation; ≥ 3 behaves like 3) and `orders` ANY oracle of hash
  iteration orders for which the model of the repaired optimizer returns a block:
  `hopt : OptFix.optimizeF (parse code) level orders = .ok b'`;
* `env` is any environment (input replies incl. EOF and errors, absent source, absent or refusing sink),
  `numRegs` any register count and `fuse` either fusion setting of `translate`;
* for the two machine-code conjuncts only: the range conditions `JitRange` (cell width 8/16/32/64, operand
  displacements, frame size and `mov` shifts inside `i32`, code < 2^31 bytes, distinct runtime addresses,
  `rsp ≡ 8 mod 16`, budget a `u64` and not (limited with budget 0), no allocation beyond 2^40 cells for
  bounds-checked code).
Nothing else: no test on the run, no well-formedness of the IR, no hypothesis on the generator (it is total, its
output passes the contract checker and is compiled by the JIT's selector).

CONCLUDED (`AllBackends`), with `canon f` = the result of the canonical Brainfuck run with fuel `f`
(`some (true, events)`: ran off the end; `some (false, events)`: stopped at a failing I/O operation; `none`:
still running):
1. the in-place interpreter on the text,
2. the IR interpreter on the optimized block `b'`,
3. the bytecode interpreter (release build: tail-called dispatch) on `translate b' numRegs fuse`,
4. the bytecode interpreter (debug build: trampolined dispatch) on the same program,
   each terminate exactly when the canonical run does, with the same kind of ending and the same events;
5. the machine code of the baseline JIT for `translate b' 11 false`, unlimited mode: whenever the canonical run
   terminates, the function returns with that ending (`rax = 1` / `0`) and those events;
6. limited mode, any budget: the function returns; "finished" (`rax = 1`) only with the complete canonical event
   sequence of a run that ran off the end; in every case its events are an initial part of the canonical events.
Only events and the kind of ending are compared (the optimizer does not preserve the final tape / pointer). -/
theorem all_levels_all_backends (hw : 0 < w) (code : Array Kind) (prog : Prog)
    (hp : Bf.tree code.toList = some prog) (level : Nat) (orders : Opt.Orders) (b' : Ir.Block w)
    (hopt : OptFix.optimizeF (irOf w code.toList) level orders = .ok b') (env : Env)
    (numRegs : Nat) (fuse : Bool) : AllBackends code prog b' numRegs fuse env := by
  have hb := parse_irOf (w := w) hp
  exact allBackends_of_agrees hp (irAgrees_final hw hp hb hopt env) (onceOk_final hw hb hopt env) numRegs fuse

end Chain
end Hpbf
