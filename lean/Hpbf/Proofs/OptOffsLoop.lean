/-
Offsets of optimized IR, part 7: the loop analysis and loop motion do not invent names.
* the trip-count expression of `analyzeLoop` only mentions the condition;
* the increments collected by `linearAmong` only mention variables of the sub-block's expressions;
* whatever `loopMotion` moves before / keeps in / moves after the loop only mentions the variable itself,
  variables of its pending expression, of the trip count and of the linear increments.
-/
import Hpbf.Proofs.OptOffsEmit
import Hpbf.Proofs.OptLoopMotion

namespace Hpbf.OptOffs
open Hpbf Opt Ir
open Hpbf.OptLoop (VarsIn varsIn_iff)

variable {w : Nat}

/-! ### `analyzeLoop` -/

/-- The trip-count expression (if any) satisfies `S`. -/
def ExprOk (S : Int → Prop) (l : OptLoop w) : Prop := ∀ e, l.expr = some e → VarsIn S e

theorem exprOk_ofExpr {S : Int → Prop} {e : Expr w} (h : VarsIn S e) : ExprOk S (OptLoop.ofExpr e) := by
  intro e' he'
  simp only [OptLoop.ofExpr, Option.some.injEq] at he'
  subst he'; exact h

theorem exprOk_noReturn {S : Int → Prop} (b : Bool) : ExprOk S (OptLoop.noReturn b : OptLoop w) := by
  intro e' he'
  simp only [OptLoop.noReturn] at he'
  split at he'
  · simp only [Option.some.injEq] at he'; subst he'; exact varsIn_val _
  · cases he'

theorem exprOk_infinite {S : Int → Prop} (b : Bool) : ExprOk S (OptLoop.infinite b : OptLoop w) := by
  intro e' he'; simp [OptLoop.infinite] at he'

theorem exprOk_unknown {S : Int → Prop} (b : Bool) : ExprOk S (OptLoop.unknown b : OptLoop w) := by
  intro e' he'; simp [OptLoop.unknown] at he'

theorem exprOk_atMostOnceOf {S : Int → Prop} (b : Bool) : ExprOk S (OptLoop.atMostOnceOf b : OptLoop w) := by
  unfold OptLoop.atMostOnceOf
  split
  · exact exprOk_ofExpr (varsIn_val _)
  · intro e' he'; simp at he'

theorem exprOk_toAtLeastOnce {S : Int → Prop} {l : OptLoop w} (h : ExprOk S l) : ExprOk S l.toAtLeastOnce :=
  fun e he => h e he

theorem exprOk_toAtMostOnce {S : Int → Prop} (l : OptLoop w) : ExprOk S l.toAtMostOnce := by
  intro e he; simp [OptLoop.toAtMostOnce] at he

theorem analyzeLoop_exprOk {S : Int → Prop} (s : Rebuild w) (ps : List (Rebuild w)) (sub : Rebuild w)
    {cond : Int} (isLoop : Bool) (hc : S cond) : ExprOk S (analyzeLoop s ps sub cond isLoop) := by
  unfold analyzeLoop
  simp +zetaHave only []
  repeat' split
  all_goals first
    | exact exprOk_ofExpr (varsIn_val _)
    | exact exprOk_noReturn _
    | exact exprOk_atMostOnceOf _
    | exact exprOk_infinite _
    | exact exprOk_unknown _
    | exact exprOk_ofExpr (varsIn_mul _ _ (varsIn_val _) (varsIn_var hc))

/-! ### `linearAmong` -/

def LinOk (S : Int → Prop) (linear : List (Int × Expr w)) : Prop := ∀ kv ∈ linear, VarsIn S kv.2

theorem linearAmong_ok {S : Int → Prop} (s : Rebuild w) (ps : List (Rebuild w)) (sub : Rebuild w)
    (constant vars : List Int) (hp : ∀ kv ∈ sub.pending, VarsIn S kv.2)
    (hw : ∀ kv ∈ sub.written, ∀ e, kv.2 = .known e → VarsIn S e) :
    LinOk S (linearAmong s ps sub constant vars) := by
  unfold linearAmong
  refine foldl_inv (LinOk S) _ vars ?_ (fun kv h => by cases h)
  intro linear var _ hl
  split
  · exact hl
  · split
    · rename_i complete hgb
      split
      · rename_i inc hinc
        split
        · intro kv hkv
          rcases mem_mSet hkv with e | e
          · subst e
            refine varsIn_incOf hinc ?_
            exact getBoth_varsIn (S := fun x => S x ∨ x = var) (s :: ps)
              (fun kv hkv => VarsIn.imp (hp kv hkv) (fun _ h => Or.inl h))
              (fun kv hkv e he => VarsIn.imp (hw kv hkv e he) (fun _ h => Or.inl h))
              (Or.inr rfl) hgb
          · exact hl kv e
        · exact hl
      · exact hl
    · exact hl

/-! ### `loopMotion` -/

theorem triFold_ok {S : Int → Prop} {expr : Expr w} (he : VarsIn S expr) :
    ∀ (linears : List (Expr w × Expr w)) (ba : Expr w × Expr w),
      (∀ il ∈ linears, VarsIn S il.1 ∧ VarsIn S il.2) → VarsIn S ba.1 → VarsIn S ba.2 →
      VarsIn S (linears.foldl (OptLoop.triFoldStep expr) ba).1 ∧
      VarsIn S (linears.foldl (OptLoop.triFoldStep expr) ba).2 := by
  intro linears
  induction linears with
  | nil => intro ba _ h1 h2; exact ⟨h1, h2⟩
  | cons il rest ih =>
    intro ba hl h1 h2
    simp only [List.foldl_cons]
    have hil := hl il List.mem_cons_self
    apply ih _ (fun x hx => hl x (List.mem_cons_of_mem _ hx))
    · unfold OptLoop.triFoldStep
      simp only
      split
      · exact h1
      · exact varsIn_triStep _ _ _ _ he hil.1 hil.2 h1
    · unfold OptLoop.triFoldStep
      simp only
      split
      · exact varsIn_add _ _ h2 hil.1
      · exact h2

theorem none_ok {S : Int → Prop} : ∀ e, (none : Option (Expr w)) = some e → VarsIn S e :=
  fun _ h => nomatch h

theorem some_ok {S : Int → Prop} {x : Expr w} (hx : VarsIn S x) : ∀ e, some x = some e → VarsIn S e := by
  intro e h
  simp only [Option.some.injEq] at h
  subst h; exact hx

theorem loopMotion_ok {S : Int → Prop} {s : Rebuild w} {ps : List (Rebuild w)} {var : Int} {p : Expr w}
    {complete : Bool} {reads C : List Int} {lin : List (Int × Expr w)} {otherPending : List Int}
    {L : OptLoop w} {r : Option (Expr w) × Option (Expr w) × Option (Expr w)}
    (hv : S var) (hp : VarsIn S p) (hl : LinOk S lin) (hL : ExprOk S L)
    (h : loopMotion s ps var p complete reads C lin otherPending L = .ok r) :
    (∀ e, r.1 = some e → VarsIn S e) ∧ (∀ e, r.2.1 = some e → VarsIn S e) ∧
    (∀ e, r.2.2 = some e → VarsIn S e) := by
  have hred : ∀ p', reduceConst s ps p C = .ok p' → VarsIn S p' := fun p' hp' =>
    varsIn_iff.2 (fun x hx => varsIn_iff.1 hp x (OptLoop.reduceConst_varsIn s ps p p' C hp' x hx))
  cases OptLoop.loopMotion_cases s ps var p complete reads C lin otherPending L r h with
  | gone => exact ⟨none_ok, none_ok, none_ok⟩
  | after p' h1 => exact ⟨none_ok, none_ok, some_ok (hred p' h1)⟩
  | tri p' expr inc cst other linears _ _ _ h1 h2 h3 h4 =>
    have hp' := hred p' h1
    have hexpr := hL expr h2
    have hinc := varsIn_prodIncOf h3 hp'
    obtain ⟨_, _, hcst, hoth, hlin⟩ := OptLoop.splitAlong_recompose inc C lin cst other linears h4
    have hcst' : VarsIn S cst := fun q hq => hinc q (hcst q hq)
    have hoth' : VarsIn S other := fun q hq => hinc q (hoth q hq)
    have hlin' : ∀ il ∈ linears, VarsIn S il.1 ∧ VarsIn S il.2 := by
      intro il hil
      obtain ⟨part, lv, l, hpart, e1, _, _, hget, e2, _, _⟩ := hlin il hil
      have hpv : ∀ x ∈ part.vars, S x := hinc part hpart
      refine ⟨by rw [e1]; exact varsIn_single hpv, ?_⟩
      rw [e2]
      refine varsIn_mul _ _ (varsIn_single ?_) (hl _ (mem_of_mGet hget))
      intro x hx
      exact hpv x (List.mem_filter.1 hx).1
    obtain ⟨f1, f2⟩ := triFold_ok hexpr linears (Expr.mul expr cst, other) hlin'
      (varsIn_mul _ _ hexpr hcst') hoth'
    exact ⟨some_ok (varsIn_add _ _ (varsIn_var hv) f1), some_ok (varsIn_add _ _ (varsIn_var hv) f2), none_ok⟩
  | geo0 p' expr inc mul c =>
    exact ⟨some_ok (varsIn_mul _ _ (varsIn_val _) (varsIn_var hv)), none_ok, none_ok⟩
  | geo p' expr inc mul c _ _ _ h1 _ h3 =>
    have hinc := varsIn_prodIncOf h3 (hred p' h1)
    exact ⟨some_ok (varsIn_add _ _ (varsIn_mul _ _ (varsIn_val _) (varsIn_var hv))
      (varsIn_mul _ _ (varsIn_val _) hinc)), none_ok, none_ok⟩
  | stay p' h1 => exact ⟨none_ok, some_ok (hred p' h1), none_ok⟩

end Hpbf.OptOffs
