/-
C02 / C13 (`allocate_temps` is total), part 2: each phase of `allocStep` succeeds when the lookups it performs
succeed (the converses of the `_ok` lemmas of `C02AllocSpec`).
-/
import Hpbf.Proofs.C02AllocTotalHeap
set_option linter.unusedSimpArgs false

namespace Hpbf
namespace C02
namespace Alloc

open Bc BcWf BcGen C11

variable {w : Nat}

theorem bind_prog {α β : Type} {m : A w α} {f : α → A w β} {a a1 : ASt w} {x : α}
    (hm : m a = .ok (x, a1)) (hf : ∃ res, f x a1 = .ok res) : ∃ res, (m >>= f) a = .ok res := by
  obtain ⟨⟨b, a2⟩, h⟩ := hf
  exact ⟨(b, a2), (bind_ok _ _ _ _ _).2 ⟨x, a1, hm, h⟩⟩

theorem phCanK_prog {numRegs i : Nat} {atf0 : List Nat} {inst0 : Instr w} {k : Bool → A w Unit} {a : ASt w}
    (h : ∀ t, dstTmp? inst0 = some t →
      ∃ (r : RangeInfo) (L : Nat), a.st.ranges[t]? = some r ∧ r.lastUse = some L ∧ i ≤ L)
    (hk : ∀ can, ∃ res, k can a = .ok res) : ∃ res, phCanK numRegs i atf0 inst0 k a = .ok res := by
  unfold phCanK
  cases hd : dstTmp? inst0 with
  | none => simp only [pure_bind']; exact hk false
  | some tmp =>
    simp only
    obtain ⟨r, L, hr, hL, hle⟩ := h tmp hd
    refine bind_prog ((lastUseOf_ok _ _ _ _ _).2 ⟨⟨r, hr, hL⟩, rfl⟩) ?_
    have : ¬ L < i := by omega
    simp only [this, if_false, pure_bind', get_bind]
    exact hk _

theorem phRewriteK_prog {i : Nat} {k : Unit → A w Unit} {a : ASt w} {cur new : Instr w}
    (hc : a.st.insts[i]? = some cur) (hn : rwInst a.repl cur = .ok new)
    (hk : ∃ res, k () (a.setI i new) = .ok res) : ∃ res, phRewriteK i k a = .ok res := by
  unfold phRewriteK
  refine bind_prog ((instAt_ok _ _ _ _ _).2 ⟨hc, rfl⟩) ?_
  simp only [get_bind]
  unfold rwInst at hn
  cases cur with
  | copy d s =>
    simp only at hn ⊢
    cases hs : replSrc a.repl s with
    | error e => rw [hs] at hn; cases hn
    | ok s' =>
      rw [hs] at hn
      simp only [Except.ok.injEq] at hn
      subst hn
      simp only [setInst_bind]
      exact hk
  | add d s0 s1 =>
    simp only [arith?] at hn ⊢
    cases h0 : replSrc a.repl s0 with
    | error e => rw [h0] at hn; cases hn
    | ok s0' =>
      rw [h0] at hn
      cases h1 : replSrc a.repl s1 with
      | error e => rw [h1] at hn; cases hn
      | ok s1' =>
        rw [h1] at hn
        simp only [Except.ok.injEq] at hn
        subst hn
        simp only [setInst_bind]
        exact hk
  | sub d s0 s1 =>
    simp only [arith?] at hn ⊢
    cases h0 : replSrc a.repl s0 with
    | error e => rw [h0] at hn; cases hn
    | ok s0' =>
      rw [h0] at hn
      cases h1 : replSrc a.repl s1 with
      | error e => rw [h1] at hn; cases hn
      | ok s1' =>
        rw [h1] at hn
        simp only [Except.ok.injEq] at hn
        subst hn
        simp only [setInst_bind]
        exact hk
  | mul d s0 s1 =>
    simp only [arith?] at hn ⊢
    cases h0 : replSrc a.repl s0 with
    | error e => rw [h0] at hn; cases hn
    | ok s0' =>
      rw [h0] at hn
      cases h1 : replSrc a.repl s1 with
      | error e => rw [h1] at hn; cases hn
      | ok s1' =>
        rw [h1] at hn
        simp only [Except.ok.injEq] at hn
        subst hn
        simp only [setInst_bind]
        exact hk
  | noop => simp only [arith?, Except.ok.injEq] at hn ⊢; subst hn; rw [setI_self hc] at hk; simpa [pure_bind'] using hk
  | scan c sh => simp only [arith?, Except.ok.injEq] at hn ⊢; subst hn; rw [setI_self hc] at hk; simpa [pure_bind'] using hk
  | mov sh => simp only [arith?, Except.ok.injEq] at hn ⊢; subst hn; rw [setI_self hc] at hk; simpa [pure_bind'] using hk
  | inp d => simp only [arith?, Except.ok.injEq] at hn ⊢; subst hn; rw [setI_self hc] at hk; simpa [pure_bind'] using hk
  | out d => simp only [arith?, Except.ok.injEq] at hn ⊢; subst hn; rw [setI_self hc] at hk; simpa [pure_bind'] using hk
  | brz c o => simp only [arith?, Except.ok.injEq] at hn ⊢; subst hn; rw [setI_self hc] at hk; simpa [pure_bind'] using hk
  | brnz c o => simp only [arith?, Except.ok.injEq] at hn ⊢; subst hn; rw [setI_self hc] at hk; simpa [pure_bind'] using hk

/-- The rewriting of the sources succeeds when every temporary read has an entry. -/
theorem rwInst_total {repl : List (Nat × Loc w)} {cur : Instr w}
    (h : ∀ u ∈ BcWf.uses cur, ∃ l, alGet repl u = some l) : ∃ new, rwInst repl cur = .ok new := by
  have key : ∀ l : Loc w, (∀ u ∈ locTmp l, ∃ v, alGet repl u = some v) → ∃ l', replSrc repl l = .ok l' := by
    intro l hl
    cases l with
    | tmp t =>
      obtain ⟨v, hv⟩ := hl t (by simp [locTmp])
      exact ⟨v, by simp [replSrc, hv]⟩
    | mem m => exact ⟨_, rfl⟩
    | memZero m => exact ⟨_, rfl⟩
    | imm c => exact ⟨_, rfl⟩
  unfold rwInst
  cases cur with
  | copy d s =>
    obtain ⟨s', hs⟩ := key s (fun u hu => h u (by simpa [BcWf.uses] using hu))
    exact ⟨.copy d s', by simp only [hs]⟩
  | add d s0 s1 =>
    obtain ⟨s0', h0⟩ := key s0 (fun u hu => h u (by simp [BcWf.uses, hu]))
    obtain ⟨s1', h1⟩ := key s1 (fun u hu => h u (by simp [BcWf.uses, hu]))
    exact ⟨mkArith .add d s0' s1', by simp only [arith?, h0, h1]⟩
  | sub d s0 s1 =>
    obtain ⟨s0', h0⟩ := key s0 (fun u hu => h u (by simp [BcWf.uses, hu]))
    obtain ⟨s1', h1⟩ := key s1 (fun u hu => h u (by simp [BcWf.uses, hu]))
    exact ⟨mkArith .sub d s0' s1', by simp only [arith?, h0, h1]⟩
  | mul d s0 s1 =>
    obtain ⟨s0', h0⟩ := key s0 (fun u hu => h u (by simp [BcWf.uses, hu]))
    obtain ⟨s1', h1⟩ := key s1 (fun u hu => h u (by simp [BcWf.uses, hu]))
    exact ⟨mkArith .mul d s0' s1', by simp only [arith?, h0, h1]⟩
  | _ => exact ⟨_, rfl⟩

theorem phLiveK_prog {numRegs : Nat} {k : Unit → A w Unit} {a : ASt w} {live : Nat}
    (hl : liveMask numRegs a.freeRegs = .ok live) (hk : ∃ res, k () (pushLive a live) = .ok res) :
    ∃ res, phLiveK numRegs k a = .ok res := by
  unfold phLiveK
  simp only [get_bind, hl, modify_bind]
  exact hk

theorem allocTemp_prog {i old : Nat} {a : ASt w} {r : RangeInfo} {L : Nat} {x : Instr w}
    (hr : a.st.ranges[old]? = some r) (hL : r.lastUse = some L) (hle : i ≤ L) (hx : a.st.insts[i]? = some x) :
    ∃ res, allocTemp i old a = .ok res := by
  unfold allocTemp
  refine bind_prog ((lastUseOf_ok _ _ _ _ _).2 ⟨⟨r, hr, hL⟩, rfl⟩) ?_
  have : ¬ L < i := by omega
  simp only [this, if_false, pure_bind', get_bind]
  refine bind_prog ((instAt_ok _ _ _ _ _).2 ⟨hx, rfl⟩) ?_
  exact ⟨_, rfl⟩

/-- Step 7 succeeds when the destination temporary has a range entry with a last use not before `i`. -/
theorem phDst_prog {i : Nat} {can : Bool} {a : ASt w} {x : Instr w} (hx : a.st.insts[i]? = some x)
    (h : ∀ t, dstTmp? x = some t →
      ∃ (r : RangeInfo) (L : Nat), a.st.ranges[t]? = some r ∧ r.lastUse = some L ∧ i ≤ L) :
    ∃ res, phDst i can a = .ok res := by
  unfold phDst
  refine bind_prog ((instAt_ok _ _ _ _ _).2 ⟨hx, rfl⟩) ?_
  have harith : ∀ (d : Loc w), (∀ t, d = .tmp t →
        ∃ (r : RangeInfo) (L : Nat), a.st.ranges[t]? = some r ∧ r.lastUse = some L ∧ i ≤ L) →
      ∃ res : Unit × ASt w, (match d with
        | .tmp tmp => (do
          let r ← rangeAt "allocate_temps:ranges-index" tmp
          if r.numUses != 0 then allocTemp i tmp else setInst i .noop : A w Unit)
        | _ => pure ()) a = .ok res := by
    intro d hd
    cases d with
    | tmp t =>
      obtain ⟨r, L, hr, hL, hle⟩ := hd t rfl
      simp only
      refine bind_prog ((rangeAt_ok _ _ _ _ _).2 ⟨hr, rfl⟩) ?_
      split
      · exact allocTemp_prog hr hL hle hx
      · exact ⟨_, rfl⟩
    | _ => exact ⟨_, rfl⟩
  cases x with
  | copy d s =>
    cases d with
    | tmp t =>
      obtain ⟨r, L, hr, hL, hle⟩ := h t rfl
      simp only
      refine bind_prog ((rangeAt_ok _ _ _ _ _).2 ⟨hr, rfl⟩) ?_
      simp only [hL]
      split
      · exact ⟨_, rfl⟩
      · cases s with
        | imm c => exact ⟨_, rfl⟩
        | mem m =>
          simp only [get_bind]
          split
          · exact ⟨_, rfl⟩
          · exact allocTemp_prog hr hL hle hx
        | tmp t' => exact allocTemp_prog hr hL hle hx
        | memZero m => exact allocTemp_prog hr hL hle hx
    | mem m => exact ⟨_, rfl⟩
    | memZero m => exact ⟨_, rfl⟩
    | imm c => exact ⟨_, rfl⟩
  | add d s0 s1 =>
    simp only [arith?]
    have := harith d (fun t e => h t (by rw [e]; rfl))
    cases d <;> exact this
  | sub d s0 s1 =>
    simp only [arith?]
    have := harith d (fun t e => h t (by rw [e]; rfl))
    cases d <;> exact this
  | mul d s0 s1 =>
    simp only [arith?]
    have := harith d (fun t e => h t (by rw [e]; rfl))
    cases d <;> exact this
  | _ => exact ⟨_, rfl⟩

/-! ### the fusion phase -/

theorem srcOk_total {a : ASt w} {i f : Nat} {l : Loc w} (h : ∀ u, l = .tmp u → ∃ v, alGet a.repl u = some v) :
    ∃ b, srcOk a i f l = .ok b := by
  cases l with
  | tmp t =>
    obtain ⟨v, hv⟩ := h t rfl
    simp only [srcOk, hv]
    cases v <;> exact ⟨_, rfl⟩
  | mem m => exact ⟨_, rfl⟩
  | memZero m => exact ⟨_, rfl⟩
  | imm c => exact ⟨_, rfl⟩

theorem fuseSrcP_total {f : Nat} {atf : List Nat} {l : Loc w} {a : ASt w}
    (h : ∀ u, l = .tmp u → ∃ ru, a.st.ranges[u]? = some ru) : ∃ atf1 a1, fuseSrcP f atf l a = .ok (atf1, a1) := by
  cases l with
  | tmp t =>
    obtain ⟨ru, hru⟩ := h t rfl
    simp only [fuseSrcP, extendTo, hru]
    split <;> exact ⟨_, _, rfl⟩
  | mem m => exact ⟨_, _, rfl⟩
  | memZero m => exact ⟨_, _, rfl⟩
  | imm c => exact ⟨_, _, rfl⟩

theorem fuseBlock_prog {i t L f : Nat} {m : Int} {atf0 atf1 atf : List Nat} {inst0 x : Instr w} {s0 s1 : Loc w}
    {k : List Nat → A w Unit} {a a1 a2 : ASt w}
    (e1 : fuseSrc f atf0 s0 a = .ok (atf1, a1)) (e2 : fuseSrc f atf1 s1 a1 = .ok (atf, a2))
    (hx : (fuseSt a2 i t L f m inst0).st.insts[f]? = some x)
    (hk : ∃ res, k atf (retarget (fuseSt a2 i t L f m inst0) f m x) = .ok res) :
    ∃ res, (do
        let atf ← fuseSrc f atf0 s0
        let atf ← fuseSrc f atf s1
        modify fun a =>
          { a with repl := alSet a.repl t (.mem m), nre := nrePush (L, t) a.nre }
        setInst f inst0
        setInst i .noop
        let x ← instAt "allocate_temps:insts[first_use]-index" f
        match arith? x with
          | some (op, _, x0, x1) => do
            setInst f (mkArith op (.mem m) x0 x1)
            k atf
          | none => k atf : A w Unit) a = .ok res := by
  refine bind_prog e1 (bind_prog e2 ?_)
  simp only [modify_bind, setInst_bind]
  refine bind_prog ((instAt_ok _ _ _ _ _).2 ⟨hx, rfl⟩) ?_
  unfold retarget at hk
  cases hax : arith? x with
  | none => simp only [hax] at hk ⊢; exact hk
  | some q =>
    obtain ⟨op, d, x0, x1⟩ := q
    simp only [hax, setInst_bind] at hk ⊢
    exact hk

theorem phFuseK_prog {i : Nat} {can : Bool} {atf0 : List Nat} {inst0 : Instr w} {k : List Nat → A w Unit}
    {a : ASt w}
    (hr : ∀ op t s0 s1, arith? inst0 = some (op, .tmp t, s0, s1) →
      ∃ r : RangeInfo, a.st.ranges[t]? = some r ∧
        (∀ L, r.lastUse = some L → ∃ f fi, r.firstUse = some f ∧ a.st.insts[f]? = some fi) ∧
        (∀ u, (s0 = .tmp u ∨ s1 = .tmp u) →
          (∃ l, alGet a.repl u = some l) ∧ ∃ ru : RangeInfo, a.st.ranges[u]? = some ru))
    (hk : ∀ atf aF, FusePhase i atf0 inst0 a atf aF → ∃ res, k atf aF = .ok res) :
    ∃ res, phFuseK i can atf0 inst0 k a = .ok res := by
  have hk0 : ∃ res, k atf0 a = .ok res := hk atf0 a (Or.inl ⟨rfl, rfl⟩)
  unfold phFuseK
  simp only
  cases har : arith? inst0 with
  | none => simp only [pure_bind']; exact hk0
  | some q =>
    obtain ⟨op, d, s0, s1⟩ := q
    cases d with
    | tmp t =>
      obtain ⟨r, hrg, hfirst, hsrc⟩ := hr op t s0 s1 har
      simp only
      refine bind_prog ((rangeAt_ok _ _ _ _ _).2 ⟨hrg, rfl⟩) ?_
      cases hL : r.lastUse with
      | none => simp only [pure_bind']; exact hk0
      | some L =>
        obtain ⟨f, fi, hf, hfi⟩ := hfirst L hL
        simp only [hf, pure_bind']
        refine bind_prog ((instAt_ok _ _ _ _ _).2 ⟨hfi, rfl⟩) ?_
        cases fi with
        | copy d src =>
          cases d with
          | mem m =>
            simp only [get_bind]
            by_cases hc : ((r.numUses == 1 || !can) && !hasWriteInRange a.st m (f + 1) L) = true
            · simp only [hc, if_true]
              have hw : hasWriteInRange a.st m (f + 1) L = false := by
                simp only [Bool.and_eq_true, Bool.not_eq_true'] at hc
                exact hc.2
              obtain ⟨b0, hs0⟩ := srcOk_total (a := a) (i := i) (f := f) (l := s0)
                (fun u e => (hsrc u (Or.inl e)).1)
              cases b0 with
              | false => simp only [hs0, pure_bind', Bool.false_eq_true, if_false]; exact hk0
              | true =>
                simp only [hs0]
                obtain ⟨b1, hs1⟩ := srcOk_total (a := a) (i := i) (f := f) (l := s1)
                  (fun u e => (hsrc u (Or.inr e)).1)
                cases b1 with
                | false => simp only [hs1, pure_bind', Bool.false_eq_true, if_false]; exact hk0
                | true =>
                  simp only [hs1, pure_bind', if_true]
                  obtain ⟨atf1, a1, e1⟩ := fuseSrcP_total (f := f) (atf := atf0) (l := s0) (a := a)
                    (fun u e => (hsrc u (Or.inl e)).2)
                  have S1 := fuseSrcP_spec e1
                  obtain ⟨atf, a2, e2⟩ := fuseSrcP_total (f := f) (atf := atf1) (l := s1) (a := a1) (by
                    intro u e
                    obtain ⟨ru, hru⟩ := (hsrc u (Or.inr e)).2
                    obtain ⟨r1, g1, _⟩ := S1.ranges u ru hru
                    exact ⟨r1, g1⟩)
                  have S2 := fuseSrcP_spec e2
                  have hflt : f < a2.st.insts.size := by
                    rw [S2.insts, S1.insts]; exact lt_of_getElem? hfi
                  have hx : ∃ x, (fuseSt a2 i t L f m inst0).st.insts[f]? = some x := by
                    have : f < (fuseSt a2 i t L f m inst0).st.insts.size := by
                      simp only [fuseSt, ASt.setI, Array.size_setIfInBounds]; exact hflt
                    exact ⟨_, Array.getElem?_eq_getElem this⟩
                  obtain ⟨x, hx⟩ := hx
                  refine fuseBlock_prog (by rw [fuseSrc_eq]; exact e1) (by rw [fuseSrc_eq]; exact e2) hx ?_
                  exact hk atf _ (Or.inr ⟨op, t, s0, s1, r, L, f, m, src, atf1, a1, a2, x, har, hrg, hL, hf, hfi, hw,
                    hs0, hs1, e1, e2, hx, rfl⟩)
            · simp only [hc, pure_bind', Bool.false_eq_true, if_false]; exact hk0
          | tmp t' => exact hk0
          | memZero m => exact hk0
          | imm c => exact hk0
        | noop => exact hk0
        | scan c sh => exact hk0
        | mov sh => exact hk0
        | inp d => exact hk0
        | out d => exact hk0
        | brz c o => exact hk0
        | brnz c o => exact hk0
        | add d x0 x1 => exact hk0
        | sub d x0 x1 => exact hk0
        | mul d x0 x1 => exact hk0
    | mem m => simp only [pure_bind']; exact hk0
    | memZero m => simp only [pure_bind']; exact hk0
    | imm c => simp only [pure_bind']; exact hk0

end Alloc
end C02
end Hpbf
