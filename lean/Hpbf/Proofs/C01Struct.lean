/-
C01, level 0, part 4: structural facts about `comp` — key sets and the `moved` flag only grow, buffers
keep distinct keys, what the parent frame looks like after a (non-folded) loop was closed, the shape
of emitted instruction lists, and what the fold test `isSpecial` implies about the loop body.
Also single-step lemmas for both machines.
-/
import Hpbf.Proofs.C01Rel

namespace Hpbf
namespace C01
open Ir Sim

variable {w : Nat}

/-! ### Single steps -/

theorem bstep_nil_nil (st : State w) : (BfM w).step ⟨.nil, [], st⟩ = .fin true st.trace := rfl

theorem bstep_nil_cons (k : Prog) (ks : List Prog) (st : State w) :
    (BfM w).step ⟨.nil, k :: ks, st⟩ = .next ⟨k, ks, st⟩ := rfl

theorem bstep_cmd (op : Op) (r : Prog) (ks : List Prog) (st : State w) :
    (BfM w).step ⟨.cmd op r, ks, st⟩ =
      if (Bf.applyOp op st).1 = true then .next ⟨r, ks, (Bf.applyOp op st).2⟩
      else .fin false (Bf.applyOp op st).2.trace := by
  simp only [BfM, Bf.step]
  rcases h : Bf.applyOp op st with ⟨b, s'⟩
  cases b <;> simp

theorem bstep_loop (b r : Prog) (ks : List Prog) (st : State w) :
    (BfM w).step ⟨.loop b r, ks, st⟩ =
      if st.rd 0 = 0#w then .next ⟨r, ks, st⟩ else .next ⟨b, .loop b r :: ks, st⟩ := by
  simp only [BfM, Bf.step]
  by_cases h : st.rd 0 = 0#w <;> simp [h]

theorem istep_output (k : Int) (rest : List (Instr w)) (ks : List (Cont w)) (bud : Nat) (st : State w) :
    (IrM w).step ⟨.output k :: rest, ks, bud, st⟩ =
      if (st.output k).1 = true then .next ⟨rest, ks, bud, (st.output k).2⟩
      else .fin false (st.output k).2.trace := by
  simp only [IrM, Ir.step]
  rcases h : st.output k with ⟨b, s'⟩
  cases b <;> simp

theorem istep_input (k : Int) (rest : List (Instr w)) (ks : List (Cont w)) (bud : Nat) (st : State w) :
    (IrM w).step ⟨.input k :: rest, ks, bud, st⟩ =
      if (st.input k).1 = true then .next ⟨rest, ks, bud, (st.input k).2⟩
      else .fin false (st.input k).2.trace := by
  simp only [IrM, Ir.step]
  rcases h : st.input k with ⟨b, s'⟩
  cases b <;> simp

theorem istep_loop (cond sh : Int) (body : List (Instr w)) (once : Bool) (rest : List (Instr w))
    (ks : List (Cont w)) (bud : Nat) (st : State w) :
    (IrM w).step ⟨.loop cond sh body once :: rest, ks, bud, st⟩ =
      if st.rd cond = 0#w then .next ⟨rest, ks, bud, st⟩
      else .next ⟨body, .loopEnd cond sh body rest :: ks, bud, st⟩ := by
  simp only [IrM, Ir.step]
  by_cases h : st.rd cond = 0#w <;> simp [h]

theorem istep_end_nil (bud : Nat) (st : State w) :
    (IrM w).step ⟨[], [], bud, st⟩ = .fin true st.trace := rfl

theorem istep_end_loop (cond sh : Int) (body rest : List (Instr w)) (ks : List (Cont w)) (bud : Nat)
    (st : State w) :
    (IrM w).step ⟨[], .loopEnd cond sh body rest :: ks, bud, st⟩ =
      if (st.mov sh).rd cond = 0#w then .next ⟨rest, ks, bud, st.mov sh⟩
      else .next ⟨body, .loopEnd cond sh body rest :: ks, bud, st.mov sh⟩ := by
  simp only [IrM, Ir.step, Bool.false_and, Bool.false_eq_true, if_false]
  by_cases h : (st.mov sh).rd cond = 0#w <;> simp [h]

theorem output_ptr (s : State w) (k : Int) : (s.output k).2.ptr = s.ptr := by
  unfold State.output
  simp only
  split
  · split <;> rfl
  · rfl

/-! ### Frames only grow -/

/-- `f'` has at least the keys of `f` and is `moved` if `f` is. -/
def Le (f f' : Fr w) : Prop :=
  (∀ a, a ∈ keys f.buff → a ∈ keys f'.buff) ∧ (f.moved = true → f'.moved = true)

theorem Le.refl (f : Fr w) : Le f f := ⟨fun _ h => h, fun h => h⟩

theorem Le.trans {f g h : Fr w} (h1 : Le f g) (h2 : Le g h) : Le f h :=
  ⟨fun a ha => h2.1 a (h1.1 a ha), fun hm => h2.2 (h1.2 hm)⟩

def WF (f : Fr w) : Prop := (keys f.buff).Nodup

theorem wf_fresh (sh : Int) : WF (fresh sh : Fr w) := by simp [WF, fresh, keys]

theorem compOp_le (op : Op) (f : Fr w) : Le f (compOp op f).2 := by
  cases op <;> simp only [compOp]
  · exact ⟨fun a ha => (mem_keys_bset _ _ _ _).mpr (Or.inr ha), fun h => h⟩
  · exact ⟨fun a ha => (mem_keys_bset _ _ _ _).mpr (Or.inr ha), fun h => h⟩
  · exact Le.refl _
  · exact Le.refl _
  · exact ⟨fun a ha => (mem_keys_bset _ _ _ _).mpr (Or.inr ha), fun h => h⟩
  · exact ⟨fun a ha => (mem_keys_flushOneI _ _ _).mpr (Or.inr ha), fun h => h⟩

theorem compOp_wf (op : Op) (f : Fr w) (h : WF f) : WF (compOp op f).2 := by
  cases op <;> simp only [compOp, WF]
  · exact nodup_keys_bset _ _ _ h
  · exact nodup_keys_bset _ _ _ h
  · exact h
  · exact h
  · exact nodup_keys_bset _ _ _ h
  · exact nodup_flushOneI _ _ h

/-- Facts about the parent frame after `closeI`. -/
structure ClosedProps (fb par P : Fr w) : Prop where
  shift : P.shift = par.shift
  wf : WF P
  le : Le par P
  cond_mem : par.shift ∈ keys P.buff
  cond_zero : pend P.buff par.shift = 0#w

theorem closeI_props (ib : List (Instr w)) (fb par : Fr w) (hw : WF par) :
    ClosedProps fb par (closeI ib fb par).2 := by
  unfold closeI
  by_cases hs : isSpecial ib fb par = true
  · rw [if_pos hs]
    exact ⟨rfl, nodup_keys_bset _ _ _ hw,
      ⟨fun a ha => (mem_keys_bset _ _ _ _).mpr (Or.inr ha), fun h => h⟩,
      (mem_keys_bset _ _ _ _).mpr (Or.inl rfl), by simp [pend_bset]⟩
  · rw [if_neg hs]
    simp only
    refine ⟨rfl, ?_, ⟨?_, ?_⟩, ?_, ?_⟩
    · apply nodup_flushOneI
      by_cases hu : unb fb par = true
      · simp only [hu, if_true, keys_map_zero]; exact nodup_flushManyI _ _ hw
      · simp only [hu]; exact nodup_flushManyI _ _ hw
    · intro a ha
      apply (mem_keys_flushOneI _ _ _).mpr; right
      by_cases hu : unb fb par = true
      · simp only [hu, if_true, keys_map_zero]; exact (mem_keys_flushManyI _ _ _).mpr (Or.inr ha)
      · simp only [hu]; exact (mem_keys_flushManyI _ _ _).mpr (Or.inr ha)
    · intro hm
      by_cases hu : unb fb par = true
      · simp [hu]
      · simp only [hu]; exact hm
    · exact (mem_keys_flushOneI _ _ _).mpr (Or.inl rfl)
    · rw [pend_flushOneI]; simp

/-- Additional facts when the loop was not folded. -/
structure GeneralProps (fb par P : Fr w) : Prop where
  body_keys : ∀ a, a ∈ keys fb.buff → a ∈ keys P.buff ∧ pend P.buff a = 0#w
  unb_zero : unb fb par = true → P.moved = true ∧ ∀ a, pend P.buff a = 0#w

theorem closeI_general_props (ib : List (Instr w)) (fb par : Fr w) (hs : isSpecial ib fb par = false) :
    GeneralProps fb par (closeI ib fb par).2 := by
  unfold closeI
  rw [if_neg (by simp [hs])]
  simp only
  constructor
  · intro a ha
    have hmem : a ∈ (bsorted fb.buff).map (·.1) := (mem_keys_bsorted fb.buff a).mpr ha
    constructor
    · apply (mem_keys_flushOneI _ _ _).mpr; right
      by_cases hu : unb fb par = true
      · simp only [hu, if_true, keys_map_zero]; exact (mem_keys_flushManyI _ _ _).mpr (Or.inl hmem)
      · simp only [hu]; exact (mem_keys_flushManyI _ _ _).mpr (Or.inl hmem)
    · rw [pend_flushOneI]
      by_cases hc : a = par.shift
      · simp [hc]
      · simp only [hc, if_false]
        by_cases hu : unb fb par = true
        · simp only [hu, if_true]; exact pend_map_zero _ _
        · simp only [hu, Bool.false_eq_true, ↓reduceIte]; rw [pend_flushManyI]; simp [hmem]
  · intro hu
    simp only [hu, if_true, true_and]
    intro a
    rw [pend_flushOneI]
    by_cases hc : a = par.shift
    · simp [hc]
    · simp only [hc, if_false]; exact pend_map_zero _ _

theorem comp_le (q : Prog) : ∀ f : Fr w, WF f → Le f (comp q f).2 ∧ WF (comp q f).2 := by
  induction q with
  | nil => intro f h; exact ⟨Le.refl _, h⟩
  | cmd op r ih =>
    intro f h
    simp only [comp]
    have h1 := ih _ (compOp_wf op f h)
    exact ⟨(compOp_le op f).trans h1.1, h1.2⟩
  | loop b r _ ih2 =>
    intro f h
    simp only [comp]
    have hc := closeI_props (comp b (fresh f.shift)).1 (comp b (fresh f.shift)).2 f h
    have h1 := ih2 _ hc.wf
    exact ⟨hc.le.trans h1.1, h1.2⟩

/-! ### Shape of emitted instruction lists -/

/-- `i` alone is never recognised as an odd step. -/
def NotStep (i : Instr w) : Prop := ∀ sh, isOddStep [i] sh = false

/-- The list is empty or ends in an instruction that is not an odd step. -/
def Shape (l : List (Instr w)) : Prop := l = [] ∨ ∃ pre last, l = pre ++ [last] ∧ NotStep last

theorem Shape.append {l1 l2 : List (Instr w)} (h1 : Shape l1) (h2 : Shape l2) : Shape (l1 ++ l2) := by
  rcases h2 with rfl | ⟨pre, last, rfl, hl⟩
  · simpa using h1
  · exact Or.inr ⟨l1 ++ pre, last, by simp, hl⟩

theorem notStep_output (k : Int) : NotStep (.output k : Instr w) := fun _ => rfl
theorem notStep_input (k : Int) : NotStep (.input k : Instr w) := fun _ => rfl
theorem notStep_loop (c s : Int) (b : List (Instr w)) (o : Bool) : NotStep (.loop c s b o) := fun _ => rfl
theorem notStep_load_zero (k : Int) : NotStep (Instr.load k 0#w : Instr w) := by
  intro sh
  simp [Instr.load, Expr.val, isOddStep, Expr.constIncOf]

theorem shape_snoc (pre : List (Instr w)) {last : Instr w} (h : NotStep last) : Shape (pre ++ [last]) :=
  Or.inr ⟨pre, last, rfl, h⟩

theorem compOp_shape (op : Op) (f : Fr w) : Shape (compOp op f).1 := by
  cases op <;> simp only [compOp]
  · exact Or.inl rfl
  · exact Or.inl rfl
  · exact Or.inl rfl
  · exact Or.inl rfl
  · exact shape_snoc [] (notStep_input _)
  · exact shape_snoc _ (notStep_output _)

theorem closeI_shape (ib : List (Instr w)) (fb par : Fr w) : Shape (closeI ib fb par).1 := by
  unfold closeI
  split
  · exact shape_snoc [] (notStep_load_zero _)
  · exact shape_snoc _ (notStep_loop _ _ _ _)

theorem closeI_ne_nil (ib : List (Instr w)) (fb par : Fr w) : (closeI ib fb par).1 ≠ [] := by
  unfold closeI
  split <;> simp

theorem comp_shape (q : Prog) : ∀ f : Fr w, Shape (comp q f).1 := by
  induction q with
  | nil => intro f; exact Or.inl rfl
  | cmd op r ih => intro f; simp only [comp]; exact (compOp_shape op f).append (ih _)
  | loop b r _ ih2 => intro f; simp only [comp]; exact (closeI_shape _ _ _).append (ih2 _)

theorem isOddStep_singleton {l : List (Instr w)} {sh : Int} (h : isOddStep l sh = true) :
    ∃ x, l = [x] := by
  unfold isOddStep at h
  split at h
  · exact ⟨_, rfl⟩
  · cases h

/-- A list of shape `Shape` followed by flushed adds is an odd step only if it is just the adds. -/
theorem shape_oddStep {ib adds : List (Instr w)} {sh : Int} (hs : Shape ib)
    (h : isOddStep (ib ++ adds) sh = true) : ib = [] := by
  rcases hs with rfl | ⟨pre, last, rfl, hl⟩
  · rfl
  · obtain ⟨x, hx⟩ := isOddStep_singleton h
    have hlen := congrArg List.length hx
    simp only [List.length_append, List.length_cons, List.length_nil] at hlen
    have hp : pre = [] := List.eq_nil_of_length_eq_zero (by omega)
    have ha : adds = [] := List.eq_nil_of_length_eq_zero (by omega)
    subst hp ha
    simp only [List.nil_append, List.append_nil] at h
    rw [hl sh] at h; cases h

theorem addsOf_singleton (l : List (Int × BitVec w)) (i : Instr w) (h : addsOf l = [i]) :
    ∃ k c, i = Instr.add k c ∧ c ≠ 0#w ∧ (k, c) ∈ l ∧ ∀ k' c', (k', c') ∈ l → c' ≠ 0#w → k' = k ∧ c' = c := by
  induction l with
  | nil => simp [addsOf] at h
  | cons kv l ih =>
    obtain ⟨k0, c0⟩ := kv
    by_cases hc : c0 = 0#w
    · subst hc
      have e : addsOf ((k0, 0#w) :: l) = addsOf l := by simp [addsOf]
      rw [e] at h
      obtain ⟨k, c, h1, h2, h3, h4⟩ := ih h
      refine ⟨k, c, h1, h2, List.mem_cons_of_mem _ h3, ?_⟩
      intro k' c' hm hne
      rcases List.mem_cons.mp hm with he | hm'
      · cases he; exact absurd rfl hne
      · exact h4 k' c' hm' hne
    · have e : addsOf ((k0, c0) :: l) = Instr.add k0 c0 :: addsOf l := by simp [addsOf, hc]
      rw [e] at h
      simp only [List.cons.injEq] at h
      obtain ⟨h1, h2⟩ := h
      refine ⟨k0, c0, h1.symm, hc, List.mem_cons_self, ?_⟩
      intro k' c' hm hne
      rcases List.mem_cons.mp hm with he | hm'
      · cases he; exact ⟨rfl, rfl⟩
      · exfalso
        have : Instr.add k' c' ∈ addsOf l := by
          unfold addsOf
          apply List.mem_filterMap.mpr
          exact ⟨(k', c'), hm', by simp [hne]⟩
        rw [h2] at this; cases this

theorem isOddStep_add {k sh : Int} {c : BitVec w} (h : isOddStep [Instr.add k c] sh = true) :
    k = sh ∧ Cell.isOdd c = true := by
  simp only [isOddStep, Instr.add, Expr.constIncOf, Bool.and_eq_true, beq_iff_eq] at h
  obtain ⟨h1, h2⟩ := h
  subst h1
  simpa using h2

/-- What the fold test implies. -/
theorem isSpecial_elim {ib : List (Instr w)} {fb par : Fr w} (hsh : Shape ib) (hwf : WF fb)
    (h : isSpecial ib fb par = true) :
    ib = [] ∧ fb.moved = false ∧ fb.shift = par.shift ∧
      ∃ c, Cell.isOdd c = true ∧ ∀ a, pend fb.buff a = if a = par.shift then c else 0#w := by
  unfold isSpecial at h
  simp only [Bool.and_eq_true, Bool.not_eq_true', beq_iff_eq] at h
  obtain ⟨⟨hm, hs⟩, ho⟩ := h
  unfold bodyInsts at ho
  have hib := shape_oddStep hsh ho
  subst hib
  simp only [List.nil_append] at ho
  obtain ⟨x, hx⟩ := isOddStep_singleton ho
  obtain ⟨k, c, h1, h2, h3, h4⟩ := addsOf_singleton _ _ hx
  rw [hx, h1] at ho
  obtain ⟨hk, hodd⟩ := isOddStep_add ho
  subst hk
  refine ⟨rfl, hm, hs, c, hodd, ?_⟩
  intro a
  rw [← pend_bsorted hwf]
  have hn := nodup_keys_bsorted hwf
  by_cases ha : a = par.shift
  · rw [ha]
    simp only [if_true]
    unfold pend
    rw [(bget_eq_some_iff hn par.shift c).mpr h3]; rfl
  · simp only [ha, if_false]
    unfold pend
    cases hg : bget (bsorted fb.buff) a with
    | none => rfl
    | some c' =>
      have hm' := (bget_eq_some_iff hn a c').mp hg
      by_cases hc' : c' = 0#w
      · subst hc'; rfl
      · exact absurd (h4 a c' hm' hc').1 ha

/-! ### Bodies without I/O and loops -/

def Pure : Prog → Prop
  | .nil => True
  | .cmd op r => (op = .inc ∨ op = .dec ∨ op = .left ∨ op = .right) ∧ Pure r
  | .loop _ _ => False

theorem pure_of_comp_nil (q : Prog) : ∀ f : Fr w, (comp q f).1 = [] → Pure q := by
  induction q with
  | nil => intro f _; trivial
  | cmd op r ih =>
    intro f h
    simp only [comp, List.append_eq_nil_iff] at h
    refine ⟨?_, ih _ h.2⟩
    cases op <;> simp [compOp] at h ⊢
  | loop b r _ _ =>
    intro f h
    simp only [comp, List.append_eq_nil_iff] at h
    exact absurd h.1 (closeI_ne_nil _ _ _)

def Prog.size : Prog → Nat
  | .nil => 0
  | .cmd _ r => Prog.size r + 1
  | .loop b r => Prog.size b + Prog.size r + 1

end C01
end Hpbf
