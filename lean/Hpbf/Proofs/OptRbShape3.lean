/-
Rebuild-round proofs: the recorded analysis tree matches the emitted nested blocks, part 3: `inline`, `loopOrIf`,
`loopInsideIf`, `finishLoop`, the full induction, `optimizeOnce_shape` and the static conditions of dead store
elimination for the result of a round.
-/
import Hpbf.Proofs.OptRbShape2

namespace Hpbf
namespace OptProof
open Opt OptSem Ir

variable {w : Nat}

theorem ShapeSt.forgetParent {s : Rebuild w} (h : ShapeSt s) : ShapeSt (forgetParent s) :=
  h.of_same rfl rfl rfl

/-! ### `inline` -/

theorem inlineRest_pstep {s : Rebuild w} {ps : List (Rebuild w)} {sub : Rebuild w} {os os' : Orders}
    {s' : Rebuild w} (hr : (inlineRest s ps sub).run os = .ok (s', os')) (hwf : Wf s)
    (hsh : ShapeSt sub) (hss : s.subShift = false → sub.subShift = false) : PStep s s' := by
  unfold inlineRest at hr
  dsimp only at hr
  rw [run_bind_ok] at hr
  obtain ⟨s2, os2, h5, h6⟩ := hr
  have hf : ∀ (acc : Rebuild w × List (Int × Bool)) (vk : Int × OptWrite w),
      ((fun (acc : Rebuild w × List (Int × Bool)) (vk : Int × OptWrite w) =>
        if vk.2.isMaybe then (acc.1, acc.2 ++ [(vk.1, true)])
        else ((removePending acc.1 vk.1).1, acc.2 ++ [(vk.1, false)])) acc vk).1 = acc.1 ∨
      ∃ k, ((fun (acc : Rebuild w × List (Int × Bool)) (vk : Int × OptWrite w) =>
        if vk.2.isMaybe then (acc.1, acc.2 ++ [(vk.1, true)])
        else ((removePending acc.1 vk.1).1, acc.2 ++ [(vk.1, false)])) acc vk).1
          = (removePending acc.1 k).1 := by
    intro acc x
    dsimp only
    split
    · exact Or.inl rfl
    · exact Or.inr ⟨_, rfl⟩
  have n1 := foldl_remove_nstep _ hf sub.written (s, []) (NStep.refl hwf)
  have n2 : NStep s s2 := n1.trans (clobberAll_nstep ps _ h5 n1.wf)
  obtain ⟨new2, e2, g2⟩ := n2.insts
  -- the state after the splice and `writtenCalcs`
  have hw3 := (writtenCalcs_eq ({ s2 with insts := s2.insts ++ sub.insts } : Rebuild w) ps
      (sub.written.filterMap (fun vk =>
        match vk.2 with
        | .known e => some (vk.1, e)
        | _ => none))).1
  have hwf3 : Wf (writtenCalcs ({ s2 with insts := s2.insts ++ sub.insts } : Rebuild w) ps
      (sub.written.filterMap (fun vk =>
        match vk.2 with
        | .known e => some (vk.1, e)
        | _ => none))) := writtenCalcs_wf (n2.wf.pushInsts _) ps _
  generalize writtenCalcs ({ s2 with insts := s2.insts ++ sub.insts } : Rebuild w) ps
      (sub.written.filterMap (fun vk =>
        match vk.2 with
        | .known e => some (vk.1, e)
        | _ => none)) = s3 at hw3 hwf3 h6
  have i3 : s3.insts = s.insts ++ (new2 ++ sub.insts) := by
    rw [hw3.2.2.2.2.2.2.2.2.2.1]
    show s2.insts ++ sub.insts = _
    rw [e2, List.append_assoc]
  have a3 : s3.subAnal = s.subAnal := by
    rw [hw3.2.2.2.2.2.2.2.2.2.2]
    exact n2.subAnal
  have b3 : s3.subShift = false → s.subShift = false := by
    intro h
    rw [hw3.2.2.2.2.1] at h
    exact n2.sub h
  have hmid : ShapeL (new2 ++ sub.insts) sub.subAnal := by
    have := shapeL_append (shapeL_nonblocks g2) hsh.shape
    simpa using this
  split at h6
  · rw [run_bind_ok] at h6
    obtain ⟨s4, os3, h7, h8⟩ := h6
    rw [run_pure] at h7
    cases h7
    rw [run_pure] at h8
    cases h8
    refine ⟨b3, new2 ++ sub.insts, sub.subAnal, i3, ?_, hmid, ?_⟩
    · show s3.subAnal ++ sub.subAnal = _
      rw [a3]
    · intro hc
      exact hsh.noShift (hss (b3 hc))
  · rw [run_bind_ok] at h6
    obtain ⟨pend, os4, h9, h10⟩ := h6
    rw [run_bind_ok] at h10
    obtain ⟨s4, os5, h11, h12⟩ := h10
    rw [run_bind_ok] at h12
    obtain ⟨s5, os6, h13, h14⟩ := h12
    rw [run_pure] at h13
    cases h13
    rw [run_pure] at h14
    cases h14
    have n4 := performAll_nstep h11 hwf3
    obtain ⟨new4, e4, g4⟩ := n4.insts
    have b4 : s4.subShift = false → s.subShift = false := fun h => b3 (n4.sub h)
    refine ⟨b4, (new2 ++ sub.insts) ++ new4, sub.subAnal, ?_, ?_, ?_, ?_⟩
    · show s4.insts = _
      rw [e4, i3, List.append_assoc]
    · show s4.subAnal ++ sub.subAnal = _
      rw [n4.subAnal, a3]
    · have := shapeL_append hmid (shapeL_nonblocks g4)
      simpa using this
    · intro hc
      exact hsh.noShift (hss (b4 hc))

/-- **`inline`**: the child's code and nodes are spliced in. -/
theorem inline_pstep {s : Rebuild w} {ps : List (Rebuild w)} {sub : Rebuild w} {os os' : Orders}
    {s' : Rebuild w} (hr : (Opt.inline s ps sub).run os = .ok (s', os')) (hwf : Wf s)
    (hsh : ShapeSt sub) : PStep s s' := by
  rw [inline_eq] at hr
  split at hr
  · rw [run_bind_ok] at hr
    obtain ⟨s1, os1, h1, h2⟩ := hr
    rw [run_bind_ok] at h2
    obtain ⟨s2, os2, h3, h4⟩ := h2
    rw [run_pure] at h3
    cases h3
    have n1 := (emitAll_nstep ps _ h1 hwf).uncertainShift
    exact n1.pstep.trans (inlineRest_pstep h4 n1.wf hsh (fun h => by simp [uncertainShift] at h))
  · rename_i hns
    rw [run_bind_ok] at hr
    obtain ⟨s1, os1, h1, h2⟩ := hr
    have n1 := emitReadAll_nstep ps _ h1 hwf
    exact n1.pstep.trans (inlineRest_pstep h2 n1.wf hsh (fun _ => by simpa using hns))

/-! ### `loopOrIf` -/

theorem clobberPhase_nstep {s : Rebuild w} {ps : List (Rebuild w)} {sub : Rebuild w} {L : OptLoop w}
    {C : List Int} {os os' : Orders} {s' : Rebuild w}
    (hr : (clobberPhase s ps sub L C).run os = .ok (s', os')) (hwf : Wf s) : NStep s s' := by
  unfold clobberPhase at hr
  split at hr
  · dsimp only at hr
    have hf : ∀ (acc : Rebuild w × List (Int × Bool)) (vk : Int × OptWrite w),
        ((fun (acc : Rebuild w × List (Int × Bool)) (vk : Int × OptWrite w) =>
          if !C.contains vk.1 then
            if vk.2.isMaybe || !L.atLeastOnce then (acc.1, acc.2 ++ [(vk.1, true)])
            else ((removePending acc.1 vk.1).1, acc.2 ++ [(vk.1, false)])
          else acc) acc vk).1 = acc.1 ∨
        ∃ k, ((fun (acc : Rebuild w × List (Int × Bool)) (vk : Int × OptWrite w) =>
          if !C.contains vk.1 then
            if vk.2.isMaybe || !L.atLeastOnce then (acc.1, acc.2 ++ [(vk.1, true)])
            else ((removePending acc.1 vk.1).1, acc.2 ++ [(vk.1, false)])
          else acc) acc vk).1 = (removePending acc.1 k).1 := by
      intro acc x
      dsimp only
      split
      · split
        · exact Or.inl rfl
        · exact Or.inr ⟨_, rfl⟩
      · exact Or.inl rfl
    have n1 := foldl_remove_nstep _ hf sub.written (s, []) (NStep.refl hwf)
    exact n1.trans (clobberAll_nstep ps _ hr n1.wf)
  · rw [run_pure] at hr
    cases hr
    exact NStep.refl hwf

theorem condZero_nstep {s s1 : Rebuild w} (h : NStep s s1) (sub : Rebuild w) (cond : Int) :
    NStep s (condZero s1 sub cond) := by
  unfold condZero
  split
  · split
    · exact h.insertWritten _ _
    · exact h
  · exact h

/-- The parent's part of `loopOrIf` before the instruction is pushed. -/
theorem loopPrep_nstep {s : Rebuild w} {ps : List (Rebuild w)} {sub : Rebuild w} {cond : Int}
    {L : OptLoop w} {C : List Int} {os os' : Orders} {r : Rebuild w × Rebuild w × List Int}
    (hr : (loopPrep s ps sub cond L C).run os = .ok (r, os')) (hwf : Wf s) :
    NStep s r.1 ∧ r.2.1.insts = sub.insts ∧ r.2.1.subAnal = sub.subAnal ∧ r.2.1.shift = sub.shift ∧
    ((sub.subShift || sub.shift != s.shift) = true → r.1.subShift = true) := by
  unfold loopPrep at hr
  split at hr
  · rw [run_bind_ok] at hr
    obtain ⟨s1, os1, h1, h2⟩ := hr
    rw [run_pure] at h2
    cases h2
    exact ⟨(emitAll_nstep ps _ h1 hwf).uncertainShift, rfl, rfl, rfl, fun _ => rfl⟩
  · rename_i hns
    dsimp only at hr
    rw [run_bind_ok] at hr
    obtain ⟨s1, os1, h1, h2⟩ := hr
    rw [run_bind_ok] at h2
    obtain ⟨s2, os2, h3, h4⟩ := h2
    rw [run_bind_ok] at h4
    obtain ⟨s3, os3, h5, h6⟩ := h4
    rw [run_pure] at h6
    cases h6
    have r1 := emitReadAll_nstep ps _ h1 hwf
    have r2 := r1.trans (emitReadAll_nstep ps _ h3 r1.wf)
    have r3 := r2.trans (clobberPhase_nstep h5 r2.wf)
    exact ⟨condZero_nstep r3 _ _, rfl, rfl, rfl, fun h => absurd h hns⟩

theorem loopTail_shapeFields (s1 sub : Rebuild w) (cond : Int) (isLoop : Bool) (L : OptLoop w) (hasShift : Bool)
    (clobbered : List Int) :
    (loopTail s1 sub cond isLoop L hasShift clobbered).insts =
      s1.insts ++ [if isLoop then Ir.Instr.loop cond (sub.shift - s1.shift) sub.insts L.atLeastOnce
                   else Ir.Instr.ifnz cond (sub.shift - s1.shift) sub.insts] ∧
    (loopTail s1 sub cond isLoop L hasShift clobbered).subAnal =
      s1.subAnal ++ [OptAnalysis.mk L hasShift sub.reads clobbered sub.subAnal] ∧
    (loopTail s1 sub cond isLoop L hasShift clobbered).subShift = s1.subShift := by
  cases isLoop <;> by_cases hn : L.noContinue = true <;> simp [loopTail, hn, insertWritten]

/-- **`loopOrIf`**: a `loop` is pushed for an analysis with `atMostOnce = false`, an `ifnz` for one with
`atLeastOnce = false`. -/
theorem loopOrIf_pstep {s : Rebuild w} {ps : List (Rebuild w)} {sub : Rebuild w} {cond : Int}
    {isLoop : Bool} {L : OptLoop w} {C : List Int} {os os' : Orders} {s' : Rebuild w}
    (hr : (loopOrIf s ps sub cond isLoop L C).run os = .ok (s', os')) (hwf : Wf s) (hwsub : Wf sub)
    (hsh : ShapeSt sub) (hflag : if isLoop then L.atMostOnce = false else L.atLeastOnce = false) :
    PStep s s' := by
  obtain ⟨sub1, os1, r, h1, h2, rfl⟩ := loopOrIf_run hr
  have hsh1 : ShapeSt sub1 := by
    split at h1
    · exact (emitAll_nstep [] _ h1 hwsub).shapeSt hsh
    · rw [run_pure] at h1
      cases h1
      exact hsh
  obtain ⟨n, ei, ea, es, hss⟩ := loopPrep_nstep h2 hwf
  obtain ⟨f1, f2, f3⟩ := loopTail_shapeFields r.1 r.2.1 cond isLoop L (sub1.subShift || sub1.shift != s.shift) r.2.2
  have hnode : (sub1.subShift || sub1.shift != s.shift) = false →
      r.2.1.shift - r.1.shift = 0 ∧ ∀ a ∈ r.2.1.subAnal, a.hasShift = false := by
    intro h
    simp only [Bool.or_eq_false_iff, bne_eq_false_iff_eq] at h
    refine ⟨by rw [es, n.shift, h.2]; omega, ?_⟩
    rw [ea]
    exact hsh1.noShift h.1
  have hbody : ShapeL r.2.1.insts r.2.1.subAnal := by rw [ei, ea]; exact hsh1.shape
  have hI : ShapeI (if isLoop then Ir.Instr.loop cond (r.2.1.shift - r.1.shift) r.2.1.insts L.atLeastOnce
      else Ir.Instr.ifnz cond (r.2.1.shift - r.1.shift) r.2.1.insts)
      (OptAnalysis.mk L (sub1.subShift || sub1.shift != s.shift) r.2.1.reads r.2.2 r.2.1.subAnal) := by
    cases isLoop with
    | true =>
      simp only [if_true] at hflag ⊢
      rw [ShapeI]
      exact ⟨rfl, hflag, hnode, hbody⟩
    | false =>
      simp only [Bool.false_eq_true, if_false] at hflag ⊢
      rw [ShapeI]
      exact ⟨hflag, hnode, hbody⟩
  have p2 : PStep r.1 (loopTail r.1 r.2.1 cond isLoop L (sub1.subShift || sub1.shift != s.shift) r.2.2) := by
    refine ⟨fun h => by rw [f3] at h; exact h, _, _, f1, f2, shapeL_single hI, ?_⟩
    intro hc a ha
    simp only [List.mem_singleton] at ha
    subst ha
    rw [f3] at hc
    cases hh : (sub1.subShift || sub1.shift != s.shift) with
    | false => rfl
    | true => rw [hss hh] at hc; cases hc
  exact n.pstep.trans p2

/-! ### `loopInsideIf` -/

theorem loopInsideIf_pstep {s : Rebuild w} {ps : List (Rebuild w)} {sub : Rebuild w} {cond : Int}
    {L : OptLoop w} {after : List (Int × Expr w)} {C : List Int} {os os' : Orders} {s' : Rebuild w}
    (hr : (loopInsideIf s ps sub cond L after C).run os = .ok (s', os')) (hwf : Wf s) (hc : CanonSt s)
    (hsub : Child sub) (hsh : ShapeSt sub) : PStep s s' := by
  unfold loopInsideIf at hr
  dsimp only at hr
  split at hr
  · rw [run_bind_ok] at hr
    obtain ⟨s1, os1, h1, h2⟩ := hr
    have c1 := inline_canon h1 hwf hc hsub
    exact (inline_pstep h1 hwf hsh).trans (performAll_nstep h2 c1.wf).pstep
  · rename_i hamo
    split at hr
    · rw [run_bind_ok] at hr
      obtain ⟨s1, os1, h1, h2⟩ := hr
      have r1 := performAll_nstep h1 hwf
      exact (r1.trans (performAll_nstep h2 r1.wf)).pstep
    · rw [run_bind_ok] at hr
      obtain ⟨s1, os1, h1, h2⟩ := hr
      have c1 := loopOrIf_canon h1 hwf hc hsub
      have p1 := loopOrIf_pstep h1 hwf hsub.wf hsh (by simpa using hamo)
      exact p1.trans (performAll_nstep h2 c1.wf).pstep

/-! ### `finishLoop` -/

theorem finishMotionK_run_n {s : Rebuild w} {ps : List (Rebuild w)} {sub : Rebuild w} {cond : Int}
    {L : OptLoop w} {k : MidRes w → M (Rebuild w)} {os os' : Orders} {s' : Rebuild w}
    (hr : (finishMotionK s ps sub cond L k).run os = .ok (s', os')) (hsub : Child sub) (hL : LoopCanon L) :
    ∃ (r : MidRes w) (os1 : Orders), Child r.1 ∧ NStep sub r.1 ∧ CanonCalcs r.2.1 ∧ CanonCalcs r.2.2.1 ∧
      (k r).run os1 = .ok (s', os') := by
  unfold finishMotionK at hr
  dsimp only at hr
  rw [run_bind_ok] at hr
  obtain ⟨constant, os1, _, h2⟩ := hr
  rw [run_bind_ok] at h2
  obtain ⟨⟨sub1, B, D, A⟩, os2, h3, h4⟩ := h2
  dsimp only at h4
  rw [run_bind_ok] at h4
  obtain ⟨sub2, os3, h5, h6⟩ := h4
  rw [run_bind_ok] at h6
  obtain ⟨x, os4, h7, h8⟩ := h6
  rw [run_pure] at h7
  cases h7
  have hinv : MotionInv (sub1, B, D, A) ∧ NStep sub sub1 := by
    refine foldlM_inv (fun acc _ => MotionInv acc ∧ NStep sub acc.1) _ (pendingSorted sub sub) ?_
      (b := (sub, [], [], [])) (os := os1) ?_ h3
    · intro acc x os acc' os' _ hi hstep
      refine ⟨motionStepM_canon (fun v l h => linearAmong_canon_get hsub.canon _ _ h) hL hi.1 hstep, ?_⟩
      obtain ⟨sb, B0, D0, A0⟩ := acc
      obtain ⟨_, sub', p, b, d, a, hrm, _, hres⟩ :=
        OptLoop.motionStepM_ok s ps _ _ _ _ L sb B0 D0 A0 x os os' acc' hstep
      subst hres
      have e1 : sub' = (removePending sb x).1 := by rw [hrm]
      show NStep sub sub'
      rw [e1]
      exact hi.2.removePending x
    · exact ⟨⟨hsub, canonCalcs_nil, canonCalcs_nil, canonCalcs_nil⟩, NStep.refl hsub.wf⟩
  obtain ⟨⟨hch, hB, hD, hA⟩, hk⟩ := hinv
  exact ⟨(sub2, B, A, constant), os3, hch.step (performAll_canon h5 hch.wf hch.canon hD),
    hk.trans (performAll_nstep h5 hch.wf), hB, hA, h8⟩

theorem finishEnd_pstep {s : Rebuild w} {ps : List (Rebuild w)} {cond : Int} {L : OptLoop w}
    {r : MidRes w} {os os' : Orders} {s' : Rebuild w}
    (hr : (finishEnd s ps cond L r).run os = .ok (s', os')) (hwf : Wf s) (hc : CanonSt s)
    (hsub : Child r.1) (hsh : ShapeSt r.1) (hbefore : CanonCalcs r.2.1) (hafter : CanonCalcs r.2.2.1) :
    PStep s s' := by
  obtain ⟨sub, before, after, constant⟩ := r
  unfold finishEnd at hr
  dsimp only at hr
  rw [run_bind_ok] at hr
  obtain ⟨s1, os1, h1, h2⟩ := hr
  have c1 := performAll_canon h1 hwf hc hbefore
  have n1 := performAll_nstep h1 hwf
  split at h2
  · exact n1.pstep.trans (loopInsideIf_pstep h2 c1.wf c1.canon hsub.forgetParent hsh.forgetParent)
  · rename_i hcond
    rw [run_bind_ok] at h2
    obtain ⟨ifS, os2, h3, h4⟩ := h2
    have c2 := loopInsideIf_canon h3 (wf_new _ _ _ _) (canonSt_new _ _ _ _) hsub.forgetParent hafter
    have p2 := loopInsideIf_pstep h3 (wf_new _ _ _ _) (canonSt_new _ _ _ _) hsub.forgetParent hsh.forgetParent
    have hif : ShapeSt ifS := p2.shapeSt (shapeSt_new _ _ _ _)
    have hal : L.atLeastOnce = false := by
      cases h : L.atLeastOnce with
      | false => rfl
      | true => exact absurd (by rw [h]; rfl) hcond
    exact n1.pstep.trans (loopOrIf_pstep h4 c1.wf c2.wf hif (by simpa [OptLoop.toAtMostOnce] using hal))

/-- **`finishLoop`**. -/
theorem finishLoop_pstep {s : Rebuild w} {ps : List (Rebuild w)} {sub : Rebuild w} {cond : Int}
    {isLoop : Bool} {os os' : Orders} {s' : Rebuild w}
    (hr : (finishLoop s ps sub cond isLoop).run os = .ok (s', os')) (hwf : Wf s) (hc : CanonSt s)
    (hsub : Child sub) (hsh : ShapeSt sub) : PStep s s' := by
  rw [finishLoop_cut] at hr
  split at hr
  · rw [run_pure] at hr
    cases hr
    exact PStep.refl s
  · split at hr
    · rw [run_bind_ok] at hr
      obtain ⟨x, os1, h1, h2⟩ := hr
      rw [run_pure] at h1
      cases h1
      exact finishEnd_pstep h2 hwf hc hsub hsh canonCalcs_nil canonCalcs_nil
    · obtain ⟨r, os1, a, nn, b, c, h2⟩ := finishMotionK_run_n hr hsub
        (fun e he => analyzeLoop_canon s ps sub cond isLoop he)
      exact finishEnd_pstep h2 hwf hc a (nn.shapeSt hsh) b c

/-! ### the full induction -/

/-- The statement for instruction lists. -/
def ListStmtP (l : List (Instr w)) : Prop :=
  ∀ (ps : List (Rebuild w)) (s : Rebuild w) (os os' : Orders) (s' : Rebuild w) (done : Bool),
    (rebuildInsts ps s l).run os = .ok ((s', done), os') → Wf s → CanonSt s → CanonL l → PStep s s'

theorem rebuildBlockArm_pstep {ps : List (Rebuild w)} {s : Rebuild w} {cond shift : Int}
    {body : List (Instr w)} (isLoop : Bool) (hbody : ListStmtP body) (hcb : CanonL body)
    {os os' : Orders} {s' : Rebuild w}
    (hr : ((do
      let cond := cond + s.shift
      let (s, subAnal) := popSubAnal s
      let sub : Rebuild w := reverseSubBlocks (Rebuild.new s.shift (some cond) .parent subAnal)
      let (sub, completed) ← rebuildInsts (s :: ps) sub body
      let sub := if completed then { sub with shift := sub.shift + shift } else sub
      finishLoop s ps sub cond isLoop) : M (Rebuild w)).run os = .ok (s', os'))
    (hwf : Wf s) (hc : CanonSt s) : PStep s s' := by
  have r0 := popSubAnal_cstep hwf hc
  have k0 : PStep s (popSubAnal s).1 := by
    unfold popSubAnal
    split
    · split
      · exact PStep.of_same rfl rfl rfl
      · exact PStep.refl s
    · exact PStep.refl s
  rcases hps : popSubAnal s with ⟨s1, sa⟩
  rw [hps] at hr r0 k0
  dsimp only at hr r0 k0
  rw [run_bind_ok] at hr
  obtain ⟨⟨sub, completed⟩, os1, h1, h2⟩ := hr
  dsimp only at h2
  have hch0 : Child (reverseSubBlocks (Rebuild.new s1.shift (some (cond + s.shift)) .parent sa)) :=
    (child_new _ _ _ _).reverseSubBlocks
  have hs0 : ShapeSt (reverseSubBlocks (Rebuild.new s1.shift (some (cond + s.shift)) .parent sa)) := by
    obtain ⟨_, _, _, f4, _, _, _, _, _, f10, f11⟩ :=
      reverseSubBlocks_fields (Rebuild.new s1.shift (some (cond + s.shift)) .parent sa : Rebuild w)
    exact (shapeSt_new _ _ _ _).of_same f10 f11 f4
  have hch : Child sub := hch0.step (rebuildInsts_cstep_all body h1 hch0.wf hch0.canon hcb)
  have hsh : ShapeSt sub := (hbody _ _ _ _ _ _ h1 hch0.wf hch0.canon hcb).shapeSt hs0
  have hch' : Child (if completed = true then { sub with shift := sub.shift + shift } else sub) := by
    split
    · exact hch.of_fields rfl rfl rfl rfl
    · exact hch
  have hsh' : ShapeSt (if completed = true then { sub with shift := sub.shift + shift } else sub) := by
    split
    · exact hsh.of_same rfl rfl rfl
    · exact hsh
  exact k0.trans (finishLoop_pstep h2 r0.wf r0.canon hch' hsh')

theorem rebuildInstr_pstep_of_lists (n : Nat) (IH : ∀ l : List (Instr w), sizeL l ≤ n → ListStmtP l)
    (i : Instr w) (hi : sizeI i ≤ n + 1) {ps : List (Rebuild w)} {s : Rebuild w} {os os' : Orders}
    {s' : Rebuild w} (hr : (rebuildInstr ps s i).run os = .ok (s', os')) (hwf : Wf s) (hc : CanonSt s)
    (hci : CanonL [i]) : PStep s s' := by
  cases i with
  | output src => exact (rebuildInstr_nstep hr hwf rfl).pstep
  | input dst => exact (rebuildInstr_nstep hr hwf rfl).pstep
  | «calc» calcs => exact (rebuildInstr_nstep hr hwf rfl).pstep
  | loop c sh body o =>
    rw [sizeI] at hi
    rw [rebuildInstr] at hr
    exact rebuildBlockArm_pstep true (IH body (by omega)) (canonL_loop.1 hci) hr hwf hc
  | ifnz c sh body =>
    rw [sizeI] at hi
    rw [rebuildInstr] at hr
    exact rebuildBlockArm_pstep false (IH body (by omega)) (canonL_ifnz.1 hci) hr hwf hc

theorem rebuildInsts_pstep_size (n : Nat) : ∀ l : List (Instr w), sizeL l ≤ n → ListStmtP l := by
  induction n with
  | zero =>
    intro l hl ps s os os' s' done hr hwf hc _
    cases l with
    | nil =>
      rw [rebuildInsts, run_pure] at hr
      cases hr
      exact PStep.refl s
    | cons i rest =>
      rw [sizeL] at hl
      have := sizeI_pos i
      omega
  | succ n ih =>
    intro l hl
    induction l with
    | nil =>
      intro ps s os os' s' done hr hwf hc _
      rw [rebuildInsts, run_pure] at hr
      cases hr
      exact PStep.refl s
    | cons i rest ihl =>
      intro ps s os os' s' done hr hwf hc hcl
      rw [sizeL] at hl
      have hpos := sizeI_pos i
      rw [canonL_cons] at hcl
      rw [rebuildInsts] at hr
      split at hr
      · rw [run_pure] at hr
        cases hr
        exact PStep.refl s
      · rw [run_bind_ok] at hr
        obtain ⟨s1, os1, h1, h2⟩ := hr
        have hci : CanonL [i] := canonL_single.2 hcl.1
        have c1 := rebuildInstr_cstep_all i h1 hwf hc hci
        have r1 := rebuildInstr_pstep_of_lists n ih i (by omega) h1 hwf hc hci
        exact r1.trans (ihl (by omega) ps s1 os1 os' s' done h2 c1.wf c1.canon hcl.2)

/-- **All of `rebuildInsts`**: code and nodes are appended together. -/
theorem rebuildInsts_pstep_all {ps : List (Rebuild w)} (l : List (Instr w)) {s : Rebuild w}
    {os os' : Orders} {s' : Rebuild w} {done : Bool}
    (hr : (rebuildInsts ps s l).run os = .ok ((s', done), os')) (hwf : Wf s) (hc : CanonSt s)
    (hcl : CanonL l) : PStep s s' :=
  rebuildInsts_pstep_size (sizeL l) l (Nat.le_refl _) ps s os os' s' done hr hwf hc hcl

/-- **All of `rebuildInstr`**. -/
theorem rebuildInstr_pstep_all {ps : List (Rebuild w)} {s : Rebuild w} (i : Instr w) {os os' : Orders}
    {s' : Rebuild w} (hr : (rebuildInstr ps s i).run os = .ok (s', os')) (hwf : Wf s) (hc : CanonSt s)
    (hci : CanonL [i]) : PStep s s' :=
  rebuildInstr_pstep_of_lists (sizeI i) (fun l hl => rebuildInsts_pstep_size _ l hl) i (by omega) hr hwf hc hci

theorem rebuildInsts_shapeSt {ps : List (Rebuild w)} (l : List (Instr w)) {s : Rebuild w}
    {os os' : Orders} {s' : Rebuild w} {done : Bool}
    (hr : (rebuildInsts ps s l).run os = .ok ((s', done), os')) (hwf : Wf s) (hc : CanonSt s)
    (hcl : CanonL l) (hs : ShapeSt s) : ShapeSt s' :=
  (rebuildInsts_pstep_all l hr hwf hc hcl).shapeSt hs

theorem rebuildBlock_pstep {ps : List (Rebuild w)} {s : Rebuild w} {b : Block w} {os os' : Orders}
    {s' : Rebuild w} (hr : (rebuildBlock ps s b).run os = .ok (s', os')) (hwf : Wf s) (hc : CanonSt s)
    (hcl : CanonL b.insts) : PStep s s' := by
  unfold rebuildBlock at hr
  rw [run_bind_ok] at hr
  obtain ⟨⟨s1, done⟩, os1, h1, h2⟩ := hr
  rw [run_pure] at h2
  cases h2
  have r0 := reverseSubBlocks_cstep hwf hc
  obtain ⟨_, _, _, f4, _, _, _, _, _, f10, f11⟩ := reverseSubBlocks_fields s
  have p0 : PStep s (reverseSubBlocks s) := PStep.of_same f10 f11 f4
  have p1 := p0.trans (rebuildInsts_pstep_all b.insts h1 r0.wf r0.canon hcl)
  split
  · exact p1.trans (PStep.of_same rfl rfl rfl)
  · exact p1

/-! ### one optimizer round -/

/-- **The analysis a round records fits the code it emits.** -/
theorem optimizeOnce_shape {b : Block w} {prevAnal : OptAnalysis w} {os os' : Orders} {b' : Block w}
    {anal' : OptAnalysis w} (hr : (optimizeOnce b prevAnal).run os = .ok ((b', anal'), os'))
    (hcl : CanonL b.insts) : ShapeL b'.insts anal'.subBlocks := by
  unfold optimizeOnce at hr
  rw [run_bind_ok] at hr
  obtain ⟨st, os1, h1, h2⟩ := hr
  rw [run_pure] at h2
  cases h2
  have p := rebuildBlock_pstep h1 (wf_new _ _ _ _) (canonSt_new _ _ _ _) hcl
  exact (p.shapeSt (shapeSt_new _ _ _ _)).shape

/-- … hence every nested block of the result has its analysis node, -/
theorem optimizeOnce_shapeOk {b : Block w} {prevAnal : OptAnalysis w} {os os' : Orders} {b' : Block w}
    {anal' : OptAnalysis w} (hr : (optimizeOnce b prevAnal).run os = .ok ((b', anal'), os'))
    (hcl : CanonL b.insts) : C01Dse.ShapeOk b' anal'.toDAnal :=
  shapeOk_of_shapeL (optimizeOnce_shape hr hcl)

/-- … and `has_shift = false` is syntactically right. -/
theorem optimizeOnce_shiftFact {b : Block w} {prevAnal : OptAnalysis w} {os os' : Orders} {b' : Block w}
    {anal' : OptAnalysis w} (hr : (optimizeOnce b prevAnal).run os = .ok ((b', anal'), os'))
    (hcl : CanonL b.insts) : C01Dse.ShiftFact b' anal'.toDAnal :=
  shiftFact_of_shapeL (optimizeOnce_shape hr hcl)

#print axioms optimizeOnce_shape
#print axioms optimizeOnce_shapeOk
#print axioms optimizeOnce_shiftFact
#print axioms shapeL_lookup

end OptProof
end Hpbf
