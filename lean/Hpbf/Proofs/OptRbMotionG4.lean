/-
Rebuild-round proofs: `MAtG` = `MAt` (`OptRbMotion4.lean`) with the weaker head-guard field
`hGcH : ∀ k σk, Head … k σk → (L.atMostOnce = true → k = 0) → σk.rd cS ≠ 0#w → Gc σk`, and copies of `MAt.exit`,
`MAt.exit0`, `MAt.core`, `MAt.sim` for it.  `QM` and the `Sim` lemmas are reused.
-/
import Hpbf.Proofs.OptRbMotionG3

namespace Hpbf
namespace OptProof
open Opt OptSem Ir

variable {w : Nat}

/-- Everything that is known when the loop-motion phase is looked at from one source state `σS`. -/
structure MAtG (Gc : State w → Prop) (shP shC shS cS : Int) (bodyS : List (Instr w)) (isLoop oS : Bool)
    (s : Rebuild w) (ps : List (Rebuild w)) (sub0 sub sub1 : Rebuild w) (L : OptLoop w) (C : List Int)
    (B D A : List (Int × Expr w)) (os os' : Orders) (M0 : Mem w) (σE σS τ0 : State w) : Prop where
  md : MotionData s ps sub sub1 (cS + shP) L C B D A os os'
  hc : BalChild Gc shP shC shS cS bodyS s ps sub0 sub
  hGcH : ∀ k σk, Head cS shS bodyS σS k σk → (L.atMostOnce = true → k = 0) → σk.rd cS ≠ 0#w → Gc σk
  hrel : RelAt shP s ps M0 σE σS
  hτ0 : τ0 = doCalc (σS.mov (-shP)) B
  facts : FactsAt isLoop cS shS bodyS oS L σS
  trip : ∀ n, Trip isLoop cS shS bodyS σS n →
    OptLoop.TripFacts L n (memE (σS.mov (-shP))) ∧ (L.atMostOnce = true → n ≤ 1) ∧
    (L.noEffect = true → n = 0)


theorem MAt.toG {Gc : State w → Prop} {shP shC shS cS : Int} {bodyS : List (Instr w)} {isLoop oS : Bool}
    {s : Rebuild w} {ps : List (Rebuild w)} {sub0 sub sub1 : Rebuild w} {L : OptLoop w} {C : List Int}
    {B D A : List (Int × Expr w)} {os os' : Orders} {M0 : Mem w} {σE σS τ0 : State w}
    (h : MAt Gc shP shC shS cS bodyS isLoop oS s ps sub0 sub sub1 L C B D A os os' M0 σE σS τ0) :
    MAtG Gc shP shC shS cS bodyS isLoop oS s ps sub0 sub sub1 L C B D A os os' M0 σE σS τ0 :=
  ⟨h.md, h.hc, fun k σk hh _ hne => h.hGcH k σk hh hne, h.hrel, h.hτ0, h.facts, h.trip⟩

section At
variable {Gc : State w → Prop} {shP shC shS cS : Int} {bodyS : List (Instr w)} {isLoop oS : Bool}
  {s : Rebuild w} {ps : List (Rebuild w)} {sub0 sub sub1 : Rebuild w} {L : OptLoop w} {C : List Int}
  {B D A : List (Int × Expr w)} {os os' : Orders} {M0 : Mem w} {σE σS τ0 : State w}

/-- After the rounds, `calc A` restores the memory of the real loop. -/
theorem MAtG.exit (h : MAtG Gc shP shC shS cS bodyS isLoop oS s ps sub0 sub sub1 L C B D A os os' M0 σE σS τ0)
    (hw : 0 < w) {n : Nat} {σ τ : State w} (hJ : MJ cS shS shP bodyS σS sub B D τ0 n σ τ)
    (ht : Trip isLoop cS shS bodyS σS n) (hn : 0 < n) : QM shP C σS σ (doCalc τ A) := by
  obtain ⟨m1, m2, m3⟩ := C01Dse.doCalc_meta τ A
  obtain ⟨t1, t2, t3⟩ := h.trip n ht
  obtain ⟨f1, _⟩ := h.md.full_at_g τ0 hw h.hc h.hGcH h.hrel hJ.hd t1 t2 t3
  obtain ⟨_, p2⟩ := h.md.prefix_at_g τ0 h.hc h.hGcH h.hrel hJ.hd t2
  obtain ⟨r1, _, r3⟩ := run_real_g D τ0 h.hc h.hGcH hJ.hd t2
  have hmem : memE (doCalc τ A) = memE (σ.mov (-shP)) := by
    rw [memE_doCalc _ _ h.md.nodup.2.2, hJ.mem, f1 hn, ← r1]
  refine ⟨by rw [m3]; exact hJ.tr.symm, by rw [m2]; exact hJ.env.symm, ?_, hmem.symm, ?_,
    by rw [m1, hJ.ptr]; exact r3⟩
  · rw [m1, hJ.ptr]
    show σ.ptr = σ.ptr + -shP + shP
    omega
  · intro c hc
    rw [hmem, r1]
    exact p2 n (Nat.le_refl n) c hc

/-- No round: `calc B` has changed nothing. -/
theorem MAtG.exit0 (h : MAtG Gc shP shC shS cS bodyS isLoop oS s ps sub0 sub sub1 L C B D A os os' M0 σE σS τ0)
    (hw : 0 < w) (hz : σS.rd cS = 0#w) : QM shP C σS σS τ0 := by
  have hJ : MJ cS shS shP bodyS σS sub B D τ0 0 σS τ0 := MJ.init h.md h.hτ0
  have ht : Trip isLoop cS shS bodyS σS 0 := by
    unfold Trip
    cases isLoop with
    | true => exact ⟨σS, Head.zero, hz⟩
    | false => exact Or.inl ⟨rfl, hz⟩
  obtain ⟨t1, t2, t3⟩ := h.trip 0 ht
  obtain ⟨_, f2⟩ := h.md.full_at_g τ0 hw h.hc h.hGcH h.hrel hJ.hd t1 t2 t3
  have hmem : memE τ0 = memE (σS.mov (-shP)) := by
    rw [hJ.mem]
    exact f2 rfl
  refine ⟨hJ.tr.symm, hJ.env.symm, ?_, hmem.symm, fun c _ => by rw [hmem], hJ.ptr⟩
  rw [hJ.ptr]
  show σS.ptr = σS.ptr + -shP + shP
  omega

/-- The core: the source block against `block₂; calc A`, when the block is entered. -/
theorem MAtG.core (h : MAtG Gc shP shC shS cS bodyS isLoop oS s ps sub0 sub sub1 L C B D A os os' M0 σE σS τ0)
    (hw : 0 < w) (hne : σS.rd cS ≠ 0#w) :
    Sim (QM shP C σS) [blockInstr isLoop cS shS bodyS oS]
      ([blockInstr (!L.atMostOnce) (cS + shP) 0 (sub.insts ++ [.calc D]) oS] ++ [.calc A]) σS τ0 := by
  have hJ0 : MJ cS shS shP bodyS σS sub B D τ0 0 σS τ0 := MJ.init h.md h.hτ0
  -- the final `calc A`
  have hfinal : ∀ n σ τ, MJ cS shS shP bodyS σS sub B D τ0 n σ τ → Trip isLoop cS shS bodyS σS n → 0 < n →
      Sim (QM shP C σS) [] [.calc A] σ τ := by
    intro n σ τ hJ ht hn
    obtain ⟨m1, m2, m3⟩ := C01Dse.doCalc_meta τ A
    refine Sim.of_atomic (atomic_calcs ([] : List (List (Int × Expr w)))) (atomic_calcs [A])
      hJ.tr rfl (m3.trans hJ.tr) (m2.trans hJ.env) ?_
    intro _
    exact h.exit hw hJ ht hn
  cases hamo : L.atMostOnce with
  | false =>
    -- a real loop, transformed into a loop
    have hil : isLoop = true := by
      cases hi : isLoop with
      | true => rfl
      | false => have := h.facts.ifamo hi; rw [hamo] at this; cases this
    subst hil
    have hk : ∀ k : Nat, L.atMostOnce = true → k = 0 := fun k hh => by rw [hamo] at hh; cases hh
    have hloop : Sim (fun σ τ => ∃ k, MJ cS shS shP bodyS σS sub B D τ0 k σ τ ∧ σ.rd cS = 0#w)
        [.loop cS shS bodyS oS] [.loop (cS + shP) 0 (sub.insts ++ [.calc D]) oS] σS τ0 := by
      refine Sim.loop (J := fun σ τ => ∃ k, MJ cS shS shP bodyS σS sub B D τ0 k σ τ) ?_ ?_ ?_ ?_ ⟨0, hJ0⟩
      · rintro σ τ ⟨k, hJ⟩
        rw [hJ.cond_agree_g h.md h.hc h.hGcH h.hrel (hk k)]
      · rintro σ τ ⟨k, hJ⟩; exact hJ.tr
      · rintro σ τ ⟨k, hJ⟩ hne'
        exact (hJ.round_g h.md h.hc h.hGcH h.hrel (hk k) hne').mono (fun a t hq => ⟨k + 1, hq⟩)
      · rintro σ τ ⟨k, hJ⟩ hz
        exact ⟨k, hJ, hz⟩
    have : Sim (QM shP C σS) ([.loop cS shS bodyS oS] ++ [])
        ([.loop (cS + shP) 0 (sub.insts ++ [.calc D]) oS] ++ [.calc A]) σS τ0 := by
      refine Sim.append hloop ?_
      rintro σ τ ⟨k, hJ, hz⟩
      have hk0 : 0 < k := by
        rcases Nat.eq_zero_or_pos k with h0 | h0
        · subst h0
          have := hJ.hd
          cases this
          exact absurd hz hne
        · exact h0
      exact hfinal k σ τ hJ ⟨σ, hJ.hd, hz⟩ hk0
    simpa [blockInstr] using this
  | true =>
    -- at most one round: the transformed block is an `if`
    have hτne : τ0.rd (cS + shP) ≠ 0#w := by
      rw [hJ0.cond_agree_g h.md h.hc h.hGcH h.hrel (fun _ => rfl)]; exact hne
    have hround := hJ0.round_g h.md h.hc h.hGcH h.hrel (fun _ => rfl) hne
    have hz : isLoop = true → ∀ σ1, Exec bodyS σS (.fin σ1) → (σ1.mov shS).rd cS = 0#w :=
      fun hi => h.facts.amo hamo hi hne
    have hfirst : Sim (fun σ τ => MJ cS shS shP bodyS σS sub B D τ0 1 σ τ ∧
          Trip isLoop cS shS bodyS σS 1)
        [blockInstr isLoop cS shS bodyS oS] [.ifnz (cS + shP) 0 (sub.insts ++ [.calc D])] σS τ0 := by
      refine Sim.src_block_once hne hz (Sim.tgt_ifnz_once hτne ?_)
      refine hround.fin_strengthen.mono ?_
      rintro a t ⟨hq, hexa, _⟩
      refine ⟨hq, ?_⟩
      unfold Trip
      cases hi : isLoop with
      | true => exact ⟨a.mov shS, Head.succ Head.zero hne hexa, hz hi a hexa⟩
      | false => exact Or.inr ⟨rfl, hne, a, hexa⟩
    have : Sim (QM shP C σS) ([blockInstr isLoop cS shS bodyS oS] ++ [])
        ([.ifnz (cS + shP) 0 (sub.insts ++ [.calc D])] ++ [.calc A]) σS τ0 := by
      refine Sim.append hfirst ?_
      rintro σ τ ⟨hJ, ht⟩
      exact hfinal 1 σ τ hJ ht (by omega)
    simpa [blockInstr] using this

/-- **The source block behaves like the program `finishEnd` is correct for.** -/
theorem MAtG.sim (h : MAtG Gc shP shC shS cS bodyS isLoop oS s ps sub0 sub sub1 L C B D A os os' M0 σE σS τ0)
    (hw : 0 < w) :
    Sim (QM shP C σS) [blockInstr isLoop cS shS bodyS oS]
      (endSrc (!L.atMostOnce) (cS + shP) 0 (sub.insts ++ [.calc D]) oS L B A) σS (σS.mov (-shP)) := by
  unfold endSrc
  have hcalc : ([Instr.calc B] : List (Instr w)) = [B].map Instr.calc := rfl
  rw [hcalc]
  refine Sim.calcs_right [B] ?_
  have e0 : [B].foldl doCalc (σS.mov (-shP)) = τ0 := h.hτ0.symm
  rw [e0]
  have hJ0 : MJ cS shS shP bodyS σS sub B D τ0 0 σS τ0 := MJ.init h.md h.hτ0
  have hcond0 := hJ0.cond_agree_g h.md h.hc h.hGcH h.hrel (fun _ => rfl)
  by_cases hz : σS.rd cS = 0#w
  · -- the block is skipped
    have hτz : τ0.rd (cS + shP) = 0#w := by rw [hcond0]; exact hz
    have hQ0 := h.exit0 hw hz
    split
    · rename_i hdir
      have hA : A = [] := by
        have hal : L.atLeastOnce = false := by
          cases ha : L.atLeastOnce with
          | false => rfl
          | true => exact absurd hz (h.facts.alo ha)
        rw [hal] at hdir
        simp only [Bool.false_or, Bool.and_eq_true, List.isEmpty_iff] at hdir
        exact hdir.2
      subst hA
      have : Sim (QM shP C σS) ([blockInstr isLoop cS shS bodyS oS] ++ [])
          ([blockInstr (!L.atMostOnce) (cS + shP) 0 (sub.insts ++ [.calc D]) oS] ++ [.calc []]) σS τ0 := by
        refine Sim.append (Sim.both_skip (Q := fun σ τ => σ = σS ∧ τ = τ0) hz hτz ⟨rfl, rfl⟩ hJ0.tr) ?_
        rintro σ τ ⟨rfl, rfl⟩
        refine Sim.of_atomic (atomic_calcs ([] : List (List (Int × Expr w))))
          (atomic_calcs ([[]] : List (List (Int × Expr w)))) hJ0.tr rfl hJ0.tr hJ0.env ?_
        intro _
        exact hQ0
      rwa [List.append_nil] at this
    · exact Sim.both_skip (isLoop' := false) (o' := oS) hz hτz hQ0 hJ0.tr
  · -- the block is entered
    have hτne : τ0.rd (cS + shP) ≠ 0#w := by rw [hcond0]; exact hz
    have hcore := h.core hw hz
    split
    · exact hcore
    · refine Sim.tgt_ifnz_once hτne (hcore.mono ?_)
      rintro a t ⟨q1, q2, q3, q4, q5, q6⟩
      refine ⟨q1, q2, ?_, ?_, ?_, ?_⟩
      · show a.ptr = t.ptr + 0 + shP
        rw [q3]; omega
      · rw [memE_mov0]; exact q4
      · intro c hc; rw [memE_mov0]; exact q5 c hc
      · show t.ptr + 0 = _
        rw [Int.add_zero]; exact q6

end At

end OptProof
end Hpbf
