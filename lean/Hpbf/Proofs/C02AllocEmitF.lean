/-
C02 (`allocate_temps`), part 20: loop back edges.  The bookkeeping of `outer_accessed` guarantees that a value
created before a loop and read inside it has its range extended to the end of the loop (`outerLoop`); values
created before the ENCLOSING loop as well stay in the list and are extended when that loop ends.
-/
import Hpbf.Proofs.C02AllocEmitR
set_option linter.unusedSimpArgs false

namespace Hpbf
namespace C02
namespace AEmit

open Bc BcWf BcGen C11 C02Emit

variable {w : Nat}

/-- `v` occurs in `outer_accessed` at an index `≥ lo`. -/
def InOA (oa : Array Nat) (lo : Nat) (v : Nat) : Prop := ∃ idx, lo ≤ idx ∧ oa[idx]? = some v

theorem InOA.mono {oa : Array Nat} {lo lo' v : Nat} (h : InOA oa lo v) (hl : lo' ≤ lo) : InOA oa lo' v := by
  obtain ⟨idx, h1, h2⟩ := h
  exact ⟨idx, by omega, h2⟩

theorem inOA_push {oa : Array Nat} {lo v x : Nat} :
    InOA (oa.push x) lo v ↔ InOA oa lo v ∨ (lo ≤ oa.size ∧ v = x) := by
  constructor
  · rintro ⟨idx, h1, h2⟩
    rcases getElem?_push_cases h2 with ⟨_, e⟩ | ⟨e, e'⟩
    · exact Or.inl ⟨idx, h1, e⟩
    · exact Or.inr ⟨by omega, e'⟩
  · rintro (⟨idx, h1, h2⟩ | ⟨h1, rfl⟩)
    · exact ⟨idx, h1, by rw [getElem?_push_lt' _ _ (Alloc.lt_of_getElem? h2)]; exact h2⟩
    · exact ⟨oa.size, h1, by simp⟩

theorem inOA_succ {oa : Array Nat} {i v x : Nat} (hx : oa[i]? = some x) :
    InOA oa i v ↔ v = x ∨ InOA oa (i + 1) v := by
  constructor
  · rintro ⟨idx, h1, h2⟩
    by_cases e : idx = i
    · subst e; rw [hx] at h2; exact Or.inl (Option.some.inj h2).symm
    · exact Or.inr ⟨idx, by omega, h2⟩
  · rintro (rfl | ⟨idx, h1, h2⟩)
    · exact ⟨i, Nat.le_refl _, hx⟩
    · exact ⟨idx, by omega, h2⟩

/-- `swap_remove(i)`. -/
theorem swapRemove_get {a : Array Nat} {i : Nat} {last : Nat} (hl : a.back? = some last) (hi : i < a.size)
    (idx : Nat) : ((a.setIfInBounds i last).pop)[idx]? =
      if idx < a.size - 1 then (if idx = i then some last else a[idx]?) else none := by
  rw [Array.getElem?_pop]
  simp only [Array.size_setIfInBounds]
  by_cases h1 : idx < a.size - 1
  · simp only [h1, if_true]
    rw [Array.getElem?_setIfInBounds]
    by_cases h2 : idx = i
    · subst h2; simp [hi]
    · have : ¬ i = idx := fun e => h2 e.symm
      simp [h2, this]
  · simp [h1]

theorem swapRemove_inOA {a : Array Nat} {i : Nat} {last : Nat} (hl : a.back? = some last) (hi : i < a.size)
    (v : Nat) : InOA ((a.setIfInBounds i last).pop) i v ↔ InOA a (i + 1) v := by
  have hlast : a[a.size - 1]? = some last := by rw [← Array.back?_eq_getElem?]; exact hl
  constructor
  · rintro ⟨idx, h1, h2⟩
    rw [swapRemove_get hl hi] at h2
    split at h2
    · rename_i hlt
      split at h2
      · rename_i e
        cases h2
        exact ⟨a.size - 1, by omega, hlast⟩
      · exact ⟨idx, by omega, h2⟩
    · cases h2
  · rintro ⟨idx, h1, h2⟩
    have hlt : idx < a.size := Alloc.lt_of_getElem? h2
    by_cases e : idx = a.size - 1
    · subst e
      rw [hlast] at h2; cases h2
      refine ⟨i, Nat.le_refl _, ?_⟩
      rw [swapRemove_get hl hi]
      have : i < a.size - 1 := by omega
      simp [this]
    · refine ⟨idx, by omega, ?_⟩
      rw [swapRemove_get hl hi]
      have h3 : idx < a.size - 1 := by omega
      have h4 : ¬ idx = i := by omega
      simp [h3, h4, h2]

theorem swapRemove_prefix {a : Array Nat} {i : Nat} {last : Nat} (hl : a.back? = some last) (hi : i < a.size)
    {idx : Nat} (h : idx < i) : ((a.setIfInBounds i last).pop)[idx]? = a[idx]? := by
  rw [swapRemove_get hl hi]
  have h1 : idx < a.size - 1 := by omega
  have h2 : ¬ idx = i := by omega
  simp [h1, h2]

/-! ### the loop `outerLoop` -/

/-- What `outerLoop prevStart · i` does: the entries from index `i` on whose value was created at or after
`prevStart` are extended to the current position and removed; the others stay. -/
structure OLRes (ps i : Nat) (s s' : St w) : Prop where
  insts : s'.insts = s.insts
  writes : s'.writes = s.writes
  exprs : s'.exprs = s.exprs
  values : s'.values = s.values
  live : s'.live = s.live
  currentStart : s'.currentStart = s.currentStart
  pre : ∀ idx : Nat, idx < i → s'.outerAccessed[idx]? = s.outerAccessed[idx]?
  kept : ∀ v : Nat, InOA s'.outerAccessed i v →
    InOA s.outerAccessed i v ∧ ∃ r : RangeInfo, s.ranges[v]? = some r ∧ r.created < ps
  keptAll : ∀ (v : Nat) (r : RangeInfo), InOA s.outerAccessed i v → s.ranges[v]? = some r → r.created < ps →
    InOA s'.outerAccessed i v
  fwd : ∀ (t : Nat) (r : RangeInfo), s.ranges[t]? = some r → ∃ r' : RangeInfo, s'.ranges[t]? = some r' ∧
    r'.created = r.created ∧ r'.firstUse = r.firstUse ∧
    ((InOA s.outerAccessed i t ∧ ps ≤ r.created ∧ r'.lastUse = some s.insts.size) ∨ r'.lastUse = r.lastUse)
  extAll : ∀ (t : Nat) (r : RangeInfo), InOA s.outerAccessed i t → s.ranges[t]? = some r → ps ≤ r.created →
    ∃ r' : RangeInfo, s'.ranges[t]? = some r' ∧ r'.lastUse = some s.insts.size
  bwd : ∀ (t : Nat) (r' : RangeInfo), s'.ranges[t]? = some r' → ∃ r : RangeInfo, s.ranges[t]? = some r

theorem olres_stop (ps : Nat) {i : Nat} {s : St w} (h : s.outerAccessed.size ≤ i) : OLRes ps i s s := by
  have hno : ∀ v, ¬ InOA s.outerAccessed i v := by
    rintro v ⟨idx, h1, h2⟩
    have := Alloc.lt_of_getElem? h2
    omega
  exact ⟨rfl, rfl, rfl, rfl, rfl, rfl, fun _ _ => rfl, fun v hv => absurd hv (hno v),
    fun v r hv _ _ => absurd hv (hno v), fun t r hr => ⟨r, hr, rfl, rfl, Or.inr rfl⟩,
    fun t r hv _ _ => absurd hv (hno t), fun t r' h => ⟨r', h⟩⟩

/-- The entries from `i` on have been read inside the current loop (so `rangeExtend` does not append them
again) and have a first use. -/
def OLPre (i : Nat) (s : St w) : Prop :=
  ∀ v, InOA s.outerAccessed i v → ∃ (r : RangeInfo) (L f : Nat), s.ranges[v]? = some r ∧ r.lastUse = some L ∧
    s.currentStart ≤ L ∧ r.firstUse = some f

theorem outerLoop_res (ps : Nat) : ∀ (fuel i : Nat) {s s' : St w} {u : Unit},
    outerLoop ps fuel i s = .ok (u, s') → OLPre i s → s.currentStart ≤ s.insts.size → OLRes ps i s s' := by
  intro fuel
  induction fuel with
  | zero => intro i s s' u h; simp only [outerLoop, throw_ok] at h
  | succ fuel ih =>
    intro i s s' u h hpre hcs
    simp only [outerLoop, get_bind] at h
    split at h
    · rename_i hlt
      cases ho : s.outerAccessed[i]? with
      | none => simp only [ho, throw_ok] at h
      | some var =>
        simp only [ho] at h
        cases hr : s.ranges[var]? with
        | none => simp only [hr, throw_ok] at h
        | some r =>
          simp only [hr] at h
          split at h
          · -- the value is older than the enclosing loop: it stays
            rename_i hc
            have hpre' : OLPre (i + 1) s := fun v hv => hpre v (hv.mono (Nat.le_succ i))
            have R := ih (i + 1) h hpre' hcs
            have hsplit := fun v => inOA_succ (v := v) ho
            refine ⟨R.insts, R.writes, R.exprs, R.values, R.live, R.currentStart,
              fun idx hidx => R.pre idx (by omega), ?_, ?_, ?_, ?_, R.bwd⟩
            · intro v hv
              have hi' : s'.outerAccessed[i]? = some var := by rw [R.pre i (Nat.lt_succ_self i)]; exact ho
              rcases (inOA_succ hi').1 hv with rfl | hv'
              · exact ⟨⟨i, Nat.le_refl _, ho⟩, r, hr, hc⟩
              · obtain ⟨g1, g2⟩ := R.kept v hv'
                exact ⟨g1.mono (Nat.le_succ i), g2⟩
            · intro v rv hv hrv hcv
              have hi' : s'.outerAccessed[i]? = some var := by rw [R.pre i (Nat.lt_succ_self i)]; exact ho
              rcases (hsplit v).1 hv with rfl | hv'
              · exact ⟨i, Nat.le_refl _, hi'⟩
              · exact (R.keptAll v rv hv' hrv hcv).mono (Nat.le_succ i)
            · intro t rt hrt
              obtain ⟨r', g1, g2, g3, g4⟩ := R.fwd t rt hrt
              refine ⟨r', g1, g2, g3, ?_⟩
              rcases g4 with ⟨q1, q2, q3⟩ | q
              · exact Or.inl ⟨q1.mono (Nat.le_succ i), q2, q3⟩
              · exact Or.inr q
            · intro t rt hv hrt hct
              rcases (hsplit t).1 hv with rfl | hv'
              · rw [hr] at hrt; cases hrt; omega
              · exact R.extAll t rt hv' hrt hct
          · -- the range is extended and the entry removed
            rename_i hc
            simp only [bind_ok, modify_ok] at h
            obtain ⟨_, s2, h2, _, s3, rfl, h⟩ := h
            have E := rangeExtend_spec h2
            obtain ⟨⟨r0, hr0, hr0'⟩, hother⟩ := ext_ranges E
            rw [hr] at hr0; cases hr0
            -- `rangeExtend` does not append
            obtain ⟨rv, Lv, fv, p1, p2, p3, p4⟩ := hpre var ⟨i, Nat.le_refl _, ho⟩
            rw [hr] at p1; cases p1
            have hoa2 : s2.outerAccessed = s.outerAccessed := by
              rcases E.outer with ⟨e, _⟩ | ⟨_, r1, q1, _, q3⟩
              · exact e
              · rw [hr] at q1; cases q1
                have := q3 Lv p2
                omega
            have hb : bump r s.insts.size 0 = { r with lastUse := some s.insts.size } := by
              simp [bump, p4]
            have hback : s2.outerAccessed.back? ≠ none := by
              rw [hoa2, Array.back?_eq_getElem?]
              intro e
              have := Array.getElem?_eq_none_iff.1 e
              omega
            cases hbk : s2.outerAccessed.back? with
            | none => exact absurd hbk hback
            | some last =>
              simp only [hbk] at h
              rw [hoa2] at hbk
              -- the remaining entries
              have hpre3 : OLPre i ({ s2 with outerAccessed := (s2.outerAccessed.setIfInBounds i last).pop } : St w) := by
                intro v hv
                simp only at hv
                rw [hoa2, swapRemove_inOA hbk hlt] at hv
                obtain ⟨rv', Lv', fv', q1, q2, q3, q4⟩ := hpre v (hv.mono (Nat.le_succ i))
                by_cases e : v = var
                · subst e
                  rw [hr] at q1; cases q1
                  refine ⟨_, s.insts.size, fv', hr0', by rw [hb], ?_, by rw [hb]; exact q4⟩
                  show s2.currentStart ≤ _
                  rw [E.currentStart]; exact hcs
                · refine ⟨rv', Lv', fv', by show s2.ranges[v]? = _; rw [hother v e]; exact q1, q2, ?_, q4⟩
                  show s2.currentStart ≤ _
                  rw [E.currentStart]; exact q3
              have R := ih i h hpre3 (by
                show s2.currentStart ≤ s2.insts.size
                rw [E.currentStart, E.insts]; exact hcs)
              have hins2 : s2.insts.size = s.insts.size := by rw [E.insts]
              refine ⟨R.insts.trans E.insts, R.writes.trans E.writes, R.exprs.trans E.exprs,
                R.values.trans E.values, R.live.trans E.live, R.currentStart.trans E.currentStart, ?_, ?_, ?_, ?_, ?_, ?_⟩
              · intro idx hidx
                rw [R.pre idx hidx]
                simp only
                rw [hoa2]
                exact swapRemove_prefix hbk hlt hidx
              · intro v hv
                obtain ⟨g1, rv', g2, g3⟩ := R.kept v hv
                simp only at g1 g2
                rw [hoa2, swapRemove_inOA hbk hlt] at g1
                refine ⟨g1.mono (Nat.le_succ i), ?_⟩
                by_cases e : v = var
                · subst e
                  rw [hr0', hb] at g2; cases g2
                  exact ⟨r, hr, g3⟩
                · rw [hother v e] at g2
                  exact ⟨rv', g2, g3⟩
              · intro v rv' hv hrv hcv
                have hne : v ≠ var := by
                  intro e; subst e; rw [hr] at hrv; cases hrv; omega
                have hv' : InOA s.outerAccessed (i + 1) v := by
                  rcases (inOA_succ ho).1 hv with e | e
                  · exact absurd e hne
                  · exact e
                refine R.keptAll v rv' ?_ (by simp only; rw [hother v hne]; exact hrv) hcv
                simp only
                rw [hoa2, swapRemove_inOA hbk hlt]
                exact hv'
              · intro t rt hrt
                by_cases e : t = var
                · subst e
                  rw [hr] at hrt; cases hrt
                  obtain ⟨r', g1, g2, g3, g4⟩ := R.fwd t _ (by simp only; exact hr0')
                  refine ⟨r', g1, by rw [g2, hb], by rw [g3, hb], Or.inl ⟨⟨i, Nat.le_refl _, ho⟩, Nat.le_of_not_lt hc, ?_⟩⟩
                  rcases g4 with ⟨_, _, q⟩ | q
                  · rw [q]; simp only; rw [hins2]
                  · rw [q, hb]
                · obtain ⟨r', g1, g2, g3, g4⟩ := R.fwd t rt (by simp only; rw [hother t e]; exact hrt)
                  refine ⟨r', g1, g2, g3, ?_⟩
                  rcases g4 with ⟨q1, q2, q3⟩ | q
                  · simp only at q1 q3
                    rw [hoa2, swapRemove_inOA hbk hlt] at q1
                    exact Or.inl ⟨q1.mono (Nat.le_succ i), q2, by rw [q3, hins2]⟩
                  · exact Or.inr q
              · intro t rt hv hrt hct
                by_cases e : t = var
                · subst e
                  obtain ⟨r', g1, _, _, g4⟩ := R.fwd t _ (by simp only; exact hr0')
                  refine ⟨r', g1, ?_⟩
                  rcases g4 with ⟨_, _, q⟩ | q
                  · rw [q]; simp only; rw [hins2]
                  · rw [q, hb]
                · have hv' : InOA s.outerAccessed (i + 1) t := by
                    rcases (inOA_succ ho).1 hv with e' | e'
                    · exact absurd e' e
                    · exact e'
                  obtain ⟨r', g1, g2⟩ := R.extAll t rt (by
                    simp only; rw [hoa2, swapRemove_inOA hbk hlt]; exact hv')
                    (by simp only; rw [hother t e]; exact hrt) hct
                  exact ⟨r', g1, by rw [g2]; simp only; rw [hins2]⟩
              · intro t r' hr'
                obtain ⟨r2, g⟩ := R.bwd t r' hr'
                simp only at g
                by_cases e : t = var
                · subst e; exact ⟨r, hr⟩
                · rw [hother t e] at g; exact ⟨r2, g⟩
    · rename_i hlt
      simp only [pure_ok] at h
      rw [h.2]
      exact olres_stop ps (Nat.le_of_not_lt hlt)

/-! ### the invariant -/

/-- An enclosing loop: position of the first instruction of its body, length of `outer_accessed` on entry. -/
abbrev Frame := Nat × Nat

structure FCore (c : List Frame) (s : St w) : Prop where
  startLe : ∀ f ∈ c, f.1 ≤ s.insts.size
  numLe : ∀ f ∈ c, f.2 ≤ s.outerAccessed.size
  oaLast : ∀ f ∈ c, ∀ v, InOA s.outerAccessed f.2 v →
    ∃ (r : RangeInfo) (L : Nat), s.ranges[v]? = some r ∧ r.lastUse = some L ∧ f.1 ≤ L
  complete : ∀ f ∈ c, ∀ (t : Nat) (r : RangeInfo) (L : Nat), s.ranges[t]? = some r → r.lastUse = some L →
    r.created < f.1 → f.1 ≤ L → InOA s.outerAccessed f.2 t
  backLe : ∀ (e : Nat) (cnd off : Int), s.insts[e]? = some (.brnz cnd off) → 0 ≤ (e : Int) + off ∧ off ≤ 0
  back : ∀ (e : Nat) (cnd off : Int) (b1 : Nat), s.insts[e]? = some (.brnz cnd off) →
    (e : Int) + off = (b1 : Int) → ∀ (t : Nat) (r : RangeInfo) (L : Nat), s.ranges[t]? = some r →
    r.lastUse = some L → r.created < b1 → b1 ≤ L → e ≤ L ∨ ∃ f ∈ c, r.created < f.1 ∧ f.1 ≤ b1

structure FInv (c : List Frame) (ps : Nat) (s : St w) : Prop where
  cs : s.currentStart = ps
  hd : ∃ N rest, c = (ps, N) :: rest
  sorted : ∀ f ∈ c, f.1 ≤ ps
  linv : LInv s
  lastLt : ∀ (t : Nat) (r : RangeInfo) (L : Nat), s.ranges[t]? = some r → r.lastUse = some L → L < s.insts.size
  core : FCore c s

/-- A read or an extension of `v` at the current position. -/
theorem fcore_ext {c : List Frame} {ps : Nat} {s s' : St w} {v inc : Nat} (h : FCore c s)
    (E : ExtSpec v inc s s') (hcs : s.currentStart = ps) (hso : ∀ f ∈ c, f.1 ≤ ps) : FCore c s' := by
  obtain ⟨⟨r, hr, hr'⟩, hother⟩ := ext_ranges E
  have hbL : (bump r s.insts.size inc).lastUse = some s.insts.size := rfl
  have hbC : (bump r s.insts.size inc).created = r.created := rfl
  -- the list only grows
  have hoa : ∀ lo u, InOA s.outerAccessed lo u → InOA s'.outerAccessed lo u := by
    intro lo u hu
    rcases E.outer with ⟨e, _⟩ | ⟨e, _⟩
    · rw [e]; exact hu
    · rw [e]; exact inOA_push.2 (Or.inl hu)
  have hoa' : ∀ lo u, InOA s'.outerAccessed lo u → InOA s.outerAccessed lo u ∨ u = v := by
    intro lo u hu
    rcases E.outer with ⟨e, _⟩ | ⟨e, _⟩
    · rw [e] at hu; exact Or.inl hu
    · rw [e] at hu
      rcases inOA_push.1 hu with g | ⟨_, g⟩
      · exact Or.inl g
      · exact Or.inr g
  refine ⟨by rw [E.insts]; exact h.startLe, ?_, ?_, ?_, by rw [E.insts]; exact h.backLe, ?_⟩
  · intro f hf
    have := h.numLe f hf
    rcases E.outer with ⟨e, _⟩ | ⟨e, _⟩
    · rw [e]; exact this
    · rw [e]; simp; omega
  · intro f hf u hu
    by_cases e : u = v
    · subst e
      exact ⟨_, _, hr', hbL, h.startLe f hf⟩
    · rcases hoa' _ _ hu with g | g
      · obtain ⟨q, L, g1, g2, g3⟩ := h.oaLast f hf u g
        exact ⟨q, L, by rw [hother u e]; exact g1, g2, g3⟩
      · exact absurd g e
  · intro f hf t q L hq hL hc hle
    by_cases e : t = v
    · subst e
      rw [hr'] at hq; cases hq
      rcases E.outer with ⟨e1, r1, g1, g2⟩ | ⟨e1, _⟩
      · rw [e1]
        rw [hr] at g1; cases g1
        rcases g2 with g2 | ⟨L0, g2, g3⟩
        · have := hso f hf
          rw [hbC] at hc
          omega
        · exact h.complete f hf t r L0 hr g2 (by rw [hbC] at hc; exact hc) (by have := hso f hf; omega)
      · rw [e1]
        exact inOA_push.2 (Or.inr ⟨h.numLe f hf, rfl⟩)
    · rw [hother t e] at hq
      exact hoa _ _ (h.complete f hf t q L hq hL hc hle)
  · intro e cnd off b1 he hb t q L hq hL hc hle
    rw [E.insts] at he
    by_cases e' : t = v
    · subst e'
      rw [hr'] at hq; cases hq
      rw [hbL] at hL; cases hL
      exact Or.inl (Nat.le_of_lt (Alloc.lt_of_getElem? he))
    · rw [hother t e'] at hq
      exact h.back e cnd off b1 he hb t q L hq hL hc hle

theorem fcore_reads {c : List Frame} {ps : Nat} : ∀ (l : List Nat) {s s' : St w}, ReadsSpec l s s' → FCore c s →
    s.currentStart = ps → (∀ f ∈ c, f.1 ≤ ps) → FCore c s'
  | [], s, s', h, hc, _, _ => by rw [h]; exact hc
  | a :: rest, s, s', ⟨s1, h1, h2⟩, hc, hcs, hso =>
    fcore_reads rest h2 (fcore_ext hc h1 hcs hso) (by rw [h1.currentStart]; exact hcs) hso

/-- Changes that keep the range entries with a last use, `outerAccessed` and the `brnz` instructions. -/
theorem fcore_frame {c : List Frame} {s s' : St w} (h : FCore c s) (e1 : s'.outerAccessed = s.outerAccessed)
    (e2 : s.insts.size ≤ s'.insts.size)
    (e3 : ∀ (e : Nat) (cnd off : Int), s'.insts[e]? = some (.brnz cnd off) → s.insts[e]? = some (.brnz cnd off))
    (e4 : ∀ (t : Nat) (r : RangeInfo) (L : Nat), s'.ranges[t]? = some r → r.lastUse = some L → s.ranges[t]? = some r)
    (e5 : ∀ (t : Nat) (r : RangeInfo), s.ranges[t]? = some r → s'.ranges[t]? = some r) : FCore c s' := by
  refine ⟨fun f hf => Nat.le_trans (h.startLe f hf) e2, by rw [e1]; exact h.numLe, ?_, ?_, ?_, ?_⟩
  · intro f hf v hv
    rw [e1] at hv
    obtain ⟨r, L, g1, g2, g3⟩ := h.oaLast f hf v hv
    exact ⟨r, L, e5 v r g1, g2, g3⟩
  · intro f hf t r L hr hL hc hle
    rw [e1]
    exact h.complete f hf t r L (e4 t r L hr hL) hL hc hle
  · intro e cnd off he
    exact h.backLe e cnd off (e3 e cnd off he)
  · intro e cnd off b1 he hb t r L hr hL hc hle
    exact h.back e cnd off b1 (e3 e cnd off he) hb t r L (e4 t r L hr hL) hL hc hle

theorem push_brnz_old {a : Array (Instr w)} {x : Instr w} (hx : ∀ cnd off, x ≠ .brnz cnd off) {e : Nat}
    {cnd off : Int} (h : (a.push x)[e]? = some (.brnz cnd off)) : a[e]? = some (.brnz cnd off) := by
  rcases getElem?_push_cases h with ⟨_, g⟩ | ⟨_, g⟩
  · exact g
  · exact absurd g.symm (hx cnd off)

theorem instOf_ne_brnz (e : GvnExpr w) (v : Nat) (cnd off : Int) : instOf e v ≠ .brnz cnd off := by
  cases e <;> simp [instOf]

theorem finv_getValue {c : List Frame} {ps : Nat} {e : GvnExpr w} {s s' : St w} {v : Nat} (h : FInv c ps s)
    (hops : ∀ a ∈ opsOf e, a < s.ranges.size) (hg : getValue e s = .ok (v, s')) :
    FInv c ps s' ∧ v < s'.ranges.size := by
  obtain ⟨hl', hv⟩ := linv_getValue h.linv hops hg
  refine ⟨?_, hv⟩
  rcases getValue_spec hg with ⟨_, rfl⟩ | ⟨rfl, N⟩
  · exact h
  · obtain ⟨s2, h2, rfl⟩ := N.reads
    have F := readsFacts _ h2
    have hcs2 : s2.currentStart = ps := by
      rw [readsSpec_currentStart _ h2]; exact h.cs
    -- the new entry has no last use
    have hc2 : FCore c s2 := by
      refine fcore_reads _ h2 (fcore_frame h.core rfl (Nat.le_refl _) (fun _ _ _ g => g) ?_ ?_) h.cs h.sorted
      · intro t r L hr hL
        simp only at hr
        rcases getElem?_push_cases hr with ⟨_, g⟩ | ⟨_, g⟩
        · exact g
        · rw [g] at hL; cases hL
      · intro t r hr
        show (s.ranges.push _)[t]? = some r
        rw [getElem?_push_lt' _ _ (Alloc.lt_of_getElem? hr)]; exact hr
    refine ⟨hcs2, h.hd, h.sorted, hl', ?_, ?_⟩
    · intro t r L hr hL
      simp only at hr ⊢
      rw [F.insts]
      simp only [Array.size_push]
      by_cases hto : t ∈ opsOf e
      · obtain ⟨r0, r1, g1, g2, g3⟩ := F.hit t hto
        rw [hr] at g2; cases g2
        rw [g3.last] at hL; cases hL
        simp only; omega
      · rw [F.miss t hto] at hr
        simp only at hr
        rcases getElem?_push_cases hr with ⟨_, g⟩ | ⟨_, g⟩
        · have := h.lastLt t r L g hL; omega
        · rw [g] at hL; cases hL
    · refine fcore_frame hc2 rfl (by simp only [Array.size_push]; omega) ?_ (fun _ _ _ g _ => g) (fun _ _ g => g)
      intro e' cnd off he
      exact push_brnz_old (instOf_ne_brnz _ _) he

theorem finv_memWrite {c : List Frame} {ps : Nat} {var : Int} {x : Nat} {s s' : St w} {u : Unit} (h : FInv c ps s)
    (hx : x < s.ranges.size) (hm : memWrite var x s = .ok (u, s')) : FInv c ps s' := by
  have hl' := linv_memWrite h.linv hx hm
  obtain ⟨s1, h1, rfl⟩ := memWrite_spec hm
  have F : ReadsFacts [x] s s1 := readsFacts [x] ⟨s1, h1, rfl⟩
  have hc1 := fcore_ext h.core h1 h.cs h.sorted
  refine ⟨by show s1.currentStart = ps; rw [h1.currentStart]; exact h.cs, h.hd, h.sorted, hl', ?_, ?_⟩
  · intro t r L hr hL
    simp only at hr ⊢
    rw [F.insts]
    simp only [Array.size_push]
    by_cases hto : t ∈ [x]
    · obtain ⟨r0, r1, g1, g2, g3⟩ := F.hit t hto
      rw [hr] at g2; cases g2
      rw [g3.last] at hL; cases hL
      omega
    · rw [F.miss t hto] at hr
      have := h.lastLt t r L hr hL; omega
  · refine fcore_frame hc1 rfl (by simp only [Array.size_push]; omega) ?_ (fun _ _ _ g _ => g) (fun _ _ g => g)
    intro e' cnd off he
    exact push_brnz_old (by intro cnd off; simp) he

/-- Appending a control instruction that is not a `brnz`; the table of values may shrink. -/
theorem finv_append {c : List Frame} {ps : Nat} {s s' : St w} (h : FInv c ps s) {x : Instr w} (hl' : LInv s')
    (e1 : s'.insts = s.insts.push x) (e2 : s'.ranges = s.ranges) (e3 : s'.outerAccessed = s.outerAccessed)
    (e4 : s'.currentStart = s.currentStart) (hx : ∀ cnd off, x ≠ .brnz cnd off) : FInv c ps s' := by
  refine ⟨by rw [e4]; exact h.cs, h.hd, h.sorted, hl', ?_, ?_⟩
  · intro t r L hr hL
    rw [e2] at hr
    have := h.lastLt t r L hr hL
    rw [e1]; simp; omega
  · refine fcore_frame h.core e3 (by rw [e1]; simp) ?_ (fun t r L g _ => by rw [← e2]; exact g)
      (fun t r g => by rw [e2]; exact g)
    intro e cnd off he
    rw [e1] at he
    exact push_brnz_old hx he

/-- Changes of `values` (to a sub-table). -/
theorem finv_values {c : List Frame} {ps : Nat} {s : St w} (h : FInv c ps s) (vs : List (GvnExpr w × Nat))
    (hsub : ∀ p ∈ vs, p ∈ s.values) : FInv c ps { s with values := vs } :=
  ⟨h.cs, h.hd, h.sorted, closed_linv.values _ _ h.linv hsub, h.lastLt,
    fcore_frame h.core rfl (Nat.le_refl _) (fun _ _ _ g => g) (fun _ _ _ g _ => g) (fun _ _ g => g)⟩

theorem lhHead_finv {c : List Frame} {ps : Nat} (isLoop : Bool) (sub : Analysis) {s : St w} (h : FInv c ps s) :
    FInv c ps (lhHead isLoop sub s) := by
  unfold lhHead
  split
  · split
    · exact finv_values h _ (fun p hp => by cases hp)
    · exact finv_values h _ (fun p hp => mem_removeMems hp)
  · exact h

theorem lhExit_finv {c : List Frame} {ps : Nat} (once : Bool) (sub : Analysis) (pe : Nat) {s : St w}
    (h : FInv c ps s) : FInv c ps (lhExit once sub pe s) := by
  unfold lhExit
  split
  · exact finv_values h _ (fun p hp => by cases hp)
  · split
    · exact h
    · exact finv_values h _ (fun p hp => mem_removeMems (mem_foldl_alErase hp))

/-- The placeholder `noop` becomes the `brz`. -/
theorem finv_patch {c : List Frame} {ps : Nat} {s : St w} (h : FInv c ps s) {i : Nat} (cnd off : Int)
    (hi : s.insts[i]? = some .noop) : FInv c ps { s with insts := s.insts.setIfInBounds i (.brz cnd off) } := by
  refine ⟨h.cs, h.hd, h.sorted, linv_patch h.linv cnd off hi, by simpa using h.lastLt, ?_⟩
  refine fcore_frame h.core rfl (by simp) ?_ (fun _ _ _ g _ => g) (fun _ _ g => g)
  intro e c' o' he
  simp only at he
  rw [Array.getElem?_setIfInBounds] at he
  by_cases hie : i = e
  · subst hie
    have hlt : i < s.insts.size := Alloc.lt_of_getElem? hi
    simp [hlt] at he
  · simp [hie] at he; exact he

/-! ### entering and leaving a loop -/

theorem mem_toList_of_inOA {oa : Array Nat} {lo v : Nat} (h : InOA oa lo v) : v ∈ oa.toList := by
  obtain ⟨idx, _, h2⟩ := h
  exact Array.mem_toList_iff.2 (Array.mem_of_getElem? h2)

/-- Entering a loop whose body starts at the current position. -/
theorem finv_enter {c : List Frame} {ps : Nat} {s : St w} (h : FInv c ps s) :
    FInv ((s.insts.size, s.outerAccessed.size) :: c) s.insts.size { s with currentStart := s.insts.size } := by
  obtain ⟨N0, rest, hc⟩ := h.hd
  have hps : ps ≤ s.insts.size := h.core.startLe (ps, N0) (by rw [hc]; exact List.mem_cons_self)
  refine ⟨rfl, ⟨_, _, rfl⟩, ?_, closed_linv.start _ _ h.linv, h.lastLt, ?_⟩
  · intro f hf
    rcases List.mem_cons.1 hf with rfl | hf
    · exact Nat.le_refl _
    · exact Nat.le_trans (h.sorted f hf) hps
  · refine ⟨?_, ?_, ?_, ?_, h.core.backLe, ?_⟩
    · intro f hf
      rcases List.mem_cons.1 hf with rfl | hf
      · exact Nat.le_refl _
      · exact h.core.startLe f hf
    · intro f hf
      rcases List.mem_cons.1 hf with rfl | hf
      · exact Nat.le_refl _
      · exact h.core.numLe f hf
    · intro f hf v hv
      rcases List.mem_cons.1 hf with rfl | hf
      · obtain ⟨idx, h1, h2⟩ := hv
        have := Alloc.lt_of_getElem? h2
        simp only at h1 this; omega
      · exact h.core.oaLast f hf v hv
    · intro f hf t r L hr hL hcr hle
      rcases List.mem_cons.1 hf with rfl | hf
      · have := h.lastLt t r L hr hL
        simp only at hle; omega
      · exact h.core.complete f hf t r L hr hL hcr hle
    · intro e cnd off b1 he hb t r L hr hL hcr hle
      rcases h.core.back e cnd off b1 he hb t r L hr hL hcr hle with g | ⟨f, hf, g⟩
      · exact Or.inl g
      · exact Or.inr ⟨f, List.mem_cons_of_mem _ hf, g⟩

/-- Leaving a loop: `so` is the state after `outerLoop`, then the `brnz` is appended. -/
theorem finv_leave {c : List Frame} {ps b1 N : Nat} {sm so : St w} {cond : Int}
    (hm : FInv ((b1, N) :: c) b1 sm) (hc : ∃ N1 rest, c = (ps, N1) :: rest) (hso : ∀ f ∈ c, f.1 ≤ ps)
    (hN : ∀ f ∈ c, f.2 ≤ N) (hpb : ps ≤ b1)
    (R : OLRes ps N sm so) (hl : LInv (lhBrnz cond b1 so)) :
    FInv c ps { lhBrnz cond b1 so with currentStart := ps } := by
  have C := hm.core
  have hfr : ((b1, N) : Frame) ∈ (b1, N) :: c := List.mem_cons_self
  have hsub : ∀ f ∈ c, f ∈ (b1, N) :: c := fun f hf => List.mem_cons_of_mem _ hf
  have hb1 : b1 ≤ sm.insts.size := C.startLe _ hfr
  have hNsm : N ≤ sm.outerAccessed.size := C.numLe _ hfr
  have hNso : N ≤ so.outerAccessed.size := by
    by_cases h0 : N = 0
    · omega
    · have h1 := R.pre (N - 1) (by omega)
      have h2 : (N - 1) < sm.outerAccessed.size := by omega
      rw [Array.getElem?_eq_getElem h2] at h1
      have := Alloc.lt_of_getElem? h1
      omega
  -- entries of the new list
  have hoaBack : ∀ f ∈ c, ∀ v, InOA so.outerAccessed f.2 v → InOA sm.outerAccessed f.2 v := by
    intro f hf v ⟨idx, h1, h2⟩
    by_cases hi : idx < N
    · exact ⟨idx, h1, by rw [← R.pre idx hi]; exact h2⟩
    · exact ((R.kept v ⟨idx, by omega, h2⟩).1).mono (hN f hf)
  have hoaFwd : ∀ f ∈ c, ∀ (t : Nat) (r : RangeInfo), InOA sm.outerAccessed f.2 t → sm.ranges[t]? = some r →
      r.created < ps → InOA so.outerAccessed f.2 t := by
    intro f hf t r ⟨idx, h1, h2⟩ hr hcr
    by_cases hi : idx < N
    · exact ⟨idx, h1, by rw [R.pre idx hi]; exact h2⟩
    · exact (R.keptAll t r ⟨idx, by omega, h2⟩ hr hcr).mono (hN f hf)
  -- range entries
  have hrng : ∀ (t : Nat) (r' : RangeInfo), so.ranges[t]? = some r' → ∃ r : RangeInfo, sm.ranges[t]? = some r ∧
      r'.created = r.created ∧
      ((InOA sm.outerAccessed N t ∧ ps ≤ r.created ∧ r'.lastUse = some sm.insts.size) ∨ r'.lastUse = r.lastUse) := by
    intro t r' hr'
    obtain ⟨r, hr⟩ := R.bwd t r' hr'
    obtain ⟨r'', g1, g2, _, g4⟩ := R.fwd t r hr
    rw [hr'] at g1; cases g1
    exact ⟨r, hr, g2, g4⟩
  obtain ⟨N1, rest, hceq⟩ := hc
  have hhead : ((ps, N1) : Frame) ∈ c := by rw [hceq]; exact List.mem_cons_self
  have hsz : (lhBrnz cond b1 so).insts.size = sm.insts.size + 1 := by simp [lhBrnz, R.insts]
  have hget : ∀ (e : Nat) (cnd off : Int), (lhBrnz cond b1 so).insts[e]? = some (.brnz cnd off) →
      (e < sm.insts.size ∧ sm.insts[e]? = some (.brnz cnd off)) ∨
      (e = sm.insts.size ∧ off = (b1 : Int) - (sm.insts.size : Int)) := by
    intro e cnd off he
    simp only [lhBrnz] at he
    rcases getElem?_push_cases he with ⟨g1, g2⟩ | ⟨g1, g2⟩
    · rw [R.insts] at g1 g2; exact Or.inl ⟨g1, g2⟩
    · rw [R.insts] at g1
      simp only [Instr.brnz.injEq] at g2
      rw [R.insts] at g2
      exact Or.inr ⟨g1, g2.2⟩
  refine ⟨rfl, ⟨N1, rest, hceq⟩, hso, closed_linv.start _ _ hl, ?_, ?_⟩
  · intro t r' L' hr' hL'
    show L' < (lhBrnz cond b1 so).insts.size
    rw [hsz]
    obtain ⟨r, hr, _, g⟩ := hrng t r' hr'
    rcases g with ⟨_, _, g⟩ | g
    · rw [g] at hL'; cases hL'; omega
    · rw [g] at hL'
      have := hm.lastLt t r L' hr hL'; omega
  · refine ⟨?_, ?_, ?_, ?_, ?_, ?_⟩
    · intro f hf
      show f.1 ≤ (lhBrnz cond b1 so).insts.size
      rw [hsz]
      have := C.startLe f (hsub f hf); omega
    · intro f hf
      exact Nat.le_trans (hN f hf) hNso
    · intro f hf v hv
      obtain ⟨r, L, g1, g2, g3⟩ := C.oaLast f (hsub f hf) v (hoaBack f hf v hv)
      obtain ⟨r', q1, _, _, q4⟩ := R.fwd v r g1
      rcases q4 with ⟨_, _, q⟩ | q
      · exact ⟨r', sm.insts.size, q1, q, by have := C.startLe f (hsub f hf); omega⟩
      · exact ⟨r', L, q1, by rw [q]; exact g2, g3⟩
    · intro f hf t r' L' hr' hL' hcr hle
      obtain ⟨r, hr, g2, g⟩ := hrng t r' hr'
      rw [g2] at hcr
      rcases g with ⟨_, g, _⟩ | g
      · have := hso f hf; omega
      · rw [g] at hL'
        exact hoaFwd f hf t r (C.complete f (hsub f hf) t r L' hr hL' hcr hle) hr (by have := hso f hf; omega)
    · intro e cnd off he
      rcases hget e cnd off he with ⟨_, g⟩ | ⟨g1, g2⟩
      · exact C.backLe e cnd off g
      · subst g1 g2; constructor <;> omega
    · intro e cnd off b1' he hb t r' L' hr' hL' hcr hle
      replace hr' : so.ranges[t]? = some r' := hr'
      obtain ⟨r, hr, g2, g⟩ := hrng t r' hr'
      rw [g2] at hcr
      -- a value that was created before the loop and is still in the list
      have hdefer : r.created < b1 → b1 ≤ b1' → (∃ L0, r.lastUse = some L0 ∧ b1 ≤ L0) →
          e ≤ sm.insts.size → e ≤ L' ∨ ∃ f ∈ c, r'.created < f.1 ∧ f.1 ≤ b1' := by
        intro h1 h2 ⟨L0, h3, h4⟩ h5
        have hin := C.complete _ hfr t r L0 hr h3 h1 h4
        by_cases hps : ps ≤ r.created
        · obtain ⟨r'', q1, q2⟩ := R.extAll t r hin hr hps
          rw [hr'] at q1; cases q1
          rw [q2] at hL'; cases hL'
          exact Or.inl h5
        · exact Or.inr ⟨(ps, N1), hhead, by rw [g2]; simp only; omega, by simp only; omega⟩
      rcases hget e cnd off he with ⟨he1, he2⟩ | ⟨he1, he2⟩
      · rcases g with ⟨_, _, g⟩ | g
        · rw [g] at hL'; cases hL'; exact Or.inl (Nat.le_of_lt he1)
        · rw [g] at hL'
          rcases C.back e cnd off b1' he2 hb t r L' hr hL' hcr hle with q | ⟨f, hf, q1, q2⟩
          · exact Or.inl q
          · rcases List.mem_cons.1 hf with rfl | hf
            · exact hdefer q1 q2 ⟨L', hL', by simp only at q2; omega⟩ (Nat.le_of_lt he1)
            · exact Or.inr ⟨f, hf, by rw [g2]; exact q1, q2⟩
      · subst he1 he2
        have hbb : b1' = b1 := by omega
        subst hbb
        rcases g with ⟨_, _, g⟩ | g
        · rw [g] at hL'; cases hL'; exact Or.inl (Nat.le_refl _)
        · rw [g] at hL'
          exact hdefer hcr (Nat.le_refl _) ⟨L', hL', hle⟩ (Nat.le_refl _)

/-! ### the rules of the induction -/

def FJ (c : List Frame) (ps : Nat) (_a : Analysis) (_l : List (Ir.Instr w)) (s : St w) : Prop := FInv c ps s

theorem finv_calc {c : List Frame} {ps : Nat} {calcs : List (Int × Expr w)} {s s1 s' : St w}
    {vals : List (Int × Nat)} {u : Unit} (h : FInv c ps s) (hc : calcValues calcs s = .ok (vals, s1))
    (hm : memWrites vals s1 = .ok (u, s')) : FInv c ps s' := by
  obtain ⟨k1, v1, _⟩ := calcValues_pres (K := FInv c ps)
    (fun e a v a' hk ho hh => finv_getValue hk ho hh) calcs hc h
  exact memWrites_pres (K := FInv c ps) (fun var x a a' u hk hx hh => finv_memWrite hk hx hh) vals hm k1 v1

/-- The state in which the body of a loop is emitted: an enclosing-loop frame is added. -/
theorem finv_loop_enter {c : List Frame} {ps : Nat} {s : St w} (h : FInv c ps s) (once : Bool) (sub : Analysis) :
    FInv (((lhPro true once (lhHead true sub s)).insts.size, s.outerAccessed.size) :: c)
      (lhPro true once (lhHead true sub s)).insts.size (lhPro true once (lhHead true sub s)) ∧
    (lhPro true once (lhHead true sub s)).currentStart = (lhPro true once (lhHead true sub s)).insts.size ∧
    ps ≤ (lhPro true once (lhHead true sub s)).insts.size := by
  have h0 := lhHead_finv true sub h
  have hoa0 : (lhHead true sub s).outerAccessed = s.outerAccessed := by
    unfold lhHead; split <;> (try split) <;> rfl
  have hP : ∃ sP : St w, FInv c ps sP ∧ sP.outerAccessed = s.outerAccessed ∧
      lhPro true once (lhHead true sub s) = { sP with currentStart := sP.insts.size } := by
    cases once with
    | false =>
      refine ⟨{ lhHead true sub s with insts := (lhHead true sub s).insts.push .noop }, ?_, hoa0, rfl⟩
      exact finv_append (x := .noop) h0 (linv_push h0.linv rfl) rfl rfl rfl rfl (by intro cnd off; simp)
    | true => exact ⟨lhHead true sub s, h0, hoa0, rfl⟩
  obtain ⟨sP, hsP, hoaP, hpro⟩ := hP
  have henter := finv_enter hsP
  have hoaSz : sP.outerAccessed.size = s.outerAccessed.size := by rw [hoaP]
  rw [hoaSz] at henter
  obtain ⟨N0, rest0, hc0⟩ := h.hd
  have hpb : ps ≤ sP.insts.size := hsP.core.startLe (ps, N0) (by rw [hc0]; exact List.mem_cons_self)
  rw [hpro]
  exact ⟨henter, rfl, hpb⟩

/-- The state after a loop, from the state `sb` after its body. -/
theorem finv_loop_exit {c : List Frame} {ps : Nat} {s sb so : St w} (h : FInv c ps s) {once : Bool}
    {sub : Analysis} {cond shift : Int} {fuel : Nat} {u2 : Unit}
    (hb : FInv (((lhPro true once (lhHead true sub s)).insts.size, s.outerAccessed.size) :: c)
      (lhPro true once (lhHead true sub s)).insts.size sb)
    (hpre : Pre (lhPro true once (lhHead true sub s)).insts sb.insts)
    (ho : outerLoop ps fuel s.outerAccessed.size (lhMov shift sb) = .ok (u2, so)) :
    FInv c ps (loopEnd once cond sub ps s (lhPro true once (lhHead true sub s)) so) ∧
    OLRes ps s.outerAccessed.size (lhMov shift sb) so ∧
    FInv (((lhPro true once (lhHead true sub s)).insts.size, s.outerAccessed.size) :: c)
      (lhPro true once (lhHead true sub s)).insts.size (lhMov shift sb) := by
  obtain ⟨_, _, hpb⟩ := finv_loop_enter h once sub
  generalize hb1 : (lhPro true once (lhHead true sub s)).insts.size = b1 at hb hpre hpb ⊢
  have hm : FInv ((b1, s.outerAccessed.size) :: c) b1 (lhMov shift sb) := by
    unfold lhMov
    split
    · exact hb
    · exact finv_append (x := .mov shift) hb (linv_push hb.linv rfl) rfl rfl rfl rfl (by intro cnd off; simp)
  have hfr : ((b1, s.outerAccessed.size) : Frame) ∈ (b1, s.outerAccessed.size) :: c := List.mem_cons_self
  have hpreOL : OLPre s.outerAccessed.size (lhMov shift sb) := by
    intro v hv
    obtain ⟨r, L, g1, g2, g3⟩ := hm.core.oaLast _ hfr v hv
    obtain ⟨r', f, q1, q2⟩ := hm.linv.oa v (mem_toList_of_inOA hv)
    rw [g1] at q1; cases q1
    exact ⟨r, L, f, g1, g2, by rw [hm.cs]; exact g3, q2⟩
  have R := outerLoop_res ps fuel _ ho hpreOL (by rw [hm.cs]; exact hm.core.startLe _ hfr)
  have hlo := linv_outer ps fuel _ ho hm.linv
  have hlz : LInv (lhBrnz cond b1 so) := linv_push hlo rfl
  have hleave := finv_leave (cond := cond) hm h.hd h.sorted (fun f hf => h.core.numLe f hf) hpb R hlz
  refine ⟨?_, R, hm⟩
  unfold loopEnd
  refine lhExit_finv _ _ _ ?_
  rw [hb1]
  cases once with
  | true => simp only [if_true]; exact hleave
  | false =>
    simp only [Bool.false_eq_true, if_false]
    have hsz1 : b1 = (lhHead true sub s).insts.size + 1 := by rw [← hb1]; simp [lhPro]
    have hnoop : (lhBrnz cond b1 so).insts[b1 - 1]? = some .noop := by
      have pm : Pre sb.insts (lhMov shift sb).insts := by
        unfold lhMov; split
        · exact Pre.refl _
        · exact Pre.push _ _
      have pp : Pre (lhPro true false (lhHead true sub s)).insts (lhBrnz cond b1 so).insts := by
        refine (hpre.trans pm).trans ?_
        show Pre _ (so.insts.push _)
        rw [R.insts]; exact Pre.push _ _
      rw [pp.2 _ (by rw [hb1]; omega)]
      simp [lhPro, hsz1]
    exact finv_patch hleave cond (((lhBrnz cond b1 so).insts.size : Int) - ((b1 - 1 : Nat) : Int)) hnoop

theorem finv_if_enter {c : List Frame} {ps : Nat} {s : St w} (h : FInv c ps s) : FInv c ps (lhPro false false s) := by
  unfold lhPro
  simp only [Bool.false_eq_true, if_false]
  exact finv_append (x := .noop) h (linv_push h.linv rfl) rfl rfl rfl rfl (by intro cnd off; simp)

theorem finv_if_exit {c : List Frame} {ps : Nat} {s sb : St w} {sub : Analysis} {cond shift : Int}
    (hb : FInv c ps sb) (hpre : Pre (lhPro false false s).insts sb.insts) :
    FInv c ps (ifEnd cond shift sub ps s (lhPro false false s) sb) ∧ FInv c ps (lhMov shift sb) := by
  have hm : FInv c ps (lhMov shift sb) := by
    unfold lhMov
    split
    · exact hb
    · exact finv_append (x := .mov shift) hb (linv_push hb.linv rfl) rfl rfl rfl rfl (by intro cnd off; simp)
  refine ⟨?_, hm⟩
  unfold ifEnd
  refine lhExit_finv _ _ _ ?_
  have hsz : (lhPro false false s).insts.size = s.insts.size + 1 := by simp [lhPro]
  have pm : Pre sb.insts (lhMov shift sb).insts := by
    unfold lhMov; split
    · exact Pre.refl _
    · exact Pre.push _ _
  have hnoop : (lhMov shift sb).insts[(lhPro false false s).insts.size - 1]? = some .noop := by
    rw [(hpre.trans pm).2 _ (by omega)]
    simp [lhPro]
  have hp := finv_patch hm cond
    (((lhMov shift sb).insts.size : Int) - (((lhPro false false s).insts.size - 1 : Nat) : Int)) hnoop
  have : ({ lhPatch cond (lhPro false false s).insts.size (lhMov shift sb) with currentStart := ps } : St w) =
      lhPatch cond (lhPro false false s).insts.size (lhMov shift sb) := by
    have e : (lhMov shift sb).currentStart = ps := hm.cs
    simp only [lhPatch]
    rw [← e]
  rw [this]
  exact hp

theorem closedI_finv (fuse : Bool) : ClosedI fuse (FJ (w := w)) where
  out := fun c ps a src rest s h =>
    finv_append (x := .out src) h (linv_push h.linv rfl) rfl rfl rfl rfl (by intro cnd off; simp)
  inp := fun c ps a dst rest s h =>
    finv_append (x := .inp dst) h
      (closed_linv.values _ _ (linv_inp h.linv dst) (fun p hp => mem_alErase hp)) rfl rfl rfl rfl
      (by intro cnd off; simp)
  calcR := fun c ps a calcs rest s vals s1 s' u h hc hm => finv_calc h hc hm
  scan := fun c ps a cond shift once rest s _ h => by
    have h0 := lhHead_finv true (subOf shift ([] : List (Ir.Instr w))) h
    have h1 := finv_append (x := .scan cond shift)
      (s' := { lhHead true (subOf shift ([] : List (Ir.Instr w))) s with
        insts := (lhHead true (subOf shift ([] : List (Ir.Instr w))) s).insts.push (.scan cond shift) })
      h0 (linv_push h0.linv rfl) rfl rfl rfl rfl (by intro cnd off; simp)
    exact lhExit_finv once _ _ h1
  loop := fun c ps a cond shift body once rest s _ h => by
    obtain ⟨e1, e2, _⟩ := finv_loop_enter h once (subOf shift body)
    refine ⟨_, by unfold FJ; rw [e2]; exact e1, ?_⟩
    intro sb so u1 u2 fuel _ hb hpre ho
    unfold FJ at hb
    rw [e2] at hb
    exact (finv_loop_exit h hb hpre ho).1
  ifz := fun c ps a cond shift body rest s h => by
    have h1 := finv_if_enter h
    have hcs : (lhPro false false s).currentStart = ps := h.cs
    refine ⟨c, by unfold FJ; rw [hcs]; exact h1, ?_⟩
    intro sb u1 _ hb hpre
    unfold FJ at hb
    rw [hcs] at hb
    exact (finv_if_exit hb hpre).1

theorem finv_init : FInv [((0 : Nat), (0 : Nat))] 0 ({} : St w) := by
  refine ⟨rfl, ⟨0, [], rfl⟩, ?_, linv_init, ?_, ?_⟩
  · intro f hf; simp at hf; subst hf; exact Nat.le_refl _
  · intro t r L hr; simp at hr
  · refine ⟨?_, ?_, ?_, ?_, ?_, ?_⟩
    · intro f hf; simp at hf; subst hf; exact Nat.le_refl _
    · intro f hf; simp at hf; subst hf; exact Nat.le_refl _
    · intro f hf v ⟨idx, _, h2⟩; simp at h2
    · intro f hf t r L hr; simp at hr
    · intro e cnd off he; simp at he
    · intro e cnd off b1 he; simp at he

/-- **Loop back edges.** A value that is in range at the head of a loop is in range at its `brnz`. -/
theorem flowBack_of_emit {prog : Ir.Block w} {fuse : Bool} {s : St w} (h : emitState prog fuse = .ok s)
    (j : Nat) (cnd off : Int) (k' : Nat) (hj : s.insts[j]? = some (.brnz cnd off))
    (hk : (j : Int) + off = (k' : Int)) (t : Nat) (ht : InRange s t k') : InRange s t j := by
  have hF : FInv [((0 : Nat), (0 : Nat))] 0 s := closedI_emitState (closedI_finv fuse) h _ finv_init
  obtain ⟨r, L, g1, g2, g3, g4⟩ := ht
  have hle := hF.core.backLe j cnd off hj
  rcases hF.core.back j cnd off k' hj hk t r L g1 g2 g3 g4 with q | ⟨f, hf, q1, _⟩
  · exact ⟨r, L, g1, g2, by omega, q⟩
  · simp only [List.mem_singleton] at hf
    subst hf
    simp at q1

end AEmit
end C02
end Hpbf
