/-
Rebuild-round proofs, stage 3: the bridge to the loop-motion pack, part 2.

* `MotionData`: the static data of the loop-motion phase of `finishLoop`.
* `prefix_at`, `full_at`: the theorems of the pack, instantiated at a real head of the loop.
* `reads_agree`: at every head the transformed loop sees the same values as the real loop in the cells that are
  read.
-/
import Hpbf.Proofs.OptRbMotion1

namespace Hpbf
namespace OptProof
open Opt OptSem Ir

variable {w : Nat}

/-- The static data of the loop-motion phase. -/
structure MotionData (s : Rebuild w) (ps : List (Rebuild w)) (sub sub1 : Rebuild w) (cond : Int)
    (L : OptLoop w) (C : List Int) (B D A : List (Int × Expr w)) (os os' : Orders) : Prop where
  hC : constantsAmong s ps sub (sIns (possibleReads sub) cond ++
    (pendingSorted sub sub).filter (fun x => !(sIns (possibleReads sub) cond).contains x)) = .ok C
  hfold : (pendingSorted sub sub).foldlM
    (OptLoop.motionStepM s ps (sIns (possibleReads sub) cond) C
      (linearAmong s ps sub C (sIns (possibleReads sub) cond ++ pendingSorted sub sub))
      ((pendingSorted sub sub).filter (fun x => !C.contains x)) L) (sub, [], [], []) os
    = .ok ((sub1, B, D, A), os')
  reads : OptLoop.SAsc sub.reads
  wf : Wf sub
  canon : CanonSt sub
  canonP : CanonSt s

section Data
variable {s : Rebuild w} {ps : List (Rebuild w)} {sub sub1 : Rebuild w} {cond : Int} {L : OptLoop w}
  {C : List Int} {B D A : List (Int × Expr w)} {os os' : Orders}

theorem MotionData.allE (md : MotionData s ps sub sub1 cond L C B D A os os') :
    OptLoop.MotionAllE s ps sub (sIns (possibleReads sub) cond) C
      (linearAmong s ps sub C (sIns (possibleReads sub) cond ++ pendingSorted sub sub))
      ((pendingSorted sub sub).filter (fun x => !C.contains x)) L B D A :=
  (OptLoop.motionFold_spec_e s ps sub _ C _ _ L (pendingSorted sub sub) sub1 B D A os os'
    (OptLoop.nodup_pendingSorted sub sub md.wf.pend)
    (fun v p hp => (OptLoop.mem_pendingSorted sub sub v).2 (OptLoop.mem_mKeys_of_mGet hp)) md.hfold).2

theorem MotionData.nodup (md : MotionData s ps sub sub1 cond L C B D A os os') :
    (B.map (·.1)).Nodup ∧ (D.map (·.1)).Nodup ∧ (A.map (·.1)).Nodup :=
  OptLoop.motionFold_keys_nodup s ps sub _ C _ _ L (pendingSorted sub sub) sub1 B D A os os'
    (OptLoop.nodup_pendingSorted sub sub md.wf.pend) md.hfold

/-- What is read in the loop is not moved in front of it. -/
theorem MotionData.B_none (md : MotionData s ps sub sub1 cond L C B D A os os') {r : Int}
    (hr : (sIns (possibleReads sub) cond).contains r = true) : mGet B r = none := by
  cases hb : mGet B r with
  | none => rfl
  | some b =>
    obtain ⟨_, _, h, _⟩ := OptLoop.motionAllE_B_facts md.allE hb
    rw [hr] at h; cases h

theorem MotionData.B_none_const (md : MotionData s ps sub sub1 cond L C B D A os os') {r : Int}
    (hr : C.contains r = true) : mGet B r = none := by
  cases hb : mGet B r with
  | none => rfl
  | some b =>
    obtain ⟨_, _, _, h, _⟩ := OptLoop.motionAllE_B_facts md.allE hb
    rw [hr] at h; cases h

/-- In a loop that may run more than once, what is read keeps its place in the loop. -/
theorem MotionData.reads_notDiffer (md : MotionData s ps sub sub1 cond L C B D A os os')
    (hamo : L.atMostOnce = false) {r : Int} (hr : (sIns (possibleReads sub) cond).contains r = true) :
    ¬ OptLoop.Differ' C B D sub.pending r := by
  rintro (h | ⟨h1, h2, h3⟩)
  · exact h (md.B_none hr)
  · cases OptLoop.varBD md.allE.toBD r with
    | nopend hp _ _ => exact h1 hp
    | gone p _ _ _ hc _ => rw [hc] at h3; cases h3
    | after p p' _ _ _ _ hra =>
      rcases hra with h | h
      · rw [hr] at h; cases h
      · rw [hamo] at h; cases h
    | moved p b _ _ hrd _ _ => rw [hr] at hrd; cases hrd
    | stay p p' _ _ hd _ => rw [hd] at h2; cases h2

theorem MotionData.const_notDiffer (md : MotionData s ps sub sub1 cond L C B D A os os')
    {c : Int} (hc : C.contains c = true) : ¬ OptLoop.Differ' C B D sub.pending c := by
  rintro (h | ⟨_, _, h3⟩)
  · exact h (md.B_none_const hc)
  · rw [hc] at h3; cases h3

end Data

/-! ### the pack at a real head -/

theorem memE_movNeg {shP : Int} {s : Rebuild w} {ps : List (Rebuild w)} {M0 : Mem w} {σE σS : State w}
    (h : RelAt shP s ps M0 σE σS) : memE (σS.mov (-shP)) = memS σE σS := by
  funext v
  show σS.tape.get (σS.ptr + -shP + v) = σS.tape.get (σE.ptr + v)
  rw [h.ptr]; congr 1; omega

section At
variable {Gc : State w → Prop} {shP shC shS cS : Int} {bodyS : List (Instr w)}
  {s : Rebuild w} {ps : List (Rebuild w)} {sub0 sub sub1 : Rebuild w} {σS σE : State w} {M0 : Mem w}
  {L : OptLoop w} {C : List Int} {B D A : List (Int × Expr w)} {os os' : Orders}
  (τ0 : State w)

/-- The prefix theorem of the loop-motion pack at a real head `N`. -/
theorem MotionData.prefix_at (md : MotionData s ps sub sub1 (cS + shP) L C B D A os os')
    (hc : BalChild Gc shP shC shS cS bodyS s ps sub0 sub)
    (hGcH : ∀ k σk, Head cS shS bodyS σS k σk → σk.rd cS ≠ 0#w → Gc σk)
    (hrel : RelAt shP s ps M0 σE σS) {N : Nat} {σN : State w} (hN : Head cS shS bodyS σS N σN)
    (hamo : L.atMostOnce = true → N ≤ 1) :
    (∀ k, k ≤ N → ∀ v, ¬ OptLoop.Differ' C B D sub.pending v →
      OptLoop.run (MCtx.mk cS shS shP bodyS σS sub D τ0).absBody D
        (Mem.par B (memE (σS.mov (-shP)))) k v =
      OptLoop.run (MCtx.mk cS shS shP bodyS σS sub D τ0).absBody sub.pending (memE (σS.mov (-shP))) k v) ∧
    (∀ k, k ≤ N → ∀ c, C.contains c = true →
      OptLoop.run (MCtx.mk cS shS shP bodyS σS sub D τ0).absBody sub.pending (memE (σS.mov (-shP))) k c =
      memE (σS.mov (-shP)) c) := by
  obtain ⟨hb, hgb, hNI, hfr⟩ := motion_hyps D τ0 hc md.canon hGcH hN
  have hm0 : memE (σS.mov (-shP)) = memS σE σS := memE_movNeg hrel
  have hcmp : ∀ v e, Expr.Canon e → Opt.compare s ps (Expr.var v) e = .ok true →
      ev e (memE (σS.mov (-shP))) = memE (σS.mov (-shP)) v := by
    intro v e he hcm
    rw [hm0]
    have := compare_sound hrel.inv md.canonP (Expr.canon_var v) he hcm
    rw [← this]
    exact Expr.eval_var v _
  have hknown : ∀ i c, getConstant s ps i = some c → memE (σS.mov (-shP)) i = c := by
    intro i c hi
    rw [hm0]; exact getConstant_sound hrel.inv hi
  obtain ⟨_, _, _, h2, _⟩ := OptLoop.finishLoop_prefix_sound_c s ps sub sub1 (cS + shP) L C B D A os os'
    (memE (σS.mov (-shP))) (MCtx.mk cS shS shP bodyS σS sub D τ0).absBody N N md.hC md.hfold md.reads
    md.wf.pend md.canon.1 md.canon.2 hcmp hknown hb hgb (fun k hk m' Z _ h => hNI k hk m' Z h) hfr
    (Nat.le_refl N) hamo
  have ctx := OptLoop.finishLoop_ctx_c s ps sub (cS + shP) C (memE (σS.mov (-shP)))
    (MCtx.mk cS shS shP bodyS σS sub D τ0).absBody N md.hC md.reads md.wf.pend md.canon.1 md.canon.2 hcmp
    hknown hb hgb
  exact ⟨h2, ctx.constRun⟩

/-- The full theorem of the loop-motion pack at the exit head `n`. -/
theorem MotionData.full_at (hw : 0 < w) (md : MotionData s ps sub sub1 (cS + shP) L C B D A os os')
    (hc : BalChild Gc shP shC shS cS bodyS s ps sub0 sub)
    (hGcH : ∀ k σk, Head cS shS bodyS σS k σk → σk.rd cS ≠ 0#w → Gc σk)
    (hrel : RelAt shP s ps M0 σE σS) {n : Nat} {σn : State w} (hn : Head cS shS bodyS σS n σn)
    (htrip : OptLoop.TripFacts L n (memE (σS.mov (-shP)))) (hamo : L.atMostOnce = true → n ≤ 1)
    (hne : L.noEffect = true → n = 0) :
    (0 < n → Mem.par A (OptLoop.run (MCtx.mk cS shS shP bodyS σS sub D τ0).absBody D
        (Mem.par B (memE (σS.mov (-shP)))) n) =
      OptLoop.run (MCtx.mk cS shS shP bodyS σS sub D τ0).absBody sub.pending (memE (σS.mov (-shP))) n) ∧
    (n = 0 → Mem.par B (memE (σS.mov (-shP))) = memE (σS.mov (-shP))) := by
  obtain ⟨hb, hgb, hNI, hfr⟩ := motion_hyps D τ0 hc md.canon hGcH hn
  have hm0 : memE (σS.mov (-shP)) = memS σE σS := memE_movNeg hrel
  have hcmp : ∀ v e, Expr.Canon e → Opt.compare s ps (Expr.var v) e = .ok true →
      ev e (memE (σS.mov (-shP))) = memE (σS.mov (-shP)) v := by
    intro v e he hcm
    rw [hm0]
    have := compare_sound hrel.inv md.canonP (Expr.canon_var v) he hcm
    rw [← this]
    exact Expr.eval_var v _
  have hknown : ∀ i c, getConstant s ps i = some c → memE (σS.mov (-shP)) i = c := by
    intro i c hi
    rw [hm0]; exact getConstant_sound hrel.inv hi
  obtain ⟨_, _, _, _, _, h5, h6⟩ := OptLoop.finishLoop_motion_sound_c hw s ps sub sub1 (cS + shP) L C B D A
    os os' (memE (σS.mov (-shP))) (MCtx.mk cS shS shP bodyS σS sub D τ0).absBody n n md.hC md.hfold md.reads
    md.wf.pend md.canon.1 md.canon.2 hcmp hknown hb hgb (fun k hk m' Z _ h => hNI k hk m' Z h) hfr
    (Nat.le_refl n) htrip hamo hne
  exact ⟨h5, h6⟩

end At

end OptProof
end Hpbf
