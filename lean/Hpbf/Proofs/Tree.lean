/-
Direction-agnostic description of "the text `code[i..j)` is the program `p`" (`Repr`) and the
soundness / completeness of `Bf.tree` with respect to it.  Also: `Repr` is functional, a represented
segment is bracket-balanced, and the forward scan of the in-place interpreter started just after a
`[` stops exactly at the partner `]`.
-/
import Hpbf.Bf
import Hpbf.Inplace

namespace Hpbf

/-- The simple command denoted by a source character, if any. -/
def Kind.toOp? : Kind → Option Op
  | .inc => some .inc
  | .dec => some .dec
  | .left => some .left
  | .right => some .right
  | .inp => some .inp
  | .out => some .out
  | .open => none
  | .close => none
  | .comment => none

/-- `Repr code i j p`: the text `code[i..j)` represents the bracket tree `p`. -/
inductive Repr (code : List Kind) : Nat → Nat → Prog → Prop
  | nil (i : Nat) (h : i ≤ code.length) : Repr code i i .nil
  | comment {i j : Nat} {p : Prog} :
      code[i]? = some .comment → Repr code (i + 1) j p → Repr code i j p
  | cmd {i j : Nat} {k : Kind} {op : Op} {p : Prog} :
      code[i]? = some k → Kind.toOp? k = some op → Repr code (i + 1) j p →
      Repr code i j (.cmd op p)
  | loop {i k j : Nat} {body rest : Prog} :
      code[i]? = some .open → Repr code (i + 1) k body → code[k]? = some .close →
      Repr code (k + 1) j rest → Repr code i j (.loop body rest)

namespace Repr

variable {code : List Kind}

theorem le {i j : Nat} {p : Prog} (h : Repr code i j p) : i ≤ j := by
  induction h with
  | nil i h => exact Nat.le_refl _
  | comment _ _ ih => omega
  | cmd _ _ _ ih => omega
  | loop _ _ _ _ ih1 ih2 => omega

theorem le_length {i j : Nat} {p : Prog} (h : Repr code i j p) : j ≤ code.length := by
  induction h with
  | nil i h => exact h
  | comment _ _ ih => exact ih
  | cmd _ _ _ ih => exact ih
  | loop _ _ _ _ _ ih2 => exact ih2

/-- A segment that starts where it ends is the empty program. -/
theorem eq_nil_of_eq {i j : Nat} {p : Prog} (h : Repr code i j p) (hij : j ≤ i) : p = .nil := by
  cases h with
  | nil => rfl
  | comment _ h' => have := h'.le; omega
  | cmd _ _ h' => have := h'.le; omega
  | loop _ h1 _ h2 => have := h1.le; have := h2.le; omega

/-! ### Inversion by the character at the start of the segment -/

theorem inv_none {i j : Nat} {p : Prog} (h : Repr code i j p) (hi : code[i]? = none) :
    i = j ∧ p = .nil := by
  cases h with
  | nil => exact ⟨rfl, rfl⟩
  | comment hc _ => simp [hi] at hc
  | cmd hc _ _ => simp [hi] at hc
  | loop hc _ _ _ => simp [hi] at hc

theorem inv_close {i j : Nat} {p : Prog} (h : Repr code i j p) (hi : code[i]? = some .close) :
    i = j ∧ p = .nil := by
  cases h with
  | nil => exact ⟨rfl, rfl⟩
  | comment hc _ => simp [hi] at hc
  | cmd hc hop _ =>
    rw [hi] at hc; cases hc; simp [Kind.toOp?] at hop
  | loop hc _ _ _ => simp [hi] at hc

theorem inv_comment {i j : Nat} {p : Prog} (h : Repr code i j p)
    (hi : code[i]? = some .comment) (hij : i ≠ j) : Repr code (i + 1) j p := by
  cases h with
  | nil => exact absurd rfl hij
  | comment _ h' => exact h'
  | cmd hc hop _ =>
    rw [hi] at hc; cases hc; simp [Kind.toOp?] at hop
  | loop hc _ _ _ => simp [hi] at hc

theorem inv_cmd {i j : Nat} {p : Prog} {k : Kind} {op : Op} (h : Repr code i j p)
    (hi : code[i]? = some k) (hk : Kind.toOp? k = some op) (hij : i ≠ j) :
    ∃ p', p = .cmd op p' ∧ Repr code (i + 1) j p' := by
  cases h with
  | nil => exact absurd rfl hij
  | comment hc _ =>
    rw [hi] at hc; cases hc; simp [Kind.toOp?] at hk
  | cmd hc hop h' =>
    rw [hi] at hc; cases hc
    rw [hk] at hop; cases hop
    exact ⟨_, rfl, h'⟩
  | loop hc _ _ _ =>
    rw [hi] at hc; cases hc; simp [Kind.toOp?] at hk

theorem inv_open {i j : Nat} {p : Prog} (h : Repr code i j p)
    (hi : code[i]? = some .open) (hij : i ≠ j) :
    ∃ k body rest, p = .loop body rest ∧ Repr code (i + 1) k body ∧ code[k]? = some .close ∧
      Repr code (k + 1) j rest := by
  cases h with
  | nil => exact absurd rfl hij
  | comment hc _ => simp [hi] at hc
  | cmd hc hop _ =>
    rw [hi] at hc; cases hc; simp [Kind.toOp?] at hop
  | loop _ h1 hk h2 => exact ⟨_, _, _, rfl, h1, hk, h2⟩

end Repr

/-! ### Bracket depth: a represented segment is balanced -/

/-- Contribution of one character to the nesting depth. -/
def Kind.delta : Kind → Int
  | .open => 1
  | .close => -1
  | _ => 0

/-- Nesting depth change over a piece of text: (number of `[`) - (number of `]`). -/
def depth : List Kind → Int
  | [] => 0
  | k :: ks => k.delta + depth ks

theorem depth_append (a b : List Kind) : depth (a ++ b) = depth a + depth b := by
  induction a with
  | nil => simp [depth]
  | cons k ks ih => simp [depth, ih, Int.add_assoc]

/-- Depth of the first `n` characters. -/
def depthTo (code : List Kind) (n : Nat) : Int := depth (code.take n)

theorem depthTo_succ {code : List Kind} {n : Nat} {k : Kind} (h : code[n]? = some k) :
    depthTo code (n + 1) = depthTo code n + k.delta := by
  obtain ⟨hn, hk⟩ := List.getElem?_eq_some_iff.mp h
  unfold depthTo
  rw [List.take_succ_eq_append_getElem hn, depth_append, hk]
  simp [depth]

theorem Kind.delta_of_toOp? {k : Kind} {op : Op} (h : Kind.toOp? k = some op) : k.delta = 0 := by
  cases k <;> simp [Kind.toOp?] at h <;> rfl

/-- Depth of the segment `code[i..m)`. -/
def segDepth (code : List Kind) (i m : Nat) : Int := depth ((code.drop i).take (m - i))

theorem segDepth_eq {code : List Kind} {i m : Nat} (h : i ≤ m) :
    segDepth code i m = depthTo code m - depthTo code i := by
  unfold segDepth depthTo
  have : code.take m = code.take i ++ (code.drop i).take (m - i) := by
    have hm : m = i + (m - i) := by omega
    conv => lhs; rw [hm]
    exact List.take_add
  rw [this, depth_append]; omega

namespace Repr
variable {code : List Kind}

/-- The total depth of a represented segment is zero. -/
theorem depthTo_eq {i j : Nat} {p : Prog} (h : Repr code i j p) :
    depthTo code j = depthTo code i := by
  induction h with
  | nil => rfl
  | comment hc _ ih => rw [ih, depthTo_succ hc]; simp [Kind.delta]
  | cmd hc hop _ ih => rw [ih, depthTo_succ hc, Kind.delta_of_toOp? hop]; simp
  | loop ho _ hk _ ih1 ih2 =>
    rw [ih2, depthTo_succ hk, ih1, depthTo_succ ho]; simp [Kind.delta]; omega

/-- Every prefix of a represented segment has non-negative depth. -/
theorem depthTo_le {i j : Nat} {p : Prog} (h : Repr code i j p) :
    ∀ m, i ≤ m → m ≤ j → depthTo code i ≤ depthTo code m := by
  induction h with
  | nil i _ => intro m h1 h2; have : m = i := by omega
               subst this; exact Int.le_refl _
  | @comment i j p hc _ ih =>
    intro m h1 h2
    by_cases hm : m = i
    · subst hm; exact Int.le_refl _
    · have := ih m (by omega) h2
      rw [depthTo_succ hc] at this; simp [Kind.delta] at this; exact this
  | @cmd i j k op p hc hop _ ih =>
    intro m h1 h2
    by_cases hm : m = i
    · subst hm; exact Int.le_refl _
    · have := ih m (by omega) h2
      rw [depthTo_succ hc, Kind.delta_of_toOp? hop] at this; simp at this; exact this
  | @loop i k j body rest ho hb hk hr ih1 ih2 =>
    intro m h1 h2
    by_cases hm : m = i
    · subst hm; exact Int.le_refl _
    · by_cases hmk : m ≤ k
      · have := ih1 m (by omega) hmk
        rw [depthTo_succ ho] at this; simp [Kind.delta] at this; omega
      · have := ih2 m (by omega) h2
        rw [depthTo_succ hk, hb.depthTo_eq, depthTo_succ ho] at this
        simp [Kind.delta] at this; omega

/-- A represented segment is bracket-balanced: every prefix `code[i..m)` has depth `≥ 0`
(no `]` inside closes a bracket opened before `i`) and the whole segment has depth `0`. -/
theorem balanced {i j : Nat} {p : Prog} (h : Repr code i j p) :
    segDepth code i j = 0 ∧ ∀ m, i ≤ m → m ≤ j → 0 ≤ segDepth code i m := by
  refine ⟨?_, ?_⟩
  · rw [segDepth_eq h.le, h.depthTo_eq]; omega
  · intro m h1 h2
    rw [segDepth_eq h1]; have := h.depthTo_le m h1 h2; omega

end Repr

/-! ### The forward scan of the in-place interpreter -/

section Scan
variable {code : List Kind}

theorem scan_succ_of_plain {fuel pc cnt : Nat} {k : Kind} (h : code[pc]? = some k)
    (hd : k.delta = 0) :
    Inplace.scan code.toArray (fuel + 1) pc cnt = Inplace.scan code.toArray fuel (pc + 1) cnt := by
  cases k <;> simp [Kind.delta] at hd <;> simp [Inplace.scan, h]

theorem scan_succ_of_open {fuel pc cnt : Nat} (h : code[pc]? = some .open) :
    Inplace.scan code.toArray (fuel + 1) pc cnt =
      Inplace.scan code.toArray fuel (pc + 1) (cnt + 1) := by
  simp [Inplace.scan, h]

theorem scan_succ_of_close {fuel pc cnt : Nat} (h : code[pc]? = some .close) :
    Inplace.scan code.toArray (fuel + 1) pc (cnt + 1) =
      Inplace.scan code.toArray fuel (pc + 1) cnt := by
  simp [Inplace.scan, h]

theorem scan_stop_of_close {fuel pc : Nat} (h : code[pc]? = some .close) :
    Inplace.scan code.toArray (fuel + 1) pc 0 = pc := by
  simp [Inplace.scan, h]

/-- Scanning across a represented segment leaves the nesting counter unchanged. -/
theorem scan_skip {i j : Nat} {p : Prog} (h : Repr code i j p) :
    ∀ fuel cnt, j - i ≤ fuel →
      Inplace.scan code.toArray fuel i cnt = Inplace.scan code.toArray (fuel - (j - i)) j cnt := by
  induction h with
  | nil i _ => intro fuel cnt _; simp
  | @comment i j p hc hr ih =>
    intro fuel cnt hf
    have := hr.le
    obtain ⟨f, rfl⟩ : ∃ f, fuel = f + 1 := ⟨fuel - 1, by omega⟩
    rw [scan_succ_of_plain hc rfl, ih f cnt (by omega)]
    congr 1; omega
  | @cmd i j k op p hc hop hr ih =>
    intro fuel cnt hf
    have := hr.le
    obtain ⟨f, rfl⟩ : ∃ f, fuel = f + 1 := ⟨fuel - 1, by omega⟩
    rw [scan_succ_of_plain hc (Kind.delta_of_toOp? hop), ih f cnt (by omega)]
    congr 1; omega
  | @loop i k j body rest ho hb hk hr ih1 ih2 =>
    intro fuel cnt hf
    have := hb.le
    have := hr.le
    obtain ⟨f, rfl⟩ : ∃ f, fuel = f + 1 := ⟨fuel - 1, by omega⟩
    rw [scan_succ_of_open ho, ih1 f (cnt + 1) (by omega)]
    obtain ⟨g, hg⟩ : ∃ g, f - (k - (i + 1)) = g + 1 := ⟨f - (k - (i + 1)) - 1, by omega⟩
    rw [hg, scan_succ_of_close hk, ih2 g cnt (by omega)]
    congr 1; omega

/-- The forward scan started just after a `[` stops exactly at its partner `]`. -/
theorem scan_finds_match {i k : Nat} {body : Prog} (hb : Repr code (i + 1) k body)
    (hk : code[k]? = some .close) :
    Inplace.scan code.toArray (code.length - (i + 1)) (i + 1) 0 = k := by
  have hlt : k < code.length := (List.getElem?_eq_some_iff.mp hk).1
  have := hb.le
  rw [scan_skip hb _ 0 (by omega)]
  obtain ⟨g, hg⟩ : ∃ g, code.length - (i + 1) - (k - (i + 1)) = g + 1 :=
    ⟨code.length - (i + 1) - (k - (i + 1)) - 1, by omega⟩
  rw [hg, scan_stop_of_close hk]

/-- The partner of a `[` is unique. -/
theorem Repr.match_unique {i k k' : Nat} {b b' : Prog} (h : Repr code (i + 1) k b)
    (hk : code[k]? = some .close) (h' : Repr code (i + 1) k' b') (hk' : code[k']? = some .close) :
    k = k' := by
  rw [← scan_finds_match h hk, ← scan_finds_match h' hk']

end Scan

/-- `Repr` is functional: a segment represents at most one program. -/
theorem Repr.functional {code : List Kind} {i j : Nat} {p q : Prog} (h : Repr code i j p) :
    Repr code i j q → p = q := by
  induction h generalizing q with
  | nil i _ => intro h2; exact (h2.eq_nil_of_eq (Nat.le_refl _)).symm
  | @comment i j p hc hr ih =>
    intro h2
    have := hr.le
    exact ih (h2.inv_comment hc (by omega))
  | @cmd i j k op p hc hop hr ih =>
    intro h2
    have := hr.le
    obtain ⟨p', rfl, h'⟩ := h2.inv_cmd hc hop (by omega)
    rw [ih h']
  | @loop i k j body rest ho hb hk hr ih1 ih2 =>
    intro h2
    have := hb.le
    have := hr.le
    obtain ⟨k', body', rest', rfl, hb', hk', hr'⟩ := h2.inv_open ho (by omega)
    have : k = k' := Repr.match_unique hb hk hb' hk'
    subst this
    rw [ih1 hb', ih2 hr']

/-! ### Soundness of `Bf.tree` -/

/-- The suspended continuations of `Bf.treeRev`: `Stk code e stack` says the current segment ends
at the `]` at position `e` (or at the end of the text when the stack is empty), the head of the
stack represents the text after that `]` up to the next unmatched `]`, and so on. -/
inductive Stk (code : List Kind) : Nat → List Prog → Prop
  | nil : Stk code code.length []
  | cons {e e' : Nat} {r : Prog} {rest : List Prog} :
      code[e]? = some .close → Repr code (e + 1) e' r → Stk code e' rest → Stk code e (r :: rest)

theorem take_succ_reverse {code : List Kind} {n : Nat} {k : Kind} (h : code[n]? = some k) :
    (code.take (n + 1)).reverse = k :: (code.take n).reverse := by
  obtain ⟨hn, hk⟩ := List.getElem?_eq_some_iff.mp h
  rw [List.take_succ_eq_append_getElem hn, hk]; simp

theorem treeRev_sound {code : List Kind} {p : Prog} :
    ∀ n, n ≤ code.length → ∀ cur stack e, Repr code n e cur → Stk code e stack →
      Bf.treeRev (code.take n).reverse cur stack = some p → Repr code 0 code.length p := by
  intro n
  induction n with
  | zero =>
    intro _ cur stack e hr hs ht
    cases hs with
    | nil => simp [Bf.treeRev] at ht; subst ht; exact hr
    | cons _ _ _ => simp [Bf.treeRev] at ht
  | succ n ih =>
    intro hn cur stack e hr hs ht
    have hlt : n < code.length := by omega
    have hk : code[n]? = some code[n] := List.getElem?_eq_getElem hlt
    rw [take_succ_reverse hk] at ht
    generalize code[n] = k at hk ht
    have hn' : n ≤ code.length := by omega
    cases k with
    | close =>
      simp only [Bf.treeRev] at ht
      exact ih hn' _ _ n (Repr.nil n hn') (Stk.cons hk hr hs) ht
    | «open» =>
      cases hs with
      | nil => simp [Bf.treeRev] at ht
      | cons hc hr' hs' =>
        simp only [Bf.treeRev] at ht
        exact ih hn' _ _ _ (Repr.loop hk hr hc hr') hs' ht
    | comment =>
      simp only [Bf.treeRev] at ht
      exact ih hn' _ _ _ (Repr.comment hk hr) hs ht
    | inc => simp only [Bf.treeRev] at ht; exact ih hn' _ _ _ (Repr.cmd hk rfl hr) hs ht
    | dec => simp only [Bf.treeRev] at ht; exact ih hn' _ _ _ (Repr.cmd hk rfl hr) hs ht
    | left => simp only [Bf.treeRev] at ht; exact ih hn' _ _ _ (Repr.cmd hk rfl hr) hs ht
    | right => simp only [Bf.treeRev] at ht; exact ih hn' _ _ _ (Repr.cmd hk rfl hr) hs ht
    | inp => simp only [Bf.treeRev] at ht; exact ih hn' _ _ _ (Repr.cmd hk rfl hr) hs ht
    | out => simp only [Bf.treeRev] at ht; exact ih hn' _ _ _ (Repr.cmd hk rfl hr) hs ht

/-- If `Bf.tree` returns a tree, the whole text represents it. -/
theorem tree_sound {code : List Kind} {p : Prog} (h : Bf.tree code = some p) :
    Repr code 0 code.length p := by
  unfold Bf.tree at h
  have : code.reverse = (code.take code.length).reverse := by simp
  rw [this] at h
  exact treeRev_sound code.length (Nat.le_refl _) .nil [] code.length
    (Repr.nil _ (Nat.le_refl _)) Stk.nil h

/-! ### Completeness of `Bf.tree` -/

/-- Replace the final `.nil` of `p` by `q`. -/
def Prog.append : Prog → Prog → Prog
  | .nil, q => q
  | .cmd c r, q => .cmd c (Prog.append r q)
  | .loop b r, q => .loop b (Prog.append r q)

theorem Prog.append_nil (p : Prog) : Prog.append p .nil = p := by
  induction p with
  | nil => rfl
  | cmd c r ih => simp [Prog.append, ih]
  | loop b r _ ih => simp [Prog.append, ih]

theorem treeRev_complete {code : List Kind} {i j : Nat} {p : Prog} (h : Repr code i j p) :
    ∀ cur stack, Bf.treeRev (code.take j).reverse cur stack =
      Bf.treeRev (code.take i).reverse (Prog.append p cur) stack := by
  induction h with
  | nil => intro cur stack; rfl
  | comment hc _ ih =>
    intro cur stack
    rw [ih, take_succ_reverse hc]; simp only [Bf.treeRev]
  | @cmd i j k op p hc hop _ ih =>
    intro cur stack
    rw [ih, take_succ_reverse hc]
    cases k <;> simp [Kind.toOp?] at hop <;> subst hop <;> simp only [Bf.treeRev, Prog.append]
  | loop ho _ hk _ ih1 ih2 =>
    intro cur stack
    rw [ih2, take_succ_reverse hk]
    simp only [Bf.treeRev]
    rw [ih1, take_succ_reverse ho]
    simp only [Bf.treeRev, Prog.append, Prog.append_nil]

/-- If the whole text represents `p`, `Bf.tree` returns `p`. -/
theorem tree_complete {code : List Kind} {p : Prog} (h : Repr code 0 code.length p) :
    Bf.tree code = some p := by
  unfold Bf.tree
  have := treeRev_complete h .nil []
  simp only [List.take_length, List.take_zero, List.reverse_nil, Prog.append_nil] at this
  rw [this]; rfl

/-- `Bf.tree code = some p` iff the whole text represents `p`. -/
theorem tree_iff {code : List Kind} {p : Prog} :
    Bf.tree code = some p ↔ Repr code 0 code.length p :=
  ⟨tree_sound, tree_complete⟩

end Hpbf
