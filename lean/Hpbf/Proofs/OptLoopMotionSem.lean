/-
Loop optimisations of `Hpbf/Opt.lean`, part C (continued): the closed forms of `loopMotion` are right.

For a variable that `loopMotion` moves (`tri`, `geo0`, `geo` outcomes) `MovedSem` says: the value of the
variable after `n` rounds of the ORIGINAL loop is the value of the `before` expression at loop entry plus the
sum, over the rounds, of what the `during` expression still adds (`dinc`, evaluated in the middle of the
rounds of the original run).
-/
import Hpbf.Proofs.OptLoopMotion

namespace Hpbf.OptLoop
open Hpbf Opt OptSem Expr

variable {w : Nat}

/-- What is known along the original run `M k = run body sub.pending m0 k` (all of it is provided by
`constantsAmong_sound`, `linearAmong_sound` and the main prover's soundness of `getConstant`). -/
structure MotionCtx (s : Rebuild w) (ps : List (Rebuild w)) (sub : Rebuild w) (C : List Int)
    (lin : List (Int × Expr w)) (m0 : Mem w) (body : Nat → Mem w → Mem w) : Prop where
  const : ∀ k c, C.contains c = true →
    run body sub.pending m0 k c = m0 c ∧ mid body sub.pending m0 k c = m0 c
  known : ∀ i c, C.contains i = true → getConstant s ps i = some c → m0 i = c
  lin : ∀ v inc, mGet lin v = some inc → LinSound sub C (run body sub.pending m0) v inc
  body : BodyFacts sub body (run body sub.pending m0)

/-- The trip count: every trip-count expression of the analysis evaluates, at loop entry, to the number of
rounds `n`, which is below `2^w` and fits `triStep`. -/
def TripFacts (L : OptLoop w) (n : Nat) (m0 : Mem w) : Prop :=
  ∀ expr, L.expr = some expr → ev expr m0 = BitVec.ofNat w n ∧ n < 2 ^ w ∧ TriOk expr n m0

/-- Meaning of a moved variable (see the header). -/
def MovedSem (sub : Rebuild w) (body : Nat → Mem w → Mem w) (m0 : Mem w) (n : Nat) (var : Int) (p : Expr w)
    (b : Expr w) (d : Option (Expr w)) : Prop :=
  ∃ dinc : Expr w,
    (d = some (Expr.add (Expr.var var) dinc) ∨ (d = none ∧ dinc = [])) ∧
    (∀ x ∈ Expr.variables dinc, x ∈ Expr.variables p ∧ x ≠ var) ∧
    ev b m0 + accN (fun k => ev dinc (mid body sub.pending m0 k)) n = run body sub.pending m0 n var

theorem prodIncOf_sub {e r : Expr w} {v : Int} {m : BitVec w} (h : Expr.prodIncOf e v = some (r, m)) :
    ∀ q ∈ r, q ∈ e := by
  unfold Expr.prodIncOf at h
  split at h
  · simp only [Option.some.injEq, Prod.mk.injEq] at h
    intro q hq
    rw [← h.1] at hq
    exact (List.mem_filter.1 hq).1
  · cases h

section
variable {s : Rebuild w} {ps : List (Rebuild w)} {sub : Rebuild w} {C : List Int}
  {lin : List (Int × Expr w)} {m0 : Mem w} {body : Nat → Mem w → Mem w}

/-- `reduceConst` does not change the value in the middle of a round. -/
theorem reduce_mid (ctx : MotionCtx s ps sub C lin m0 body) {p p' : Expr w}
    (hp' : reduceConst s ps p C = .ok p') (k : Nat) :
    ev p' (mid body sub.pending m0 k) = ev p (mid body sub.pending m0 k) :=
  reduceConst_value s ps p p' C hp' _ (fun i _ hi c hc => by
    rw [(ctx.const k i hi).2]; exact ctx.known i c hi hc)

/-- … nor at the start of a round. -/
theorem reduce_run (ctx : MotionCtx s ps sub C lin m0 body) {p p' : Expr w}
    (hp' : reduceConst s ps p C = .ok p') (k : Nat) :
    ev p' (run body sub.pending m0 k) = ev p (run body sub.pending m0 k) :=
  reduceConst_value s ps p p' C hp' _ (fun i _ hi c hc => by
    rw [(ctx.const k i hi).1]; exact ctx.known i c hi hc)

/-- An expression over constants has the same value in the middle of every round. -/
theorem ev_mid_const (ctx : MotionCtx s ps sub C lin m0 body) (e : Expr w)
    (he : ∀ x ∈ Expr.variables e, C.contains x = true) (k : Nat) :
    ev e (mid body sub.pending m0 k) = ev e m0 :=
  ev_congr e _ _ (fun x hx => (ctx.const k x (he x hx)).2)

/-- A linear part in the middle of round `k`: initial value plus `k` times the increment. -/
theorem linPart_mid (ctx : MotionCtx s ps sub C lin m0 body) {e : Expr w} {il : Expr w × Expr w}
    (h : LinPart C lin e il) (k : Nat) :
    ev il.1 (mid body sub.pending m0 k) = ev il.1 m0 + BitVec.ofNat w k * ev il.2 m0 := by
  obtain ⟨part, lv, l, _, _, _, _, hl, hall, hval⟩ := linPart_value h
  have hls := ctx.lin lv l hl
  have hq : ev [incPart part lv] (mid body sub.pending m0 k) = ev [incPart part lv] m0 := by
    apply ev_mid_const ctx
    intro x hx
    have hx' : x ∈ part.vars.filter (fun x => !(x == lv)) := by
      simpa [Expr.variables, incPart] using hx
    obtain ⟨hxm, hne⟩ := List.mem_filter.1 hx'
    rcases hall x hxm with rfl | hc
    · simp at hne
    · exact hc
  have hlv : mid body sub.pending m0 k lv = m0 lv + BitVec.ofNat w k * ev l m0 := by
    rw [mid, ctx.body.unwritten k lv hls.unwritten, hls.closed k]; rfl
  rw [(hval _).1, (hval m0).1, (hval m0).2, hq, hlv]
  generalize ev [incPart part lv] m0 = q
  generalize ev l m0 = l0
  generalize m0 lv = a
  bvring

/-- `tri` outcome. -/
theorem tri_sem (ctx : MotionCtx s ps sub C lin m0 body) {var : Int} {p p' expr inc cst other : Expr w}
    {linears : List (Expr w × Expr w)} {n : Nat}
    (hp : mGet sub.pending var = some p) (hunw : mGet sub.written var = none) (hcanon : Canon p)
    (hp' : reduceConst s ps p C = .ok p')
    (hev : ev expr m0 = BitVec.ofNat w n) (htri : TriOk expr n m0)
    (hpi : Expr.prodIncOf p' var = some (inc, 1#w))
    (hsplit : splitAlong inc C lin = .ok (cst, other, linears)) :
    MovedSem sub body m0 n var p
      (Expr.add (Expr.var var) (linears.foldl (triFoldStep expr) (Expr.mul expr cst, other)).1)
      (some (Expr.add (Expr.var var) (linears.foldl (triFoldStep expr) (Expr.mul expr cst, other)).2)) := by
  obtain ⟨hrec, hcstv, hcstsub, hothsub, hlinp⟩ := splitAlong_recompose inc C lin cst other linears hsplit
  have hwc : WeakCanon p' := C15.canon_implies_weakCanon (reduceConst_canon s ps p p' C hp' hcanon)
  -- one round
  have hstep : ∀ k, k < n → run body sub.pending m0 (k + 1) var
      = run body sub.pending m0 k var + ev inc (mid body sub.pending m0 k) := by
    intro k _
    rw [run_pending hp, ← reduce_mid ctx hp' k]
    show evaluate p' _ = _
    rw [C15.prodIncOf_recompose p' inc var 1#w _ hwc hpi, mid, ctx.body.unwritten k var hunw,
      BitVec.one_mul]
    rfl
  have hsum := accN_run (fun k => run body sub.pending m0 k var)
    (fun k => ev inc (mid body sub.pending m0 k)) n hstep
  simp only [run_zero] at hsum
  -- the increment, round by round
  have hinc : ∀ k, ev inc (mid body sub.pending m0 k)
      = ev cst m0 + ev other (mid body sub.pending m0 k)
        + sumL (fun il => ev il.1 m0 + BitVec.ofNat w k * ev il.2 m0) linears := by
    intro k
    rw [hrec, ev_mid_const ctx cst hcstv k]
    congr 1
    clear hsum hstep hsplit hrec
    induction linears with
    | nil => rfl
    | cons il linears ih =>
      simp only [sumL_cons]
      rw [linPart_mid ctx (hlinp il List.mem_cons_self) k,
        ih (fun il' h' => hlinp il' (List.mem_cons_of_mem _ h'))]
  have hacc : accN (fun k => ev inc (mid body sub.pending m0 k)) n
      = BitVec.ofNat w n * ev cst m0 + accN (fun k => ev other (mid body sub.pending m0 k)) n
        + sumL (fun il => C01Opt.tri (ev il.1 m0) (ev il.2 m0) n) linears := by
    rw [accN_congr _ _ n (fun k _ => hinc k), accN_add, accN_add, accN_const, accN_sumL]
    congr 1
    clear hinc hsum hstep hsplit hrec hlinp
    induction linears with
    | nil => rfl
    | cons il linears _ => simp only [sumL_cons, accN_lin]
  obtain ⟨hfold, hfvars⟩ := triFold_spec expr n m0 (mid body sub.pending m0) htri linears
    (fun il hil k => linPart_mid ctx (hlinp il hil) k) (Expr.mul expr cst, other)
  refine ⟨_, Or.inl rfl, ?_, ?_⟩
  · intro x hx
    obtain ⟨q, hq, hxq⟩ := mem_variables.1 hx
    have hqinc : ∃ t ∈ inc, q.vars = t.vars := by
      rcases hfvars q hq with ⟨t, ht, e⟩ | ⟨il, hil, t, ht, e⟩
      · exact ⟨t, hothsub t ht, e⟩
      · obtain ⟨part, lv, l, hpe, h1, _⟩ := hlinp il hil
        rw [h1] at ht
        simp only [List.mem_singleton] at ht
        subst ht
        exact ⟨t, hpe, e⟩
    obtain ⟨t, ht, e⟩ := hqinc
    have hxinc : x ∈ Expr.variables inc := mem_variables.2 ⟨t, ht, e ▸ hxq⟩
    have hxp' : x ∈ Expr.variables p' := mem_variables.2 ⟨t, prodIncOf_sub hpi t ht, e ▸ hxq⟩
    refine ⟨reduceConst_varsIn s ps p p' C hp' x hxp', ?_⟩
    rintro rfl
    exact C15.prodIncOf_fresh p' inc x 1#w hpi hxinc
  · rw [hsum, hacc, ev_add, ev_var]
    simp only [ev_mul, hev] at hfold
    generalize ev (linears.foldl (triFoldStep expr) (Expr.mul expr cst, other)).1 m0 = A at hfold ⊢
    generalize accN (fun k => ev (linears.foldl (triFoldStep expr) (Expr.mul expr cst, other)).2
      (mid body sub.pending m0 k)) n = B at hfold ⊢
    rw [BitVec.add_assoc, hfold]

/-- `geo0` and `geo` outcomes: `var = var * mul + inc` with `inc` over constants, constant trip count. -/
theorem geo_sem (hw : 0 < w) (ctx : MotionCtx s ps sub C lin m0 body) {var : Int} {p p' expr inc : Expr w}
    {mul c : BitVec w} {n : Nat}
    (hp : mGet sub.pending var = some p) (hunw : mGet sub.written var = none) (hcanon : Canon p)
    (hp' : reduceConst s ps p C = .ok p')
    (hev : ev expr m0 = BitVec.ofNat w n) (hlt : n < 2 ^ w)
    (hpi : Expr.prodIncOf p' var = some (inc, mul))
    (hc : Expr.constant expr = some c)
    (hinc : ∀ x ∈ Expr.variables inc, C.contains x = true) :
    run body sub.pending m0 n var
      = Cell.wrappingPow mul c * m0 var + OptArith.geomSum mul c * ev inc m0 := by
  have hwc : WeakCanon p' := C15.canon_implies_weakCanon (reduceConst_canon s ps p p' C hp' hcanon)
  have hstep : ∀ k, run body sub.pending m0 (k + 1) var
      = run body sub.pending m0 k var * mul + ev inc m0 := by
    intro k
    rw [run_pending hp, ← reduce_mid ctx hp' k]
    show evaluate p' _ = _
    rw [C15.prodIncOf_recompose p' inc var mul _ hwc hpi, mid, ctx.body.unwritten k var hunw]
    have := ev_mid_const ctx inc hinc k
    unfold ev mid at this
    rw [this, BitVec.mul_comm]
    rfl
  have hiter : ∀ k, run body sub.pending m0 k var = (fun x => x * mul + ev inc m0)^[k] (m0 var) := by
    intro k
    induction k with
    | zero => rfl
    | succ k ih => rw [hstep k, ih, Function.iterate_succ_apply']
  have hcn : c.toNat = n := by
    have : ev expr m0 = c := C15.constant_recompose expr c m0 hc
    rw [this] at hev
    rw [hev, BitVec.toNat_ofNat, Nat.mod_eq_of_lt hlt]
  rw [hiter n, ← hcn, C01Opt.affine_loop hw mul (ev inc m0) (m0 var) c]
  generalize Cell.wrappingPow mul c = P
  generalize OptArith.geomSum mul c = G
  generalize ev inc m0 = i
  generalize m0 var = a
  bvring

theorem accN_zero_fn (n : Nat) : accN (fun _ => (0#w : BitVec w)) n = 0#w := by
  rw [accN_const]; simp

/-- **`loopMotion_sound`, moved variables**: every outcome with a `before` expression is right. -/
theorem loopMotion_moved_sound (hw : 0 < w) (ctx : MotionCtx s ps sub C lin m0 body) {var : Int}
    {p : Expr w} {complete : Bool} {reads otherPending : List Int} {L : OptLoop w} {n : Nat}
    {b : Expr w} {d a : Option (Expr w)}
    (hp : mGet sub.pending var = some p) (hcomp : complete = true → mGet sub.written var = none)
    (hcanon : Canon p) (htrip : TripFacts L n m0)
    (hcase : MotionCase s ps var p complete reads C lin otherPending L (some b, d, a)) :
    a = none ∧ reads.contains var = false ∧ complete = true ∧ C.contains var = false ∧
      MovedSem sub body m0 n var p b d := by
  generalize hr : (some b, d, a) = r at hcase
  cases hcase with
  | gone _ _ => cases hr
  | after p' _ _ _ => cases hr
  | stay p' _ => cases hr
  | tri p' expr inc cst other linears h1 h2 h3 hp' hexpr hpi hsplit =>
    simp only [Prod.mk.injEq, Option.some.injEq] at hr
    obtain ⟨rfl, rfl, rfl⟩ := hr
    obtain ⟨hev, _, htri⟩ := htrip expr hexpr
    exact ⟨rfl, h1, h2, h3, tri_sem ctx hp (hcomp h2) hcanon hp' hev htri hpi hsplit⟩
  | geo0 p' expr inc mul c h1 h2 h3 hp' hexpr hpi hm1 hc hz =>
    simp only [Prod.mk.injEq, Option.some.injEq] at hr
    obtain ⟨rfl, rfl, rfl⟩ := hr
    obtain ⟨hev, hlt, _⟩ := htrip expr hexpr
    refine ⟨rfl, h1, h2, h3, [], Or.inr ⟨rfl, rfl⟩, fun x hx => (by cases hx), ?_⟩
    have := geo_sem hw ctx hp (hcomp h2) hcanon hp' hev hlt hpi hc (by rw [hz]; intro x hx; cases hx)
    rw [this, hz]
    simp only [ev_nil, ev_mul, ev_val, ev_var, accN_zero_fn]
    simp
  | geo p' expr inc mul c h1 h2 h3 hp' hexpr hpi hm1 hc hall =>
    simp only [Prod.mk.injEq, Option.some.injEq] at hr
    obtain ⟨rfl, rfl, rfl⟩ := hr
    obtain ⟨hev, hlt, _⟩ := htrip expr hexpr
    refine ⟨rfl, h1, h2, h3, [], Or.inr ⟨rfl, rfl⟩, fun x hx => (by cases hx), ?_⟩
    have := geo_sem hw ctx hp (hcomp h2) hcanon hp' hev hlt hpi hc hall
    rw [this]
    simp only [ev_nil, ev_add, ev_mul, ev_val, ev_var, accN_zero_fn]
    simp

end

end Hpbf.OptLoop
