/-
C02 / C13 (totality of the emission phase), part 3: the `Loop`/`If` arm of `emit_block` and the
induction over `emitInsts`.

Panic sites discharged here: `emit_block:start_instr-1-underflow` (the placeholder has just been pushed),
`emit_block:insts-index` (the instruction list only grows), `emit_block:sub_anal-index` (the analysis has
one entry per loop/if, `analyze_subAnal`).
-/
import Hpbf.Proofs.C02EmitTotalLoop

namespace Hpbf
namespace C02
open BcGen C02Emit

variable {w : Nat}

/-- The recursive call on a sub-block succeeds and keeps the invariant. -/
def emitTotal_Body (eb : Nat → M w Unit) : Prop :=
  ∀ ps' (s1 : St w), emitTotal_Inv s1 → ps' ≤ s1.insts.size →
    ∃ s2, eb ps' s1 = .ok ((), s2) ∧ emitTotal_Inv s2 ∧ s1.insts.size ≤ s2.insts.size

theorem emitTotal_seq {α : Type} {m : M w α} {K : α → M w Unit} {s : St w} {P : St w → Prop}
    (h : ∃ a s1, m s = .ok (a, s1) ∧ ∃ s', K a s1 = .ok ((), s') ∧ P s') :
    ∃ s', (m >>= K) s = .ok ((), s') ∧ P s' := by
  obtain ⟨a, s1, h1, s', h2, hp⟩ := h
  exact ⟨s', by rw [emitTotal_bind_of_ok h1]; exact h2, hp⟩

theorem emitTotal_body_intro {eb : Nat → M w Unit} (hB : emitTotal_Body eb) {X : Nat} {S1 : St w}
    {Q : Unit → St w → Prop} (hinv : emitTotal_Inv S1) (hle : X ≤ S1.insts.size)
    (hk : ∀ s2, emitTotal_Inv s2 → S1.insts.size ≤ s2.insts.size → Q () s2) :
    ∃ a s1, eb X S1 = .ok (a, s1) ∧ Q a s1 := by
  obtain ⟨s2, h1, h2, h3⟩ := hB X S1 hinv hle
  exact ⟨(), s2, h1, hk s2 h2 h3⟩

theorem emitTotal_outer_intro {ps n : Nat} {S : St w} {Q : Unit → St w → Prop} (hinv : emitTotal_Inv S)
    (hk : ∀ s3, emitTotal_Inv s3 → s3.ranges.size = S.ranges.size → s3.insts = S.insts →
      s3.values = S.values → s3.exprs = S.exprs → s3.currentStart = S.currentStart → Q () s3) :
    ∃ a s1, outerLoop ps (S.outerAccessed.size + S.ranges.size + 1) n S = .ok (a, s1) ∧ Q a s1 := by
  obtain ⟨s3, h1, st, e1, e2, e3⟩ := emitTotal_outerLoop_call ps n hinv
  have hc := (outerLoop_core ps _ _ h1).1
  exact ⟨(), s3, h1, hk s3 st.inv (congrArg G.n hc) e1 e2 e3 st.cs⟩

/-- The invariant for a state that differs from `s` in `insts`, `currentStart`, and by dropping entries
of `values`. -/
theorem emitTotal_Inv_mod {s s1 : St w} (h : emitTotal_Inv s) (hr : s1.ranges.size = s.ranges.size)
    (ho : s1.outerAccessed = s.outerAccessed) (hv : ∀ p ∈ s1.values, p ∈ s.values)
    (hc : s1.currentStart ≤ s1.insts.size) : emitTotal_Inv s1 :=
  ⟨fun p hp => by rw [hr]; exact h.vals p (hv p hp), fun i x hx => by rw [hr]; rw [ho] at hx; exact h.oa i x hx, hc⟩

/-- Closing tactic for "the table only lost entries". -/
local macro "emit_total_vals" : tactic =>
  `(tactic| (intro p hp; first
      | exact hp
      | exact emitTotal_mem_removeMems hp
      | exact emitTotal_mem_removeMems (emitTotal_mem_eraseFold hp)
      | exact emitTotal_mem_removeMems (emitTotal_mem_removeMems hp)
      | exact emitTotal_mem_removeMems (emitTotal_mem_removeMems (emitTotal_mem_eraseFold hp))
      | exact absurd hp List.not_mem_nil))

section
variable {fuse : Bool} {ps : Nat} {cond shift : Int} {be : Bool} {sub : Analysis}
  {eb : Nat → M w Unit} {s : St w}

set_option linter.unusedSimpArgs false in
theorem emitTotal_emitLoop (h : emitTotal_Inv s) (hps : ps ≤ s.insts.size) (hB : emitTotal_Body eb)
    (once : Bool) (hf : (!fuse || false || !be) = true) :
    ∃ s', emitLoopIf fuse ps true once cond shift be sub eb s = .ok ((), s') ∧ emitTotal_Inv s' ∧
      s.insts.size ≤ s'.insts.size := by
  unfold emitLoopIf
  have hcs := h.cs
  cases once <;> cases hsh : sub.hasShift <;> by_cases hs0 : shift = 0
  all_goals
    first
      | have hs0' : (shift != 0) = false := by simp [hs0]
      | have hs0' : (shift != 0) = true := by simp [hs0]
    simp only [hsh, hs0', Bool.not_true, Bool.not_false, hf, ↓reduceIte, Bool.false_eq_true]
    simp only [get_bind, modify_bind, pushInst_bind]
    refine emitTotal_seq (emitTotal_body_intro hB
      (emitTotal_Inv_mod h rfl rfl (by emit_total_vals) (by simp)) (by simp) ?_)
    intro s2 inv2 sz2
    simp only [Array.size_push] at sz2
    try simp only [get_bind, modify_bind, pushInst_bind]
    refine emitTotal_seq (emitTotal_outer_intro
      (emitTotal_Inv_mod inv2 rfl rfl (by emit_total_vals) (by have := inv2.cs; simp; omega)) ?_)
    intro s3 inv3 er ei ev ee ec
    simp only [get_bind, modify_bind, pushInst_bind, ite_run, throw_bind, set_bind, ite_error_ok,
      modify_ok, pure_ok]
    first
      | refine ⟨_, ⟨?_, ?_, rfl⟩, emitTotal_Inv_mod inv3 rfl rfl (by emit_total_vals) ?_, ?_⟩
      | refine ⟨_, rfl, emitTotal_Inv_mod inv3 rfl rfl (by emit_total_vals) ?_, ?_⟩
      | refine ⟨_, ⟨trivial, rfl⟩, emitTotal_Inv_mod inv3 rfl rfl (by emit_total_vals) ?_, ?_⟩
    all_goals first | omega | (simp [ei] <;> omega) | simp [ei]

set_option linter.unusedSimpArgs false in
theorem emitTotal_emitIf (h : emitTotal_Inv s) (hps : ps ≤ s.insts.size) (hB : emitTotal_Body eb) :
    ∃ s', emitLoopIf fuse ps false false cond shift be sub eb s = .ok ((), s') ∧ emitTotal_Inv s' ∧
      s.insts.size ≤ s'.insts.size := by
  unfold emitLoopIf
  have hcs := h.cs
  have hf : (!fuse || true || !be) = true := by cases fuse <;> cases be <;> rfl
  cases hsh : sub.hasShift <;> by_cases hs0 : shift = 0
  all_goals
    first
      | have hs0' : (shift != 0) = false := by simp [hs0]
      | have hs0' : (shift != 0) = true := by simp [hs0]
    simp only [hsh, hs0', Bool.not_true, Bool.not_false, hf, ↓reduceIte, Bool.false_eq_true]
    simp only [get_bind, modify_bind, pushInst_bind]
    refine emitTotal_seq (emitTotal_body_intro hB
      (emitTotal_Inv_mod h rfl rfl (by emit_total_vals) (by simp; omega)) (by simp; omega) ?_)
    intro s2 inv2 sz2
    simp only [Array.size_push] at sz2
    simp only [get_bind, modify_bind, pushInst_bind, ite_run, throw_bind, set_bind, ite_error_ok,
      modify_ok, pure_ok]
    refine ⟨_, ⟨?_, ?_, rfl⟩, emitTotal_Inv_mod inv2 rfl rfl (by emit_total_vals) ?_, ?_⟩
    all_goals first | omega | (simp <;> omega) | simp

set_option linter.unusedSimpArgs false in
theorem emitTotal_emitScan (h : emitTotal_Inv s) (_hps : ps ≤ s.insts.size)
    (once : Bool) (hf : (!fuse || false || !be) = false) :
    ∃ s', emitLoopIf fuse ps true once cond shift be sub eb s = .ok ((), s') ∧ emitTotal_Inv s' ∧
      s.insts.size ≤ s'.insts.size := by
  unfold emitLoopIf
  have hcs := h.cs
  cases once <;> cases hsh : sub.hasShift
  all_goals
    simp only [hsh, Bool.not_true, Bool.not_false, hf, ↓reduceIte, Bool.false_eq_true]
    simp only [get_bind, modify_bind, pushInst_bind, modify_ok, pure_ok]
    first
      | refine ⟨_, rfl, emitTotal_Inv_mod h rfl rfl (by emit_total_vals) ?_, ?_⟩
      | refine ⟨_, ⟨trivial, rfl⟩, emitTotal_Inv_mod h rfl rfl (by emit_total_vals) ?_, ?_⟩
    all_goals first | omega | (simp <;> omega) | simp

end

/-! ### `emit_block` -/

theorem emitTotal_emitInsts (fuse : Bool) : ∀ (n : Nat) (l : List (Ir.Instr w)), iszL l ≤ n →
    ∀ (ps : Nat) (s : St w), emitTotal_Inv s → ps ≤ s.insts.size →
    ∃ s', emitInsts fuse ps l (subsOf l) s = .ok ((), s') ∧ emitTotal_Inv s' ∧
      s.insts.size ≤ s'.insts.size := by
  intro n
  induction n with
  | zero =>
    intro l hl ps s h _
    cases l with
    | nil => exact ⟨s, by simp only [emitInsts]; rfl, h, Nat.le_refl _⟩
    | cons i rest => cases i <;> simp [iszL, isz] at hl <;> omega
  | succ n ih =>
    intro l hl ps s h hps
    cases l with
    | nil => exact ⟨s, by simp only [emitInsts]; rfl, h, Nat.le_refl _⟩
    | cons i rest =>
      rw [emitInsts]
      -- the head instruction
      have hhead : ∃ s1, emitInstr fuse ps i (subsOf (i :: rest)) s = .ok (subsOf rest, s1) ∧
          emitTotal_Inv s1 ∧ s.insts.size ≤ s1.insts.size ∧ iszL rest ≤ n := by
        cases i with
        | output src =>
          simp only [iszL, isz] at hl
          refine ⟨{ s with insts := s.insts.push (.out src) }, ?_,
            emitTotal_Inv_mod h rfl rfl (fun _ hp => hp) (by have := h.cs; simp; omega), by simp, by omega⟩
          simp only [emitInstr, subsOf, pushInst_bind]; rfl
        | input dst =>
          simp only [iszL, isz] at hl
          refine ⟨_, ?_, emitTotal_Inv_mod (s1 := { s with
              values := alErase s.values (.mem dst)
              writes := addWrite s.writes dst s.insts.size
              insts := s.insts.push (.inp dst) }) h rfl rfl (fun _ hp => emitTotal_mem_alErase hp)
            (by have := h.cs; simp; omega), by simp, by omega⟩
          simp only [emitInstr, subsOf, modify_bind]; rfl
        | «calc» calcs =>
          simp only [iszL, isz] at hl
          obtain ⟨vals, s1, h1, st1, hv⟩ := emitTotal_calcValues calcs h
          obtain ⟨_, s2, h2, st2⟩ := emitTotal_memWrites vals st1.inv hv
          refine ⟨s2, ?_, st2.inv, Nat.le_trans st1.is st2.is, by omega⟩
          simp only [emitInstr, subsOf]
          rw [emitTotal_bind_of_ok h1, emitTotal_bind_of_ok h2]; rfl
        | loop cond shift body once =>
          simp only [iszL, isz] at hl
          have hB : emitTotal_Body (fun ps => emitInsts fuse ps body (subOf shift body).subAnal) := by
            intro ps' s1 h1 hp1
            rw [subOf_subAnal]
            exact ih body (by omega) ps' s1 h1 hp1
          simp only [emitInstr, subsOf]
          cases hf : (!fuse || false || !body.isEmpty) with
          | true =>
            obtain ⟨s1, h1, i1, z1⟩ := emitTotal_emitLoop (cond := cond) (shift := shift)
              (sub := subOf shift body) h hps hB once hf
            exact ⟨s1, by rw [emitTotal_bind_of_ok h1]; rfl, i1, z1, by omega⟩
          | false =>
            obtain ⟨s1, h1, i1, z1⟩ := emitTotal_emitScan (cond := cond) (shift := shift)
              (sub := subOf shift body)
              (eb := fun ps => emitInsts fuse ps body (subOf shift body).subAnal) h hps once hf
            exact ⟨s1, by rw [emitTotal_bind_of_ok h1]; rfl, i1, z1, by omega⟩
        | ifnz cond shift body =>
          simp only [iszL, isz] at hl
          have hB : emitTotal_Body (fun ps => emitInsts fuse ps body (subOf shift body).subAnal) := by
            intro ps' s1 h1 hp1
            rw [subOf_subAnal]
            exact ih body (by omega) ps' s1 h1 hp1
          simp only [emitInstr, subsOf]
          obtain ⟨s1, h1, i1, z1⟩ := emitTotal_emitIf (fuse := fuse) (cond := cond) (shift := shift)
            (be := body.isEmpty) (sub := subOf shift body) h hps hB
          exact ⟨s1, by rw [emitTotal_bind_of_ok h1]; rfl, i1, z1, by omega⟩
      obtain ⟨s1, h1, i1, z1, hr⟩ := hhead
      obtain ⟨s', h2, i2, z2⟩ := ih rest hr ps s1 i1 (Nat.le_trans hps z1)
      exact ⟨s', by rw [emitTotal_bind_of_ok h1]; exact h2, i2, Nat.le_trans z1 z2⟩

theorem emitTotal_init : emitTotal_Inv ({} : St w) :=
  ⟨fun _ hp => absurd hp List.not_mem_nil, fun i x hx => by simp at hx, Nat.le_refl _⟩

theorem emitTotal_emitState (blk : Ir.Block w) (fuse : Bool) : ∃ s, emitState blk fuse = .ok s := by
  obtain ⟨s', h, _, _⟩ := emitTotal_emitInsts fuse _ blk.insts (Nat.le_refl _) 0 ({} : St w)
    emitTotal_init (Nat.zero_le _)
  refine ⟨s', ?_⟩
  unfold emitState
  rw [analyze_subAnal]
  have : (emitInsts fuse 0 blk.insts (subsOf blk.insts)).run ({} : St w) = .ok ((), s') := h
  rw [this]

end C02
end Hpbf
