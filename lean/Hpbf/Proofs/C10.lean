/-
C10 — the unchecked mode compared with the checked mode.  Lemmas; the property theorems are in
`Hpbf/Props/C10.lean`.  (The parser bound `parse_offsets_le_length` is in `Proofs/C10Parse.lean`.)
-/
import Hpbf.Proofs.C06

namespace Hpbf
namespace C10

open Window Bc BcWf C06

variable {w : Nat}

/-! ### the outcome does not depend on the mode -/

theorem runLay_out (mode : Mode) (p : Program w) (limited : Bool) :
    ∀ (fuel : Nat) (c : Cfg w) (l : Lay) (ok : Bool),
      (runLay mode p limited fuel c l ok).out = Bc.runCfg p limited fuel c := by
  intro fuel
  induction fuel with
  | zero => intro c l ok; simp only [runLay, runCfg]
  | succ n ih =>
    intro c l ok
    simp only [runLay, runCfg]
    cases hs : Bc.step p limited c with
    | next c' => simp only; exact ih _ _ _
    | halt c' => rfl
    | stop c' => rfl
    | interrupted c' => rfl
    | bad c' => rfl

/-! ### while nothing grows, the checked move is the unchecked move -/

theorem move_unchecked_eq (mn mx : Int) (l : Lay) (sh : Int) :
    Lay.move .unchecked mn mx l sh = { l with cur := l.cur + sh } := rfl

theorem move_no_growth {mn mx : Int} {l : Lay} {sh : Int} (h0 : mn ≤ 0) (h1 : 0 ≤ mx)
    (hw : l.InWindow mn mx) (hs : (l.size : Int) < bound) (hmn : SmallArg mn) (hmx : SmallArg mx)
    (hsh : SmallArg sh) (hsz : (Lay.move .threadedSafe mn mx l sh).size = l.size) :
    Lay.move .threadedSafe mn mx l sh = Lay.move .unchecked mn mx l sh := by
  obtain ⟨w1, w2⟩ := hw
  have m1 := hmn.1; have m2 := hmn.2; have m3 := hmx.1; have m4 := hmx.2
  have s1 := hsh.1; have s2 := hsh.2
  rw [move_unchecked_eq]
  rw [move_threaded_eq] at hsz ⊢
  simp only at hsz ⊢
  by_cases hp : ({ size := l.size, cur := l.cur + sh } : Lay).inBounds (if sh < 0 then mn else mx) = true
  · rw [if_pos hp]
  · rw [if_neg hp] at hsz ⊢
    rw [not_inBounds_iff] at hp
    simp only at hp
    have hwide : ({ size := l.size, cur := l.cur + sh } : Lay).Wide := by
      unfold Lay.Wide bound at *
      simp only
      omega
    rcases grow_cases (a := mn) (b := mx + 1) hwide (by unfold bound at *; omega)
      (by unfold bound at *; omega) (by unfold bound at *; omega) (by unfold bound at *; omega) with
      ⟨c1, c2, c3⟩ | ⟨c1, ab, g, c3, c4, c5, c6, c7, c8, _⟩
    · exact c3
    · exfalso
      rw [c3] at hsz
      unfold Lay.needBelow Lay.needAbove at c6
      simp only at hsz c1 c6
      omega

theorem layStep_no_growth {p : Program w} (L : C11.LocalFacts p) (hp : SmallProg p) (c c' : Cfg w)
    {l : Lay} (hw : l.InWindow p.minAcc p.maxAcc) (hs : (l.size : Int) < bound)
    (hsz : (layStep .threadedSafe p c c' l).size = l.size) :
    layStep .threadedSafe p c c' l = layStep .unchecked p c c' l := by
  unfold layStep at hsz ⊢
  split
  · rename_i sh hi
    simp only [hi] at hsz
    exact move_no_growth L.min0 L.max0 hw hs hp.1 hp.2.1 (hp.shift hi) hsz
  · rename_i cond sh hi
    simp only [hi] at hsz
    split
    · rename_i hc
      rw [if_pos hc] at hsz
      exact move_no_growth L.min0 L.max0 hw hs hp.1 hp.2.1 (hp.shift hi) hsz
    · rfl
  · rfl

/-- If the checked run never grows the allocation, the unchecked run is the same run: same
layouts, same access flags. -/
theorem runLay_unchecked_eq {p : Program w} (L : C11.LocalFacts p) (hp : SmallProg p)
    (limited : Bool) :
    ∀ (fuel : Nat) (c : Cfg w) (l : Lay) (ok : Bool), l.InWindow p.minAcc p.maxAcc →
      (l.size : Int) < bound →
      (runLay .threadedSafe p limited fuel c l ok).lay.size = l.size →
      runLay .unchecked p limited fuel c l ok = runLay .threadedSafe p limited fuel c l ok := by
  intro fuel
  induction fuel with
  | zero => intro c l ok _ _ _; simp only [runLay]
  | succ n ih =>
    intro c l ok hw hs hsz
    simp only [runLay] at hsz ⊢
    cases hst : Bc.step p limited c with
    | next c' =>
      simp only [hst] at hsz
      simp only
      have h1 := layStep_size_ge .threadedSafe p c c' l
      have h2 := runLay_size_ge .threadedSafe p limited n c' (layStep .threadedSafe p c c' l)
        (ok && accessOk p c.pc l)
      have hsz1 : (layStep .threadedSafe p c c' l).size = l.size := by omega
      have he := layStep_no_growth L hp c c' hw hs hsz1
      rw [← he]
      apply ih
      · exact layStep_inWindow (by simp) L hp c c' hw hs
      · rw [hsz1]; exact hs
      · rw [hsz1]; exact hsz
    | halt c' => rfl
    | stop c' => rfl
    | interrupted c' => rfl
    | bad c' => rfl

/-! ### a static sufficient condition: the pointer excursion of the run -/

/-- Configurations reachable by `Bc.step` from `c0`. -/
inductive ReachFrom (p : Program w) (limited : Bool) (c0 : Cfg w) : Cfg w → Prop
  | refl : ReachFrom p limited c0 c0
  | step {c c' : Cfg w} : ReachFrom p limited c0 c → Bc.step p limited c = .next c' →
      ReachFrom p limited c0 c'

/-- In unchecked mode the physical index follows the logical pointer and the size is constant. -/
theorem layStep_unchecked {p : Program w} {limited : Bool} {c c' : Cfg w}
    (hs : Bc.step p limited c = .next c') (l : Lay) :
    (layStep .unchecked p c c' l).size = l.size ∧
    (layStep .unchecked p c c' l).cur = l.cur + (c'.st.ptr - c.st.ptr) := by
  cases hi : p.insts[c.pc]? with
  | none =>
    unfold Bc.step at hs
    simp only [hi] at hs
    split at hs <;> cases hs
  | some ins =>
    rw [C11.step_eq hi] at hs
    have hptr := C11.stepI_ptr p limited c ins
    rw [hs] at hptr
    simp only [StepRes.cfg] at hptr
    cases ins with
    | mov sh =>
      simp only [C11.stepI, StepRes.next.injEq] at hs
      subst hs
      simp only [layStep, hi, move_unchecked_eq, State.mov]
      exact ⟨trivial, by omega⟩
    | scan cond sh =>
      simp only [C11.stepI] at hs
      split at hs
      · simp only [StepRes.next.injEq] at hs
        subst hs
        simp only [layStep, hi]
        rw [if_neg (by omega)]
        exact ⟨rfl, by omega⟩
      · split at hs
        · rename_i h0
          split at hs
          · cases hs
          · simp only [StepRes.next.injEq] at hs
            subst hs
            simp only [layStep, hi]
            rw [if_neg (fun h => h.2 h0)]
            exact ⟨rfl, by omega⟩
        · rename_i h0
          simp only [StepRes.next.injEq] at hs
          subst hs
          simp only [layStep, hi]
          rw [if_pos ⟨trivial, h0⟩]
          simp only [move_unchecked_eq, State.mov]
          exact ⟨trivial, by omega⟩
    | noop => simp at hptr; simp only [layStep, hi]; exact ⟨trivial, by omega⟩
    | inp d => simp at hptr; simp only [layStep, hi]; exact ⟨trivial, by omega⟩
    | out s => simp at hptr; simp only [layStep, hi]; exact ⟨trivial, by omega⟩
    | brz a b => simp at hptr; simp only [layStep, hi]; exact ⟨trivial, by omega⟩
    | brnz a b => simp at hptr; simp only [layStep, hi]; exact ⟨trivial, by omega⟩
    | add d a b => simp at hptr; simp only [layStep, hi]; exact ⟨trivial, by omega⟩
    | sub d a b => simp at hptr; simp only [layStep, hi]; exact ⟨trivial, by omega⟩
    | mul d a b => simp at hptr; simp only [layStep, hi]; exact ⟨trivial, by omega⟩
    | copy d s => simp at hptr; simp only [layStep, hi]; exact ⟨trivial, by omega⟩

theorem runLay_unchecked_region {p : Program w} (L : C11.LocalFacts p) (limited : Bool)
    (c0 : Cfg w) (lo hi base : Int) (size : Nat)
    (hreach : ∀ c, ReachFrom p limited c0 c → lo ≤ c.st.ptr ∧ c.st.ptr ≤ hi)
    (hlo : 0 ≤ base + lo + p.minAcc) (hhi : base + hi + p.maxAcc < size) :
    ∀ (fuel : Nat) (c : Cfg w) (l : Lay), ReachFrom p limited c0 c → l.size = size →
      l.cur = base + c.st.ptr →
      (runLay .unchecked p limited fuel c l true).ok = true ∧
      (runLay .unchecked p limited fuel c l true).lay.size = size := by
  intro fuel
  induction fuel with
  | zero => intro c l _ hsz _; simp only [runLay]; exact ⟨trivial, hsz⟩
  | succ n ih =>
    intro c l hr hsz hcur
    have hb := hreach c hr
    have hacc : accessOk p c.pc l = true := by
      apply accessOk_of_inWindow L
      unfold Lay.InWindow
      rw [hsz, hcur]
      omega
    simp only [runLay, hacc, Bool.and_self]
    cases hst : Bc.step p limited c with
    | next c' =>
      simp only
      obtain ⟨e1, e2⟩ := layStep_unchecked hst l
      apply ih _ _ (ReachFrom.step hr hst)
      · rw [e1]; exact hsz
      · rw [e2, hcur]; omega
    | halt c' => exact ⟨rfl, hsz⟩
    | stop c' => exact ⟨rfl, hsz⟩
    | interrupted c' => exact ⟨rfl, hsz⟩
    | bad c' => exact ⟨rfl, hsz⟩

/-! ### a decidable way to establish the excursion hypothesis for a terminating run -/

/-- Head inversion of `ReachFrom` (the machine is deterministic). -/
theorem ReachFrom.head {p : Program w} {limited : Bool} {c c' : Cfg w} (h : ReachFrom p limited c c') :
    c' = c ∨ ∃ c1, Bc.step p limited c = .next c1 ∧ ReachFrom p limited c1 c' := by
  induction h with
  | refl => exact Or.inl rfl
  | step hr hs ih =>
    rcases ih with e | ⟨c1, h1, h2⟩
    · subst e
      exact Or.inr ⟨_, hs, ReachFrom.refl⟩
    · exact Or.inr ⟨c1, h1, ReachFrom.step h2 hs⟩

/-- Run the machine and record the least and greatest logical pointer seen at an instruction
boundary; `none` if the fuel does not suffice to see the end of the run. -/
def ptrRange (p : Program w) (limited : Bool) : Nat → Cfg w → Int × Int → Option (Int × Int)
  | 0, _, _ => none
  | fuel + 1, c, r =>
    let r' := (min r.1 c.st.ptr, max r.2 c.st.ptr)
    match Bc.step p limited c with
    | .next c' => ptrRange p limited fuel c' r'
    | _ => some r'

theorem ptrRange_sound (p : Program w) (limited : Bool) :
    ∀ (fuel : Nat) (c : Cfg w) (r : Int × Int) (lo hi : Int),
      ptrRange p limited fuel c r = some (lo, hi) →
      lo ≤ r.1 ∧ r.2 ≤ hi ∧ ∀ c', ReachFrom p limited c c' → lo ≤ c'.st.ptr ∧ c'.st.ptr ≤ hi := by
  intro fuel
  induction fuel with
  | zero => intro c r lo hi h; simp only [ptrRange] at h; cases h
  | succ n ih =>
    intro c r lo hi h
    simp only [ptrRange] at h
    cases hs : Bc.step p limited c with
    | next c1 =>
      simp only [hs] at h
      obtain ⟨h1, h2, h3⟩ := ih _ _ _ _ h
      simp only at h1 h2
      refine ⟨by omega, by omega, ?_⟩
      intro c' hr
      rcases hr.head with e | ⟨c2, e1, e2⟩
      · subst e; omega
      · rw [hs] at e1
        simp only [StepRes.next.injEq] at e1
        subst e1
        exact h3 c' e2
    | halt c1 =>
      simp only [hs, Option.some.injEq, Prod.mk.injEq] at h
      refine ⟨by omega, by omega, ?_⟩
      intro c' hr
      rcases hr.head with e | ⟨c2, e1, _⟩
      · subst e; omega
      · rw [hs] at e1; cases e1
    | stop c1 =>
      simp only [hs, Option.some.injEq, Prod.mk.injEq] at h
      refine ⟨by omega, by omega, ?_⟩
      intro c' hr
      rcases hr.head with e | ⟨c2, e1, _⟩
      · subst e; omega
      · rw [hs] at e1; cases e1
    | interrupted c1 =>
      simp only [hs, Option.some.injEq, Prod.mk.injEq] at h
      refine ⟨by omega, by omega, ?_⟩
      intro c' hr
      rcases hr.head with e | ⟨c2, e1, _⟩
      · subst e; omega
      · rw [hs] at e1; cases e1
    | bad c1 =>
      simp only [hs, Option.some.injEq, Prod.mk.injEq] at h
      refine ⟨by omega, by omega, ?_⟩
      intro c' hr
      rcases hr.head with e | ⟨c2, e1, _⟩
      · subst e; omega
      · rw [hs] at e1; cases e1

end C10
end Hpbf
