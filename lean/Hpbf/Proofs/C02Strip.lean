/-
C02, part 2: `strip_noops` preserves behaviour.

Index map between program counters: `pos insts i` = number of non-`noop` instructions among the first `i`
(`= i - cum_noop[i]`).  A `noop` at `i` maps to the position of the next real instruction
(`pos (i+1) = pos i`), a real instruction at `i` is found at `pos i` in the filtered array, and
`fixBranches` turns the offset `off` of a branch at `i` with target `t = i + off` into
`off - (cum[t] - cum[i])`, i.e. `pos i + off' = pos t`.
-/
import Hpbf.Proofs.C02Reorder

namespace Hpbf
namespace C02

open Bc BcWf BcGen C11

variable {w : Nat}

theorem C07_lt {α : Type} {a : Array α} {i : Nat} {x : α} (h : a[i]? = some x) : i < a.size := by
  by_cases hi : i < a.size
  · exact hi
  · simp [Array.getElem?_eq_none (Nat.le_of_not_lt hi)] at h

/-! ### counting -/

def keep (x : Instr w) : Bool := !isNoop x

/-- New index of old index `i`. -/
def pos (insts : Array (Instr w)) (i : Nat) : Nat := (insts.toList.take i).countP keep

theorem pos_zero (insts : Array (Instr w)) : pos insts 0 = 0 := by simp [pos]

theorem pos_succ {insts : Array (Instr w)} {i : Nat} {x : Instr w} (h : insts[i]? = some x) :
    pos insts (i + 1) = pos insts i + (if keep x then 1 else 0) := by
  have h' : insts.toList[i]? = some x := by simpa using h
  simp only [pos, List.take_add_one, h', List.countP_append, Option.toList_some, List.countP_singleton]

theorem pos_mono (insts : Array (Instr w)) {i j : Nat} (h : i ≤ j) : pos insts i ≤ pos insts j := by
  unfold pos
  apply List.Sublist.countP_le
  exact (List.take_prefix_take_left (l := insts.toList) h).sublist

theorem pos_size (insts : Array (Instr w)) :
    pos insts insts.size = (insts.filter keep).size := by
  unfold pos
  have : insts.toList.take insts.size = insts.toList := by
    rw [← Array.length_toList]; exact List.take_length
  rw [this, List.countP_eq_length_filter, ← Array.toList_filter, Array.length_toList]

theorem pos_le_size (insts : Array (Instr w)) (i : Nat) : pos insts i ≤ (insts.filter keep).size := by
  rw [← pos_size]
  by_cases h : i ≤ insts.size
  · exact pos_mono insts h
  · unfold pos
    have e1 : insts.toList.take i = insts.toList := List.take_of_length_le (by simp; omega)
    have e2 : insts.toList.take insts.size = insts.toList := List.take_of_length_le (by simp)
    rw [e1, e2]
    exact Nat.le_refl _

/-- `i = (#noops before i) + (#others before i)`. -/
theorem count_noop_add_pos (insts : Array (Instr w)) {i : Nat} (h : i ≤ insts.size) :
    (insts.toList.take i).countP isNoop + pos insts i = i := by
  unfold pos
  have hk : (keep : Instr w → Bool) = fun x => !isNoop x := rfl
  have := List.length_eq_countP_add_countP (isNoop : Instr w → Bool) (l := insts.toList.take i)
  rw [hk]
  simp only [List.length_take, Array.length_toList, Nat.min_eq_left h, Bool.not_eq_true] at this
  have e : (fun a : Instr w => decide (isNoop a = false)) = fun x => !isNoop x := by
    funext a; cases isNoop a <;> rfl
  rw [e] at this
  omega

/-- The element at old index `i`, if kept, sits at new index `countP (take i)`. -/
theorem filter_getElem?_pos {α : Type} (P : α → Bool) :
    ∀ (l : List α) (i : Nat) (x : α), l[i]? = some x → P x = true →
      (l.filter P)[(l.take i).countP P]? = some x := by
  intro l
  induction l with
  | nil => intro i x h; simp at h
  | cons y ys ih =>
    intro i x h hx
    cases i with
    | zero =>
      simp only [List.getElem?_cons_zero, Option.some.injEq] at h
      subst h
      simp [hx]
    | succ j =>
      simp only [List.getElem?_cons_succ] at h
      have := ih j x h hx
      by_cases hy : P y = true
      · simp only [List.take_succ_cons, List.countP_cons, hy, if_true, List.filter_cons]
        simpa using this
      · simp only [List.take_succ_cons, List.countP_cons, hy, List.filter_cons]
        simpa using this

theorem countP_take_congr {α : Type} (P : α → Bool) :
    ∀ (l1 l2 : List α), l1.length = l2.length →
      (∀ (j : Nat) (x y : α), l1[j]? = some x → l2[j]? = some y → P x = P y) →
      ∀ i, (l1.take i).countP P = (l2.take i).countP P := by
  intro l1
  induction l1 with
  | nil => intro l2 hl _ i; cases l2 <;> simp_all
  | cons a as ih =>
    intro l2 hl hp i
    cases l2 with
    | nil => simp at hl
    | cons b bs =>
      cases i with
      | zero => simp
      | succ j =>
        have hab : P a = P b := hp 0 a b (by simp) (by simp)
        have := ih bs (by simpa using hl) (fun j x y hx hy => hp (j + 1) x y (by simpa using hx) (by simpa using hy)) j
        simp only [List.take_succ_cons, List.countP_cons, this, hab]

/-! ### `cum_noop` -/

/-- The running counts pushed by the fold in `cumNoop`. -/
def cumL : List (Instr w) → Int → List Int
  | [], _ => []
  | x :: xs, c => (if isNoop x then c + 1 else c) :: cumL xs (if isNoop x then c + 1 else c)

theorem cumNoop_fold (l : List (Instr w)) (arr : Array Int) (c : Int) :
    ((l.foldl (fun (acc : Array Int × Int) x =>
      let c := if isNoop x then acc.2 + 1 else acc.2
      (acc.1.push c, c)) (arr, c)).1).toList = arr.toList ++ cumL l c := by
  induction l generalizing arr c with
  | nil => simp [cumL]
  | cons x xs ih =>
    simp only [List.foldl_cons, cumL]
    rw [ih]
    simp

theorem cumL_getElem? (l : List (Instr w)) (c : Int) (k : Nat) (hk : k < l.length) :
    (cumL l c)[k]? = some (c + ((l.take (k + 1)).countP isNoop : Nat)) := by
  induction l generalizing c k with
  | nil => simp at hk
  | cons x xs ih =>
    cases k with
    | zero =>
      simp only [cumL, List.getElem?_cons_zero, List.take_succ_cons, List.take_zero, List.countP_cons,
        List.countP_nil]
      cases isNoop x <;> simp
    | succ j =>
      simp only [cumL, List.getElem?_cons_succ]
      rw [ih _ j (by simpa using hk)]
      simp only [List.take_succ_cons, List.countP_cons]
      by_cases hx : isNoop x = true
      · simp only [hx, if_true]; congr 1; push_cast; omega
      · simp [hx]

theorem cumL_length (l : List (Instr w)) (c : Int) : (cumL l c).length = l.length := by
  induction l generalizing c with
  | nil => rfl
  | cons x xs ih => simp [cumL, ih]

theorem cumNoop_toList (insts : Array (Instr w)) : (cumNoop insts).toList = 0 :: cumL insts.toList 0 := by
  unfold cumNoop
  rw [← Array.foldl_toList, cumNoop_fold]
  rfl

theorem cumNoop_size (insts : Array (Instr w)) : (cumNoop insts).size = insts.size + 1 := by
  rw [← Array.length_toList, cumNoop_toList]
  simp [cumL_length]

theorem cumNoop_getElem? (insts : Array (Instr w)) {k : Nat} (hk : k ≤ insts.size) :
    (cumNoop insts)[k]? = some ((k : Int) - pos insts k) := by
  have hc := count_noop_add_pos insts hk
  rw [← Array.getElem?_toList, cumNoop_toList]
  cases k with
  | zero => simp [pos_zero]
  | succ j =>
    simp only [List.getElem?_cons_succ]
    rw [cumL_getElem? _ _ _ (by simp; omega)]
    congr 1
    omega

/-! ### `fixBranches` -/

/-- Every branch of the program lands on an instruction or on the exit (`BcWf.succs … ≠ none`). -/
def TargetsOk (insts : Array (Instr w)) : Prop :=
  ∀ (i : Nat) (ins : Instr w) (off : Int), insts[i]? = some ins → branchOff? ins = some off →
    0 ≤ (i : Int) + off ∧ (i : Int) + off ≤ insts.size

theorem targetsOk_of_succs {insts : Array (Instr w)}
    (h : ∀ (i : Nat) (ins : Instr w), insts[i]? = some ins → (succs insts.size i ins).isSome = true) :
    TargetsOk insts := by
  intro i ins off hi hoff
  have hs := h i ins hi
  have key : (branchTarget i off insts.size).isSome = true := by
    cases ins <;> simp only [branchOff?, Option.some.injEq, reduceCtorEq] at hoff
    all_goals (subst hoff; simpa [succs] using hs)
  simp only [branchTarget] at key
  split at key
  · assumption
  · cases key

theorem succs_of_targetsOk {insts : Array (Instr w)} (hT : TargetsOk insts) {i : Nat} {ins : Instr w}
    (hi : insts[i]? = some ins) : (succs insts.size i ins).isSome = true := by
  cases ins <;> simp only [succs, Option.isSome_some, Option.isSome_map]
  all_goals
    have := hT i _ _ hi rfl
    simp [branchTarget, this]

/-- The offset written by `fixBranches`: the distance between the new positions. -/
def newOff (insts : Array (Instr w)) (i : Nat) (off : Int) : Int :=
  (pos insts ((i : Int) + off).toNat : Int) - (pos insts i : Int)

def fixInst (insts : Array (Instr w)) (i : Nat) : Instr w → Instr w
  | .brz c off => .brz c (newOff insts i off)
  | .brnz c off => .brnz c (newOff insts i off)
  | x => x

theorem keep_fixInst (insts : Array (Instr w)) (i : Nat) (x : Instr w) :
    keep (fixInst insts i x) = keep x := by
  cases x <;> rfl

theorem fixBranches_succ {insts : Array (Instr w)} (hT : TargetsOk insts) (k : Nat)
    (acc : Array (Instr w)) (hk : k + 1 ≤ insts.size) {inst : Instr w}
    (hi : insts[insts.size - (k + 1)]? = some inst) :
    fixBranches (cumNoop insts) insts (k + 1) acc =
      fixBranches (cumNoop insts) insts k (acc.push (fixInst insts (insts.size - (k + 1)) inst)) := by
  rw [fixBranches]
  simp only [hi]
  have hbr : ∀ off : Int, branchOff? inst = some off →
      target "strip_noops:cum_noop-index" (insts.size - (k + 1)) off (cumNoop insts).size
        = .ok (((insts.size - (k + 1) : Nat) : Int) + off).toNat ∧
      off - (((cumNoop insts)[(((insts.size - (k + 1) : Nat) : Int) + off).toNat]?).getD 0 -
          ((cumNoop insts)[insts.size - (k + 1)]?).getD 0) = newOff insts (insts.size - (k + 1)) off := by
    intro off hoff
    have ht := hT _ _ _ hi hoff
    constructor
    · unfold target
      rw [cumNoop_size]
      have h1 : ¬ (((insts.size - (k + 1) : Nat) : Int) + off < 0) := by omega
      have h2 : (((insts.size - (k + 1) : Nat) : Int) + off).toNat < insts.size + 1 := by omega
      simp only [h1, h2, if_true, if_false]
    · rw [cumNoop_getElem? insts (k := (((insts.size - (k + 1) : Nat) : Int) + off).toNat) (by omega),
        cumNoop_getElem? insts (k := insts.size - (k + 1)) (by omega)]
      simp only [Option.getD_some, newOff]
      have : (((((insts.size - (k + 1) : Nat) : Int) + off).toNat : Nat) : Int)
          = ((insts.size - (k + 1) : Nat) : Int) + off := Int.toNat_of_nonneg ht.1
      omega
  cases inst with
  | brz c off =>
    obtain ⟨h1, h2⟩ := hbr off rfl
    simp only [branchOff?, h1, h2, fixInst]
  | brnz c off =>
    obtain ⟨h1, h2⟩ := hbr off rfl
    simp only [branchOff?, h1, h2, fixInst]
  | _ => simp only [branchOff?, fixInst]

theorem fixBranches_spec {insts : Array (Instr w)} (hT : TargetsOk insts) :
    ∀ (k : Nat) (acc : Array (Instr w)), k ≤ insts.size →
      ∃ r, fixBranches (cumNoop insts) insts k acc = .ok r ∧ r.size = acc.size + k ∧
        (∀ j, j < acc.size → r[j]? = acc[j]?) ∧
        (∀ j, j < k → r[acc.size + j]? =
          (insts[insts.size - k + j]?).map (fixInst insts (insts.size - k + j))) := by
  intro k
  induction k with
  | zero =>
    intro acc _
    exact ⟨acc, rfl, rfl, fun _ _ => rfl, fun j hj => absurd hj (Nat.not_lt_zero j)⟩
  | succ k ih =>
    intro acc hk
    have hlt : insts.size - (k + 1) < insts.size := by omega
    have hi : insts[insts.size - (k + 1)]? = some insts[insts.size - (k + 1)] :=
      Array.getElem?_eq_getElem hlt
    rw [fixBranches_succ hT k acc hk hi]
    obtain ⟨r, h1, h2, h3, h4⟩ := ih (acc.push (fixInst insts (insts.size - (k + 1)) insts[insts.size - (k + 1)]))
      (by omega)
    refine ⟨r, h1, by rw [h2, Array.size_push]; omega, ?_, ?_⟩
    · intro j hj
      rw [h3 j (by rw [Array.size_push]; omega), Array.getElem?_push_lt hj, Array.getElem?_eq_getElem hj]
    · intro j hj
      cases j with
      | zero =>
        rw [Nat.add_zero, Nat.add_zero, h3 acc.size (by rw [Array.size_push]; omega), hi]
        simp
      | succ j =>
        have := h4 j (by omega)
        rw [Array.size_push] at this
        have e1 : acc.size + (j + 1) = acc.size + 1 + j := by omega
        have e2 : insts.size - (k + 1) + (j + 1) = insts.size - k + j := by omega
        rw [e1, e2, this]

/-- What the stripped instruction array satisfies (all the semantic proof needs). -/
structure Stripped (insts qi : Array (Instr w)) : Prop where
  size : qi.size = pos insts insts.size
  get : ∀ (i : Nat) (ins : Instr w), insts[i]? = some ins → keep ins = true →
    qi[pos insts i]? = some (fixInst insts i ins)
  noNoop : ∀ x ∈ qi, isNoop x = false

theorem stripped_of_fixed {insts fixed : Array (Instr w)} (hsz : fixed.size = insts.size)
    (hget : ∀ j, j < insts.size → fixed[j]? = (insts[j]?).map (fixInst insts j)) :
    Stripped insts (fixed.filter keep) := by
  have hcongr : ∀ i, pos fixed i = pos insts i := by
    intro i
    apply countP_take_congr keep fixed.toList insts.toList (by simpa using hsz)
    intro j x y hx hy
    have hx' : fixed[j]? = some x := by simpa using hx
    have hy' : insts[j]? = some y := by simpa using hy
    have hj : j < insts.size := C07_lt hy'
    rw [hget j hj, hy'] at hx'
    simp only [Option.map_some, Option.some.injEq] at hx'
    rw [← hx', keep_fixInst]
  refine ⟨?_, ?_, ?_⟩
  · rw [← pos_size, hsz, hcongr]
  · intro i ins hi hk
    have hlt : i < insts.size := C07_lt hi
    have hf : fixed.toList[i]? = some (fixInst insts i ins) := by
      rw [Array.getElem?_toList, hget i hlt, hi]; rfl
    have := filter_getElem?_pos keep fixed.toList i _ hf (by rw [keep_fixInst]; exact hk)
    rw [← hcongr i]
    unfold pos
    rw [← Array.getElem?_toList, Array.toList_filter]
    exact this
  · intro x hx
    have := (Array.mem_filter.mp hx).2
    simpa [keep] using this

/-! ### relabelling program counters -/

def relabel (g : Nat → Nat) (c : Cfg w) : Cfg w := { c with pc := g c.pc }

def relabelRes (g : Nat → Nat) : StepRes w → StepRes w
  | .next c => .next (relabel g c)
  | .halt c => .halt (relabel g c)
  | .stop c => .stop (relabel g c)
  | .interrupted c => .interrupted (relabel g c)
  | .bad c => .bad (relabel g c)

def relabelOut (g : Nat → Nat) : Outcome w → Outcome w
  | .done c => .done (relabel g c)
  | .stopped c => .stopped (relabel g c)
  | .interrupted c => .interrupted (relabel g c)
  | .bad c => .bad (relabel g c)
  | .outOfFuel c => .outOfFuel (relabel g c)

theorem obsEq_relabelOut (g : Nat → Nat) (o : Outcome w) : ObsEq' o (relabelOut g o) := by
  cases o <;> simp only [relabelOut, ObsEq', OutRel, relabel]
  all_goals first | exact CfgEq.refl _ | exact ⟨IoEq.refl _, rfl⟩

theorem rdVal_relabel (g : Nat → Nat) (c : Cfg w) (l : Loc w) : rdVal (relabel g c) l = rdVal c l := by
  cases l <;> rfl

theorem wrCfg_relabel (g : Nat → Nat) (c : Cfg w) (v : BitVec w) (l : Loc w) :
    wrCfg (relabel g c) v l = { wrCfg c v l with pc := g c.pc } := by
  cases l <;> rfl

theorem binopCfg_relabel (g : Nat → Nat) (f : BitVec w → BitVec w → BitVec w) (c : Cfg w) (d a b : Loc w) :
    binopCfg f (relabel g c) d a b = { binopCfg f c d a b with pc := g c.pc } := by
  unfold binopCfg
  split
  · cases d <;> rfl
  · cases d <;> rfl

theorem copyCfg_relabel (g : Nat → Nat) (c : Cfg w) (d s : Loc w) :
    copyCfg (relabel g c) d s = { copyCfg c d s with pc := g c.pc } := by
  unfold copyCfg
  cases d <;> rfl

/-- A non-branch instruction commutes with relabelling as soon as `g (pc + 1) = g pc + 1`. -/
theorem stepI_relabel_nonbranch (p q : Program w) (limited : Bool) (g : Nat → Nat) (c : Cfg w)
    (ins : Instr w) (hnb : branchOff? ins = none) (hg : g (c.pc + 1) = g c.pc + 1) :
    stepI q limited (relabel g c) ins = relabelRes g (stepI p limited c ins) := by
  cases ins with
  | brz _ _ => simp [branchOff?] at hnb
  | brnz _ _ => simp [branchOff?] at hnb
  | noop => simp only [stepI, relabelRes, relabel, hg]
  | mov sh => simp only [stepI, relabelRes, relabel, hg]
  | scan cond sh =>
    by_cases h1 : c.st.rd cond = 0#w
    · simp [stepI, relabel, h1, relabelRes, hg]
    · by_cases h2 : sh = 0
      · cases limited <;> simp [stepI, relabel, h1, h2, relabelRes]
      · simp [stepI, relabel, h1, h2, relabelRes]
  | inp dst =>
    cases h : (c.st.input dst).1 <;> simp [stepI, relabel, h, relabelRes, hg]
  | out src =>
    cases h : (c.st.output src).1 <;> simp [stepI, relabel, h, relabelRes, hg]
  | add d a b =>
    simp only [stepI, arith, binopCfg_relabel]
    split <;> simp only [relabelRes, relabel, hg]
  | sub d a b =>
    simp only [stepI, arith, binopCfg_relabel]
    split <;> simp only [relabelRes, relabel, hg]
  | mul d a b =>
    simp only [stepI, arith, binopCfg_relabel]
    split <;> simp only [relabelRes, relabel, hg]
  | copy d s =>
    simp only [stepI, copyCfg_relabel]
    split <;> simp only [relabelRes, relabel, hg]

theorem branch_relabel (p q : Program w) (limited : Bool) (g : Nat → Nat) (c : Cfg w) (taken : Bool)
    (off off' : Int) (t : Nat) (hg : g (c.pc + 1) = g c.pc + 1)
    (hp : branchTarget c.pc off p.insts.size = some t)
    (hq : branchTarget (g c.pc) off' q.insts.size = some (g t)) :
    branch q limited (relabel g c) taken off' = relabelRes g (branch p limited c taken off) := by
  unfold branch
  simp only [relabel, hp, hq]
  split
  · rfl
  · split
    · simp only [relabelRes, relabel]
    · simp only [relabelRes, relabel, hg]

/-! ### the simulation -/

theorem step_exit {p : Program w} {limited : Bool} {c : Cfg w} (hi : p.insts[c.pc]? = none)
    (hpc : c.pc = p.insts.size) : step p limited c = .halt c := by
  unfold step
  rw [hi]
  simp only [hpc, if_true]

section sim
variable {p q : Program w} (hS : Stripped p.insts q.insts) (hT : TargetsOk p.insts)
include hS hT

theorem strip_step_real (limited : Bool) (c : Cfg w) {ins : Instr w} (hi : p.insts[c.pc]? = some ins)
    (hk : keep ins = true) :
    step q limited (relabel (pos p.insts) c) = relabelRes (pos p.insts) (step p limited c) := by
  have hlt : c.pc < p.insts.size := C07_lt hi
  have hq : q.insts[(relabel (pos p.insts) c).pc]? = some (fixInst p.insts c.pc ins) := hS.get _ _ hi hk
  have hg : pos p.insts (c.pc + 1) = pos p.insts c.pc + 1 := by rw [pos_succ hi, hk]; rfl
  rw [step_eq hq, step_eq hi]
  have hbr : ∀ (taken : Bool) (off : Int), branchOff? ins = some off →
      branch q limited (relabel (pos p.insts) c) taken (newOff p.insts c.pc off)
        = relabelRes (pos p.insts) (branch p limited c taken off) := by
    intro taken off hoff
    have ht := hT _ _ _ hi hoff
    apply branch_relabel p q limited (pos p.insts) c taken off _ ((c.pc : Int) + off).toNat hg
    · simp only [branchTarget, ht, and_self, if_true]
    · have h1 : (pos p.insts c.pc : Int) + newOff p.insts c.pc off = pos p.insts ((c.pc : Int) + off).toNat := by
        unfold newOff; omega
      have h2 : pos p.insts ((c.pc : Int) + off).toNat ≤ q.insts.size := by
        rw [hS.size]; exact pos_mono _ (by omega)
      simp only [branchTarget, h1]
      have h3 : (0 : Int) ≤ (pos p.insts ((c.pc : Int) + off).toNat : Int) ∧
          (pos p.insts ((c.pc : Int) + off).toNat : Int) ≤ (q.insts.size : Int) := by omega
      simp only [h3, and_self, if_true, Int.toNat_natCast]
  cases ins with
  | brz cond off => exact hbr _ off rfl
  | brnz cond off => exact hbr _ off rfl
  | _ => exact stepI_relabel_nonbranch p q limited _ c _ rfl hg

omit hS hT in
theorem strip_step_noop (limited : Bool) (c : Cfg w) (hi : p.insts[c.pc]? = some .noop) :
    step p limited c = .next { c with pc := c.pc + 1 } ∧
    relabel (pos p.insts) { c with pc := c.pc + 1 } = relabel (pos p.insts) c := by
  refine ⟨by rw [step_eq hi]; rfl, ?_⟩
  have : pos p.insts (c.pc + 1) = pos p.insts c.pc := by rw [pos_succ hi]; rfl
  simp only [relabel, this]

omit hT in
theorem strip_step_exit (limited : Bool) (c : Cfg w) (hle : c.pc ≤ p.insts.size) (hi : p.insts[c.pc]? = none) :
    step p limited c = .halt c ∧
    step q limited (relabel (pos p.insts) c) = .halt (relabel (pos p.insts) c) := by
  have hpc : c.pc = p.insts.size := by
    rw [Array.getElem?_eq_none_iff] at hi; omega
  constructor
  · exact step_exit hi hpc
  · have hq : (relabel (pos p.insts) c).pc = q.insts.size := by
      simp only [relabel, hpc, hS.size]
    have hnone : q.insts[(relabel (pos p.insts) c).pc]? = none := by
      rw [Array.getElem?_eq_none_iff]; omega
    exact step_exit hnone hq

omit hS in
theorem strip_next_pc_le (limited : Bool) {c c' : Cfg w} (_hle : c.pc ≤ p.insts.size)
    (hs : step p limited c = .next c') : c'.pc ≤ p.insts.size := by
  cases hi : p.insts[c.pc]? with
  | none =>
    unfold step at hs; simp only [hi] at hs
    split at hs <;> cases hs
  | some ins =>
    have hlt : c.pc < p.insts.size := C07_lt hi
    obtain ⟨ss, hss⟩ := Option.isSome_iff_exists.mp (succs_of_targetsOk hT hi)
    rw [step_eq hi] at hs
    rcases stepI_pc hss hs with h | h
    · exact succs_le hlt hss _ h
    · omega

/-- Forward: the stripped program needs no more fuel and ends in the relabelled outcome. -/
theorem strip_forward (limited : Bool) :
    ∀ (fuel : Nat) (c : Cfg w), c.pc ≤ p.insts.size →
      ∃ fuel', fuel' ≤ fuel ∧
        runCfg q limited fuel' (relabel (pos p.insts) c) = relabelOut (pos p.insts) (runCfg p limited fuel c) := by
  intro fuel
  induction fuel with
  | zero => intro c _; exact ⟨0, Nat.le_refl _, rfl⟩
  | succ n ih =>
    intro c hle
    cases hi : p.insts[c.pc]? with
    | none =>
      obtain ⟨h1, h2⟩ := strip_step_exit hS limited c hle hi
      exact ⟨1, by omega, by simp only [runCfg, h1, h2, relabelOut]⟩
    | some ins =>
      by_cases hk : keep ins = true
      · have hst := strip_step_real hS hT limited c hi hk
        cases hs : step p limited c with
        | next c' =>
          obtain ⟨f', hf', e⟩ := ih c' (strip_next_pc_le hT limited hle hs)
          refine ⟨f' + 1, by omega, ?_⟩
          rw [hs] at hst
          simp only [runCfg, hst, hs, relabelRes, e]
        | halt c' => rw [hs] at hst; exact ⟨1, by omega, by simp only [runCfg, hst, hs, relabelRes, relabelOut]⟩
        | stop c' => rw [hs] at hst; exact ⟨1, by omega, by simp only [runCfg, hst, hs, relabelRes, relabelOut]⟩
        | interrupted c' =>
          rw [hs] at hst; exact ⟨1, by omega, by simp only [runCfg, hst, hs, relabelRes, relabelOut]⟩
        | bad c' => rw [hs] at hst; exact ⟨1, by omega, by simp only [runCfg, hst, hs, relabelRes, relabelOut]⟩
      · have hn : ins = .noop := by cases ins <;> simp_all [keep, isNoop]
        subst hn
        obtain ⟨h1, h2⟩ := strip_step_noop limited c hi
        obtain ⟨f', hf', e⟩ := ih _ (show ({ c with pc := c.pc + 1 } : Cfg w).pc ≤ p.insts.size from by
          have := C07_lt hi; simp only; omega)
        refine ⟨f', by omega, ?_⟩
        rw [h2] at e
        simp only [runCfg, h1, e]

omit hS hT in
/-- Skipping the `noop`s in front of the next real instruction (or the exit). -/
theorem strip_skip (limited : Bool) :
    ∀ (d : Nat) (c : Cfg w), p.insts.size - c.pc = d → c.pc ≤ p.insts.size →
      ∃ (k : Nat) (c' : Cfg w), (∀ m, runCfg p limited (k + m) c = runCfg p limited m c') ∧
        relabel (pos p.insts) c' = relabel (pos p.insts) c ∧ c'.pc ≤ p.insts.size ∧
        (∀ ins, p.insts[c'.pc]? = some ins → keep ins = true) := by
  intro d
  induction d with
  | zero =>
    intro c hd hle
    refine ⟨0, c, fun m => by rw [Nat.zero_add], rfl, hle, ?_⟩
    intro ins hi
    have := C07_lt hi
    omega
  | succ d ih =>
    intro c hd hle
    by_cases hn : p.insts[c.pc]? = some .noop
    · obtain ⟨h1, h2⟩ := strip_step_noop limited c hn
      obtain ⟨k, c', hrun, hrel, hle', hkeep⟩ := ih { c with pc := c.pc + 1 } (by simp only; omega)
        (by simp only; omega)
      refine ⟨k + 1, c', ?_, by rw [hrel, h2], hle', hkeep⟩
      intro m
      rw [show k + 1 + m = (k + m) + 1 by omega]
      simp only [runCfg, h1]
      exact hrun m
    · refine ⟨0, c, fun m => by rw [Nat.zero_add], rfl, hle, ?_⟩
      intro ins hi
      cases ins <;> first | rfl | exact absurd hi hn

/-- Backward: every run of the stripped program is the relabelled image of a run of the original. -/
theorem strip_backward (limited : Bool) :
    ∀ (fuel : Nat) (c : Cfg w), c.pc ≤ p.insts.size →
      ∃ fuel', runCfg q limited fuel (relabel (pos p.insts) c)
        = relabelOut (pos p.insts) (runCfg p limited fuel' c) := by
  intro fuel
  induction fuel with
  | zero => intro c _; exact ⟨0, rfl⟩
  | succ n ih =>
    intro c hle
    obtain ⟨k, c', hrun, hrel, hle', hkeep⟩ := strip_skip (p := p) limited _ c rfl hle
    rw [← hrel]
    cases hi : p.insts[c'.pc]? with
    | none =>
      obtain ⟨h1, h2⟩ := strip_step_exit hS limited c' hle' hi
      refine ⟨k + 1, ?_⟩
      rw [hrun 1]
      simp only [runCfg, h1, h2, relabelOut]
    | some ins =>
      have hst := strip_step_real hS hT limited c' hi (hkeep ins hi)
      cases hs : step p limited c' with
      | next c'' =>
        obtain ⟨f', e⟩ := ih c'' (strip_next_pc_le hT limited hle' hs)
        refine ⟨k + (f' + 1), ?_⟩
        rw [hrun (f' + 1)]
        rw [hs] at hst
        simp only [runCfg, hst, hs, relabelRes, e]
      | halt c'' =>
        refine ⟨k + 1, ?_⟩
        rw [hrun 1]
        rw [hs] at hst
        simp only [runCfg, hst, hs, relabelRes, relabelOut]
      | stop c'' =>
        refine ⟨k + 1, ?_⟩
        rw [hrun 1]
        rw [hs] at hst
        simp only [runCfg, hst, hs, relabelRes, relabelOut]
      | interrupted c'' =>
        refine ⟨k + 1, ?_⟩
        rw [hrun 1]
        rw [hs] at hst
        simp only [runCfg, hst, hs, relabelRes, relabelOut]
      | bad c'' =>
        refine ⟨k + 1, ?_⟩
        rw [hrun 1]
        rw [hs] at hst
        simp only [runCfg, hst, hs, relabelRes, relabelOut]

theorem strip_behEq : BehEq p q := by
  have h0 : ∀ c : Cfg w, c.pc = 0 → relabel (pos p.insts) c = c := by
    intro c hc
    simp only [relabel, hc, pos_zero]
    cases c; simp_all
  constructor
  · apply beh_of_runCfg (fun c => ObsEq'.refl _)
    intro limited fuel c hc
    obtain ⟨f', _, e⟩ := strip_forward hS hT limited fuel c (by omega)
    refine ⟨f', ?_⟩
    rw [h0 c hc] at e
    rw [e]
    exact obsEq_relabelOut _ _
  · apply beh_of_runCfg (fun c => ObsEq'.refl _)
    intro limited fuel c hc
    obtain ⟨f', e⟩ := strip_backward hS hT limited fuel c (by omega)
    refine ⟨f', ?_⟩
    rw [h0 c hc] at e
    rw [e]
    exact (obsEq_relabelOut _ _).symm

end sim

/-! ### the pass -/

theorem zip_filter_length {α β : Type} (P : β → Bool) :
    ∀ (a : List α) (b : List β), a.length = b.length →
      (((a.zip b).filter (fun li => P li.2)).map (·.1)).length = (b.filter P).length := by
  intro a
  induction a with
  | nil => intro b h; cases b <;> simp_all
  | cons x xs ih =>
    intro b h
    cases b with
    | nil => simp at h
    | cons y ys =>
      have := ih ys (by simpa using h)
      simp only [List.zip_cons_cons, List.filter_cons]
      by_cases hy : P y = true
      · simp only [hy, if_true, List.map_cons, List.length_cons, this]
      · simp only [hy, Bool.false_eq_true, if_false, this]

/-- Required theorem 2.  For a program whose branches all land inside `[0, n]` and whose `live` array is as
long as the instruction array, `strip_noops` succeeds; the result contains no `noop`, satisfies the index-map
specification `Stripped`, keeps `live.size = insts.size`, leaves the other fields alone, and is behaviourally
equivalent (strong observation) to the original. -/
theorem stripNoops_preserves (s : St w) (hl : s.live.size = s.insts.size) (hT : TargetsOk s.insts) :
    ∃ s', stripNoops s = .ok s' ∧ Stripped s.insts s'.insts ∧ s'.live.size = s'.insts.size ∧
      s'.isTarget = s.isTarget ∧
      ∀ (t : Nat) (mn mx : Int), BehEq (progOf s t mn mx) (progOf s' t mn mx) := by
  obtain ⟨fixed, hfix, hsz, _, hget⟩ := fixBranches_spec hT s.insts.size (Array.mkEmpty s.insts.size)
    (Nat.le_refl _)
  have hsz' : fixed.size = s.insts.size := by simpa using hsz
  have hget' : ∀ j, j < s.insts.size → fixed[j]? = (s.insts[j]?).map (fixInst s.insts j) := by
    intro j hj
    have := hget j hj
    simpa using this
  have hS : Stripped s.insts (fixed.filter keep) := stripped_of_fixed hsz' hget'
  have hlive : ¬ (s.live.size > fixed.size) := by omega
  refine ⟨{ s with
      live := (((s.live.toList.zip fixed.toList).filter (fun li => !isNoop li.2)).map (·.1)).toArray,
      insts := fixed.filter (fun x => !isNoop x) }, ?_, hS, ?_, rfl, ?_⟩
  · unfold stripNoops
    simp only [hfix, hlive, if_false]
  · simp only [List.size_toArray]
    rw [zip_filter_length (fun x : Instr w => !isNoop x) s.live.toList fixed.toList (by simp; omega)]
    rw [← Array.toList_filter, Array.length_toList]
  · intro t mn mx
    exact strip_behEq (p := progOf s t mn mx) (q := progOf _ t mn mx) hS hT

/-! ### non-vacuity -/

/-- A loop with `noop`s inside and in front of it, a forward branch over a `noop` to the exit and a backward
branch to an instruction preceded by a `noop`. -/
def exStrip : St 8 :=
  { insts := #[.noop, .copy (.mem 0) (.imm 3#8), .noop, .brz 0 6, .noop, .out 0, .noop,
               .add (.mem 0) (.mem 0) (.imm 255#8), .brnz 0 (-4), .noop],
    live := #[0, 1, 2, 3, 4, 5, 6, 7, 8, 9] }

example : (stripNoops exStrip).toOption.map (fun s => (s.insts, s.live)) =
    some (#[.copy (.mem 0) (.imm 3#8), .brz 0 4, .out 0, .add (.mem 0) (.mem 0) (.imm 255#8), .brnz 0 (-2)],
          #[1, 3, 5, 7, 8]) := by decide +kernel

example : TargetsOk exStrip.insts := by
  apply targetsOk_of_succs
  intro i ins hi
  have hlt : i < 10 := C07_lt hi
  have : ∀ i : Fin 10, ∀ ins, exStrip.insts[i.val]? = some ins → (succs 10 i.val ins).isSome = true := by
    decide +kernel
  exact this ⟨i, hlt⟩ ins hi

/-- Without the precondition the pass panics (index out of bounds in `cum_noop[target]`). -/
example : (stripNoops ({ insts := #[.brz 0 5], live := #[0] } : St 8)).toOption = none := by decide +kernel

end C02
end Hpbf
