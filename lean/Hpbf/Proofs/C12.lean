/-
C12 — bracket validation of `Program::parse` (model `Ir.parse`) and of the canonical bracket tree
(`Bf.tree`), comment insensitivity, UTF-8 classification.

First part: the declarative bracket SPEC (independent of the parser). Second part: lemmas.
The property theorems themselves are in `Hpbf/Props/C12.lean`.
-/
import Hpbf.Ir
import Hpbf.Inplace

namespace Hpbf
namespace C12

/-! ## Specification (independent of the parser) -/

/-- Depth after scanning `src` starting at depth `d`; `none` as soon as a `]` arrives at depth 0. -/
def depthScan : List Kind → Nat → Option Nat
  | [], d => some d
  | k :: ks, d =>
    match k with
    | .open => depthScan ks (d + 1)
    | .close =>
      match d with
      | 0 => none
      | d' + 1 => depthScan ks d'
    | _ => depthScan ks d

/-- The brackets of `src` are balanced. -/
def Balanced (src : List Kind) : Prop := depthScan src 0 = some 0

instance (src : List Kind) : Decidable (Balanced src) := by unfold Balanced; infer_instance

/-- `firstUnmatchedCloseFrom src i d`: `src` is the text from character index `i` on, `d` the current
depth. Index of the first `]` arriving at depth 0. -/
def firstUnmatchedCloseFrom : List Kind → Nat → Nat → Option Nat
  | [], _, _ => none
  | k :: ks, i, d =>
    match k with
    | .open => firstUnmatchedCloseFrom ks (i + 1) (d + 1)
    | .close =>
      match d with
      | 0 => some i
      | d' + 1 => firstUnmatchedCloseFrom ks (i + 1) d'
    | _ => firstUnmatchedCloseFrom ks (i + 1) d

/-- Index of the first `]` that has no partner (first position where the running depth would go
negative). -/
def firstUnmatchedClose (src : List Kind) : Option Nat := firstUnmatchedCloseFrom src 0 0

/-- `openStack src i st`: `src` is the text from character index `i` on, `st` the indices of the
currently open `[` (innermost first). Result: the indices of the `[` still open at the end of the
text (innermost first); `none` if some `]` has no partner. -/
def openStack : List Kind → Nat → List Nat → Option (List Nat)
  | [], _, st => some st
  | k :: ks, i, st =>
    match k with
    | .open => openStack ks (i + 1) (i :: st)
    | .close =>
      match st with
      | [] => none
      | _ :: st' => openStack ks (i + 1) st'
    | _ => openStack ks (i + 1) st

/-- If no `]` is unmatched: the index of the LAST `[` that is never closed, i.e. the innermost
unclosed one at the end of the text. -/
def innermostUnclosed (src : List Kind) : Option Nat :=
  match openStack src 0 [] with
  | some (p :: _) => some p
  | _ => none

/-- Remove the non-command characters. -/
def strip (src : List Kind) : List Kind := src.filter (· ≠ Kind.comment)

/-- The error the spec prescribes for an unbalanced text. -/
def specError (src : List Kind) : Ir.ParseErr :=
  match firstUnmatchedClose src with
  | some i => ⟨.loopNotOpened, i⟩
  | none => ⟨.loopNotClosed, (innermostUnclosed src).getD 0⟩

/-! ## Sanity lemmas about the spec itself -/

theorem depthScan_append (a b : List Kind) : ∀ d,
    depthScan (a ++ b) d = (depthScan a d).bind (depthScan b) := by
  induction a with
  | nil => intro d; rfl
  | cons k ks ih =>
    intro d
    cases k <;> simp only [List.cons_append, depthScan, ih]
    cases d <;> simp

/-- the three spec functions are consistent: the depth counter of `depthScan` /
`firstUnmatchedCloseFrom` is the length of the stack of `openStack`. -/
theorem spec_consistent (src : List Kind) : ∀ (i : Nat) (st : List Nat),
    match openStack src i st with
    | some st' => depthScan src st.length = some st'.length ∧
        firstUnmatchedCloseFrom src i st.length = none
    | none => depthScan src st.length = none ∧
        (firstUnmatchedCloseFrom src i st.length).isSome := by
  induction src with
  | nil => intro i st; simp [openStack, depthScan, firstUnmatchedCloseFrom]
  | cons k ks ih =>
    intro i st
    cases k <;> simp only [openStack, depthScan, firstUnmatchedCloseFrom]
    case «open» => exact ih (i + 1) (i :: st)
    case close =>
      cases st with
      | nil => simp
      | cons p st' => exact ih (i + 1) st'
    all_goals exact ih (i + 1) st

theorem firstUnmatchedClose_eq_none_iff (src : List Kind) :
    firstUnmatchedClose src = none ↔ (depthScan src 0).isSome := by
  have h := spec_consistent src 0 []
  unfold firstUnmatchedClose
  split at h
  · simp_all
  · obtain ⟨h1, h2⟩ := h
    simp only [List.length_nil] at h1 h2
    rw [h1]
    cases hf : firstUnmatchedCloseFrom src 0 0 <;> simp_all

/-- Balanced = no unmatched `]` and no unclosed `[`. -/
theorem balanced_iff (src : List Kind) :
    Balanced src ↔ firstUnmatchedClose src = none ∧ innermostUnclosed src = none := by
  have h := spec_consistent src 0 []
  unfold Balanced firstUnmatchedClose innermostUnclosed
  split at h
  · rename_i st' heq
    obtain ⟨h1, h2⟩ := h
    simp only [List.length_nil] at h1 h2
    rw [h1, h2, heq]
    cases st' <;> simp
  · rename_i heq
    obtain ⟨h1, h2⟩ := h
    simp only [List.length_nil] at h1 h2
    rw [h1, heq]
    cases hf : firstUnmatchedCloseFrom src 0 0 <;> simp_all

/-! ### Positional characterisations of `firstUnmatchedClose` and `innermostUnclosed` -/

theorem fuc_shift (src : List Kind) : ∀ i d,
    firstUnmatchedCloseFrom src i d = (firstUnmatchedCloseFrom src 0 d).map (· + i) := by
  induction src with
  | nil => intro i d; rfl
  | cons k ks ih =>
    intro i d
    cases k <;> simp only [firstUnmatchedCloseFrom, Nat.zero_add]
    case close =>
      cases d with
      | zero => simp
      | succ d' =>
        simp only
        rw [ih (i + 1), ih 1]
        cases firstUnmatchedCloseFrom ks 0 d' <;> simp; omega
    all_goals
      rw [ih (i + 1), ih 1]
      cases firstUnmatchedCloseFrom ks 0 _ <;> simp; omega

theorem fuc_iff (src : List Kind) : ∀ d n,
    firstUnmatchedCloseFrom src 0 d = some n ↔
      src[n]? = some Kind.close ∧ depthScan (src.take n) d = some 0 := by
  induction src with
  | nil => intro d n; simp [firstUnmatchedCloseFrom]
  | cons k ks ih =>
    intro d n
    cases k <;> simp only [firstUnmatchedCloseFrom, Nat.zero_add]
    case close =>
      cases d with
      | zero => cases n <;> simp [depthScan]
      | succ d' =>
        simp only
        rw [fuc_shift ks 1]
        cases n with
        | zero => simp [depthScan]
        | succ n => simp [ih, depthScan]
    all_goals
      rw [fuc_shift ks 1]
      cases n with
      | zero => simp
      | succ n => simp [ih, depthScan]

/-- `firstUnmatchedClose src = some i` iff character `i` is a `]` and the text before it scans from
depth 0 to depth 0 without going negative. -/
theorem firstUnmatchedClose_iff (src : List Kind) (i : Nat) :
    firstUnmatchedClose src = some i ↔
      src[i]? = some Kind.close ∧ depthScan (src.take i) 0 = some 0 :=
  fuc_iff src 0 i

theorem openStack_append (a b : List Kind) : ∀ i st,
    openStack (a ++ b) i st = (openStack a i st).bind (openStack b (i + a.length)) := by
  induction a with
  | nil => intro i st; rfl
  | cons k ks ih =>
    intro i st
    have e : i + (ks.length + 1) = i + 1 + ks.length := by omega
    cases k <;> simp only [List.cons_append, openStack, List.length_cons, ih, e]
    cases st <;> simp

/-- Every position `p` left on the final stack at depth-index `m` (0 = innermost) is a `[`, and the
text after it scans from depth 0 to depth `m`. (Stated for `l.reverse` to do induction from the end.) -/
theorem openStack_final (l : List Kind) : ∀ st, openStack l.reverse 0 [] = some st →
    ∀ (m p : Nat), st[m]? = some p →
      l.reverse[p]? = some Kind.open ∧ depthScan (l.reverse.drop (p + 1)) 0 = some m := by
  induction l with
  | nil =>
    intro st h m p hp
    simp only [List.reverse_nil, openStack, Option.some.injEq] at h
    subst h
    simp at hp
  | cons k l ih =>
    intro st h m p hp
    rw [List.reverse_cons, openStack_append] at h
    rw [List.reverse_cons]
    cases hA : openStack l.reverse 0 [] with
    | none => rw [hA] at h; simp at h
    | some sta =>
      rw [hA] at h
      have ih' := ih sta hA
      have hlt : ∀ (m p : Nat), sta[m]? = some p → p < l.reverse.length := by
        intro m p hmp
        have := (ih' m p hmp).1
        exact (List.getElem?_eq_some_iff.mp this).1
      simp only [Option.bind_some, Nat.zero_add, List.length_reverse] at h
      have key : ∀ (m p : Nat) (x : Kind) (e : Nat), sta[m]? = some p → depthScan [x] m = some e →
          (l.reverse ++ [x])[p]? = some Kind.open ∧
            depthScan ((l.reverse ++ [x]).drop (p + 1)) 0 = some e := by
        intro m p x e hmp hx
        have h1 := ih' m p hmp
        have h2 := hlt m p hmp
        rw [List.getElem?_append_left h2, List.drop_append_of_le_length (by omega),
          depthScan_append, h1.2]
        exact ⟨h1.1, hx⟩
      cases k
      case «open» =>
        simp only [openStack, Option.some.injEq] at h
        subst h
        cases m with
        | zero =>
          simp only [List.getElem?_cons_zero, Option.some.injEq] at hp
          subst hp
          constructor
          · rw [List.getElem?_append_right (by simp)]; simp
          · rw [List.drop_of_length_le (by simp)]; rfl
        | succ m =>
          simp only [List.getElem?_cons_succ] at hp
          exact key m p _ _ hp rfl
      case close =>
        cases sta with
        | nil => simp [openStack] at h
        | cons q st' =>
          simp only [openStack, Option.some.injEq] at h
          subst h
          exact key (m + 1) p _ _ (by simpa using hp) rfl
      all_goals
        simp only [openStack, Option.some.injEq] at h
        subst h
        exact key m p _ _ hp rfl

/-- A scan that never goes below the bottom `st1.length` entries only touches those. -/
theorem openStack_of_depthScan (b : List Kind) : ∀ (i : Nat) (st1 : List Nat) (e : Nat),
    depthScan b st1.length = some e →
      ∃ st1', st1'.length = e ∧ ∀ st2, openStack b i (st1 ++ st2) = some (st1' ++ st2) := by
  induction b with
  | nil =>
    intro i st1 e h
    simp only [depthScan, Option.some.injEq] at h
    exact ⟨st1, h, fun _ => rfl⟩
  | cons k ks ih =>
    intro i st1 e h
    cases k <;> simp only [depthScan] at h <;> simp only [openStack]
    case «open» => exact ih (i + 1) (i :: st1) e h
    case close =>
      cases st1 with
      | nil => simp at h
      | cons q st1t => exact ih (i + 1) st1t e (by simpa using h)
    all_goals exact ih (i + 1) st1 e h

/-- `innermostUnclosed src = some j` iff (no `]` is unmatched and) character `j` is a `[` and the text
after it is balanced — i.e. `j` is the last `[` that is never closed. -/
theorem innermostUnclosed_iff (src : List Kind) (j : Nat) (hF : firstUnmatchedClose src = none) :
    innermostUnclosed src = some j ↔ src[j]? = some Kind.open ∧ Balanced (src.drop (j + 1)) := by
  constructor
  · intro h
    unfold innermostUnclosed at h
    split at h
    · rename_i p rest heq
      simp only [Option.some.injEq] at h
      subst h
      have := openStack_final src.reverse (p :: rest) (by rwa [List.reverse_reverse]) 0 p rfl
      rwa [List.reverse_reverse] at this
    · simp at h
  · rintro ⟨hj, hb⟩
    obtain ⟨hlt, hget⟩ := List.getElem?_eq_some_iff.mp hj
    have hsplit : src = src.take j ++ Kind.open :: src.drop (j + 1) := by
      rw [← hget, ← List.drop_eq_getElem_cons hlt, List.take_append_drop]
    have hc := spec_consistent src 0 []
    unfold firstUnmatchedClose at hF
    unfold innermostUnclosed
    cases hS : openStack src 0 [] with
    | none => rw [hS] at hc; simp [hF] at hc
    | some S =>
      rw [hsplit, openStack_append] at hS
      cases hA : openStack (src.take j) 0 [] with
      | none => rw [hA] at hS; simp at hS
      | some sta =>
        rw [hA] at hS
        simp only [Option.bind_some, Nat.zero_add, List.length_take, Nat.min_eq_left (Nat.le_of_lt hlt),
          openStack] at hS
        obtain ⟨st1', hl, hst⟩ := openStack_of_depthScan (src.drop (j + 1)) (j + 1) [] 0 hb
        have hnil : st1' = [] := List.eq_nil_of_length_eq_zero hl
        subst hnil
        have := hst (j :: sta)
        simp only [List.nil_append] at this
        rw [this] at hS
        simp only [Option.some.injEq] at hS
        subst hS
        rfl

/-! ## The parser against the spec -/

open Ir

variable {w : Nat}

/-- The initial parser state. -/
def ps0 : PState w :=
  { top := { shift := 0, moved := false, rinsts := [], buff := [] }, rest := [], positions := [] }

/-- The parser's stack invariant: one suspended frame per open bracket position. -/
def Inv (ps : PState w) : Prop := ps.rest.length = ps.positions.length

theorem inv_ps0 : Inv (ps0 : PState w) := rfl

/-- `parse_invariant`, one step. -/
theorem parseStep_inv {ps ps' : PState w} {i : Nat} {k : Kind} (h : Inv ps)
    (hs : parseStep ps i k = .ok ps') : Inv ps' := by
  obtain ⟨top, rest, positions⟩ := ps
  unfold Inv at *
  cases k <;> simp only [parseStep] at hs
  case close =>
    cases positions with
    | nil => simp at hs
    | cons p poss =>
      cases rest with
      | nil => simp at h
      | cons par rest' =>
        simp only [Except.ok.injEq] at hs
        subst hs
        simpa using h
  all_goals
    simp only [Except.ok.injEq] at hs
    subst hs
    simpa using h

/-- Master lemma: `parseLoop` run from a state satisfying the invariant agrees with the three spec
scans (started with the current stack of open positions / the current depth). -/
theorem parseLoop_spec (src : List Kind) : ∀ (i : Nat) (ps : PState w), Inv ps →
    match parseLoop src i ps with
    | .ok ps' => Inv ps' ∧ openStack src i ps.positions = some ps'.positions ∧
        depthScan src ps.positions.length = some ps'.positions.length ∧
        firstUnmatchedCloseFrom src i ps.positions.length = none
    | .error e => e.kind = .loopNotOpened ∧ openStack src i ps.positions = none ∧
        depthScan src ps.positions.length = none ∧
        firstUnmatchedCloseFrom src i ps.positions.length = some e.position := by
  induction src with
  | nil => intro i ps h; simp [parseLoop, openStack, depthScan, firstUnmatchedCloseFrom, h]
  | cons k ks ih =>
    intro i ps h
    obtain ⟨top, rest, positions⟩ := ps
    cases k <;> simp only [parseLoop, parseStep, openStack, depthScan, firstUnmatchedCloseFrom]
    case «open» =>
      exact ih (i + 1) ⟨_, top :: rest, i :: positions⟩ (by simpa [Inv] using h)
    case close =>
      cases positions with
      | nil => simp
      | cons p poss =>
        cases rest with
        | nil => simp [Inv] at h
        | cons par rest' =>
          exact ih (i + 1) ⟨_, rest', poss⟩ (by simpa [Inv] using h)
    all_goals exact ih (i + 1) ⟨_, rest, positions⟩ h

/-- `parse_invariant`: `positions.length = rest.length` holds along `parseLoop`. -/
theorem parseLoop_inv {src : List Kind} {i : Nat} {ps ps' : PState w} (h : Inv ps)
    (hl : parseLoop src i ps = .ok ps') : Inv ps' := by
  have := parseLoop_spec src i ps h
  rw [hl] at this
  exact this.1

theorem parseLoop_append (a b : List Kind) : ∀ (i : Nat) (ps : PState w),
    parseLoop (a ++ b) i ps =
      match parseLoop a i ps with
      | .error e => .error e
      | .ok ps' => parseLoop b (i + a.length) ps' := by
  induction a with
  | nil => intro i ps; simp [parseLoop]
  | cons k ks ih =>
    intro i ps
    simp only [List.cons_append, parseLoop, List.length_cons]
    cases parseStep ps i k with
    | error e => rfl
    | ok ps' => simp only [ih]; rw [Nat.add_assoc, Nat.add_comm 1]

/-- What `parse` does, in terms of the final state of `parseLoop`. -/
theorem parse_eq (src : List Kind) :
    Ir.parse (w := w) src =
      match parseLoop src 0 (ps0 : PState w) with
      | .error e => .error e
      | .ok ps =>
        match ps.rest, ps.positions with
        | [], _ => .ok { shift := ps.top.shift, insts := (pushAdds ps.top.rinsts (bsorted ps.top.buff)).reverse }
        | _ :: _, p :: _ => .error { kind := .loopNotClosed, position := p }
        | _ :: _, [] => .error { kind := .loopNotClosed, position := 0 } := rfl

/-- `parse` against the spec, all in one. -/
theorem parse_spec (src : List Kind) :
    match Ir.parse (w := w) src with
    | .ok _ => Balanced src
    | .error e => ¬ Balanced src ∧ e = specError src ∧
        (match firstUnmatchedClose src with
         | some i => e = ⟨.loopNotOpened, i⟩
         | none => ∃ j, innermostUnclosed src = some j ∧ e = ⟨.loopNotClosed, j⟩) := by
  have h := parseLoop_spec src 0 (ps0 : PState w) inv_ps0
  rw [parse_eq]
  unfold Balanced specError firstUnmatchedClose innermostUnclosed
  cases hl : parseLoop src 0 (ps0 : PState w) with
  | error e =>
    rw [hl] at h
    obtain ⟨h1, h2, h3, h4⟩ := h
    simp only [ps0, List.length_nil] at h2 h3 h4
    obtain ⟨kind, pos⟩ := e
    simp only at h1 h4
    subst h1
    simp [h3, h4]
  | ok ps =>
    rw [hl] at h
    obtain ⟨h1, h2, h3, h4⟩ := h
    simp only [ps0, List.length_nil] at h2 h3 h4
    obtain ⟨top, rest, positions⟩ := ps
    unfold Inv at h1
    simp only at h1 h2 h3 h4
    cases rest with
    | nil =>
      cases positions with
      | nil => simpa using h3
      | cons p poss => simp at h1
    | cons par rest' =>
      cases positions with
      | nil => simp at h1
      | cons p poss => simp [h2, h3, h4]

/-! ## The canonical bracket tree against the spec -/

/-- Swap the two brackets. -/
def mirror (k : Kind) : Kind :=
  match k with
  | .open => .close
  | .close => .open
  | k => k

/-- A scan from depth `d` to depth `e` read backwards with the brackets swapped is a scan from `e`
to `d` (the same path, reversed; it stays non-negative). -/
theorem depthScan_reverse (src : List Kind) : ∀ d e,
    depthScan src d = some e ↔ depthScan (src.reverse.map mirror) e = some d := by
  induction src with
  | nil => intro d e; simp [depthScan, eq_comm]
  | cons k ks ih =>
    intro d e
    simp only [List.reverse_cons, List.map_append, List.map_cons, List.map_nil, depthScan_append]
    cases k <;> simp only [depthScan, mirror]
    case «open» =>
      rw [ih]
      cases depthScan (ks.reverse.map mirror) e with
      | none => simp
      | some m => cases m <;> simp
    case close =>
      cases d with
      | zero =>
        cases depthScan (ks.reverse.map mirror) e <;> simp
      | succ d' =>
        simp only [ih]
        cases depthScan (ks.reverse.map mirror) e <;> simp
    all_goals
      rw [ih]
      cases depthScan (ks.reverse.map mirror) e <;> simp

theorem treeRev_isSome (ks : List Kind) : ∀ (cur : Prog) (stack : List Prog),
    (Bf.treeRev ks cur stack).isSome ↔ depthScan (ks.map mirror) stack.length = some 0 := by
  induction ks with
  | nil => intro cur stack; cases stack <;> simp [Bf.treeRev, depthScan]
  | cons k ks ih =>
    intro cur stack
    cases k <;> simp only [Bf.treeRev, List.map_cons, mirror, depthScan]
    case «open» =>
      cases stack with
      | nil => simp
      | cons outer stack' => simpa using ih _ stack'
    case close => simpa using ih .nil (cur :: stack)
    all_goals exact ih _ stack

/-! ## Comment insensitivity -/

theorem strip_cons_comment (ks : List Kind) : strip (.comment :: ks) = strip ks := by
  simp [strip]

theorem strip_cons_of_ne {k : Kind} (h : k ≠ .comment) (ks : List Kind) :
    strip (k :: ks) = k :: strip ks := by
  simp [strip, h]

theorem strip_append (a b : List Kind) : strip (a ++ b) = strip a ++ strip b := by
  simp [strip]

theorem strip_reverse (a : List Kind) : strip a.reverse = (strip a).reverse := by
  simp [strip]

theorem strip_strip (a : List Kind) : strip (strip a) = strip a := by
  simp [strip]

theorem treeRev_strip (ks : List Kind) : ∀ (cur : Prog) (stack : List Prog),
    Bf.treeRev (strip ks) cur stack = Bf.treeRev ks cur stack := by
  induction ks with
  | nil => intro cur stack; rfl
  | cons k ks ih =>
    intro cur stack
    cases k
    case comment => rw [strip_cons_comment, ih]; rfl
    all_goals
      rw [strip_cons_of_ne (by decide)]
      simp only [Bf.treeRev]
      first
        | exact ih _ _
        | (cases stack with
           | nil => rfl
           | cons o st => exact ih _ _)

/-- The text with explicit character indices. -/
def label : List Kind → Nat → List (Nat × Kind)
  | [], _ => []
  | k :: ks, i => (i, k) :: label ks (i + 1)

/-- `parseLoop` on an index-labelled text. -/
def parseLoopL : List (Nat × Kind) → PState w → Except ParseErr (PState w)
  | [], ps => .ok ps
  | (i, k) :: l, ps =>
    match parseStep ps i k with
    | .error e => .error e
    | .ok ps' => parseLoopL l ps'

theorem parseLoop_eq_L (src : List Kind) : ∀ (i : Nat) (ps : PState w),
    parseLoop src i ps = parseLoopL (label src i) ps := by
  induction src with
  | nil => intro i ps; rfl
  | cons k ks ih =>
    intro i ps
    simp only [parseLoop, label, parseLoopL]
    cases parseStep ps i k with
    | error e => rfl
    | ok ps' => exact ih _ _

/-- A comment character is a no-op of `parseStep`. -/
theorem parseStep_comment (ps : PState w) (i : Nat) : parseStep ps i .comment = .ok ps := rfl

theorem parseLoopL_filter (l : List (Nat × Kind)) : ∀ ps : PState w,
    parseLoopL (l.filter (fun p => p.2 ≠ Kind.comment)) ps = parseLoopL l ps := by
  induction l with
  | nil => intro ps; rfl
  | cons p l ih =>
    intro ps
    obtain ⟨i, k⟩ := p
    by_cases hk : k = .comment
    · subst hk
      have : List.filter (fun p => decide (p.2 ≠ Kind.comment)) ((i, Kind.comment) :: l) =
          List.filter (fun p => decide (p.2 ≠ Kind.comment)) l := by simp
      rw [this, ih]
      rfl
    · simp only [hk, List.filter_cons, ne_eq, not_false_eq_true, decide_true, if_true, parseLoopL]
      cases parseStep ps i k with
      | error e => rfl
      | ok ps' => exact ih _

/-- Rename the recorded positions. -/
def mapPos (f : Nat → Nat) (ps : PState w) : PState w := { ps with positions := ps.positions.map f }

def mapRes (f : Nat → Nat) : Except ParseErr (PState w) → Except ParseErr (PState w)
  | .ok ps => .ok (mapPos f ps)
  | .error e => .error ⟨e.kind, f e.position⟩

/-- Rename the position of an error. -/
def mapErr {α : Type} (f : Nat → Nat) : Except ParseErr α → Except ParseErr α
  | .ok a => .ok a
  | .error e => .error ⟨e.kind, f e.position⟩

/-- `parseStep` uses the character index only to record it. -/
theorem parseStep_mapPos (f : Nat → Nat) (ps : PState w) (i : Nat) (k : Kind) :
    parseStep (mapPos f ps) (f i) k = mapRes f (parseStep ps i k) := by
  obtain ⟨top, rest, positions⟩ := ps
  cases k <;> simp only [parseStep, mapPos, mapRes, List.map_cons]
  cases positions with
  | nil => rfl
  | cons p poss =>
    cases rest with
    | nil => rfl
    | cons par rest' => rfl

theorem parseLoopL_mapPos (f : Nat → Nat) (l : List (Nat × Kind)) : ∀ ps : PState w,
    parseLoopL (l.map (fun p => (f p.1, p.2))) (mapPos f ps) = mapRes f (parseLoopL l ps) := by
  induction l with
  | nil => intro ps; rfl
  | cons p l ih =>
    intro ps
    obtain ⟨i, k⟩ := p
    simp only [List.map_cons, parseLoopL, parseStep_mapPos]
    cases parseStep ps i k with
    | error e => rfl
    | ok ps' => exact ih _

theorem le_of_mem_label (ks : List Kind) : ∀ (i : Nat) (p : Nat × Kind), p ∈ label ks i → i ≤ p.1 := by
  induction ks with
  | nil => intro i p h; simp [label] at h
  | cons k ks ih =>
    intro i p h
    simp only [label, List.mem_cons] at h
    rcases h with h | h
    · subst h; exact Nat.le_refl _
    · exact Nat.le_of_succ_le (ih _ _ h)

/-- New index of the character at index `p` once the comments before it are removed. -/
def newIdx (src : List Kind) (p : Nat) : Nat := (strip (src.take p)).length

theorem label_strip (src : List Kind) : ∀ i j : Nat,
    label (strip src) j =
      ((label src i).filter (fun p => p.2 ≠ Kind.comment)).map
        (fun p => (j + newIdx src (p.1 - i), p.2)) := by
  induction src with
  | nil => intro i j; rfl
  | cons k ks ih =>
    intro i j
    by_cases hk : k = .comment
    · subst hk
      rw [strip_cons_comment, ih (i + 1) j]
      simp only [label, List.filter_cons, ne_eq, not_true_eq_false, decide_false]
      apply List.map_congr_left
      intro p hp
      have hle := le_of_mem_label ks (i + 1) p (List.mem_filter.mp hp).1
      have : p.1 - i = (p.1 - (i + 1)) + 1 := by omega
      rw [this]
      simp [newIdx, strip_cons_comment]
    · rw [strip_cons_of_ne hk]
      simp only [label, List.filter_cons, ne_eq, hk, not_false_eq_true, decide_true, if_true,
        List.map_cons, Nat.sub_self]
      rw [ih (i + 1) (j + 1)]
      congr 1
      apply List.map_congr_left
      intro p hp
      have hle := le_of_mem_label ks (i + 1) p (List.mem_filter.mp hp).1
      have : p.1 - i = (p.1 - (i + 1)) + 1 := by omega
      rw [this]
      simp only [newIdx, List.take_succ_cons, strip_cons_of_ne hk, List.length_cons]
      congr 1
      omega

/-- Removing the comments changes nothing but the recorded positions. -/
theorem parseLoop_strip (src : List Kind) :
    parseLoop (strip src) 0 (ps0 : PState w) = mapRes (newIdx src) (parseLoop src 0 ps0) := by
  rw [parseLoop_eq_L, parseLoop_eq_L, label_strip src 0 0, ← parseLoopL_filter (label src 0)]
  have : (ps0 : PState w) = mapPos (newIdx src) ps0 := rfl
  conv => lhs; rw [this]
  rw [← parseLoopL_mapPos]
  simp

/-- `parse` of the stripped text = `parse` of the text, with the error position renamed. -/
theorem parse_strip (src : List Kind) :
    Ir.parse (w := w) (strip src) = mapErr (newIdx src) (Ir.parse src) := by
  rw [parse_eq, parse_eq, parseLoop_strip]
  cases parseLoop src 0 (ps0 : PState w) with
  | error e => rfl
  | ok ps =>
    obtain ⟨top, rest, positions⟩ := ps
    cases rest with
    | nil => rfl
    | cons par rest' =>
      cases positions with
      | nil => rfl
      | cons p poss => rfl

/-! ## UTF-8: bytes versus characters -/

/-- Classification by code point / byte value. -/
def kindOfNat (n : Nat) : Kind :=
  if n = 43 then .inc else if n = 45 then .dec else if n = 60 then .left
  else if n = 62 then .right else if n = 44 then .inp else if n = 46 then .out
  else if n = 91 then .open else if n = 93 then .close else .comment

theorem char_eq_iff (c d : Char) : c = d ↔ c.val.toNat = d.val.toNat := by
  rw [Char.ext_iff, ← UInt32.toNat_inj]

theorem ofChar_eq (c : Char) : Kind.ofChar c = kindOfNat c.val.toNat := by
  simp only [Kind.ofChar, kindOfNat, char_eq_iff]
  rfl

theorem ofByte_eq (b : UInt8) : Kind.ofByte b = kindOfNat b.toNat := by
  simp only [Kind.ofByte, kindOfNat, ← UInt8.toNat_inj]
  rfl

theorem kindOfNat_high {n : Nat} (h : 128 ≤ n) : kindOfNat n = .comment := by
  unfold kindOfNat
  repeat' split
  all_goals first | rfl | omega

/-- Per character: the bytes of the UTF-8 encoding of `c`, classified as bytes and with comments
removed, are the classification of `c` with comments removed. (Every byte of a multi-byte encoding
is ≥ 0x80, all eight command bytes are < 0x80, and an ASCII char is encoded as itself.) -/
theorem utf8_kinds_char (c : Char) :
    strip ((String.utf8EncodeChar c).map Kind.ofByte) = strip [Kind.ofChar c] := by
  simp only [String.utf8EncodeChar, ofChar_eq]
  split
  · rename_i h
    simp only [List.map_cons, List.map_nil, ofByte_eq, UInt8.toNat_ofNat']
    rw [Nat.mod_eq_of_lt (by omega)]
  · rename_i h
    have hc : kindOfNat c.val.toNat = .comment := kindOfNat_high (by omega)
    rw [hc]
    split
    · simp only [List.map_cons, List.map_nil, ofByte_eq, UInt8.toNat_ofNat']
      rw [kindOfNat_high (by omega), kindOfNat_high (by omega)]
      rfl
    · split
      · simp only [List.map_cons, List.map_nil, ofByte_eq, UInt8.toNat_ofNat']
        rw [kindOfNat_high (by omega), kindOfNat_high (by omega), kindOfNat_high (by omega)]
        rfl
      · simp only [List.map_cons, List.map_nil, ofByte_eq, UInt8.toNat_ofNat']
        rw [kindOfNat_high (by omega), kindOfNat_high (by omega), kindOfNat_high (by omega),
          kindOfNat_high (by omega)]
        rfl

/-- Lists of characters. -/
theorem utf8_kinds_list (l : List Char) :
    strip ((l.flatMap String.utf8EncodeChar).map Kind.ofByte) = strip (l.map Kind.ofChar) := by
  induction l with
  | nil => rfl
  | cons c l ih =>
    rw [List.flatMap_cons, List.map_append, strip_append, ih, utf8_kinds_char, ← strip_append]
    rfl

theorem ByteArray_toList_loop (bs : ByteArray) (i : Nat) (r : List UInt8) :
    ByteArray.toList.loop bs i r = r.reverse ++ bs.data.toList.drop i := by
  obtain ⟨arr⟩ := bs
  fun_induction ByteArray.toList.loop ⟨arr⟩ i r with
  | case1 i r h ih =>
    rw [ih]
    have hi : i < arr.toList.length := by rw [Array.length_toList]; exact h
    rw [List.drop_eq_getElem_cons hi]
    have hg : ByteArray.get! ⟨arr⟩ i = arr[i]! := rfl
    have hi' : i < arr.size := h
    simp [hg, getElem!_pos arr i hi']
  | case2 i r h =>
    have hi : arr.toList.length ≤ i := by rw [Array.length_toList]; exact Nat.le_of_not_lt h
    simp [List.drop_eq_nil_of_le hi]

theorem ByteArray_toList (bs : ByteArray) : bs.toList = bs.data.toList := by
  simp [ByteArray.toList, ByteArray_toList_loop]

/-- The bytes of a string are the concatenated encodings of its characters. -/
theorem toUTF8_toList (s : String) : s.toUTF8.toList = s.toList.flatMap String.utf8EncodeChar := by
  rw [ByteArray_toList, String.toUTF8_eq_toByteArray, ← String.utf8Encode_toList, List.utf8Encode,
    List.data_toByteArray]

/-! ## Totality / unreachable arms -/

/-- Splitting the text at character index `n`: the state in which the parser meets character `n`
is the result of `parseLoop` on the first `n` characters. -/
theorem parseLoop_take_drop (src : List Kind) (n : Nat) (hn : n ≤ src.length) (ps : PState w) :
    parseLoop src 0 ps =
      match parseLoop (src.take n) 0 ps with
      | .error e => .error e
      | .ok ps' => parseLoop (src.drop n) n ps' := by
  have h := parseLoop_append (src.take n) (src.drop n) 0 ps
  rw [List.take_append_drop] at h
  rw [h, List.length_take, Nat.min_eq_left hn, Nat.zero_add]

/-- the error component of a result (for examples) -/
def errOf {α : Type} : Except ParseErr α → Option ParseErr
  | .ok _ => none
  | .error e => some e

/-- classified characters of a string (what `Program::parse` sees) -/
def kindsOfString (s : String) : List Kind := s.toList.map Kind.ofChar

/-- classified bytes of a string (what the in-place interpreter sees) -/
def kindsOfBytes (s : String) : List Kind := s.toUTF8.toList.map Kind.ofByte

end C12
end Hpbf
