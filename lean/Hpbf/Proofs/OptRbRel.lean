/-
Rebuild-round proofs, part 5: from memories to machine states.  `Rel s ps M0 σE σS`: the state `σE` of the
emitted program and the state `σS` of the source program are related through the `Rebuild` state `s`
(same events, same environment, pointers differ by `s.shift`, memories related by `MInv`).
Inversion lemmas for `Exec`, and the effect of `calc` / `output` / `input` on `memOf`.
-/
import Hpbf.Proofs.OptRbSem
import Hpbf.Proofs.OptRbPrim

namespace Hpbf
namespace OptProof
open Opt OptSem Ir

variable {w : Nat}

/-- The memory of the emitted program, in the coordinates of the rebuild state. -/
abbrev memE (σE : State w) : Mem w := memOf σE σE.ptr
/-- The memory of the source program in the same coordinates (origin = pointer of the emitted program). -/
abbrev memS (σE σS : State w) : Mem w := memOf σS σE.ptr

/-- `sh`: the source program's pointer is `sh` cells to the right of the emitted program's pointer (for the
program being rebuilt `sh = s.shift`; for intermediate programs written in the coordinates of the state it is 0).
`nr`: a state marked `noReturn` is related to nothing ("control never reaches this point"). -/
structure RelAt (sh : Int) (s : Rebuild w) (ps : List (Rebuild w)) (M0 : Mem w) (σE σS : State w) : Prop where
  tr : σS.trace = σE.trace
  env : σS.env = σE.env
  ptr : σS.ptr = σE.ptr + sh
  nr : s.noReturn = false
  inv : MInv s ps M0 (memE σE) (memS σE σS)

abbrev Rel (s : Rebuild w) (ps : List (Rebuild w)) (M0 : Mem w) (σE σS : State w) : Prop :=
  RelAt s.shift s ps M0 σE σS

theorem memOf_apply (σ : State w) (o v : Int) : memOf σ o v = σ.tape.get (o + v) := rfl

theorem rd_eq_memE (σ : State w) (off : Int) : σ.rd off = memE σ off := rfl

theorem RelAt.rdS {sh : Int} {s : Rebuild w} {ps : List (Rebuild w)} {M0 : Mem w} {σE σS : State w}
    (h : RelAt sh s ps M0 σE σS) (off : Int) : σS.rd off = memS σE σS (off + sh) := by
  show σS.tape.get (σS.ptr + off) = σS.tape.get (σE.ptr + (off + sh))
  rw [h.ptr]; congr 1; omega

/-! ### inversion of `Exec` -/

theorem exec_nil_iff (σ : State w) (o : Out w) : Exec [] σ o ↔ o = .part σ.trace ∨ o = .fin σ := by
  constructor
  · intro h; cases h <;> simp
  · rintro (rfl | rfl)
    · exact Exec.cut _ _
    · exact Exec.nil _

theorem exec_calc_iff (g : List (Int × Expr w)) (rest : List (Instr w)) (σ : State w) (o : Out w) :
    Exec (.calc g :: rest) σ o ↔ Exec rest (doCalc σ g) o := by
  constructor
  · intro h
    cases h with
    | cut =>
      have := (C01Dse.doCalc_meta σ g).2.2
      rw [← this]; exact Exec.cut _ _
    | «calc» h => exact h
  · exact Exec.calc

theorem exec_calcs_iff' (gs : List (List (Int × Expr w))) (rest : List (Instr w)) (σ : State w) (o : Out w) :
    Exec (gs.map Instr.calc ++ rest) σ o ↔ Exec rest (gs.foldl doCalc σ) o := by
  induction gs generalizing σ with
  | nil => rfl
  | cons g gs ih =>
    simp only [List.map_cons, List.cons_append, List.foldl_cons]
    rw [exec_calc_iff, ih]

theorem exec_output_iff (src : Int) (rest : List (Instr w)) (σ : State w) (o : Out w) :
    Exec (.output src :: rest) σ o ↔
      o = .part σ.trace ∨ ((σ.output src).1 = true ∧ Exec rest (σ.output src).2 o) ∨
      ((σ.output src).1 = false ∧ o = .stop (σ.output src).2) := by
  constructor
  · intro h
    cases h with
    | cut => exact Or.inl rfl
    | outOk h1 h2 => rw [h1]; exact Or.inr (Or.inl ⟨rfl, h2⟩)
    | outFail h1 => rw [h1]; exact Or.inr (Or.inr ⟨rfl, rfl⟩)
  · rintro (rfl | ⟨h1, h2⟩ | ⟨h1, rfl⟩)
    · exact Exec.cut _ _
    · exact Exec.outOk (σ1 := (σ.output src).2) (by rw [← h1]) h2
    · exact Exec.outFail (σ1 := (σ.output src).2) (by rw [← h1])

theorem exec_input_iff (dst : Int) (rest : List (Instr w)) (σ : State w) (o : Out w) :
    Exec (.input dst :: rest) σ o ↔
      o = .part σ.trace ∨ ((σ.input dst).1 = true ∧ Exec rest (σ.input dst).2 o) ∨
      ((σ.input dst).1 = false ∧ o = .stop (σ.input dst).2) := by
  constructor
  · intro h
    cases h with
    | cut => exact Or.inl rfl
    | inOk h1 h2 => rw [h1]; exact Or.inr (Or.inl ⟨rfl, h2⟩)
    | inFail h1 => rw [h1]; exact Or.inr (Or.inr ⟨rfl, rfl⟩)
  · rintro (rfl | ⟨h1, h2⟩ | ⟨h1, rfl⟩)
    · exact Exec.cut _ _
    · exact Exec.inOk (σ1 := (σ.input dst).2) (by rw [← h1]) h2
    · exact Exec.inFail (σ1 := (σ.input dst).2) (by rw [← h1])

/-! ### atomic instruction lists -/

/-- `is` behaves like ONE step `f` (which may fail, stopping the program): the only observations are "not
started", "done" and "stopped". -/
def Atomic (is : List (Instr w)) (f : State w → Bool × State w) : Prop :=
  ∀ σ o, Exec is σ o ↔
    o = .part σ.trace ∨ ((f σ).1 = true ∧ (o = .fin (f σ).2 ∨ o = .part (f σ).2.trace)) ∨
    ((f σ).1 = false ∧ o = .stop (f σ).2)

theorem atomic_output (src : Int) : Atomic [(.output src : Instr w)] (fun σ => σ.output src) := by
  intro σ o
  rw [exec_output_iff, exec_nil_iff]
  constructor
  · rintro (h | ⟨h1, h2 | h2⟩ | h)
    · exact Or.inl h
    · exact Or.inr (Or.inl ⟨h1, Or.inr h2⟩)
    · exact Or.inr (Or.inl ⟨h1, Or.inl h2⟩)
    · exact Or.inr (Or.inr h)
  · rintro (h | ⟨h1, h2 | h2⟩ | h)
    · exact Or.inl h
    · exact Or.inr (Or.inl ⟨h1, Or.inr h2⟩)
    · exact Or.inr (Or.inl ⟨h1, Or.inl h2⟩)
    · exact Or.inr (Or.inr h)

theorem atomic_input (dst : Int) : Atomic [(.input dst : Instr w)] (fun σ => σ.input dst) := by
  intro σ o
  rw [exec_input_iff, exec_nil_iff]
  constructor
  · rintro (h | ⟨h1, h2 | h2⟩ | h)
    · exact Or.inl h
    · exact Or.inr (Or.inl ⟨h1, Or.inr h2⟩)
    · exact Or.inr (Or.inl ⟨h1, Or.inl h2⟩)
    · exact Or.inr (Or.inr h)
  · rintro (h | ⟨h1, h2 | h2⟩ | h)
    · exact Or.inl h
    · exact Or.inr (Or.inl ⟨h1, Or.inr h2⟩)
    · exact Or.inr (Or.inl ⟨h1, Or.inl h2⟩)
    · exact Or.inr (Or.inr h)

theorem foldl_doCalc_meta (gs : List (List (Int × Expr w))) (σ : State w) :
    (gs.foldl doCalc σ).ptr = σ.ptr ∧ (gs.foldl doCalc σ).env = σ.env ∧ (gs.foldl doCalc σ).trace = σ.trace := by
  induction gs generalizing σ with
  | nil => exact ⟨rfl, rfl, rfl⟩
  | cons g gs ih =>
    obtain ⟨a, b, c⟩ := ih (doCalc σ g)
    obtain ⟨a', b', c'⟩ := C01Dse.doCalc_meta σ g
    exact ⟨a.trans a', b.trans b', c.trans c'⟩

theorem atomic_calcs (gs : List (List (Int × Expr w))) :
    Atomic (gs.map Instr.calc) (fun σ : State w => (true, gs.foldl doCalc σ)) := by
  intro σ o
  have := exec_calcs_iff' gs [] σ o
  rw [List.append_nil] at this
  rw [this, exec_nil_iff, (foldl_doCalc_meta gs σ).2.2]
  constructor
  · rintro (h | h)
    · exact Or.inl h
    · exact Or.inr (Or.inl ⟨rfl, Or.inl h⟩)
  · rintro (h | ⟨_, h | h⟩ | ⟨h, _⟩)
    · exact Or.inl h
    · exact Or.inr h
    · exact Or.inl h
    · cases h

theorem atomic_calcs_then (gs : List (List (Int × Expr w))) {is : List (Instr w)}
    {f : State w → Bool × State w} (h : Atomic is f) :
    Atomic (gs.map Instr.calc ++ is) (fun σ => f (gs.foldl doCalc σ)) := by
  intro σ o
  rw [exec_calcs_iff', h, (foldl_doCalc_meta gs σ).2.2]

/-- Two atomic lists whose steps correspond are behaviourally equivalent. -/
theorem Sim.of_atomic {Q : State w → State w → Prop} {a b : List (Instr w)}
    {f g : State w → Bool × State w} (ha : Atomic a f) (hb : Atomic b g) {σS σE : State w}
    (htr : σE.trace = σS.trace) (hflag : (g σE).1 = (f σS).1)
    (htr' : (g σE).2.trace = (f σS).2.trace) (henv' : (g σE).2.env = (f σS).2.env)
    (hQ : (f σS).1 = true → Q (f σS).2 (g σE).2) : Sim Q a b σS σE := by
  refine ⟨?_, ?_, ?_, ?_, ?_, ?_⟩
  · intro σS' h
    rcases (ha σS _).1 h with h | ⟨h1, h2 | h2⟩ | ⟨_, h2⟩
    · cases h
    · cases h2
      exact ⟨(g σE).2, (hb σE _).2 (Or.inr (Or.inl ⟨by rw [hflag, h1], Or.inl rfl⟩)), hQ h1⟩
    · cases h2
    · cases h2
  · intro σS' h
    rcases (ha σS _).1 h with h | ⟨h1, h2 | h2⟩ | ⟨h1, h2⟩
    · cases h
    · cases h2
    · cases h2
    · cases h2
      exact ⟨(g σE).2, (hb σE _).2 (Or.inr (Or.inr ⟨by rw [hflag, h1], rfl⟩)), htr', henv'⟩
  · intro t h
    rcases (ha σS _).1 h with h | ⟨h1, h2 | h2⟩ | ⟨_, h2⟩
    · cases h
      rw [← htr]; exact (hb σE _).2 (Or.inl rfl)
    · cases h2
    · cases h2
      rw [← htr']
      exact (hb σE _).2 (Or.inr (Or.inl ⟨by rw [hflag, h1], Or.inr rfl⟩))
    · cases h2
  · intro σE' h
    rcases (hb σE _).1 h with h | ⟨h1, h2 | h2⟩ | ⟨_, h2⟩
    · cases h
    · cases h2
      have h1' : (f σS).1 = true := by rw [← hflag, h1]
      exact ⟨(f σS).2, (ha σS _).2 (Or.inr (Or.inl ⟨h1', Or.inl rfl⟩)), hQ h1'⟩
    · cases h2
    · cases h2
  · intro σE' h
    rcases (hb σE _).1 h with h | ⟨h1, h2 | h2⟩ | ⟨h1, h2⟩
    · cases h
    · cases h2
    · cases h2
    · cases h2
      exact ⟨(f σS).2, (ha σS _).2 (Or.inr (Or.inr ⟨by rw [← hflag, h1], rfl⟩)), htr', henv'⟩
  · intro t h
    rcases (hb σE _).1 h with h | ⟨h1, h2 | h2⟩ | ⟨_, h2⟩
    · cases h
      rw [htr]; exact (ha σS _).2 (Or.inl rfl)
    · cases h2
    · cases h2
      rw [htr']
      exact (ha σS _).2 (Or.inr (Or.inl ⟨by rw [← hflag, h1], Or.inr rfl⟩))
    · cases h2

/-! ### effect of the instructions on `memOf` -/

theorem memOf_wr (σ : State w) (k : Int) (x : BitVec w) (o : Int) :
    memOf (σ.wr k x) o = upd (memOf σ o) (σ.ptr - o + k) x := by
  funext v
  show (σ.tape.set (σ.ptr + k) x).get (o + v) = _
  rw [Tape.get_set]
  unfold upd
  by_cases h : v = σ.ptr - o + k
  · have e : o + v = σ.ptr + k := by omega
    rw [if_pos e, if_pos h]
  · have e : ¬ o + v = σ.ptr + k := by omega
    rw [if_neg e, if_neg h]; rfl

theorem memOf_wrAll (σ : State w) (vals : List (Int × BitVec w)) (o : Int) :
    memOf (C01Dse.wrAll σ vals) o =
      (vals.map (fun kv => (σ.ptr - o + kv.1, kv.2))).foldl (fun m kv => upd m kv.1 kv.2) (memOf σ o) := by
  unfold C01Dse.wrAll
  induction vals generalizing σ with
  | nil => rfl
  | cons kv vals ih =>
    simp only [List.foldl_cons, List.map_cons]
    rw [ih (σ.wr kv.1 kv.2), memOf_wr]
    rfl

/-- The source program's `calc` at the level of memories. -/
theorem memS_doCalc {sh : Int} {s : Rebuild w} {ps : List (Rebuild w)} {M0 : Mem w} {σE σS : State w}
    (h : RelAt sh s ps M0 σE σS) (calcs : List (Int × Expr w)) :
    memS σE (doCalc σS calcs) = assignS sh calcs (memS σE σS) := by
  rw [C01Dse.doCalc_eq]
  show memOf (C01Dse.wrAll σS _) σE.ptr = _
  rw [memOf_wrAll]
  unfold assignS
  rw [List.map_map]
  have hsh : σS.ptr - σE.ptr = sh := by rw [h.ptr]; omega
  congr 1
  apply List.map_congr_left
  intro vc _
  simp only [Function.comp, hsh]
  congr 1
  apply C01Dse.evaluate_congr
  intro v _
  exact h.rdS v

/-- The emitted program's `calc` (targets distinct) at the level of memories. -/
theorem memE_doCalc (σ : State w) (g : List (Int × Expr w)) (hnd : (g.map (·.1)).Nodup) :
    memE (doCalc σ g) = Mem.par g (memE σ) := by
  funext v
  have hp : (doCalc σ g).ptr = σ.ptr := (C01Dse.doCalc_meta σ g).1
  show (doCalc σ g).tape.get ((doCalc σ g).ptr + v) = _
  rw [hp]
  by_cases hv : v ∈ g.map (·.1)
  · obtain ⟨ve, hve, rfl⟩ := List.mem_map.1 hv
    rw [par_of_mem hnd (show (ve.1, ve.2) ∈ g from hve)]
    exact C01Dse.doCalc_get_in σ g ve.1 ve.2 hnd hve
  · rw [par_of_notin hv]
    apply C01Dse.doCalc_get_notin
    intro ve hve e
    exact hv (List.mem_map.2 ⟨ve, hve, by omega⟩)

theorem memE_foldl_doCalc (σ : State w) (gs : List (List (Int × Expr w)))
    (hnd : ∀ g ∈ gs, (g.map (·.1)).Nodup) :
    memE (gs.foldl doCalc σ) = Mem.seq gs (memE σ) := by
  induction gs generalizing σ with
  | nil => rfl
  | cons g gs ih =>
    simp only [List.foldl_cons, seq_cons]
    rw [ih _ (fun g' hg' => hnd g' (by simp [hg'])), memE_doCalc σ g (hnd g (by simp))]

/-- Running emitted `calc` groups does not touch the source side of the relation. -/
theorem memS_foldl_doCalc (σE σS : State w) (gs : List (List (Int × Expr w))) :
    memS (gs.foldl doCalc σE) σS = memS σE σS := by
  show memOf σS (gs.foldl doCalc σE).ptr = memOf σS σE.ptr
  rw [(foldl_doCalc_meta gs σE).1]

/-! ### `output` and `input` on related states -/

theorem output_fields (σ : State w) (off : Int) :
    (σ.output off).2.ptr = σ.ptr ∧ (σ.output off).2.tape = σ.tape := C01Dse.output_meta σ off

/-- `output` only looks at the byte, the environment and the trace. -/
theorem output_rel {σS σE : State w} {a b : Int} (hb : σS.rd a = σE.rd b) (henv : σS.env = σE.env)
    (htr : σS.trace = σE.trace) :
    (σE.output b).1 = (σS.output a).1 ∧ (σE.output b).2.trace = (σS.output a).2.trace ∧
    (σE.output b).2.env = (σS.output a).2.env := by
  unfold State.output
  rw [hb, henv, htr]
  split
  · split <;> exact ⟨rfl, rfl, rfl⟩
  · exact ⟨rfl, htr.symm, henv.symm⟩

theorem input_rel {σS σE : State w} (a b : Int) (henv : σS.env = σE.env) (htr : σS.trace = σE.trace) :
    (σE.input b).1 = (σS.input a).1 ∧ (σE.input b).2.trace = (σS.input a).2.trace ∧
    (σE.input b).2.env = (σS.input a).2.env := by
  unfold State.input
  rw [henv, htr]
  split
  · exact ⟨rfl, rfl, rfl⟩
  · exact ⟨rfl, rfl, rfl⟩
  · exact ⟨rfl, htr.symm, henv.symm⟩

/-- A successful `input` writes one (common) value. -/
theorem input_ok_mem {σS σE : State w} (a b : Int) (henv : σS.env = σE.env)
    (hok : (σS.input a).1 = true) :
    ∃ x : BitVec w, (∀ o, memOf (σS.input a).2 o = upd (memOf σS o) (σS.ptr - o + a) x) ∧
      (∀ o, memOf (σE.input b).2 o = upd (memOf σE o) (σE.ptr - o + b) x) ∧
      (σS.input a).2.ptr = σS.ptr ∧ (σE.input b).2.ptr = σE.ptr := by
  unfold State.input at hok ⊢
  rw [← henv]
  cases hr : σS.env.readByte with
  | got byte e =>
    refine ⟨Cell.fromU8 (BitVec.ofNat 8 byte.toNat), ?_, ?_, rfl, rfl⟩
    · intro o; exact memOf_wr σS a _ o
    · intro o; exact memOf_wr σE b _ o
  | failed e => rw [hr] at hok; cases hok
  | absent => rw [hr] at hok; cases hok

end OptProof
end Hpbf
