/-
C02 / C13 (totality of the emission phase), part 1: `Expr::codegen` (`getExprValue`), `calcValues`,
`mem_write` never panic under the success invariant; every value number they return exists.
-/
import Hpbf.Proofs.C02EmitTotalBase

namespace Hpbf
namespace C02
open BcGen C02Emit

variable {w : Nat}

theorem emitTotal_codegenVars : ∀ (vs : List Int) (result : Nat) {s : St w}, emitTotal_Inv s →
    result < s.ranges.size → emitTotal_Ok (codegenVars result vs) s (emitTotal_Res s) := by
  intro vs
  induction vs with
  | nil =>
    intro result s h hr
    exact emitTotal_Ok_pure ⟨emitTotal_Step_refl h, hr⟩
  | cons v vs ih =>
    intro result s h hr
    simp only [codegenVars]
    refine emitTotal_Ok_bind (emitTotal_Ok_mono (emitTotal_getValue (.mem v) h trivial) ?_)
    rintro m s1 ⟨st1, hm⟩
    refine emitTotal_Ok_bind (emitTotal_Ok_mono
      (emitTotal_getValue (.mul result m) st1.inv ⟨Nat.lt_of_lt_of_le hr st1.rs, hm⟩) ?_)
    rintro r s2 ⟨st2, hr2⟩
    exact emitTotal_Ok_mono (ih r st2.inv hr2)
      (fun _ _ h3 => emitTotal_Res_trans (emitTotal_Step_trans st1 st2) h3)

theorem emitTotal_codegenPart (var : Int) (p : Part w) {s : St w} (h : emitTotal_Inv s) :
    emitTotal_Ok (codegenPart var p) s (emitTotal_Res s) := by
  unfold codegenPart
  generalize Expr.stableSort (fun a b => decide (ordering var a ≤ ordering var b)) p.vars = sorted
  cases sorted with
  | nil => exact emitTotal_getValue (.imm p.coef) h trivial
  | cons v0 vs =>
    simp only
    refine emitTotal_Ok_bind (emitTotal_Ok_mono (emitTotal_getValue (.mem v0) h trivial) ?_)
    rintro r0 s1 ⟨st1, hr0⟩
    refine emitTotal_Ok_bind (emitTotal_Ok_mono (emitTotal_codegenVars vs r0 st1.inv hr0) ?_)
    rintro r s2 ⟨st2, hr⟩
    have st12 := emitTotal_Step_trans st1 st2
    split
    · exact emitTotal_Ok_pure ⟨st12, hr⟩
    · refine emitTotal_Ok_bind (emitTotal_Ok_mono (emitTotal_getValue (.imm p.coef) st2.inv trivial) ?_)
      rintro im s3 ⟨st3, him⟩
      refine emitTotal_Ok_mono
        (emitTotal_getValue (.mul r im) st3.inv ⟨Nat.lt_of_lt_of_le hr st3.rs, him⟩) ?_
      exact fun _ _ h4 => emitTotal_Res_trans (emitTotal_Step_trans st12 st3) h4

theorem emitTotal_codegenRest (var : Int) : ∀ (ps : List (Part w)) (result : Nat) {s : St w},
    emitTotal_Inv s → result < s.ranges.size →
    emitTotal_Ok (codegenRest var result ps) s (emitTotal_Res s) := by
  intro ps
  induction ps with
  | nil =>
    intro result s h hr
    exact emitTotal_Ok_pure ⟨emitTotal_Step_refl h, hr⟩
  | cons p ps ih =>
    intro result s h hr
    simp only [codegenRest]
    refine emitTotal_Ok_bind (emitTotal_Ok_mono (emitTotal_codegenPart var p h) ?_)
    rintro pr s1 ⟨st1, hpr⟩
    have hres := Nat.lt_of_lt_of_le hr st1.rs
    cases hn : isNegVar p with
    | true =>
      simp only [if_true]
      refine emitTotal_Ok_bind (emitTotal_Ok_mono
        (emitTotal_getValue (.sub result pr) st1.inv ⟨hres, hpr⟩) ?_)
      rintro r s2 ⟨st2, hr2⟩
      exact emitTotal_Ok_mono (ih r st2.inv hr2)
        (fun _ _ h3 => emitTotal_Res_trans (emitTotal_Step_trans st1 st2) h3)
    | false =>
      simp only [Bool.false_eq_true, if_false]
      refine emitTotal_Ok_bind (emitTotal_Ok_mono
        (emitTotal_getValue (.add result pr) st1.inv ⟨hres, hpr⟩) ?_)
      rintro r s2 ⟨st2, hr2⟩
      exact emitTotal_Ok_mono (ih r st2.inv hr2)
        (fun _ _ h3 => emitTotal_Res_trans (emitTotal_Step_trans st1 st2) h3)

theorem emitTotal_getExprValue (e : Expr w) (var : Int) {s : St w} (h : emitTotal_Inv s) :
    emitTotal_Ok (getExprValue e var) s (emitTotal_Res s) := by
  unfold getExprValue
  generalize orderParts var e = parts
  cases parts with
  | nil => exact emitTotal_getValue (.imm 0#w) h trivial
  | cons p0 ps =>
    simp only
    refine emitTotal_Ok_bind (emitTotal_Ok_mono (emitTotal_codegenPart var p0 h) ?_)
    rintro r0 s1 ⟨st1, hr0⟩
    cases hn : isNegVar p0 with
    | true =>
      simp only [if_true]
      refine emitTotal_Ok_bind (emitTotal_Ok_mono
        (emitTotal_getValue (.imm 0#w) st1.inv trivial) ?_)
      rintro z s2 ⟨st2, hz⟩
      refine emitTotal_Ok_bind (emitTotal_Ok_mono
        (emitTotal_getValue (.sub z r0) st2.inv ⟨hz, Nat.lt_of_lt_of_le hr0 st2.rs⟩) ?_)
      rintro r s3 ⟨st3, hr⟩
      exact emitTotal_Ok_mono (emitTotal_codegenRest var ps r st3.inv hr)
        (fun _ _ h4 => emitTotal_Res_trans
          (emitTotal_Step_trans st1 (emitTotal_Step_trans st2 st3)) h4)
    | false =>
      simp only [Bool.false_eq_true, if_false]
      refine emitTotal_Ok_bind (emitTotal_Ok_pure ?_)
      exact emitTotal_Ok_mono (emitTotal_codegenRest var ps r0 st1.inv hr0)
        (fun _ _ h4 => emitTotal_Res_trans st1 h4)

/-! ### `calc` -/

theorem emitTotal_calcValues : ∀ (calcs : List (Int × Expr w)) {s : St w}, emitTotal_Inv s →
    emitTotal_Ok (calcValues calcs) s
      (fun vals s' => emitTotal_Step s s' ∧ ∀ vx ∈ vals, vx.2 < s'.ranges.size) := by
  intro calcs
  induction calcs with
  | nil =>
    intro s h
    exact emitTotal_Ok_pure ⟨emitTotal_Step_refl h, by simp⟩
  | cons ve calcs ih =>
    intro s h
    obtain ⟨v, e⟩ := ve
    simp only [calcValues]
    refine emitTotal_Ok_bind (emitTotal_Ok_mono (emitTotal_getExprValue e v h) ?_)
    rintro x s1 ⟨st1, hx⟩
    refine emitTotal_Ok_bind (emitTotal_Ok_mono (ih st1.inv) ?_)
    rintro r s2 ⟨st2, hr⟩
    refine emitTotal_Ok_pure ⟨emitTotal_Step_trans st1 st2, ?_⟩
    intro vx hvx
    rcases List.mem_cons.1 hvx with rfl | hvx
    · exact Nat.lt_of_lt_of_le hx st2.rs
    · exact hr vx hvx

theorem emitTotal_memWrite (var : Int) {value : Nat} {s : St w} (h : emitTotal_Inv s)
    (hv : value < s.ranges.size) :
    emitTotal_Ok (memWrite var value) s (fun _ s' => emitTotal_Step s s' ∧ s'.ranges.size = s.ranges.size) := by
  obtain ⟨s1, r1, st1, _, z1, _⟩ := emitTotal_read hv h
  unfold memWrite emitTotal_Ok
  rw [emitTotal_bind_of_ok r1]
  refine ⟨(), _, (modify_ok _ _ _ _).2 rfl, ⟨⟨?_, st1.inv.oa, ?_⟩, st1.rs, ?_, st1.cs⟩, z1⟩
  · intro p hp
    rcases emitTotal_mem_alSet hp with hp | hp
    · exact st1.inv.vals p hp
    · rw [hp, z1]; exact hv
  · have := st1.inv.cs; simp only [Array.size_push]; omega
  · have := st1.is; simp only [Array.size_push]; omega

theorem emitTotal_memWrites : ∀ (vals : List (Int × Nat)) {s : St w}, emitTotal_Inv s →
    (∀ vx ∈ vals, vx.2 < s.ranges.size) →
    emitTotal_Ok (memWrites vals) s (fun _ s' => emitTotal_Step s s') := by
  intro vals
  induction vals with
  | nil => intro s h _; exact emitTotal_Ok_pure (emitTotal_Step_refl h)
  | cons vx vals ih =>
    intro s h hv
    obtain ⟨v, x⟩ := vx
    simp only [memWrites]
    refine emitTotal_Ok_bind (emitTotal_Ok_mono (emitTotal_memWrite v h (hv (v, x) (List.mem_cons_self ..))) ?_)
    rintro _ s1 ⟨st1, z1⟩
    refine emitTotal_Ok_mono (ih st1.inv (fun y hy => ?_)) (fun _ _ h2 => emitTotal_Step_trans st1 h2)
    rw [z1]; exact hv y (List.mem_cons_of_mem _ hy)

end C02
end Hpbf
