/-
C02 (`allocate_temps`), part 12: an executable checker `allocPreB` for the precondition `AllocPre`
(`allocPreB_sound`).  It is used for the concrete examples (by `decide`) and can be run on emitted code.
-/
import Hpbf.Proofs.C02Alloc
set_option linter.unusedSimpArgs false

namespace Hpbf
namespace C02
namespace Alloc

open Bc BcWf BcGen C11

variable {w : Nat}

def inRangeB (s : St w) (t k : Nat) : Bool :=
  match s.ranges[t]? with
  | some r =>
    match r.lastUse with
    | some L => decide (r.created < k) && decide (k ≤ L)
    | none => false
  | none => false

theorem inRangeB_iff {s : St w} {t k : Nat} : inRangeB s t k = true ↔ InRange s t k := by
  unfold inRangeB InRange
  cases hr : s.ranges[t]? with
  | none =>
    constructor
    · intro h; cases h
    · rintro ⟨r, L, e, _⟩; cases e
  | some r =>
    cases hL : r.lastUse with
    | none =>
      constructor
      · intro h; simp only [hL] at h; cases h
      · rintro ⟨r', L', e, e', _⟩
        cases e
        rw [hL] at e'; cases e'
    | some L =>
      constructor
      · intro h
        simp only [hL, Bool.and_eq_true, decide_eq_true_eq] at h
        exact ⟨r, L, rfl, hL, h.1, h.2⟩
      · rintro ⟨r', L', e, e', h1, h2⟩
        cases e
        rw [hL] at e'; cases e'
        simp only [hL, Bool.and_eq_true, decide_eq_true_eq]
        exact ⟨h1, h2⟩

/-- The fusion candidate at `i`: temporary, first use, cell and source of the store. -/
def candOf (s : St w) (i : Nat) : Option (Nat × Nat × Int × Loc w) :=
  match s.insts[i]? with
  | some ins =>
    match arith? ins with
    | some (_, .tmp t, _, _) =>
      match s.ranges[t]? with
      | some r =>
        match r.firstUse, r.lastUse with
        | some f, some _ =>
          match s.insts[f]? with
          | some (.copy (.mem m) src) => some (t, f, m, src)
          | _ => none
        | _, _ => none
      | none => none
    | _ => none
  | none => none

theorem candOf_of_cand {s : St w} {i : Nat} {op : BcGen.Op} {t : Nat} {s0 s1 : Loc w} {f : Nat} {m : Int}
    {src : Loc w} (h : Cand s i op t s0 s1 f m src) : candOf s i = some (t, f, m, src) := by
  obtain ⟨h1, ⟨r, L, h2, h3, h4⟩, h5⟩ := h
  unfold candOf
  simp only [h1, arith?_mkArith, h2, h3, h4, h5]

/-- All `j < n` satisfy `p`. -/
def allLt (n : Nat) (p : Nat → Bool) : Bool := (List.range n).all p

theorem allLt_iff {n : Nat} {p : Nat → Bool} : allLt n p = true ↔ ∀ j, j < n → p j = true := by
  simp [allLt, List.all_eq_true]

/-- The branch target of instruction `j` as a natural number, if it is one. -/
def targetOf (s : St w) (j : Nat) : Option Nat :=
  match s.insts[j]? with
  | some x =>
    match branchOff? x with
    | some off => if 0 ≤ (j : Int) + off then some ((j : Int) + off).toNat else none
    | none => none
  | none => none

theorem targetOf_of {s : St w} {j k' : Nat} {x : Instr w} {off : Int} (hx : s.insts[j]? = some x)
    (ho : branchOff? x = some off) (hk : (j : Int) + off = (k' : Int)) : targetOf s j = some k' := by
  unfold targetOf
  simp only [hx, ho]
  have : 0 ≤ (j : Int) + off := by omega
  simp only [this, if_true, Option.some.injEq]
  omega

def chkNoZero (s : St w) : Bool := s.insts.toList.all noMemZero

def chkDefs (s : St w) : Bool :=
  allLt s.insts.size fun j =>
    match s.insts[j]? with
    | some ins => (BcWf.defs ins).all fun t =>
        match s.ranges[t]? with
        | some r => r.created == j
        | none => false
    | none => true

def chkUses (s : St w) : Bool :=
  allLt s.insts.size fun j =>
    match s.insts[j]? with
    | some ins => (BcWf.uses ins).all fun t => inRangeB s t j
    | none => true

def chkFlow (s : St w) : Bool :=
  allLt s.insts.size fun j =>
    match targetOf s j with
    | some k' => allLt s.ranges.size fun t => !inRangeB s t k' || inRangeB s t j
    | none => true

def chkPtr (s : St w) : Bool :=
  allLt s.ranges.size fun t =>
    allLt s.insts.size fun j =>
      match s.insts[j]? with
      | some ins => !inRangeB s t j || ptrStable ins
      | none => true

def chkWrites (s : St w) : Bool :=
  allLt s.insts.size fun j =>
    match s.insts[j]? with
    | some ins => (memDefs ins).all fun m =>
        match alGet s.writes m with
        | some ws => ws.contains j
        | none => false
    | none => true

def chkFirstLt (s : St w) : Bool :=
  allLt s.insts.size fun i =>
    match s.insts[i]? with
    | some ins =>
      match arith? ins with
      | some (_, .tmp t, _, _) =>
        match s.ranges[t]? with
        | some r =>
          match r.firstUse with
          | some f => decide (i < f)
          | none => true
        | none => true
      | _ => true
    | none => true

def chkFuse (s : St w) : Bool :=
  allLt s.insts.size fun i =>
    match candOf s i with
    | some (t, f, _, src) =>
      (src == .tmp t) &&
      (allLt f fun j => !(decide (i < j)) ||
        (match s.insts[j]? with
         | some x => plain x && !(BcWf.uses x).contains t
         | none => true)) &&
      (allLt s.insts.size fun j =>
        match s.insts[j]? with
        | some x =>
          match branchOff? x with
          | some off => !(decide ((i : Int) < (j : Int) + off) && decide ((j : Int) + off ≤ (f : Int)))
          | none => true
        | none => true)
    | none => true

/-- The executable form of `AllocPre`. -/
def allocPreB (s : St w) : Bool :=
  (s.live.size == 0) && chkNoZero s && chkDefs s && chkUses s && chkFlow s && chkPtr s && chkWrites s &&
    chkFirstLt s && chkFuse s

theorem lt_size_of_some {α : Type} {a : Array α} {i : Nat} {x : α} (h : a[i]? = some x) : i < a.size :=
  lt_of_getElem? h

theorem allocPreB_sound {s : St w} (h : allocPreB s = true) : AllocPre s := by
  simp only [allocPreB, Bool.and_eq_true, beq_iff_eq] at h
  obtain ⟨⟨⟨⟨⟨⟨⟨⟨h0, h1⟩, h2⟩, h3⟩, h4⟩, h5⟩, h6⟩, h7⟩, h8⟩ := h
  refine ⟨h0, ?_, ?_, ?_, ?_, ?_, ?_, ?_, ?_⟩
  · -- noZero
    intro j ins hj
    simp only [chkNoZero, List.all_eq_true] at h1
    have hlt := lt_size_of_some hj
    rw [Array.getElem?_eq_getElem hlt] at hj
    cases hj
    exact h1 _ (by simp)
  · -- defs
    intro j ins t hj ht
    have := allLt_iff.1 h2 j (lt_size_of_some hj)
    simp only [hj, List.all_eq_true] at this
    have := this t ht
    cases hr : s.ranges[t]? with
    | none => simp [hr] at this
    | some r => simp only [hr, beq_iff_eq] at this; exact ⟨r, rfl, this⟩
  · -- uses
    intro j ins t hj ht
    have := allLt_iff.1 h3 j (lt_size_of_some hj)
    simp only [hj, List.all_eq_true] at this
    exact inRangeB_iff.1 (this t ht)
  · -- flow
    intro j ins off k' hj ho hk t ht
    have := allLt_iff.1 h4 j (lt_size_of_some hj)
    simp only [targetOf_of hj ho hk] at this
    obtain ⟨r, L, hr, _⟩ := ht
    have hlt := lt_size_of_some hr
    have := allLt_iff.1 this t hlt
    simp only [Bool.or_eq_true, Bool.not_eq_true'] at this
    rcases this with h | h
    · rw [inRangeB_iff.2 ⟨r, L, hr, by assumption⟩] at h; cases h
    · exact inRangeB_iff.1 h
  · -- ptr
    intro t j ins ht hj
    obtain ⟨r, L, hr, _⟩ := ht
    have := allLt_iff.1 (allLt_iff.1 h5 t (lt_size_of_some hr)) j (lt_size_of_some hj)
    simp only [hj, Bool.or_eq_true, Bool.not_eq_true'] at this
    rcases this with h | h
    · rw [inRangeB_iff.2 ⟨r, L, hr, by assumption⟩] at h; cases h
    · exact h
  · -- writes
    intro j ins m hj hm
    have := allLt_iff.1 h6 j (lt_size_of_some hj)
    simp only [hj, List.all_eq_true] at this
    have := this m hm
    cases hw : alGet s.writes m with
    | none => simp [hw] at this
    | some ws =>
      simp only [hw, List.contains_eq_mem, decide_eq_true_eq] at this
      exact ⟨ws, rfl, this⟩
  · -- firstLt
    intro i op t s0 s1 r f hi hr hf
    have := allLt_iff.1 h7 i (lt_size_of_some hi)
    simp only [hi, arith?_mkArith, hr, hf, decide_eq_true_eq] at this
    exact this
  · -- fuse
    intro i op t s0 s1 f m src hc
    have := allLt_iff.1 h8 i (lt_size_of_some hc.inst)
    simp only [candOf_of_cand hc, Bool.and_eq_true, beq_iff_eq] at this
    obtain ⟨⟨g1, g2⟩, g3⟩ := this
    refine ⟨g1, ?_, ?_⟩
    · intro j x hij hjf hx
      have := allLt_iff.1 g2 j hjf
      simp only [hij, decide_true, Bool.not_true, Bool.false_or, hx, Bool.and_eq_true, Bool.not_eq_true',
        List.contains_eq_mem, decide_eq_false_iff_not] at this
      exact this
    · intro j x off hx ho hcon
      have := allLt_iff.1 g3 j (lt_size_of_some hx)
      simp only [hx, ho, Bool.not_eq_true', Bool.and_eq_false_iff, decide_eq_false_iff_not] at this
      rcases this with h | h
      · exact h hcon.1
      · exact h hcon.2

end Alloc
end C02
end Hpbf
