/-
The facts of `Hpbf/Props/C01Rounds.lean` / `C01Full.lean` for the repaired optimizer `OptFix.optimizeF`
(`Hpbf/OptFix.lean`), round by round: a repaired round (`optimizeOnceF`) emits the same program as `optimizeOnce`,
its analysis differs only in `clobbered`, so everything dead store elimination consumes is unchanged, and what the
next round consumes is sound for syntactic reasons.
-/
import Hpbf.Proofs.OptRbFull

namespace Hpbf
namespace OptProof
open Opt OptSem Ir

variable {w : Nat}

/-- A repaired round preserves the observable behaviour and justifies its `once` marks: first round. -/
theorem optimizeOnceF_round1 (hw : 0 < w) {b : Block w} (hcl : CanonL b.insts) {os os' : Orders}
    {b' : Block w} {anal' : OptAnalysis w}
    (hr : (OptFix.optimizeOnceF b (topAnalysis [] [])).run os = .ok ((b', anal'), os')) (env : Env) :
    BehEq b b' env ∧ C02Emit.OnceOk b' env := by
  obtain ⟨a0, h0, _⟩ := optimizeOnceF_ok.1 hr
  exact ⟨optimizeOnce_preserves_l1 hw hcl h0 env, optimizeOnce_onceOk_l1 hw hcl h0 env⟩

/-- The analysis a repaired round records is sound for the program it emits — for EVERY guard (every state, not
only the reachable ones), and it fits the blocks (`ShapeL`). -/
theorem optimizeOnceF_analIn {b : Block w} {prevAnal : OptAnalysis w} {os os' : Orders} {b' : Block w}
    {anal' : OptAnalysis w} (hr : (OptFix.optimizeOnceF b prevAnal).run os = .ok ((b', anal'), os'))
    (hcl : CanonL b.insts) (G : State w → Prop) :
    AnalInL G b'.insts anal'.subBlocks ∧ ShapeL b'.insts anal'.subBlocks := by
  obtain ⟨a0, h0, rfl⟩ := optimizeOnceF_ok.1 hr
  obtain ⟨h1, h2, _⟩ := tgtOkL_round h0 hcl
  exact ⟨analInL_of_tgtOk _ _ G h1, h2⟩

/-- The part of the analysis dead store elimination consumes is sound (`C01Dse.AnalSound`), given `OnceOk`. -/
theorem optimizeOnceF_analSound {b : Block w} {prevAnal : OptAnalysis w} {os os' : Orders} {b' : Block w}
    {anal' : OptAnalysis w} (hr : (OptFix.optimizeOnceF b prevAnal).run os = .ok ((b', anal'), os'))
    (hcl : CanonL b.insts) {env : Env} (ho : C02Emit.OnceOk b' env) :
    C01Dse.AnalSound b' anal'.toDAnal env := by
  obtain ⟨a0, h0, rfl⟩ := optimizeOnceF_ok.1 hr
  rw [fixClob_toDAnal]
  exact optimizeOnce_analSound h0 hcl ho

/-- Dead store elimination never fails on the output of a repaired round, and preserves the behaviour. -/
theorem dse_after_roundF {b : Block w} {prevAnal : OptAnalysis w} {os os' : Orders} {b1 : Block w}
    {anal1 : OptAnalysis w} (hr : (OptFix.optimizeOnceF b prevAnal).run os = .ok ((b1, anal1), os'))
    (hcl : CanonL b.insts) :
    (∃ b2, deadStoreElimination b1 anal1 = .ok b2) ∧
    ∀ b2 env, C02Emit.OnceOk b1 env → deadStoreElimination b1 anal1 = .ok b2 → BehEq b1 b2 env := by
  obtain ⟨a0, h0, rfl⟩ := optimizeOnceF_ok.1 hr
  refine ⟨?_, fun b2 env ho hd => ?_⟩
  · obtain ⟨b2, h2⟩ := dse_total_after_round h0 hcl
    exact ⟨b2, by rw [dse_fixClob]; exact h2⟩
  · rw [dse_fixClob] at hd
    exact round_dse_behEq h0 hcl ho hd

/-- A later repaired round (on the dead-store-eliminated output of a repaired round, with that round's analysis):
no hypothesis on the run. -/
theorem optimizeOnceF_later (hw : 0 < w) {b0 : Block w} {prev0 : OptAnalysis w} {os0 os0' : Orders}
    {prog prog1 prog2 : Block w} {anal anal2 : OptAnalysis w} {os os2 : Orders}
    (hr0 : (OptFix.optimizeOnceF b0 prev0).run os0 = .ok ((prog, anal), os0')) (hcl0 : CanonL b0.insts)
    {env : Env} (ho : C02Emit.OnceOk prog env) (hd : deadStoreElimination prog anal = .ok prog1)
    (hr : (OptFix.optimizeOnceF prog1 anal).run os = .ok ((prog2, anal2), os2)) :
    BehEq prog prog2 env ∧ C02Emit.OnceOk prog2 env ∧ CanonL prog1.insts := by
  obtain ⟨a0, h0, rfl⟩ := optimizeOnceF_ok.1 hr0
  obtain ⟨e, ho2, b, prev, a2, os', os'', hcl1, _, _⟩ :=
    laterRoundF_ok hw ⟨ho, b0, prev0, a0, os0, os0', hcl0, h0, rfl⟩ hd hr
  exact ⟨e, ho2, (tgtOkL_dse (optimizeOnce_shape h0 hcl0) (optimizeOnce_canonL h0 hcl0) hd).2.2⟩

/-- From Brainfuck source. -/
theorem optimizeF_parse (hw : 0 < w) {src : List Kind} {b b' : Block w} (hp : Ir.parse (w := w) src = .ok b)
    {level : Nat} {orders : Orders} (h : OptFix.optimizeF b level orders = .ok b') (env : Env) :
    BehEq b b' env ∧ (level ≠ 0 → C02Emit.OnceOk b' env) :=
  ⟨optimizeF_preserves_all_levels hw (parse_canonL hp) h env,
   fun hl => optimizeF_onceOk_all_levels hw (parse_canonL hp) hl h env⟩

end OptProof
end Hpbf

#print axioms Hpbf.OptProof.optimizeOnceF_analIn
#print axioms Hpbf.OptProof.optimizeOnceF_later
#print axioms Hpbf.OptProof.optimizeF_parse
