/-
Rebuild-round proofs, stage 3/4: copies of the bridge lemmas of `OptRbMotion1.lean` with the WEAKER head-guard
hypothesis `hGcH : ∀ k σk, Head … k σk → (am = true → k = 0) → σk.rd cS ≠ 0#w → Gc σk` (for a block that runs at most
once the guard of the child is only known at the head number 0).  Generated from the originals; all definitions
(`BalChild`, `MCtx`, `absBody`, …) are reused.  Changed hypotheses: `BalChild.roundR_g` takes `hk0 : am = true → k = 0`,
`run_real_g` takes `hkN : am = true → k ≤ 1`, `motion_hyps_g` takes `hkN : am = true → N ≤ 1`.
-/
import Hpbf.Proofs.OptRbMotion5

namespace Hpbf
namespace OptProof
open Opt OptSem Ir

variable {w : Nat}

/-! ### the real heads are the abstract run -/

section Run
variable {Gc : State w → Prop} {shP shC shS cS : Int} {bodyS : List (Instr w)}
  {s : Rebuild w} {ps : List (Rebuild w)} {sub0 sub : Rebuild w} {σS : State w}
  (D : List (Int × Expr w)) (τ0 : State w) {am : Bool}

/-- A completed real round, with everything the child state says about it. -/
theorem BalChild.roundR_g (hc : BalChild Gc shP shC shS cS bodyS s ps sub0 sub)
    (hGcH : ∀ k σk, Head cS shS bodyS σS k σk → (am = true → k = 0) → σk.rd cS ≠ 0#w → Gc σk)
    {k : Nat} {σk a : State w} (hh : Head cS shS bodyS σS k σk) (hk0 : am = true → k = 0)
    (hne : σk.rd cS ≠ 0#w) (hex : Exec bodyS σk (.fin a)) :
    ∃ y, (MCtx.mk cS shS shP bodyS σS sub D τ0).RoundR k σk y ∧
      RelAt shC sub (s :: ps) (memE (σk.mov (-shP))) y a ∧ y.ptr = (σk.mov (-shP)).ptr := by
  obtain ⟨hs, _⟩ := hc.rep (hGcH k σk hh hk0 hne) hne
  obtain ⟨y, hy, hr', hyp⟩ := hs.finL a hex
  exact ⟨y, ⟨hh, hy⟩, hr', hyp⟩

/-- The memory at the `k`-th real head is the `k`-th memory of the abstract run. -/
theorem run_real_g (hc : BalChild Gc shP shC shS cS bodyS s ps sub0 sub)
    (hGcH : ∀ k σk, Head cS shS bodyS σS k σk → (am = true → k = 0) → σk.rd cS ≠ 0#w → Gc σk)
    {k : Nat} {σk : State w} (hh : Head cS shS bodyS σS k σk) (hkN : am = true → k ≤ 1) :
    memE (σk.mov (-shP)) = OptLoop.run (MCtx.mk cS shS shP bodyS σS sub D τ0).absBody sub.pending
      (memE (σS.mov (-shP))) k ∧ σk.ptr = σS.ptr ∧ (σk.mov (-shP)).ptr = (σS.mov (-shP)).ptr := by
  induction hh with
  | zero => exact ⟨rfl, rfl, rfl⟩
  | @succ k' σk' σ' hprev hne hex ih =>
    obtain ⟨ih1, ih2, ih3⟩ := ih (fun h => by have := hkN h; omega)
    obtain ⟨y, hR, hr', hyp⟩ := hc.roundR_g D τ0 hGcH hprev (fun h => by have := hkN h; omega) hne hex
    obtain ⟨n1, _, _, n4, n5⟩ := hc.next hr' hyp
    refine ⟨?_, n4.trans ih2, n1.trans ih3⟩
    rw [n5, OptLoop.run_succ]
    show _ = Mem.par sub.pending ((MCtx.mk cS shS shP bodyS σS sub D τ0).absBody k'
      (OptLoop.run (MCtx.mk cS shS shP bodyS σS sub D τ0).absBody sub.pending (memE (σS.mov (-shP))) k'))
    rw [← ih1, MCtx.absBody_real hR]

/-- The hypotheses of the loop-motion pack about the rounds below a real head `N`. -/
theorem motion_hyps_g (hc : BalChild Gc shP shC shS cS bodyS s ps sub0 sub) (hcs : CanonSt sub)
    (hGcH : ∀ k σk, Head cS shS bodyS σS k σk → (am = true → k = 0) → σk.rd cS ≠ 0#w → Gc σk)
    {N : Nat} {σN : State w} (hN : Head cS shS bodyS σS N σN) (hkN : am = true → N ≤ 1) :
    OptLoop.BodyFactsH sub (MCtx.mk cS shS shP bodyS σS sub D τ0).absBody
      (OptLoop.run (MCtx.mk cS shS shP bodyS σS sub D τ0).absBody sub.pending (memE (σS.mov (-shP)))) N ∧
    OptLoop.GetBothFactsH s ps sub
      (OptLoop.run (MCtx.mk cS shS shP bodyS σS sub D τ0).absBody sub.pending (memE (σS.mov (-shP)))) N ∧
    (∀ k, k < N → ∀ (m' : Mem w) (Z : Int → Prop),
      (∀ v, ¬ Z v → m' v = OptLoop.run (MCtx.mk cS shS shP bodyS σS sub D τ0).absBody sub.pending
        (memE (σS.mov (-shP))) k v) →
      ∀ v, ¬ Z v → (MCtx.mk cS shS shP bodyS σS sub D τ0).absBody k m' v =
        (MCtx.mk cS shS shP bodyS σS sub D τ0).absBody k
          (OptLoop.run (MCtx.mk cS shS shP bodyS σS sub D τ0).absBody sub.pending (memE (σS.mov (-shP))) k) v) ∧
    (∀ k, k < N → ∀ (m' : Mem w) v, mGet sub.written v = none →
      (MCtx.mk cS shS shP bodyS σS sub D τ0).absBody k m' v = m' v) := by
  -- the data of round `k < N`
  have hround : ∀ k, k < N → ∃ σk a y, Head cS shS bodyS σS k σk ∧ σk.rd cS ≠ 0#w ∧
      (MCtx.mk cS shS shP bodyS σS sub D τ0).RoundR k σk y ∧
      RelAt shC sub (s :: ps) (memE (σk.mov (-shP))) y a ∧ y.ptr = (σk.mov (-shP)).ptr ∧
      memE (σk.mov (-shP)) = OptLoop.run (MCtx.mk cS shS shP bodyS σS sub D τ0).absBody sub.pending
        (memE (σS.mov (-shP))) k := by
    intro k hk
    obtain ⟨σk, a, hh, hne, hex, _⟩ := head_prefix hN k hk
    have hk0 : am = true → k = 0 := fun h => by have := hkN h; omega
    obtain ⟨y, hR, hr', hyp⟩ := hc.roundR_g D τ0 hGcH hh hk0 hne hex
    exact ⟨σk, a, y, hh, hne, hR, hr', hyp, (run_real_g D τ0 hc hGcH hh (fun h => by have := hkN h; omega)).1⟩
  -- the child's code started in a matching head of the transformed loop
  have hfootT : ∀ k σk y m' τ z, k < N → Head cS shS bodyS σS k σk → σk.rd cS ≠ 0#w →
      (MCtx.mk cS shS shP bodyS σS sub D τ0).RoundR k σk y →
      (MCtx.mk cS shS shP bodyS σS sub D τ0).RoundT k σk m' τ z →
      (∀ v, memE τ v = memE (σk.mov (-shP)) v → memE y v = memE z v) ∧
      (∀ v, v ∉ mKeys sub.written → v ∉ sub.reads → memE z v = memE τ v) := by
    intro k σk y m' τ z hkl hh hne hR hT
    obtain ⟨t1, t2, t3, t4, t5, t6, t7⟩ := hT
    have hg := hGcH k σk hh (fun h => by have := hkN h; omega) hne
    have hV : ValidG Gc shP sub0 (s :: ps) (σk.mov (-shP)) := ⟨_, σk, hc.valid hg hne, hg⟩
    have hK : ∀ v, memE τ v ≠ memE (σk.mov (-shP)) v → v ∉ sub.reads := fun v hv hr => hv (t7 v hr)
    have hag : AgreeOff (Rest (fun v => memE τ v ≠ memE (σk.mov (-shP)) v) sub0) (σk.mov (-shP)) τ := by
      refine ⟨t4.symm, t5.symm, t6.symm, fun v hv => ?_⟩
      have : ¬ (memE τ v ≠ memE (σk.mov (-shP)) v) := fun h => hv ⟨h, by
        rintro ⟨kk, hkk, _⟩
        rw [hc.w0] at hkk; simp [mGet] at hkk⟩
      exact (Classical.not_not.1 this).symm
    have hf := hc.all.foot hc.ns _ hK _ _ hV hag
    obtain ⟨z', hz', hq⟩ := hf.finL y hR.2
    have ez : z' = z := exec_fin_det hz' t2
    subst ez
    refine ⟨fun v hv => hq.2.2.2 v (fun h => h.1 hv), ?_⟩
    exact (hc.all.frame hc.ns _ hK _ _ hV hag z' t2).2
  refine ⟨⟨?_, ?_⟩, ?_, ?_, ?_⟩
  · intro k hk v hv
    obtain ⟨σk, a, y, _, _, hR, hr', _, hM⟩ := hround k hk
    rw [← hM, MCtx.absBody_real hR]
    exact hr'.inv.writ.absent hv
  · intro k hk v e hv
    obtain ⟨σk, a, y, _, _, hR, hr', _, hM⟩ := hround k hk
    rw [← hM, MCtx.absBody_real hR]
    exact hr'.inv.writ.known hv
  · intro v e he
    refine ⟨(getBoth_canon hcs (s :: ps) he).weak, fun k hk => ?_⟩
    obtain ⟨σk, a, y, _, _, hR, hr', _, hM⟩ := hround k hk
    rw [OptLoop.run_succ]
    show Mem.par sub.pending ((MCtx.mk cS shS shP bodyS σS sub D τ0).absBody k _) v = _
    rw [← hM, MCtx.absBody_real hR, ← hr'.inv.pend]
    exact getBoth_sound hr'.inv he
  · intro k hk m' Z hm' v hv
    obtain ⟨σk, a, y, hh, hne, hR, hr', _, hM⟩ := hround k hk
    rw [← hM]
    by_cases hme : m' = memE (σk.mov (-shP))
    · rw [hme]
    · rw [MCtx.absBody_real hR]
      by_cases hT : ∃ q : State w × State w, (MCtx.mk cS shS shP bodyS σS sub D τ0).RoundT k σk m' q.1 q.2
      · obtain ⟨⟨τ, z⟩, hT⟩ := hT
        rw [MCtx.absBody_T hR hT hme]
        refine ((hfootT k σk y m' τ z hk hh hne hR hT).1 v ?_).symm
        rw [← hT.2.2.1, hm' v hv, ← hM]
      · rw [MCtx.absBody_other hR hme hT]
        show (if mGet sub.written v = none then m' v else memE y v) = memE y v
        split
        · rename_i hw
          rw [hm' v hv, ← hM]
          exact (hr'.inv.writ.absent hw).symm
        · rfl
  · intro k hk m' v hv
    obtain ⟨σk, a, y, hh, hne, hR, hr', _, hM⟩ := hround k hk
    by_cases hme : m' = memE (σk.mov (-shP))
    · rw [hme, MCtx.absBody_real hR]
      exact hr'.inv.writ.absent hv
    · by_cases hT : ∃ q : State w × State w, (MCtx.mk cS shS shP bodyS σS sub D τ0).RoundT k σk m' q.1 q.2
      · obtain ⟨⟨τ, z⟩, hT⟩ := hT
        rw [MCtx.absBody_T hR hT hme]
        obtain ⟨f1, f2⟩ := hfootT k σk y m' τ z hk hh hne hR hT
        rw [hT.2.2.1]
        by_cases hr : v ∈ sub.reads
        · have e1 := hT.2.2.2.2.2.2 v hr
          rw [← f1 v e1, e1]
          exact hr'.inv.writ.absent hv
        · exact f2 v ((mGet_none_iff _ _).1 hv) hr
      · rw [MCtx.absBody_other hR hme hT]
        show (if mGet sub.written v = none then m' v else memE y v) = m' v
        rw [if_pos hv]

end Run

end OptProof
end Hpbf
