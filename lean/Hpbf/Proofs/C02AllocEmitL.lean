/-
C02 (`allocate_temps`), part 16: the local invariant `LInv` of the first phase.  It holds for the generator state
after `emit_block` (`linv_of_emit`) and yields the components `live0`, `noZero`, `defs`, `uses`, `writes`,
`firstLt` of `AllocPre` and the first half of `fuse` (the recorded first use reads the temporary and nothing
before it does).
-/
import Hpbf.Proofs.C02AllocEmit
set_option linter.unusedSimpArgs false

namespace Hpbf
namespace C02
namespace AEmit

open Bc BcWf BcGen C11 C02Emit

variable {w : Nat}

structure LInv (s : St w) : Prop where
  live : s.live = #[]
  noZero : ∀ (j : Nat) (x : Instr w), s.insts[j]? = some x → NoMemZero x
  vals : ∀ p ∈ s.values, p.2 < s.ranges.size
  rwf : ∀ (t : Nat) (r : RangeInfo), s.ranges[t]? = some r →
    r.created < s.insts.size ∧ (∀ L, r.lastUse = some L → L ≤ s.insts.size) ∧
    (∀ f, r.firstUse = some f → r.created < f ∧ ∃ x, s.insts[f]? = some x ∧ t ∈ BcWf.uses x)
  defs : ∀ (j : Nat) (x : Instr w) (t : Nat), s.insts[j]? = some x → t ∈ BcWf.defs x →
    ∃ r : RangeInfo, s.ranges[t]? = some r ∧ r.created = j
  uses : ∀ (j : Nat) (x : Instr w) (t : Nat), s.insts[j]? = some x → t ∈ BcWf.uses x →
    ∃ (r : RangeInfo) (L f : Nat), s.ranges[t]? = some r ∧ r.lastUse = some L ∧ r.created < j ∧ j ≤ L ∧
      r.firstUse = some f ∧ f ≤ j
  writes : ∀ (j : Nat) (x : Instr w) (m : Int), s.insts[j]? = some x → m ∈ memDefs x →
    ∃ ws, alGet s.writes m = some ws ∧ j ∈ ws
  oa : ∀ v ∈ s.outerAccessed.toList, ∃ (r : RangeInfo) (f : Nat), s.ranges[v]? = some r ∧ r.firstUse = some f

theorem linv_init : LInv ({} : St w) := by
  refine ⟨rfl, ?_, ?_, ?_, ?_, ?_, ?_, ?_⟩
  · intro j x h; simp at h
  · intro p h; cases h
  · intro t r h; simp at h
  · intro j x t h; simp at h
  · intro j x t h; simp at h
  · intro j x m h; simp at h
  · intro v h; simp at h

/-! ### the range entries after the reads of an instruction -/

/-- `r'` is `r` after a use at position `n`. -/
structure Bumped (n : Nat) (r r' : RangeInfo) : Prop where
  created : r'.created = r.created
  last : r'.lastUse = some n
  firstNone : r.firstUse = none → r'.firstUse = some n
  firstSome : ∀ f, r.firstUse = some f → r'.firstUse = some f

theorem bumped_bump (r : RangeInfo) (n inc : Nat) : Bumped n r (bump r n inc) := by
  refine ⟨rfl, rfl, ?_, ?_⟩
  · intro h; simp [bump, h]
  · intro f h; simp [bump, h]

theorem Bumped.trans {n : Nat} {r r' r'' : RangeInfo} (h : Bumped n r r') (g : Bumped n r' r'') :
    Bumped n r r'' := by
  refine ⟨g.created.trans h.created, g.last, ?_, ?_⟩
  · intro e; exact g.firstSome n (h.firstNone e)
  · intro f e; exact g.firstSome f (h.firstSome f e)

theorem ext_ranges {v inc : Nat} {s s' : St w} (E : ExtSpec v inc s s') :
    (∃ r, s.ranges[v]? = some r ∧ s'.ranges[v]? = some (bump r s.insts.size inc)) ∧
    ∀ t, t ≠ v → s'.ranges[t]? = s.ranges[t]? := by
  obtain ⟨r, hr, h⟩ := E.entry
  have hlt : v < s.ranges.size := Alloc.lt_of_getElem? hr
  refine ⟨⟨r, hr, ?_⟩, ?_⟩
  · rw [h, Array.getElem?_setIfInBounds]; simp [hlt]
  · intro t ht
    rw [h, Array.getElem?_setIfInBounds]
    simp [Ne.symm ht]

/-- The state after the reads: only the entries of the operands and `outerAccessed` change. -/
structure ReadsFacts (l : List Nat) (s s' : St w) : Prop where
  hit : ∀ t ∈ l, ∃ r r', s.ranges[t]? = some r ∧ s'.ranges[t]? = some r' ∧ Bumped s.insts.size r r'
  miss : ∀ t, t ∉ l → s'.ranges[t]? = s.ranges[t]?
  outer : ∀ v ∈ s'.outerAccessed.toList, v ∈ s.outerAccessed.toList ∨ v ∈ l
  writes : s'.writes = s.writes
  exprs : s'.exprs = s.exprs
  values : s'.values = s.values
  insts : s'.insts = s.insts
  live : s'.live = s.live
  size : s'.ranges.size = s.ranges.size

theorem readsFacts : ∀ (l : List Nat) {s s' : St w}, ReadsSpec l s s' → ReadsFacts l s s'
  | [], s, s', h => by
    rw [h]
    exact ⟨(fun t ht => by cases ht), fun _ _ => rfl, fun v hv => Or.inl hv, rfl, rfl, rfl, rfl, rfl, rfl⟩
  | a :: rest, s, s', ⟨s1, h1, h2⟩ => by
    have F := readsFacts rest h2
    obtain ⟨⟨ra, hra, hra'⟩, hother⟩ := ext_ranges h1
    have hn : s1.insts.size = s.insts.size := by rw [h1.insts]
    refine ⟨?_, ?_, ?_, F.writes.trans h1.writes, F.exprs.trans h1.exprs, F.values.trans h1.values,
      F.insts.trans h1.insts, F.live.trans h1.live, F.size.trans (extSpec_size h1)⟩
    · intro t ht
      by_cases hta : t = a
      · subst hta
        by_cases htr : t ∈ rest
        · obtain ⟨r, r', g1, g2, g3⟩ := F.hit t htr
          rw [hra'] at g1; cases g1
          rw [hn] at g3
          exact ⟨ra, r', hra, g2, (bumped_bump ra _ 1).trans g3⟩
        · exact ⟨ra, _, hra, by rw [F.miss t htr]; exact hra', bumped_bump ra _ 1⟩
      · have htr : t ∈ rest := by
          rcases List.mem_cons.1 ht with e | e
          · exact absurd e hta
          · exact e
        obtain ⟨r, r', g1, g2, g3⟩ := F.hit t htr
        rw [hother t hta] at g1
        rw [hn] at g3
        exact ⟨r, r', g1, g2, g3⟩
    · intro t ht
      simp only [List.mem_cons, not_or] at ht
      rw [F.miss t ht.2, hother t ht.1]
    · intro v hv
      rcases F.outer v hv with h | h
      · rcases h1.outer with ⟨e, _⟩ | ⟨e, _⟩
        · rw [e] at h; exact Or.inl h
        · rw [e] at h
          simp only [Array.toList_push, List.mem_append, List.mem_singleton] at h
          rcases h with h | rfl
          · exact Or.inl h
          · exact Or.inr List.mem_cons_self
      · exact Or.inr (List.mem_cons_of_mem _ h)

/-! ### reads followed by the instruction that performs them -/

theorem getElem?_push_lt' {α : Type} (a : Array α) (x : α) {j : Nat} (h : j < a.size) :
    (a.push x)[j]? = a[j]? := by
  rw [Array.getElem?_push]; simp [Nat.ne_of_lt h]

theorem getElem?_push_cases {α : Type} {a : Array α} {x y : α} {j : Nat} (h : (a.push x)[j]? = some y) :
    (j < a.size ∧ a[j]? = some y) ∨ (j = a.size ∧ y = x) := by
  rw [Array.getElem?_push] at h
  split at h
  · rename_i e; exact Or.inr ⟨e, (Option.some.inj h).symm⟩
  · exact Or.inl ⟨Alloc.lt_of_getElem? h, h⟩

/-- The general step: the operands `ops` are read at position `n = s.insts.size`, possibly a new value `nv` is
created there, and the instruction `inst` that reads `ops` (and defines `nv`) is appended. -/
theorem linv_after {s s' : St w} (h : LInv s) {ops : List Nat} {inst : Instr w} {nv : Option Nat}
    (hops : ∀ a ∈ ops, a < s.ranges.size)
    (hinsts : s'.insts = s.insts.push inst) (hlive : s'.live = s.live)
    (huses : ∀ t, t ∈ BcWf.uses inst ↔ t ∈ ops)
    (hdefs : ∀ t, t ∈ BcWf.defs inst → nv = some t)
    (hz : NoMemZero inst)
    (hhit : ∀ t ∈ ops, ∃ r r', s.ranges[t]? = some r ∧ s'.ranges[t]? = some r' ∧ Bumped s.insts.size r r')
    (hmiss : ∀ t, t ∉ ops → t < s.ranges.size → s'.ranges[t]? = s.ranges[t]?)
    (hsize : s'.ranges.size = s.ranges.size + (if nv.isSome then 1 else 0))
    (hnew : ∀ v, nv = some v → v = s.ranges.size ∧
      s'.ranges[v]? = some { created := s.insts.size, firstUse := none, lastUse := none, numUses := 0 })
    (houter : ∀ v ∈ s'.outerAccessed.toList, v ∈ s.outerAccessed.toList ∨ v ∈ ops)
    (hvals : ∀ p ∈ s'.values, p ∈ s.values ∨ p.2 < s'.ranges.size)
    (hwrites : ∀ m ws, alGet s.writes m = some ws → ∃ ws', alGet s'.writes m = some ws' ∧ ∀ j ∈ ws, j ∈ ws')
    (hwnew : ∀ m ∈ memDefs inst, ∃ ws, alGet s'.writes m = some ws ∧ s.insts.size ∈ ws) : LInv s' := by
  have hsz : s'.insts.size = s.insts.size + 1 := by rw [hinsts]; simp
  have hle : s.ranges.size ≤ s'.ranges.size := by rw [hsize]; omega
  -- every entry of the new table
  have hent : ∀ t r', s'.ranges[t]? = some r' →
      (t ∈ ops ∧ ∃ r, s.ranges[t]? = some r ∧ Bumped s.insts.size r r') ∨
      (t ∉ ops ∧ t < s.ranges.size ∧ s.ranges[t]? = some r') ∨
      (nv = some t ∧ t = s.ranges.size ∧
        r' = { created := s.insts.size, firstUse := none, lastUse := none, numUses := 0 }) := by
    intro t r' hr'
    by_cases hto : t ∈ ops
    · obtain ⟨r, q, g1, g2, g3⟩ := hhit t hto
      rw [hr'] at g2; cases g2
      exact Or.inl ⟨hto, r, g1, g3⟩
    · by_cases hlt : t < s.ranges.size
      · exact Or.inr (Or.inl ⟨hto, hlt, by rw [← hmiss t hto hlt]; exact hr'⟩)
      · have hlt' : t < s'.ranges.size := Alloc.lt_of_getElem? hr'
        cases hnv : nv with
        | none => rw [hsize, hnv] at hlt'; simp at hlt'; omega
        | some v =>
          obtain ⟨e1, e2⟩ := hnew v hnv
          have : t = v := by rw [hsize, hnv] at hlt'; simp at hlt'; omega
          subst this
          rw [hr'] at e2
          exact Or.inr (Or.inr ⟨rfl, e1, Option.some.inj e2⟩)
  -- old entries survive (bumped or unchanged)
  have hold : ∀ t r, s.ranges[t]? = some r → ∃ r', s'.ranges[t]? = some r' ∧ r'.created = r.created ∧
      (∀ f, r.firstUse = some f → r'.firstUse = some f) ∧
      ((t ∈ ops ∧ Bumped s.insts.size r r') ∨ (t ∉ ops ∧ r' = r)) := by
    intro t r hr
    by_cases hto : t ∈ ops
    · obtain ⟨r0, r', g1, g2, g3⟩ := hhit t hto
      rw [hr] at g1; cases g1
      exact ⟨r', g2, g3.created, g3.firstSome, Or.inl ⟨hto, g3⟩⟩
    · exact ⟨r, by rw [hmiss t hto (Alloc.lt_of_getElem? hr)]; exact hr, rfl, fun f e => e, Or.inr ⟨hto, rfl⟩⟩
  refine ⟨by rw [hlive]; exact h.live, ?_, ?_, ?_, ?_, ?_, ?_, ?_⟩
  · -- noZero
    intro j x hx
    rw [hinsts] at hx
    rcases getElem?_push_cases hx with ⟨_, e⟩ | ⟨_, rfl⟩
    · exact h.noZero j x e
    · exact hz
  · -- vals
    intro p hp
    rcases hvals p hp with e | e
    · exact Nat.lt_of_lt_of_le (h.vals p e) hle
    · exact e
  · -- rwf
    intro t r' hr'
    rcases hent t r' hr' with ⟨hto, r, g1, g2⟩ | ⟨_, _, g1⟩ | ⟨_, _, rfl⟩
    · obtain ⟨q1, q2, q3⟩ := h.rwf t r g1
      refine ⟨by rw [g2.created, hsz]; omega, ?_, ?_⟩
      · intro L hL; rw [g2.last] at hL; cases hL; omega
      · intro f hf
        cases hfo : r.firstUse with
        | none =>
          rw [g2.firstNone hfo] at hf; cases hf
          rw [g2.created]
          refine ⟨q1, inst, by rw [hinsts]; simp, (huses t).2 hto⟩
        | some f0 =>
          rw [g2.firstSome f0 hfo] at hf; cases hf
          obtain ⟨p1, x, p2, p3⟩ := q3 f hfo
          rw [g2.created]
          exact ⟨p1, x, by rw [hinsts, getElem?_push_lt' _ _ (Alloc.lt_of_getElem? p2)]; exact p2, p3⟩
    · obtain ⟨q1, q2, q3⟩ := h.rwf t r' g1
      refine ⟨by rw [hsz]; omega, fun L hL => by have := q2 L hL; omega, ?_⟩
      intro f hf
      obtain ⟨p1, x, p2, p3⟩ := q3 f hf
      exact ⟨p1, x, by rw [hinsts, getElem?_push_lt' _ _ (Alloc.lt_of_getElem? p2)]; exact p2, p3⟩
    · exact ⟨by simp only; omega, (fun L hL => by cases hL), (fun f hf => by cases hf)⟩
  · -- defs
    intro j x t hx ht
    rw [hinsts] at hx
    rcases getElem?_push_cases hx with ⟨_, e⟩ | ⟨rfl, rfl⟩
    · obtain ⟨r, g1, g2⟩ := h.defs j x t e ht
      obtain ⟨r', q1, q2, _⟩ := hold t r g1
      exact ⟨r', q1, by rw [q2, g2]⟩
    · obtain ⟨_, e2⟩ := hnew t (hdefs t ht)
      exact ⟨_, e2, rfl⟩
  · -- uses
    intro j x t hx ht
    rw [hinsts] at hx
    rcases getElem?_push_cases hx with ⟨hj, e⟩ | ⟨rfl, rfl⟩
    · obtain ⟨r, L, f, g1, g2, g3, g4, g5, g6⟩ := h.uses j x t e ht
      obtain ⟨r', q1, q2, q3, q4⟩ := hold t r g1
      rcases q4 with ⟨_, hb⟩ | ⟨_, rfl⟩
      · exact ⟨r', s.insts.size, f, q1, hb.last, by rw [q2]; exact g3, by omega, q3 f g5, g6⟩
      · exact ⟨r', L, f, q1, g2, g3, g4, g5, g6⟩
    · have hto := (huses t).1 ht
      obtain ⟨r, r', g1, g2, g3⟩ := hhit t hto
      obtain ⟨q1, q2, q3⟩ := h.rwf t r g1
      cases hfo : r.firstUse with
      | none =>
        exact ⟨r', s.insts.size, s.insts.size, g2, g3.last, by rw [g3.created]; exact q1, Nat.le_refl _,
          g3.firstNone hfo, Nat.le_refl _⟩
      | some f0 =>
        obtain ⟨p1, x, p2, p3⟩ := q3 f0 hfo
        exact ⟨r', s.insts.size, f0, g2, g3.last, by rw [g3.created]; exact q1, Nat.le_refl _,
          g3.firstSome f0 hfo, Nat.le_of_lt (Alloc.lt_of_getElem? p2)⟩
  · -- writes
    intro j x m hx hm
    rw [hinsts] at hx
    rcases getElem?_push_cases hx with ⟨_, e⟩ | ⟨rfl, rfl⟩
    · obtain ⟨ws, g1, g2⟩ := h.writes j x m e hm
      obtain ⟨ws', q1, q2⟩ := hwrites m ws g1
      exact ⟨ws', q1, q2 j g2⟩
    · exact hwnew m hm
  · -- oa
    intro v hv
    rcases houter v hv with e | e
    · obtain ⟨r, f, g1, g2⟩ := h.oa v e
      obtain ⟨r', q1, _, q3, _⟩ := hold v r g1
      exact ⟨r', f, q1, q3 f g2⟩
    · obtain ⟨r, r', g1, g2, g3⟩ := hhit v e
      cases hfo : r.firstUse with
      | none => exact ⟨r', _, g2, g3.firstNone hfo⟩
      | some f0 => exact ⟨r', f0, g2, g3.firstSome f0 hfo⟩

/-! ### the table of write positions -/

theorem addWrite_self (ws : List (Int × List Nat)) (var : Int) (pos : Nat) :
    ∃ l, alGet (addWrite ws var pos) var = some l ∧ pos ∈ l := by
  unfold addWrite
  cases hg : alGet ws var with
  | none => exact ⟨[pos], by rw [alGet_alSet]; simp, by simp⟩
  | some l =>
    simp only
    refine ⟨if l.contains pos then l else pos :: l, by rw [alGet_alSet]; simp, ?_⟩
    split
    · rename_i hc; simpa using hc
    · simp

theorem addWrite_mono (ws : List (Int × List Nat)) (var : Int) (pos : Nat) {m : Int} {l : List Nat}
    (h : alGet ws m = some l) : ∃ l', alGet (addWrite ws var pos) m = some l' ∧ ∀ j ∈ l, j ∈ l' := by
  by_cases hm : m = var
  · subst hm
    unfold addWrite
    simp only [h]
    refine ⟨if l.contains pos then l else pos :: l, by rw [alGet_alSet]; simp, ?_⟩
    intro j hj
    split
    · exact hj
    · exact List.mem_cons_of_mem _ hj
  · refine ⟨l, ?_, fun j hj => hj⟩
    unfold addWrite
    cases hg : alGet ws var with
    | none => simp only; rw [alGet_alSet]; simp [hm, h]
    | some l0 => simp only; rw [alGet_alSet]; simp [hm, h]

theorem mem_alSet {κ ν : Type} [DecidableEq κ] {l : List (κ × ν)} {k : κ} {v : ν} {p : κ × ν}
    (h : p ∈ alSet l k v) : p = (k, v) ∨ p ∈ l := by
  induction l with
  | nil => simp only [alSet, List.mem_singleton] at h; exact Or.inl h
  | cons q rest ih =>
    obtain ⟨k0, v0⟩ := q
    simp only [alSet] at h
    split at h
    · rename_i e
      rcases List.mem_cons.1 h with e' | e'
      · exact Or.inl (by rw [e', e])
      · exact Or.inr (List.mem_cons_of_mem _ e')
    · rcases List.mem_cons.1 h with e' | e'
      · exact Or.inr (by rw [e']; exact List.mem_cons_self)
      · rcases ih e' with g | g
        · exact Or.inl g
        · exact Or.inr (List.mem_cons_of_mem _ g)

theorem mem_of_alGet {κ ν : Type} [DecidableEq κ] {l : List (κ × ν)} {k : κ} {v : ν}
    (h : alGet l k = some v) : (k, v) ∈ l := by
  induction l with
  | nil => cases h
  | cons q rest ih =>
    obtain ⟨k0, v0⟩ := q
    simp only [alGet] at h
    split at h
    · rename_i e; cases h; rw [e]; exact List.mem_cons_self
    · exact List.mem_cons_of_mem _ (ih h)

/-! ### `LInv` is preserved by every primitive -/

theorem linv_frame {s s' : St w} (h : LInv s) (e1 : s'.writes = s.writes) (e2 : s'.ranges = s.ranges)
    (e3 : s'.insts = s.insts) (e4 : s'.live = s.live) (e5 : ∀ p ∈ s'.values, p ∈ s.values)
    (e6 : ∀ v ∈ s'.outerAccessed.toList, v ∈ s.outerAccessed.toList) : LInv s' := by
  refine ⟨by rw [e4]; exact h.live, by rw [e3]; exact h.noZero, ?_, by rw [e2, e3]; exact h.rwf,
    by rw [e2, e3]; exact h.defs, by rw [e2, e3]; exact h.uses, by rw [e1, e3]; exact h.writes, ?_⟩
  · intro p hp; rw [e2]; exact h.vals p (e5 p hp)
  · intro v hv; rw [e2]; exact h.oa v (e6 v hv)

theorem uses_defs_ctl {x : Instr w} (h : isCtl x = true) :
    BcWf.uses x = [] ∧ BcWf.defs x = [] ∧ memDefs x = [] ∧ NoMemZero x := by
  cases x <;> simp [isCtl] at h <;> exact ⟨rfl, rfl, rfl, rfl⟩

theorem linv_push {s : St w} (h : LInv s) {x : Instr w} (hx : isCtl x = true) :
    LInv { s with insts := s.insts.push x } := by
  obtain ⟨u1, u2, u3, u4⟩ := uses_defs_ctl hx
  refine linv_after h (ops := []) (inst := x) (nv := none) (fun a ha => by cases ha) rfl rfl
    (fun t => by rw [u1]) (fun t ht => by rw [u2] at ht; cases ht) u4 (fun t ht => by cases ht)
    (fun t _ _ => rfl) rfl (fun v hv => by cases hv) (fun v hv => Or.inl hv) (fun p hp => Or.inl hp)
    (fun m ws hw => ⟨ws, hw, fun j hj => hj⟩) (fun m hm => by rw [u3] at hm; cases hm)

theorem linv_inp {s : St w} (h : LInv s) (d : Int) :
    LInv { s with writes := addWrite s.writes d s.insts.size, insts := s.insts.push (.inp d) } := by
  refine linv_after h (ops := []) (inst := .inp d) (nv := none) (fun a ha => by cases ha) rfl rfl
    (fun t => by simp [BcWf.uses]) (fun t ht => by simp [BcWf.defs] at ht) rfl (fun t ht => by cases ht)
    (fun t _ _ => rfl) rfl (fun v hv => by cases hv) (fun v hv => Or.inl hv) (fun p hp => Or.inl hp)
    (fun m ws hw => addWrite_mono _ _ _ hw) ?_
  intro m hm
  simp only [memDefs, List.mem_singleton] at hm
  subst hm
  exact addWrite_self _ _ _

theorem linv_patch {s : St w} (h : LInv s) {i : Nat} (c off : Int) (hi : s.insts[i]? = some .noop) :
    LInv { s with insts := s.insts.setIfInBounds i (.brz c off) } := by
  have hlt : i < s.insts.size := Alloc.lt_of_getElem? hi
  have hget : ∀ j x, (s.insts.setIfInBounds i (.brz c off))[j]? = some x →
      (j = i ∧ x = .brz c off) ∨ (j ≠ i ∧ s.insts[j]? = some x) := by
    intro j x hx
    rw [Array.getElem?_setIfInBounds] at hx
    by_cases e : i = j
    · subst e
      simp only [hlt, and_self, if_true, Option.some.injEq] at hx
      exact Or.inl ⟨rfl, hx.symm⟩
    · simp only [e, false_and, if_false] at hx
      exact Or.inr ⟨fun e' => e e'.symm, hx⟩
  refine ⟨h.live, ?_, h.vals, ?_, ?_, ?_, ?_, h.oa⟩
  · intro j x hx
    rcases hget j x hx with ⟨_, rfl⟩ | ⟨_, e⟩
    · rfl
    · exact h.noZero j x e
  · intro t r hr
    obtain ⟨q1, q2, q3⟩ := h.rwf t r hr
    refine ⟨by simpa using q1, by simpa using q2, ?_⟩
    intro f hf
    obtain ⟨p1, x, p2, p3⟩ := q3 f hf
    refine ⟨p1, x, ?_, p3⟩
    show (s.insts.setIfInBounds i _)[f]? = some x
    rw [Array.getElem?_setIfInBounds]
    have : ¬ i = f := by
      intro e; subst e
      rw [hi] at p2; cases p2
      simp [BcWf.uses] at p3
    simp only [this, false_and, if_false]
    exact p2
  · intro j x t hx ht
    rcases hget j x hx with ⟨_, rfl⟩ | ⟨_, e⟩
    · simp [BcWf.defs] at ht
    · exact h.defs j x t e ht
  · intro j x t hx ht
    rcases hget j x hx with ⟨_, rfl⟩ | ⟨_, e⟩
    · simp [BcWf.uses] at ht
    · exact h.uses j x t e ht
  · intro j x m hx hm
    rcases hget j x hx with ⟨_, rfl⟩ | ⟨_, e⟩
    · simp [memDefs] at hm
    · exact h.writes j x m e hm

/-- Extending the range of a value that has already been read. -/
theorem linv_extend {s s' : St w} (h : LInv s) {v : Nat} (E : ExtSpec v 0 s s')
    (hf : ∃ (r : RangeInfo) (f : Nat), s.ranges[v]? = some r ∧ r.firstUse = some f) : LInv s' := by
  obtain ⟨⟨r, hr, hr'⟩, hother⟩ := ext_ranges E
  obtain ⟨r0, f, hr0, hf0⟩ := hf
  rw [hr] at hr0; cases hr0
  have hb : bump r s.insts.size 0 = { r with lastUse := some s.insts.size } := by
    simp [bump, hf0]
  have hent : ∀ t q, s'.ranges[t]? = some q →
      (t = v ∧ q = { r with lastUse := some s.insts.size }) ∨ (t ≠ v ∧ s.ranges[t]? = some q) := by
    intro t q hq
    by_cases e : t = v
    · subst e; rw [hr', hb] at hq; exact Or.inl ⟨rfl, (Option.some.inj hq).symm⟩
    · rw [hother t e] at hq; exact Or.inr ⟨e, hq⟩
  have hold : ∀ t q, s.ranges[t]? = some q → ∃ q', s'.ranges[t]? = some q' ∧ q'.created = q.created ∧
      q'.firstUse = q.firstUse ∧ (q'.lastUse = q.lastUse ∨ (t = v ∧ q'.lastUse = some s.insts.size)) := by
    intro t q hq
    by_cases e : t = v
    · subst e
      rw [hr] at hq; cases hq
      exact ⟨_, hr', by rw [hb], by rw [hb], Or.inr ⟨rfl, by rw [hb]⟩⟩
    · exact ⟨q, by rw [hother t e]; exact hq, rfl, rfl, Or.inl rfl⟩
  refine ⟨by rw [E.live]; exact h.live, by rw [E.insts]; exact h.noZero, ?_, ?_, ?_, ?_,
    by rw [E.writes, E.insts]; exact h.writes, ?_⟩
  · intro p hp
    rw [E.values] at hp
    rw [extSpec_size E]; exact h.vals p hp
  · intro t q hq
    rw [E.insts]
    rcases hent t q hq with ⟨rfl, rfl⟩ | ⟨_, e⟩
    · obtain ⟨q1, q2, q3⟩ := h.rwf t r hr
      exact ⟨q1, fun L hL => by cases hL; exact Nat.le_refl _, q3⟩
    · exact h.rwf t q e
  · intro j x t hx ht
    rw [E.insts] at hx
    obtain ⟨q, g1, g2⟩ := h.defs j x t hx ht
    obtain ⟨q', p1, p2, _⟩ := hold t q g1
    exact ⟨q', p1, by rw [p2, g2]⟩
  · intro j x t hx ht
    rw [E.insts] at hx
    obtain ⟨q, L, f', g1, g2, g3, g4, g5, g6⟩ := h.uses j x t hx ht
    obtain ⟨q', p1, p2, p3, p4⟩ := hold t q g1
    rcases p4 with e | ⟨_, e⟩
    · exact ⟨q', L, f', p1, by rw [e]; exact g2, by rw [p2]; exact g3, g4, by rw [p3]; exact g5, g6⟩
    · exact ⟨q', s.insts.size, f', p1, e, by rw [p2]; exact g3, Nat.le_of_lt (Alloc.lt_of_getElem? hx),
        by rw [p3]; exact g5, g6⟩
  · intro u hu
    have : u ∈ s.outerAccessed.toList ∨ u = v := by
      rcases E.outer with ⟨e, _⟩ | ⟨e, _⟩
      · rw [e] at hu; exact Or.inl hu
      · rw [e] at hu
        simp only [Array.toList_push, List.mem_append, List.mem_singleton] at hu
        exact hu
    rcases this with e | rfl
    · obtain ⟨q, f', g1, g2⟩ := h.oa u e
      obtain ⟨q', p1, _, p3, _⟩ := hold u q g1
      exact ⟨q', f', p1, by rw [p3]; exact g2⟩
    · exact ⟨_, f, hr', by rw [hb]; exact hf0⟩

theorem mem_swapRemove {α : Type} {a : Array α} {i : Nat} {last x : α} (hl : a.back? = some last)
    (hx : x ∈ ((a.setIfInBounds i last).pop).toList) : x ∈ a.toList := by
  have h1 : x ∈ (a.setIfInBounds i last).toList := by
    rw [Array.toList_pop] at hx
    exact List.dropLast_subset _ hx
  rw [Array.toList_setIfInBounds] at h1
  rcases List.mem_or_eq_of_mem_set h1 with e | e
  · exact e
  · subst e
    rw [Array.back?_eq_getElem?] at hl
    exact Array.mem_toList_iff.2 (Array.mem_of_getElem? hl)

theorem linv_outer (ps : Nat) : ∀ (fuel i : Nat) {s s' : St w} {u : Unit},
    outerLoop ps fuel i s = .ok (u, s') → LInv s → LInv s' := by
  intro fuel
  induction fuel with
  | zero => intro i s s' u h; simp only [outerLoop, throw_ok] at h
  | succ fuel ih =>
    intro i s s' u h hJ
    simp only [outerLoop, get_bind] at h
    split at h
    · cases ho : s.outerAccessed[i]? with
      | none => simp only [ho, throw_ok] at h
      | some var =>
        simp only [ho] at h
        cases hr : s.ranges[var]? with
        | none => simp only [hr, throw_ok] at h
        | some r =>
          simp only [hr] at h
          split at h
          · exact ih _ h hJ
          · simp only [bind_ok, modify_ok] at h
            obtain ⟨_, s2, h2, _, s3, rfl, h⟩ := h
            have hmem : var ∈ s.outerAccessed.toList :=
              Array.mem_toList_iff.2 (Array.mem_of_getElem? ho)
            have j2 := linv_extend hJ (rangeExtend_spec h2) (hJ.oa var hmem)
            refine ih _ h ?_
            cases hb : s2.outerAccessed.back? with
            | none => simp only [hb]; exact j2
            | some last =>
              simp only [hb]
              exact linv_frame j2 rfl rfl rfl rfl (fun p hp => hp) (fun v hv => mem_swapRemove hb hv)
    · simp only [pure_ok] at h
      rw [h.2]; exact hJ

theorem uses_instOf (e : GvnExpr w) (v : Nat) (t : Nat) : t ∈ BcWf.uses (instOf e v) ↔ t ∈ opsOf e := by
  cases e <;> simp [instOf, opsOf, BcWf.uses, locTmp]
theorem defs_instOf (e : GvnExpr w) (v : Nat) : BcWf.defs (instOf e v) = [v] := by
  cases e <;> rfl
theorem memDefs_instOf (e : GvnExpr w) (v : Nat) : memDefs (instOf e v) = [] := by
  cases e <;> rfl
theorem noZero_instOf (e : GvnExpr w) (v : Nat) : NoMemZero (instOf e v) := by
  cases e <;> rfl

theorem linv_getValue {e : GvnExpr w} {s s' : St w} {v : Nat} (h : LInv s)
    (hops : ∀ a ∈ opsOf e, a < s.ranges.size) (hg : getValue e s = .ok (v, s')) :
    LInv s' ∧ v < s'.ranges.size := by
  rcases getValue_spec hg with ⟨hv, rfl⟩ | ⟨rfl, N⟩
  · exact ⟨h, h.vals _ (mem_of_alGet hv)⟩
  · obtain ⟨s2, h2, rfl⟩ := N.reads
    have F := readsFacts _ h2
    have hsz2 : s2.ranges.size = s.ranges.size + 1 := by rw [F.size]; simp
    have hpush : ∀ t, t < s.ranges.size → ∀ (x : RangeInfo), (s.ranges.push x)[t]? = s.ranges[t]? :=
      fun t ht x => getElem?_push_lt' _ _ ht
    refine ⟨?_, by simp only; omega⟩
    refine linv_after h (ops := opsOf e) (inst := instOf e s.ranges.size) (nv := some s.ranges.size) hops
      (by simp only; rw [F.insts]) (by simp only; rw [F.live]) (uses_instOf e _)
      (fun t ht => by rw [defs_instOf] at ht; simp at ht; rw [ht]) (noZero_instOf e _) ?_ ?_
      (by simp only [Option.isSome_some, if_true]; exact hsz2) ?_ ?_ ?_ ?_ ?_
    · intro t ht
      obtain ⟨r, r', g1, g2, g3⟩ := F.hit t ht
      simp only at g1 g3
      rw [hpush t (hops t ht)] at g1
      exact ⟨r, r', g1, g2, g3⟩
    · intro t ht hlt
      have := F.miss t ht
      simp only at this ⊢
      rw [this, hpush t hlt]
    · intro v hv
      cases hv
      refine ⟨rfl, ?_⟩
      have hno : s.ranges.size ∉ opsOf e := fun hm => Nat.lt_irrefl _ (hops _ hm)
      have := F.miss _ hno
      simp only at this ⊢
      rw [this]
      simp
    · intro v hv; exact F.outer v hv
    · intro p hp
      simp only at hp
      rw [F.values] at hp
      rcases mem_alSet hp with rfl | hp
      · exact Or.inr (by simp only; omega)
      · exact Or.inl hp
    · intro m ws hw
      exact ⟨ws, by simp only; rw [F.writes]; exact hw, fun j hj => hj⟩
    · intro m hm
      rw [memDefs_instOf] at hm; cases hm

theorem linv_memWrite {var : Int} {x : Nat} {s s' : St w} {u : Unit} (h : LInv s) (hx : x < s.ranges.size)
    (hm : memWrite var x s = .ok (u, s')) : LInv s' := by
  obtain ⟨s1, h1, rfl⟩ := memWrite_spec hm
  have F : ReadsFacts [x] s s1 := readsFacts [x] ⟨s1, h1, rfl⟩
  refine linv_after h (ops := [x]) (inst := .copy (.mem var) (.tmp x)) (nv := none)
    (fun a ha => by simp at ha; rw [ha]; exact hx) (by simp only; rw [F.insts]) (by simp only; rw [F.live])
    (fun t => by simp [BcWf.uses, locTmp]) (fun t ht => by simp [BcWf.defs, locTmp] at ht) rfl F.hit
    (fun t ht _ => F.miss t ht) (by simp only [Option.isSome_none, Bool.false_eq_true, if_false]; exact F.size)
    (fun v hv => by cases hv) F.outer ?_ ?_ ?_
  · intro p hp
    simp only at hp
    rw [F.values] at hp
    rcases mem_alSet hp with rfl | hp
    · exact Or.inr (by simp only; rw [F.size]; exact hx)
    · exact Or.inl hp
  · intro m ws hw
    simp only
    rw [F.writes]
    exact addWrite_mono _ _ _ hw
  · intro m hm'
    simp only [memDefs, locMem, List.mem_singleton] at hm'
    subst hm'
    simp only
    rw [F.insts]
    exact addWrite_self _ _ _

theorem closed_linv : Closed (LInv (w := w)) where
  values := fun s vs h hsub => linv_frame h rfl rfl rfl rfl hsub (fun v hv => hv)
  start := fun s c h => linv_frame h rfl rfl rfl rfl (fun p hp => hp) (fun v hv => hv)
  push := fun s x h hx => linv_push h hx
  inp := fun s d h => linv_inp h d
  patch := fun s i c off h hi => linv_patch h c off hi
  outer := fun ps fuel i s s' u h ho => linv_outer ps fuel i ho h
  getValue := fun e s v s' h ho hg => linv_getValue h ho hg
  memWrite := fun var x s s' u h hx hm => linv_memWrite h hx hm

/-- The local invariant holds after `emit_block`. -/
theorem linv_of_emit {prog : Ir.Block w} {fuse : Bool} {s : St w} (h : emitState prog fuse = .ok s) : LInv s :=
  closed_emitState closed_linv h linv_init

end AEmit
end C02
end Hpbf
