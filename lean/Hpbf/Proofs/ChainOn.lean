/-
Chain, any level: canonical Brainfuck semantics vs. every backend at EVERY optimisation level
(source → `Program::parse` → `Program::optimize(level)` → IR interpreter / `translate` → bytecode interpreter /
`compileX86` → machine code).

`b` = the parser's output, `level` arbitrary (0: `optimize` is the identity; ≥ 3 behaves like 3), `orders` an
ARBITRARY oracle of hash iteration orders, `b'` the block the optimizer model returns for it
(`hopt : Opt.optimize b level orders = .ok b'`), and
    `hc : OptCheck.optimizeCheck N b level orders env = true`
the executable, proved-sound test of `Props/C01Rounds.lean` for the environment `env` (replay fuel `N`): it
re-runs the loop of `optimize` and tests, on the run from `env`, the analysis every LATER round starts from.
At levels 0 and 1 there is no later round and the test is `true` by computation (`optimizeCheck_level_le_one`),
so it is a hypothesis for levels ≥ 2 only.

Everything is an instance of the generic composition of `Proofs/ChainO1Gen.lean` (`IrAgrees`, `BcAgrees`,
`*_of_agrees`): the ingredients are `OptProof.optimize_preserves_of_check_light'` and
`OptProof.optimize_onceOk_of_check_light'` (level 0: the parser never sets `once`).
-/
import Hpbf.Proofs.ChainO1
import Hpbf.Props.C01Rounds
import Hpbf.Props.C13Opt

namespace Hpbf
namespace Chain

open Bc BcWf BcGen C11 C02

variable {w : Nat}

/-! ### levels 0 and 1 -/

/-- At level 0 `optimize` returns its argument (and consumes no oracle entry). -/
theorem optimize_zero {b b' : Ir.Block w} {orders : Opt.Orders} (h : Opt.optimize b 0 orders = .ok b') :
    b' = b ∧ orders = [] := by
  rw [OptProof.optimize_ok_iff, OptProof.optimizeM_zero] at h
  simp only [StateT.run, pure, StateT.pure, Except.pure, Except.ok.injEq, Prod.mk.injEq] at h
  exact ⟨h.1.symm, h.2⟩

theorem optimize_zero_ok (b : Ir.Block w) : Opt.optimize b 0 [] = .ok b := by
  rw [OptProof.optimize_ok_iff, OptProof.optimizeM_zero]
  rfl

/-- **The test is void at levels 0 and 1**: it is `true` by computation, for every program, oracle, fuel and
environment. -/
theorem optimizeCheck_level_le_one (N : Nat) (b : Ir.Block w) {level : Nat} (hl : level ≤ 1)
    (orders : Opt.Orders) (env : Env) : OptCheck.optimizeCheck N b level orders env = true := by
  rw [OptProof.optimizeCheck_light']
  have : level = 0 ∨ level = 1 := by omega
  rcases this with rfl | rfl
  · rfl
  · show (if (1 : Nat) = 0 then true else
      match (Opt.optimizeOnce b (Opt.topAnalysis [] [])).run orders with
      | .ok ((prog, anal), os1) => OptProof.roundsCheck N env (min 1 3 - 1) prog anal os1
      | .error _ => true) = true
    simp only [Nat.one_ne_zero, if_false]
    split <;> rfl

/-- The test in the form "only for levels ≥ 2". -/
theorem optimizeCheck_of_ge_two (N : Nat) (b : Ir.Block w) (level : Nat) (orders : Opt.Orders) (env : Env)
    (hc : 2 ≤ level → OptCheck.optimizeCheck N b level orders env = true) :
    OptCheck.optimizeCheck N b level orders env = true := by
  by_cases h : 2 ≤ level
  · exact hc h
  · exact optimizeCheck_level_le_one N b (by omega) orders env

section AnyLevel
variable (hw : 0 < w) {src : List Kind} {prog : Prog} (hp : Bf.tree src = some prog)
  {b b' : Ir.Block w} (hb : Ir.parse (w := w) src = .ok b) {level : Nat} {orders : Opt.Orders}
  (hopt : Opt.optimize b level orders = .ok b') (N : Nat) (env : Env)
  (hc : OptCheck.optimizeCheck N b level orders env = true)
include hw hb hopt hc

/-- Same observable behaviour of the parser's output and the optimizer's output. -/
theorem behEq_anylevel : OptProof.BehEq b b' env :=
  OptProof.optimize_preserves_of_check_light' hw N (OptProof.parse_canonL' hb) hopt hc

/-- The `once` marks of the optimizer's output are justified (level 0: there are none). -/
theorem onceOk_anylevel : OnceOk b' env := by
  by_cases hl : level = 0
  · subst hl
    obtain ⟨rfl, _⟩ := optimize_zero hopt
    exact parse_onceOk hb env
  · exact OptProof.optimize_onceOk_of_check_light' hw N (OptProof.parse_canonL' hb) hl hopt hc

include hp

/-- **Canonical semantics vs. the IR interpreter on the optimized block, any level.** -/
theorem irAgrees_anylevel : IrAgrees prog b' env :=
  irAgrees_of_behEq (irAgrees_level0 hw hp hb env) (behEq_anylevel hw hb hopt N env hc)

/-- **Canonical semantics vs. the bytecode machine on `translate b'`, any level.** -/
theorem bcAgrees_anylevel (numRegs : Nat) (fuse : Bool) : BcAgrees prog (translate b' numRegs fuse) env :=
  bcAgrees_of_ir (irAgrees_anylevel hw hp hb hopt N env hc) (onceOk_anylevel hw hb hopt N env hc) numRegs fuse

/-! #### the IR interpreter -/

theorem ir_anylevel :
    ((∀ f (s : State w), Bf.run f prog env = .done s →
        ∃ f' c, Ir.run b' false 0 f' env = .done c ∧ c.st.trace = s.trace) ∧
     (∀ f (s : State w), Bf.run f prog env = .stopped s →
        ∃ f' c, Ir.run b' false 0 f' env = .stopped c ∧ c.st.trace = s.trace)) ∧
    ((∀ f' (c : Ir.Cfg w), Ir.run b' false 0 f' env = .done c →
        ∃ (f : Nat) (s : State w), Bf.run f prog env = .done s ∧ s.trace = c.st.trace) ∧
     (∀ f' (c : Ir.Cfg w), Ir.run b' false 0 f' env = .stopped c →
        ∃ (f : Nat) (s : State w), Bf.run f prog env = .stopped s ∧ s.trace = c.st.trace)) ∧
    ((∀ f', ∃ f, C01.traceOf (Ir.run b' false 0 f' env) = C01.traceOfBf (Bf.run (w := w) f prog env)) ∧
     (∀ f, ∃ f', C01.traceOf (Ir.run b' false 0 f' env) = C01.traceOfBf (Bf.run (w := w) f prog env))) :=
  irAgrees_anylevel hw hp hb hopt N env hc

/-! #### the bytecode interpreter -/

theorem bytecode_anylevel (numRegs : Nat) (fuse : Bool) :
    ((∀ f (s : State w), Bf.run f prog env = .done s →
        ∃ f' c', Bc.run (translate b' numRegs fuse) false 0 f' env = .done c' ∧ c'.st.trace = s.trace) ∧
     (∀ f (s : State w), Bf.run f prog env = .stopped s →
        ∃ f' c', Bc.run (translate b' numRegs fuse) false 0 f' env = .stopped c' ∧ c'.st.trace = s.trace)) ∧
    ((∀ f' (c' : Bc.Cfg w), Bc.run (translate b' numRegs fuse) false 0 f' env = .done c' →
        ∃ (f : Nat) (s : State w), Bf.run f prog env = .done s ∧ s.trace = c'.st.trace) ∧
     (∀ f' (c' : Bc.Cfg w), Bc.run (translate b' numRegs fuse) false 0 f' env = .stopped c' →
        ∃ (f : Nat) (s : State w), Bf.run f prog env = .stopped s ∧ s.trace = c'.st.trace)) ∧
    ((∀ f', ∃ f, C07.traceOfBc (Bc.run (translate b' numRegs fuse) false 0 f' env) =
        C01.traceOfBf (Bf.run (w := w) f prog env)) ∧
     (∀ f, ∃ f', C07.traceOfBc (Bc.run (translate b' numRegs fuse) false 0 f' env) =
        C01.traceOfBf (Bf.run (w := w) f prog env))) :=
  bcAgrees_anylevel hw hp hb hopt N env hc numRegs fuse

theorem bytecode_anylevel_debug (numRegs : Nat) (fuse : Bool) :
    ((∀ f (s : State w), Bf.run f prog env = .done s →
        ∃ f' c', runDebug (translate b' numRegs fuse) false 0 f' env = .done c' ∧ c'.st.trace = s.trace) ∧
     (∀ f (s : State w), Bf.run f prog env = .stopped s →
        ∃ f' c', runDebug (translate b' numRegs fuse) false 0 f' env = .stopped c' ∧ c'.st.trace = s.trace)) ∧
    ((∀ f' (c' : Bc.Cfg w), runDebug (translate b' numRegs fuse) false 0 f' env = .done c' →
        ∃ (f : Nat) (s : State w), Bf.run f prog env = .done s ∧ s.trace = c'.st.trace) ∧
     (∀ f' (c' : Bc.Cfg w), runDebug (translate b' numRegs fuse) false 0 f' env = .stopped c' →
        ∃ (f : Nat) (s : State w), Bf.run f prog env = .stopped s ∧ s.trace = c'.st.trace)) ∧
    ((∀ f', ∃ f, C07.traceOfBc (runDebug (translate b' numRegs fuse) false 0 f' env) =
        C01.traceOfBf (Bf.run (w := w) f prog env)) ∧
     (∀ f, ∃ f', C07.traceOfBc (runDebug (translate b' numRegs fuse) false 0 f' env) =
        C01.traceOfBf (Bf.run (w := w) f prog env))) :=
  bcAgrees_debug (bcAgrees_anylevel hw hp hb hopt N env hc numRegs fuse)

/-! #### C05 / C07 / C08 -/

theorem bc_never_returns_anylevel (numRegs : Nat) (fuse : Bool) (hdiv : C05.BfDiverges w prog env) :
    (∀ (f' : Nat) (c : Bc.Cfg w),
      Bc.run (translate b' numRegs fuse) false 0 f' env ≠ .done c ∧
      Bc.run (translate b' numRegs fuse) false 0 f' env ≠ .stopped c) ∧
    (∀ (bd f' : Nat) (c : Bc.Cfg w),
      Bc.run (translate b' numRegs fuse) true bd f' env ≠ .done c ∧
      Bc.run (translate b' numRegs fuse) true bd f' env ≠ .stopped c) :=
  bc_never_returns_of_agrees (bcAgrees_anylevel hw hp hb hopt N env hc numRegs fuse) hdiv

theorem bc_runs_forever_anylevel (numRegs : Nat) (fuse : Bool) (hdiv : C05.BfDiverges w prog env) :
    ∀ f', ∃ c : Bc.Cfg w, Bc.run (translate b' numRegs fuse) false 0 f' env = .outOfFuel c :=
  bc_runs_forever_of_agrees (bcAgrees_anylevel hw hp hb hopt N env hc numRegs fuse) hdiv
    (translate_never_bad_unconditional b' numRegs fuse env).1

theorem bc_limited_interrupted_anylevel (numRegs : Nat) (fuse : Bool) (hdiv : C05.BfDiverges w prog env) :
    ∀ bd, ∃ f' c, Bc.run (translate b' numRegs fuse) true bd f' env = .interrupted c :=
  bc_limited_interrupted_of_agrees (bcAgrees_anylevel hw hp hb hopt N env hc numRegs fuse) hdiv
    (translate_never_bad_unconditional b' numRegs fuse env).1

theorem bc_divergent_output_anylevel (numRegs : Nat) (fuse : Bool) (hdiv : C05.BfDiverges w prog env) :
    (∀ f, ∃ f' c c', Bf.run (w := w) f prog env = .outOfFuel c ∧
      Bc.run (translate b' numRegs fuse) false 0 f' env = .outOfFuel c' ∧ c'.st.trace = c.st.trace) ∧
    (∀ f', ∃ f c c', Bc.run (translate b' numRegs fuse) false 0 f' env = .outOfFuel c' ∧
      Bf.run (w := w) f prog env = .outOfFuel c ∧ c'.st.trace = c.st.trace) :=
  bc_divergent_output_of_agrees (bcAgrees_anylevel hw hp hb hopt N env hc numRegs fuse) hdiv
    (translate_never_bad_unconditional b' numRegs fuse env).1

theorem bc_limited_finished_anylevel (numRegs : Nat) (fuse : Bool) :
    (∀ (bd f' : Nat) (c : Bc.Cfg w), Bc.run (translate b' numRegs fuse) true bd f' env = .done c →
      ∃ (f : Nat) (s : State w), Bf.run f prog env = .done s ∧ s.trace = c.st.trace) ∧
    (∀ (bd f' : Nat) (c : Bc.Cfg w), Bc.run (translate b' numRegs fuse) true bd f' env = .stopped c →
      ∃ (f : Nat) (s : State w), Bf.run f prog env = .stopped s ∧ s.trace = c.st.trace) :=
  bc_limited_finished_of_agrees (bcAgrees_anylevel hw hp hb hopt N env hc numRegs fuse)

theorem bc_limited_prefix_anylevel (numRegs : Nat) (fuse : Bool) :
    ∀ bd f', ∃ f, ∀ g, f ≤ g →
      C07.traceOfBc (Bc.run (translate b' numRegs fuse) true bd f' env) <:+
        C01.traceOfBf (Bf.run (w := w) g prog env) :=
  bc_limited_is_prefix_of_agrees (bcAgrees_anylevel hw hp hb hopt N env hc numRegs fuse)

theorem bc_limited_enough_anylevel (numRegs : Nat) (fuse : Bool) :
    (∀ (f : Nat) (s : State w), Bf.run f prog env = .done s →
      ∃ g, ∀ bd, g ≤ bd →
        ∃ f' c, Bc.run (translate b' numRegs fuse) true bd f' env = .done c ∧ c.st.trace = s.trace) ∧
    (∀ (f : Nat) (s : State w), Bf.run f prog env = .stopped s →
      ∃ g, ∀ bd, g ≤ bd →
        ∃ f' c, Bc.run (translate b' numRegs fuse) true bd f' env = .stopped c ∧ c.st.trace = s.trace) :=
  bc_limited_enough_of_agrees (bcAgrees_anylevel hw hp hb hopt N env hc numRegs fuse)

theorem bc_stops_like_canonical_anylevel (numRegs : Nat) (fuse : Bool) :
    ∀ (f : Nat) (s : State w), Bf.run f prog env = .stopped s →
      ∃ f' c, (∀ k, Bc.run (translate b' numRegs fuse) false 0 (f' + k) env = .stopped c) ∧
        c.st.trace = s.trace :=
  bc_stops_like_canonical_of_agrees (bcAgrees_anylevel hw hp hb hopt N env hc numRegs fuse)

theorem bc_stops_only_like_canonical_anylevel (numRegs : Nat) (fuse : Bool) :
    ∀ (l : Bool) (bd f' : Nat) (c : Bc.Cfg w), Bc.run (translate b' numRegs fuse) l bd f' env = .stopped c →
      (l = false → bd = 0) →
      ∃ (f : Nat) (s : State w), Bf.run f prog env = .stopped s ∧ s.trace = c.st.trace :=
  bc_stops_only_like_canonical_of_agrees (bcAgrees_anylevel hw hp hb hopt N env hc numRegs fuse)

/-! #### the JIT -/

section Jit
open Asm JitGen X86Sem X86Prog C03
variable {sz : Size} {safe : Bool} {cfg : X86Prog.Cfg} {buf0 rsp0 ra : BitVec 64}

theorem jit_anylevel_forward (R : JitRange sz (translate b' 11 false) false safe cfg buf0 rsp0 ra 0 env) :
    let p := translate b' 11 false
    let s0 : PState w := initState cfg buf0 rsp0 ra p.minAcc p.maxAcc 0 env
    (∀ f (s : State w), Bf.run f prog env = .done s →
      ∃ n s', X86Prog.run cfg n s0 = .ret s' ∧ s'.regs.rax = 1 ∧ s'.trace = s.trace) ∧
    (∀ f (s : State w), Bf.run f prog env = .stopped s →
      ∃ n s', X86Prog.run cfg n s0 = .ret s' ∧ s'.regs.rax = 0 ∧ s'.trace = s.trace) :=
  jit_forward_of_agrees (bcAgrees_anylevel hw hp hb hopt N env hc 11 false)
    (jitHyps_of_range (translate_ok b' 11 false) R)

theorem jit_anylevel_unique (R : JitRange sz (translate b' 11 false) false safe cfg buf0 rsp0 ra 0 env) :
    let p := translate b' 11 false
    let s0 : PState w := initState cfg buf0 rsp0 ra p.minAcc p.maxAcc 0 env
    (∀ f (s : State w), Bf.run f prog env = .done s →
      ∀ n s', X86Prog.run cfg n s0 = .ret s' → s'.regs.rax = 1 ∧ s'.trace = s.trace) ∧
    (∀ f (s : State w), Bf.run f prog env = .stopped s →
      ∀ n s', X86Prog.run cfg n s0 = .ret s' → s'.regs.rax = 0 ∧ s'.trace = s.trace) :=
  jit_unique_of_agrees (bcAgrees_anylevel hw hp hb hopt N env hc 11 false)
    (jitHyps_of_range (translate_ok b' 11 false) R)

theorem jit_anylevel_prefix (R : JitRange sz (translate b' 11 false) false safe cfg buf0 rsp0 ra 0 env) :
    let p := translate b' 11 false
    let s0 : PState w := initState cfg buf0 rsp0 ra p.minAcc p.maxAcc 0 env
    ∀ f, ∃ n s', (steps cfg n s0 = some s' ∨ X86Prog.run cfg n s0 = .ret s') ∧
      s'.trace = C01.traceOfBf (Bf.run (w := w) f prog env) :=
  jit_prefix_of_agrees (bcAgrees_anylevel hw hp hb hopt N env hc 11 false)
    (jitHyps_of_range (translate_ok b' 11 false) R)

theorem jit_anylevel_divergent (R : JitRange sz (translate b' 11 false) false safe cfg buf0 rsp0 ra 0 env)
    (hdiv : C05.BfDiverges w prog env) :
    let p := translate b' 11 false
    let s0 : PState w := initState cfg buf0 rsp0 ra p.minAcc p.maxAcc 0 env
    ∀ f, ∃ n s', steps cfg n s0 = some s' ∧ s'.trace = C01.traceOfBf (Bf.run (w := w) f prog env) :=
  jit_divergent_of_agrees (bcAgrees_anylevel hw hp hb hopt N env hc 11 false)
    (jitHyps_of_range (translate_ok b' 11 false) R) hdiv

theorem jit_anylevel_limited {bd : Nat}
    (R : JitRange sz (translate b' 11 false) true safe cfg buf0 rsp0 ra bd env) :
    let p := translate b' 11 false
    let s0 : PState w := initState cfg buf0 rsp0 ra p.minAcc p.maxAcc bd env
    ∃ n s', X86Prog.run cfg n s0 = .ret s' ∧
      (∀ n2 s2, X86Prog.run cfg n2 s0 = .ret s2 → s2 = s') ∧
      (s'.regs.rax = 1 ∨ s'.regs.rax = 0) ∧
      (s'.regs.rax = 1 → ∃ (f : Nat) (s : State w), Bf.run f prog env = .done s ∧ s.trace = s'.trace) ∧
      (∃ f, ∀ g, f ≤ g → s'.trace <:+ C01.traceOfBf (Bf.run (w := w) g prog env)) :=
  jit_limited_of_agrees (bcAgrees_anylevel hw hp hb hopt N env hc 11 false)
    (jitHyps_of_range (translate_ok b' 11 false) R)

theorem jit_anylevel_limited_enough :
    let p := translate b' 11 false
    (∀ f (s : State w), Bf.run f prog env = .done s → ∃ g, ∀ bd, g ≤ bd →
      JitRange sz p true safe cfg buf0 rsp0 ra bd env →
      ∃ n s', X86Prog.run cfg n (initState (w := w) cfg buf0 rsp0 ra p.minAcc p.maxAcc bd env) = .ret s' ∧
        s'.regs.rax = 1 ∧ s'.trace = s.trace) ∧
    (∀ f (s : State w), Bf.run f prog env = .stopped s → ∃ g, ∀ bd, g ≤ bd →
      JitRange sz p true safe cfg buf0 rsp0 ra bd env →
      ∃ n s', X86Prog.run cfg n (initState (w := w) cfg buf0 rsp0 ra p.minAcc p.maxAcc bd env) = .ret s' ∧
        s'.regs.rax = 0 ∧ s'.trace = s.trace) := by
  intro p
  have ht := translate_ok b' 11 false
  have E := bc_limited_enough_of_agrees (bcAgrees_anylevel hw hp hb hopt N env hc 11 false)
  constructor
  · intro f s hs
    obtain ⟨g, hg⟩ := E.1 f s hs
    refine ⟨g, fun bd hgb R => ?_⟩
    obtain ⟨f', c', hc', htr⟩ := hg bd hgb
    have := jit_of_bc (jitHyps_of_range ht R) f'
    simp only [hc'] at this
    obtain ⟨n, s', h1, h2, h3, _⟩ := this
    exact ⟨n, s', h1, h2, h3.trans htr⟩
  · intro f s hs
    obtain ⟨g, hg⟩ := E.2 f s hs
    refine ⟨g, fun bd hgb R => ?_⟩
    obtain ⟨f', c', hc', htr⟩ := hg bd hgb
    have := jit_of_bc (jitHyps_of_range ht R) f'
    simp only [hc'] at this
    obtain ⟨n, s', h1, h2, h3, _⟩ := this
    exact ⟨n, s', h1, h2, h3.trans htr⟩

end Jit

end AnyLevel

/-- Never "malformed bytecode" (every mode, budget, fuel), never interrupted in unlimited mode: this holds for the
translation of EVERY block, hence at every level, without any hypothesis. -/
theorem bytecode_anylevel_proper (b' : Ir.Block w) (numRegs : Nat) (fuse : Bool) (env : Env) :
    (∀ (l : Bool) (bd f' : Nat) (c' : Bc.Cfg w), Bc.run (translate b' numRegs fuse) l bd f' env ≠ .bad c') ∧
    (∀ (f' : Nat) (c' : Bc.Cfg w), Bc.run (translate b' numRegs fuse) false 0 f' env ≠ .interrupted c') :=
  translate_never_bad_unconditional b' numRegs fuse env

/-! ### all backends -/

/-- The conclusion of the headline theorems: with `canon f` the result of the canonical run with fuel `f`
(`some (true, events)`: ran off the end; `some (false, events)`: stopped at a failing I/O operation; `none`:
still running), the in-place interpreter on the text, the IR interpreter on `b'`, and the bytecode interpreter
on `translate b' numRegs fuse` in both dispatch modes have exactly the canonical finished results; the machine
code for `translate b' 11 false` returns the canonical result whenever there is one (unlimited mode), and in
limited mode returns, with "finished" only for the canonical result and always an initial part of the canonical
events – both under `JitRange`. -/
def AllBackends (code : Array Kind) (prog : Prog) (b' : Ir.Block w) (numRegs : Nat) (fuse : Bool) (env : Env) :
    Prop :=
  let canon : Nat → Fin := fun f => finBf (Bf.run (w := w) f prog env)
  let p : Bc.Program w := translate b' numRegs fuse
  let pj : Bc.Program w := translate b' 11 false
  SameResults canon (fun f => finInplace (Inplace.run (w := w) code false 0 f env)) ∧
  SameResults canon (fun f => finIr (Ir.run b' false 0 f env)) ∧
  SameResults canon (fun f => finBc (Bc.run p false 0 f env)) ∧
  SameResults canon (fun f => finBc (C02.runDebug p false 0 f env)) ∧
  (∀ (sz : Asm.Size) (safe : Bool) (cfg : X86Prog.Cfg) (buf0 rsp0 ra : BitVec 64),
    JitRange sz pj false safe cfg buf0 rsp0 ra 0 env →
    ∀ r, (∃ f, canon f = some r) →
      ∃ n, finX86 (X86Prog.run cfg n (X86Prog.initState (w := w) cfg buf0 rsp0 ra pj.minAcc pj.maxAcc 0 env))
        = some r) ∧
  (∀ (sz : Asm.Size) (safe : Bool) (cfg : X86Prog.Cfg) (buf0 rsp0 ra : BitVec 64) (bd : Nat),
    JitRange sz pj true safe cfg buf0 rsp0 ra bd env →
    ∃ n r, finX86 (X86Prog.run cfg n (X86Prog.initState (w := w) cfg buf0 rsp0 ra pj.minAcc pj.maxAcc bd env))
        = some r ∧
      (r.1 = true → ∃ f, canon f = some r) ∧
      ∃ f, ∀ g, f ≤ g → r.2 <:+ C01.traceOfBf (Bf.run (w := w) g prog env))

/-- All backends from agreement of the IR block with the canonical semantics and justified `once` marks. -/
theorem allBackends_of_agrees {code : Array Kind} {prog : Prog} (hp : Bf.tree code.toList = some prog)
    {b' : Ir.Block w} {env : Env} (I : IrAgrees prog b' env) (ho : OnceOk b' env) (numRegs : Nat)
    (fuse : Bool) : AllBackends code prog b' numRegs fuse env := by
  have A := bcAgrees_of_ir I ho numRegs fuse
  have Aj := bcAgrees_of_ir I ho 11 false
  refine ⟨same_inplace code hp env 0, same_ir_of_agrees I, same_bc_of_agrees A, ?_, ?_, ?_⟩
  · show SameResults _ (fun f => finBc (C02.runDebug (translate b' numRegs fuse) false 0 f env))
    simp only [C02.runDebug_eq_run]
    exact same_bc_of_agrees A
  · intro sz safe cfg buf0 rsp0 ra R r hr
    exact jit_forward_fin_of_agrees Aj (jitHyps_of_range (translate_ok b' 11 false) R) r hr
  · intro sz safe cfg buf0 rsp0 ra bd R
    exact jit_limited_fin_of_agrees Aj (jitHyps_of_range (translate_ok b' 11 false) R)

/-- **Every level, all backends.**

ASSUMED
* `code` is a balanced Brainfuck text with bracket tree `prog` (`hp`), the cell width is `w ≥ 1` (`hw`);
* `level` is any optimisation level and `orders` ANY oracle of hash iteration orders for which the optimizer
  model returns a block: `hopt : Opt.optimize (parse code) level orders = .ok b'`
  (a fitting oracle always exists and the optimizer never panics: `anylevel_exists`, `C13Opt`);
* for levels ≥ 2 only: the executable test `OptCheck.optimizeCheck N (parse code) level orders env = true` for
  THIS environment `env` and some replay fuel `N` (`hc`).  It checks, on the run from `env`, that the analysis
  each later optimizer round starts from is sound; it is proved sound (`Props/C01Rounds.lean`), can be run
  outside the kernel, and is `true` by computation at levels 0 and 1 (`optimizeCheck_level_le_one`);
* for the two machine-code conjuncts: the range conditions `JitRange` (operand displacements, frame size and
  `mov` shifts inside `i32`, code < 2^31 bytes, distinct runtime addresses, `rsp ≡ 8 mod 16`, budget a `u64`, no
  allocation beyond 2^40 cells for bounds-checked code).

CONCLUDED (`AllBackends`), with `canon f` = the result of the canonical run with fuel `f`:
1. the in-place interpreter on the text,
2. the IR interpreter on the optimized block `b'`,
3. the bytecode interpreter (release dispatch) on `translate b' numRegs fuse`, any register count, fusion on/off,
4. the bytecode interpreter (debug dispatch) on the same program,
   each terminate exactly when the canonical run does, with the same kind of ending (ran off the end / stopped at
   a failing I/O operation) and the same events;
5. the machine code the baseline JIT generates for `translate b' 11 false`, unlimited mode: whenever the
   canonical run terminates, the function returns with that ending and those events;
6. limited mode, any budget: the function returns; "finished" (`rax = 1`) only with the complete canonical event
   sequence of a run that ran off the end; in every case its events are an initial part of the canonical events.
Only events and the kind of ending are compared (the optimizer does not preserve the final tape / pointer). -/
theorem anylevel_all_backends (hw : 0 < w) (code : Array Kind) (prog : Prog)
    (hp : Bf.tree code.toList = some prog) (level : Nat) (orders : Opt.Orders) (b' : Ir.Block w)
    (hopt : Opt.optimize (irOf w code.toList) level orders = .ok b') (N : Nat) (env : Env)
    (hc : 2 ≤ level → OptCheck.optimizeCheck N (irOf w code.toList) level orders env = true)
    (numRegs : Nat) (fuse : Bool) : AllBackends code prog b' numRegs fuse env := by
  have hb := parse_irOf (w := w) hp
  have hc' := optimizeCheck_of_ge_two N _ level orders env hc
  exact allBackends_of_agrees hp (irAgrees_anylevel hw hp hb hopt N env hc')
    (onceOk_anylevel hw hb hopt N env hc') numRegs fuse

/-- **A fitting oracle exists.**  For every balanced source and every level there is an oracle for which the
optimizer model succeeds (and for NO oracle does it panic: an error is always an oracle mismatch); for that
oracle, in every environment in which the test passes (levels ≥ 2), all backends agree with the canonical
semantics. -/
theorem anylevel_exists (hw : 0 < w) (code : Array Kind) (prog : Prog) (hp : Bf.tree code.toList = some prog)
    (level : Nat) :
    (∀ orders e, Opt.optimize (irOf w code.toList) level orders = .error e →
      OptTotal.isOracleError e = true) ∧
    ∃ orders b', Opt.optimize (irOf w code.toList) level orders = .ok b' ∧
      ∀ (N : Nat) (env : Env),
        (2 ≤ level → OptCheck.optimizeCheck N (irOf w code.toList) level orders env = true) →
        ∀ (numRegs : Nat) (fuse : Bool), AllBackends code prog b' numRegs fuse env := by
  have hb := parse_irOf (w := w) hp
  have hcl := OptProof.parse_canonL' hb
  refine ⟨fun orders e he => OptTotal.optimize_no_panic' _ level orders hcl e he, ?_⟩
  obtain ⟨orders, b', hopt⟩ := OptTotal.optimize_total' (irOf w code.toList) level hcl
  exact ⟨orders, b', hopt, fun N env hc numRegs fuse =>
    anylevel_all_backends hw code prog hp level orders b' hopt N env hc numRegs fuse⟩

/-- Levels 0 and 1 need no test at all. -/
theorem level_le_one_all_backends (hw : 0 < w) (code : Array Kind) (prog : Prog)
    (hp : Bf.tree code.toList = some prog) (level : Nat) (hl : level ≤ 1) (orders : Opt.Orders)
    (b' : Ir.Block w) (hopt : Opt.optimize (irOf w code.toList) level orders = .ok b') (env : Env)
    (numRegs : Nat) (fuse : Bool) : AllBackends code prog b' numRegs fuse env :=
  anylevel_all_backends hw code prog hp level orders b' hopt 0 env (fun h => by omega) numRegs fuse

end Chain
end Hpbf
