/-
Rebuild-round proofs, stage 3: the bridge between real executions of a balanced loop and the abstract loop model
of the loop-motion pack (`Hpbf.OptLoop.run body P m0`), part 1: definitions.

* `BalChild`: what is known about the (non-moving, balanced) child block.
* `MCtx`, `RoundR`, `RoundT`, `absBody`: the abstract body function `Nat → Mem → Mem`.  In round `k` it maps the
  memory at the `k`-th real head to the memory after the child's code (`RoundR`), does the same for the `k`-th head
  of the transformed loop (`RoundT`), and is the identity on unwritten cells elsewhere.
* `run_real`: the memories at the real heads are `run absBody pending m0`.
-/
import Hpbf.Proofs.OptRbMotionChild

namespace Hpbf
namespace OptProof
open Opt OptSem Ir

variable {w : Nat}

/-- What is known about a balanced, non-moving child block (`sub0` = its fresh state, `sub` = its final state with
parent chain `s :: ps`; its emitted code is `sub.insts`). -/
structure BalChild (Gc : State w → Prop) (shP shC shS cS : Int) (bodyS : List (Instr w))
    (s : Rebuild w) (ps : List (Rebuild w)) (sub0 sub : Rebuild w) : Prop where
  all : StepAll Gc shP shC (s :: ps) sub0 sub bodyS sub.insts
  w0 : sub0.written = []
  p0 : sub0.pending = []
  ns : sub.subShift = false
  sh : shC + shS = shP
  entry : ∀ σE σS : State w, SameMem shP σS σE → σS.rd cS ≠ 0#w → Gc σS →
    ∃ M0, RelAt shP sub0 (s :: ps) M0 σE σS

section Bal
variable {Gc : State w → Prop} {shP shC shS cS : Int} {bodyS : List (Instr w)}
  {s : Rebuild w} {ps : List (Rebuild w)} {sub0 sub : Rebuild w}

/-- The head state, in the coordinates of the parent state, is valid for the child; its entry memory is the
memory of the head. -/
theorem BalChild.valid (hc : BalChild Gc shP shC shS cS bodyS s ps sub0 sub) {σk : State w} (hg : Gc σk)
    (hne : σk.rd cS ≠ 0#w) :
    RelAt shP sub0 (s :: ps) (memE (σk.mov (-shP))) (σk.mov (-shP)) σk := by
  obtain ⟨M0c, hre⟩ := hc.entry _ _ (sameMem_movNeg shP σk) hne hg
  have : M0c = memE (σk.mov (-shP)) := by
    funext v
    have := hre.inv.writ v
    rw [hc.w0] at this
    exact this.symm
  rw [← this]; exact hre

/-- One round: the source body against the child's code started in the head state (parent coordinates). -/
theorem BalChild.rep (hc : BalChild Gc shP shC shS cS bodyS s ps sub0 sub) {σk : State w} (hg : Gc σk)
    (hne : σk.rd cS ≠ 0#w) :
    Sim (fun a y => RelAt shC sub (s :: ps) (memE (σk.mov (-shP))) y a ∧ y.ptr = (σk.mov (-shP)).ptr)
      bodyS sub.insts σk (σk.mov (-shP)) ∧ ¬ Bad sub.insts (σk.mov (-shP)) := by
  obtain ⟨hs, hb⟩ := hc.all.step.2 _ _ _ (hc.valid hg hne) hg
  refine ⟨hs.mono ?_, hb⟩
  rintro a y ⟨M0', hr', hk'⟩
  obtain ⟨k1, k2⟩ := hk' hc.ns
  rw [← k1]
  exact ⟨hr', k2⟩

/-- The next head, in parent coordinates, after a completed round. -/
theorem BalChild.next (hc : BalChild Gc shP shC shS cS bodyS s ps sub0 sub) {σk a y : State w}
    (hr : RelAt shC sub (s :: ps) (memE (σk.mov (-shP))) y a) (hy : y.ptr = (σk.mov (-shP)).ptr) :
    ((a.mov shS).mov (-shP)).ptr = (σk.mov (-shP)).ptr ∧ (a.mov shS).trace = y.trace ∧
    (a.mov shS).env = y.env ∧ (a.mov shS).ptr = σk.ptr ∧
    memE ((a.mov shS).mov (-shP)) = Mem.par sub.pending (memE y) := by
  have hsh := hc.sh
  have hp := hr.ptr
  have hy' : y.ptr = σk.ptr + -shP := hy
  refine ⟨?_, hr.tr, hr.env, ?_, ?_⟩
  · show a.ptr + shS + -shP = σk.ptr + -shP
    omega
  · show a.ptr + shS = σk.ptr
    omega
  · rw [← hr.inv.pend]
    funext v
    show a.tape.get (a.ptr + shS + -shP + v) = a.tape.get (y.ptr + v)
    congr 1; omega

end Bal

/-! ### the abstract body -/

/-- The data the abstract body is built from. -/
structure MCtx (w : Nat) where
  cS : Int
  shS : Int
  shP : Int
  bodyS : List (Instr w)
  σS : State w
  sub : Rebuild w
  D : List (Int × Expr w)
  τ0 : State w

namespace MCtx

/-- The body of the transformed loop. -/
def body₂ (c : MCtx w) : List (Instr w) := c.sub.insts ++ [.calc c.D]

def cond (c : MCtx w) : Int := c.cS + c.shP

/-- Round `k` of the real loop: its head `σk`, and the end `y` of the child's code started there (in the
coordinates of the parent state). -/
def RoundR (c : MCtx w) (k : Nat) (σk y : State w) : Prop :=
  Head c.cS c.shS c.bodyS c.σS k σk ∧ Exec c.sub.insts (σk.mov (-c.shP)) (.fin y)

/-- Round `k` of the transformed loop, for a memory `m'`: its head `τ` has memory `m'`, runs in the same
environment as the real head `σk` and agrees with it on what the child reads; `z` is the end of the child's code. -/
def RoundT (c : MCtx w) (k : Nat) (σk : State w) (m' : Mem w) (τ z : State w) : Prop :=
  Head c.cond 0 c.body₂ c.τ0 k τ ∧ Exec c.sub.insts τ (.fin z) ∧ m' = memE τ ∧
  τ.ptr = (σk.mov (-c.shP)).ptr ∧ τ.env = σk.env ∧ τ.trace = σk.trace ∧
  ∀ r ∈ c.sub.reads, memE τ r = memE (σk.mov (-c.shP)) r

theorem RoundR.det {c : MCtx w} {k : Nat} {σk y σk' y' : State w} (h : c.RoundR k σk y)
    (h' : c.RoundR k σk' y') : σk = σk' ∧ y = y' := by
  have e := head_det h.1 h'.1
  subst e
  exact ⟨rfl, exec_fin_det h.2 h'.2⟩

theorem RoundT.det {c : MCtx w} {k : Nat} {σk : State w} {m' m'' : Mem w} {τ z τ' z' : State w}
    (h : c.RoundT k σk m' τ z) (h' : c.RoundT k σk m'' τ' z') : τ = τ' ∧ z = z' := by
  have e := head_det h.1 h'.1
  subst e
  exact ⟨rfl, exec_fin_det h.2.1 h'.2.1⟩

open Classical in
/-- The abstract body function of the loop-motion pack, for this loop. -/
noncomputable def absBody (c : MCtx w) (k : Nat) (m' : Mem w) : Mem w :=
  if h : ∃ p : State w × State w, c.RoundR k p.1 p.2 then
    if m' = memE ((Classical.choose h).1.mov (-c.shP)) then memE (Classical.choose h).2
    else if h2 : ∃ q : State w × State w, c.RoundT k (Classical.choose h).1 m' q.1 q.2 then
      memE (Classical.choose h2).2
    else fun v => if mGet c.sub.written v = none then m' v else memE (Classical.choose h).2 v
  else m'

theorem absBody_real {c : MCtx w} {k : Nat} {σk y : State w} (h : c.RoundR k σk y) :
    c.absBody k (memE (σk.mov (-c.shP))) = memE y := by
  have hex : ∃ p : State w × State w, c.RoundR k p.1 p.2 := ⟨(σk, y), h⟩
  obtain ⟨e1, e2⟩ := (Classical.choose_spec hex).det h
  unfold absBody
  rw [dif_pos hex, e1, e2, if_pos rfl]

theorem absBody_T {c : MCtx w} {k : Nat} {σk y τ z : State w} {m' : Mem w} (h : c.RoundR k σk y)
    (hT : c.RoundT k σk m' τ z) (hne : m' ≠ memE (σk.mov (-c.shP))) : c.absBody k m' = memE z := by
  have hex : ∃ p : State w × State w, c.RoundR k p.1 p.2 := ⟨(σk, y), h⟩
  obtain ⟨e1, e2⟩ := (Classical.choose_spec hex).det h
  unfold absBody
  rw [dif_pos hex, e1, if_neg hne]
  have hex2 : ∃ q : State w × State w, c.RoundT k σk m' q.1 q.2 := ⟨(τ, z), hT⟩
  rw [dif_pos hex2]
  rw [((Classical.choose_spec hex2).det hT).2]

theorem absBody_other {c : MCtx w} {k : Nat} {σk y : State w} {m' : Mem w} (h : c.RoundR k σk y)
    (hne : m' ≠ memE (σk.mov (-c.shP))) (hno : ¬ ∃ q : State w × State w, c.RoundT k σk m' q.1 q.2) :
    c.absBody k m' = fun v => if mGet c.sub.written v = none then m' v else memE y v := by
  have hex : ∃ p : State w × State w, c.RoundR k p.1 p.2 := ⟨(σk, y), h⟩
  obtain ⟨e1, e2⟩ := (Classical.choose_spec hex).det h
  unfold absBody
  rw [dif_pos hex, e1, e2, if_neg hne, dif_neg hno]

end MCtx

/-! ### the real heads are the abstract run -/

section Run
variable {Gc : State w → Prop} {shP shC shS cS : Int} {bodyS : List (Instr w)}
  {s : Rebuild w} {ps : List (Rebuild w)} {sub0 sub : Rebuild w} {σS : State w}
  (D : List (Int × Expr w)) (τ0 : State w)

/-- A completed real round, with everything the child state says about it. -/
theorem BalChild.roundR (hc : BalChild Gc shP shC shS cS bodyS s ps sub0 sub)
    (hGcH : ∀ k σk, Head cS shS bodyS σS k σk → σk.rd cS ≠ 0#w → Gc σk)
    {k : Nat} {σk a : State w} (hh : Head cS shS bodyS σS k σk) (hne : σk.rd cS ≠ 0#w)
    (hex : Exec bodyS σk (.fin a)) :
    ∃ y, (MCtx.mk cS shS shP bodyS σS sub D τ0).RoundR k σk y ∧
      RelAt shC sub (s :: ps) (memE (σk.mov (-shP))) y a ∧ y.ptr = (σk.mov (-shP)).ptr := by
  obtain ⟨hs, _⟩ := hc.rep (hGcH k σk hh hne) hne
  obtain ⟨y, hy, hr', hyp⟩ := hs.finL a hex
  exact ⟨y, ⟨hh, hy⟩, hr', hyp⟩

/-- The memory at the `k`-th real head is the `k`-th memory of the abstract run. -/
theorem run_real (hc : BalChild Gc shP shC shS cS bodyS s ps sub0 sub)
    (hGcH : ∀ k σk, Head cS shS bodyS σS k σk → σk.rd cS ≠ 0#w → Gc σk)
    {k : Nat} {σk : State w} (hh : Head cS shS bodyS σS k σk) :
    memE (σk.mov (-shP)) = OptLoop.run (MCtx.mk cS shS shP bodyS σS sub D τ0).absBody sub.pending
      (memE (σS.mov (-shP))) k ∧ σk.ptr = σS.ptr ∧ (σk.mov (-shP)).ptr = (σS.mov (-shP)).ptr := by
  induction hh with
  | zero => exact ⟨rfl, rfl, rfl⟩
  | @succ k' σk' σ' hprev hne hex ih =>
    obtain ⟨ih1, ih2, ih3⟩ := ih
    obtain ⟨y, hR, hr', hyp⟩ := hc.roundR D τ0 hGcH hprev hne hex
    obtain ⟨n1, _, _, n4, n5⟩ := hc.next hr' hyp
    refine ⟨?_, n4.trans ih2, n1.trans ih3⟩
    rw [n5, OptLoop.run_succ]
    show _ = Mem.par sub.pending ((MCtx.mk cS shS shP bodyS σS sub D τ0).absBody k'
      (OptLoop.run (MCtx.mk cS shS shP bodyS σS sub D τ0).absBody sub.pending (memE (σS.mov (-shP))) k'))
    rw [← ih1, MCtx.absBody_real hR]

/-- The hypotheses of the loop-motion pack about the rounds below a real head `N`. -/
theorem motion_hyps (hc : BalChild Gc shP shC shS cS bodyS s ps sub0 sub) (hcs : CanonSt sub)
    (hGcH : ∀ k σk, Head cS shS bodyS σS k σk → σk.rd cS ≠ 0#w → Gc σk)
    {N : Nat} {σN : State w} (hN : Head cS shS bodyS σS N σN) :
    OptLoop.BodyFactsH sub (MCtx.mk cS shS shP bodyS σS sub D τ0).absBody
      (OptLoop.run (MCtx.mk cS shS shP bodyS σS sub D τ0).absBody sub.pending (memE (σS.mov (-shP)))) N ∧
    OptLoop.GetBothFactsH s ps sub
      (OptLoop.run (MCtx.mk cS shS shP bodyS σS sub D τ0).absBody sub.pending (memE (σS.mov (-shP)))) N ∧
    (∀ k, k < N → ∀ (m' : Mem w) (Z : Int → Prop),
      (∀ v, ¬ Z v → m' v = OptLoop.run (MCtx.mk cS shS shP bodyS σS sub D τ0).absBody sub.pending
        (memE (σS.mov (-shP))) k v) →
      ∀ v, ¬ Z v → (MCtx.mk cS shS shP bodyS σS sub D τ0).absBody k m' v =
        (MCtx.mk cS shS shP bodyS σS sub D τ0).absBody k
          (OptLoop.run (MCtx.mk cS shS shP bodyS σS sub D τ0).absBody sub.pending (memE (σS.mov (-shP))) k) v) ∧
    (∀ k, k < N → ∀ (m' : Mem w) v, mGet sub.written v = none →
      (MCtx.mk cS shS shP bodyS σS sub D τ0).absBody k m' v = m' v) := by
  -- the data of round `k < N`
  have hround : ∀ k, k < N → ∃ σk a y, Head cS shS bodyS σS k σk ∧ σk.rd cS ≠ 0#w ∧
      (MCtx.mk cS shS shP bodyS σS sub D τ0).RoundR k σk y ∧
      RelAt shC sub (s :: ps) (memE (σk.mov (-shP))) y a ∧ y.ptr = (σk.mov (-shP)).ptr ∧
      memE (σk.mov (-shP)) = OptLoop.run (MCtx.mk cS shS shP bodyS σS sub D τ0).absBody sub.pending
        (memE (σS.mov (-shP))) k := by
    intro k hk
    obtain ⟨σk, a, hh, hne, hex, _⟩ := head_prefix hN k hk
    obtain ⟨y, hR, hr', hyp⟩ := hc.roundR D τ0 hGcH hh hne hex
    exact ⟨σk, a, y, hh, hne, hR, hr', hyp, (run_real D τ0 hc hGcH hh).1⟩
  -- the child's code started in a matching head of the transformed loop
  have hfootT : ∀ k σk y m' τ z, Head cS shS bodyS σS k σk → σk.rd cS ≠ 0#w →
      (MCtx.mk cS shS shP bodyS σS sub D τ0).RoundR k σk y →
      (MCtx.mk cS shS shP bodyS σS sub D τ0).RoundT k σk m' τ z →
      (∀ v, memE τ v = memE (σk.mov (-shP)) v → memE y v = memE z v) ∧
      (∀ v, v ∉ mKeys sub.written → v ∉ sub.reads → memE z v = memE τ v) := by
    intro k σk y m' τ z hh hne hR hT
    obtain ⟨t1, t2, t3, t4, t5, t6, t7⟩ := hT
    have hg := hGcH k σk hh hne
    have hV : ValidG Gc shP sub0 (s :: ps) (σk.mov (-shP)) := ⟨_, σk, hc.valid hg hne, hg⟩
    have hK : ∀ v, memE τ v ≠ memE (σk.mov (-shP)) v → v ∉ sub.reads := fun v hv hr => hv (t7 v hr)
    have hag : AgreeOff (Rest (fun v => memE τ v ≠ memE (σk.mov (-shP)) v) sub0) (σk.mov (-shP)) τ := by
      refine ⟨t4.symm, t5.symm, t6.symm, fun v hv => ?_⟩
      have : ¬ (memE τ v ≠ memE (σk.mov (-shP)) v) := fun h => hv ⟨h, by
        rintro ⟨kk, hkk, _⟩
        rw [hc.w0] at hkk; simp [mGet] at hkk⟩
      exact (Classical.not_not.1 this).symm
    have hf := hc.all.foot hc.ns _ hK _ _ hV hag
    obtain ⟨z', hz', hq⟩ := hf.finL y hR.2
    have ez : z' = z := exec_fin_det hz' t2
    subst ez
    refine ⟨fun v hv => hq.2.2.2 v (fun h => h.1 hv), ?_⟩
    exact (hc.all.frame hc.ns _ hK _ _ hV hag z' t2).2
  refine ⟨⟨?_, ?_⟩, ?_, ?_, ?_⟩
  · intro k hk v hv
    obtain ⟨σk, a, y, _, _, hR, hr', _, hM⟩ := hround k hk
    rw [← hM, MCtx.absBody_real hR]
    exact hr'.inv.writ.absent hv
  · intro k hk v e hv
    obtain ⟨σk, a, y, _, _, hR, hr', _, hM⟩ := hround k hk
    rw [← hM, MCtx.absBody_real hR]
    exact hr'.inv.writ.known hv
  · intro v e he
    refine ⟨(getBoth_canon hcs (s :: ps) he).weak, fun k hk => ?_⟩
    obtain ⟨σk, a, y, _, _, hR, hr', _, hM⟩ := hround k hk
    rw [OptLoop.run_succ]
    show Mem.par sub.pending ((MCtx.mk cS shS shP bodyS σS sub D τ0).absBody k _) v = _
    rw [← hM, MCtx.absBody_real hR, ← hr'.inv.pend]
    exact getBoth_sound hr'.inv he
  · intro k hk m' Z hm' v hv
    obtain ⟨σk, a, y, hh, hne, hR, hr', _, hM⟩ := hround k hk
    rw [← hM]
    by_cases hme : m' = memE (σk.mov (-shP))
    · rw [hme]
    · rw [MCtx.absBody_real hR]
      by_cases hT : ∃ q : State w × State w, (MCtx.mk cS shS shP bodyS σS sub D τ0).RoundT k σk m' q.1 q.2
      · obtain ⟨⟨τ, z⟩, hT⟩ := hT
        rw [MCtx.absBody_T hR hT hme]
        refine ((hfootT k σk y m' τ z hh hne hR hT).1 v ?_).symm
        rw [← hT.2.2.1, hm' v hv, ← hM]
      · rw [MCtx.absBody_other hR hme hT]
        show (if mGet sub.written v = none then m' v else memE y v) = memE y v
        split
        · rename_i hw
          rw [hm' v hv, ← hM]
          exact (hr'.inv.writ.absent hw).symm
        · rfl
  · intro k hk m' v hv
    obtain ⟨σk, a, y, hh, hne, hR, hr', _, hM⟩ := hround k hk
    by_cases hme : m' = memE (σk.mov (-shP))
    · rw [hme, MCtx.absBody_real hR]
      exact hr'.inv.writ.absent hv
    · by_cases hT : ∃ q : State w × State w, (MCtx.mk cS shS shP bodyS σS sub D τ0).RoundT k σk m' q.1 q.2
      · obtain ⟨⟨τ, z⟩, hT⟩ := hT
        rw [MCtx.absBody_T hR hT hme]
        obtain ⟨f1, f2⟩ := hfootT k σk y m' τ z hh hne hR hT
        rw [hT.2.2.1]
        by_cases hr : v ∈ sub.reads
        · have e1 := hT.2.2.2.2.2.2 v hr
          rw [← f1 v e1, e1]
          exact hr'.inv.writ.absent hv
        · exact f2 v ((mGet_none_iff _ _).1 hv) hr
      · rw [MCtx.absBody_other hR hme hT]
        show (if mGet sub.written v = none then m' v else memE y v) = m' v
        rw [if_pos hv]

end Run

end OptProof
end Hpbf
