/-
C18 — `SmallVec<T, N>` (model `Hpbf.SmallVec`) exposes the same contents as a `Vec<T>` under any
operation history, never reads an uninitialised slot, never leaks and drops every element exactly
once.  Lemmas; the property theorems are in `Hpbf/Props/C18.lean`.
-/
import Hpbf.SmallVec

namespace Hpbf
namespace SmallVec

variable {α : Type}

/-! ### Representation invariant and abstraction function -/

/-- The `Vec` the small vector stands for. -/
def SV.toList (s : SV α) : List α :=
  if s.size ≤ s.cap then (s.arr.take s.size).filterMap id else s.vec

/-- Representation invariant: `N` slots; either inline (`size ≤ N`, exactly the first `size` slots
own a value, no heap vector) or heap (`size = N + 1`, no slot owns anything). -/
structure SV.Inv (s : SV α) : Prop where
  len : s.arr.length = s.cap
  shape :
    (s.size ≤ s.cap ∧ (∀ i, i < s.size → ∃ v, s.arr[i]? = some (some v)) ∧
      (∀ i, s.size ≤ i → i < s.cap → s.arr[i]? = some none) ∧ s.vec = []) ∨
    (s.size = s.cap + 1 ∧ ∀ i, i < s.cap → s.arr[i]? = some none)

/-- Canonical inline state holding `l` (`l.length ≤ cap`). -/
def inl (cap : Nat) (l : List α) : SV α :=
  { cap := cap, size := l.length, arr := l.map some ++ List.replicate (cap - l.length) none, vec := [] }

theorem filterMap_id_map_some (l : List α) : (l.map some).filterMap id = l := by
  induction l with
  | nil => rfl
  | cons x xs ih => simp [ih]

theorem filterMap_id_replicate_none (n : Nat) : (List.replicate n (none : Option α)).filterMap id = [] := by
  induction n with
  | zero => rfl
  | succ n ih => simp [List.replicate_succ, ih]

theorem map_some_filterMap_id (L : List (Option α)) (h : ∀ o ∈ L, ∃ v, o = some v) :
    (L.filterMap id).map some = L := by
  induction L with
  | nil => rfl
  | cons o os ih =>
    obtain ⟨v, rfl⟩ := h o (by simp)
    simp only [List.filterMap_cons, id, List.map_cons]
    rw [ih (fun o ho => h o (by simp [ho]))]

theorem inv_inl {cap : Nat} {l : List α} (h : l.length ≤ cap) : (inl cap l).Inv := by
  refine ⟨by simp [inl]; omega, Or.inl ⟨h, ?_, ?_, rfl⟩⟩
  · intro i hi
    simp only [inl] at hi ⊢
    refine ⟨l[i], ?_⟩
    rw [List.getElem?_append_left (by simpa using hi)]
    simp [hi]
  · intro i h1 h2
    simp only [inl] at h1 h2 ⊢
    rw [List.getElem?_append_right (by simpa using h1)]
    simp only [List.length_map]
    rw [List.getElem?_replicate]
    simp; omega

theorem toList_inl {cap : Nat} {l : List α} (h : l.length ≤ cap) : (inl cap l).toList = l := by
  simp [SV.toList, inl, h]

theorem inv_fromVec (cap : Nat) (l : List α) : (fromVec cap l).Inv := by
  refine ⟨by simp [fromVec], Or.inr ⟨rfl, ?_⟩⟩
  intro i hi
  simp only [fromVec] at hi ⊢
  simp [hi]

theorem toList_fromVec (cap : Nat) (l : List α) : (fromVec cap l).toList = l := by
  have : ¬ cap + 1 ≤ cap := by omega
  simp [SV.toList, fromVec, this]

theorem new_eq_inl (cap : Nat) : (new cap : SV α) = inl cap [] := by
  simp [new, inl]

theorem all_none_eq_replicate (L : List (Option α)) (h : ∀ i, i < L.length → L[i]? = some none) :
    L = List.replicate L.length none := by
  apply List.ext_getElem?
  intro i
  by_cases hi : i < L.length
  · rw [h i hi, List.getElem?_replicate]; simp [hi]
  · rw [List.getElem?_eq_none (by omega), List.getElem?_eq_none (by simp; omega)]

/-- Every state satisfying the invariant is one of the two canonical states. -/
theorem SV.Inv.cases {s : SV α} (h : s.Inv) :
    (s.toList.length ≤ s.cap ∧ s = inl s.cap s.toList) ∨
    (s = fromVec s.cap s.toList) := by
  obtain ⟨cap, size, arr, vec⟩ := s
  obtain ⟨hlen, hshape⟩ := h
  simp only at hlen hshape
  rcases hshape with ⟨hsz, hsome, hnone, hvec⟩ | ⟨hsz, hnone⟩
  · left
    have htake : ∀ o ∈ arr.take size, ∃ v, o = some v := by
      intro o ho
      obtain ⟨i, hi⟩ := List.mem_iff_getElem?.1 ho
      rw [List.getElem?_take] at hi
      split at hi
      · rename_i hlt
        obtain ⟨v, hv⟩ := hsome i hlt
        rw [hv] at hi
        exact ⟨v, (Option.some.inj hi).symm⟩
      · cases hi
    have hdrop : arr.drop size = List.replicate (cap - size) none := by
      have := all_none_eq_replicate (arr.drop size) (by
        intro i hi
        rw [List.getElem?_drop]
        simp only [List.length_drop] at hi
        exact hnone _ (by omega) (by omega))
      rw [this]; simp [hlen]
    have hmap := map_some_filterMap_id _ htake
    have hl : ((arr.take size).filterMap id).length = size := by
      have := congrArg List.length hmap
      simp only [List.length_map, List.length_take] at this
      omega
    simp only [SV.toList, if_pos hsz, inl, hl]
    refine ⟨hsz, ?_⟩
    subst hvec
    congr 1
    rw [hmap, ← hdrop, List.take_append_drop]
  · right
    have : ¬ size ≤ cap := by omega
    simp only [SV.toList, if_neg this, fromVec]
    subst hsz
    congr 1
    rw [← hlen]
    exact all_none_eq_replicate arr (by intro i hi; exact hnone i (by omega))

/-! ### Slot primitives on arrays of the form `A ++ x :: B` -/

theorem getElem?_mid (A B : List (Option α)) (x : Option α) {i : Nat} (h : A.length = i) :
    (A ++ x :: B)[i]? = some x := by
  subst h; simp

theorem set_mid (A B : List (Option α)) (x y : Option α) {i : Nat} (h : A.length = i) :
    (A ++ x :: B).set i y = A ++ y :: B := by
  subst h; simp

theorem slotRef_mid (A B : List (Option α)) (v : α) {i : Nat} (h : A.length = i) :
    slotRef (A ++ some v :: B) i = .ok v := by
  unfold slotRef; rw [getElem?_mid A B _ h]

theorem slotTake_mid (A B : List (Option α)) (v : α) {i : Nat} (h : A.length = i) :
    slotTake (A ++ some v :: B) i = .ok (v, A ++ none :: B) := by
  unfold slotTake; rw [getElem?_mid A B _ h]; simp only [set_mid A B _ _ h]

theorem slotWrite_mid_none (A B : List (Option α)) (v : α) {j : Nat} (h : A.length = j) :
    slotWrite (A ++ none :: B) j v = (A ++ some v :: B, []) := by
  unfold slotWrite; rw [getElem?_mid A B _ h]; simp only [set_mid A B _ _ h]

theorem slotsRef_take (l : List α) (B : List (Option α)) :
    ∀ n, n ≤ l.length → slotsRef (l.map some ++ B) n = .ok (l.take n) := by
  intro n
  induction n with
  | zero => intro _; simp [slotsRef]
  | succ n ih =>
    intro hn
    have hlt : n < l.length := by omega
    have hsplit : l.map some ++ B = (l.take n).map some ++ some l[n] :: ((l.drop (n + 1)).map some ++ B) := by
      conv => lhs; rw [← List.take_append_drop n l, List.drop_eq_getElem_cons hlt]
      simp
    simp only [slotsRef, ih (by omega)]
    rw [hsplit, slotRef_mid _ _ _ (by simp; omega)]
    simp [List.take_succ_eq_append_getElem hlt]

theorem slotsRef_all (l : List α) (B : List (Option α)) :
    slotsRef (l.map some ++ B) l.length = .ok l := by
  rw [slotsRef_take l B _ (Nat.le_refl _)]; simp

theorem slotsTake_mid (l : List α) :
    ∀ (A B : List (Option α)) (i : Nat), A.length = i →
      slotsTake (A ++ (l.map some ++ B)) i l.length
        = .ok (l, A ++ (List.replicate l.length none ++ B)) := by
  induction l with
  | nil => intro A B i _; simp [slotsTake]
  | cons x xs ih =>
    intro A B i h
    simp only [List.map_cons, List.cons_append, List.length_cons, slotsTake]
    rw [slotTake_mid _ _ _ h]
    simp only
    have : A ++ none :: (xs.map some ++ B) = (A ++ [none]) ++ (xs.map some ++ B) := by simp
    rw [this, ih (A ++ [none]) B (i + 1) (by simp [h])]
    simp [List.replicate_succ]

theorem view_inl {cap : Nat} {l : List α} (h : l.length ≤ cap) : view (inl cap l) = .ok l := by
  simp only [view, inl, if_pos h, slotsRef_all]

theorem view_fromVec (cap : Nat) (l : List α) : view (fromVec cap l) = .ok l := by
  have : ¬ cap + 1 ≤ cap := by omega
  simp [view, fromVec, this]

/-- `as_slice` never reads an uninitialised slot and returns the abstract contents. -/
theorem view_eq {s : SV α} (h : s.Inv) : view s = .ok s.toList := by
  rcases h.cases with ⟨hl, he⟩ | he
  · rw [he, view_inl hl, toList_inl hl]
  · rw [he, view_fromVec, toList_fromVec]

end SmallVec
end Hpbf
