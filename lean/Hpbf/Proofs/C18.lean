/-
C18 — `SmallVec<T, N>` (model `Hpbf.SmallVec`) exposes the same contents as a `Vec<T>` under any
operation history, never reads an uninitialised slot, never leaks and drops every element exactly
once.  Lemmas; the property theorems are in `Hpbf/Props/C18.lean`.
-/
import Hpbf.SmallVec

namespace Hpbf
namespace SmallVec

variable {α : Type}

/-! ### Representation invariant and abstraction function -/

/-- The `Vec` the small vector stands for. -/
def SV.toList (s : SV α) : List α :=
  if s.size ≤ s.cap then (s.arr.take s.size).filterMap id else s.vec

/-- Representation invariant: `N` slots; either inline (`size ≤ N`, exactly the first `size` slots
own a value, no heap vector) or heap (`size = N + 1`, no slot owns anything). -/
structure SV.Inv (s : SV α) : Prop where
  len : s.arr.length = s.cap
  shape :
    (s.size ≤ s.cap ∧ (∀ i, i < s.size → ∃ v, s.arr[i]? = some (some v)) ∧
      (∀ i, s.size ≤ i → i < s.cap → s.arr[i]? = some none) ∧ s.vec = []) ∨
    (s.size = s.cap + 1 ∧ ∀ i, i < s.cap → s.arr[i]? = some none)

/-- Canonical inline state holding `l` (`l.length ≤ cap`). -/
def inl (cap : Nat) (l : List α) : SV α :=
  { cap := cap, size := l.length, arr := l.map some ++ List.replicate (cap - l.length) none, vec := [] }

theorem filterMap_id_map_some (l : List α) : (l.map some).filterMap id = l := by
  induction l with
  | nil => rfl
  | cons x xs ih => simp [ih]

theorem filterMap_id_replicate_none (n : Nat) : (List.replicate n (none : Option α)).filterMap id = [] := by
  induction n with
  | zero => rfl
  | succ n ih => simp [List.replicate_succ, ih]

theorem map_some_filterMap_id (L : List (Option α)) (h : ∀ o ∈ L, ∃ v, o = some v) :
    (L.filterMap id).map some = L := by
  induction L with
  | nil => rfl
  | cons o os ih =>
    obtain ⟨v, rfl⟩ := h o (by simp)
    simp only [List.filterMap_cons, id, List.map_cons]
    rw [ih (fun o ho => h o (by simp [ho]))]

theorem inv_inl {cap : Nat} {l : List α} (h : l.length ≤ cap) : (inl cap l).Inv := by
  refine ⟨by simp [inl]; omega, Or.inl ⟨h, ?_, ?_, rfl⟩⟩
  · intro i hi
    simp only [inl] at hi ⊢
    refine ⟨l[i], ?_⟩
    rw [List.getElem?_append_left (by simpa using hi)]
    simp [hi]
  · intro i h1 h2
    simp only [inl] at h1 h2 ⊢
    rw [List.getElem?_append_right (by simpa using h1)]
    simp only [List.length_map]
    rw [List.getElem?_replicate]
    simp; omega

theorem toList_inl {cap : Nat} {l : List α} (h : l.length ≤ cap) : (inl cap l).toList = l := by
  simp [SV.toList, inl, h]

theorem inv_fromVec (cap : Nat) (l : List α) : (fromVec cap l).Inv := by
  refine ⟨by simp [fromVec], Or.inr ⟨rfl, ?_⟩⟩
  intro i hi
  simp only [fromVec] at hi ⊢
  simp [hi]

theorem toList_fromVec (cap : Nat) (l : List α) : (fromVec cap l).toList = l := by
  have : ¬ cap + 1 ≤ cap := by omega
  simp [SV.toList, fromVec, this]

theorem new_eq_inl (cap : Nat) : (new cap : SV α) = inl cap [] := by
  simp [new, inl]

theorem all_none_eq_replicate (L : List (Option α)) (h : ∀ i, i < L.length → L[i]? = some none) :
    L = List.replicate L.length none := by
  apply List.ext_getElem?
  intro i
  by_cases hi : i < L.length
  · rw [h i hi, List.getElem?_replicate]; simp [hi]
  · rw [List.getElem?_eq_none (by omega), List.getElem?_eq_none (by simp; omega)]

/-- Every state satisfying the invariant is one of the two canonical states. -/
theorem SV.Inv.cases' {s : SV α} (h : s.Inv) :
    (s.toList.length ≤ s.cap ∧ s = inl s.cap s.toList) ∨
    (s = fromVec s.cap s.toList) := by
  obtain ⟨cap, size, arr, vec⟩ := s
  obtain ⟨hlen, hshape⟩ := h
  simp only at hlen hshape
  rcases hshape with ⟨hsz, hsome, hnone, hvec⟩ | ⟨hsz, hnone⟩
  · left
    have htake : ∀ o ∈ arr.take size, ∃ v, o = some v := by
      intro o ho
      obtain ⟨i, hi⟩ := List.mem_iff_getElem?.1 ho
      rw [List.getElem?_take] at hi
      split at hi
      · rename_i hlt
        obtain ⟨v, hv⟩ := hsome i hlt
        rw [hv] at hi
        exact ⟨v, (Option.some.inj hi).symm⟩
      · cases hi
    have hdrop : arr.drop size = List.replicate (cap - size) none := by
      have := all_none_eq_replicate (arr.drop size) (by
        intro i hi
        rw [List.getElem?_drop]
        simp only [List.length_drop] at hi
        exact hnone _ (by omega) (by omega))
      rw [this]; simp [hlen]
    have hmap := map_some_filterMap_id _ htake
    have hl : ((arr.take size).filterMap id).length = size := by
      have := congrArg List.length hmap
      simp only [List.length_map, List.length_take] at this
      omega
    simp only [SV.toList, if_pos hsz, inl, hl]
    refine ⟨hsz, ?_⟩
    subst hvec
    congr 1
    rw [hmap, ← hdrop, List.take_append_drop]
  · right
    have : ¬ size ≤ cap := by omega
    simp only [SV.toList, if_neg this, fromVec]
    subst hsz
    congr 1
    rw [← hlen]
    exact all_none_eq_replicate arr (by intro i hi; exact hnone i (by omega))

theorem SV.Inv.cases {s : SV α} (h : s.Inv) :
    (∃ cap l, l.length ≤ cap ∧ s = inl cap l) ∨ (∃ cap l, s = fromVec cap l) := by
  rcases h.cases' with ⟨hl, he⟩ | he
  · exact Or.inl ⟨_, _, hl, he⟩
  · exact Or.inr ⟨_, _, he⟩

/-! ### Slot primitives on arrays of the form `A ++ x :: B` -/

theorem getElem?_mid (A B : List (Option α)) (x : Option α) {i : Nat} (h : A.length = i) :
    (A ++ x :: B)[i]? = some x := by
  subst h; simp

theorem set_mid (A B : List (Option α)) (x y : Option α) {i : Nat} (h : A.length = i) :
    (A ++ x :: B).set i y = A ++ y :: B := by
  subst h; simp

theorem slotRef_mid (A B : List (Option α)) (v : α) {i : Nat} (h : A.length = i) :
    slotRef (A ++ some v :: B) i = .ok v := by
  unfold slotRef; rw [getElem?_mid A B _ h]

theorem slotTake_mid (A B : List (Option α)) (v : α) {i : Nat} (h : A.length = i) :
    slotTake (A ++ some v :: B) i = .ok (v, A ++ none :: B) := by
  unfold slotTake; rw [getElem?_mid A B _ h]; simp only [set_mid A B _ _ h]

theorem slotWrite_mid_none (A B : List (Option α)) (v : α) {j : Nat} (h : A.length = j) :
    slotWrite (A ++ none :: B) j v = (A ++ some v :: B, []) := by
  unfold slotWrite; rw [getElem?_mid A B _ h]; simp only [set_mid A B _ _ h]

theorem slotsRef_take (l : List α) (B : List (Option α)) :
    ∀ n, n ≤ l.length → slotsRef (l.map some ++ B) n = .ok (l.take n) := by
  intro n
  induction n with
  | zero => intro _; simp [slotsRef]
  | succ n ih =>
    intro hn
    have hlt : n < l.length := by omega
    have hr : slotRef (l.map some ++ B) n = .ok l[n] := by
      unfold slotRef
      rw [List.getElem?_append_left (by simpa using hlt)]
      simp [hlt]
    rw [slotsRef, ih (by omega), hr, List.take_succ_eq_append_getElem hlt]

theorem slotsRef_all (l : List α) (B : List (Option α)) :
    slotsRef (l.map some ++ B) l.length = .ok l := by
  rw [slotsRef_take l B _ (Nat.le_refl _)]; simp

theorem slotsTake_mid (l : List α) :
    ∀ (A B : List (Option α)) (i : Nat), A.length = i →
      slotsTake (A ++ (l.map some ++ B)) i l.length
        = .ok (l, A ++ (List.replicate l.length none ++ B)) := by
  induction l with
  | nil => intro A B i _; simp [slotsTake]
  | cons x xs ih =>
    intro A B i h
    simp only [List.map_cons, List.cons_append, List.length_cons, slotsTake]
    rw [slotTake_mid _ _ _ h]
    simp only
    have : A ++ none :: (xs.map some ++ B) = (A ++ [none]) ++ (xs.map some ++ B) := by simp
    rw [this, ih (A ++ [none]) B (i + 1) (by simp [h])]
    simp [List.replicate_succ]

theorem view_inl {cap : Nat} {l : List α} (h : l.length ≤ cap) : view (inl cap l) = .ok l := by
  simp only [view, inl, if_pos h, slotsRef_all]

theorem view_fromVec (cap : Nat) (l : List α) : view (fromVec cap l) = .ok l := by
  have : ¬ cap + 1 ≤ cap := by omega
  simp [view, fromVec, this]

/-- `as_slice` never reads an uninitialised slot and returns the abstract contents. -/
theorem view_eq {s : SV α} (h : s.Inv) : view s = .ok s.toList := by
  rcases h.cases with ⟨cap, l, hl, rfl⟩ | ⟨cap, l, rfl⟩
  · rw [view_inl hl, toList_inl hl]
  · rw [view_fromVec, toList_fromVec]

/-! ### `push`, `extend` -/

theorem push_inl_lt {cap : Nat} {l : List α} (x : α) (h : l.length < cap) :
    push (inl cap l) x = .ok { sv := inl cap (l ++ [x]) } := by
  obtain ⟨k, hk⟩ : ∃ k, cap - l.length = k + 1 := ⟨cap - l.length - 1, by omega⟩
  have hk' : cap - (l.length + 1) = k := by omega
  simp only [push, inl, if_pos h, hk, List.replicate_succ]
  rw [slotWrite_mid_none _ _ _ (by simp)]
  simp [hk']

theorem slotsTake_inl {cap : Nat} (l : List α) :
    slotsTake (l.map some ++ List.replicate (cap - l.length) none) 0 l.length
      = .ok (l, List.replicate l.length none ++ List.replicate (cap - l.length) none) :=
  slotsTake_mid l [] _ 0 rfl

theorem replicate_none_append {cap n : Nat} (h : n ≤ cap) :
    List.replicate n (none : Option α) ++ List.replicate (cap - n) none = List.replicate cap none := by
  rw [List.replicate_append_replicate]; congr 1; omega

theorem push_inl_eq {cap : Nat} {l : List α} (x : α) (h : l.length = cap) :
    push (inl cap l) x = .ok { sv := fromVec cap (l ++ [x]) } := by
  subst h
  have h1 : ¬ l.length < l.length := by omega
  have := slotsTake_inl (cap := l.length) l
  simp only [inl]
  simp only [push, if_neg h1, if_true, this]
  simp only [Nat.sub_self, List.replicate_zero, List.append_nil, filterMap_id_replicate_none, fromVec]

theorem push_fromVec (cap : Nat) (l : List α) (x : α) :
    push (fromVec cap l) x = .ok { sv := fromVec cap (l ++ [x]) } := by
  have h1 : ¬ cap + 1 < cap := by omega
  have h2 : ¬ cap + 1 = cap := by omega
  simp only [fromVec]
  simp only [push, if_neg h1, if_neg h2]

/-- `push`: no UB, invariant kept, contents `l ++ [x]`, nothing dropped, nothing leaked. -/
theorem push_spec {s : SV α} (h : s.Inv) (x : α) :
    ∃ r, push s x = .ok r ∧ r.sv.Inv ∧ r.sv.cap = s.cap ∧ r.sv.toList = s.toList ++ [x] ∧
      r.dropped = [] ∧ r.leaked = [] := by
  rcases h.cases with ⟨cap, l, hl, rfl⟩ | ⟨cap, l, rfl⟩
  · rw [toList_inl hl]
    by_cases hlt : l.length < cap
    · have hl' : (l ++ [x]).length ≤ cap := by simp; omega
      exact ⟨_, push_inl_lt x hlt, inv_inl hl', rfl, toList_inl hl', rfl, rfl⟩
    · exact ⟨_, push_inl_eq x (by omega), inv_fromVec _ _, rfl, toList_fromVec _ _, rfl, rfl⟩
  · rw [toList_fromVec]
    exact ⟨_, push_fromVec cap l x, inv_fromVec _ _, rfl, toList_fromVec _ _, rfl, rfl⟩

/-- `extend`: no UB, invariant kept, contents `l ++ xs`, nothing dropped, nothing leaked. -/
theorem extend_spec (xs : List α) : ∀ {s : SV α}, s.Inv →
    ∃ r, extend s xs = .ok r ∧ r.sv.Inv ∧ r.sv.cap = s.cap ∧ r.sv.toList = s.toList ++ xs ∧
      r.dropped = [] ∧ r.leaked = [] := by
  induction xs with
  | nil => intro s h; exact ⟨_, rfl, h, rfl, by simp, rfl, rfl⟩
  | cons x xs ih =>
    intro s h
    obtain ⟨r, hr, hinv, hcap, hl, hd, hk⟩ := push_spec h x
    obtain ⟨r', hr', hinv', hcap', hl', hd', hk'⟩ := ih hinv
    refine ⟨{ sv := r'.sv, dropped := r.dropped ++ r'.dropped, leaked := r.leaked ++ r'.leaked },
      by simp only [extend, hr, hr'], hinv', by rw [hcap', hcap], ?_, ?_, ?_⟩
    · simp [hl', hl]
    · simp [hd, hd']
    · simp [hk, hk']

/-! ### Constructors -/

theorem new_spec (cap : Nat) : (new cap : SV α).Inv ∧ (new cap : SV α).toList = [] ∧ (new cap : SV α).cap = cap := by
  rw [new_eq_inl]
  exact ⟨inv_inl (Nat.zero_le _), toList_inl (Nat.zero_le _), rfl⟩

theorem fromVec_spec (cap : Nat) (v : List α) :
    (fromVec cap v).Inv ∧ (fromVec cap v).toList = v ∧ (fromVec cap v).cap = cap :=
  ⟨inv_fromVec _ _, toList_fromVec _ _, rfl⟩

theorem withCapacity_spec (cap n : Nat) :
    (withCapacity cap n : SV α).Inv ∧ (withCapacity cap n : SV α).toList = [] ∧
      (withCapacity cap n : SV α).cap = cap := by
  unfold withCapacity
  split
  · exact new_spec cap
  · exact fromVec_spec cap []

/-! ### `clear`, `Drop` -/

theorem clear_inl {cap : Nat} {l : List α} (h : l.length ≤ cap) :
    clear (inl cap l) = .ok { sv := inl cap [], dropped := l } := by
  have := slotsTake_inl (cap := cap) l
  simp only [inl]
  simp only [clear, if_pos h, this, replicate_none_append h]
  simp

theorem clear_fromVec (cap : Nat) (l : List α) :
    clear (fromVec cap l) = .ok { sv := fromVec cap [], dropped := l } := by
  have h1 : ¬ cap + 1 ≤ cap := by omega
  simp only [fromVec]
  simp only [clear, if_neg h1]

/-- `clear`: no UB, invariant kept, contents `[]`, the old contents dropped once each (in order),
nothing leaked. -/
theorem clear_spec {s : SV α} (h : s.Inv) :
    ∃ r, clear s = .ok r ∧ r.sv.Inv ∧ r.sv.cap = s.cap ∧ r.sv.toList = [] ∧
      r.dropped = s.toList ∧ r.leaked = [] := by
  rcases h.cases with ⟨cap, l, hl, rfl⟩ | ⟨cap, l, rfl⟩
  · exact ⟨_, clear_inl hl, inv_inl (Nat.zero_le _), rfl, toList_inl (Nat.zero_le _),
      (toList_inl hl).symm, rfl⟩
  · exact ⟨_, clear_fromVec cap l, inv_fromVec _ _, rfl, toList_fromVec _ _, (toList_fromVec _ _).symm, rfl⟩

theorem dropAll_inl {cap : Nat} {l : List α} (h : l.length ≤ cap) :
    dropAll (inl cap l) = .ok { sv := inl cap [], dropped := l } := by
  have := slotsTake_inl (cap := cap) l
  simp only [inl]
  simp only [dropAll, if_pos h, this, replicate_none_append h, filterMap_id_replicate_none]
  simp

theorem dropAll_fromVec (cap : Nat) (l : List α) :
    dropAll (fromVec cap l) = .ok { sv := inl cap [], dropped := l } := by
  have h1 : ¬ cap + 1 ≤ cap := by omega
  simp only [fromVec]
  simp only [dropAll, if_neg h1]
  simp [inl]

/-- `Drop for SmallVec`: no UB, every element still owned is dropped exactly once (in order),
nothing leaked, nothing is owned afterwards. -/
theorem dropAll_spec {s : SV α} (h : s.Inv) :
    ∃ r, dropAll s = .ok r ∧ r.sv.Inv ∧ r.sv.toList = [] ∧ r.dropped = s.toList ∧ r.leaked = [] := by
  rcases h.cases with ⟨cap, l, hl, rfl⟩ | ⟨cap, l, rfl⟩
  · exact ⟨_, dropAll_inl hl, inv_inl (Nat.zero_le _), toList_inl (Nat.zero_le _),
      (toList_inl hl).symm, rfl⟩
  · exact ⟨_, dropAll_fromVec cap l, inv_inl (Nat.zero_le _), toList_inl (Nat.zero_le _),
      (toList_fromVec _ _).symm, rfl⟩

/-! ### `retain` / `retain_mut` -/

theorem vecRetainMut_length (f : α → α × Bool) (l : List α) :
    (vecRetainMut f l).1.length + (vecRetainMut f l).2.length = l.length := by
  induction l with
  | nil => rfl
  | cons x xs ih =>
    simp only [vecRetainMut]
    split <;> simp <;> omega

theorem replicate_snoc_none (m : Nat) (X : List (Option α)) :
    List.replicate m none ++ none :: X = List.replicate (m + 1) none ++ X := by
  rw [List.replicate_succ']; simp

theorem retainLoop_spec (f : α → α × Bool) (us : List α) :
    ∀ (ks : List α) (m : Nat) (B : List (Option α)) (dr lk : List α) (i : Nat), i = ks.length + m →
      retainLoop true f
          ⟨ks.map some ++ (List.replicate m none ++ (us.map some ++ B)), ks.length, dr, lk⟩ i us.length
        = .ok ⟨(ks ++ (vecRetainMut f us).1).map some ++
                (List.replicate (m + (vecRetainMut f us).2.length) none ++ B),
               ks.length + (vecRetainMut f us).1.length, dr ++ (vecRetainMut f us).2, lk⟩ := by
  induction us with
  | nil => intro ks m B dr lk i _; simp [retainLoop, vecRetainMut]
  | cons u us ih =>
    intro ks m B dr lk i hi
    have harr : ∀ (o : Option α), ks.map some ++ (List.replicate m none ++ (o :: (us.map some ++ B)))
        = (ks.map some ++ List.replicate m none) ++ o :: (us.map some ++ B) := by simp
    have hlen : (ks.map some ++ List.replicate m (none : Option α)).length = i := by simp [hi]
    simp only [List.map_cons, List.cons_append, List.length_cons, retainLoop]
    rw [harr, slotRef_mid _ _ _ hlen]
    simp only [set_mid _ _ _ _ hlen]
    cases hf : f u with
    | mk v' keep =>
    cases keep with
    | true =>
      simp only [if_true]
      cases m with
      | zero =>
        have : ¬ i ≠ ks.length := by omega
        simp only [if_neg this]
        have e := ih (ks ++ [v']) 0 B dr lk (i + 1) (by simp; omega)
        simp only [List.map_append, List.map_cons, List.map_nil, List.replicate_zero, List.nil_append,
          List.append_assoc, List.cons_append, List.length_append, List.length_cons, List.length_nil,
          Nat.zero_add, List.append_nil] at e ⊢
        rw [e]
        simp [vecRetainMut, hf] <;> omega
      | succ m =>
        have : i ≠ ks.length := by omega
        simp only [if_pos this]
        rw [slotTake_mid _ _ _ hlen]
        simp only
        have e1 : (ks.map some ++ List.replicate (m + 1) none) ++ none :: (us.map some ++ B)
            = ks.map some ++ none :: (List.replicate (m + 1) none ++ (us.map some ++ B)) := by
          rw [List.append_assoc, replicate_snoc_none]; simp [List.replicate_succ]
        rw [e1, slotWrite_mid_none _ _ _ (by simp)]
        simp only [List.append_nil]
        have e := ih (ks ++ [v']) (m + 1) B dr lk (i + 1) (by simp; omega)
        simp only [List.map_append, List.map_cons, List.map_nil,
          List.append_assoc, List.cons_append, List.length_append, List.length_cons, List.length_nil,
          List.nil_append] at e ⊢
        rw [e]
        simp [vecRetainMut, hf] <;> omega
    | false =>
      simp only [Bool.false_eq_true, if_false, if_true]
      rw [slotTake_mid _ _ _ hlen]
      simp only
      have e := ih ks (m + 1) B (dr ++ [v']) lk (i + 1) (by omega)
      rw [List.append_assoc, replicate_snoc_none, e]
      simp [vecRetainMut, hf] <;> omega

theorem retainMut_inl {cap : Nat} {l : List α} (f : α → α × Bool) (h : l.length ≤ cap) :
    retainMut true (inl cap l) f
      = .ok { sv := inl cap (vecRetainMut f l).1, dropped := (vecRetainMut f l).2 } := by
  have e : retainLoop true f ⟨l.map some ++ List.replicate (cap - l.length) none, 0, [], []⟩ 0 l.length
      = .ok ⟨(vecRetainMut f l).1.map some ++ (List.replicate (vecRetainMut f l).2.length none
              ++ List.replicate (cap - l.length) none), (vecRetainMut f l).1.length,
             (vecRetainMut f l).2, []⟩ := by
    simpa using retainLoop_spec f l [] 0 (List.replicate (cap - l.length) none) [] [] 0 rfl
  have hlen := vecRetainMut_length f l
  simp only [inl]
  simp only [retainMut, if_pos h, e, List.replicate_append_replicate]
  have : (vecRetainMut f l).2.length + (cap - l.length) = cap - (vecRetainMut f l).1.length := by omega
  rw [this]

theorem retainMut_fromVec (cap : Nat) (l : List α) (f : α → α × Bool) :
    retainMut true (fromVec cap l) f
      = .ok { sv := fromVec cap (vecRetainMut f l).1, dropped := (vecRetainMut f l).2 } := by
  have h1 : ¬ cap + 1 ≤ cap := by omega
  simp only [fromVec]
  simp only [retainMut, if_neg h1]

/-- `retain_mut` (repaired code): no UB, invariant kept, contents and drop log exactly those of
`Vec::retain_mut`, nothing leaked. -/
theorem retainMut_spec {s : SV α} (h : s.Inv) (f : α → α × Bool) :
    ∃ r, retainMut true s f = .ok r ∧ r.sv.Inv ∧ r.sv.cap = s.cap ∧
      r.sv.toList = (vecRetainMut f s.toList).1 ∧ r.dropped = (vecRetainMut f s.toList).2 ∧
      r.leaked = [] := by
  rcases h.cases with ⟨cap, l, hl, rfl⟩ | ⟨cap, l, rfl⟩
  · have hk : (vecRetainMut f l).1.length ≤ cap := by have := vecRetainMut_length f l; omega
    rw [toList_inl hl]
    exact ⟨_, retainMut_inl f hl, inv_inl hk, rfl, toList_inl hk, rfl, rfl⟩
  · rw [toList_fromVec]
    exact ⟨_, retainMut_fromVec cap l f, inv_fromVec _ _, rfl, toList_fromVec _ _, rfl, rfl⟩

/-! ### `dedup` -/

theorem vecDedup_cons_cons (eq : α → α → Bool) (x y : α) (rest : List α) :
    vecDedup eq (x :: y :: rest) =
      if eq y x then ((vecDedup eq (x :: rest)).1, y :: (vecDedup eq (x :: rest)).2)
      else (x :: (vecDedup eq (y :: rest)).1, (vecDedup eq (y :: rest)).2) := by
  rw [vecDedup]

theorem vecDedup_length (eq : α → α → Bool) (l : List α) :
    (vecDedup eq l).1.length + (vecDedup eq l).2.length = l.length := by
  fun_induction vecDedup eq l <;> simp_all <;> omega

theorem dedupLoop_spec (eq : α → α → Bool) (us : List α) :
    ∀ (ks : List α) (b : α) (m : Nat) (B : List (Option α)) (dr lk : List α) (i : Nat),
      i = ks.length + 1 + m →
      dedupLoop true eq
          ⟨ks.map some ++ some b :: (List.replicate m none ++ (us.map some ++ B)), ks.length + 1, dr, lk⟩
          i us.length
        = .ok ⟨(ks ++ (vecDedup eq (b :: us)).1).map some ++
                (List.replicate (m + (vecDedup eq (b :: us)).2.length) none ++ B),
               ks.length + (vecDedup eq (b :: us)).1.length, dr ++ (vecDedup eq (b :: us)).2, lk⟩ := by
  induction us with
  | nil => intro ks b m B dr lk i _; simp [dedupLoop, vecDedup]
  | cons a us ih =>
    intro ks b m B dr lk i hi
    have harr : ∀ (o : Option α),
        ks.map some ++ some b :: (List.replicate m none ++ (o :: (us.map some ++ B)))
        = (ks.map some ++ some b :: List.replicate m none) ++ o :: (us.map some ++ B) := by simp
    have hlen : (ks.map some ++ some b :: List.replicate m (none : Option α)).length = i := by
      simp [hi]; omega
    have hA : slotRef (ks.map some ++ some b :: (List.replicate m none ++ (some a :: (us.map some ++ B)))) i
        = .ok a := by rw [harr, slotRef_mid _ _ _ hlen]
    have hB : slotRef (ks.map some ++ some b :: (List.replicate m none ++ (some a :: (us.map some ++ B))))
        (ks.length + 1 - 1) = .ok b := slotRef_mid _ _ _ (by simp)
    simp only [List.map_cons, List.cons_append, List.length_cons, dedupLoop, hA, hB]
    rw [vecDedup_cons_cons]
    cases hab : eq a b with
    | true =>
      simp only [Bool.not_true, Bool.false_eq_true, if_false, if_true]
      rw [harr, slotTake_mid _ _ _ hlen]
      simp only
      have e := ih ks b (m + 1) B (dr ++ [a]) lk (i + 1) (by omega)
      rw [List.append_assoc, List.cons_append, replicate_snoc_none, e]
      simp <;> omega
    | false =>
      simp only [Bool.not_false, if_true, Bool.false_eq_true, if_false]
      cases m with
      | zero =>
        have : ¬ i ≠ ks.length + 1 := by omega
        simp only [if_neg this]
        have e := ih (ks ++ [b]) a 0 B dr lk (i + 1) (by simp; omega)
        simp only [List.map_append, List.map_cons, List.map_nil, List.replicate_zero, List.nil_append,
          List.append_assoc, List.cons_append, List.length_append, List.length_cons, List.length_nil,
          Nat.zero_add] at e ⊢
        rw [e]
        simp <;> omega
      | succ m =>
        have : i ≠ ks.length + 1 := by omega
        simp only [if_pos this]
        rw [harr, slotTake_mid _ _ _ hlen]
        simp only
        have e1 : (ks.map some ++ some b :: List.replicate (m + 1) none) ++ none :: (us.map some ++ B)
            = (ks.map some ++ [some b]) ++ none :: (List.replicate (m + 1) none ++ (us.map some ++ B)) := by
          rw [List.append_assoc, List.cons_append, replicate_snoc_none]; simp [List.replicate_succ]
        rw [e1, slotWrite_mid_none _ _ _ (by simp)]
        simp only [List.append_nil]
        have e := ih (ks ++ [b]) a (m + 1) B dr lk (i + 1) (by simp; omega)
        simp only [List.map_append, List.map_cons, List.map_nil,
          List.append_assoc, List.cons_append, List.length_append, List.length_cons, List.length_nil,
          List.nil_append] at e ⊢
        rw [e]
        simp <;> omega

theorem dedup_inl {cap : Nat} {l : List α} (eq : α → α → Bool) (h : l.length ≤ cap) :
    dedup true (inl cap l) eq
      = .ok { sv := inl cap (vecDedup eq l).1, dropped := (vecDedup eq l).2 } := by
  cases l with
  | nil => simp [dedup, inl, vecDedup]
  | cons b us =>
    have e : dedupLoop true eq ⟨some b :: (us.map some ++ List.replicate (cap - (us.length + 1)) none), 1, [], []⟩
          1 us.length
        = .ok ⟨(vecDedup eq (b :: us)).1.map some ++ (List.replicate (vecDedup eq (b :: us)).2.length none
                ++ List.replicate (cap - (us.length + 1)) none), (vecDedup eq (b :: us)).1.length,
               (vecDedup eq (b :: us)).2, []⟩ := by
      simpa using dedupLoop_spec eq us [] b 0 (List.replicate (cap - (us.length + 1)) none) [] [] 1 rfl
    have hlen := vecDedup_length eq (b :: us)
    simp only [List.length_cons] at h hlen
    have h0 : us.length + 1 ≠ 0 := by omega
    simp only [inl, List.length_cons, List.map_cons, List.cons_append]
    simp only [dedup, if_pos h, if_pos h0, Nat.add_sub_cancel, e, List.replicate_append_replicate]
    have : (vecDedup eq (b :: us)).2.length + (cap - (us.length + 1))
        = cap - (vecDedup eq (b :: us)).1.length := by omega
    rw [this]

theorem dedup_fromVec (cap : Nat) (l : List α) (eq : α → α → Bool) :
    dedup true (fromVec cap l) eq
      = .ok { sv := fromVec cap (vecDedup eq l).1, dropped := (vecDedup eq l).2 } := by
  have h1 : ¬ cap + 1 ≤ cap := by omega
  simp only [fromVec]
  simp only [dedup, if_neg h1]

/-- `dedup` (repaired code): no UB, invariant kept, contents and drop log exactly those of
`Vec::dedup`, nothing leaked. -/
theorem dedup_spec {s : SV α} (h : s.Inv) (eq : α → α → Bool) :
    ∃ r, dedup true s eq = .ok r ∧ r.sv.Inv ∧ r.sv.cap = s.cap ∧
      r.sv.toList = (vecDedup eq s.toList).1 ∧ r.dropped = (vecDedup eq s.toList).2 ∧
      r.leaked = [] := by
  rcases h.cases with ⟨cap, l, hl, rfl⟩ | ⟨cap, l, rfl⟩
  · have hk : (vecDedup eq l).1.length ≤ cap := by have := vecDedup_length eq l; omega
    rw [toList_inl hl]
    exact ⟨_, dedup_inl eq hl, inv_inl hk, rfl, toList_inl hk, rfl, rfl⟩
  · rw [toList_fromVec]
    exact ⟨_, dedup_fromVec cap l eq, inv_fromVec _ _, rfl, toList_fromVec _ _, rfl, rfl⟩

/-! ### In-place slice operations (`sort`, …) -/

theorem mapSlice_inl {cap : Nat} {l : List α} (g : List α → List α) (h : l.length ≤ cap)
    (hg : (g l).length = l.length) : mapSlice (inl cap l) g = .ok (inl cap (g l)) := by
  have hd : (l.map some ++ List.replicate (cap - l.length) none).drop l.length
      = List.replicate (cap - l.length) (none : Option α) := by
    rw [List.drop_append_of_le_length (by simp)]; simp
  simp only [mapSlice, view_inl h]
  simp only [inl, if_pos h, storeSlots, hg, hd]

theorem mapSlice_fromVec (cap : Nat) (l : List α) (g : List α → List α) :
    mapSlice (fromVec cap l) g = .ok (fromVec cap (g l)) := by
  have h1 : ¬ cap + 1 ≤ cap := by omega
  simp only [mapSlice, view_fromVec]
  split
  · rename_i h; exact absurd h h1
  · rfl

/-- A length-preserving rewrite of the slice through `DerefMut` (`sort`, `swap`, `reverse`, …):
no UB, invariant kept, contents `g l`; the operation neither drops nor leaks (the model returns no
drop log for it). -/
theorem mapSlice_spec {s : SV α} (h : s.Inv) (g : List α → List α)
    (hg : (g s.toList).length = s.toList.length) :
    ∃ s', mapSlice s g = .ok s' ∧ s'.Inv ∧ s'.cap = s.cap ∧ s'.toList = g s.toList := by
  rcases h.cases with ⟨cap, l, hl, rfl⟩ | ⟨cap, l, rfl⟩
  · rw [toList_inl hl] at hg ⊢
    have hk : (g l).length ≤ cap := by omega
    exact ⟨_, mapSlice_inl g hl hg, inv_inl hk, rfl, toList_inl hk⟩
  · rw [toList_fromVec]
    exact ⟨_, mapSlice_fromVec cap l g, inv_fromVec _ _, rfl, toList_fromVec _ _⟩

/-! ### `Clone` -/

/-- `clone`: no UB, the clone satisfies the invariant, has the same capacity parameter and holds
the element-wise clones; nothing is dropped or leaked.  (The source is untouched: `clone` takes
`&self` and the model is a pure function of `s`.) -/
theorem clone_spec {s : SV α} (h : s.Inv) (cl : α → α) :
    ∃ r, clone s cl = .ok r ∧ r.sv.Inv ∧ r.sv.cap = s.cap ∧ r.sv.toList = s.toList.map cl ∧
      r.dropped = [] ∧ r.leaked = [] := by
  simp only [clone, view_eq h]
  split
  · obtain ⟨hi, hl, hc⟩ := new_spec (α := α) s.cap
    obtain ⟨r, hr, hinv, hcap, hlist, hd, hk⟩ := extend_spec (s.toList.map cl) hi
    exact ⟨r, hr, hinv, by rw [hcap, hc], by rw [hlist, hl]; rfl, hd, hk⟩
  · exact ⟨_, rfl, inv_fromVec _ _, rfl, toList_fromVec _ _, rfl, rfl⟩

/-! ### By-value iteration -/

/-- The iterator owns exactly the elements `rem` (in iteration order); every other slot is empty. -/
def Iter.Owns : Iter α → List α → Prop
  | .small arr i size, rem =>
    ∃ k, arr = List.replicate i none ++ (rem.map some ++ List.replicate k none) ∧ size = i + rem.length
  | .large rest, rem => rest = rem

/-- `n` calls of `next`; returns the elements yielded (calls after exhaustion yield nothing). -/
def Iter.nexts : Nat → Iter α → Except UB (List α × Iter α)
  | 0, it => .ok ([], it)
  | n + 1, it =>
    match it.next with
    | .error e => .error e
    | .ok (o, it') =>
      match Iter.nexts n it' with
      | .error e => .error e
      | .ok (ys, it'') => .ok (o.toList ++ ys, it'')

theorem intoIter_owns {s : SV α} (h : s.Inv) : (intoIter s).Owns s.toList := by
  rcases h.cases with ⟨cap, l, hl, rfl⟩ | ⟨cap, l, rfl⟩
  · rw [toList_inl hl]
    simp only [inl]
    simp only [intoIter, if_pos hl]
    exact ⟨cap - l.length, by simp, by simp⟩
  · rw [toList_fromVec]
    have h1 : ¬ cap + 1 ≤ cap := by omega
    simp only [fromVec]
    simp only [intoIter, if_neg h1]
    rfl

theorem Iter.next_cons {it : Iter α} {x : α} {rem : List α} (h : it.Owns (x :: rem)) :
    ∃ it', it.next = .ok (some x, it') ∧ it'.Owns rem := by
  cases it with
  | small arr i size =>
    obtain ⟨k, rfl, rfl⟩ := h
    have hlt : i < i + (x :: rem).length := by simp
    simp only [Iter.next, if_pos hlt, List.map_cons, List.cons_append]
    rw [slotTake_mid _ _ _ (by simp)]
    refine ⟨_, rfl, k, ?_, ?_⟩
    · rw [replicate_snoc_none]
    · simp; omega
  | large rest =>
    cases h
    exact ⟨_, rfl, rfl⟩

theorem Iter.next_nil {it : Iter α} (h : it.Owns []) : it.next = .ok (none, it) := by
  cases it with
  | small arr i size =>
    obtain ⟨k, rfl, hs⟩ := h
    have hlt : ¬ i < size := by simp at hs; omega
    simp only [Iter.next, if_neg hlt]
  | large rest =>
    cases h
    rfl

/-- `Drop for SmallVecIntoIter`: exactly the elements not yet yielded are dropped, nothing leaks. -/
theorem Iter.dropRest_owns {it : Iter α} {rem : List α} (h : it.Owns rem) :
    it.dropRest = .ok (rem, []) := by
  cases it with
  | small arr i size =>
    obtain ⟨k, rfl, rfl⟩ := h
    simp only [Iter.dropRest, Nat.add_sub_cancel_left]
    rw [slotsTake_mid rem _ _ i (by simp)]
    simp
  | large rest =>
    cases h
    rfl

/-- Any number of `next` calls yields the corresponding prefix of the owned elements, in order,
and leaves an iterator owning exactly the rest. -/
theorem Iter.nexts_owns (n : Nat) : ∀ {it : Iter α} {rem : List α}, it.Owns rem →
    ∃ it', Iter.nexts n it = .ok (rem.take n, it') ∧ it'.Owns (rem.drop n) := by
  induction n with
  | zero => intro it rem h; exact ⟨it, rfl, by simpa using h⟩
  | succ n ih =>
    intro it rem h
    cases rem with
    | nil =>
      obtain ⟨it', h1, h2⟩ := ih h
      refine ⟨it', ?_, by simpa using h2⟩
      simp only [Iter.nexts, Iter.next_nil h, h1]
      simp
    | cons x rem =>
      obtain ⟨it1, hn, ho⟩ := Iter.next_cons h
      obtain ⟨it', h1, h2⟩ := ih ho
      refine ⟨it', ?_, by simpa using h2⟩
      simp only [Iter.nexts, hn, h1]
      simp

/-! ### `Vec`-level facts about the specification functions -/

theorem vecRetainMut_fst (f : α → α × Bool) (l : List α) :
    (vecRetainMut f l).1 = ((l.map f).filter (fun p => p.2)).map (fun p => p.1) := by
  induction l with
  | nil => rfl
  | cons x xs ih =>
    simp only [vecRetainMut, List.map_cons]
    cases h : (f x).2 <;> simp [h, ih]

theorem vecRetainMut_snd (f : α → α × Bool) (l : List α) :
    (vecRetainMut f l).2 = ((l.map f).filter (fun p => !p.2)).map (fun p => p.1) := by
  induction l with
  | nil => rfl
  | cons x xs ih =>
    simp only [vecRetainMut, List.map_cons]
    cases h : (f x).2 <;> simp [h, ih]

/-- `retain_mut` conserves the (mutated) elements: dropped ones plus kept ones are a permutation of
the old contents after the predicate's mutation. -/
theorem vecRetainMut_perm (f : α → α × Bool) (l : List α) :
    ((vecRetainMut f l).2 ++ (vecRetainMut f l).1).Perm (l.map (fun x => (f x).1)) := by
  induction l with
  | nil => exact List.Perm.refl _
  | cons x xs ih =>
    simp only [vecRetainMut, List.map_cons]
    cases h : (f x).2
    · simpa [h] using ih
    · simp only [if_true]
      exact List.perm_middle.trans (List.Perm.cons _ ih)

/-- `dedup` conserves the elements. -/
theorem vecDedup_perm (eq : α → α → Bool) (l : List α) :
    ((vecDedup eq l).2 ++ (vecDedup eq l).1).Perm l := by
  fun_induction vecDedup eq l with
  | case1 => exact List.Perm.refl _
  | case2 x => exact List.Perm.refl _
  | case3 x y rest hxy ks ds hrec ih =>
    simp only [hrec] at ih
    -- ds ++ ks ~ x :: rest  ⊢  (y :: ds) ++ ks ~ x :: y :: rest
    exact (List.Perm.cons y ih).trans (List.Perm.swap x y rest)
  | case4 x y rest hxy ks ds hrec ih =>
    simp only [hrec] at ih
    -- ds ++ ks ~ y :: rest  ⊢  ds ++ x :: ks ~ x :: y :: rest
    exact List.perm_middle.trans (List.Perm.cons x ih)

/-! ### The defect that was repaired: the original `retain`/`dedup` did not drop rejected elements -/

/-- Witness for `retain`: inline `[1, 2]` (`N = 2`), predicate rejecting everything. -/
def leakWitness : SV Nat := inl 2 [1, 2]

/-- Witness for `dedup`: inline `[1, 1]` (`N = 2`). -/
def leakWitnessDedup : SV Nat := inl 2 [1, 1]

theorem leakWitness_inv : leakWitness.Inv := inv_inl (by decide)
theorem leakWitnessDedup_inv : leakWitnessDedup.Inv := inv_inl (by decide)

/-- An inline state with an initialised slot at or beyond `size` violates the invariant: that
value is owned by nobody and will never be dropped. -/
theorem not_inv_of_dead_slot {s : SV α} {v : α} (i : Nat) (hs : s.size ≤ i) (hc : i < s.cap)
    (h0 : s.arr[i]? = some (some v)) : ¬ s.Inv := by
  intro h
  rcases h.shape with ⟨_, _, hnone, _⟩ | ⟨hsz, _⟩
  · have := hnone i hs hc
    rw [h0] at this
    cases this
  · omega

end SmallVec
end Hpbf
