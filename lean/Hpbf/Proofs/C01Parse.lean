/-
C01, level 0, part 6: the simulation between the canonical machine running the bracket tree `p` and
the IR interpreter running `Ir.parse` of the same text, and its consequences.
-/
import Hpbf.Proofs.C01Special

namespace Hpbf
namespace C01
open Ir Sim

variable {w : Nat}

/-! ### Decomposition of `block` -/

theorem block_nil (f : Fr w) : block .nil f = addsOf (bsorted f.buff) := by
  simp [block, comp]

theorem block_cmd (op : Op) (r : Prog) (f : Fr w) :
    block (.cmd op r) f = (compOp op f).1 ++ block r (compOp op f).2 := by
  simp [block, comp, List.append_assoc]

theorem block_loop (b r : Prog) (f : Fr w) :
    block (.loop b r) f =
      (closeI (comp b (fresh f.shift)).1 (comp b (fresh f.shift)).2 f).1 ++
        block r (closeI (comp b (fresh f.shift)).1 (comp b (fresh f.shift)).2 f).2 := by
  simp [block, comp, List.append_assoc]

theorem closeI_special {ib : List (Instr w)} {fb par : Fr w} (hs : isSpecial ib fb par = true) :
    closeI ib fb par = ([Instr.load par.shift 0#w], { par with buff := bset par.buff par.shift 0#w }) := by
  unfold closeI; rw [if_pos hs]

/-- Executing the flushes that precede a non-folded loop. -/
theorem closeI_general_exec {ib : List (Instr w)} {fb par : Fr w} {D : Int → BitVec w} {sb si : State w}
    (hs : isSpecial ib fb par = false) (hwf : WF par) (h : StRel D par sb si)
    (rest : List (Instr w)) (ks : List (Cont w)) (bud : Nat) :
    ∃ n si', Steps (IrM w) n ⟨(closeI ib fb par).1 ++ rest, ks, bud, si⟩
        ⟨.loop par.shift (fb.shift - par.shift) (bodyInsts ib fb) false :: rest, ks, bud, si'⟩ ∧
      StRel D (closeI ib fb par).2 sb si' ∧ si'.ptr = si.ptr := by
  unfold closeI
  rw [if_neg (by simp [hs])]
  simp only [List.append_assoc]
  obtain ⟨n1, si1, hs1, hr1, hp1⟩ := flushMany_exec ((bsorted fb.buff).map (·.1)) h
    ((if unb fb par then addsOf (bsorted (flushManyI par.buff ((bsorted fb.buff).map (·.1))).2) else []) ++
      ((flushOneI (if unb fb par then (flushManyI par.buff ((bsorted fb.buff).map (·.1))).2.map (fun kv => (kv.1, 0#w))
          else (flushManyI par.buff ((bsorted fb.buff).map (·.1))).2) par.shift).1 ++
        ([.loop par.shift (fb.shift - par.shift) (bodyInsts ib fb) false] ++ rest))) ks bud
  have hn1 : (keys (flushManyI par.buff ((bsorted fb.buff).map (·.1))).2).Nodup := nodup_flushManyI _ _ hwf
  by_cases hu : unb fb par = true
  · simp only [hu, if_true] at hs1 ⊢
    obtain ⟨n2, si2, hs2, hr2, hp2⟩ := flushAll_exec hn1 hr1
      ((flushManyI par.buff ((bsorted fb.buff).map (·.1))).2.map (fun kv => (kv.1, 0#w)))
      (pend_map_zero _) true
      ((flushOneI ((flushManyI par.buff ((bsorted fb.buff).map (·.1))).2.map (fun kv => (kv.1, 0#w))) par.shift).1 ++
        ([.loop par.shift (fb.shift - par.shift) (bodyInsts ib fb) false] ++ rest)) ks bud
    obtain ⟨n3, si3, hs3, hr3, hp3⟩ := flushOne_exec hr2 par.shift
      ([.loop par.shift (fb.shift - par.shift) (bodyInsts ib fb) false] ++ rest) ks bud
    exact ⟨n1 + n2 + n3, si3, (hs1.trans hs2).trans hs3, hr3, by rw [hp3, hp2, hp1]⟩
  · have hu' : unb fb par = false := by simpa using hu
    simp only [hu', Bool.false_eq_true, if_false, List.nil_append] at hs1 ⊢
    obtain ⟨n3, si3, hs3, hr3, hp3⟩ := flushOne_exec hr1 par.shift
      ([.loop par.shift (fb.shift - par.shift) (bodyInsts ib fb) false] ++ rest) ks bud
    exact ⟨n1 + n3, si3, hs1.trans hs3, hr3, by rw [hp3, hp1]⟩

/-! ### The simulation relation -/

/-- The pending increments `D` of the enclosing frames do not touch what the current block (with
final frame `E`, running with IR pointer `base`) reads or writes. -/
def Compat (D : Int → BitVec w) (E : Fr w) (base : Int) : Prop :=
  (E.moved = true → ∀ x, D x = 0#w) ∧ (∀ a, a ∈ keys E.buff → D (base + a) = 0#w)

theorem Compat.rebase {D : Int → BitVec w} {E : Fr w} {b1 : Int} (h : Compat D E b1)
    (hm : E.moved = true) (b2 : Int) : Compat D E b2 :=
  ⟨h.1, fun _ _ => h.1 hm _⟩

/-- Relation between the continuation stacks.  `D'` is the sum of the pending increments of all
enclosing frames, `E` the final frame of the innermost block, `base` the IR pointer in it. -/
inductive ContsRel : (Int → BitVec w) → Fr w → Int → List Prog → List (Cont w) → Prop
  | nil {D : Int → BitVec w} {E : Fr w} {base : Int} : (∀ x, D x = 0#w) → ContsRel D E base [] []
  | cons {D' : Int → BitVec w} {E : Fr w} {base : Int} (D : Int → BitVec w) (P : Fr w) (sh basePar : Int)
      (b rest : Prog) (ks : List Prog) (iks : List (Cont w)) :
      P.shift = sh → WF P →
      E = (comp b (fresh sh)).2 →
      sh ∈ keys P.buff → pend P.buff sh = 0#w →
      (∀ a, a ∈ keys E.buff → a ∈ keys P.buff ∧ pend P.buff a = 0#w) →
      (unb E P = true → P.moved = true ∧ ∀ a, pend P.buff a = 0#w) →
      (unb E P = false → base = basePar) →
      (∀ x, D' x = D x + pend P.buff (x - basePar)) →
      Compat D (comp rest P).2 basePar →
      ContsRel D (comp rest P).2 basePar ks iks →
      ContsRel D' E base (.loop b rest :: ks)
        (.loopEnd sh (E.shift - sh) (block b (fresh sh)) (block rest P) :: iks)

theorem ContsRel.rebase {D : Int → BitVec w} {E : Fr w} {b1 : Int} {ks : List Prog} {iks : List (Cont w)}
    (h : ContsRel D E b1 ks iks) (hm : E.moved = true) (b2 : Int) : ContsRel D E b2 ks iks := by
  cases h with
  | nil h0 => exact ContsRel.nil h0
  | cons D0 P sh basePar b rest ks iks h1 h2 h3 h4 h5 h6 h7 h8 h9 h10 h11 =>
    refine ContsRel.cons D0 P sh basePar b rest ks iks h1 h2 h3 h4 h5 h6 h7 ?_ h9 h10 h11
    intro hu
    simp [unb, hm] at hu

/-- The simulation relation between configurations. -/
def R (cb : Bf.Config w) (ci : Ir.Cfg w) : Prop :=
  ∃ (D : Int → BitVec w) (f : Fr w), WF f ∧ ci.cur = block cb.cur f ∧ StRel D f cb.st ci.st ∧
    Compat D (comp cb.cur f).2 ci.st.ptr ∧ ContsRel D (comp cb.cur f).2 ci.st.ptr cb.conts ci.conts

def mu (cb : Bf.Config w) : Nat := Prog.size cb.cur

abbrev CH (w : Nat) := Chunk (BfM w) (IrM w) (R (w := w)) (mu (w := w))

theorem tr_eq_of_R {cb : Bf.Config w} {ci : Ir.Cfg w} (h : R cb ci) : (BfM w).tr cb = (IrM w).tr ci := by
  obtain ⟨D, f, _, _, hst, _, _⟩ := h
  exact hst.trace

/-! ### The cases -/

theorem chunk_silent {op : Op} (hop : op = .inc ∨ op = .dec ∨ op = .left ∨ op = .right)
    {r : Prog} {ks : List Prog} {iks : List (Cont w)} {bud : Nat} {sb si : State w}
    {D : Int → BitVec w} {f : Fr w} (hwf : WF f) (hst : StRel D f sb si)
    (hc : Compat D (comp (.cmd op r) f).2 si.ptr)
    (hk : ContsRel D (comp (.cmd op r) f).2 si.ptr ks iks) :
    CH w ⟨.cmd op r, ks, sb⟩ ⟨block (.cmd op r) f, iks, bud, si⟩ := by
  obtain ⟨h1, h2, h3, h4⟩ := hst.silent op hop
  refine Chunk.silent ⟨r, ks, (Bf.applyOp op sb).2⟩ ?_ ?_ ?_ h2
  · rw [bstep_cmd, if_pos h1]
  · refine ⟨D, (compOp op f).2, compOp_wf op f hwf, ?_, h4, hc, hk⟩
    show block (.cmd op r) f = block r (compOp op f).2
    rw [block_cmd, h3]; rfl
  · show Prog.size r < Prog.size r + 1
    omega

theorem chunk_nil_halt {bud : Nat} {sb si : State w} {D : Int → BitVec w} {f : Fr w} (hwf : WF f)
    (hst : StRel D f sb si) :
    CH w ⟨.nil, [], sb⟩ ⟨block .nil f, [], bud, si⟩ := by
  obtain ⟨n, si1, hs1, hr1, _⟩ := flushAll_exec hwf hst [] (by simp) false [] [] bud
  rw [List.append_nil, ← block_nil] at hs1
  refine Chunk.fin 0 n true sb.trace ⟨_, Steps.refl _, bstep_nil_nil sb⟩ ⟨_, hs1, ?_⟩ (by simp [BfM])
  rw [istep_end_nil, hr1.trace]

theorem bstep_out (r : Prog) (ks : List Prog) (st : State w) :
    (BfM w).step ⟨.cmd .out r, ks, st⟩ =
      if (st.output 0).1 = true then .next ⟨r, ks, (st.output 0).2⟩
      else .fin false (st.output 0).2.trace := bstep_cmd .out r ks st

theorem bstep_inp (r : Prog) (ks : List Prog) (st : State w) :
    (BfM w).step ⟨.cmd .inp r, ks, st⟩ =
      if (st.input 0).1 = true then .next ⟨r, ks, (st.input 0).2⟩
      else .fin false (st.input 0).2.trace := bstep_cmd .inp r ks st

theorem chunk_out {r : Prog} {ks : List Prog} {iks : List (Cont w)} {bud : Nat} {sb si : State w}
    {D : Int → BitVec w} {f : Fr w} (hwf : WF f) (hst : StRel D f sb si)
    (hc : Compat D (comp (.cmd .out r) f).2 si.ptr)
    (hk : ContsRel D (comp (.cmd .out r) f).2 si.ptr ks iks) :
    CH w ⟨.cmd .out r, ks, sb⟩ ⟨block (.cmd .out r) f, iks, bud, si⟩ := by
  have hwf1 : WF (compOp .out f).2 := compOp_wf .out f hwf
  have hle := (comp_le r (compOp .out f).2 hwf1).1
  obtain ⟨n, si1, hs1, hr1, hp1⟩ := flushOne_exec hst f.shift (.output f.shift :: block r (compOp .out f).2) iks bud
  have hblock : block (.cmd .out r) f =
      (flushOneI f.buff f.shift).1 ++ (.output f.shift :: block r (compOp .out f).2) := by
    rw [block_cmd]; simp [compOp]
  rw [hblock]
  have hr1' : StRel D (compOp .out f).2 sb si1 := hr1
  have hmem : f.shift ∈ keys (compOp .out f).2.buff := (mem_keys_flushOneI _ _ _).mpr (Or.inl rfl)
  have hD0 : D (si1.ptr + f.shift) = 0#w := by rw [hp1]; exact hc.2 _ (hle.1 _ hmem)
  have hp0 : pend (compOp .out f).2.buff f.shift = 0#w := by
    show pend (flushOneI f.buff f.shift).2 f.shift = 0#w
    rw [pend_flushOneI]; simp
  have hrd : sb.rd 0 = si1.rd f.shift := hr1'.rd0 hp0 hD0
  obtain ⟨ho1, ho2, ho3⟩ := output_rel hr1' hrd
  have hsh : (compOp (w := w) .out f).2.shift = f.shift := rfl
  rw [hsh] at ho1 ho2 ho3
  by_cases hok : (sb.output 0).1 = true
  · have hok' : (si1.output f.shift).1 = true := by rw [← ho1]; exact hok
    refine Chunk.sync 0 n ⟨r, ks, (sb.output 0).2⟩ ⟨block r (compOp .out f).2, iks, bud, (si1.output f.shift).2⟩
      (Steps.one ?_) (hs1.snoc ?_) ?_ ?_
    · rw [bstep_out, if_pos hok]
    · rw [istep_output, if_pos hok']
    · refine ⟨D, (compOp .out f).2, hwf1, rfl, ho2, ?_, ?_⟩
      · show Compat D (comp (.cmd .out r) f).2 (si1.output f.shift).2.ptr
        rw [output_ptr, hp1]; exact hc
      · show ContsRel D (comp (.cmd .out r) f).2 (si1.output f.shift).2.ptr ks iks
        rw [output_ptr, hp1]; exact hk
    · exact output_trace_len sb 0
  · have hok' : ¬ (si1.output f.shift).1 = true := by rw [← ho1]; exact hok
    refine Chunk.fin 0 n false (sb.output 0).2.trace ⟨_, Steps.refl _, ?_⟩ ⟨_, hs1, ?_⟩ (output_trace_len sb 0)
    · rw [bstep_out, if_neg hok]
    · rw [istep_output, if_neg hok', ho3]

theorem chunk_inp {r : Prog} {ks : List Prog} {iks : List (Cont w)} {bud : Nat} {sb si : State w}
    {D : Int → BitVec w} {f : Fr w} (hwf : WF f) (hst : StRel D f sb si)
    (hc : Compat D (comp (.cmd .inp r) f).2 si.ptr)
    (hk : ContsRel D (comp (.cmd .inp r) f).2 si.ptr ks iks) :
    CH w ⟨.cmd .inp r, ks, sb⟩ ⟨block (.cmd .inp r) f, iks, bud, si⟩ := by
  have hwf1 : WF (compOp .inp f).2 := compOp_wf .inp f hwf
  have hle := (comp_le r (compOp .inp f).2 hwf1).1
  have hblock : block (.cmd .inp r) f = .input f.shift :: block r (compOp .inp f).2 := by
    rw [block_cmd]; simp [compOp]
  rw [hblock]
  have hmem : f.shift ∈ keys (compOp .inp f).2.buff := (mem_keys_bset _ _ _ _).mpr (Or.inl rfl)
  have hD0 : D (si.ptr + f.shift) = 0#w := hc.2 _ (hle.1 _ hmem)
  obtain ⟨hi1, hi2, hi3⟩ := input_rel hst hD0
  by_cases hok : (sb.input 0).1 = true
  · have hok' : (si.input f.shift).1 = true := by rw [← hi1]; exact hok
    obtain ⟨hr, hp⟩ := hi3 hok
    refine Chunk.sync 0 0 ⟨r, ks, (sb.input 0).2⟩ ⟨block r (compOp .inp f).2, iks, bud, (si.input f.shift).2⟩
      (Steps.one ?_) (Steps.one ?_) ?_ ?_
    · rw [bstep_inp, if_pos hok]
    · rw [istep_input, if_pos hok']
    · refine ⟨D, (compOp .inp f).2, hwf1, rfl, hr, ?_, ?_⟩
      · show Compat D (comp (.cmd .inp r) f).2 (si.input f.shift).2.ptr
        rw [hp]; exact hc
      · show ContsRel D (comp (.cmd .inp r) f).2 (si.input f.shift).2.ptr ks iks
        rw [hp]; exact hk
    · exact input_trace_len sb 0
  · have hok' : ¬ (si.input f.shift).1 = true := by rw [← hi1]; exact hok
    refine Chunk.fin 0 0 false (sb.input 0).2.trace ⟨_, Steps.refl _, ?_⟩ ⟨_, Steps.refl _, ?_⟩ (input_trace_len sb 0)
    · rw [bstep_inp, if_neg hok]
    · rw [istep_input, if_neg hok', hi2]

theorem unb_false {E P : Fr w} (h : unb E P = false) : E.moved = false ∧ E.shift = P.shift := by
  simpa [unb] using h

theorem chunk_nil_pop {b rest : Prog} {ks : List Prog} {iks0 : List (Cont w)} {bud : Nat}
    {sb si : State w} {D' : Int → BitVec w} {f : Fr w} (hwf : WF f) (hst : StRel D' f sb si)
    (hc : Compat D' f si.ptr) (hk : ContsRel D' f si.ptr (.loop b rest :: ks) iks0) :
    CH w ⟨.nil, .loop b rest :: ks, sb⟩ ⟨block .nil f, iks0, bud, si⟩ := by
  cases hk with
  | cons D P sh basePar _ _ _ iks hsh hwfP hE hcm hcz hbk hunb hbase hD hcP hkP =>
  subst hsh
  obtain ⟨n, si1, hs1, hr1, hp1⟩ := flushAll_exec hwf hst [] (by simp) false []
    (.loopEnd P.shift (f.shift - P.shift) (block b (fresh P.shift)) (block rest P) :: iks) bud
  rw [List.append_nil, ← block_nil] at hs1
  have hlePar := (comp_le rest P hwfP).1
  -- the IR state after the pointer move at the end of the block
  have hbal : unb f P = false → (si1.mov (f.shift - P.shift)).ptr = basePar := by
    intro hu
    have := (unb_false hu).2
    show si1.ptr + (f.shift - P.shift) = basePar
    rw [hp1, hbase hu]; omega
  have hmovedPar : unb f P = true → (comp rest P).2.moved = true := fun hu => hlePar.2 (hunb hu).1
  have hstP : StRel D P sb (si1.mov (f.shift - P.shift)) := by
    refine ⟨hr1.env, hr1.trace, ?_, ?_⟩
    · show sb.ptr = si1.ptr + (f.shift - P.shift) + P.shift
      have := hr1.ptr
      simp only at this
      omega
    · intro x
      have h1 := hr1.tape x
      simp only [pend_nil, BitVec.add_zero] at h1
      show sb.tape.get x = si1.tape.get x + pend P.buff (x - (si1.mov (f.shift - P.shift)).ptr) + D x
      rw [h1, hD]
      cases hu : unb f P with
      | false => rw [hbal hu]; ac_rfl
      | true => rw [(hunb hu).2, (hunb hu).2]; ac_rfl
  have hcP2 : Compat D (comp rest P).2 (si1.mov (f.shift - P.shift)).ptr := by
    cases hu : unb f P with
    | false => rw [hbal hu]; exact hcP
    | true => exact hcP.rebase (hmovedPar hu) _
  have hkP2 : ContsRel D (comp rest P).2 (si1.mov (f.shift - P.shift)).ptr ks iks := by
    cases hu : unb f P with
    | false => rw [hbal hu]; exact hkP
    | true => exact hkP.rebase (hmovedPar hu) _
  have hrd : sb.rd 0 = (si1.mov (f.shift - P.shift)).rd P.shift :=
    hstP.rd0 hcz (hcP2.2 _ (hlePar.1 _ hcm))
  have sB1 : Steps (BfM w) 1 ⟨.nil, .loop b rest :: ks, sb⟩ ⟨.loop b rest, ks, sb⟩ :=
    Steps.one (bstep_nil_cons _ _ _)
  by_cases h0 : sb.rd 0 = 0#w
  · have h0' : (si1.mov (f.shift - P.shift)).rd P.shift = 0#w := by rw [← hrd]; exact h0
    refine Chunk.sync 1 n ⟨rest, ks, sb⟩ ⟨block rest P, iks, bud, si1.mov (f.shift - P.shift)⟩
      (sB1.snoc ?_) (hs1.snoc ?_) ?_ (by simp [BfM])
    · rw [bstep_loop, if_pos h0]
    · rw [istep_end_loop, if_pos h0']
    · exact ⟨D, P, hwfP, rfl, hstP, hcP2, hkP2⟩
  · have h0' : ¬ (si1.mov (f.shift - P.shift)).rd P.shift = 0#w := by rw [← hrd]; exact h0
    refine Chunk.sync 1 n ⟨b, .loop b rest :: ks, sb⟩
      ⟨block b (fresh P.shift),
        .loopEnd P.shift (f.shift - P.shift) (block b (fresh P.shift)) (block rest P) :: iks, bud,
        si1.mov (f.shift - P.shift)⟩
      (sB1.snoc ?_) (hs1.snoc ?_) ?_ (by simp [BfM])
    · rw [bstep_loop, if_neg h0]
    · rw [istep_end_loop, if_neg h0']
    · refine ⟨D', fresh P.shift, wf_fresh _, rfl, ?_, ?_, ?_⟩
      · refine ⟨hr1.env, hr1.trace, hstP.ptr, ?_⟩
        intro x
        have h1 := hr1.tape x
        simp only [pend_nil] at h1
        show sb.tape.get x = si1.tape.get x + pend (fresh (w := w) P.shift).buff _ + D' x
        rw [h1]; rfl
      · show Compat D' (comp b (fresh P.shift)).2 (si1.mov (f.shift - P.shift)).ptr
        rw [← hE]
        refine ⟨hc.1, ?_⟩
        intro a ha
        cases hu : unb f P with
        | false =>
          rw [hbal hu, ← hbase hu]; exact hc.2 a ha
        | true =>
          rw [hD, (hunb hu).2, hcP.1 (hmovedPar hu)]; simp
      · show ContsRel D' (comp b (fresh P.shift)).2 (si1.mov (f.shift - P.shift)).ptr _ _
        rw [← hE]
        exact ContsRel.cons D P P.shift basePar b rest ks iks rfl hwfP hE hcm hcz hbk hunb hbal hD hcP hkP

theorem chunk_loop_special (hw : 0 < w) {b rest : Prog} {ks : List Prog} {iks : List (Cont w)} {bud : Nat}
    {sb si : State w} {D : Int → BitVec w} {f : Fr w} (hwf : WF f) (hst : StRel D f sb si)
    (hc : Compat D (comp (.loop b rest) f).2 si.ptr)
    (hk : ContsRel D (comp (.loop b rest) f).2 si.ptr ks iks)
    (hs : isSpecial (comp b (fresh f.shift)).1 (comp b (fresh f.shift)).2 f = true) :
    CH w ⟨.loop b rest, ks, sb⟩ ⟨block (.loop b rest) f, iks, bud, si⟩ := by
  obtain ⟨hib, _, hshift, c, hodd, hpend⟩ :=
    isSpecial_elim (comp_shape b _) (comp_le b (fresh f.shift) (wf_fresh _)).2 hs
  have hcl := closeI_special hs
  have hblock : block (.loop b rest) f =
      Instr.load f.shift 0#w :: block rest { f with buff := bset f.buff f.shift 0#w } := by
    rw [block_loop, hcl]; rfl
  have hE : (comp (.loop b rest) f).2 = (comp rest { f with buff := bset f.buff f.shift 0#w }).2 := by
    simp only [comp]; rw [hcl]
  rw [hblock]
  rw [hE] at hc hk
  have hwfP : WF ({ f with buff := bset f.buff f.shift 0#w } : Fr w) := nodup_keys_bset _ _ _ hwf
  have hle := (comp_le rest _ hwfP).1
  have hmem : f.shift ∈ keys ({ f with buff := bset f.buff f.shift 0#w } : Fr w).buff :=
    (mem_keys_bset _ _ _ _).mpr (Or.inl rfl)
  have hD0 : D (si.ptr + f.shift) = 0#w := hc.2 _ (hle.1 _ hmem)
  obtain ⟨m, sb', hsB, hp', he', ht', hg'⟩ :=
    loop_zero_of_iter hw c hodd b rest (special_iter hib hshift hpend) ks sb
  refine Chunk.sync m 0 ⟨rest, ks, sb'⟩
    ⟨block rest { f with buff := bset f.buff f.shift 0#w }, iks, bud, si.wr f.shift 0#w⟩
    hsB (Steps.one (step_load_zero _ _ _ _ _)) ?_ (by simp [BfM, ht'])
  refine ⟨D, _, hwfP, rfl, ⟨by rw [he']; exact hst.env, by rw [ht']; exact hst.trace,
    by rw [hp']; exact hst.ptr, ?_⟩, hc, hk⟩
  intro x
  rw [hg', tape_wr, pend_bset]
  have hptr : (si.wr f.shift 0#w).ptr = si.ptr := rfl
  rw [hptr]
  by_cases hx : x = sb.ptr
  · have hx1 : x = si.ptr + f.shift := by rw [hx]; exact hst.ptr
    have hx2 : x - si.ptr = f.shift := by omega
    rw [if_pos hx, if_pos hx1, if_pos hx2, hx1, hD0]; simp
  · have hx1 : ¬ x = si.ptr + f.shift := by rw [← hst.ptr]; exact hx
    have hx2 : ¬ x - si.ptr = f.shift := by omega
    rw [if_neg hx, if_neg hx1, if_neg hx2]
    exact hst.tape x

theorem chunk_loop_general {b rest : Prog} {ks : List Prog} {iks : List (Cont w)} {bud : Nat}
    {sb si : State w} {D : Int → BitVec w} {f : Fr w} (hwf : WF f) (hst : StRel D f sb si)
    (hc : Compat D (comp (.loop b rest) f).2 si.ptr)
    (hk : ContsRel D (comp (.loop b rest) f).2 si.ptr ks iks)
    (hs : isSpecial (comp b (fresh f.shift)).1 (comp b (fresh f.shift)).2 f = false) :
    CH w ⟨.loop b rest, ks, sb⟩ ⟨block (.loop b rest) f, iks, bud, si⟩ := by
  have cp := closeI_props (comp b (fresh f.shift)).1 (comp b (fresh f.shift)).2 f hwf
  have gp := closeI_general_props (comp b (fresh f.shift)).1 (comp b (fresh f.shift)).2 f hs
  rw [block_loop]
  have hE : (comp (.loop b rest) f).2 =
      (comp rest (closeI (comp b (fresh f.shift)).1 (comp b (fresh f.shift)).2 f).2).2 := rfl
  rw [hE] at hc hk
  generalize hP : (closeI (comp b (fresh f.shift)).1 (comp b (fresh f.shift)).2 f).2 = P at cp gp hc hk
  obtain ⟨n, si3, hs3, hr3, hp3⟩ := closeI_general_exec hs hwf hst (block rest P) iks bud
  rw [hP] at hr3
  have hle := (comp_le rest P cp.wf).1
  have hD0 : D (si3.ptr + P.shift) = 0#w := by
    rw [hp3, cp.shift]; exact hc.2 _ (hle.1 _ cp.cond_mem)
  have hrd : sb.rd 0 = si3.rd f.shift := by
    have := hr3.rd0 (by rw [cp.shift]; exact cp.cond_zero) hD0
    rw [cp.shift] at this; exact this
  have hbody : bodyInsts (comp (w := w) b (fresh f.shift)).1 (comp b (fresh f.shift)).2 =
      block b (fresh f.shift) := rfl
  rw [hbody] at hs3
  by_cases h0 : sb.rd 0 = 0#w
  · have h0' : si3.rd f.shift = 0#w := by rw [← hrd]; exact h0
    refine Chunk.sync 0 n ⟨rest, ks, sb⟩ ⟨block rest P, iks, bud, si3⟩
      (Steps.one ?_) (hs3.snoc ?_) ?_ (by simp [BfM])
    · rw [bstep_loop, if_pos h0]
    · rw [istep_loop, if_pos h0']
    · refine ⟨D, P, cp.wf, rfl, hr3, ?_, ?_⟩
      · show Compat D (comp rest P).2 si3.ptr
        rw [hp3]; exact hc
      · show ContsRel D (comp rest P).2 si3.ptr ks iks
        rw [hp3]; exact hk
  · have h0' : ¬ si3.rd f.shift = 0#w := by rw [← hrd]; exact h0
    refine Chunk.sync 0 n ⟨b, .loop b rest :: ks, sb⟩
      (⟨block b (fresh f.shift),
        .loopEnd f.shift ((comp (w := w) b (fresh f.shift)).2.shift - f.shift) (block b (fresh f.shift))
          (block rest P) :: iks,
        bud, si3⟩ : Ir.Cfg w)
      (Steps.one ?_) (hs3.snoc ?_) ?_ (by simp [BfM])
    · rw [bstep_loop, if_neg h0]
    · rw [istep_loop, if_neg h0']
    · have hunbP : unb (comp b (fresh f.shift)).2 P = unb (comp b (fresh f.shift)).2 f := by
        simp [unb, cp.shift]
      have hmovedPar : unb (comp b (fresh f.shift)).2 f = true → (comp rest P).2.moved = true :=
        fun hu => hle.2 (gp.unb_zero hu).1
      refine ⟨fun x => D x + pend P.buff (x - si3.ptr), fresh f.shift, wf_fresh _, rfl, ?_, ?_, ?_⟩
      · refine ⟨hr3.env, hr3.trace, by rw [hr3.ptr, cp.shift]; rfl, ?_⟩
        intro x
        show sb.tape.get x = si3.tape.get x + pend (fresh (w := w) f.shift).buff _ + (D x + pend P.buff (x - si3.ptr))
        rw [hr3.tape x]
        simp only [fresh, pend_nil, BitVec.add_zero]
        ac_rfl
      · show Compat _ (comp b (fresh f.shift)).2 si3.ptr
        constructor
        · intro hm x
          have hu : unb (comp b (fresh f.shift)).2 f = true := by simp [unb, hm]
          show D x + pend P.buff (x - si3.ptr) = 0#w
          rw [(gp.unb_zero hu).2, hc.1 (hmovedPar hu)]; simp
        · intro a ha
          show D (si3.ptr + a) + pend P.buff (si3.ptr + a - si3.ptr) = 0#w
          have e : si3.ptr + a - si3.ptr = a := by omega
          rw [e, (gp.body_keys a ha).2, hp3, hc.2 a (hle.1 _ (gp.body_keys a ha).1)]; simp
      · show ContsRel _ (comp b (fresh f.shift)).2 si3.ptr _ _
        refine ContsRel.cons D P f.shift si3.ptr b rest ks iks cp.shift cp.wf rfl cp.cond_mem cp.cond_zero
          gp.body_keys ?_ (fun _ => rfl) (fun _ => rfl) ?_ ?_
        · rw [hunbP]; exact gp.unb_zero
        · rw [hp3]; exact hc
        · rw [hp3]; exact hk

/-- Every pair of related configurations makes progress together. -/
theorem chunk (hw : 0 < w) {cb : Bf.Config w} {ci : Ir.Cfg w} (h : R cb ci) : CH w cb ci := by
  obtain ⟨cur, ks, sb⟩ := cb
  obtain ⟨icur, iks, bud, si⟩ := ci
  obtain ⟨D, f, hwf, hcur, hst, hc, hk⟩ := h
  simp only at hcur hst hc hk
  subst hcur
  cases cur with
  | nil =>
    cases ks with
    | nil =>
      cases hk with
      | nil _ => exact chunk_nil_halt hwf hst
    | cons k ks =>
      cases hk with
      | cons D0 P sh basePar b rest _ iks' h1 h2 h3 h4 h5 h6 h7 h8 h9 h10 h11 =>
        exact chunk_nil_pop hwf hst hc
          (ContsRel.cons D0 P sh basePar b rest ks iks' h1 h2 h3 h4 h5 h6 h7 h8 h9 h10 h11)
  | cmd op r =>
    cases op with
    | inc => exact chunk_silent (Or.inl rfl) hwf hst hc hk
    | dec => exact chunk_silent (Or.inr (Or.inl rfl)) hwf hst hc hk
    | left => exact chunk_silent (Or.inr (Or.inr (Or.inl rfl))) hwf hst hc hk
    | right => exact chunk_silent (Or.inr (Or.inr (Or.inr rfl))) hwf hst hc hk
    | inp => exact chunk_inp hwf hst hc hk
    | out => exact chunk_out hwf hst hc hk
  | loop b rest =>
    cases hs : isSpecial (comp b (fresh f.shift)).1 (comp b (fresh f.shift)).2 f with
    | true => exact chunk_loop_special hw hwf hst hc hk hs
    | false => exact chunk_loop_general hwf hst hc hk hs

theorem simulation (hw : 0 < w) : Simulation (BfM w) (IrM w) (R (w := w)) (mu (w := w)) where
  monoA := mono_BfM
  monoB := mono_IrM
  tr_eq := tr_eq_of_R
  chunk := chunk hw

/-! ### Consequences for `Bf.run` / `Ir.run` -/

/-- Events of any outcome of the canonical machine (most recent first). -/
def traceOfBf : Bf.Outcome w → List Ev
  | .done s => s.trace
  | .stopped s => s.trace
  | .outOfFuel c => c.st.trace

/-- Events of any outcome of the IR interpreter (most recent first). -/
def traceOf : Ir.Outcome w → List Ev
  | .done c => c.st.trace
  | .stopped c => c.st.trace
  | .interrupted c => c.st.trace
  | .outOfFuel c => c.st.trace

theorem trace_obsBf (o : Bf.Outcome w) : (obsBf o).trace = traceOfBf o := by cases o <;> rfl
theorem trace_obsIr (o : Ir.Outcome w) : (obsIr o).trace = traceOf o := by cases o <;> rfl

theorem R_init {src : List Kind} {p : Prog} (hp : Bf.tree src = some p) {b : Block w}
    (hb : Ir.parse (w := w) src = .ok b) (env : Env) :
    R ⟨p, [], State.init env⟩ ⟨b.insts, [], 0, State.init env⟩ := by
  rw [parse_of_tree hp] at hb
  cases hb
  refine ⟨fun _ => 0#w, fresh 0, wf_fresh 0, rfl, ⟨rfl, rfl, rfl, ?_⟩, ⟨fun _ _ => rfl, fun _ _ => rfl⟩,
    ContsRel.nil (fun _ => rfl)⟩
  intro x; simp [fresh, State.init]

theorem obsIr_fin_true {o : Ir.Outcome w} {t : List Ev} (h : obsIr o = .fin true t)
    (hni : ∀ c, o ≠ .interrupted c) : ∃ c, o = .done c ∧ c.st.trace = t := by
  cases o with
  | done c => simp only [obsIr, Out.fin.injEq, true_and] at h; exact ⟨c, rfl, h⟩
  | stopped c => simp [obsIr] at h
  | interrupted c => exact absurd rfl (hni c)
  | outOfFuel c => simp [obsIr] at h

theorem obsIr_fin_false {o : Ir.Outcome w} {t : List Ev} (h : obsIr o = .fin false t) :
    ∃ c, o = .stopped c ∧ c.st.trace = t := by
  cases o with
  | done c => simp [obsIr] at h
  | stopped c => simp only [obsIr, Out.fin.injEq, true_and] at h; exact ⟨c, rfl, h⟩
  | interrupted c => simp [obsIr] at h
  | outOfFuel c => simp [obsIr] at h

theorem obsBf_fin_true {o : Bf.Outcome w} {t : List Ev} (h : obsBf o = .fin true t) :
    ∃ s, o = .done s ∧ s.trace = t := by
  cases o with
  | done s => simp only [obsBf, Out.fin.injEq, true_and] at h; exact ⟨s, rfl, h⟩
  | stopped s => simp [obsBf] at h
  | outOfFuel c => simp [obsBf] at h

theorem obsBf_fin_false {o : Bf.Outcome w} {t : List Ev} (h : obsBf o = .fin false t) :
    ∃ s, o = .stopped s ∧ s.trace = t := by
  cases o with
  | done s => simp [obsBf] at h
  | stopped s => simp only [obsBf, Out.fin.injEq, true_and] at h; exact ⟨s, rfl, h⟩
  | outOfFuel c => simp [obsBf] at h

section Main
variable (hw : 0 < w) {src : List Kind} {p : Prog} (hp : Bf.tree src = some p) {b : Block w}
  (hb : Ir.parse (w := w) src = .ok b) (env : Env)
include hw hp hb

theorem forward_done (f : Nat) (s : State w) (h : Bf.run f p env = .done s) :
    ∃ f' c, Ir.run b false 0 f' env = .done c ∧ c.st.trace = s.trace := by
  have hr : run (BfM w) f ⟨p, [], State.init env⟩ = .fin true s.trace := by
    rw [run_BfM]; unfold Bf.run at h; rw [h]; rfl
  obtain ⟨f', hf'⟩ := (simulation hw).forward f _ _ (R_init hp hb env) _ _ hr
  rw [run_IrM] at hf'
  obtain ⟨c, hc, ht⟩ := obsIr_fin_true hf' (fun c => runCfg_not_interrupted _ _ c)
  exact ⟨f', c, hc, ht⟩

theorem forward_stopped (f : Nat) (s : State w) (h : Bf.run f p env = .stopped s) :
    ∃ f' c, Ir.run b false 0 f' env = .stopped c ∧ c.st.trace = s.trace := by
  have hr : run (BfM w) f ⟨p, [], State.init env⟩ = .fin false s.trace := by
    rw [run_BfM]; unfold Bf.run at h; rw [h]; rfl
  obtain ⟨f', hf'⟩ := (simulation hw).forward f _ _ (R_init hp hb env) _ _ hr
  rw [run_IrM] at hf'
  obtain ⟨c, hc, ht⟩ := obsIr_fin_false hf'
  exact ⟨f', c, hc, ht⟩

theorem backward_done (f' : Nat) (c : Ir.Cfg w) (h : Ir.run b false 0 f' env = .done c) :
    ∃ (f : Nat) (s : State w), Bf.run f p env = .done s ∧ s.trace = c.st.trace := by
  have hr : run (IrM w) f' ⟨b.insts, [], 0, State.init env⟩ = .fin true c.st.trace := by
    rw [run_IrM]; unfold Ir.run at h; rw [h]; rfl
  obtain ⟨f, hf⟩ := (simulation hw).backward f' _ _ _ rfl (R_init hp hb env) _ _ hr
  rw [run_BfM] at hf
  obtain ⟨s, hs, ht⟩ := obsBf_fin_true hf
  exact ⟨f, s, hs, ht⟩

theorem backward_stopped (f' : Nat) (c : Ir.Cfg w) (h : Ir.run b false 0 f' env = .stopped c) :
    ∃ (f : Nat) (s : State w), Bf.run f p env = .stopped s ∧ s.trace = c.st.trace := by
  have hr : run (IrM w) f' ⟨b.insts, [], 0, State.init env⟩ = .fin false c.st.trace := by
    rw [run_IrM]; unfold Ir.run at h; rw [h]; rfl
  obtain ⟨f, hf⟩ := (simulation hw).backward f' _ _ _ rfl (R_init hp hb env) _ _ hr
  rw [run_BfM] at hf
  obtain ⟨s, hs, ht⟩ := obsBf_fin_false hf
  exact ⟨f, s, hs, ht⟩

theorem prefix_ir_bf (f' : Nat) :
    ∃ f, traceOf (Ir.run b false 0 f' env) = traceOfBf (Bf.run (w := w) f p env) := by
  obtain ⟨f, hf⟩ := (simulation hw).prefixBA f' _ _ _ rfl (R_init hp hb env)
  rw [run_BfM, run_IrM, trace_obsBf, trace_obsIr] at hf
  exact ⟨f, hf.symm⟩

theorem prefix_bf_ir (f : Nat) :
    ∃ f', traceOf (Ir.run b false 0 f' env) = traceOfBf (Bf.run (w := w) f p env) := by
  obtain ⟨f', hf'⟩ := (simulation hw).prefixAB f _ _ (R_init hp hb env)
  rw [run_BfM, run_IrM, trace_obsBf, trace_obsIr] at hf'
  exact ⟨f', hf'⟩

end Main

end C01
end Hpbf
