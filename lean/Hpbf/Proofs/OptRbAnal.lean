/-
Rebuild-round proofs, stage 3: what `analyzeLoop` says about the real loop.

* `real_round`: one completed round of the source block, seen through the child state.
* `cvSeq`: the values of the condition cell at the successive tests, as a TOTAL sequence: the real values as long
  as the loop has heads, afterwards the prediction of the child's symbolic state (`cvNext`).
* `condFacts_real`: the hypotheses of `analyzeLoop_sound'` for this sequence.
* `FactsAt`: the meaning of the flags of `analyzeLoop …` for the source block started in one state, in terms of
  executions; `factsAt_real` proves it in the three cases (loop whose body returns, body never returns, `if`).
-/
import Hpbf.Proofs.OptRbAll
import Hpbf.Proofs.OptLoopExtra

namespace Hpbf
namespace OptProof
open Opt OptSem Ir

variable {w : Nat}

theorem getBoth_sound {s : Rebuild w} {ps : List (Rebuild w)} {M0 E S : Mem w} (h : MInv s ps M0 E S)
    {v : Int} {e : Expr w} (he : getBoth s ps v = some e) : S v = ev e M0 := by
  unfold getBoth at he
  split at he
  · rename_i p hp
    rw [h.S_pending hp, evalWritten_sound' h.writ h.pk he]
  · rename_i hp
    rw [h.S_absent hp, getWritten_sound' h.writ h.pk he]

/-- The source state re-coordinated to the pointer of the emitted program has the same memory. -/
theorem sameMem_movNeg (shP : Int) (σ : State w) : SameMem shP σ (σ.mov (-shP)) := by
  refine ⟨rfl, rfl, ?_, ?_⟩
  · show σ.ptr = σ.ptr + -shP + shP; omega
  · funext v; rfl

theorem head_first {c sh : Int} {body : List (Instr w)} {σ x : State w} {k : Nat}
    (h : Head c sh body σ k x) : k ≠ 0 → ∃ y, Exec body σ (.fin y) := by
  induction h with
  | zero => intro h; exact absurd rfl h
  | @succ k' σk σ' hprev _ hex ih =>
    intro _
    by_cases hk : k' = 0
    · subst hk
      cases hprev
      exact ⟨_, hex⟩
    · exact ih hk

theorem block_nofin_of_body {isLoop : Bool} {c sh : Int} {body : List (Instr w)} {o : Bool} {σ : State w}
    (hne : σ.rd c ≠ 0#w) (hb : ∀ x, ¬ Exec body σ (.fin x)) :
    ∀ x, ¬ Exec [blockInstr isLoop c sh body o] σ (.fin x) := by
  intro x hx
  cases isLoop with
  | true =>
    obtain ⟨k, hh, hz⟩ := exec_loop_fin_head hx
    by_cases hk : k = 0
    · subst hk
      cases hh
      exact hne hz
    · obtain ⟨y, hy⟩ := head_first hh hk
      exact hb y hy
  | false =>
    rcases (exec_ifnz_once_iff hne _).1 hx with ⟨hnf, _⟩ | ⟨σ1, hb', _⟩
    · cases hnf
    · exact hb σ1 hb'

section Real
variable {Gc : State w → Prop} {shP shC shS cS : Int} {bodyS : List (Instr w)}
  {s : Rebuild w} {ps : List (Rebuild w)} {sub0 sub : Rebuild w}

/-- One completed round of the source block, seen through the child state. -/
theorem real_round
    (hrep : ChildRep Gc shP shC (s :: ps) sub0 (s :: ps) sub bodyS)
    (hentry : ∀ σE σS : State w, SameMem shP σS σE → σS.rd cS ≠ 0#w → Gc σS →
      ∃ M0, RelAt shP sub0 (s :: ps) M0 σE σS)
    (hw0 : sub0.written = [])
    {σk a : State w} (hg : Gc σk) (hne : σk.rd cS ≠ 0#w) (hex : Exec bodyS σk (.fin a)) :
    ∃ b M0', Exec sub.insts (σk.mov (-shP)) (.fin b) ∧ RelAt shC sub (s :: ps) M0' b a ∧
      (sub.subShift = false → M0' = memE (σk.mov (-shP)) ∧ b.ptr = (σk.mov (-shP)).ptr) := by
  obtain ⟨M0c, hre⟩ := hentry _ _ (sameMem_movNeg shP σk) hne hg
  obtain ⟨hs, _⟩ := hrep M0c _ _ hre hg
  obtain ⟨b, hb, M0', hr', hk'⟩ := hs.finL a hex
  refine ⟨b, M0', hb, hr', fun hss => ?_⟩
  obtain ⟨k1, k2⟩ := hk' hss
  refine ⟨?_, k2⟩
  rw [k1]
  funext v
  have := hre.inv.writ v
  rw [hw0] at this
  exact this.symm

/-- The body never returns when the child state says so. -/
theorem real_noReturn
    (hrep : ChildRep Gc shP shC (s :: ps) sub0 (s :: ps) sub bodyS)
    (hentry : ∀ σE σS : State w, SameMem shP σS σE → σS.rd cS ≠ 0#w → Gc σS →
      ∃ M0, RelAt shP sub0 (s :: ps) M0 σE σS)
    (hnr : sub.noReturn = true)
    {σk : State w} (hg : Gc σk) (hne : σk.rd cS ≠ 0#w) : ∀ a, ¬ Exec bodyS σk (.fin a) := by
  intro a hex
  obtain ⟨M0c, hre⟩ := hentry _ _ (sameMem_movNeg shP σk) hne hg
  obtain ⟨hs, _⟩ := hrep M0c _ _ hre hg
  obtain ⟨b, _, M0', hr', _⟩ := hs.finL a hex
  have := hr'.nr
  rw [hnr] at this; cases this

/-- Where the next test finds the condition cell. -/
theorem next_cond {a b : State w} (hptr : a.ptr = b.ptr + shC)
    (hsh : shC + shS = (sub.shift - s.shift) + shP) :
    (a.mov shS).rd cS = memS b a (cS + shP + sub.shift - s.shift) := by
  show a.tape.get (a.ptr + shS + cS) = a.tape.get (b.ptr + (cS + shP + sub.shift - s.shift))
  congr 1; omega

end Real

/-! ### the total sequence of condition values -/

/-- The value the child's symbolic state predicts for the condition cell at the next test. -/
noncomputable def cvNext (s : Rebuild w) (ps : List (Rebuild w)) (sub : Rebuild w) (cond cond' : Int)
    (prev : BitVec w) : BitVec w :=
  match getConstant sub (s :: ps) cond' with
  | some c => c
  | none =>
    match getBoth sub (s :: ps) cond' with
    | some e => ev e (fun v => if v = cond then prev else 0#w)
    | none => 0#w

theorem cvNext_both {s : Rebuild w} {ps : List (Rebuild w)} {sub : Rebuild w} {cond cond' : Int} {e : Expr w}
    (hc : getConstant sub (s :: ps) cond' = none) (he : getBoth sub (s :: ps) cond' = some e) (prev : BitVec w) :
    cvNext s ps sub cond cond' prev = ev e (fun v => if v = cond then prev else 0#w) := by
  unfold cvNext
  rw [hc, he]

open Classical in
/-- The condition values at the successive tests: real while the loop has heads, predicted afterwards. -/
noncomputable def cvSeq (cS shS : Int) (bodyS : List (Instr w)) (σS : State w) (nxt : BitVec w → BitVec w) :
    Nat → BitVec w
  | 0 => σS.rd cS
  | k + 1 =>
    if h : ∃ σ, Head cS shS bodyS σS (k + 1) σ then (Classical.choose h).rd cS
    else nxt (cvSeq cS shS bodyS σS nxt k)

theorem cvSeq_head {cS shS : Int} {bodyS : List (Instr w)} {σS : State w} {nxt : BitVec w → BitVec w}
    {k : Nat} {σk : State w} (h : Head cS shS bodyS σS k σk) : cvSeq cS shS bodyS σS nxt k = σk.rd cS := by
  cases k with
  | zero => cases h; rfl
  | succ k =>
    unfold cvSeq
    have hex : ∃ σ, Head cS shS bodyS σS (k + 1) σ := ⟨σk, h⟩
    rw [dif_pos hex]
    rw [head_det (Classical.choose_spec hex) h]

theorem cvSeq_nohead {cS shS : Int} {bodyS : List (Instr w)} {σS : State w} {nxt : BitVec w → BitVec w}
    {k : Nat} (h : ¬ ∃ σ, Head cS shS bodyS σS (k + 1) σ) :
    cvSeq cS shS bodyS σS nxt (k + 1) = nxt (cvSeq cS shS bodyS σS nxt k) := by
  conv => lhs; unfold cvSeq
  rw [dif_neg h]

/-- All heads of a live prefix exist... or rather: a head is preceded by heads with non-zero condition. -/
theorem head_pred {c sh : Int} {body : List (Instr w)} {σ σ' : State w} {k : Nat}
    (h : Head c sh body σ (k + 1) σ') :
    ∃ σk a, Head c sh body σ k σk ∧ σk.rd c ≠ 0#w ∧ Exec body σk (.fin a) ∧ σ' = a.mov sh := by
  cases h with
  | succ hprev hne hex => exact ⟨_, _, hprev, hne, hex, rfl⟩

section Cond
variable {Gc : State w → Prop} {shP shC shS cS : Int} {bodyS : List (Instr w)}
  {s : Rebuild w} {ps : List (Rebuild w)} {sub0 sub : Rebuild w}

/-- The hypotheses of `analyzeLoop_sound'` hold for `cvSeq` (source block = a loop). -/
theorem condFacts_real {M0 : Mem w} {σE σS : State w} {cond : Int}
    (hrel : RelAt shP s ps M0 σE σS) (hcond : cond = cS + shP)
    (hsh : shC + shS = (sub.shift - s.shift) + shP)
    (hrep : ChildRep Gc shP shC (s :: ps) sub0 (s :: ps) sub bodyS)
    (hentry : ∀ σE σS : State w, SameMem shP σS σE → σS.rd cS ≠ 0#w → Gc σS →
      ∃ M0, RelAt shP sub0 (s :: ps) M0 σE σS)
    (hw0 : sub0.written = [])
    (hGcH : ∀ k σk, Head cS shS bodyS σS k σk → σk.rd cS ≠ 0#w → Gc σk) :
    OptLoop.CondFacts' s ps sub cond true
      (cvSeq cS shS bodyS σS (cvNext s ps sub cond (cond + sub.shift - s.shift))) := by
  have h0 : cvSeq cS shS bodyS σS (cvNext s ps sub cond (cond + sub.shift - s.shift)) 0 = memS σE σS cond := by
    show σS.rd cS = _
    rw [hrel.rdS cS, hcond]
  refine ⟨?_, ?_, (fun h => by cases h), ?_, ?_⟩
  · intro c hc
    rw [h0]; exact getConstant_sound hrel.inv hc
  · intro hz
    rw [h0]; exact isNonZero_sound hrel.inv hz
  · intro c hc k _
    by_cases hex : ∃ σ, Head cS shS bodyS σS (k + 1) σ
    · obtain ⟨σ', hh⟩ := hex
      obtain ⟨σk, a, hk, hne, hexa, rfl⟩ := head_pred hh
      rw [cvSeq_head hh]
      obtain ⟨b, M0', _, hr', _⟩ := real_round hrep hentry hw0 (hGcH k σk hk hne) hne hexa
      rw [next_cond hr'.ptr hsh, ← hcond]
      exact getConstant_sound hr'.inv hc
    · rw [cvSeq_nohead hex]
      unfold cvNext
      rw [hc]
  · intro e hcn hss he k _
    by_cases hex : ∃ σ, Head cS shS bodyS σS (k + 1) σ
    · obtain ⟨σ', hh⟩ := hex
      obtain ⟨σk, a, hk, hne, hexa, rfl⟩ := head_pred hh
      obtain ⟨b, M0', _, hr', hk'⟩ := real_round hrep hentry hw0 (hGcH k σk hk hne) hne hexa
      obtain ⟨hM0, _⟩ := hk' hss
      refine ⟨memE (σk.mov (-shP)), ?_, ?_⟩
      · rw [cvSeq_head hk, hcond]
        show σk.tape.get (σk.ptr + -shP + (cS + shP)) = σk.tape.get (σk.ptr + cS)
        congr 1; omega
      · rw [cvSeq_head hh, next_cond hr'.ptr hsh, ← hcond, ← hM0]
        exact getBoth_sound hr'.inv he
    · refine ⟨fun v => if v = cond then cvSeq cS shS bodyS σS
        (cvNext s ps sub cond (cond + sub.shift - s.shift)) k else 0#w, by simp, ?_⟩
      rw [cvSeq_nohead hex, cvNext_both hcn he]

end Cond

/-! ### the flags, in terms of executions -/

/-- Meaning of the flags of `L` for the source block `blockInstr isLoop cS shS bodyS oS` started in `σS`. -/
structure FactsAt (isLoop : Bool) (cS shS : Int) (bodyS : List (Instr w)) (oS : Bool) (L : OptLoop w)
    (σS : State w) : Prop where
  never : L.never = true → σS.rd cS = 0#w
  alo : L.atLeastOnce = true → σS.rd cS ≠ 0#w
  amo : L.atMostOnce = true → isLoop = true → σS.rd cS ≠ 0#w →
    ∀ σ1, Exec bodyS σS (.fin σ1) → (σ1.mov shS).rd cS = 0#w
  ifamo : isLoop = false → L.atMostOnce = true
  nc : L.noContinue = true → ∀ x, ¬ Exec [blockInstr isLoop cS shS bodyS oS] σS (.fin x)
  ne : L.noEffect = true → σS.rd cS = 0#w ∨ ∀ x, ¬ Exec [blockInstr isLoop cS shS bodyS oS] σS (.fin x)
  fin : L.finite = true → L.atMostOnce = false →
    (∀ k σk, Head cS shS bodyS σS k σk → σk.rd cS ≠ 0#w → ∃ σ', Exec bodyS σk (.fin σ')) →
    ∃ k σk, Head cS shS bodyS σS k σk ∧ σk.rd cS = 0#w

/-- From the meaning of the flags for a sequence that follows the real heads of a loop. -/
theorem factsAt_of_meaning {cS shS : Int} {bodyS : List (Instr w)} {oS : Bool} {L : OptLoop w} {σS : State w}
    {cv : Nat → BitVec w} {cond : Int} (hm : OptLoop.LoopMeaning L cv cond)
    (hcv : ∀ k σk, Head cS shS bodyS σS k σk → cv k = σk.rd cS) :
    FactsAt true cS shS bodyS oS L σS := by
  have h0 : cv 0 = σS.rd cS := hcv 0 σS Head.zero
  have hdiv : OptLoop.Diverges cv → ∀ x, ¬ Exec [blockInstr true cS shS bodyS oS] σS (.fin x) := by
    intro hd x hx
    obtain ⟨k, hh, hz⟩ := exec_loop_fin_head hx
    exact hd k (by rw [hcv k x hh]; exact hz)
  refine ⟨?_, ?_, ?_, (fun h => by cases h), ?_, ?_, ?_⟩
  · intro h; rw [← h0]; exact hm.never h
  · intro h; rw [← h0]; exact hm.atLeastOnce h
  · intro h _ hne σ1 hex
    have hh : Head cS shS bodyS σS 1 (σ1.mov shS) := Head.succ Head.zero hne hex
    rcases hm.atMostOnce h with h' | h'
    · rw [h0] at h'; exact absurd h' hne
    · rw [← hcv 1 _ hh]; exact h'
  · intro h; exact hdiv (hm.noContinue h)
  · intro h
    rcases hm.noEffect h with h' | h'
    · left; rw [← h0]; exact h'
    · right; exact hdiv h'
  · intro h _ hall
    obtain ⟨n, hn1, hn2⟩ := hm.finite h
    have hex : ∀ j, j ≤ n → ∃ σj, Head cS shS bodyS σS j σj := by
      intro j
      induction j with
      | zero => intro _; exact ⟨σS, Head.zero⟩
      | succ j ih =>
        intro hj
        obtain ⟨σj, hh⟩ := ih (by omega)
        have hne : σj.rd cS ≠ 0#w := by rw [← hcv j σj hh]; exact hn1 j (by omega)
        obtain ⟨σ', hex'⟩ := hall j σj hh hne
        exact ⟨_, Head.succ hh hne hex'⟩
    obtain ⟨σn, hh⟩ := hex n (Nat.le_refl n)
    exact ⟨n, σn, hh, by rw [← hcv n σn hh]; exact hn2⟩

/-- `analyzeLoop` for an `if` whose body returns. -/
theorem analyzeLoop_if (s : Rebuild w) (ps : List (Rebuild w)) (sub : Rebuild w) (cond : Int)
    (hnr : sub.noReturn = false) :
    (getConstant s ps cond = some 0#w ∧ analyzeLoop s ps sub cond false = OptLoop.ofExpr (Expr.val 0#w)) ∨
    analyzeLoop s ps sub cond false = OptLoop.atMostOnceOf (isNonZero s ps cond) := by
  unfold analyzeLoop
  simp only
  split
  · rename_i h0
    exact Or.inl ⟨by simpa using h0, rfl⟩
  · right
    rw [hnr]
    rfl

theorem atMostOnceOf_amo (b : Bool) : (OptLoop.atMostOnceOf b : OptLoop w).atMostOnce = true := by
  cases b with
  | false => rfl
  | true =>
    show (OptLoop.ofExpr (Expr.val 1#w) : OptLoop w).atMostOnce = true
    simp [OptLoop.ofExpr, OptLoop.constant_val]

theorem ofExpr_zero_amo : (OptLoop.ofExpr (Expr.val 0#w) : OptLoop w).atMostOnce = true := by
  simp [OptLoop.ofExpr, OptLoop.constant_val]

/-- From the meaning of the flags for the two-element sequence of an `if`. -/
theorem factsAt_if {cS shS : Int} {bodyS : List (Instr w)} {oS : Bool} {L : OptLoop w} {σS : State w}
    {cond : Int} (hm : OptLoop.LoopMeaning L (fun k => if k = 0 then σS.rd cS else 0#w) cond)
    (hamo : L.atMostOnce = true) : FactsAt false cS shS bodyS oS L σS := by
  have hnd : ¬ OptLoop.Diverges (fun k => if k = 0 then σS.rd cS else 0#w) := fun hd => hd 1 (by simp)
  refine ⟨?_, ?_, (fun _ h => by cases h), fun _ => hamo, ?_, ?_, ?_⟩
  · intro h; simpa using hm.never h
  · intro h; simpa using hm.atLeastOnce h
  · intro h; exact absurd (hm.noContinue h) hnd
  · intro h
    rcases hm.noEffect h with h' | h'
    · left; simpa using h'
    · exact absurd h' hnd
  · intro _ h; rw [hamo] at h; cases h

section Facts
variable {Gc : State w → Prop} {shP shC shS cS : Int} {bodyS : List (Instr w)}
  {s : Rebuild w} {ps : List (Rebuild w)} {sub0 sub : Rebuild w}

/-- **The flags of `analyzeLoop` are right for the source block**, for one source state related through the
parent. -/
theorem factsAt_real (hw : 0 < w) {M0 : Mem w} {σE σS : State w} {cond : Int} {isLoop oS : Bool}
    (hrel : RelAt shP s ps M0 σE σS) (hcond : cond = cS + shP)
    (hsh : shC + shS = (sub.shift - s.shift) + shP)
    (hrep : ChildRep Gc shP shC (s :: ps) sub0 (s :: ps) sub bodyS)
    (hentry : ∀ σE σS : State w, SameMem shP σS σE → σS.rd cS ≠ 0#w → Gc σS →
      ∃ M0, RelAt shP sub0 (s :: ps) M0 σE σS)
    (hw0 : sub0.written = [])
    (hGcH : ∀ k σk, Head cS shS bodyS σS k σk → σk.rd cS ≠ 0#w → Gc σk) :
    FactsAt isLoop cS shS bodyS oS (analyzeLoop s ps sub cond isLoop) σS := by
  have hc0 : σS.rd cS = memS σE σS cond := by rw [hrel.rdS cS, hcond]
  cases hnr : sub.noReturn with
  | true =>
    -- the body never returns
    have hnb : σS.rd cS ≠ 0#w → ∀ a, ¬ Exec bodyS σS (.fin a) :=
      fun hne => real_noReturn hrep hentry hnr (hGcH 0 σS Head.zero hne) hne
    rcases OptLoop.analyzeLoop_noReturn s ps sub cond isLoop hnr with ⟨hc, heq⟩ | ⟨_, heq⟩
    · rw [heq]
      have hz : σS.rd cS = 0#w := by rw [hc0]; exact getConstant_sound hrel.inv hc
      refine ⟨fun _ => hz, ?_, fun _ _ hne => absurd hz hne, fun _ => ofExpr_zero_amo, ?_, fun _ => Or.inl hz, ?_⟩
      · intro h; simp [OptLoop.ofExpr, OptLoop.constant_val] at h
      · intro h; simp [OptLoop.ofExpr] at h
      · intro _ h; rw [ofExpr_zero_amo] at h; cases h
    · rw [heq]
      have hal : isNonZero s ps cond = true → σS.rd cS ≠ 0#w := by
        intro h; rw [hc0]; exact isNonZero_sound hrel.inv h
      refine ⟨?_, ?_, ?_, fun _ => rfl, ?_, ?_, ?_⟩
      · intro h; simp [OptLoop.noReturn] at h
      · intro h; exact hal (by simpa [OptLoop.noReturn] using h)
      · intro _ _ hne σ1 hex; exact absurd hex (hnb hne σ1)
      · intro h
        have hne := hal (by simpa [OptLoop.noReturn] using h)
        exact block_nofin_of_body hne (hnb hne)
      · intro _
        by_cases hz : σS.rd cS = 0#w
        · exact Or.inl hz
        · exact Or.inr (block_nofin_of_body hz (hnb hz))
      · intro _ h; simp [OptLoop.noReturn] at h
  | false =>
    cases isLoop with
    | true =>
      have hcf := condFacts_real hrel hcond hsh hrep hentry hw0 hGcH
      have hm := OptLoop.analyzeLoop_sound' hw s ps sub cond true _ hcf hnr
      exact factsAt_of_meaning hm (fun k σk hh => cvSeq_head hh)
    | false =>
      have hnz : isNonZero s ps cond = true → σS.rd cS ≠ 0#w := by
        intro h; rw [hc0]; exact isNonZero_sound hrel.inv h
      rcases analyzeLoop_if s ps sub cond hnr with ⟨hc, heq⟩ | heq
      · rw [heq]
        have hz : σS.rd cS = 0#w := by rw [hc0]; exact getConstant_sound hrel.inv hc
        refine factsAt_if (cond := cond) ?_ ofExpr_zero_amo
        apply OptLoop.ofExpr_val_meaning
        refine ⟨fun k hk => ?_, ?_⟩
        · simp at hk
        · simpa using hz
      · rw [heq]
        refine factsAt_if (cond := cond) ?_ (atMostOnceOf_amo _)
        exact OptLoop.atMostOnceOf_meaning hw _ cond _ (by simpa using hnz) (fun _ => by simp)

end Facts

/-! ### the number of rounds -/

/-- `n` is the number of rounds of a terminating run of the source block started in `σS`. -/
def Trip (isLoop : Bool) (cS shS : Int) (bodyS : List (Instr w)) (σS : State w) (n : Nat) : Prop :=
  if isLoop then ∃ σn, Head cS shS bodyS σS n σn ∧ σn.rd cS = 0#w
  else (n = 0 ∧ σS.rd cS = 0#w) ∨ (n = 1 ∧ σS.rd cS ≠ 0#w ∧ ∃ a, Exec bodyS σS (.fin a))

theorem head_prefix {c sh : Int} {body : List (Instr w)} {σ σN : State w} {N : Nat}
    (h : Head c sh body σ N σN) : ∀ k, k < N → ∃ σk a, Head c sh body σ k σk ∧ σk.rd c ≠ 0#w ∧
      Exec body σk (.fin a) ∧ Head c sh body σ (k + 1) (a.mov sh) := by
  induction h with
  | zero => intro k hk; omega
  | @succ N' σN' σ' hprev hne hex ih =>
    intro k hk
    by_cases hkN : k = N'
    · subst hkN
      exact ⟨σN', σ', hprev, hne, hex, Head.succ hprev hne hex⟩
    · exact ih k (by omega)

theorem head_first' {c sh : Int} {body : List (Instr w)} {σ x : State w} {k : Nat}
    (h : Head c sh body σ k x) : k ≠ 0 → σ.rd c ≠ 0#w ∧ ∃ y, Exec body σ (.fin y) := by
  induction h with
  | zero => intro h; exact absurd rfl h
  | @succ k' σk σ' hprev hne hex ih =>
    intro _
    by_cases hk : k' = 0
    · subst hk
      cases hprev
      exact ⟨hne, _, hex⟩
    · exact ih hk

section TripFacts
variable {Gc : State w → Prop} {shP shC shS cS : Int} {bodyS : List (Instr w)}
  {s : Rebuild w} {ps : List (Rebuild w)} {sub0 sub : Rebuild w}

/-- What the loop-motion pack needs to know about the number of rounds. -/
theorem tripFacts_real (hw : 0 < w) {M0 : Mem w} {σE σS : State w} {cond : Int} {isLoop : Bool}
    (hrel : RelAt shP s ps M0 σE σS) (hcond : cond = cS + shP)
    (hsh : shC + shS = (sub.shift - s.shift) + shP)
    (hrep : ChildRep Gc shP shC (s :: ps) sub0 (s :: ps) sub bodyS)
    (hentry : ∀ σE σS : State w, SameMem shP σS σE → σS.rd cS ≠ 0#w → Gc σS →
      ∃ M0, RelAt shP sub0 (s :: ps) M0 σE σS)
    (hw0 : sub0.written = [])
    (hGcH : ∀ k σk, Head cS shS bodyS σS k σk → σk.rd cS ≠ 0#w → Gc σk)
    {n : Nat} (ht : Trip isLoop cS shS bodyS σS n) :
    OptLoop.TripFacts (analyzeLoop s ps sub cond isLoop) n (memS σE σS) ∧
    ((analyzeLoop s ps sub cond isLoop).atMostOnce = true → n ≤ 1) ∧
    ((analyzeLoop s ps sub cond isLoop).noEffect = true → n = 0) := by
  have hc0 : σS.rd cS = memS σE σS cond := by rw [hrel.rdS cS, hcond]
  cases hnr : sub.noReturn with
  | true =>
    have hnb : σS.rd cS ≠ 0#w → ∀ a, ¬ Exec bodyS σS (.fin a) :=
      fun hne => real_noReturn hrep hentry hnr (hGcH 0 σS Head.zero hne) hne
    -- no round is completed
    have hn0 : n = 0 ∧ σS.rd cS = 0#w := by
      unfold Trip at ht
      cases isLoop with
      | true =>
        simp only [if_true] at ht
        obtain ⟨σn, hh, hz⟩ := ht
        by_cases hn : n = 0
        · subst hn; cases hh; exact ⟨rfl, hz⟩
        · obtain ⟨hne, y, hy⟩ := head_first' hh hn
          exact absurd hy (hnb hne y)
      | false =>
        simp only [Bool.false_eq_true, if_false] at ht
        rcases ht with h | ⟨_, hne, a, ha⟩
        · exact h
        · exact absurd ha (hnb hne a)
    obtain ⟨rfl, hz⟩ := hn0
    rcases OptLoop.analyzeLoop_noReturn s ps sub cond isLoop hnr with ⟨_, heq⟩ | ⟨_, heq⟩
    · rw [heq]
      have hm : OptLoop.LoopMeaning (OptLoop.ofExpr (Expr.val 0#w)) (fun _ => (0#w : BitVec w)) cond := by
        apply OptLoop.ofExpr_val_meaning
        exact ⟨fun k hk => by simp at hk, rfl⟩
      exact OptLoop.tripFacts_of_meaning hw hm _ (by rw [← hc0]; exact hz) 0 ⟨fun k hk => by omega, rfl⟩
    · rw [heq]
      refine ⟨?_, fun _ => by omega, fun _ => rfl⟩
      intro expr he
      have hal : isNonZero s ps cond = false := by
        cases h : isNonZero s ps cond with
        | false => rfl
        | true =>
          have := isNonZero_sound hrel.inv h
          rw [← hc0] at this
          exact absurd hz this
      simp [OptLoop.noReturn, hal] at he
  | false =>
    cases isLoop with
    | true =>
      have hcf := condFacts_real hrel hcond hsh hrep hentry hw0 hGcH
      have hm := OptLoop.analyzeLoop_sound' hw s ps sub cond true _ hcf hnr
      unfold Trip at ht
      simp only [if_true] at ht
      obtain ⟨σn, hh, hz⟩ := ht
      refine OptLoop.tripFacts_of_meaning hw hm _ ?_ n ⟨?_, ?_⟩
      · show memS σE σS cond = σS.rd cS
        exact hc0.symm
      · intro k hk
        obtain ⟨σk, _, hhk, hne, _, _⟩ := head_prefix hh k hk
        rw [cvSeq_head hhk]; exact hne
      · rw [cvSeq_head hh]; exact hz
    | false =>
      have hnz : isNonZero s ps cond = true → σS.rd cS ≠ 0#w := by
        intro h; rw [hc0]; exact isNonZero_sound hrel.inv h
      have hm : OptLoop.LoopMeaning (analyzeLoop s ps sub cond false)
          (fun k => if k = 0 then σS.rd cS else 0#w) cond := by
        rcases analyzeLoop_if s ps sub cond hnr with ⟨hc, heq⟩ | heq
        · rw [heq]
          have hz : σS.rd cS = 0#w := by rw [hc0]; exact getConstant_sound hrel.inv hc
          apply OptLoop.ofExpr_val_meaning
          exact ⟨fun k hk => by simp at hk, by simpa using hz⟩
        · rw [heq]
          exact OptLoop.atMostOnceOf_meaning hw _ cond _ (by simpa using hnz) (fun _ => by simp)
      unfold Trip at ht
      simp only [Bool.false_eq_true, if_false] at ht
      refine OptLoop.tripFacts_of_meaning hw hm _ (by simpa using hc0.symm) n ?_
      rcases ht with ⟨rfl, hz⟩ | ⟨rfl, hne, _⟩
      · exact ⟨fun k hk => by omega, by simpa using hz⟩
      · refine ⟨fun k hk => ?_, by simp⟩
        have : k = 0 := by omega
        subst this
        simpa using hne

end TripFacts

end OptProof
end Hpbf
