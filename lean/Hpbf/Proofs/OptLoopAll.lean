/-
Loop optimisations of `Hpbf/Opt.lean`, part C (continued): all variables at once.

`finishLoop` calls `loopMotion` for every pending variable and collects three simultaneous assignments:
`B` (before: performed by the PARENT before the loop, hence evaluated in the memory `m0` at loop entry), `D`
(during: the pending assignment of the new body) and `A` (after: performed after the loop, evaluated in the
memory the new loop leaves; only executed if the loop was entered).

Original loop: `M k = run body P m0 k` with `P = sub.pending`.   New loop: `M' k = run body D (Mem.par B m0) k`.
`loopMotion_all_sound`: the two runs agree on everything that is read in the loop, and after `n` rounds
`Mem.par A (M' n) = M n`.
-/
import Hpbf.Proofs.OptLoopMotionSem

namespace Hpbf.OptLoop
open Hpbf Opt OptSem Expr

variable {w : Nat}

/-- The three assignments collected by `finishLoop` agree with `loopMotion`, variable by variable (the `after`
entries are dropped when the analysis says `noEffect`; that only matters if the loop runs, so it is allowed
here only for `n = 0`). -/
structure MotionAll (s : Rebuild w) (ps : List (Rebuild w)) (sub : Rebuild w) (reads C : List Int)
    (lin : List (Int × Expr w)) (otherPending : List Int) (L : OptLoop w) (n : Nat)
    (B D A : List (Int × Expr w)) : Prop where
  pend : ∀ var p, mGet sub.pending var = some p →
    ∃ b d a, MotionCase s ps var p (!mHas sub.written var) reads C lin otherPending L (b, d, a) ∧
      mGet B var = b ∧ mGet D var = d ∧ (mGet A var = a ∨ (n = 0 ∧ mGet A var = none))
  nopend : ∀ var, mGet sub.pending var = none →
    mGet B var = none ∧ mGet D var = none ∧ mGet A var = none

/-- What `reads` (`possibleReads` with the condition cell) means. -/
structure ReadFacts (sub : Rebuild w) (reads : List Int) (body : Nat → Mem w → Mem w) (M : Nat → Mem w) :
    Prop where
  /-- a pending operation only reads its own target and cells in `reads` -/
  pendReads : ∀ v p x, mGet sub.pending v = some p → x ∈ Expr.variables p → x ≠ v →
    reads.contains x = true
  /-- the emitted instructions only read cells in `reads`: changing other cells does not change what they
  leave in the remaining cells -/
  bodyNI : ∀ k (m' : Mem w) (Z : Int → Prop), (∀ z, Z z → reads.contains z = false) →
    (∀ v, ¬ Z v → m' v = M k v) → ∀ v, ¬ Z v → body k m' v = body k (M k) v
  /-- a cell without an entry in `written` is never written by the emitted instructions -/
  frame : ∀ k (m' : Mem w) v, mGet sub.written v = none → body k m' v = m' v

/-- No emitted instructions. -/
theorem readFacts_id (sub : Rebuild w) (reads : List Int) (M : Nat → Mem w)
    (h : ∀ v p x, mGet sub.pending v = some p → x ∈ Expr.variables p → x ≠ v → reads.contains x = true) :
    ReadFacts sub reads (fun _ m => m) M :=
  ⟨h, fun _ _ _ _ hv v hz => hv v hz, fun _ _ _ _ => rfl⟩

section
variable {s : Rebuild w} {ps : List (Rebuild w)} {sub : Rebuild w} {reads C : List Int}
  {lin : List (Int × Expr w)} {otherPending : List Int} {L : OptLoop w} {n : Nat}
  {B D A : List (Int × Expr w)} {m0 : Mem w} {body : Nat → Mem w → Mem w}

/-- Per-variable summary of `MotionAll` with the closed forms proved. -/
inductive VarSem (s : Rebuild w) (ps : List (Rebuild w)) (sub : Rebuild w) (reads C : List Int)
    (otherPending : List Int) (L : OptLoop w) (n : Nat) (B D A : List (Int × Expr w)) (m0 : Mem w)
    (body : Nat → Mem w → Mem w) (v : Int) : Prop
  | nopend : mGet sub.pending v = none → mGet B v = none → mGet D v = none → mGet A v = none →
      VarSem s ps sub reads C otherPending L n B D A m0 body v
  | gone (p : Expr w) : mGet sub.pending v = some p → mGet B v = none → mGet D v = none →
      mGet A v = none → C.contains v = true → mGet sub.written v = none →
      VarSem s ps sub reads C otherPending L n B D A m0 body v
  | after (p p' : Expr w) : mGet sub.pending v = some p → mGet B v = none → mGet D v = none →
      (mGet A v = some p' ∨ (n = 0 ∧ mGet A v = none)) → reduceConst s ps p C = .ok p' →
      (reads.contains v = false ∨ L.atMostOnce = true) →
      (∀ x ∈ Expr.variables p', otherPending.contains x = false ∨ C.contains x = true) →
      VarSem s ps sub reads C otherPending L n B D A m0 body v
  | moved (p b : Expr w) (d : Option (Expr w)) : mGet sub.pending v = some p → mGet B v = some b →
      mGet D v = d → mGet A v = none → reads.contains v = false → mGet sub.written v = none →
      C.contains v = false → MovedSem sub body m0 n v p b d →
      VarSem s ps sub reads C otherPending L n B D A m0 body v
  | stay (p p' : Expr w) : mGet sub.pending v = some p → mGet B v = none → mGet D v = some p' →
      mGet A v = none → reduceConst s ps p C = .ok p' →
      VarSem s ps sub reads C otherPending L n B D A m0 body v

theorem written_none_of_complete {sub : Rebuild w} {v : Int} (h : (!mHas sub.written v) = true) :
    mGet sub.written v = none := by
  simp only [mHas, Bool.not_eq_true', Option.isSome_eq_false_iff, Option.isNone_iff_eq_none] at h
  exact h

theorem varSem (hw : 0 < w) (ctx : MotionCtx s ps sub C lin m0 body) (htrip : TripFacts L n m0)
    (hcanon : ∀ v p, mGet sub.pending v = some p → Canon p)
    (hall : MotionAll s ps sub reads C lin otherPending L n B D A) (v : Int) :
    VarSem s ps sub reads C otherPending L n B D A m0 body v := by
  cases hp : mGet sub.pending v with
  | none =>
    obtain ⟨h1, h2, h3⟩ := hall.nopend v hp
    exact .nopend hp h1 h2 h3
  | some p =>
    obtain ⟨b, d, a, hcase, hB, hD, hA⟩ := hall.pend v p hp
    cases b with
    | some b =>
      obtain ⟨ha, hr, hc, hcv, hsem⟩ := loopMotion_moved_sound hw ctx hp written_none_of_complete
        (hcanon v p hp) htrip hcase
      subst ha
      have hA' : mGet A v = none := by
        rcases hA with h | h
        · exact h
        · exact h.2
      exact .moved p b d hp hB hD hA' hr (written_none_of_complete hc) hcv hsem
    | none =>
      generalize hr : ((none : Option (Expr w)), d, a) = r at hcase
      cases hcase with
      | gone h1 h2 =>
        simp only [Prod.mk.injEq, true_and] at hr
        obtain ⟨rfl, rfl⟩ := hr
        have hA' : mGet A v = none := by
          rcases hA with h | h
          · exact h
          · exact h.2
        exact .gone p hp hB hD hA' h1 (written_none_of_complete h2)
      | after p' hp' h1 h2 =>
        simp only [Prod.mk.injEq, true_and] at hr
        obtain ⟨rfl, rfl⟩ := hr
        exact .after p p' hp hB hD hA hp' h1 h2
      | stay p' hp' =>
        simp only [Prod.mk.injEq, true_and] at hr
        obtain ⟨rfl, rfl⟩ := hr
        have hA' : mGet A v = none := by
          rcases hA with h | h
          · exact h
          · exact h.2
        exact .stay p p' hp hB hD hA' hp'
      | tri p' expr inc cst other linears => simp at hr
      | geo0 p' expr inc mul c => simp at hr
      | geo p' expr inc mul c => simp at hr

/-- The cells on which the two runs may differ during the loop: the moved ones, and the non-constant ones
that are assigned after the loop. -/
def Differ (C : List Int) (B A : List (Int × Expr w)) (v : Int) : Prop :=
  mGet B v ≠ none ∨ (mGet A v ≠ none ∧ C.contains v = false)

/-- **`loopMotion_all_sound`**. -/
theorem loopMotion_all_sound (hw : 0 < w) (ctx : MotionCtx s ps sub C lin m0 body)
    (htrip : TripFacts L n m0)
    (hcanon : ∀ v p, mGet sub.pending v = some p → Canon p)
    (hall : MotionAll s ps sub reads C lin otherPending L n B D A)
    (hrf : ReadFacts sub reads body (run body sub.pending m0))
    (hop : ∀ x, otherPending.contains x = false → mGet sub.pending x = none ∨ C.contains x = true)
    (hamo : L.atMostOnce = true → n ≤ 1) :
    (∀ k, k < n → ∀ r, reads.contains r = true →
      run body D (Mem.par B m0) k r = run body sub.pending m0 k r) ∧
    (∀ k, k ≤ n → ∀ v, ¬ Differ C B A v →
      run body D (Mem.par B m0) k v = run body sub.pending m0 k v) ∧
    (∀ v, mGet A v = none → run body D (Mem.par B m0) n v = run body sub.pending m0 n v) ∧
    (0 < n → Mem.par A (run body D (Mem.par B m0) n) = run body sub.pending m0 n) ∧
    (n = 0 → Mem.par B m0 = m0) := by
  have hvs := varSem hw ctx htrip hcanon hall
  -- the invariant
  have hinv0 : ∀ v, mGet B v = none → run body D (Mem.par B m0) 0 v = run body sub.pending m0 0 v :=
    fun v hv => par_of_not_mem B m0 v hv
  -- reads agree, given the invariant at `k`
  have hreads : ∀ k, k < n →
      (∀ v, ¬ Differ C B A v → run body D (Mem.par B m0) k v = run body sub.pending m0 k v) →
      ∀ r, reads.contains r = true → run body D (Mem.par B m0) k r = run body sub.pending m0 k r := by
    intro k hk hI r hr
    by_cases hd : Differ C B A r
    · rcases hvs r with ⟨_, hB, _, hA⟩ | ⟨_, _, hB, _, hA, _, _⟩ | ⟨p, p', _, hB, _, hA, _, hro, _⟩ |
        ⟨_, _, _, _, _, _, _, hrd, _, _, _⟩ | ⟨_, _, _, hB, _, hA, _⟩
      · rcases hd with h | h
        · exact absurd hB h
        · exact absurd hA h.1
      · rcases hd with h | h
        · exact absurd hB h
        · exact absurd hA h.1
      · rcases hro with hro | hro
        · rw [hr] at hro; cases hro
        · have : k = 0 := by have := hamo hro; omega
          subst this
          exact hinv0 r hB
      · rw [hr] at hrd; cases hrd
      · rcases hd with h | h
        · exact absurd hB h
        · exact absurd hA h.1
    · exact hI r hd
  -- the middle of round `k`
  have hmid : ∀ k, k < n →
      (∀ v, ¬ Differ C B A v → run body D (Mem.par B m0) k v = run body sub.pending m0 k v) →
      (∀ v, run body D (Mem.par B m0) k v = run body sub.pending m0 k v →
        mid body D (Mem.par B m0) k v = mid body sub.pending m0 k v) ∧
      (∀ r, reads.contains r = true →
        mid body D (Mem.par B m0) k r = mid body sub.pending m0 k r) := by
    intro k hk hI
    have hrd := hreads k hk hI
    have h1 : ∀ v, run body D (Mem.par B m0) k v = run body sub.pending m0 k v →
        mid body D (Mem.par B m0) k v = mid body sub.pending m0 k v := by
      intro v hv
      refine hrf.bodyNI k (run body D (Mem.par B m0) k)
        (fun z => run body D (Mem.par B m0) k z ≠ run body sub.pending m0 k z) ?_ ?_ v ?_
      · intro z hz
        cases hc : reads.contains z with
        | false => rfl
        | true => exact absurd (hrd z hc) hz
      · intro z hz
        exact Classical.not_not.1 hz
      · exact fun h => h hv
    exact ⟨h1, fun r hr => h1 r (hrd r hr)⟩
  -- one round keeps the invariant
  have hstep : ∀ k, k < n →
      (∀ v, ¬ Differ C B A v → run body D (Mem.par B m0) k v = run body sub.pending m0 k v) →
      ∀ v, ¬ Differ C B A v →
        run body D (Mem.par B m0) (k + 1) v = run body sub.pending m0 (k + 1) v := by
    intro k hk hI v hnd
    obtain ⟨hm1, hm2⟩ := hmid k hk hI
    have hEv := hm1 v (hI v hnd)
    rcases hvs v with ⟨hP, _, hD, _⟩ | ⟨p, hP, _, hD, _, hC, _⟩ | ⟨p, p', hP, hB, hD, hA, _, _, _⟩ |
      ⟨_, _, _, _, hB, _, _, _, _, _, _⟩ | ⟨p, p', hP, _, hD, _, hp'⟩
    · rw [run_not_pending hD, run_not_pending hP, hEv]
    · rw [run_not_pending hD, hEv, (ctx.const k v hC).2, (ctx.const (k + 1) v hC).1]
    · have hC : C.contains v = true := by
        cases hc : C.contains v with
        | true => rfl
        | false =>
          rcases hA with hA | hA
          · exact absurd (Or.inr ⟨by rw [hA]; simp, hc⟩) hnd
          · omega
      rw [run_not_pending hD, hEv, (ctx.const k v hC).2, (ctx.const (k + 1) v hC).1]
    · exact absurd (Or.inl (by rw [hB]; simp)) hnd
    · rw [run_pending hD, run_pending hP, ← reduce_mid ctx hp' k]
      apply ev_congr
      intro x hx
      by_cases hxv : x = v
      · rw [hxv]; exact hEv
      · exact hm2 x (hrf.pendReads v p x hP (reduceConst_varsIn s ps p p' C hp' x hx) hxv)
  have hI : ∀ k, k ≤ n → ∀ v, ¬ Differ C B A v →
      run body D (Mem.par B m0) k v = run body sub.pending m0 k v := by
    intro k
    induction k with
    | zero =>
      intro _ v hnd
      apply hinv0
      cases hb : mGet B v with
      | none => rfl
      | some b => exact absurd (Or.inl (by rw [hb]; simp)) hnd
    | succ k ih =>
      intro hk v hnd
      exact hstep k (by omega) (ih (by omega)) v hnd
  -- moved variables
  have hmoved : ∀ v b, mGet B v = some b →
      run body D (Mem.par B m0) n v = run body sub.pending m0 n v := by
    intro v b hb
    rcases hvs v with ⟨_, hB, _, _⟩ | ⟨_, _, hB, _, _, _, _⟩ | ⟨_, _, _, hB, _, _, _, _, _⟩ |
      ⟨p, b', d, hP, hB, hD, _, _, hW, _, dinc, hd, hdv, hsum⟩ | ⟨_, _, _, hB, _, _, _⟩
    · rw [hB] at hb; cases hb
    · rw [hB] at hb; cases hb
    · rw [hB] at hb; cases hb
    · rw [hB] at hb
      cases hb
      have hacc := accN_run (fun k => run body D (Mem.par B m0) k v)
        (fun k => ev dinc (mid body sub.pending m0 k)) n (by
          intro k hk
          obtain ⟨_, hm2⟩ := hmid k hk (hI k (by omega))
          have hfr : mid body D (Mem.par B m0) k v = run body D (Mem.par B m0) k v :=
            hrf.frame k _ v hW
          rcases hd with hd | ⟨hd, hdn⟩
          · rw [hd] at hD
            rw [run_pending hD, ev_add, ev_var, hfr]
            congr 1
            apply ev_congr
            intro x hx
            exact hm2 x (hrf.pendReads v p x hP (hdv x hx).1 (hdv x hx).2)
          · rw [hd] at hD
            rw [run_not_pending hD, hfr, hdn]
            simp)
      simp only [run_zero] at hacc
      rw [hacc, par_of_get B m0 v b hB, hsum]
    · rw [hB] at hb; cases hb
  have hnoA : ∀ v, mGet A v = none →
      run body D (Mem.par B m0) n v = run body sub.pending m0 n v := by
    intro v hA
    cases hb : mGet B v with
    | some b => exact hmoved v b hb
    | none =>
      apply hI n (Nat.le_refl n) v
      rintro (h | h)
      · exact h hb
      · exact h.1 hA
  refine ⟨fun k hk => hreads k hk (hI k (by omega)), hI, hnoA, ?_, ?_⟩
  · -- after the loop
    intro hn
    funext v
    cases hA : mGet A v with
    | none => rw [par_of_not_mem A _ v hA]; exact hnoA v hA
    | some a =>
      rw [par_of_get A _ v a hA]
      rcases hvs v with ⟨_, _, _, hA'⟩ | ⟨_, _, _, _, hA', _, _⟩ | ⟨p, p', hP, hB, hD, hA', hp', _, huse⟩ |
        ⟨_, _, _, _, _, _, hA', _, _, _, _⟩ | ⟨_, _, _, _, _, hA', _⟩
      · rw [hA'] at hA; cases hA
      · rw [hA'] at hA; cases hA
      · rcases hA' with hA' | hA'
        · rw [hA'] at hA
          cases hA
          obtain ⟨k, rfl⟩ : ∃ k, n = k + 1 := ⟨n - 1, by omega⟩
          obtain ⟨hm1, _⟩ := hmid k (by omega) (hI k (by omega))
          rw [run_pending hP, ← reduce_mid ctx hp' k]
          apply ev_congr
          intro x hx
          have hconstx : C.contains x = true →
              run body D (Mem.par B m0) (k + 1) x = mid body sub.pending m0 k x := by
            intro hc
            have hnd : ¬ Differ C B A x := by
              rintro (h | h)
              · rcases hvs x with ⟨_, hB, _, _⟩ | ⟨_, _, hB, _, _, _, _⟩ | ⟨_, _, _, hB, _, _, _, _, _⟩ |
                  ⟨_, _, _, _, _, _, _, _, _, hcf, _⟩ | ⟨_, _, _, hB, _, _, _⟩
                · exact h hB
                · exact h hB
                · exact h hB
                · rw [hc] at hcf; cases hcf
                · exact h hB
              · rw [hc] at h; cases h.2
            rw [hI (k + 1) (Nat.le_refl _) x hnd, (ctx.const (k + 1) x hc).1, (ctx.const k x hc).2]
          rcases huse x hx with hu | hu
          · rcases hop x hu with hpx | hcx
            · obtain ⟨_, hDx, hAx⟩ := hall.nopend x hpx
              have hBx := (hall.nopend x hpx).1
              have hnd : ¬ Differ C B A x := by
                rintro (h | h)
                · exact h hBx
                · exact h.1 hAx
              rw [run_not_pending hDx]
              exact hm1 x (hI k (by omega) x hnd)
            · exact hconstx hcx
          · exact hconstx hu
        · omega
      · rw [hA'] at hA; cases hA
      · rw [hA'] at hA; cases hA
  · -- the loop is not entered: `before` changes nothing
    intro hn
    subst hn
    funext v
    cases hb : mGet B v with
    | none => exact par_of_not_mem B m0 v hb
    | some b => exact hmoved v b hb

end

end Hpbf.OptLoop
