/-
C10, part 4 — every tape offset in the IR produced by `Ir.parse` is bounded by the number of `<`/`>`
characters of the source (the "margin of the program's length" at optimisation level 0).

Invariant of the parser: after a prefix containing `n` characters `<`/`>`, in every frame of the
parser's stack the current `shift`, every key of the pending-additions buffer and every offset of the
instructions emitted so far lie in `[-n, n]`.  Offsets are only ever created from values of `shift`
(and from buffer keys, which are earlier values of `shift`).
-/
import Hpbf.Ir

namespace Hpbf
namespace Ir

variable {w : Nat}

mutual
/-- Tape offsets (relative to the pointer at the start of the enclosing block) occurring in an
instruction: sources, destinations, variables of expressions, loop conditions, and recursively the
offsets of nested bodies.  The `shift` of a nested block is a pointer move, NOT an offset. -/
def Instr.offsets : Instr w → List Int
  | .output src => [src]
  | .input dst => [dst]
  | .calc calcs => calcs.flatMap (fun ve => ve.1 :: Expr.variables ve.2)
  | .loop cond _ body _ => cond :: offsets body
  | .ifnz cond _ body => cond :: offsets body
/-- All tape offsets occurring anywhere in an instruction list. -/
def offsets : List (Instr w) → List Int
  | [] => []
  | i :: is => i.offsets ++ offsets is
end

/-- Number of `<` / `>` characters. -/
def moves (src : List Kind) : Nat := (src.filter (fun k => k == .left || k == .right)).length

end Ir

namespace C10
open Ir

variable {w : Nat}

/-- `|o| ≤ n`. -/
def Bd (n : Nat) (o : Int) : Prop := -(n : Int) ≤ o ∧ o ≤ (n : Int)

theorem Bd.mono {n m : Nat} {o : Int} (h : n ≤ m) (hb : Bd n o) : Bd m o := by
  unfold Bd at *; omega

theorem mem_offsets {o : Int} {l : List (Instr w)} :
    o ∈ offsets l ↔ ∃ i ∈ l, o ∈ i.offsets := by
  induction l with
  | nil => simp [offsets]
  | cons i is ih => simp [offsets, ih]

/-- Every offset of every instruction of the list is bounded by `n`. -/
def OffBd (n : Nat) (l : List (Instr w)) : Prop := ∀ i ∈ l, ∀ o ∈ i.offsets, Bd n o

def KeysBd (n : Nat) (b : List (Int × BitVec w)) : Prop := ∀ kv ∈ b, Bd n kv.1

theorem OffBd.cons {n : Nat} {i : Instr w} {l : List (Instr w)} (hi : ∀ o ∈ i.offsets, Bd n o)
    (hl : OffBd n l) : OffBd n (i :: l) := by
  intro j hj
  rcases List.mem_cons.1 hj with e | e
  · subst e; exact hi
  · exact hl j e

theorem OffBd.reverse {n : Nat} {l : List (Instr w)} (hl : OffBd n l) : OffBd n l.reverse :=
  fun i hi => hl i (List.mem_reverse.1 hi)

theorem OffBd.offsets {n : Nat} {l : List (Instr w)} (hl : OffBd n l) : ∀ o ∈ offsets l, Bd n o := by
  intro o ho
  obtain ⟨i, hi, hio⟩ := mem_offsets.1 ho
  exact hl i hi o hio

theorem bset_keys {n : Nat} {b : List (Int × BitVec w)} {k : Int} (v : BitVec w)
    (hb : KeysBd n b) (hk : Bd n k) : KeysBd n (bset b k v) := by
  induction b with
  | nil =>
    intro kv hkv
    simp only [bset, List.mem_singleton] at hkv
    subst hkv; exact hk
  | cons x rest ih =>
    obtain ⟨k', v'⟩ := x
    have hx := hb (k', v') (List.mem_cons_self ..)
    have hr : KeysBd n rest := fun kv h => hb kv (List.mem_cons_of_mem _ h)
    intro kv hkv
    simp only [bset] at hkv
    split at hkv
    · rcases List.mem_cons.1 hkv with e | e
      · subst e; exact hx
      · exact hr kv e
    · rcases List.mem_cons.1 hkv with e | e
      · subst e; exact hx
      · exact ih hr kv e

theorem mem_insertSorted {α : Type} (le : α → α → Bool) (x y : α) (l : List α)
    (h : y ∈ Expr.insertSorted le x l) : y = x ∨ y ∈ l := by
  induction l with
  | nil => simp only [Expr.insertSorted, List.mem_singleton] at h; exact Or.inl h
  | cons z zs ih =>
    simp only [Expr.insertSorted] at h
    split at h
    · rcases List.mem_cons.1 h with e | e
      · exact Or.inr (e ▸ List.mem_cons_self ..)
      · rcases ih e with e' | e'
        · exact Or.inl e'
        · exact Or.inr (List.mem_cons_of_mem _ e')
    · rcases List.mem_cons.1 h with e | e
      · exact Or.inl e
      · exact Or.inr e

theorem mem_stableSort {α : Type} (le : α → α → Bool) (y : α) (l : List α)
    (h : y ∈ Expr.stableSort le l) : y ∈ l := by
  have key : ∀ (l acc : List α), y ∈ l.foldl (fun acc x => Expr.insertSorted le x acc) acc →
      y ∈ acc ∨ y ∈ l := by
    intro l
    induction l with
    | nil => intro acc h; exact Or.inl h
    | cons x xs ih =>
      intro acc h
      simp only [List.foldl_cons] at h
      rcases ih _ h with e | e
      · rcases mem_insertSorted le x y acc e with e' | e'
        · exact Or.inr (e' ▸ List.mem_cons_self ..)
        · exact Or.inl e'
      · exact Or.inr (List.mem_cons_of_mem _ e)
  rcases key l [] h with e | e
  · cases e
  · exact e

theorem bsorted_keys {n : Nat} {b : List (Int × BitVec w)} (hb : KeysBd n b) : KeysBd n (bsorted b) :=
  fun kv h => hb kv (mem_stableSort _ kv b h)

theorem add_offsets {n : Nat} {k : Int} (v : BitVec w) (hk : Bd n k) :
    ∀ o ∈ (Instr.add k v : Instr w).offsets, Bd n o := by
  intro o ho
  simp [Instr.add, Instr.offsets, Expr.variables] at ho
  subst ho; exact hk

theorem load_offsets {n : Nat} {k : Int} (c : BitVec w) (hk : Bd n k) :
    ∀ o ∈ (Instr.load k c : Instr w).offsets, Bd n o := by
  intro o ho
  simp only [Instr.load, Instr.offsets, Expr.val, Expr.variables] at ho
  split at ho <;> simp at ho <;> (subst ho; exact hk)

theorem pushAdds_bd {n : Nat} (vars : List (Int × BitVec w)) :
    ∀ (r : List (Instr w)), OffBd n r → KeysBd n vars → OffBd n (pushAdds r vars) := by
  induction vars with
  | nil => intro r hr _; exact hr
  | cons kv rest ih =>
    intro r hr hv
    have hkv := hv kv (List.mem_cons_self ..)
    have hrest : KeysBd n rest := fun x h => hv x (List.mem_cons_of_mem _ h)
    simp only [pushAdds, List.foldl_cons]
    apply ih _ _ hrest
    split
    · exact OffBd.cons (add_offsets _ hkv) hr
    · exact hr

/-- The invariant on one frame of the parser's stack. -/
def FrameOk (n : Nat) (f : Frame w) : Prop := Bd n f.shift ∧ KeysBd n f.buff ∧ OffBd n f.rinsts

theorem FrameOk.mono {n m : Nat} {f : Frame w} (h : n ≤ m) (hf : FrameOk n f) : FrameOk m f :=
  ⟨hf.1.mono h, fun kv hkv => (hf.2.1 kv hkv).mono h, fun i hi o ho => (hf.2.2 i hi o ho).mono h⟩

theorem flushOne_ok {n : Nat} {f : Frame w} {k : Int} (hf : FrameOk n f) (hk : Bd n k) :
    FrameOk n (flushOne f k) := by
  unfold flushOne
  split
  · exact ⟨hf.1, bset_keys _ hf.2.1 hk, hf.2.2⟩
  · split
    · exact ⟨hf.1, bset_keys _ hf.2.1 hk, OffBd.cons (add_offsets _ hk) hf.2.2⟩
    · exact hf

theorem flushMany_ok {n : Nat} (vars : List (Int × BitVec w)) :
    ∀ (f : Frame w), FrameOk n f → KeysBd n vars →
      FrameOk n (vars.foldl (fun p kv => flushOne p kv.1) f) := by
  induction vars with
  | nil => intro f hf _; exact hf
  | cons kv rest ih =>
    intro f hf hv
    simp only [List.foldl_cons]
    exact ih _ (flushOne_ok hf (hv kv (List.mem_cons_self ..)))
      (fun x h => hv x (List.mem_cons_of_mem _ h))

theorem bump_ok {n : Nat} {f : Frame w} (d : BitVec w) (hf : FrameOk n f) : FrameOk n (bump f d) :=
  ⟨hf.1, bset_keys _ hf.2.1 hf.1, hf.2.2⟩

theorem map_zero_keys {n : Nat} {b : List (Int × BitVec w)} (hb : KeysBd n b) :
    KeysBd n (b.map (fun kv => (kv.1, 0#w))) := by
  intro kv hkv
  obtain ⟨x, hx, e⟩ := List.mem_map.1 hkv
  subst e
  exact hb x hx

theorem unbalanced_ok {n : Nat} (c : Bool) {q : Frame w} (hq : FrameOk n q) :
    FrameOk n (if c then
        { q with rinsts := pushAdds q.rinsts (bsorted q.buff)
                 buff := q.buff.map (fun kv => (kv.1, 0#w))
                 moved := true }
      else q) := by
  split
  · exact ⟨hq.1, map_zero_keys hq.2.1, pushAdds_bd _ _ hq.2.2 (bsorted_keys hq.2.1)⟩
  · exact hq

theorem closeLoop_ok {n : Nat} {sub par : Frame w} (hs : FrameOk n sub) (hp : FrameOk n par) :
    FrameOk n (closeLoop sub par) := by
  have hv := bsorted_keys hs.2.1
  have hbody : OffBd n (pushAdds sub.rinsts (bsorted sub.buff)).reverse :=
    (pushAdds_bd _ _ hs.2.2 hv).reverse
  unfold closeLoop
  simp only
  split
  · exact ⟨hp.1, bset_keys _ hp.2.1 hp.1, OffBd.cons (load_offsets _ hp.1) hp.2.2⟩
  · have h1 := flushMany_ok _ par hp hv
    have h2 := unbalanced_ok
      (sub.moved || sub.shift != ((bsorted sub.buff).foldl (fun p kv => flushOne p kv.1) par).shift) h1
    have h3 := flushOne_ok h2 h2.1
    refine ⟨h3.1, h3.2.1, OffBd.cons ?_ h3.2.2⟩
    intro o ho
    simp only [Instr.offsets, List.mem_cons] at ho
    rcases ho with e | e
    · rw [e]; exact h3.1
    · exact hbody.offsets o e

/-- The invariant on the whole parser state. -/
def StateOk (n : Nat) (ps : PState w) : Prop := FrameOk n ps.top ∧ ∀ f ∈ ps.rest, FrameOk n f

theorem StateOk.mono {n m : Nat} {ps : PState w} (h : n ≤ m) (hs : StateOk n ps) : StateOk m ps :=
  ⟨hs.1.mono h, fun f hf => (hs.2 f hf).mono h⟩

def moveCount (k : Kind) : Nat := if k == .left || k == .right then 1 else 0

theorem parseStep_ok {n : Nat} {ps ps' : PState w} {i : Nat} {k : Kind} (hs : StateOk n ps)
    (h : parseStep ps i k = .ok ps') : StateOk (n + moveCount k) ps' := by
  obtain ⟨ht, hr⟩ := hs
  cases k with
  | right =>
    simp only [parseStep, Except.ok.injEq] at h
    subst h
    have ht' := ht.mono (Nat.le_succ n)
    show StateOk (n + 1) _
    refine ⟨⟨?_, ht'.2.1, ht'.2.2⟩, fun f hf => (hr f hf).mono (Nat.le_succ n)⟩
    have := ht.1
    unfold Bd at *
    simp only
    omega
  | left =>
    simp only [parseStep, Except.ok.injEq] at h
    subst h
    have ht' := ht.mono (Nat.le_succ n)
    show StateOk (n + 1) _
    refine ⟨⟨?_, ht'.2.1, ht'.2.2⟩, fun f hf => (hr f hf).mono (Nat.le_succ n)⟩
    have := ht.1
    unfold Bd at *
    simp only
    omega
  | inc =>
    simp only [parseStep, Except.ok.injEq] at h
    subst h
    exact ⟨bump_ok _ ht, hr⟩
  | dec =>
    simp only [parseStep, Except.ok.injEq] at h
    subst h
    exact ⟨bump_ok _ ht, hr⟩
  | out =>
    simp only [parseStep, Except.ok.injEq] at h
    subst h
    have hf := flushOne_ok ht ht.1
    refine ⟨⟨hf.1, hf.2.1, OffBd.cons ?_ hf.2.2⟩, hr⟩
    intro o ho
    simp only [Instr.offsets, List.mem_singleton] at ho
    rw [ho]; exact hf.1
  | inp =>
    simp only [parseStep, Except.ok.injEq] at h
    subst h
    refine ⟨⟨ht.1, bset_keys _ ht.2.1 ht.1, OffBd.cons ?_ ht.2.2⟩, hr⟩
    intro o ho
    simp only [Instr.offsets, List.mem_singleton] at ho
    rw [ho]; exact ht.1
  | «open» =>
    simp only [parseStep, Except.ok.injEq] at h
    subst h
    refine ⟨⟨ht.1, ?_, ?_⟩, ?_⟩
    · intro kv hkv; cases hkv
    · intro j hj; cases hj
    · intro f hf
      rcases List.mem_cons.1 hf with e | e
      · subst e; exact ht
      · exact hr f e
  | close =>
    simp only [parseStep] at h
    split at h
    · cases h
    · cases h
    · rename_i poss par rest hpos hrest
      simp only [Except.ok.injEq] at h
      subst h
      have hpar : FrameOk n par := hr par (by rw [hrest]; exact List.mem_cons_self ..)
      refine ⟨closeLoop_ok ht hpar, ?_⟩
      intro f hf
      exact hr f (by rw [hrest]; exact List.mem_cons_of_mem _ hf)
  | comment =>
    simp only [parseStep, Except.ok.injEq] at h
    subst h
    exact ⟨ht, hr⟩

theorem moves_cons (k : Kind) (ks : List Kind) : moves (k :: ks) = moveCount k + moves ks := by
  unfold moves moveCount
  simp only [List.filter_cons]
  split <;> simp <;> omega

theorem parseLoop_ok (ks : List Kind) :
    ∀ {n i : Nat} {ps ps' : PState w}, StateOk n ps → parseLoop ks i ps = .ok ps' →
      StateOk (n + moves ks) ps' := by
  induction ks with
  | nil =>
    intro n i ps ps' hs h
    simp only [parseLoop, Except.ok.injEq] at h
    subst h
    exact hs
  | cons k ks ih =>
    intro n i ps ps' hs h
    simp only [parseLoop] at h
    split at h
    · cases h
    · rename_i ps1 h1
      have := ih (parseStep_ok hs h1) h
      rw [moves_cons]
      rw [Nat.add_assoc] at this
      exact this

/-- The parser bound: all offsets of the parsed block, and its final shift, are bounded by the
number of `<`/`>` characters. -/
theorem parse_bd {src : List Kind} {blk : Block w} (h : parse (w := w) src = .ok blk) :
    Bd (moves src) blk.shift ∧ ∀ o ∈ offsets blk.insts, Bd (moves src) o := by
  unfold parse at h
  split at h
  · cases h
  · rename_i ps hps
    have h0 : StateOk 0
        ({ top := { shift := 0, moved := false, rinsts := [], buff := [] }, rest := [], positions := [] } :
          PState w) := by
      refine ⟨⟨by unfold Bd; simp, ?_, ?_⟩, ?_⟩
      · intro kv hkv; cases hkv
      · intro j hj; cases hj
      · intro f hf; cases hf
    have hs := parseLoop_ok src h0 hps
    rw [Nat.zero_add] at hs
    split at h
    · simp only [Except.ok.injEq] at h
      subst h
      exact ⟨hs.1.1, (pushAdds_bd _ _ hs.1.2.2 (bsorted_keys hs.1.2.1)).reverse.offsets⟩
    · cases h
    · cases h

theorem moves_le_length (src : List Kind) : moves src ≤ src.length :=
  List.length_filter_le _ _

end C10
end Hpbf
