/-
C15, part 6: the code BEFORE the repair of `Expr::mul` / `Expr::prod_of` (commit "keep expressions
normalized in Expr::mul fast paths and Expr::prod_of").
`mulOrig` uses the unsorted one-term fast path `scaleAppendOrig`; `prodOfOrig` does not re-sort.
* Values are still right (`eval_mulOrig`, `eval_prodOfOrig`).
* `mulOrig` breaks the normal form, `add` then yields two parts with equal `vars`, and `prodOfOrig`
  turns these into two equal one-variable parts and a constant part that is not first, on which
  `constantPart`, `incOf`, `prodIncOf` recompose to a WRONG value (`orig_witness_*`, w = 8).
* Without `prodOfOrig` the decompositions stayed right: the weaker invariant `SCanon` (every part with
  at most one variable is strictly greater than all parts before it) is preserved by
  `val var add mulOrig neg half normalize symbEvaluate` and implies `WeakCanon`.
-/
import Hpbf.Proofs.C15Canon

namespace Hpbf
namespace Expr
variable {w : Nat}

/-- `Expr::mul` before the repair. -/
def mulOrig (a b : Expr w) : Expr w :=
  match a, b with
  | [], _ => val 0#w
  | _, [] => val 0#w
  | [p], _ => scaleAppendOrig b p
  | _, [q] => scaleAppendOrig a q
  | _, _ =>
    finish (a.foldl (fun m sp =>
      b.foldl (fun m op => accum m (sortVars (sp.vars ++ op.vars)) (sp.coef * op.coef)) m) [])

/-- `Expr::prod_of` before the repair. -/
def prodOfOrig (e : Expr w) (v : Int) : Option (Expr w) :=
  if e.all (fun p => (p.vars.filter (· == v)).length == 1) then
    some (e.map (fun p => { coef := p.coef, vars := p.vars.filter (· != v) }))
  else none

theorem eval_mulOrig (a b : Expr w) (f : Int → BitVec w) :
    evaluate (mulOrig a b) f = evaluate a f * evaluate b f := by
  unfold mulOrig
  split
  · simp [eval_val]
  · simp [eval_val]
  · rw [eval_scaleAppendOrig, evaluate_singleton, evalPart_eq]; grind
  · rw [eval_scaleAppendOrig, evaluate_singleton, evalPart_eq]
  · rw [evaluate_finish, evalM_mulLoop]; simp

theorem eval_prodOfOrig (e r : Expr w) (v : Int) (f : Int → BitVec w) (h : prodOfOrig e v = some r) :
    evaluate e f = f v * evaluate r f := by
  unfold prodOfOrig at h
  split at h
  · rename_i hall
    simp only [Option.some.injEq] at h
    subst h
    induction e with
    | nil => simp
    | cons p e ih =>
      simp only [List.all_cons, Bool.and_eq_true, beq_iff_eq] at hall
      simp only [List.map_cons, evaluate_cons', ih hall.2, mono_filter_ne f v p.vars hall.1]
      grind
  · cases h

/-! ### The witness (w = 8): `x7 * (1 + x5) + x7 * x5`, then divide by `x7` -/

/-- `Expr::var(7).mul(Expr::val(1).add(Expr::var(5))).add(Expr::var(7).mul(Expr::var(5)))`. -/
def origWitness : Expr 8 :=
  add (mulOrig (var 7) (add (val 1#8) (var 5))) (mulOrig (var 7) (var 5))

theorem origWitness_fastPath :
    mulOrig (var 7 : Expr 8) (add (val 1#8) (var 5)) = [⟨1#8, [7]⟩, ⟨1#8, [5, 7]⟩] := by
  simp [add, val, var, cmpVars, mulOrig, scaleAppendOrig]

theorem origWitness_eq : origWitness = [⟨1#8, [5, 7]⟩, ⟨1#8, [7]⟩, ⟨1#8, [5, 7]⟩] := by
  unfold origWitness
  rw [origWitness_fastPath]
  simp [add, var, cmpVars, mulOrig, scaleAppendOrig]

/-- The quotient by `x7`: value `2*x5 + 1`, as parts `[1*[5], 1*[], 1*[5]]`. -/
def origQuot : Expr 8 := [⟨1#8, [5]⟩, ⟨1#8, []⟩, ⟨1#8, [5]⟩]

theorem origWitness_prodOf : prodOfOrig origWitness 7 = some origQuot := by
  rw [origWitness_eq]; decide

/-- The old fast path leaves the parts out of order. -/
theorem orig_fastPath_not_canon : ¬ Canon (mulOrig (var 7 : Expr 8) (add (val 1#8) (var 5))) := by
  rw [origWitness_fastPath]; decide

/-- `add` of two API-built expressions then has two parts with equal `vars`. -/
theorem orig_add_duplicates : ¬ (origWitness.map (·.vars)).Nodup := by
  rw [origWitness_eq]; decide

/-- `constantPart` of the quotient is wrong. -/
theorem orig_witness_constantPart : constantPart origQuot ≠ evaluate origQuot (fun _ => 0#8) := by
  decide

/-- `incOf` claims the quotient is `x5 + 1`; it is `2*x5 + 1`. -/
theorem orig_witness_incOf :
    ∃ r, incOf origQuot 5 = some r ∧
      evaluate origQuot (fun _ => 1#8) ≠ (fun _ => 1#8) 5 + evaluate r (fun _ => 1#8) :=
  ⟨[⟨1#8, []⟩], by decide, by decide⟩

/-- `prodIncOf` claims the quotient is `1*x5 + 1`. -/
theorem orig_witness_prodIncOf :
    ∃ r m, prodIncOf origQuot 5 = some (r, m) ∧
      evaluate origQuot (fun _ => 1#8) ≠ m * (fun _ => 1#8) 5 + evaluate r (fun _ => 1#8) :=
  ⟨[⟨1#8, []⟩], 1#8, by decide, by decide⟩

/-- With the repaired `mul` and `prodOf` the same construction is in normal form and decomposes
correctly. -/
theorem repaired_witness :
    let e : Expr 8 := add (mul (var 7) (add (val 1#8) (var 5))) (mul (var 7) (var 5))
    e = [⟨2#8, [5, 7]⟩, ⟨1#8, [7]⟩] ∧ prodOf e 7 = some [⟨1#8, []⟩, ⟨2#8, [5]⟩] := by
  have h1 : mul (var 7 : Expr 8) (add (val 1#8) (var 5)) = [⟨1#8, [5, 7]⟩, ⟨1#8, [7]⟩] := by
    simp [add, val, var, cmpVars, mul]; decide
  have h2 : mul (var 7 : Expr 8) (var 5) = [⟨1#8, [5, 7]⟩] := by
    simp [var, mul]; decide
  simp only [h1, h2]
  have h3 : add ([⟨1#8, [5, 7]⟩, ⟨1#8, [7]⟩] : Expr 8) [⟨1#8, [5, 7]⟩] = [⟨2#8, [5, 7]⟩, ⟨1#8, [7]⟩] := by
    simp [add, cmpVars]
  rw [h3]
  exact ⟨rfl, by decide⟩

/-! ### What the original code did preserve: `SCanon` -/

/-- Every part with at most one variable is strictly greater than all parts before it. -/
def SCanonV (V : List (List Int)) : Prop :=
  V.Pairwise (fun a b => b.length ≤ 1 → cmpVars a b = .lt)

def SCanon (e : Expr w) : Prop := SCanonV (e.map (·.vars))

instance (e : Expr w) : Decidable (SCanon e) := by unfold SCanon SCanonV; infer_instance

theorem SCanon.of_strict {e : Expr w}
    (h : (e.map (·.vars)).Pairwise (fun a b => cmpVars a b = .lt)) : SCanon e := by
  unfold SCanon SCanonV
  refine List.Pairwise.imp ?_ h
  intro a b hlt _
  exact hlt

theorem Canon.scanon {e : Expr w} (h : Canon e) : SCanon e := SCanon.of_strict h.2

theorem SCanon.weak {e : Expr w} (h : SCanon e) : WeakCanon e := by
  unfold WeakCanon
  have h' : e.Pairwise (fun p q => q.vars.length ≤ 1 → cmpVars p.vars q.vars = .lt) :=
    List.pairwise_map.1 h
  refine h'.imp ?_
  intro p q hpq
  constructor
  · intro hq
    have := hpq (by rw [hq]; simp)
    rw [hq] at this
    exact cmpVars_nil_right this
  · intro hl
    exact cmpVars_lt_ne (hpq (by omega))

theorem scanon_cons {p : Part w} {e : Expr w} :
    SCanon (p :: e) ↔ (∀ q ∈ e, q.vars.length ≤ 1 → cmpVars p.vars q.vars = .lt) ∧ SCanon e := by
  unfold SCanon SCanonV
  rw [List.map_cons, List.pairwise_cons]
  simp

theorem SCanon.sublist {e e' : Expr w} (hs : e'.Sublist e) (h : SCanon e) : SCanon e' :=
  List.Pairwise.sublist (hs.map _) h

theorem SCanon.of_vars_eq {e e' : Expr w} (hv : e'.map (·.vars) = e.map (·.vars)) (h : SCanon e) :
    SCanon e' := by
  unfold SCanon; rw [hv]; exact h

theorem SCanon.map_coef {e : Expr w} (g : Part w → Part w) (hg : ∀ p, (g p).vars = p.vars)
    (h : SCanon e) : SCanon (e.map g) := by
  apply h.of_vars_eq
  rw [List.map_map]
  exact List.map_congr_left (fun p _ => hg p)

theorem scanon_val (c : BitVec w) : SCanon (val c) := (canon_val c).scanon
theorem scanon_var (v : Int) : SCanon (var v : Expr w) := (canon_var v).scanon
theorem scanon_neg {a : Expr w} (h : SCanon a) : SCanon (neg a) := h.map_coef _ (fun _ => rfl)

theorem scanon_half {a r : Expr w} (h : SCanon a) (hh : half a = some r) : SCanon r := by
  unfold half at hh
  split at hh
  · simp only [Option.some.injEq] at hh
    subst hh
    exact h.map_coef _ (fun _ => rfl)
  · cases hh

/-- `add` needs only this much order of its inputs to keep one-variable and constant parts unique. -/
theorem scanon_add {a b : Expr w} (ha : SCanon a) (hb : SCanon b) : SCanon (add a b) := by
  fun_induction add a b with
  | case1 b => exact hb
  | case2 a _ => exact ha
  | case3 p ps q qs hc ih =>
    obtain ⟨ha2, ha3⟩ := scanon_cons.1 ha
    obtain ⟨hb2, hb3⟩ := scanon_cons.1 hb
    refine scanon_cons.2 ⟨?_, ih ha3 hb⟩
    intro r hr hlen
    rcases mem_add_vars hr with ⟨s, hs, e⟩ | ⟨s, hs, e⟩
    · rw [e] at hlen ⊢; exact ha2 s hs hlen
    · rw [e] at hlen ⊢
      rcases List.mem_cons.1 hs with rfl | hs
      · exact hc
      · exact cmpVars_lt_trans hc (hb2 s hs hlen)
  | case4 p ps q qs hc ih =>
    obtain ⟨ha2, ha3⟩ := scanon_cons.1 ha
    obtain ⟨hb2, hb3⟩ := scanon_cons.1 hb
    have hqp : cmpVars q.vars p.vars = .lt := cmpVars_swap.2 hc
    refine scanon_cons.2 ⟨?_, ih ha hb3⟩
    intro r hr hlen
    rcases mem_add_vars hr with ⟨s, hs, e⟩ | ⟨s, hs, e⟩
    · rw [e] at hlen ⊢
      rcases List.mem_cons.1 hs with rfl | hs
      · exact hqp
      · exact cmpVars_lt_trans hqp (ha2 s hs hlen)
    · rw [e] at hlen ⊢; exact hb2 s hs hlen
  | case5 p ps q qs hc c hne ih =>
    obtain ⟨ha2, ha3⟩ := scanon_cons.1 ha
    obtain ⟨hb2, hb3⟩ := scanon_cons.1 hb
    have hv : p.vars = q.vars := cmpVars_eq_iff.1 hc
    refine scanon_cons.2 ⟨?_, ih ha3 hb3⟩
    intro r hr hlen
    show cmpVars p.vars r.vars = .lt
    rcases mem_add_vars hr with ⟨s, hs, e⟩ | ⟨s, hs, e⟩
    · rw [e] at hlen ⊢; exact ha2 s hs hlen
    · rw [e] at hlen ⊢; rw [hv]; exact hb2 s hs hlen
  | case6 p ps q qs hc c hne ih =>
    exact ih (scanon_cons.1 ha).2 (scanon_cons.1 hb).2

/-- The unsorted fast path keeps `SCanon` (but not `Canon`, see `orig_fastPath_not_canon`). -/
theorem scanon_scaleAppendOrig {e : Expr w} (p : Part w) (h : SCanon e) :
    SCanon (scaleAppendOrig e p) := by
  unfold scaleAppendOrig
  refine SCanon.sublist (e := e.map (fun q => ({ coef := q.coef * p.coef, vars := q.vars ++ p.vars } : Part w)))
    List.filter_sublist ?_
  unfold SCanon SCanonV
  rw [List.map_map]
  have : ((fun q : Part w => q.vars) ∘ fun q : Part w =>
      ({ coef := q.coef * p.coef, vars := q.vars ++ p.vars } : Part w))
      = (fun vs => vs ++ p.vars) ∘ (fun q : Part w => q.vars) := rfl
  rw [this, ← List.map_map, List.pairwise_map]
  refine List.Pairwise.imp ?_ h
  intro a b hab hlen
  cases hp : p.vars with
  | nil =>
    rw [hp] at hlen
    simp only [List.append_nil] at hlen ⊢
    exact hab hlen
  | cons v vs =>
    rw [hp] at hlen
    have hb : b = [] := by
      cases b with
      | nil => rfl
      | cons _ _ => simp at hlen
    exact absurd (hab (by rw [hb]; simp)) (by rw [hb]; exact cmpVars_nil_right)

theorem scanon_mulOrig {a b : Expr w} (ha : SCanon a) (hb : SCanon b) : SCanon (mulOrig a b) := by
  unfold mulOrig
  split
  · exact scanon_val _
  · exact scanon_val _
  · exact scanon_scaleAppendOrig _ hb
  · exact scanon_scaleAppendOrig _ ha
  · exact (canon_finish (tableOK_foldl2 (fun sp op : Part w => sortVars (sp.vars ++ op.vars))
      (fun sp op => sp.coef * op.coef) (fun _ _ => sortVars_sorted _) a b [] tableOK_nil)).scanon

theorem scanon_normalize {e : Expr w} (h : SCanon e) : SCanon (normalize e) := by
  rw [normalize_eq]
  split
  · have h1 : SCanon (normPhase1 e) := by
      unfold normPhase1
      split
      · simp only []
        split
        · exact SCanon.of_strict (strict_mergeSorted _).1
        · rename_i hne
          rw [dedupMap_eq_self e hne]; exact h
      · exact h
    generalize normPhase1 e = e1 at h1
    unfold normPhase2'
    split
    · obtain ⟨s1, _⟩ := normPhase2_spec (fun _ => 0#w) (halfMod w + 1#w) (halfMod w + (-1#w))
        (e1.map (·.vars)) e1.length 0 e1.toArray [] false (by simp) (IdxOK_nil _)
      generalize normPhase2 (halfMod w) (halfMod w + 1#w) (halfMod w + (-1#w)) e1.length 0 e1.toArray [] false
        = st at s1
      obtain ⟨parts, need⟩ := st
      simp only at s1 ⊢
      have hc : SCanon parts.toList := h1.of_vars_eq s1
      split
      · exact hc.sublist List.filter_sublist
      · exact hc
    · exact h1
  · exact h

theorem nodup_keys_foldl {α : Type} (K : α → List Int) (C : α → BitVec w) (l : List α)
    (m : List (List Int × BitVec w)) (h : (m.map Prod.fst).Nodup) :
    ((l.foldl (fun m x => accum m (K x) (C x)) m).map Prod.fst).Nodup := by
  induction l generalizing m with
  | nil => exact h
  | cons x l ih => exact ih _ (nodup_keys_accum m _ _ h)

theorem nodup_keys_symbLoop (g : Int → Option (Expr w)) (ps : List (Part w))
    (m m' : List (List Int × BitVec w)) (hm : (m.map Prod.fst).Nodup)
    (h : symbLoop g ps m = some m') : (m'.map Prod.fst).Nodup := by
  induction ps generalizing m with
  | nil =>
    simp only [symbLoop, Option.some.injEq] at h
    subst h; exact hm
  | cons p ps ih =>
    rw [symbLoop] at h
    split at h
    · exact ih _ (nodup_keys_accum m _ _ hm) h
    · rename_i v hv
      cases hgv : g v with
      | none => simp [hgv] at h
      | some e =>
        simp only [hgv] at h
        exact ih _ (nodup_keys_foldl (fun vp : Part w => vp.vars) (fun vp => p.coef * vp.coef) e m hm) h
    · rename_i v vs hne hv
      cases hgv : g v with
      | none => simp [hgv] at h
      | some e0 =>
        simp only [hgv] at h
        cases hs : substProd g e0 vs with
        | none => simp [hs] at h
        | some pr =>
          simp only [hs] at h
          exact ih _ (nodup_keys_foldl (fun vp : Part w => vp.vars) (fun vp => p.coef * vp.coef) pr m hm) h

theorem strict_finish {m : List (List Int × BitVec w)} (h : (m.map Prod.fst).Nodup) :
    ((finish m).map (·.vars)).Pairwise (fun a b => cmpVars a b = .lt) := by
  unfold finish
  generalize hl : (m.filter (fun kc => kc.2 != 0#w)).map (fun kc => ({ coef := kc.2, vars := kc.1 } : Part w)) = l
  have hnd : (l.map (·.vars)).Nodup := by
    rw [← hl, List.map_map]
    have : ((fun p : Part w => p.vars) ∘ fun kc : List Int × BitVec w => ({ coef := kc.2, vars := kc.1 } : Part w))
        = Prod.fst := rfl
    rw [this]
    exact h.sublist (List.filter_sublist.map _)
  have hperm := stableSort_perm (fun a b : Part w => leVars a.vars b.vars) l
  have hle : ((stableSort (fun a b : Part w => leVars a.vars b.vars) l).map (·.vars)).Pairwise
      (fun a b => leVars a b = true) := by
    rw [List.pairwise_map]
    exact stableSort_sorted (fun a b : Part w => leVars a.vars b.vars)
      (fun a b => leVars_total a.vars b.vars) (fun a b c => leVars_trans) l
  have hnd' := (hperm.map (·.vars)).nodup_iff.2 hnd
  refine (hle.and hnd').imp ?_
  rintro a b ⟨h1, h2⟩
  rcases leVars_iff.1 h1 with h | h
  · exact h
  · exact absurd h h2

theorem scanon_symbEvaluate {e r : Expr w} (g : Int → Option (Expr w))
    (hg : ∀ v e', g v = some e' → SCanon e') (h : symbEvaluate e g = some r) : SCanon r := by
  unfold symbEvaluate at h
  split at h
  · rename_i v hid
    exact hg v r h
  · split at h
    · simp only [Option.some.injEq] at h
      subst h; exact scanon_val _
    · split at h
      · cases h
      · rename_i m hm
        simp only [Option.some.injEq] at h
        subst h
        exact SCanon.of_strict (strict_finish (nodup_keys_symbLoop g e [] m (by simp) hm))

/-- The original `prodOfOrig` does NOT keep `SCanon` (nor `WeakCanon`), even on its own. -/
theorem orig_prodOf_breaks : SCanon origWitness ∧ ¬ WeakCanon origQuot := by
  rw [origWitness_eq]; decide

/-- Likewise `add` does not keep the weak invariant alone: it really needs the order. -/
theorem add_needs_order :
    let a : Expr 8 := [⟨1#8, [9, 3]⟩, ⟨1#8, [7]⟩]
    let b : Expr 8 := [⟨1#8, [7]⟩]
    WeakCanon a ∧ WeakCanon b ∧ ¬ WeakCanon (add a b) := by
  have h : add ([⟨1#8, [9, 3]⟩, ⟨1#8, [7]⟩] : Expr 8) [⟨1#8, [7]⟩]
      = [⟨1#8, [7]⟩, ⟨1#8, [9, 3]⟩, ⟨1#8, [7]⟩] := by simp [add, cmpVars]
  simp only [h]
  decide

end Expr
end Hpbf
